import TantivyModel.Model.Tokenizer.Scan
import TantivyModel.Gen.Tokenizer
/-!
# Token filters (C19) as transforms of the token list

Every filter rewrites or drops tokens but never assigns `offset_from`, `offset_to` or `position`.
Text-level functions that belong to Rust `std` or external crates are **parameters**:
`char::to_lowercase`, the `fold_non_ascii_char` table, `rust_stemmers`, the Aho-Corasick
dictionary matcher.
-/
namespace TantivyModel.Tok

/-- `str::len` of a token text -/
def textByteLen (t : List Nat) : Nat := (t.map utf8Len).sum

def isAsciiText (t : List Nat) : Bool := t.all (fun c => c < 128)

/-- `make_ascii_lowercase` on one scalar -/
def asciiLower (c : Nat) : Nat := if 0x41 ≤ c ∧ c ≤ 0x5A then c + 32 else c

inductive Filter where
  /-- LowerCaser; `f` = `char::to_lowercase` (used only on non-ASCII token texts) -/
  | lower (f : Nat → List Nat)
  /-- AsciiFoldingFilter; `f` = `fold_non_ascii_char` -/
  | fold (f : Nat → Option (List Nat))
  /-- RemoveLongFilter::limit -/
  | removeLong (limit : Nat)
  /-- AlphaNumOnlyFilter -/
  | alnumOnly
  /-- StopWordFilter -/
  | stop (words : List (List Nat))
  /-- Stemmer; `f` = the stemming algorithm -/
  | stem (f : List Nat → List Nat)
  /-- SplitCompoundWords; `f t` = `some parts` when the dictionary splits `t` completely -/
  | split (f : List Nat → Option (List (List Nat)))

-- mirrors: src/tokenizer/lower_caser.rs::advance
def lowerText (f : Nat → List Nat) (t : List Nat) : List Nat :=
  if isAsciiText t then t.map asciiLower else t.flatMap f

-- mirrors: src/tokenizer/ascii_folding_filter.rs::advance
-- mirrors: src/tokenizer/ascii_folding_filter.rs::to_ascii
def foldText (f : Nat → Option (List Nat)) (t : List Nat) : List Nat :=
  if isAsciiText t then t else t.flatMap (fun c => (f c).getD [c])

-- mirrors: src/tokenizer/remove_long.rs::predicate
def removeLongKeeps (limit : Nat) (t : List Nat) : Bool :=
  if Gen.REMOVE_LONG_KEEPS_EQUAL = 0 then decide (textByteLen t < limit)
  else decide (textByteLen t ≤ limit)

/-- what one filter makes of one token (0, 1 or several tokens, all with the token's offsets)
-- mirrors: src/tokenizer/alphanum_only.rs::predicate
-- mirrors: src/tokenizer/stop_word_filter/mod.rs::predicate
-- mirrors: src/tokenizer/stemmer.rs::advance
-- mirrors: src/tokenizer/split_compound_words.rs::split -/
def Filter.onToken : Filter → Token → List Token
  | .lower f, t => [{ t with text := lowerText f t.text }]
  | .fold f, t => [{ t with text := foldText f t.text }]
  | .removeLong limit, t => if removeLongKeeps limit t.text then [t] else []
  | .alnumOnly, t => if t.text.all isAsciiAlnum then [t] else []
  | .stop words, t => if words.contains t.text then [] else [t]
  | .stem f, t => [{ t with text := f t.text }]
  | .split f, t =>
    match f t.text with
    | some (p :: ps) => (p :: ps).map (fun q => { t with text := q })
    | _ => [t]

def Filter.apply (f : Filter) (ts : List Token) : List Token := ts.flatMap f.onToken

def applyChain (fs : List Filter) (ts : List Token) : List Token :=
  fs.foldl (fun acc f => f.apply acc) ts

end TantivyModel.Tok

namespace TantivyModel.Tok

/-! ### FacetTokenizer under a filter chain

`FacetTokenizer` is the only tokenizer that does not clear `token.text` on `advance`: it *appends*
the next path segment to whatever the text buffer holds. Filters that rewrite the text in place
(`LowerCaser`, `AsciiFoldingFilter`, `Stemmer` through `token_mut()`) therefore rewrite the buffer
the tokenizer builds on, so the chain cannot be applied token by token: the buffer is threaded
through. (Offsets and positions stay 0 whatever happens.) -/

/-- what the stream exposes for the current emission: the tokenizer's own token (its text is the
persistent buffer) or detached parts produced by `SplitCompoundWords` (clones) -/
inductive Exposed where
  | tail
  | parts (ps : List (List Nat))

/-- run the filters (innermost first) over one emission; returns the buffer afterwards and the
texts that come out. A dropping filter ends the emission: outer filters never see the token, inner
rewrites have already happened.
-- mirrors: src/tokenizer/facet_tokenizer.rs::advance -/
def facetThrough : List Filter → List Nat → Exposed → (List Nat × List (List Nat))
  | [], cur, .tail => (cur, [cur])
  | [], cur, .parts ps => (cur, ps)
  | .lower g :: fs, cur, .tail => facetThrough fs (lowerText g cur) .tail
  | .fold g :: fs, cur, .tail => facetThrough fs (foldText g cur) .tail
  | .stem g :: fs, cur, .tail => facetThrough fs (g cur) .tail
  | .removeLong l :: fs, cur, .tail =>
    if removeLongKeeps l cur then facetThrough fs cur .tail else (cur, [])
  | .alnumOnly :: fs, cur, .tail =>
    if cur.all isAsciiAlnum then facetThrough fs cur .tail else (cur, [])
  | .stop ws :: fs, cur, .tail =>
    if ws.contains cur then (cur, []) else facetThrough fs cur .tail
  | .split g :: fs, cur, .tail =>
    match g cur with
    | some (p :: ps) => facetThrough fs cur (.parts (p :: ps))
    | _ => facetThrough fs cur .tail
  | f :: fs, cur, .parts ps =>
    facetThrough fs cur (.parts (ps.flatMap (fun p => (f.onToken ⟨0, 0, 0, p⟩).map (·.text))))

/-- the segments the tokenizer appends: nothing for the root, then the text between consecutive
cuts (`facetCuts`) -/
def facetPiecesAux (s : Text) : Nat → List Nat → List (List Nat)
  | _, [] => []
  | a, c :: cs => (sliceFrom 0 s a c).map Cp.code :: facetPiecesAux s c cs

def facetPieces (sep : Nat) (s : Text) : List (List Nat) :=
  [] :: (if s.isEmpty then [] else facetPiecesAux s 0 (facetCuts sep true 0 s))

def facetChainAux (fs : List Filter) : List Nat → List (List Nat) → List (List Nat)
  | _, [] => []
  | cur, p :: ps =>
    let r := facetThrough fs (cur ++ p) .tail
    r.2 ++ facetChainAux fs r.1 ps

/-- token stream of `FacetTokenizer` + filter chain: every token still carries (0, 0, 0) -/
def facetChain (sep : Nat) (fs : List Filter) (s : Text) : List Token :=
  (facetChainAux fs [] (facetPieces sep s)).map (fun t => ⟨0, 0, 0, t⟩)

end TantivyModel.Tok
