import TantivyModel.Gen.Reader
/-
Model of the reader / garbage-collector protocol around `meta.json` and `.tantivy-meta.lock`.

-- mirrors: src/reader/mod.rs::open_segment_readers   (acquire META_LOCK; load meta; open every
--          component of every segment; release)
-- mirrors: src/reader/mod.rs::reload                 (create_searcher, then `ArcSwap::store` —
--          *after* the lock has been released)
-- mirrors: src/directory/managed_directory.rs::garbage_collect  (acquire META_LOCK; compute the
--          living set; release; only then delete)
-- mirrors: src/indexer/segment_updater.rs::save_metas (atomic_write of meta.json, no lock)
-- mirrors: src/directory/directory.rs::acquire_lock   (lock = exclusive creation of a file)

Threads and processes are explicit nondeterminism: a *trace* is any list of events, a reader is
identified by a number, a reload by (reader, call number); nothing distinguishes a reader in the
writer's process from one in another process. File handles are immutable values
(`OwnedBytes`): opening a path copies its bytes into the handle, and no event touches a handle
afterwards (`Directory::delete`: "Removing a file will not affect an eventual existing
FileSlice pointing to it").
-/
namespace TantivyModel.Reader

abbrev Path := Nat
/-- one `reload()` call: (reader, call number) -/
abbrev Rid := Nat × Nat

inductive Ev where
  | acquire (r : Rid)                 -- reader: META_LOCK file created
  | loadMeta (r : Rid)                -- reader: atomic_read(meta.json) → meta_j, j = latest
  | openFile (r : Rid) (p : Path)     -- reader: open_read of one segment component
  | release (r : Rid)                 -- reader: META_LOCK file removed
  | warm (r : Rid)                    -- reader: every registered `Warmer::warm` returned Ok for
                                      -- the new searcher (`warm_new_searcher_generation`)
  | publish (r : Rid)                 -- reader: ArcSwap::store of the new searcher
  | create (p : Path) (bytes : Nat)   -- writer: a segment file is written (not yet referenced)
  | saveMeta (files : List Path)      -- writer: SaveMeta j (j = number of metas saved before)
  | gcAcquire
  | gcList (living : List Path)       -- GC: living set computed; everything else is doomed
  | gcRelease
  | gcDelete (p : Path)
  | mLock (r : Rid)                   -- reader: `reload()` takes the reader's `reload_lock`
  | mUnlock (r : Rid)                 -- reader: … and drops the guard when it returns
deriving DecidableEq, Repr

inductive Holder where
  | reader (r : Rid)
  | gc
deriving DecidableEq, Repr

inductive Phase where
  | idle | locked | loaded | released | published
deriving DecidableEq, Repr

/-- an open file: the bytes are part of the value -/
structure Handle where
  path : Path
  bytes : Nat
deriving DecidableEq, Repr

structure RState where
  phase : Phase := .idle
  /-- index of the meta read by `loadMeta` -/
  j : Option Nat := none
  /-- paths passed to `openFile` so far -/
  tried : List Path := []
  /-- successful opens -/
  handles : List Handle := []
  failed : Bool := false
  /-- the warmers have run on this reload's searcher -/
  warmed : Bool := false
deriving Repr

structure St where
  /-- `metas[j]` = files referenced by meta_j; meta_0 is the empty index written by `Index::create` -/
  metas : List (List Path) := [[]]
  /-- directory content -/
  fs : List (Path × Nat) := []
  deleted : List Path := []
  lock : Option Holder := none
  rs : Rid → RState := fun _ => {}
  started : List Rid := []
  /-- files the last `gcList` decided to delete -/
  gcDels : List Path := []
  /-- index of the newest meta when the last `gcList` ran -/
  kList : Nat := 0
  /-- publications in order: (reload, j) -/
  pubs : List (Rid × Nat) := []
  /-- `openFile` calls that hit a missing path -/
  badOpens : List (Rid × Path) := []
  /-- holder of each reader's `reload_lock` -/
  mutex : Nat → Option Rid := fun _ => none

def init : St := {}

def upd (f : Rid → RState) (r : Rid) (v : RState) : Rid → RState :=
  fun x => if x = r then v else f x

def metaFiles (s : St) (j : Nat) : List Path := s.metas.getD j []

def present (s : St) (p : Path) : Bool := (s.fs.lookup p).isSome

def step (s : St) : Ev → St
  | .acquire r =>
    { s with lock := some (.reader r), rs := upd s.rs r { phase := .locked },
             started := r :: s.started }
  | .loadMeta r =>
    { s with rs := upd s.rs r { s.rs r with phase := .loaded, j := some (s.metas.length - 1) } }
  | .openFile r p =>
    match s.fs.lookup p with
    | some b =>
      { s with rs := upd s.rs r { s.rs r with tried := p :: (s.rs r).tried,
                                              handles := ⟨p, b⟩ :: (s.rs r).handles } }
    | none =>
      { s with rs := upd s.rs r { s.rs r with tried := p :: (s.rs r).tried, failed := true },
               badOpens := (r, p) :: s.badOpens }
  | .release r =>
    { s with lock := if s.lock = some (.reader r) then none else s.lock,
             rs := upd s.rs r { s.rs r with phase := .released } }
  | .warm r => { s with rs := upd s.rs r { s.rs r with warmed := true } }
  | .publish r =>
    match (s.rs r).j with
    | some j => { s with pubs := s.pubs ++ [(r, j)],
                         rs := upd s.rs r { s.rs r with phase := .published } }
    | none => s
  | .create p b => { s with fs := (p, b) :: s.fs }
  | .saveMeta files => { s with metas := s.metas ++ [files] }
  | .gcAcquire => { s with lock := some .gc }
  | .gcList living =>
    { s with gcDels := (s.fs.map (·.1)).filter (fun p => !living.contains p),
             kList := s.metas.length - 1 }
  | .gcRelease => { s with lock := if s.lock = some .gc then none else s.lock }
  | .gcDelete p =>
    { s with fs := s.fs.filter (fun q => q.1 != p), deleted := p :: s.deleted }
  | .mLock r => { s with mutex := fun x => if x = r.1 then some r else s.mutex x }
  | .mUnlock r => { s with mutex := fun x => if x = r.1 then none else s.mutex x }

def run (s : St) (t : List Ev) : St := t.foldl step s

/-- which parts of the lock discipline are followed (`full` = the code as it is) -/
structure Disc where
  /-- the reader loads meta.json and opens files only while it holds META_LOCK -/
  readerLock : Bool := true
  /-- GC computes its living set while it holds META_LOCK -/
  gcLock : Bool := true
deriving DecidableEq, Repr

def full : Disc := {}

/-- the discipline the source text follows, from the structural guards regenerated by the
extractor (`Gen/Reader.lean`) -/
def codeDisc : Disc :=
  { readerLock := Gen.READER_LOCK_HELD_OVER_LOAD_AND_OPEN == 1 && Gen.READER_META_LOADS_PER_RELOAD == 1,
    gcLock := Gen.GC_LISTS_UNDER_LOCK == 1 && Gen.GC_DELETES_ONLY_LISTED == 1 }

/-- The lock discipline (both sides) and the semantics of the lock file, as a decidable
predicate on one step. -/
def ok (d : Disc) (s : St) : Ev → Bool
  | .acquire r => s.lock = none && (s.rs r).phase = .idle
  | .loadMeta r =>
    if d.readerLock then (s.rs r).phase = .locked && s.lock = some (.reader r)
    else ((s.rs r).phase = .locked || (s.rs r).phase = .idle) && (s.rs r).j = none
  | .openFile r p =>
    (s.rs r).phase = .loaded && (!d.readerLock || s.lock = some (.reader r)) &&
    (match (s.rs r).j with
     | some j => (metaFiles s j).contains p
     | none => false) &&
    !(s.rs r).tried.contains p
  | .release r =>
    if d.readerLock then
      s.lock = some (.reader r) && ((s.rs r).phase = .locked || (s.rs r).phase = .loaded)
    else (s.rs r).phase = .loaded
  | .warm r => (s.rs r).phase = .released && !(s.rs r).failed
  | .publish r =>
    (s.rs r).phase = .released && !(s.rs r).failed &&
    (match (s.rs r).j with
     | some j => (metaFiles s j).all (fun p => (s.rs r).tried.contains p)
     | none => false)
  | .create p _ => !present s p && !s.deleted.contains p
  | .saveMeta files => files.all (fun p => present s p && !s.gcDels.contains p)
  | .gcAcquire => s.lock = none
  | .gcList living =>
    (!d.gcLock || s.lock = some .gc) &&
    (metaFiles s (s.metas.length - 1)).all (fun p => living.contains p)
  | .gcRelease => s.lock = some .gc
  | .gcDelete p => s.gcDels.contains p
  | .mLock _ => true
  | .mUnlock _ => true

/-- run a per-step predicate along a trace -/
def check (f : St → Ev → Bool) : St → List Ev → Bool
  | _, [] => true
  | s, e :: t => f s e && check f (step s e) t

/-- the trace follows the discipline `d` from state `s` -/
def validFrom (d : Disc) (s : St) (t : List Ev) : Bool := check (ok d) s t

def valid (d : Disc) (t : List Ev) : Bool := validFrom d init t

/-- index of the first event that breaks the discipline (for the harness) -/
def firstBad (d : Disc) : St → List Ev → Nat → Option Nat
  | _, [], _ => none
  | s, e :: t, i => if ok d s e then firstBad d (step s e) t (i + 1) else some i

/-- reloads of reader `ρ` do not overlap: a reload starts only when every earlier reload of
the same reader has published -/
def seqOk (ρ : Nat) (s : St) : Ev → Bool
  | .acquire r =>
    r.1 != ρ || s.started.all (fun r' => r'.1 != ρ || (s.rs r').phase = .published)
  | _ => true

def sequential (ρ : Nat) (t : List Ev) : Bool := check (seqOk ρ) init t

/-- The reload mutex of reader `ρ`, as the source uses it: `reload()` binds the guard first
(`mLock`, possible only while nobody holds the mutex), loads and publishes while holding it, and
drops it when it returns after the store (`mUnlock`). (I/O faults are not part of this model: a
reload that has started runs to its publication, cf. `C05_reload_can_always_complete`.)
-- mirrors: src/reader/mod.rs::reload (`let _reload_guard = self.reload_lock.lock()` … `store`) -/
def mutexOk (ρ : Nat) (s : St) : Ev → Bool
  | .mLock r => r.1 != ρ || (s.mutex ρ = none && (s.rs r).phase = .idle)
  | .acquire r => r.1 != ρ || s.mutex ρ = some r
  | .mUnlock r => r.1 != ρ || (s.mutex ρ = some r && (s.rs r).phase = .published)
  | _ => true

def mutexDisciplined (ρ : Nat) (t : List Ev) : Bool := check (mutexOk ρ) init t

/-- reader `ρ` publishes only searchers on which its warmers have run
-- mirrors: src/reader/mod.rs::create_searcher (`warm_new_searcher_generation(..)?` before `Ok(searcher)`)
-- and ::reload (`create_searcher(..)?` before `searcher.store`) -/
def warmOk (ρ : Nat) (s : St) : Ev → Bool
  | .publish r => r.1 != ρ || (s.rs r).warmed
  | _ => true

def warmedBeforePublish (ρ : Nat) (t : List Ev) : Bool := check (warmOk ρ) init t

/-- the `j`s published by reader `ρ`, in publication order -/
def pubsOf (ρ : Nat) (s : St) : List Nat :=
  (s.pubs.filter (fun x => x.1.1 == ρ)).map (·.2)

/-- what `IndexReader::searcher()` of reader `ρ` returns in state `s`: the `ArcSwap` holds the last
published searcher (`none` only before the reader exists); the commit it shows -/
def served (ρ : Nat) (s : St) : Option Nat := (pubsOf ρ s).getLast?

/-- the reload whose searcher reader `ρ` currently serves -/
def servedReload (ρ : Nat) (s : St) : Option Rid :=
  ((s.pubs.filter (fun x => x.1.1 == ρ)).map (·.1)).getLast?

/-- a present path that no saved meta references (an uncommitted segment's file) -/
def uncommitted (s : St) (p : Path) : Prop := present s p = true ∧ ∀ fs ∈ s.metas, p ∉ fs

instance (s : St) (p : Path) : Decidable (uncommitted s p) := by
  unfold uncommitted; exact inferInstance

/-! ### searchers -/

/-- what a client holds: the handles of one publication -/
abbrev Searcher := List Handle

/-- the searcher a publication of reload `r` hands out -/
def searcherOf (s : St) (r : Rid) : Searcher := (s.rs r).handles

/-- any observation (query, count, doc fetch, fast-field read) is a function of the bytes of
the handles; the state of the world is an argument that it does not use -/
def observe {α : Type} (_world : St) (f : List (Path × Nat) → α) (S : Searcher) : α :=
  f (S.map (fun h => (h.path, h.bytes)))

/-- the alternative the property excludes: a component opened lazily, by path, at observation
time -/
def observeLazy {α : Type} (world : St) (f : List (Path × Option Nat) → α) (paths : List Path) : α :=
  f (paths.map (fun p => (p, world.fs.lookup p)))

end TantivyModel.Reader
