import TantivyModel.Gen.Postings
import TantivyModel.Model.FieldNorm
/-!
# Specification of the inverted index of one field of one segment (C07)

Input: the *analysed* corpus — per document the list of values of the field, per value the token
stream the analyzer produced (term bytes, position, position length).  Tokenisation itself is an
input (C19 is about tokenizers).  Output: terms in byte order, per term the documents in
increasing id with term frequency and positions; total token count; field norm id per document.

-- mirrors: src/postings/postings_writer.rs::index_text        (position arithmetic, POSITION_GAP)
-- mirrors: src/postings/postings_writer.rs::subscribe         (total_num_tokens, per-doc grouping)
-- mirrors: src/postings/postings_writer.rs::serialize_postings (terms pushed in byte order)
-- mirrors: src/indexer/segment_writer.rs::index_document      (one IndexingPosition per doc+field)
-/
namespace TantivyModel.Invert

abbrev Term := List Nat   -- bytes

structure Token where
  term : Term
  pos : Nat
  posLen : Nat
deriving Repr, DecidableEq

abbrev Value := List Token
abbrev Doc := List Value
abbrev Corpus := List Doc

structure Posting where
  doc : Nat
  tf : Nat
  positions : List Nat
deriving Repr, DecidableEq

inductive RecOpt | basic | freqs | positions
deriving Repr, DecidableEq

/-- `index_text` for one value: every token is subscribed at `end_position + token.position`;
afterwards `end_position := max(end_position, max_t (start_t + position_length_t)) + GAP` -/
def indexValue (gap : Nat) (endPos : Nat) (v : Value) : List (Term × Nat) × Nat :=
  (v.map (fun t => (t.term, endPos + t.pos)),
   v.foldl (fun e t => max e (endPos + t.pos + t.posLen)) endPos + gap)

/-- all `(term, position)` occurrences of one document, in subscription order -/
def docOccsFrom (gap : Nat) : Nat → Doc → List (Term × Nat)
  | _, [] => []
  | endPos, v :: vs =>
    let (occ, e) := indexValue gap endPos v
    occ ++ docOccsFrom gap e vs

def docOccs (gap : Nat) (d : Doc) : List (Term × Nat) := docOccsFrom gap 0 d

/-- insertion into a strictly increasing list of terms (byte-lexicographic order) -/
def ins (t : Term) : List Term → List Term
  | [] => [t]
  | a :: r => if t < a then t :: a :: r else if t = a then a :: r else a :: ins t r

/-- the distinct terms of the corpus, in byte order -/
def termsOf (gap : Nat) (c : Corpus) : List Term :=
  (c.flatMap (fun d => (docOccs gap d).map (·.1))).foldr ins []

/-- postings of term `t` in documents `c`, the first of which has id `base` -/
def postingsFrom (gap : Nat) (t : Term) : Nat → Corpus → List Posting
  | _, [] => []
  | base, d :: ds =>
    let ps := ((docOccs gap d).filter (fun o => o.1 = t)).map (·.2)
    if ps.isEmpty then postingsFrom gap t (base + 1) ds
    else { doc := base, tf := ps.length, positions := ps } :: postingsFrom gap t (base + 1) ds

def postingsOf (gap : Nat) (c : Corpus) (t : Term) : List Posting := postingsFrom gap t 0 c

/-- what can be read back under a record option -/
def project (o : RecOpt) (p : Posting) : Posting :=
  match o with
  | .basic => { doc := p.doc, tf := 1, positions := [] }
  | .freqs => { doc := p.doc, tf := p.tf, positions := [] }
  | .positions => p

structure Inverted where
  terms : List (Term × List Posting)
  totalNumTokens : Nat
  numTokensPerDoc : List Nat

/-- the specification -/
def invertWith (gap : Nat) (c : Corpus) : Inverted :=
  { terms := (termsOf gap c).map (fun t => (t, postingsOf gap c t)),
    totalNumTokens := (c.map (fun d => (docOccs gap d).length)).sum,
    numTokensPerDoc := c.map (fun d => (docOccs gap d).length) }

def invert (c : Corpus) : Inverted := invertWith Gen.Postings.POSITION_GAP c

def docFreq (ps : List Posting) : Nat := ps.length

def fieldnormIds (inv : Inverted) : List Nat := inv.numTokensPerDoc.map FieldNorm.fieldnormId

end TantivyModel.Invert
