import TantivyModel.Model.AggSpec
import TantivyModel.Gen.Agg
import TantivyModel.Proofs.AggSort
/-
C14 — implementation-level model of `src/aggregation/intermediate_agg_result.rs` and of the
segment collectors.

* `Inter M r`: the intermediate tree of request `r` (shape fixed by the request: trees of two
  segments of the same request always have the same shape; the `panic!("try merge on different
  types")` arms of `merge_fruits` are unreachable for trees built from one request).
  Bucket maps are `KMap`s: `get : key → Option (doc_count, sub-tree)` plus the hull
  `[min key, max key]` of the present keys (what the final stage needs to enumerate them);
  terms add `sum_other_doc_count` and `doc_count_error_upper_bound`.
* `merge`  mirrors: IntermediateAggregationResults::merge_fruits, merge_maps, the histogram
  merge_join_by, MergeFruits for the bucket entries, IntermediateStats::merge_fruits.
* `collectDoc` / `collect` mirror the segment collectors (`SegmentTermCollector`,
  `SegmentHistogramCollector`, `SegmentRangeCollector`, `SegmentFilterCollector`,
  `SegmentStatsCollector`): one document at a time, one bucket increment **per value**.
* `harvest` mirrors the segment-level truncation of term buckets to `segment_size`
  (term_agg/mod.rs::into_intermediate_bucket_result + cut_off_buckets).
* `finalize` mirrors `into_final_result` (ordering, `size`, `min_doc_count`, gap filling).
-/
namespace TantivyModel.Agg

structure KMap (V : Type) where
  hull : Option (Int × Int)
  get : Int → Option V

def KMap.empty {V : Type} : KMap V := ⟨Option.none, fun _ => Option.none⟩

def KMap.single {V : Type} (k : Int) (v : V) : KMap V :=
  ⟨some (k, k), fun j => if j = k then some v else Option.none⟩

def optMerge {V : Type} (f : V → V → V) : Option V → Option V → Option V
  | Option.none, b => b
  | a, Option.none => a
  | some a, some b => some (f a b)

/-- mirrors: intermediate_agg_result.rs::merge_maps (entries present on both sides are merged,
the others are moved over) -/
def KMap.merge {V : Type} (f : V → V → V) (a b : KMap V) : KMap V :=
  ⟨hullMerge a.hull b.hull, fun k => optMerge f (a.get k) (b.get k)⟩

/-- present entries in ascending key order -/
def KMap.entries {V : Type} (m : KMap V) : List (Int × V) :=
  (spanOf m.hull).filterMap (fun k => (m.get k).map (fun v => (k, v)))

structure TermsI (V : Type) where
  map : KMap (Nat × V)
  other : Nat
  err : Nat

/-- intermediate top_hits: the best `k` entries seen so far, in order (mirrors:
metric/top_hits.rs::TopHitsTopNComputer — a `TopNComputer` that is merged by pushing the other
side's entries; the canonical sorted list is what `into_final_result` returns) -/
structure Hits (desc : Bool) (k : Nat) where
  list : List HitE
  sorted : list.Pairwise (fun a b => hitLe desc a b = true)
  short : list.length ≤ k

theorem Hits.ext' {desc : Bool} {k : Nat} {a b : Hits desc k} (h : a.list = b.list) : a = b := by
  cases a; cases b; cases h; rfl

def Hits.empty {desc : Bool} {k : Nat} : Hits desc k := ⟨[], List.Pairwise.nil, Nat.zero_le _⟩

/-- the best `k` of a list of entries -/
def Hits.ofList {desc : Bool} {k : Nat} (l : List HitE) : Hits desc k :=
  ⟨(isort (hitLe desc) l).take k,
   List.Pairwise.sublist (List.take_sublist _ _)
     (isort_pairwise (hitLe desc) (hitLe_total desc) (hitLe_trans desc) l),
   by rw [List.length_take]; exact Nat.min_le_left _ _⟩

/-- mirrors: TopHitsTopNComputer::merge_fruits -/
def Hits.merge {desc : Bool} {k : Nat} (a b : Hits desc k) : Hits desc k := Hits.ofList (a.list ++ b.list)

@[reducible] def Inter (M : Type) : Req → Type
  | .none => Unit
  | .both a b => Inter M a × Inter M b
  | .metric _ _ => Acc M
  | .terms _ sub => TermsI (Inter M sub)
  | .hist _ sub => KMap (Nat × Inter M sub)
  | .range _ _ sub => KMap (Nat × Inter M sub)
  | .filter _ _ sub => Nat × Inter M sub
  | .topHits _ _ k desc => Hits desc k
  | .composite _ _ _ sub => KMap (Nat × Inter M sub)

variable {M : Type} [AddOp M]

/-- mirrors: intermediate_agg_result.rs::empty_from_req -/
def empty : (r : Req) → Inter M r
  | .none => ()
  | .both a b => (empty a, empty b)
  | .metric _ _ => (Acc.empty : Acc M)
  | .terms _ _ => ⟨KMap.empty, 0, 0⟩
  | .hist _ _ => KMap.empty
  | .range _ _ _ => KMap.empty
  | .filter _ _ sub => (0, empty sub)
  | .topHits _ _ _ _ => Hits.empty
  | .composite _ _ _ _ => KMap.empty

/-- a bucket entry: `doc_count` adds, sub-trees merge (mirrors: `impl MergeFruits for
Intermediate{Term,Range,Histogram}BucketEntry`) -/
def entryMerge {V : Type} (f : V → V → V) (a b : Nat × V) : Nat × V := (a.1 + b.1, f a.2 b.2)

def merge : (r : Req) → Inter M r → Inter M r → Inter M r
  | .none, _, _ => ()
  | .both a b, x, y => (merge a x.1 y.1, merge b x.2 y.2)
  | .metric _ _, x, y => Acc.merge x y
  | .terms _ sub, x, y =>
    ⟨KMap.merge (entryMerge (merge sub)) x.map y.map, x.other + y.other, x.err + y.err⟩
  | .hist _ sub, x, y => KMap.merge (entryMerge (merge sub)) x y
  | .range _ _ sub, x, y => KMap.merge (entryMerge (merge sub)) x y
  | .filter _ _ sub, x, y => (x.1 + y.1, merge sub x.2 y.2)
  | .topHits _ _ _ _, x, y => Hits.merge x y
  | .composite _ _ _ sub, x, y => KMap.merge (entryMerge (merge sub)) x y

/-- one bucket increment per listed key (a key listed twice is incremented twice and the
document is pushed to the sub-aggregation twice — this is what the histogram and range
collectors do for a multi-valued document with two values in one bucket) -/
def bump {V : Type} (f : V → V → V) (ks : List Int) (v : V) : KMap (Nat × V) :=
  ks.foldl (fun m k => KMap.merge (entryMerge f) m (KMap.single k (1, v))) KMap.empty

/-- what one matching document contributes -/
def collectDoc : (r : Req) → Doc → Inter M r
  | .none, _ => ()
  | .both a b, d => (collectDoc a d, collectDoc b d)
  | .metric f missing, d => (Acc.ofVals (metricVals f missing d) : Acc M)
  | .terms p sub, d => ⟨bump (merge sub) (termKeys p d) (collectDoc sub d), 0, 0⟩
  | .hist p sub, d => bump (merge sub) (histPoss p d) (collectDoc sub d)
  | .range f cuts sub, d => bump (merge sub) (rangeIdxs f cuts d) (collectDoc sub d)
  | .filter f v sub, d => if filterMatch f v d then (1, collectDoc sub d) else (0, empty sub)
  | .topHits f addr _ _, d => Hits.ofList (hitEntries f addr d)
  | .composite srcs _ _ sub, d => bump (merge sub) (compKeys srcs d) (collectDoc sub d)

/-- segment collection before harvest: documents are collected one after the other -/
def collect (r : Req) (docs : List Doc) : Inter M r :=
  docs.foldl (fun acc d => merge r acc (collectDoc r d)) (empty r)

/-- request defaults (mirrors: term_agg/mod.rs::TermsAggregationInternal::from_req; the
numbers are regenerated from the source into `Gen/Agg.lean`) -/
def TermsP.ofRequest (field : Field) (missing : Option Int) (size segSize minDocCount : Option Nat)
    (order : Option Order) : TermsP :=
  let sz := size.getD Gen.AGG_TERMS_DEFAULT_SIZE
  let seg := segSize.getD (sz * Gen.AGG_TERMS_SEGMENT_SIZE_FACTOR)
  { field := field, missing := missing, size := sz,
    segSize := if Gen.AGG_TERMS_SEGMENT_SIZE_AT_LEAST_SIZE = 1 then max seg sz else seg,
    minDocCount := minDocCount.getD Gen.AGG_TERMS_DEFAULT_MIN_DOC_COUNT,
    order := order.getD .countDesc }

/-- keep the entries whose key is in `keep` -/
def KMap.restrict {V : Type} (m : KMap V) (keep : List Int) : KMap V :=
  ⟨m.hull, fun k => if keep.contains k then m.get k else Option.none⟩

def validKey (after : Option Int) (k : Int) : Bool :=
  match after with
  | some a => decide (a < k)
  | Option.none => true

/-- keys of the page: the first `size` present keys after `after`, in key order -/
def pageKeys {V : Type} (size : Nat) (after : Option Int) (m : KMap (Nat × V)) : List Int :=
  ((spanOf m.hull).filter (fun k => validKey after k && (m.get k).isSome)).take size

/-- mirrors: the per-segment eviction (`collect_bucket_with_limit`) and
`IntermediateCompositeBucketResult::trim` — only the page survives -/
def compTrim {V : Type} (size : Nat) (after : Option Int) (m : KMap (Nat × V)) : KMap (Nat × V) :=
  m.restrict (pageKeys size after m)

/-- the fruit of one segment for a composite node, WITH the per-segment eviction -/
def collectSegComposite {M : Type} [AddOp M] (srcs : List CompSrc) (size : Nat) (after : Option Int) (sub : Req)
    (docs : List Doc) : KMap (Nat × Inter M sub) :=
  compTrim size after (collect (.composite srcs size after sub) docs)

/-- mirrors: intermediate_agg_result.rs::IntermediateCompositeBucketResult::merge_fruits — merge
the maps, then `trim` only when more than `2 * target_size` entries are held -/
def compMergeFruits {V : Type} (f : (Nat × V) → (Nat × V) → (Nat × V)) (size : Nat) (after : Option Int)
    (a b : KMap (Nat × V)) : KMap (Nat × V) :=
  let m := KMap.merge f a b
  if m.entries.length > 2 * size then compTrim size after m else m

/-- the merge of a trimming schedule decided by an arbitrary predicate on the merged map -/
def compMergeWhen {V : Type} (dec : KMap (Nat × V) → Bool) (f : (Nat × V) → (Nat × V) → (Nat × V)) (size : Nat)
    (after : Option Int) (a b : KMap (Nat × V)) : KMap (Nat × V) :=
  let m := KMap.merge f a b
  if dec m then compTrim size after m else m

/-- mirrors: term_agg/mod.rs::into_intermediate_bucket_result + cut_off_buckets: when a segment
holds more than `segment_size` distinct terms only the first `segment_size` in request order are
kept, the cut doc counts go to `sum_other_doc_count`, and the doc count of the first cut bucket
is the segment's contribution to `doc_count_error_upper_bound` -/
def termsCut {V : Type} (p : TermsP) (t : TermsI V) : TermsI V :=
  let es : List (Int × Nat × V) := t.map.entries
  if es.length ≤ p.segSize then t else
  let sorted := sortBuckets p.order es
  let kept := sorted.take p.segSize
  let cut := sorted.drop p.segSize
  ⟨t.map.restrict (kept.map (·.1)), t.other + sumCounts cut,
   t.err + (match cut with | [] => 0 | c :: _ => c.2.1)⟩

def KMap.mapVals {V : Type} (g : V → V) (m : KMap (Nat × V)) : KMap (Nat × V) :=
  ⟨m.hull, fun k => (m.get k).map (fun e => (e.1, g e.2))⟩

def harvest : (r : Req) → Inter M r → Inter M r
  | .none, _ => ()
  | .both a b, x => (harvest a x.1, harvest b x.2)
  | .metric _ _, x => x
  | .terms p sub, x =>
    let t : TermsI (Inter M sub) := termsCut p x
    ⟨t.map.mapVals (harvest sub), t.other, t.err⟩
  | .hist _ sub, x => KMap.mapVals (harvest sub) x
  | .range _ _ sub, x => KMap.mapVals (harvest sub) x
  | .filter _ _ sub, x => (x.1, harvest sub x.2)
  | .topHits _ _ _ _, x => x
  -- the per-segment eviction down to `size` buckets is modelled separately (`collectSegComposite`,
  -- `compMergeFruits`) and proved invisible in the returned page (C14_composite_merge_fruits_eq_evalAggPV)
  | .composite _ _ _ sub, x => KMap.mapVals (harvest sub) x

/-- what the composite collectors of one segment do to the whole intermediate tree: EVERY composite
node (at any depth, in every parent bucket) keeps only its page — the first `size` buckets after
`after` (mirrors: bucket/composite/collector.rs::collect_bucket_with_limit, one top-`size` map per
parent bucket).  The terms cut is `harvest`; the two are independent. -/
def evict : (r : Req) → Inter M r → Inter M r
  | .none, _ => ()
  | .both a b, x => (evict a x.1, evict b x.2)
  | .metric _ _, x => x
  | .terms _ sub, x => ⟨x.map.mapVals (evict sub), x.other, x.err⟩
  | .hist _ sub, x => KMap.mapVals (evict sub) x
  | .range _ _ sub, x => KMap.mapVals (evict sub) x
  | .filter _ _ sub, x => (x.1, evict sub x.2)
  | .topHits _ _ _ _, x => x
  | .composite _ size after sub, x => compTrim size after (KMap.mapVals (evict sub) x)

/-- the fruit of one segment with composite eviction everywhere -/
def collectSegEvict (r : Req) (docs : List Doc) : Inter M r := evict r (collect r docs)

/-- the complete segment model: collect, cut the terms nodes (`harvest`), evict at the composite nodes -/
def collectSegFull (r : Req) (docs : List Doc) : Inter M r := evict r (harvest r (collect r docs))

/-- no terms node anywhere in the request: nothing is cut at segment level -/
def Req.cutFree : Req → Bool
  | .none => true
  | .both a b => a.cutFree && b.cutFree
  | .metric _ _ => true
  | .terms _ _ => false
  | .hist _ sub => sub.cutFree
  | .range _ _ sub => sub.cutFree
  | .filter _ _ sub => sub.cutFree
  | .topHits _ _ _ _ => true
  | .composite _ _ _ sub => sub.cutFree

/-- the fruit of one segment -/
def collectSeg (r : Req) (docs : List Doc) : Inter M r := harvest r (collect r docs)

/-- mirrors: collector.rs::merge_fruits — the last fruit is the accumulator, the others are
merged into it in order -/
def mergeFruits (r : Req) (fruits : List (Inter M r)) : Inter M r :=
  match fruits.reverse with
  | [] => empty r
  | last :: restRev => restRev.reverse.foldl (merge r) last

def finalize : (r : Req) → Inter M r → Res M r
  | .none, _ => ()
  | .both a b, x => (finalize a x.1, finalize b x.2)
  | .metric _ _, x => x
  | .terms p sub, x =>
    termsFinal p (x.map.entries.map fun e => (e.1, e.2.1, finalize sub e.2.2)) x.other x.err
  | .hist p sub, x =>
    if p.minDocCount = 0 then
      (histSpan p x.hull).map fun k =>
        match x.get k with
        | some e => (k, e.1, finalize sub e.2)
        | Option.none => (k, 0, finalize sub (empty sub))
    else
      (x.entries.map fun e => (e.1, e.2.1, finalize sub e.2.2)).filter
        (fun b => decide (p.minDocCount ≤ b.2.1))
  | .range _ cuts sub, x =>
    (intSpan 0 cuts.length).map fun k =>
      match x.get k with
      | some e => (k, e.1, finalize sub e.2)
      | Option.none => (k, 0, finalize sub (empty sub))
  | .filter _ _ sub, x => (x.1, finalize sub x.2)
  | .topHits _ _ _ _, x => x.list
  | .composite _ size after sub, x =>
    compPage size after (x.entries.map fun e => (e.1, e.2.1, finalize sub e.2.2))

/-! ### limits (mirrors: agg_limits.rs, IntermediateAggregationResults::into_final_result) -/

/-- number of buckets of a final result (mirrors: AggregationResults::get_bucket_count; a
filter is not counted itself) -/
def bucketCount : (r : Req) → Res M r → Nat
  | .none, _ => 0
  | .both a b, x => bucketCount a x.1 + bucketCount b x.2
  | .metric _ _, _ => 0
  | .terms _ sub, x => (x.1.map fun b => 1 + bucketCount sub b.2.2).sum
  | .hist _ sub, x => (x.map fun b => 1 + bucketCount sub b.2.2).sum
  | .range _ _ sub, x => (x.map fun b => 1 + bucketCount sub b.2.2).sum
  | .filter _ _ sub, x => bucketCount sub x.2
  | .topHits _ _ _ _, _ => 0
  | .composite _ _ _ sub, x => (x.map fun b => 1 + bucketCount sub b.2.2).sum

/-- the guarded final stage: the complete result or an error, never a shortened result -/
def finalizeGuarded (limit : Nat) (r : Req) (x : Inter M r) : Except Nat (Res M r) :=
  let res := finalize r x
  if limit < bucketCount r res then .error (bucketCount r res) else .ok res

end TantivyModel.Agg
