import TantivyModel.Model.SSTable.Delta
/-!
# C15 — block index, writer order check and dictionary operations on the block model

mirrors `sstable/src/index/mod.rs` (separator keys), `index/v3.rs` (routing by the first
separator `≥ key`; `V3Empty` pseudo index for ≤ 1 block), `lib.rs::Writer::insert_key`
(order check), `dictionary.rs` (get / term_ord / term_ord_or_next / ord_to_term /
file_slice_for_range / prefix_range) and `streamer.rs` (bounds, ordinals).
The FST that stores the separators is a parameter with the ordered-map contract
("first key ≥ k"), here a linear search.
-/
namespace TantivyModel.SSTable
open TantivyModel

/-! ## separator keys -/

/-- first byte that is not 0xFF is incremented, the rest dropped -/
def bumpSuffix : Key → Option Key
  | [] => none
  | b :: rest => if b ≠ 255 then some [b + 1] else (bumpSuffix rest).map (b :: ·)

/-- mirrors: sstable/src/index/mod.rs::find_shorter_str_in_between (requires left < right) -/
def findShorter (left right : Key) : Key :=
  let c := cpl left right
  if left.length = c then left
  else match bumpSuffix (left.drop (c + 1)) with
    | none => left
    | some s => left.take (c + 1) ++ s

def lastKey {V} (b : Assoc V) : Key := match b.getLast? with | some e => e.1 | none => []
def firstKey {V} (b : Assoc V) : Key := match b.head? with | some e => e.1 | none => []

/-- separator of every block: its last key shortened against the first key of the next block.
mirrors: SSTableIndexBuilder::add_block + shorten_last_block_key_given_next_key -/
def sepsOf {V} : List (Assoc V) → List Key
  | [] => []
  | [b] => [lastKey b]
  | b :: b' :: rest => findShorter (lastKey b) (firstKey b') :: sepsOf (b' :: rest)

structure Block (V : Type) where
  sep : Key
  firstOrd : Nat
  entries : Assoc V

def mkBlocks {V} : Nat → List (Assoc V) → List Key → List (Block V)
  | ord, b :: bs, s :: ss => ⟨s, ord, b⟩ :: mkBlocks (ord + b.length) bs ss
  | _, _, _ => []

structure Dict (V : Type) where
  blocks : List (Block V)

/-- the dictionary the writer produces for an (accepted) insertion sequence -/
def build {V} (blockLen : Nat) (m : Assoc V) : Dict V :=
  let bs := blocksOf (fun e : Key × V => e.1) blockLen m
  ⟨mkBlocks 0 bs (sepsOf bs)⟩

def Dict.numTerms {V} (d : Dict V) : Nat := (d.blocks.map (·.entries.length)).sum

def Dict.all {V} (d : Dict V) : Assoc V := (d.blocks.map (·.entries)).flatten

/-- `SSTableIndexBuilder::serialize` writes no index for ≤ 1 block (`V3Empty`) -/
def Dict.single {V} (d : Dict V) : Bool := d.blocks.length ≤ 1

/-- mirrors: SSTableIndex::locate_with_key — first block whose separator is ≥ key
(fst `range().ge(key).next()`); `V3Empty`: always block 0 -/
def Dict.locateKey {V} (d : Dict V) (k : Key) : Option Nat :=
  if d.single then some 0 else d.blocks.findIdx? (fun b => lexLe k b.sep)

/-- mirrors: SSTableIndex::get_block (`V3Empty`: one pseudo block covering the whole file) -/
def Dict.blockAt {V} (d : Dict V) (i : Nat) : Option (Block V) :=
  if d.single then (if i = 0 then some (d.blocks.headD ⟨[], 0, []⟩) else none) else d.blocks[i]?

/-- mirrors: BlockAddrStore::binary_search_ord — the last block whose first ordinal is ≤ ord -/
def Dict.locateOrd {V} (d : Dict V) (ord : Nat) : Nat :=
  if d.single then 0 else (d.blocks.filter (fun b => b.firstOrd ≤ ord)).length - 1

/-! ## scanning one block -/

/-- position of the first key `≥ k` in a block, exact if equal (what `decode_up_to_or_next`
computes; the front-coded version is `deltaScan` below) -/
def scanOrNext : List Key → Key → Nat → Hit
  | [], _, i => .next i
  | a :: rest, k, i => if a = k then .exact i else if lexLt k a then .next i else scanOrNext rest k (i + 1)

/-- mirrors: Dictionary::decode_up_to_or_next on the `(keep, suffix)` entries of a block:
`ok` = number of bytes of `k` already matched -/
def matchSuffix (k : Key) (ok : Nat) : Key → Nat × Option Bool
  -- returns (ok', verdict): some true = too far (entry > k), some false = byte too small (break),
  -- none = zip exhausted
  | [] => (ok, none)
  | s :: ss =>
    match k[ok]? with
    | none => (ok, none)
    | some kb =>
      if s.toNat < kb.toNat then (ok, some false)
      else if s = kb then matchSuffix k (ok + 1) ss
      else (ok, some true)

def deltaScan (k : Key) : List (Nat × Key) → Nat → Nat → Hit
  | [], _, ord => .next ord
  | (keep, suffix) :: rest, ok, ord =>
    if keep < ok then .next ord
    else if keep > ok then deltaScan k rest ok (ord + 1)
    else
      let r := matchSuffix k ok suffix
      if r.2 = some true then .next ord
      else if r.1 = k.length then
        (if keep + suffix.length = r.1 then .exact ord else .next ord)
      else deltaScan k rest r.1 (ord + 1)

def Hit.shift (h : Hit) (d : Nat) : Hit :=
  match h with | .exact o => .exact (o + d) | .next o => .next (o + d)

def Hit.exact? : Hit → Option Nat | .exact o => some o | .next _ => none

def U64_MAX : Nat := 18446744073709551615

/-! ## dictionary operations -/

/-- mirrors: Dictionary::term_ord_or_next (a key past the last separator of a multi-block
dictionary yields `Next(u64::MAX)`) -/
def Dict.termOrdOrNext {V} (d : Dict V) (k : Key) : Hit :=
  match (d.locateKey k).bind d.blockAt with
  | none => .next U64_MAX
  | some b => (scanOrNext (keys b.entries) k 0).shift b.firstOrd

/-- same through the front-coded scan the implementation uses -/
def Dict.termOrdOrNextDelta {V} (d : Dict V) (k : Key) : Hit :=
  match (d.locateKey k).bind d.blockAt with
  | none => .next U64_MAX
  | some b => (deltaScan k (deltaEntries [] (keys b.entries)) 0 0).shift b.firstOrd

/-- mirrors: Dictionary::term_ord -/
def Dict.termOrd {V} (d : Dict V) (k : Key) : Option Nat :=
  match (d.locateKey k).bind d.blockAt with
  | none => none
  | some b => ((scanOrNext (keys b.entries) k 0).shift b.firstOrd).exact?

/-- mirrors: Dictionary::get / do_get -/
def Dict.get {V} (d : Dict V) (k : Key) : Option V :=
  match (d.locateKey k).bind d.blockAt with
  | none => none
  | some b =>
    match scanOrNext (keys b.entries) k 0 with
    | .exact i => (b.entries[i]?).map (·.2)
    | .next _ => none

/-- mirrors: Dictionary::ord_to_term (advance `ord - first_ordinal + 1` times inside the block
found by ordinal) -/
def Dict.ordToTerm {V} (d : Dict V) (ord : Nat) : Option Key :=
  match d.blockAt (d.locateOrd ord) with
  | none => none
  | some b => (b.entries[ord - b.firstOrd]?).map (·.1)

/-- mirrors: Dictionary::term_info_from_ord -/
def Dict.valueAtOrd {V} (d : Dict V) (ord : Nat) : Option V :=
  match d.blockAt (d.locateOrd ord) with
  | none => none
  | some b => (b.entries[ord - b.firstOrd]?).map (·.2)

def Bound.key? : Bound → Option Key
  | .unbounded => none
  | .incl k => some k
  | .excl k => some k

inductive Slice (V : Type) where
  | panic                                   -- `combine_ranges`: assert!(end >= start)
  | blocks (first : Nat) (bs : List (Block V))

/-- number of addressable blocks (`V3Empty`: the one pseudo block) -/
def Dict.nb {V} (d : Dict V) : Nat := if d.single then 1 else d.blocks.length

/-- the addressable blocks: `blockList[i]? = blockAt i` -/
def Dict.blockList {V} (d : Dict V) : List (Block V) :=
  if d.single then [d.blocks.headD ⟨[], 0, []⟩] else d.blocks

/-- `first_block_id` of file_slice_for_range: `none` = `return FileSlice::empty()` (lower bound key
above every separator), `some none` = unbounded -/
def Dict.firstBlock {V} (d : Dict V) (lo : Bound) : Option (Option Nat) :=
  match lo.key? with
  | none => some none
  | some k =>
    match d.locateKey k with
    | none => none
    | some f => if (d.blockAt f).isSome then some (some f) else none

/-- `last_block_id` before the limit: block of the upper bound key, `none` = unbounded or key
above every separator -/
def Dict.lastKeyBlock {V} (d : Dict V) (hi : Bound) : Option Nat := hi.key?.bind d.locateKey

/-- `second_block_id`: the block after the first block (block 0 for an unbounded lower bound) -/
def secondOf (firstId : Option Nat) : Nat := match firstId with | some f => f + 1 | none => 0

/-- `last_block_id` after the limit: at most the block holding the ordinal
`first_ordinal(block after the first block) + limit` -/
def Dict.limitBlock {V} (d : Dict V) (firstId lastId : Option Nat) (limit : Option Nat) : Option Nat :=
  match limit with
  | none => lastId
  | some l =>
    match d.blockAt (secondOf firstId) with
    | none => lastId
    | some b =>
      match lastId with
      | some x => some (min x (d.locateOrd (b.firstOrd + l)))
      | none => some (d.locateOrd (b.firstOrd + l))

/-- index of the last block loaded: `last_block_id.and_then(get_block)`, unbounded otherwise -/
def Dict.lastIncl {V} (d : Dict V) (lastId : Option Nat) : Nat :=
  match lastId with
  | some x => if x < d.nb then x else d.nb - 1
  | none => d.nb - 1

/-- mirrors: Dictionary::file_slice_for_range — block ids `[first ..= last]` of the file slice
that is loaded, `limit` moving `last` down -/
def Dict.sliceFor {V} (d : Dict V) (lo hi : Bound) (limit : Option Nat) : Slice V :=
  match d.firstBlock lo with
  | none => .blocks 0 []                              -- FileSlice::empty()
  | some firstId =>
    let f := firstId.getD 0
    let last := d.lastIncl (d.limitBlock firstId (d.lastKeyBlock hi) limit)
    -- without the guard `combine_ranges` asserts `end >= start`; with it (first > last) the slice is empty
    if f > last + 1 then (if Gen.RANGE_INVERTED_GUARD = 1 then .blocks f [] else .panic)
    else .blocks f ((d.blockList.drop f).take (last + 1 - f))

/-- mirrors: Streamer::advance with `AlwaysMatch`: skip until the lower bound matches (checked
only until its first success), stop at the first key failing the upper bound. Output carries the
ordinal the streamer reports. -/
def scanStream {V} (lo hi : Bound) : Bool → Nat → Assoc V → List (Nat × Key × V)
  | _, _, [] => []
  | passed, ord, e :: rest =>
    if !passed && !matchLo lo e.1 then scanStream lo hi false (ord + 1) rest
    else if !matchHi hi e.1 then []
    else (ord, e.1, e.2) :: scanStream lo hi true (ord + 1) rest

/-- ordinal before the first entry read. mirrors: into_stream_given_delta_reader (`first_term`) -/
def Dict.firstTerm {V} (d : Dict V) (lo : Bound) : Nat :=
  match lo.key? with
  | some k => (match (d.locateKey k).bind d.blockAt with | some b => b.firstOrd | none => 0)
  | none => 0

/-- mirrors: StreamerBuilder::into_stream + Streamer::advance for `AlwaysMatch`;
`none` = panic -/
def Dict.stream {V} (d : Dict V) (lo hi : Bound) (limit : Option Nat) : Option (List (Nat × Key × V)) :=
  match d.sliceFor lo hi limit with
  | .panic => none
  | .blocks _ bs => some (scanStream lo hi false (d.firstTerm lo) ((bs.map (·.entries)).flatten))

/-- mirrors: Dictionary::prefix_range — upper bound = prefix with trailing 0xFF removed and the
last byte incremented; `[]` = no upper bound -/
def prefixUpper : Key → Key
  | [] => []
  | b :: rest =>
    match prefixUpper rest with
    | [] => if b = 255 then [] else [b + 1]
    | u => b :: u

def prefixBounds (p : Key) : Bound × Bound :=
  (.incl p, if (prefixUpper p).isEmpty then .unbounded else .excl (prefixUpper p))

/-! ## writer order check -/

/-- mirrors: the `increasing_keys` expression of Writer::insert_key; `none` = index panic -/
def increasingKeys (prev key : Key) : Option Bool :=
  let keep := cpl prev key
  let add := key.length - keep
  if add > 0 ∧ prev.length = keep then some true
  else if prev.isEmpty then some true
  else match prev[keep]?, key[keep]? with
    | some p, some q => some (decide (p.toNat < q.toNat))
    | _, _ => none

structure WState where
  prev : Key := []              -- previous_key (cleared when a block is flushed)
  blockBytes : Nat := 0         -- delta_writer.block.len()
  blockStart : Bool := true     -- first_ordinal_of_the_block == num_terms
  lastBlockKey : Option Key := none  -- last_key_or_greater of the last closed block

/-- extracted from the source: `find_shorter_str_in_between` asserts `left < right`, and
`insert_key` runs it against the last key of the last closed block for the first key of a block -/
def separatorGuard : Bool :=
  Gen.SEPARATOR_ASSERT == 1 && Gen.SEPARATOR_CHECK_AT_BLOCK_START == 1

/-- extracted from the source: `insert_key` asserts the modelled `increasing_keys` expression -/
def increasingGuard : Bool := Gen.INCREASING_KEYS_ASSERT == 1

/-- the assert of find_shorter_str_in_between, reached only for the first key of a block -/
def WState.sepOk (s : WState) (k : Key) : Bool :=
  if s.blockStart && separatorGuard then
    (match s.lastBlockKey with | some l => lexLt l k | none => true)
  else true

/-- the assert on `increasing_keys` -/
def incOk (prev k : Key) : Bool :=
  if increasingGuard then decide (increasingKeys prev k = some true) else true

/-- state after an accepted key: the block is closed iff its key bytes exceed `blockLen` -/
def WState.next (blockLen : Nat) (s : WState) (k : Key) : WState :=
  if s.blockBytes + (entryBytes s.prev k).length > blockLen then
    { prev := [], blockBytes := 0, blockStart := true, lastBlockKey := some k }
  else
    { prev := k, blockBytes := s.blockBytes + (entryBytes s.prev k).length, blockStart := false,
      lastBlockKey := s.lastBlockKey }

/-- one `Writer::insert`; `none` = panic (assert of insert_key, or the assert of
find_shorter_str_in_between at a block start) -/
def WState.insert (blockLen : Nat) (s : WState) (k : Key) : Option WState :=
  if s.sepOk k = true ∧ incOk s.prev k = true then some (s.next blockLen k) else none

/-- index of the first rejected key, `none` if the whole sequence is accepted -/
def firstRejected (blockLen : Nat) : WState → List Key → Nat → Option Nat
  | _, [], _ => none
  | s, k :: ks, i =>
    match s.insert blockLen k with
    | none => some i
    | some s' => firstRejected blockLen s' ks (i + 1)

def writerAccepts (blockLen : Nat) (ks : List Key) : Bool := (firstRejected blockLen {} ks 0).isNone

end TantivyModel.SSTable

namespace TantivyModel.SSTable

/-- mirrors: SSTableIndex::get_and_locate_with_ord + the `current_block_end_bound` computation of
Dictionary::sorted_ords_to_term_cb: the block holding `ord` and the first ordinal of the next
block (`u64::MAX` if there is none) -/
def Dict.openForOrd {V} (d : Dict V) (ord : Nat) : Block V × Nat :=
  let i := d.locateOrd ord
  ((d.blockAt i).getD ⟨[], 0, []⟩,
   match d.blockAt (i + 1) with | some b => b.firstOrd | none => U64_MAX)

/-- mirrors: the loop of Dictionary::sorted_ords_to_term_cb after the first ordinal: the same
ordinal again re-emits the current key; an ordinal at or past the end bound re-opens a block;
a block that runs out ends the call with `false` -/
def Dict.sortedOrdsGo {V} (d : Dict V) : Block V → Nat → Nat → Key → List Nat → List Key × Bool
  | _, _, _, _, [] => ([], true)
  | b, endBound, prevOrd, cur, o :: rest =>
    if o = prevOrd then
      let r := d.sortedOrdsGo b endBound prevOrd cur rest
      (cur :: r.1, r.2)
    else
      let be := if o ≥ endBound then d.openForOrd o else (b, endBound)
      match be.1.entries[o - be.1.firstOrd]? with
      | none => ([], false)
      | some e =>
        let r := d.sortedOrdsGo be.1 be.2 o e.1 rest
        (e.1 :: r.1, r.2)

/-- mirrors: Dictionary::sorted_ords_to_term_cb (requires `ords` sorted): the keys passed to the
callback and the returned flag -/
def Dict.sortedOrdsToTerm {V} (d : Dict V) : List Nat → List Key × Bool
  | [] => ([], true)
  | o :: rest =>
    let be := d.openForOrd o
    match be.1.entries[o - be.1.firstOrd]? with
    | none => ([], false)
    | some e =>
      let r := d.sortedOrdsGo be.1 be.2 o e.1 rest
      (e.1 :: r.1, r.2)

end TantivyModel.SSTable

namespace TantivyModel.SSTable

/-- the blocks the writer closes, driven by the same state that performs the order checks
(`cur` = keys of the open block). mirrors: Writer::insert → flush_block_if_required / finish -/
def writerBlocks (blockLen : Nat) : WState → List Key → List Key → List (List Key)
  | _, cur, [] => if cur.isEmpty then [] else [cur]
  | s, cur, k :: ks =>
    if (s.next blockLen k).blockStart then (cur ++ [k]) :: writerBlocks blockLen (s.next blockLen k) [] ks
    else writerBlocks blockLen (s.next blockLen k) (cur ++ [k]) ks

end TantivyModel.SSTable

namespace TantivyModel.SSTable

inductive OrdBound where
  | unbounded
  | incl (o : Nat)
  | excl (o : Nat)
  deriving DecidableEq, Repr

def OrdBound.lo : OrdBound → Nat → Bool
  | .unbounded, _ => true
  | .incl o, i => decide (o ≤ i)
  | .excl o, i => decide (o < i)

def OrdBound.hi : OrdBound → Nat → Bool
  | .unbounded, _ => true
  | .incl o, i => decide (i ≤ o)
  | .excl o, i => decide (i < o)

/-- mirrors: Dictionary::term_bounds_to_ord (+ common::bounds::transform_bound_inner_res): an exact
hit keeps the bound kind; a miss becomes `Included(next)` for the lower and `Excluded(next)` for
the upper bound -/
def Dict.termBoundsToOrd {V} (d : Dict V) (lo hi : Bound) : OrdBound × OrdBound :=
  ((match lo with
    | .unbounded => .unbounded
    | .incl k => (match d.termOrdOrNext k with | .exact o => .incl o | .next o => .incl o)
    | .excl k => (match d.termOrdOrNext k with | .exact o => .excl o | .next o => .incl o)),
   (match hi with
    | .unbounded => .unbounded
    | .incl k => (match d.termOrdOrNext k with | .exact o => .incl o | .next o => .excl o)
    | .excl k => (match d.termOrdOrNext k with | .exact o => .excl o | .next o => .excl o)))

end TantivyModel.SSTable
