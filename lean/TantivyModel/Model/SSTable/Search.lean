import TantivyModel.Model.SSTable.Index
/-!
# C15 — automaton-filtered streams with block pruning

mirrors `sstable/src/block_match_automaton.rs` (can a block whose keys lie in
`(start, end]` hold an accepted key?), `index/v3.rs::GetBlockForAutomaton`,
`dictionary.rs::get_block_iterator_for_range_and_automaton` and `streamer.rs::Streamer::advance`.
-/
namespace TantivyModel.SSTable
open TantivyModel

variable {σ : Type}

def allBytes : List UInt8 := (List.range 256).map UInt8.ofNat

/-- some byte `rb` with `lo ≤ rb < hi` leads to a state that can still match -/
def anyByteCanMatch (A : Automaton σ) (s : σ) (lo hi : Nat) : Bool :=
  allBytes.any (fun rb => decide (lo ≤ rb.toNat) && decide (rb.toNat < hi) && A.canMatch (A.step s rb))

/-- mirrors: block_match_automaton.rs::match_range_start -/
def matchRangeStart (A : Automaton σ) : Key → σ → Bool
  | [], s => A.canMatch s && anyByteCanMatch A s 0 256
  | kb :: rest, s =>
    if !A.canMatch s then false
    else if anyByteCanMatch A s (kb.toNat + 1) 256 then true
    else matchRangeStart A rest (A.step s kb)

/-- mirrors: block_match_automaton.rs::match_range_end -/
def matchRangeEnd (A : Automaton σ) : Key → σ → Bool
  | [], _ => false
  | kb :: rest, s =>
    if !A.canMatch s then false
    else if anyByteCanMatch A s 0 kb.toNat then true
    else if A.accept (A.step s kb) then true
    else matchRangeEnd A rest (A.step s kb)

/-- mirrors: block_match_automaton.rs::can_block_match_automaton_with_start -/
def canBlockMatchWithStart (A : Automaton σ) (startKey endKey : Key) : Bool :=
  if !lexLt startKey endKey then false
  else
    let c := cpl startKey endKey
    let base := A.run A.start (startKey.take c)
    if !A.canMatch base then false
    else
      match startKey[c]?, endKey[c]? with
      | none, _ => matchRangeEnd A (endKey.drop c) base
      | some sr, some er =>
        if anyByteCanMatch A base (sr.toNat + 1) er.toNat then true
        else if matchRangeStart A (startKey.drop (c + 1)) (A.step base sr) then true
        else if A.accept (A.step base er) then true
        else matchRangeEnd A (endKey.drop (c + 1)) (A.step base er)
      | some _, none => false    -- unreachable when start < end

/-- mirrors: block_match_automaton.rs::can_block_match_automaton (`none` = first block) -/
def canBlockMatch (A : Automaton σ) (startKey : Option Key) (endKey : Key) : Bool :=
  match startKey with
  | some s => canBlockMatchWithStart A s endKey
  | none => if A.accept A.start then true else canBlockMatchWithStart A [] endKey

/-- block ids kept by the separator walk. mirrors: GetBlockForAutomaton::next -/
def keptBlocks {V} (A : Automaton σ) : Option Key → Nat → List (Block V) → List (Nat × Block V)
  | _, _, [] => []
  | prev, i, b :: bs =>
    if canBlockMatch A prev b.sep then (i, b) :: keptBlocks A (some b.sep) (i + 1) bs
    else keptBlocks A (some b.sep) (i + 1) bs

/-- mirrors: Streamer::advance with an automaton: as `scanStream`, emitting only accepted keys.
The reported ordinal counts the entries *read*, starting from `first_term`. -/
def scanSearch {V} (A : Automaton σ) (lo hi : Bound) : Bool → Nat → Assoc V → List (Nat × Key × V)
  | _, _, [] => []
  | passed, ord, e :: rest =>
    if !passed && !matchLo lo e.1 then scanSearch A lo hi false (ord + 1) rest
    else if !matchHi hi e.1 then []
    else if A.accepts e.1 then (ord, e.1, e.2) :: scanSearch A lo hi true (ord + 1) rest
    else scanSearch A lo hi true (ord + 1) rest

/-- block id of the lower bound (`unwrap_or(u64::MAX)` = nothing is read), 0 if unbounded -/
def Dict.lowerBlock {V} (d : Dict V) (lo : Bound) : Option Nat :=
  match lo.key? with | some k => d.locateKey k | none => some 0

/-- blocks kept by the separator walk (`V3Empty`: the single pseudo block, unfiltered) -/
def Dict.candidates {V} (d : Dict V) (A : Automaton σ) : List (Nat × Block V) :=
  if d.single then [(0, d.blocks.headD ⟨[], 0, []⟩)] else keptBlocks A none 0 d.blocks

/-- `block_range.contains(block_id)` with `block_range = lower ..= upper` -/
def inBlockRange {V} (l : Nat) (upper : Option Nat) (p : Nat × Block V) : Bool :=
  decide (l ≤ p.1) && (match upper with | some u => decide (p.1 ≤ u) | none => true)

/-- blocks read by an automaton search. mirrors: get_block_iterator_for_range_and_automaton -/
def Dict.searchBlocks {V} (d : Dict V) (A : Automaton σ) (lo hi : Bound) : List (Block V) :=
  match d.lowerBlock lo with
  | none => []                                     -- unwrap_or(u64::MAX) ..= _ is empty
  | some l => ((d.candidates A).filter (inBlockRange l (d.lastKeyBlock hi))).map (·.2)

/-- mirrors: Dictionary::search(A).{ge,gt,le,lt}.into_stream() when `A` is not
`will_always_match` at the start -/
def Dict.search {V} (d : Dict V) (A : Automaton σ) (lo hi : Bound) : List (Nat × Key × V) :=
  scanSearch A lo hi false (d.firstTerm lo) (((d.searchBlocks A lo hi).map (·.entries)).flatten)

/-! ## automata the driver can run -/

/-- accepts exactly the keys starting with `p`; state = remaining prefix, `none` = dead -/
def prefixAutomaton (p : Key) : Automaton (Option Key) where
  start := some p
  step := fun s b => match s with
    | none => none
    | some [] => some []
    | some (x :: r) => if x = b then some r else none
  accept := fun s => s == some []
  canMatch := fun s => s.isSome

/-- explicit DFA: `next[s * 256 + b]`, flags per state; state `n` (out of range) is dead -/
structure Table where
  n : Nat
  next : Array Nat
  acc : Array Bool
  can : Array Bool

def tableAutomaton (t : Table) (start : Nat) : Automaton Nat where
  start := start
  step := fun s b => if s < t.n then t.next.getD (s * 256 + b.toNat) t.n else t.n
  accept := fun s => t.acc.getD s false
  canMatch := fun s => t.can.getD s false

/-- Levenshtein distance row automaton over bytes: state = DP row against `q` -/
def levStep (q : Key) (row : List Nat) (b : UInt8) : List Nat :=
  match row with
  | [] => []
  | r0 :: rs =>
    let rec go : Key → Nat → List Nat → Nat → List Nat
      | qc :: qs, diag, up :: ups, left =>
        let v := min (min (up + 1) (left + 1)) (diag + (if qc = b then 0 else 1))
        v :: go qs up ups v
      | _, _, _, _ => []
    (r0 + 1) :: go q r0 rs (r0 + 1)

def levAutomaton (q : Key) (d : Nat) : Automaton (List Nat) where
  start := List.range (q.length + 1)
  step := levStep q
  accept := fun row => decide (row.getLastD (d + 1) ≤ d)
  canMatch := fun row => row.any (fun v => decide (v ≤ d))

end TantivyModel.SSTable

namespace TantivyModel.SSTable
open TantivyModel
variable {σ : Type}

/-! ## the streamer as the code runs it: front-coded entries and an automaton state stack -/

/-- states after each byte of `w`, starting after state `s` -/
def pushStates (A : Automaton σ) : σ → Key → List σ
  | _, [] => []
  | s, b :: rest => A.step s b :: pushStates A (A.step s b) rest

/-- the `(keep, suffix, value)` entries of one block as the delta reader yields them -/
def deltaTriples {V} (prev : Key) : Assoc V → List (Nat × Key × V)
  | [] => []
  | e :: rest => (cpl prev e.1, e.1.drop (cpl prev e.1), e.2) :: deltaTriples e.1 rest

/-- the entries of a sequence of blocks (previous key reset at every block start) -/
def fileTriples {V} (bs : List (Assoc V)) : List (Nat × Key × V) := (bs.map (deltaTriples [])).flatten

/-- mirrors: Streamer::advance literally: `key.truncate(keep); key.extend(suffix)`;
`states.truncate(keep + 1)`, then one pushed state per suffix byte — BEFORE the bound tests, so the
stack stays valid for entries skipped below the lower bound; `is_match` on the last state. `key`
and `states` persist across block boundaries (the first entry of a block has `keep = 0`). -/
def scanSearchDelta {V} (A : Automaton σ) (lo hi : Bound) :
    Bool → Nat → Key → List σ → List (Nat × Key × V) → List (Nat × Key × V)
  | _, _, _, _, [] => []
  | passed, ord, key, states, (keep, suffix, v) :: rest =>
    let key' := key.take keep ++ suffix
    let base := states.take (keep + 1)
    let states' := base ++ pushStates A (base.getLastD A.start) suffix
    if !passed && !matchLo lo key' then scanSearchDelta A lo hi false (ord + 1) key' states' rest
    else if !matchHi hi key' then []
    else if A.accept (states'.getLastD A.start) then
      (ord, key', v) :: scanSearchDelta A lo hi true (ord + 1) key' states' rest
    else scanSearchDelta A lo hi true (ord + 1) key' states' rest

/-- the automaton search through the front-coded entries and the state stack -/
def Dict.searchDelta {V} (d : Dict V) (A : Automaton σ) (lo hi : Bound) : List (Nat × Key × V) :=
  scanSearchDelta A lo hi false (d.firstTerm lo) [] [A.start]
    (fileTriples ((d.searchBlocks A lo hi).map (·.entries)))

end TantivyModel.SSTable

namespace TantivyModel.SSTable
open TantivyModel
variable {σ : Type}

/-- mirrors: StreamerBuilder::into_stream with every parameter set — bounds, limit, automaton.
`wam` = `automaton.will_always_match(&automaton.start())`: then the blocks come from
file_slice_for_range (the limit applies, an inverted range may fail), otherwise from the pruned
index walk (the limit is ignored); the Streamer filters by the automaton in both cases -/
def Dict.searchLim {V} (d : Dict V) (A : Automaton σ) (wam : Bool) (lo hi : Bound)
    (limit : Option Nat) : Option (List (Nat × Key × V)) :=
  if wam then
    match d.sliceFor lo hi limit with
    | .panic => none
    | .blocks _ bs => some (scanSearch A lo hi false (d.firstTerm lo) ((bs.map (·.entries)).flatten))
  else some (d.search A lo hi)

end TantivyModel.SSTable
