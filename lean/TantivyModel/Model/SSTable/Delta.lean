import TantivyModel.Model.SSTable.Spec
import TantivyModel.Gen.SSTable
/-!
# C15 — front coding of sstable blocks (`sstable/src/delta.rs`, `vint.rs`, `block_reader.rs`)

A block holds its keys as `(keep, add, suffix)` entries: `keep` bytes are shared with the
previous key of the *same block* (the previous key is reset to `""` at a block start), `add`
suffix bytes follow. `keep`/`add` are one byte of two nibbles if both are below
`FOUR_BIT_LIMITS`, otherwise the marker `VINT_MODE` followed by two VInts.
-/
namespace TantivyModel.SSTable
open TantivyModel

/-- mirrors: sstable/src/vint.rs::serialize (7 bits per byte, little endian, continue bit) -/
def vintSer (n : Nat) : List UInt8 :=
  if n < Gen.VINT_CONTINUE_BIT then [UInt8.ofNat n]
  else UInt8.ofNat (n % 128 + Gen.VINT_CONTINUE_BIT) :: vintSer (n / 128)
decreasing_by
  have : Gen.VINT_CONTINUE_BIT = 128 := rfl
  omega

/-- mirrors: sstable/src/vint.rs::deserialize_read — (consumed bytes, value) -/
def vintDe : List UInt8 → Nat × Nat
  | [] => (0, 0)
  | b :: rest =>
    if b.toNat < Gen.VINT_CONTINUE_BIT then (1, b.toNat % 128)
    else let r := vintDe rest; (r.1 + 1, b.toNat % 128 + 128 * r.2)

/-- mirrors: sstable/src/delta.rs::DeltaWriter::encode_keep_add -/
def encodeKeepAdd (keep add : Nat) : List UInt8 :=
  if keep < Gen.FOUR_BIT_LIMITS ∧ add < Gen.FOUR_BIT_LIMITS then
    [UInt8.ofNat (keep ||| (add <<< Gen.KEEP_ADD_PACK_SHIFT))]
  else UInt8.ofNat Gen.VINT_MODE :: (vintSer keep ++ vintSer add)

/-- mirrors: sstable/src/delta.rs::DeltaReader::read_keep_add — (keep, add, remaining bytes) -/
def readKeepAdd : List UInt8 → Option (Nat × Nat × List UInt8)
  | [] => none
  | b :: rest =>
    if b.toNat = Gen.VINT_MODE then
      let r1 := vintDe rest
      let rest1 := rest.drop r1.1
      let r2 := vintDe rest1
      some (r1.2, r2.2, rest1.drop r2.1)
    else some (b.toNat &&& Gen.KEEP_MASK, b.toNat >>> Gen.ADD_UNPACK_SHIFT, rest)

/-- the `(keep, suffix)` entries of one block. mirrors: Writer::insert_key (keep_len, write_suffix) -/
def deltaEntries (prev : Key) : List Key → List (Nat × Key)
  | [] => []
  | k :: ks => (cpl prev k, k.drop (cpl prev k)) :: deltaEntries k ks

/-- bytes of one `(keep, add, suffix)` entry -/
def entryBytes (prev k : Key) : List UInt8 :=
  encodeKeepAdd (cpl prev k) (k.length - cpl prev k) ++ k.drop (cpl prev k)

/-- key part of a block (the value part precedes it in the file) -/
def encodeEntries (prev : Key) : List Key → List UInt8
  | [] => []
  | k :: ks => entryBytes prev k ++ encodeEntries k ks

def encodeBlockKeys (ks : List Key) : List UInt8 := encodeEntries [] ks

/-- mirrors: DeltaReader::advance/read_delta_key + Reader::advance (key = prev[..keep] ++ suffix);
`fuel` bounds the number of entries (each consumes at least one byte) -/
def decodeEntries : Nat → Key → List UInt8 → List Key
  | 0, _, _ => []
  | fuel + 1, prev, bytes =>
    match readKeepAdd bytes with
    | none => []
    | some (keep, add, rest) =>
      let k := prev.take keep ++ rest.take add
      k :: decodeEntries fuel k (rest.drop add)

def decodeBlockKeys (bytes : List UInt8) : List Key := decodeEntries bytes.length [] bytes

/-- mirrors: Writer::insert_value/flush_block_if_required + DeltaWriter::flush_block_if_required:
after each entry the block is closed iff its key bytes exceed `blockLen`; the previous key is
reset at a block start. `cur` = entries of the open block, `n` = its key bytes so far. -/
def cutBlocks {α} (key : α → Key) (blockLen : Nat) : List α → Nat → Key → List α → List (List α)
  | cur, _, _, [] => if cur.isEmpty then [] else [cur]
  | cur, n, prev, x :: xs =>
    let n' := n + (entryBytes prev (key x)).length
    if n' > blockLen then (cur ++ [x]) :: cutBlocks key blockLen [] 0 [] xs
    else cutBlocks key blockLen (cur ++ [x]) n' (key x) xs

def blocksOf {α} (key : α → Key) (blockLen : Nat) (xs : List α) : List (List α) :=
  cutBlocks key blockLen [] 0 [] xs

def encodeBlocks (blockLen : Nat) (ks : List Key) : List (List UInt8) :=
  (blocksOf id blockLen ks).map encodeBlockKeys

def decodeBlocks (bs : List (List UInt8)) : List Key := (bs.map decodeBlockKeys).flatten

/-! ## value blocks (`sstable/src/value/*`) — decoded for cross-decoding of real files -/

/-- `n` VInts; returns values and the remaining bytes -/
def readVints : Nat → List UInt8 → List Nat × List UInt8
  | 0, bytes => ([], bytes)
  | n + 1, bytes =>
    let r := vintDe bytes
    let rr := readVints n (bytes.drop r.1)
    (r.2 :: rr.1, rr.2)

def prefixSums (acc : Nat) : List Nat → List Nat
  | [] => []
  | d :: ds => (acc + d) :: prefixSums (acc + d) ds

/-- mirrors: value/u64_monotonic.rs::load — count, then deltas -/
def loadU64Mono (bytes : List UInt8) : List Nat × List UInt8 :=
  let r := vintDe bytes
  let rr := readVints r.2 (bytes.drop r.1)
  (prefixSums 0 rr.1, rr.2)

/-- mirrors: value/u64_monotonic.rs::serialize_block -/
def deltasOf (prev : Nat) : List Nat → List Nat
  | [] => []
  | v :: vs => (v - prev) :: deltasOf v vs

def serU64Mono (vals : List Nat) : List UInt8 :=
  vintSer vals.length ++ ((deltasOf 0 vals).map vintSer).flatten

/-- mirrors: value/range.rs::load — count of boundaries, then boundary deltas; ranges are
consecutive pairs of boundaries -/
def loadRange (bytes : List UInt8) : List (Nat × Nat) × List UInt8 :=
  let r := vintDe bytes
  let rr := readVints r.2 (bytes.drop r.1)
  let bounds := prefixSums 0 rr.1
  (bounds.zip (bounds.drop 1), rr.2)

/-- mirrors: value/range.rs::RangeValueWriter::write — the stored boundaries: the first start, then
every end (a range must start where the previous one ended: `assert_eq!`) -/
def rangeBounds : List (Nat × Nat) → List Nat
  | [] => []
  | r :: rest => r.1 :: r.2 :: rest.map (·.2)

/-- mirrors: value/range.rs::serialize_block (count of boundaries, boundary deltas) -/
def serRange (rs : List (Nat × Nat)) : List UInt8 := serU64Mono (rangeBounds rs)

/-- consecutive ranges partition an interval -/
def Contig : List (Nat × Nat) → Prop
  | [] => True
  | [_] => True
  | a :: b :: rest => a.2 = b.1 ∧ Contig (b :: rest)

/-! ## file framing (`Writer::finish`, `BlockReader::read_block`) -/

def u32le (bs : List UInt8) : Nat :=
  (bs.take 4).foldr (fun b acc => b.toNat + 256 * acc) 0

def u64le (bs : List UInt8) : Nat :=
  (bs.take 8).foldr (fun b acc => b.toNat + 256 * acc) 0

inductive RawBlock where
  | plain (payload : List UInt8)
  | compressed (payload : List UInt8)
  deriving Repr

/-- mirrors: BlockReader::read_block — `u32 len+1 | compress byte | payload`, a length ≤ 1 ends
the stream; `none` = truncated input -/
def readBlocks : Nat → List UInt8 → Option (List RawBlock)
  | 0, _ => some []
  | fuel + 1, bytes =>
    if bytes.length = 0 then some []
    else if bytes.length < 4 then none
    else
      let len := u32le bytes
      if len ≤ 1 then some []
      else
        let rest := bytes.drop 4
        match rest with
        | [] => none
        | c :: payloadAndRest =>
          let plen := len - 1
          if payloadAndRest.length < plen then none
          else
            match readBlocks fuel (payloadAndRest.drop plen) with
            | none => none
            | some bs =>
              some ((if c.toNat = 1 then RawBlock.compressed (payloadAndRest.take plen)
                     else RawBlock.plain (payloadAndRest.take plen)) :: bs)

end TantivyModel.SSTable

namespace TantivyModel.SSTable
open TantivyModel

structure OpenedFile where
  data : List UInt8
  index : List UInt8
  numTerms : Nat
  version : Nat
  deriving DecidableEq, Repr

/-- mirrors: Dictionary::open — the last 20 bytes are `index_offset u64 | num_terms u64 |
version u32`; the data blocks are `[0, index_offset)`, the index region what lies between -/
def openFile (bytes : List UInt8) : OpenedFile :=
  let foot := bytes.drop (bytes.length - Gen.SSTABLE_FOOTER_LEN)
  let main := bytes.take (bytes.length - Gen.SSTABLE_FOOTER_LEN)
  ⟨main.take (u64le foot), main.drop (u64le foot), u64le (foot.drop 8), u32le (foot.drop 16)⟩

end TantivyModel.SSTable
