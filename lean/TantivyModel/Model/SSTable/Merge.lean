import TantivyModel.Model.SSTable.Index
/-!
# C15 — k-way merge (`sstable/src/merge/heap_merge.rs`, `columnar/.../term_merger.rs`)

The binary heap is abstracted to what it provides: the minimal head key among the inputs.
One round pops that key from every input whose head equals it, collecting the values in input
order (the heap pops equal keys in an unspecified order; the value mergers of the code base —
void, sum, and the columnar merger, which orders by `(key, segment_ord)` — do not depend on it).
-/
namespace TantivyModel.SSTable

def minKey : List Key → Option Key
  | [] => none
  | k :: ks => match minKey ks with
    | none => some k
    | some m => some (if lexLt k m then k else m)

def heads {V} (ms : List (Assoc V)) : List Key := ms.filterMap (fun m => m.head?.map (·.1))

def popValues {V} (k : Key) (ms : List (Assoc V)) : List V :=
  ms.filterMap (fun m => match m with | e :: _ => if e.1 = k then some e.2 else none | [] => none)

def popRest {V} (k : Key) (ms : List (Assoc V)) : List (Assoc V) :=
  ms.map (fun m => match m with | e :: r => if e.1 = k then r else m | [] => [])

/-- which inputs hold the key of this round (the columnar merger's `matching_segments`) -/
def popWho {V} (k : Key) (ms : List (Assoc V)) : List Bool :=
  ms.map (fun m => match m with | e :: _ => decide (e.1 = k) | [] => false)

def kmerge {V} (comb : List V → V) : Nat → List (Assoc V) → Assoc V
  | 0, _ => []
  | fuel + 1, ms =>
    match minKey (heads ms) with
    | none => []
    | some k => (k, comb (popValues k ms)) :: kmerge comb fuel (popRest k ms)

def totalLen {V} (ms : List (Assoc V)) : Nat := (ms.map List.length).sum

/-- mirrors: merge_sstable -/
def kwayMerge {V} (comb : List V → V) (ms : List (Assoc V)) : Assoc V :=
  kmerge comb (totalLen ms) ms

/-- per round, per input: the old ordinal consumed (if the input held the key); round index =
new ordinal. mirrors: TermMerger::advance + matching_segments -/
def kmergeOrds {V} : Nat → List Nat → List (Assoc V) → List (List (Option Nat))
  | 0, _, _ => []
  | fuel + 1, pos, ms =>
    match minKey (heads ms) with
    | none => []
    | some k =>
      let who := popWho k ms
      let row := (pos.zip who).map (fun p => if p.2 then some p.1 else none)
      let pos' := (pos.zip who).map (fun p => if p.2 then p.1 + 1 else p.1)
      row :: kmergeOrds fuel pos' (popRest k ms)

end TantivyModel.SSTable
