/-!
# C15 — specification: a term dictionary is an ordered map from byte strings

`SortedMap V` is an association list whose keys are strictly increasing in the lexicographic
order of their bytes. Every operation is the shortest definition over that list; the
implementation-level model (`Delta`, `Index`, `Dict`, `Merge`) is proved to refine it.
-/
namespace TantivyModel.SSTable

abbrev Key := List UInt8

/-- lexicographic order of byte strings (what `&[u8] < &[u8]` is in Rust) -/
def lexLt : Key → Key → Bool
  | [], [] => false
  | [], _ :: _ => true
  | _ :: _, [] => false
  | a :: as, b :: bs => if a.toNat < b.toNat then true else if a = b then lexLt as bs else false

def lexLe (a b : Key) : Bool := !lexLt b a

/-- length of the longest common prefix. mirrors: sstable/src/lib.rs::common_prefix_len -/
def cpl : Key → Key → Nat
  | a :: as, b :: bs => if a = b then cpl as bs + 1 else 0
  | _, _ => 0

/-- strictly increasing (adjacent pairs — what a writer can check while inserting) -/
def StrictInc : List Key → Prop
  | [] => True
  | [_] => True
  | a :: b :: rest => lexLt a b = true ∧ StrictInc (b :: rest)

def strictIncB : List Key → Bool
  | [] => true
  | [_] => true
  | a :: b :: rest => lexLt a b && strictIncB (b :: rest)

abbrev Assoc (V : Type) := List (Key × V)

def keys {V} (m : Assoc V) : List Key := m.map (·.1)

/-- the ordered-map invariant -/
def SortedMap {V} (m : Assoc V) : Prop := StrictInc (keys m)

/-! ## operations of the ordered map -/

def get {V} (m : Assoc V) (k : Key) : Option V := (m.find? (fun e => e.1 == k)).map (·.2)

def ordToTerm {V} (m : Assoc V) (ord : Nat) : Option Key := (m[ord]?).map (·.1)

def valueAtOrd {V} (m : Assoc V) (ord : Nat) : Option V := (m[ord]?).map (·.2)

def termOrd {V} (m : Assoc V) (k : Key) : Option Nat := m.findIdx? (fun e => e.1 == k)

inductive Hit where
  | exact (ord : Nat)
  | next (ord : Nat)
  deriving DecidableEq, Repr

/-- number of keys strictly below `k` = ordinal of the first key `≥ k` -/
def rank {V} (m : Assoc V) (k : Key) : Nat := (m.filter (fun e => lexLt e.1 k)).length

def termOrdOrNext {V} (m : Assoc V) (k : Key) : Hit :=
  let r := rank m k
  match m[r]? with
  | some e => if e.1 = k then .exact r else .next r
  | none => .next r

inductive Bound where
  | unbounded
  | incl (k : Key)
  | excl (k : Key)
  deriving DecidableEq, Repr

def matchLo : Bound → Key → Bool
  | .unbounded, _ => true
  | .incl b, k => lexLe b k
  | .excl b, k => lexLt b k

def matchHi : Bound → Key → Bool
  | .unbounded, _ => true
  | .incl b, k => lexLe k b
  | .excl b, k => lexLt k b

/-- all entries within the bounds, in order (empty for inverted bounds) -/
def range {V} (m : Assoc V) (lo hi : Bound) : Assoc V :=
  m.filter (fun e => matchLo lo e.1 && matchHi hi e.1)

/-- `limit` is documented as a lower bound on what is loaded ("can still return marginally more"):
a limited stream is a prefix of the range holding at least `min limit |range|` entries -/
def IsLimitedRange {V} (m : Assoc V) (lo hi : Bound) (limit : Option Nat) (out : Assoc V) : Prop :=
  out <+: range m lo hi ∧
    match limit with
    | none => out = range m lo hi
    | some l => min l (range m lo hi).length ≤ out.length

def isPrefixOf : Key → Key → Bool
  | [], _ => true
  | _ :: _, [] => false
  | a :: as, b :: bs => a == b && isPrefixOf as bs

def prefixed {V} (m : Assoc V) (p : Key) : Assoc V := m.filter (fun e => isPrefixOf p e.1)

/-- abstract deterministic automaton (tantivy_fst::Automaton): state, start, step, accept,
`canMatch` (false only for dead states) -/
structure Automaton (σ : Type) where
  start : σ
  step : σ → UInt8 → σ
  accept : σ → Bool
  canMatch : σ → Bool

def Automaton.run {σ} (A : Automaton σ) (s : σ) (k : Key) : σ := k.foldl A.step s

def Automaton.accepts {σ} (A : Automaton σ) (k : Key) : Bool := A.accept (A.run A.start k)

/-- `can_match` contract: a state declared dead accepts no continuation -/
def Automaton.CanMatchSound {σ} (A : Automaton σ) : Prop :=
  ∀ s, A.canMatch s = false → ∀ w, A.accept (A.run s w) = false

def search {V σ} (A : Automaton σ) (m : Assoc V) (lo hi : Bound) : Assoc V :=
  (range m lo hi).filter (fun e => A.accepts e.1)

/-! ## merge: sorted union with ordinal tables -/

/-- ordered insertion without duplicates -/
def insertKey (k : Key) : List Key → List Key
  | [] => [k]
  | a :: rest => if lexLt k a then k :: a :: rest else if k = a then a :: rest else a :: insertKey k rest

def unionKeys (ms : List (List Key)) : List Key := ms.flatten.foldr insertKey []

/-- merged map: for every key of the union the values of the inputs holding it, in input order,
combined by `comb` -/
def mergeSpec {V} (comb : List V → V) (ms : List (Assoc V)) : Assoc V :=
  (unionKeys (ms.map keys)).map (fun k => (k, comb (ms.filterMap (fun m => get m k))))

/-- old ordinal → new ordinal table of input `m` -/
def ordMap {V W} (m : Assoc V) (merged : Assoc W) : List (Option Nat) :=
  m.map (fun e => termOrd merged e.1)

end TantivyModel.SSTable

namespace TantivyModel.SSTable

/-- keys of a list of ordinals, stopping at the first ordinal that does not exist -/
def sortedOrdsSpec {V} (m : Assoc V) : List Nat → List Key × Bool
  | [] => ([], true)
  | o :: rest =>
    match m[o]? with
    | none => ([], false)
    | some e => let r := sortedOrdsSpec m rest; (e.1 :: r.1, r.2)

end TantivyModel.SSTable
