import TantivyModel.Model.SSTable.Delta
/-!
# C15 — the block-address store of the sstable index (`sstable/src/index/v3.rs`)

Block addresses `(first_ordinal, byte_range)` are stored in groups of `STORE_BLOCK_LEN`: per group a
36-byte metadata record (reference address, two slopes, two bit widths, count) and a bit-packed
array holding, for each further block, the deviation of its start offset and of its first ordinal
from the linear prediction `slope * index`, shifted by `2^(nbits-1)` to be non-negative.
-/
namespace TantivyModel.SSTable
open TantivyModel

structure BlockAddr where
  firstOrd : Nat
  start : Nat
  stop : Nat
  deriving DecidableEq, Repr

/-- little-endian value of the first `n` bytes -/
def leNat (n : Nat) (bs : List UInt8) : Nat :=
  (bs.take n).foldr (fun b acc => b.toNat + 256 * acc) 0

/-- mirrors: v3.rs::extract_bits — `num_bits` (≤ 56) bits at bit address `addr` of a
little-endian bit stream (8 bytes are loaded, zero padded at the end of the buffer) -/
def extractBits (data : List UInt8) (addr nbits : Nat) : Nat :=
  (leNat 8 (data.drop (addr / 8)) >>> (addr % 8)) % 2 ^ nbits

structure StoreMeta where
  offset : Nat
  refStart : Nat
  refOrd : Nat
  rangeSlope : Nat
  ordSlope : Nat
  ordBits : Nat
  rangeBits : Nat
  blockLen : Nat
  deriving Repr

def META_SIZE : Nat := 36

/-- mirrors: BlockAddrBlockMetadata::deserialize (u64 offset, u64 start, u64 ordinal, u32, u32,
u8 first_ordinal_nbits, u8 range_start_nbits, u16 block_len) -/
def parseMeta (bs : List UInt8) : StoreMeta :=
  { offset := leNat 8 bs, refStart := leNat 8 (bs.drop 8), refOrd := leNat 8 (bs.drop 16),
    rangeSlope := leNat 4 (bs.drop 24), ordSlope := leNat 4 (bs.drop 28),
    ordBits := leNat 1 (bs.drop 32), rangeBits := leNat 1 (bs.drop 33), blockLen := leNat 2 (bs.drop 34) }

def StoreMeta.rangeShift (m : StoreMeta) : Nat := 2 ^ (m.rangeBits - 1)
def StoreMeta.ordShift (m : StoreMeta) : Nat := 2 ^ (m.ordBits - 1)

/-- mirrors: BlockAddrBlockMetadata::deserialize_block_addr -/
def StoreMeta.get (m : StoreMeta) (data : List UInt8) (inner : Nat) : Option BlockAddr :=
  if inner = 0 then
    some ⟨m.refOrd, m.refStart,
      m.refStart + extractBits data 0 m.rangeBits + m.rangeSlope - m.rangeShift⟩
  else
    let j := inner - 1
    if j ≥ m.blockLen then none
    else
      let nb := m.ordBits + m.rangeBits
      let rsAddr := nb * j
      let ordAddr := rsAddr + m.rangeBits
      let reAddr := rsAddr + nb
      if (reAddr + m.rangeBits + 7) / 8 > data.length then none
      else
        some ⟨m.refOrd + extractBits data ordAddr m.ordBits + m.ordSlope * (j + 1) - m.ordShift,
              m.refStart + extractBits data rsAddr m.rangeBits + m.rangeSlope * (j + 1) - m.rangeShift,
              m.refStart + extractBits data reAddr m.rangeBits + m.rangeSlope * (j + 2) - m.rangeShift⟩

structure Store where
  metas : List UInt8
  addrs : List UInt8

/-- mirrors: BlockAddrStore::open (u64 length of the metadata area, metadata, bit-packed data) -/
def openStore (bytes : List UInt8) : Store :=
  let len := leNat 8 bytes
  ⟨(bytes.drop 8).take len, (bytes.drop 8).drop len⟩

/-- mirrors: BlockAddrStore::get -/
def Store.get (s : Store) (blockId : Nat) : Option BlockAddr :=
  let sb := blockId / Gen.STORE_BLOCK_LEN
  let inner := blockId % Gen.STORE_BLOCK_LEN
  let mb := s.metas.drop (sb * META_SIZE)
  if mb.length < META_SIZE then none
  else
    let m := parseMeta mb
    m.get (s.addrs.drop m.offset) inner

def Store.numGroups (s : Store) : Nat := s.metas.length / META_SIZE

/-- every address the store holds, in block-id order -/
def Store.all (s : Store) : List BlockAddr :=
  (List.range (s.numGroups * Gen.STORE_BLOCK_LEN)).filterMap s.get

/-- mirrors: v3.rs::binary_search (`Ok` = exact, `Err` = insertion point) -/
def binSearch (cmp : Nat → Ordering) : Nat → Nat → Nat → Nat ⊕ Nat
  | 0, left, _ => .inr left
  | fuel + 1, left, right =>
    if left < right then
      let mid := left + (right - left) / 2
      match cmp mid with
      | .lt => binSearch cmp fuel (mid + 1) right
      | .gt => binSearch cmp fuel left mid
      | .eq => .inl mid
    else .inr left

/-- mirrors: BlockAddrStore::binary_search_ord + bisect_for_ord, over abstract accessors:
`B` = STORE_BLOCK_LEN, `G` = number of store blocks, `bl g` = `block_len` of store block `g`
(its further addresses), `f id` = first ordinal of block `id`. The `.inl` branch of the outer
search is the fast path: `ord` is exactly the first ordinal of a store block, whose block id is
`g * B` (not `g`). -/
def locateOrdGen (B G : Nat) (bl : Nat → Nat) (f : Nat → Nat) (ord : Nat) : Nat :=
  match binSearch (fun g => compare (f (g * B)) ord) (G + 1) 0 G with
  | .inl g => g * B
  | .inr g =>
    match binSearch (fun i => compare (f ((g - 1) * B + i + 1)) ord) (bl (g - 1) + 1) 0 (bl (g - 1)) with
    | .inl i => (g - 1) * B + i + 1
    | .inr i => (g - 1) * B + i

/-- block id holding `ord`, from the store bytes -/
def Store.locateOrd (s : Store) (ord : Nat) : Nat :=
  locateOrdGen Gen.STORE_BLOCK_LEN s.numGroups
    (fun g => (parseMeta (s.metas.drop (g * META_SIZE))).blockLen)
    (fun id => match s.get id with | some a => a.firstOrd | none => 0) ord

/-! ### the writer side of one value (for the codec theorem) -/

/-- bit length. mirrors: tantivy_bitpacker::compute_num_bits (below the 56-bit cut-off) -/
def numBits : Nat → Nat
  | 0 => 0
  | n + 1 => numBits ((n + 1) / 2) + 1

/-- absolute deviation from the linear prediction -/
def deviation (slope i v : Nat) : Nat := if slope * i ≤ v then v - slope * i else slope * i - v

/-- mirrors: the `max_derivation` / `compute_num_bits(..) + 1` part of find_best_slope -/
def slopeBits (slope : Nat) (els : List (Nat × Nat)) : Nat :=
  numBits ((els.map (fun e => deviation slope e.1 e.2)).foldl max 0) + 1

/-- mirrors: BlockAddrStoreWriter::flush_block — the value written for element `i` -/
def packVal (slope nbits i v : Nat) : Nat := v + 2 ^ (nbits - 1) - slope * i

/-- mirrors: deserialize_block_addr — the value read back -/
def unpackVal (slope nbits i p : Nat) : Nat := p + slope * i - 2 ^ (nbits - 1)

end TantivyModel.SSTable

namespace TantivyModel.SSTable
open TantivyModel

/-! ### the writer's bit packer (`tantivy_bitpacker::BitPacker`) -/

/-- `(x as u64).to_le_bytes()` -/
def le8 (x : Nat) : List UInt8 :=
  [UInt8.ofNat (x % 256), UInt8.ofNat (x / 256 % 256), UInt8.ofNat (x / 65536 % 256),
   UInt8.ofNat (x / 16777216 % 256), UInt8.ofNat (x / 4294967296 % 256),
   UInt8.ofNat (x / 1099511627776 % 256), UInt8.ofNat (x / 281474976710656 % 256),
   UInt8.ofNat (x / 72057594037927936 % 256)]

structure BitPackerSt where
  buf : Nat := 0        -- mini_buffer (u64)
  written : Nat := 0    -- mini_buffer_written
  out : List UInt8 := []

/-- mirrors: BitPacker::write (`|` of disjoint bit ranges written as `+`; `wrapping_shl` as
`% 2^64`): a value that does not fit the 64-bit mini buffer is split, the full buffer is emitted -/
def BitPackerSt.write (s : BitPackerSt) (v n : Nat) : BitPackerSt :=
  if s.written + n > 64 then
    { buf := v / 2 ^ (64 - s.written), written := s.written + n - 64,
      out := s.out ++ le8 ((s.buf + v * 2 ^ s.written) % 2 ^ 64) }
  else if s.written + n = 64 then
    { buf := 0, written := 0, out := s.out ++ le8 (s.buf + v * 2 ^ s.written) }
  else { buf := s.buf + v * 2 ^ s.written, written := s.written + n, out := s.out }

/-- mirrors: BitPacker::flush — the used bytes of the mini buffer -/
def BitPackerSt.flush (s : BitPackerSt) : List UInt8 :=
  if s.written > 0 then s.out ++ (le8 s.buf).take ((s.written + 7) / 8) else s.out

/-- the bytes written for a sequence of `(value, width)` fields -/
def bitPack (fs : List (Nat × Nat)) : List UInt8 :=
  (fs.foldl (fun (s : BitPackerSt) f => s.write f.1 f.2) {}).flush

end TantivyModel.SSTable

namespace TantivyModel.SSTable
open TantivyModel

/-! ### one store block as the writer lays it out (`BlockAddrStoreWriter::flush_block`) -/

/-- the `(start deviation, ordinal deviation)` fields of the blocks after the reference block,
block `i` (1-based inside the store block) predicted by `slope * i` -/
def groupFieldsAux (rs rb os ob : Nat) (ref : BlockAddr) : Nat → List BlockAddr → List (Nat × Nat)
  | _, [] => []
  | i, a :: rest =>
    (packVal rs rb i (a.start - ref.start), rb) :: (packVal os ob i (a.firstOrd - ref.firstOrd), ob) ::
      groupFieldsAux rs rb os ob ref (i + 1) rest

/-- all fields of a store block `ref :: more`: the pairs, then the end of the last block -/
def groupFields (rs rb os ob : Nat) (ref : BlockAddr) (more : List BlockAddr) (lastStop : Nat) :
    List (Nat × Nat) :=
  groupFieldsAux rs rb os ob ref 1 more ++ [(packVal rs rb (more.length + 1) (lastStop - ref.start), rb)]

/-- the metadata record of that store block (bit-packed data at offset 0) -/
def groupMeta (rs rb os ob : Nat) (ref : BlockAddr) (more : List BlockAddr) : StoreMeta :=
  { offset := 0, refStart := ref.start, refOrd := ref.firstOrd, rangeSlope := rs, ordSlope := os,
    ordBits := ob, rangeBits := rb, blockLen := more.length }

end TantivyModel.SSTable

namespace TantivyModel.SSTable
open TantivyModel

/-- re-encode every store block of a decoded store with the writer model (the slopes and widths the
real writer chose are read from the metadata) and compare with the bytes of the file -/
def Store.reencodeOk (s : Store) : Bool :=
  (List.range s.numGroups).all (fun g =>
    let m := parseMeta (s.metas.drop (g * META_SIZE))
    let ids := (List.range (m.blockLen + 1)).map (fun i => g * Gen.STORE_BLOCK_LEN + i)
    let addrs := ids.filterMap s.get
    match addrs with
    | [] => false
    | ref :: more =>
      let lastStop := ((ref :: more).getLast?.map (·.stop)).getD 0
      let bytes := bitPack (groupFields m.rangeSlope m.rangeBits m.ordSlope m.ordBits ref more lastStop)
      addrs.length = m.blockLen + 1 && ((s.addrs.drop m.offset).take bytes.length == bytes))

end TantivyModel.SSTable

namespace TantivyModel.SSTable
open TantivyModel

/-! ### the whole store as the writer serialises it (`BlockAddrStoreWriter::serialize`) -/

def le4 (x : Nat) : List UInt8 :=
  [UInt8.ofNat (x % 256), UInt8.ofNat (x / 256 % 256), UInt8.ofNat (x / 65536 % 256),
   UInt8.ofNat (x / 16777216 % 256)]

def le2 (x : Nat) : List UInt8 := [UInt8.ofNat (x % 256), UInt8.ofNat (x / 256 % 256)]

/-- one store block to be written: slopes, widths, reference address, further addresses, final end -/
structure GroupSpec where
  rs : Nat
  rb : Nat
  os : Nat
  ob : Nat
  ref : BlockAddr
  more : List BlockAddr
  lastStop : Nat

def GroupSpec.bytes (g : GroupSpec) : List UInt8 :=
  bitPack (groupFields g.rs g.rb g.os g.ob g.ref g.more g.lastStop)

/-- mirrors: BlockAddrBlockMetadata::serialize -/
def metaBytes (g : GroupSpec) (offset : Nat) : List UInt8 :=
  le8 offset ++ (le8 g.ref.start ++ (le8 g.ref.firstOrd ++ (le4 g.rs ++ (le4 g.os ++
    (UInt8.ofNat g.ob :: UInt8.ofNat g.rb :: le2 g.more.length)))))

/-- metadata records with the running offset into the packed data -/
def storeMetas : Nat → List GroupSpec → List UInt8
  | _, [] => []
  | off, g :: gs => metaBytes g off ++ storeMetas (off + g.bytes.length) gs

def storeData (gs : List GroupSpec) : List UInt8 := (gs.map (·.bytes)).flatten

/-- mirrors: BlockAddrStoreWriter::serialize — `u64 len(metadata) | metadata | packed data` -/
def storeBytes (gs : List GroupSpec) : List UInt8 :=
  le8 (META_SIZE * gs.length) ++ (storeMetas 0 gs ++ storeData gs)

end TantivyModel.SSTable

namespace TantivyModel.SSTable
open TantivyModel

/-- the store blocks of a decoded store as writer input (slopes and widths from the metadata) -/
def Store.groupSpecs (s : Store) : List GroupSpec :=
  (List.range s.numGroups).filterMap (fun g =>
    let m := parseMeta (s.metas.drop (g * META_SIZE))
    let ids := (List.range (m.blockLen + 1)).map (fun i => g * Gen.STORE_BLOCK_LEN + i)
    match ids.filterMap s.get with
    | [] => none
    | ref :: more =>
      some ⟨m.rangeSlope, m.rangeBits, m.ordSlope, m.ordBits, ref, more,
            ((ref :: more).getLast?.map (·.stop)).getD 0⟩)

/-- the whole store region re-serialised by the writer model equals the bytes of the file -/
def reencodeStoreOk (bytes : List UInt8) : Bool :=
  storeBytes (openStore bytes).groupSpecs == bytes

end TantivyModel.SSTable

namespace TantivyModel.SSTable
open TantivyModel

/-! ### `find_best_slope` (v3.rs) mirrored -/

structure SlopeAcc where
  minIdx : Nat := 1
  minVal : Nat := 0
  minSlope : Nat := 4294967295
  maxIdx : Nat := 1
  maxVal : Nat := 0
  maxSlope : Nat := 0

/-- one iteration of the first loop of find_best_slope (`slope = (value / index) as u32`) -/
def slopeStep (a : SlopeAcc) (e : Nat × Nat) : SlopeAcc :=
  let slope := (e.2 / e.1) % 4294967296
  let a1 : SlopeAcc :=
    if slope ≤ a.minSlope then { a with minSlope := slope, minIdx := e.1, minVal := e.2 } else a
  if slope ≥ a1.maxSlope then { a1 with maxSlope := slope, maxIdx := e.1, maxVal := e.2 } else a1

def maxDeviation (slope : Nat) (els : List (Nat × Nat)) : Nat :=
  (els.map (fun e => deviation slope e.1 e.2)).foldl max 0

/-- mirrors: tantivy_bitpacker::compute_num_bits (with its 56-bit cut-off) -/
def computeNumBits (n : Nat) : Nat := if numBits n ≤ 56 then numBits n else 64

/-- mirrors: v3.rs::find_best_slope — the slope through the "lowest" and "highest" points, rounded,
and the width of the largest deviation plus one -/
def findBestSlope (els : List (Nat × Nat)) : Nat × Nat :=
  let a := els.foldl slopeStep {}
  let den := a.minIdx + a.maxIdx
  let slope := ((a.minVal + a.maxVal + den / 2) / den) % 4294967296
  (slope, computeNumBits (maxDeviation slope els) + 1)

/-- elements `flush_block` passes for the start offsets: blocks 1.. and the final end -/
def rangeEls (ref : BlockAddr) (more : List BlockAddr) (lastStop : Nat) : List (Nat × Nat) :=
  (more.zipIdx 1).map (fun p => (p.2, p.1.start - ref.start)) ++ [(more.length + 1, lastStop - ref.start)]

/-- elements `flush_block` passes for the first ordinals: blocks 1.. -/
def ordEls (ref : BlockAddr) (more : List BlockAddr) : List (Nat × Nat) :=
  (more.zipIdx 1).map (fun p => (p.2, p.1.firstOrd - ref.firstOrd))

/-- the store block exactly as `flush_block` parametrises it -/
def mkGroup (ref : BlockAddr) (more : List BlockAddr) (lastStop : Nat) : GroupSpec :=
  let r := findBestSlope (rangeEls ref more lastStop)
  let o := findBestSlope (ordEls ref more)
  ⟨r.1, r.2, o.1, o.2, ref, more, lastStop⟩

/-- the store blocks of a decoded store re-parametrised by the model's own `find_best_slope` -/
def Store.writerSpecs (s : Store) : List GroupSpec :=
  s.groupSpecs.map (fun g => mkGroup g.ref g.more g.lastStop)

/-- the whole store region re-serialised with the model's own slopes and widths = the file bytes -/
def reencodeStoreOwnOk (bytes : List UInt8) : Bool :=
  storeBytes (openStore bytes).writerSpecs == bytes

/-! ### the whole store as the writer lays it out -/

/-- mirrors: BlockAddrStoreWriter::write_block_meta + serialize — addresses are buffered, a store
block is flushed every `n = STORE_BLOCK_LEN` addresses, the rest at the end -/
def chunksOf {α} (n : Nat) : Nat → List α → List (List α)
  | 0, _ => []
  | fuel + 1, l =>
    match l with
    | [] => []
    | a :: r => (a :: r).take n :: chunksOf n fuel ((a :: r).drop n)

/-- mirrors: flush_block — the first buffered address is the reference, the final end is the end
of the last buffered address, slopes and widths from `find_best_slope` -/
def groupOfChunk : List BlockAddr → GroupSpec
  | [] => ⟨0, 0, 0, 0, ⟨0, 0, 0⟩, [], 0⟩
  | ref :: more => mkGroup ref more (more.getLast?.getD ref).stop

def writerStore (addrs : List BlockAddr) : List GroupSpec :=
  (chunksOf Gen.STORE_BLOCK_LEN addrs.length addrs).map groupOfChunk

/-- the store region rebuilt from nothing but the decoded address list = the file bytes -/
def rebuildStoreOk (bytes : List UInt8) : Bool :=
  storeBytes (writerStore (openStore bytes).all) == bytes

end TantivyModel.SSTable
