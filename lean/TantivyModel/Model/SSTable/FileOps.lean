import TantivyModel.Model.SSTable.AddrStore
import TantivyModel.Model.SSTable.Index
/-! `Dictionary::ord_to_term` on the BYTES of a dictionary file (version 3): footer → index region →
block-address store → `binary_search_ord` → `get` → the framed block at that byte range → value
block skipped → front-coded keys → the `(ord - first_ordinal)`-th key. The FST part of the index is
not touched by this operation. -/
namespace TantivyModel.SSTable
open TantivyModel

/-- mirrors: SSTableIndex::open (version 3) + get_block_with_ord: the trailing `u64` of the index
region is the length of the FST; `0` means "no index, one block covering the data region"
(`SSTableIndexV3Empty`); otherwise the store follows the FST -/
def fileBlockForOrd (f : OpenedFile) (ord : Nat) : Option BlockAddr :=
  let body := f.index.take (f.index.length - 8)
  let fstLen := u64le (f.index.drop (f.index.length - 8))
  if fstLen = 0 then some ⟨0, 0, f.data.length⟩
  else
    let store := openStore (body.drop fstLen)
    store.get (store.locateOrd ord)

/-- mirrors: SSTableIndex::get_block_with_key on an opened version-3 file — `locate_with_key` asks
the FST for the first separator `≥ key` (tantivy-fst is external: its answer is the parameter
`geFirst`), `get_block` reads the address from the store; without index the one pseudo-block -/
def fileBlockForKey (geFirst : Key → Option Nat) (f : OpenedFile) (k : Key) : Option BlockAddr :=
  let body := f.index.take (f.index.length - 8)
  let fstLen := u64le (f.index.drop (f.index.length - 8))
  if fstLen = 0 then some ⟨0, 0, f.data.length⟩
  else
    match geFirst k with
    | none => none
    | some id => (openStore (body.drop fstLen)).get id

/-- mirrors: Dictionary::ord_to_term over an opened file. `skip` drops the value block in front of
the keys (identity for `VoidSSTable`). Outer `none`: the block is zstd-compressed (not modelled);
inner `none`: `Ok(false)`, the ordinal is past the last term. -/
def openedOrdToTerm (skip : List UInt8 → List UInt8) (f : OpenedFile) (ord : Nat) : Option (Option Key) :=
  match fileBlockForOrd f ord with
  | none => some none
  | some a =>
    match readBlocks 1 ((f.data.take a.stop).drop a.start) with
    | some [RawBlock.plain p] => some ((decodeBlockKeys (skip p))[ord - a.firstOrd]?)
    | some [RawBlock.compressed _] => none
    | _ => some none

/-- mirrors: Dictionary::term_ord_or_next on an opened file: block by key (FST answer passed in),
the framed block at that byte range, value block skipped, keys decoded, `decode_up_to_or_next`,
ordinal shifted by the block's first ordinal. Outer `none`: zstd-compressed or truncated block
(not modelled). -/
def fileTermOrdOrNext (geFirst : Key → Option Nat) (skip : List UInt8 → List UInt8) (f : OpenedFile)
    (k : Key) : Option Hit :=
  match fileBlockForKey geFirst f k with
  | none => some (.next U64_MAX)
  | some a =>
    match readBlocks 1 ((f.data.take a.stop).drop a.start) with
    | some [RawBlock.plain p] => some ((scanOrNext (decodeBlockKeys (skip p)) k 0).shift a.firstOrd)
    | some [] => some ((scanOrNext [] k 0).shift a.firstOrd)
    | _ => none

/-- mirrors: Dictionary::term_ord -/
def fileTermOrd (geFirst : Key → Option Nat) (skip : List UInt8 → List UInt8) (f : OpenedFile)
    (k : Key) : Option (Option Nat) :=
  (fileTermOrdOrNext geFirst skip f k).map Hit.exact?

/-- mirrors: Dictionary::get / do_get on an opened file: block by key, frame, keys decoded,
`decode_up_to_key`, then the value at the position found (`vals` decodes the value block) -/
def fileGet {V} (geFirst : Key → Option Nat) (skip : List UInt8 → List UInt8) (vals : List UInt8 → List V)
    (f : OpenedFile) (k : Key) : Option (Option V) :=
  match fileBlockForKey geFirst f k with
  | none => some none
  | some a =>
    match readBlocks 1 ((f.data.take a.stop).drop a.start) with
    | some [RawBlock.plain p] =>
      some (match scanOrNext (decodeBlockKeys (skip p)) k 0 with
        | .exact i => (vals p)[i]?
        | .next _ => none)
    | some [] => some none
    | _ => none

def fileOrdToTerm (skip : List UInt8 → List UInt8) (file : List UInt8) (ord : Nat) : Option (Option Key) :=
  openedOrdToTerm skip (openFile file) ord

end TantivyModel.SSTable
