import TantivyModel.Model.Writer
/-
`merge` / `end_merge` of committed segments WITH the bookkeeping of `advance_deletes`
(`SegmentMeta::delete_opstamp`, the early return "We are already up-to-date here").

  -- mirrors: src/indexer/index_writer.rs::advance_deletes (early return on delete_opstamp == target,
  --          new delete file only if more documents are deleted than the meta records)
  -- mirrors: src/indexer/segment_updater.rs::merge (advance every source, cursor of the first)
  -- mirrors: src/indexer/segment_updater.rs::end_merge (catch-up guard, as extracted)

(`Model/WriterBook.lean` is the whole state machine with this bookkeeping, `C02_bookkeeping_refines`.)
The state machine of `Model/Writer.lean` uses the core `advance`; `Props/C02.lean` shows that on the
states its invariant allows (committed segments sit exactly at the last commit) the bookkeeping is
invisible (`C02_mergeSegsD_committed`), and what it does on the F8 shape
(`C02_merge_counterexample_reopen_lost`) and under a `<=` catch-up guard
(`C02_catchup_guard_le_counterexample`).  The harness asks this fragment (`C02 mergecorner …`) what
a merge of all committed segments publishes after a re-created writer's first delete, and compares.
-/
namespace TantivyModel.Writer

variable {α : Type}

/-- `segment_updater.rs::merge` with `advance_deletes` as it is -/
def mergeSegsD (log : List (DelOp α)) (target : Nat) (newId : Nat) (srcs : List (Seg α)) : Option (Seg α) :=
  let adv := srcs.map (advanceDeletes log target)
  let docs := (adv.flatMap (fun sg => sg.docs.filter (·.alive)))
  match adv with
  | [] => none
  | first :: _ => if docs.isEmpty then none else some { id := newId, docs := docs, cursor := first.cursor }

/-- the catch-up of `end_merge` with a given comparison (code as in `Gen/WriterGuards.lean`) -/
def catchUpWith (code : Nat) (log : List (DelOp α)) (committedOpstamp : Nat) (sg : Seg α) : Seg α :=
  match log[sg.cursor]? with
  | some del => if cmpCode code del.op committedOpstamp then advanceDeletes log committedOpstamp sg else sg
  | none => sg

/-- a merge of the committed segments `srcs` (in the order of the merge operation) right after it
ended: the segment that replaces them (alive documents, cursor) -/
def mergeCommitted (code : Nat) (log : List (DelOp α)) (committedOpstamp : Nat) (srcs : List (Seg α)) :
    Option (List α × Nat) :=
  (mergeSegsD log committedOpstamp 0 srcs).map (fun M =>
    let r := catchUpWith code log committedOpstamp M
    (aliveDocs r, r.cursor))

end TantivyModel.Writer
