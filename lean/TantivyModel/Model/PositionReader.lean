import TantivyModel.Model.Positions
/-!
# The stateful `PositionReader` (C07)

`read(offset, out)` keeps a cursor over the term's position stream: the bit widths and bytes from
the *anchor* block on, one decoded block (`block_decoder`) and its `block_offset`.  A read behind
the anchor resets; a read outside the loaded block skips whole bit-packed blocks by their widths
and decodes the block containing `offset`; a read inside the loaded block only moves the anchor;
then blocks `anchor + 1, anchor + 2, …` are decoded while the output is not full.

-- mirrors: src/positions/reader.rs::open
-- mirrors: src/positions/reader.rs::reset
-- mirrors: src/positions/reader.rs::advance_num_blocks
-- mirrors: src/positions/reader.rs::load_block
-- mirrors: src/positions/reader.rs::read
-/
namespace TantivyModel.Positions
open TantivyModel.Postings

structure Reader where
  /-- `bit_widths` / `positions`: from the anchor block on -/
  widths : List Nat
  data : List Nat
  /-- `block_decoder.output_array()` -/
  buf : List Nat
  /-- `block_offset` (`i64::MAX` before any block is loaded ↦ `none`) -/
  blockOffset : Option Nat
  anchor : Nat
  origWidths : List Nat
  origData : List Nat
deriving Repr, DecidableEq

def Reader.open (c : Cfg) (bytes : List Nat) : Option Reader :=
  match VInt.dec c.S bytes with
  | none => none
  | some (n, r) =>
    if r.length < n then none
    else some { widths := r.take n, data := r.drop n, buf := [], blockOffset := none, anchor := 0,
                origWidths := r.take n, origData := r.drop n }

def Reader.reset (s : Reader) : Reader :=
  { s with data := s.origData, widths := s.origWidths, blockOffset := none, anchor := 0 }

/-- `advance_num_blocks(k)`: skip `k` bit-packed blocks by the sum of their widths -/
def Reader.advanceNumBlocks (c : Cfg) (s : Reader) (k : Nat) : Reader :=
  { s with widths := s.widths.drop k,
           data := s.data.drop ((s.widths.take k).sum * c.B / 8),
           anchor := s.anchor + k * c.B }

/-- `load_block(rel)`: decode the `rel`-th block after the anchor block -/
def Reader.loadBlock (c : Cfg) (s : Reader) (rel : Nat) : Reader :=
  let compressed := s.data.drop ((s.widths.take rel).sum * c.B / 8)
  { s with buf := if rel < s.widths.length then c.P.unpack (s.widths.getD rel 0) compressed
                  else (VInt.decAll c.S compressed).take c.B,
           blockOffset := some (s.anchor + rel * c.B) }

/-- the copy loop of `read`: `i` is the next relative block to load; `fuel` bounds the loop -/
def Reader.copy (c : Cfg) : Nat → Reader → Nat → Nat → Nat → List Nat × Reader
  | 0, s, _, _, _ => ([], s)
  | fuel + 1, s, i, offset, len =>
    let inBlock := offset % c.B
    let remaining := c.B - inBlock
    if len ≤ remaining then ((s.buf.drop inBlock).take len, s)
    else
      let r := Reader.copy c fuel (s.loadBlock c i) (i + 1) (offset + remaining) (len - remaining)
      (s.buf.drop inBlock ++ r.1, r.2)

/-- `read(offset, out[..len])` -/
def Reader.read (c : Cfg) (s : Reader) (offset len : Nat) : List Nat × Reader :=
  let s1 := if offset < s.anchor then s.reset else s
  let inLoaded : Bool :=
    match s1.blockOffset with
    | some b => b ≤ offset ∧ offset < b + c.B
    | none => false
  let s2 :=
    if inLoaded then s1.advanceNumBlocks c ((s1.blockOffset.getD 0 - s1.anchor) / c.B)
    else (s1.advanceNumBlocks c ((offset - s1.anchor) / c.B)).loadBlock c 0
  Reader.copy c (len / c.B + 2) s2 1 offset len

/-- a sequence of reads on one reader -/
def Reader.reads (c : Cfg) : Reader → List (Nat × Nat) → List (List Nat)
  | _, [] => []
  | s, (o, l) :: rest =>
    let r := s.read c o l
    r.1 :: Reader.reads c r.2 rest

end TantivyModel.Positions
