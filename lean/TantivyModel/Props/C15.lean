import TantivyModel.Proofs.SSTable.FileKey
import TantivyModel.Proofs.SSTable.WriterStoreOk
import TantivyModel.Proofs.SSTable.FileWritten
import TantivyModel.Proofs.SSTable.FileOrd
import TantivyModel.Proofs.SSTable.WriterFull
import TantivyModel.Proofs.SSTable.SearchLim
import TantivyModel.Proofs.SSTable.BestSlope
import TantivyModel.Proofs.SSTable.Separators
import TantivyModel.Proofs.SSTable.StoreLocate
import TantivyModel.Proofs.SSTable.StoreFile
import TantivyModel.Proofs.SSTable.SearchOrd
import TantivyModel.Proofs.SSTable.ValueFile
import TantivyModel.Proofs.SSTable.StoreGroup
import TantivyModel.Proofs.SSTable.BitPacker
import TantivyModel.Proofs.SSTable.BitStream
import TantivyModel.Proofs.SSTable.Bounds
import TantivyModel.Proofs.SSTable.WriterBlocks
import TantivyModel.Proofs.SSTable.StateStack
import TantivyModel.Proofs.SSTable.Framing
import TantivyModel.Proofs.SSTable.LocateOrd
import TantivyModel.Proofs.SSTable.Inverse
import TantivyModel.Proofs.SSTable.AddrStoreProofs
import TantivyModel.Proofs.SSTable.Prefix
import TantivyModel.Proofs.SSTable.MergeProofs
import TantivyModel.Proofs.SSTable.Refine
import TantivyModel.Proofs.SSTable.Writer
import TantivyModel.Proofs.SSTable.Stream
import TantivyModel.Proofs.SSTable.OrdToTerm
import TantivyModel.Proofs.SSTable.RangeDict
import TantivyModel.Proofs.SSTable.DeltaScan
import TantivyModel.Proofs.SSTable.Prune
import TantivyModel.Proofs.SSTable.SearchDict
/-!
# C15 — Term dictionaries behave as ordered maps from byte strings

Property theorems only (helper lemmas live in `Proofs/SSTable/`). The specification is
`Model/SSTable/Spec.lean` (a strictly increasing association list); the implementation-level
model is `Model/SSTable/{Delta,Index,Search,Merge}.lean`. External parameters: the FST that
stores the separator keys (contract: first key ≥ k), zstd, the automaton implementations.
-/
namespace TantivyModel.C15
open TantivyModel TantivyModel.SSTable

/-! ## the order of keys -/

/-- the byte-string order is a strict total order -/
theorem C15_lex_order_total :
    (∀ a : Key, lexLt a a = false) ∧
    (∀ a b c : Key, lexLt a b = true → lexLt b c = true → lexLt a c = true) ∧
    (∀ a b : Key, lexLt a b = true ∨ a = b ∨ lexLt b a = true) ∧
    (∀ a b : Key, lexLe a b = true → lexLe b a = true → a = b) :=
  ⟨lexLt_irrefl, fun _ _ _ => lexLt_trans, lexLt_trichotomy, fun _ _ => lexLe_antisymm⟩

/-- `common_prefix_len` is the length of the longest common prefix, and the order of two keys is
decided by the first byte after it — the facts `Writer::insert_key` relies on -/
theorem C15_common_prefix (a b : Key) :
    a.take (cpl a b) = b.take (cpl a b) ∧
    (∀ (ha : cpl a b < a.length) (hb : cpl a b < b.length), a[cpl a b]'ha ≠ b[cpl a b]'hb) ∧
    (lexLt a b = true ↔
      (cpl a b = a.length ∧ a.length < b.length) ∨
      (∃ (ha : cpl a b < a.length) (hb : cpl a b < b.length),
        (a[cpl a b]'ha).toNat < (b[cpl a b]'hb).toNat)) :=
  ⟨cpl_take a b, cpl_maximal a b, lexLt_iff_cpl a b⟩

/-! ## front coding -/

/-- VInt round trip for every value, whatever follows in the buffer -/
theorem C15_vint_roundtrip (n : Nat) (rest : List UInt8) :
    vintDe (vintSer n ++ rest) = ((vintSer n).length, n) := vint_roundtrip n rest

/-- under strict increase (or at a block start) no keep/add pair is `(1, 0)`, the only pair whose
one-byte form `keep | add << 4` equals the `VINT_MODE` marker; every other header reads back -/
theorem C15_keep_add_unambiguous (prev k : Key) (h : prev = [] ∨ lexLt prev k = true)
    (rest : List UInt8) :
    ¬ (cpl prev k = 1 ∧ k.length - cpl prev k = 0) ∧
    readKeepAdd (encodeKeepAdd (cpl prev k) (k.length - cpl prev k) ++ rest)
      = some (cpl prev k, k.length - cpl prev k, rest) :=
  ⟨keep_add_ne_one_zero h, readKeepAdd_encode _ _ _ (keep_add_ne_one_zero h)⟩

/-- the ambiguity is real: a key that is the one-byte prefix of its predecessor is written as the
byte `VINT_MODE` and misread -/
theorem C15_keep_add_ambiguous_counterexample :
    encodeKeepAdd (cpl [7, 8] [7]) ([7].length - cpl [7, 8] [7]) = [UInt8.ofNat Gen.VINT_MODE] ∧
    decodeBlockKeys (encodeBlockKeys [[7, 8], [7]]) ≠ [[7, 8], [7]] := by decide

/-- for every strictly increasing key list and every block length (0 = one key per block)
the blocks the writer cuts decode back to the key list -/
theorem C15_delta_roundtrip (blockLen : Nat) (ks : List Key) (h : StrictInc ks) :
    decodeBlocks (encodeBlocks blockLen ks) = ks := by
  unfold decodeBlocks encodeBlocks
  have hfl := blocksOf_flatten (id : Key → Key) blockLen ks
  have hall : ∀ b ∈ blocksOf id blockLen ks, StrictInc b :=
    strictInc_of_mem_flatten (by rw [hfl]; exact h)
  rw [List.map_map]
  have : (blocksOf id blockLen ks).map (decodeBlockKeys ∘ encodeBlockKeys) = blocksOf id blockLen ks := by
    rw [List.map_congr_left (g := id)]
    · simp
    · intro b hb; exact decodeBlockKeys_encode b (hall b hb)
  rw [this, hfl]

/-- the blocks partition the key list, in order, and no block is empty -/
theorem C15_blocks_partition {α} (key : α → Key) (blockLen : Nat) (xs : List α) :
    (blocksOf key blockLen xs).flatten = xs ∧ ∀ b ∈ blocksOf key blockLen xs, b ≠ [] :=
  ⟨blocksOf_flatten key blockLen xs, cutBlocks_nonempty key blockLen [] 0 [] xs⟩

/-! ## block index -/

/-- separator of a block: ≥ every key of the block (in particular its last key), < every key of
every later block (in particular the first key of the next block) -/
theorem C15_block_separators {V} (b : Assoc V) (rest : List (Assoc V)) (h : GoodBlocks (b :: rest)) :
    ∃ s ss, sepsOf (b :: rest) = s :: ss ∧ ss = sepsOf rest ∧
      (∀ e ∈ b, lexLe e.1 s = true) ∧ (∀ e ∈ rest.flatten, lexLt s e.1 = true) :=
  sepsOf_head b rest h

/-- `find_shorter_str_in_between`: `left ≤ result < right` whenever `left < right` -/
theorem C15_find_shorter (left right : Key) (h : lexLt left right = true) :
    lexLe left (findShorter left right) = true ∧ lexLt (findShorter left right) right = true :=
  findShorter_bounds h

/-- routing: for the dictionary the writer builds from any sorted map and any block length, the
block found for `k` (first separator ≥ k, or the pseudo block of a ≤ 1-block file) splits the map
into entries below `k`, the block, entries above `k` — so it is the unique block that can hold
`k` — and its first ordinal is the number of entries before it; if no block is found every key
is below `k` -/
theorem C15_block_routing {V} (blockLen : Nat) (m : Assoc V) (hs : SortedMap m) (k : Key) :
    (∀ b, ((build blockLen m).locateKey k).bind (build blockLen m).blockAt = some b →
      ∃ pre post, m = pre ++ b.entries ++ post ∧ b.firstOrd = pre.length ∧
        (∀ e ∈ pre, lexLt e.1 k = true) ∧ (∀ e ∈ post, lexLt k e.1 = true)) ∧
    (((build blockLen m).locateKey k).bind (build blockLen m).blockAt = none →
      ∀ e ∈ m, lexLt e.1 k = true) := by
  refine ⟨fun b h => ?_, dict_none blockLen m hs k⟩
  obtain ⟨pre, post, ha, hfo⟩ := dict_split blockLen m hs k b h
  exact ⟨pre, post, ha.eq, hfo, ha.below, ha.above⟩

/-! ## operations refine the specification -/

/-- `get`, `term_ord` on the block model equal the sorted-map operations, for every sorted map,
block length and key -/
theorem C15_ops_refine_get_term_ord {V} (blockLen : Nat) (m : Assoc V) (hs : SortedMap m) (k : Key) :
    (build blockLen m).get k = get m k ∧ (build blockLen m).termOrd k = termOrd m k :=
  ⟨refine_get blockLen m hs k, refine_termOrd blockLen m hs k⟩

/-- `term_ord_or_next` equals the specification whenever the key is routed to a block; a key
above the last separator of a multi-block dictionary yields `Next(u64::MAX)` where the
specification says `Next(number of terms)` (the code documents this: "may not exist") -/
theorem C15_ops_refine_term_ord_or_next {V} (blockLen : Nat) (m : Assoc V) (hs : SortedMap m) (k : Key) :
    (∀ b, ((build blockLen m).locateKey k).bind (build blockLen m).blockAt = some b →
      (build blockLen m).termOrdOrNext k = termOrdOrNext m k) ∧
    (((build blockLen m).locateKey k).bind (build blockLen m).blockAt = none →
      (build blockLen m).termOrdOrNext k = .next U64_MAX ∧ termOrdOrNext m k = .next m.length) :=
  ⟨fun b h => refine_orn_some blockLen m hs k b h, refine_orn_none blockLen m hs k⟩

/-- `ord_to_term` and `term_info_from_ord` (block found by ordinal, then `ord - first_ordinal + 1`
advances) equal the specification for every map, block length and ordinal, incl. ordinals ≥ n -/
theorem C15_ops_refine_ord_to_term {V} (blockLen : Nat) (m : Assoc V) (ord : Nat) :
    (build blockLen m).ordToTerm ord = ordToTerm m ord ∧
    (build blockLen m).valueAtOrd ord = valueAtOrd m ord :=
  refine_ordToTerm blockLen m ord

/-- `sorted_ords_to_term_cb` (one forward pass, blocks re-opened only when the next ordinal is at
or past the end bound, repeated ordinals re-emitted) calls back with exactly the keys of the
ordinals up to the first missing one and returns whether all exist — for every sorted list -/
theorem C15_ops_refine_sorted_ords {V} (blockLen : Nat) (m : Assoc V) (ords : List Nat)
    (hsorted : ords.Pairwise (· ≤ ·)) :
    (build blockLen m).sortedOrdsToTerm ords = sortedOrdsSpec m ords :=
  refine_sortedOrds blockLen m ords hsorted

/-- the scan of one sorted block finds the first key ≥ k, exact iff equal -/
theorem C15_block_scan (ks : List Key) (k : Key) (hs : StrictInc ks) :
    scanOrNext ks k 0 = specHit ks k ∧ (specHit ks k).exact? = ks.findIdx? (fun a => a == k) := by
  refine ⟨?_, specHit_exact ks k hs⟩
  rw [scanOrNext_spec ks k 0 hs, Hit.shift_zero]

/-- `decode_up_to_or_next` as the code runs it — on the front-coded `(keep, suffix)` entries of a
block, tracking only `ok_bytes` = number of key bytes matched so far (entry popped below `ok_bytes`
⇒ too far; entry keeping more ⇒ still below; equal ⇒ compare the suffix) — equals the plain scan of
the decoded keys, for every strictly increasing block and every key. Hence every block-model
theorem above applies to the byte layout. -/
theorem C15_delta_scan (ks : List Key) (k : Key) (hs : StrictInc ks) :
    deltaScan k (deltaEntries [] ks) 0 0 = scanOrNext ks k 0 :=
  deltaScan_spec k ks [] 0 0 (by rw [cpl_comm, cpl_nil_left]) (Or.inl rfl) hs (Or.inl rfl)

/-- `term_ord_or_next` through the front-coded scan = through the plain scan, on the dictionary
built from any sorted map -/
theorem C15_delta_scan_dict {V} (blockLen : Nat) (m : Assoc V) (hs : SortedMap m) (k : Key) :
    (build blockLen m).termOrdOrNextDelta k = (build blockLen m).termOrdOrNext k := by
  unfold Dict.termOrdOrNextDelta Dict.termOrdOrNext
  cases h : ((build blockLen m).locateKey k).bind (build blockLen m).blockAt with
  | none => rfl
  | some b =>
    obtain ⟨pre, post, ha, _⟩ := dict_split blockLen m hs k b h
    simp only
    rw [C15_delta_scan _ k (ha.sortedB hs)]

/-! ## streams -/

/-- `Streamer::advance` (skip below the lower bound — tested only until its first success —,
stop at the first key above the upper bound, emit what the automaton accepts) over any sorted run
of entries is the filter by bounds and automaton, every entry carrying `ord + its index`;
for every bound kind, incl. empty and inverted ranges; `AlwaysMatch` streams are the instance of
an automaton accepting everything -/
theorem C15_stream_scan {σ V} (A : Automaton σ) (lo hi : Bound) (ord : Nat) (xs : Assoc V)
    (hs : StrictInc (keys xs)) :
    scanSearch A lo hi false ord xs
      = ((xs.zipIdx ord).filter (fun p => matchLo lo p.1.1 && matchHi hi p.1.1 && A.accepts p.1.1)).map
          (fun p => (p.2, p.1.1, p.1.2)) ∧
    ((∀ k, A.accepts k = true) → scanStream lo hi false ord xs = scanSearch A lo hi false ord xs) :=
  ⟨scanSearch_filter A lo hi ord xs hs, fun hA => scanStream_eq_scanSearch A hA lo hi false ord xs⟩

/-- `Dictionary::range().{ge,gt,le,lt}.limit(l).into_stream()` — file_slice_for_range (first
block by the lower key, last block by the upper key, moved down by the limit) + Streamer — against
the specification, for every sorted map, block length, bound kind (≥, >, ≤, <, unbounded; empty
and inverted ranges) and limit: the streamed entries with the ordinals the streamer reports are a
prefix of the specification range with its true ordinals; without a limit they are the whole
range; with a limit at least `min l |range|` entries are produced. The call fails only without
the `first_block > last_block` guard, only for inverted bounds, where the range is empty
(known finding C15:inverted-range-across-blocks-panics). -/
theorem C15_ops_refine_range {V} (blockLen : Nat) (m : Assoc V) (hs : SortedMap m)
    (lo hi : Bound) (limit : Option Nat) :
    match (build blockLen m).stream lo hi limit with
    | some out =>
        out <+: ((m.zipIdx 0).filter (fun p => matchLo lo p.1.1 && matchHi hi p.1.1)).map
          (fun p => (p.2, p.1.1, p.1.2)) ∧
        IsLimitedRange m lo hi limit (out.map (fun p => (p.2.1, p.2.2)))
    | none => Gen.RANGE_INVERTED_GUARD ≠ 1 ∧ range m lo hi = [] ∧
        ∃ a b, lo.key? = some a ∧ hi.key? = some b ∧ lexLt b a = true := by
  have h := stream_refine (build_view blockLen m hs) hs lo hi limit
  have hfull : fullStream m lo hi = ((m.zipIdx 0).filter (fun p => matchLo lo p.1.1 && matchHi hi p.1.1)).map
      (fun p => (p.2, p.1.1, p.1.2)) := by
    unfold fullStream streamSpec
    congr 2; funext p; simp [allAut_accepts]
  cases hst : (build blockLen m).stream lo hi limit with
  | none =>
    rw [hst] at h
    obtain ⟨hg, hf, hab⟩ := h
    refine ⟨hg, ?_, hab⟩
    rw [← fullStream_range, hf]; rfl
  | some out =>
    rw [hst] at h
    obtain ⟨rest, hf, hnone, hsome⟩ := h
    simp only
    refine ⟨⟨rest, by rw [← hfull, hf]⟩, ⟨rest.map (fun p => (p.2.1, p.2.2)), ?_⟩, ?_⟩
    · rw [← fullStream_range, hf, List.map_append]
    · cases limit with
      | none =>
        simp only
        rw [← fullStream_range, hf, hnone rfl]; simp
      | some l =>
        simp only
        rcases hsome l rfl with hr | hl
        · rw [← fullStream_range, hf, hr]; simp; omega
        · simp only [List.length_map]; omega

/-- partial form of `C15_automaton_stream`: streaming over the blocks that survive ANY sound
pruning (a dropped block holds no entry passing bounds and automaton) yields exactly
`search A m lo hi` — keys and values, in order; block pruning never drops an accepted key.
Not covered: that `canBlockMatch` (block_match_automaton.rs) is such a sound pruning for every
automaton with `CanMatchSound` (compared by the harness on every run), and the reported ordinals
(they are wrong after a pruned block: known finding C15:search-stream-term-ord-after-pruned-block) -/
theorem C15_automaton_stream_partial {σ V} (A : Automaton σ) (lo hi : Bound) (bs : List (Assoc V))
    (keep : Assoc V → Bool) (hs : SortedMap bs.flatten)
    (hsound : ∀ b ∈ bs, keep b = false →
      ∀ e ∈ b, (matchLo lo e.1 && matchHi hi e.1 && A.accepts e.1) = false) (ord : Nat) :
    (scanSearch A lo hi false ord (bs.filter keep).flatten).map (fun p => (p.2.1, p.2.2))
      = search A bs.flatten lo hi := by
  rw [pruned_search A lo hi bs keep hs hsound ord]
  unfold search range passes
  rw [List.filter_filter]
  congr 1
  funext e
  cases matchLo lo e.1 <;> cases matchHi hi e.1 <;> cases A.accepts e.1 <;> rfl

/-- soundness of the mirrored `can_block_match_automaton` (common prefix walk, `match_range_start`,
`match_range_end`, the 256-byte fan-outs) for EVERY automaton whose `can_match` is sound: if some
key above the previous separator (none for the first block) and at most the block's separator is
accepted, the block is kept. Together with `C15_block_separators` (every key of block i lies in
`(sep (i-1), sep i]`) this discharges the `hsound` hypothesis of `C15_automaton_stream_partial` for
the pruning the code performs. -/
theorem C15_block_pruning_sound {σ} (A : Automaton σ) (hA : A.CanMatchSound) (prevSep : Option Key)
    (sep key : Key) (h1 : ∀ s, prevSep = some s → lexLt s key = true) (h2 : lexLe key sep = true)
    (hacc : A.accepts key = true) : canBlockMatch A prevSep sep = true :=
  canBlockMatch_sound A hA prevSep sep key h1 h2 hacc

theorem C15_search_eq_filter {σ V} (A : Automaton σ) (m : Assoc V) (lo hi : Bound) :
    search A m lo hi = m.filter (fun e => passes A lo hi e.1) := by
  unfold search range passes
  rw [List.filter_filter]
  congr 1
  funext e
  cases matchLo lo e.1 <;> cases matchHi hi e.1 <;> cases A.accepts e.1 <;> rfl

/-- `Dictionary::search(A).{ge,gt,le,lt}.into_stream()` — separator walk with the real
`can_block_match_automaton` pruning, block-id range filter, `Streamer::advance` — for EVERY
automaton whose `can_match` is sound, every sorted map, block length and bounds:
the streamed keys and values are exactly `filter accepts` of the range, in order (no accepted key
is ever dropped by pruning), and the ordinal reported with each entry is
`first_term + its position among the entries READ`, i.e. among the entries of the blocks that
were not pruned. That is the true ordinal only while no block has been skipped: the explicit
deviation is the known finding C15:search-stream-term-ord-after-pruned-block
(`C15_search_ordinal_counterexample`). -/
theorem C15_automaton_stream {σ V} (A : Automaton σ) (hA : A.CanMatchSound) (blockLen : Nat)
    (m : Assoc V) (hs : SortedMap m) (lo hi : Bound) :
    ((build blockLen m).search A lo hi).map (fun p => (p.2.1, p.2.2)) = search A m lo hi ∧
    (build blockLen m).search A lo hi =
      ((((((build blockLen m).searchBlocks A lo hi).map (·.entries)).flatten).zipIdx
          ((build blockLen m).firstTerm lo)).filter
        (fun p => matchLo lo p.1.1 && matchHi hi p.1.1 && A.accepts p.1.1)).map
        (fun p => (p.2, p.1.1, p.1.2)) := by
  have v := build_view blockLen m hs
  rw [C15_search_eq_filter]
  unfold Dict.search
  rcases searchBlocks_pruned A hA blockLen m hs lo hi with hp | ⟨hnil, hnone⟩
  · have hflat : ((build blockLen m).blockList.map (·.entries)).flatten = m := v.flat
    have := pruned_stream A lo hi _ _ hp (by rw [hflat]; exact hs) ((build blockLen m).firstTerm lo)
    rw [hflat] at this
    exact ⟨this.2, this.1⟩
  · rw [hnil]
    simp only [List.map_nil, List.flatten_nil, scanSearch, List.zipIdx_nil, List.filter_nil]
    refine ⟨?_, trivial⟩
    symm
    rw [List.filter_eq_nil_iff]
    intro e he
    simp [hnone e he]

/-- the ordinal misreport is a property of the mechanism, not of an input: skipping a block
makes the scan count from the wrong base -/
theorem C15_search_ordinal_counterexample :
    (build 0 [(([1] : Key), 10), ([2], 20), ([3], 30)]).search (prefixAutomaton [3]) .unbounded .unbounded
      = [(0, [3], 30)] ∧
    termOrd [(([1] : Key), 10), ([2], 20), ([3], 30)] [3] = some 2 := by decide +kernel

/-- an inverted range whose bounds are routed two or more blocks apart makes the slice
computation fail (`assert!(end >= start)`), where the specification is the empty stream -/
theorem C15_inverted_range_counterexample :
    (Gen.RANGE_INVERTED_GUARD = 0 →
      (build 0 [(([1] : Key), 10), ([2], 20), ([3], 30)]).stream (.incl [3]) (.excl [1]) none = none) ∧
    (Gen.RANGE_INVERTED_GUARD = 1 →
      (build 0 [(([1] : Key), 10), ([2], 20), ([3], 30)]).stream (.incl [3]) (.excl [1]) none = some []) ∧
    range [(([1] : Key), 10), ([2], 20), ([3], 30)] (.incl [3]) (.excl [1]) = [] := by decide

/- open (stated contracts / run-only, nothing in this file depends on them as axioms):
   * tantivy-fst internals: the separator lookup is proved against `FstContract` (C15_fst_locate,
     C15_file_block_for_key); the harness compares the real fst-backed index on every dictionary.
   * zstd block compression and the construction of Levenshtein/regex automata: run-only.
   * `ord_to_term`, `get_block_with_key`, `term_ord_or_next`, `term_ord`, `get` are composed down to
     the bytes of a whole file (C15_file_ord_to_term_written_store, C15_void_file_ord_to_term,
     C15_file_block_for_key, C15_file_term_ord, C15_file_get, C15_small_file_*); streams, automaton
     search and merge are proved on the block model / front-coded entries (C15_ops_refine_range,
     C15_automaton_stream, C15_streamer_state_stack, C15_merge), not composed down to file bytes.
   * that `Writer` passes exactly `frameAddrs` to the index builder, and that the store region
     stays below 2^64 bytes, are hypotheses of the file-level theorems. -/

example : kwayMerge List.sum [[(([1] : Key), 1), ([3], 3)], [([2], 20), ([3], 30)], []]
    = [([1], 1), ([2], 20), ([3], 33)] := by decide
example : ordMap [(([2] : Key), 20), ([3], 30)] (mergeSpec List.sum [[(([1] : Key), 1), ([3], 3)], [([2], 20), ([3], 30)]])
    = [some 1, some 2] := by decide

/-! ## merge -/

/-- the k-way merge (`merge_sstable`: repeatedly the minimal head key, popped from every input that
holds it, values combined) of any number of sorted inputs IS the specification merge:
its keys are the sorted union of the input keys (strictly increasing, member iff member of some
input), and the value of a key is `comb` of the values of the inputs holding it, in input order -/
theorem C15_merge {V} (comb : List V → V) (ms : List (Assoc V)) (hs : ∀ m ∈ ms, SortedMap m) :
    kwayMerge comb ms = mergeSpec comb ms ∧
    SortedMap (mergeSpec comb ms) ∧
    (∀ k, k ∈ keys (mergeSpec comb ms) ↔ ∃ m ∈ ms, k ∈ keys m) ∧
    (∀ e ∈ mergeSpec comb ms, e.2 = comb (ms.filterMap (fun m => get m e.1))) := by
  refine ⟨kmerge_eq comb _ ms hs (Nat.le_refl _), ?_, ?_, ?_⟩
  · unfold SortedMap; rw [keys_mergeSpec]; exact unionKeys_sorted _
  · intro k
    rw [keys_mergeSpec, mem_unionKeys]
    constructor
    · rintro ⟨l, hl, hk⟩
      obtain ⟨m, hm, rfl⟩ := List.mem_map.mp hl
      exact ⟨m, hm, hk⟩
    · rintro ⟨m, hm, hk⟩
      exact ⟨keys m, List.mem_map_of_mem hm, hk⟩
  · intro e he
    unfold mergeSpec at he
    obtain ⟨k, _, rfl⟩ := List.mem_map.mp he
    rfl

/-- old→new term-ordinal tables of a merge (what `TermMerger` / `merge_dict_column` hand to the
column merge of C08, and what segment merges use to remap term ordinals): for every input, the
table is total, maps old ordinal `i` to the new ordinal of the SAME key, and is strictly
increasing (so order- and distinctness-preserving); jointly the tables cover every merged key -/
theorem C15_term_ordinal_remap {V} (comb : List V → V) (ms : List (Assoc V))
    (hs : ∀ m ∈ ms, SortedMap m) (m : Assoc V) (hm : m ∈ ms) :
    ordMap m (mergeSpec comb ms) = m.map (fun e => some (ordOf (keys (mergeSpec comb ms)) e.1)) ∧
    (∀ e ∈ m, (keys (mergeSpec comb ms))[ordOf (keys (mergeSpec comb ms)) e.1]? = some e.1) ∧
    (m.map (fun e => ordOf (keys (mergeSpec comb ms)) e.1)).Pairwise (· < ·) ∧
    (∀ k ∈ keys (mergeSpec comb ms), ∃ m' ∈ ms, ∃ e ∈ m', e.1 = k) := by
  obtain ⟨h1, h2, h3⟩ := ordMap_spec comb ms hs m hm
  refine ⟨h1, h2, h3, ?_⟩
  intro k hk
  rw [keys_mergeSpec, mem_unionKeys] at hk
  obtain ⟨l, hl, hkl⟩ := hk
  obtain ⟨m', hm', rfl⟩ := List.mem_map.mp hl
  obtain ⟨e, he, rfl⟩ := List.mem_map.mp hkl
  exact ⟨m', hm', e, he, rfl⟩

/-! ## prefix streams -/

/-- `Dictionary::prefix_range(p)`: the bounds it builds (`≥ p`, `< p` with trailing 0xFF bytes
dropped and the last byte incremented; no upper bound if `p` is all 0xFF) select exactly the keys
that start with `p`, for every prefix and key (incl. the empty prefix and 0xFF bytes) -/
theorem C15_prefix_range (p k : Key) :
    isPrefixOf p k = true ↔
      (matchLo (prefixBounds p).1 k = true ∧ matchHi (prefixBounds p).2 k = true) :=
  prefix_range_iff p k

/-- hence a prefix stream of the dictionary is (a limited prefix of) `prefixed m p` -/
theorem C15_prefix_stream {V} (m : Assoc V) (p : Key) :
    range m (prefixBounds p).1 (prefixBounds p).2 = prefixed m p := by
  unfold range prefixed
  congr 1
  funext e
  have := C15_prefix_range p e.1
  cases h1 : isPrefixOf p e.1 <;> cases h2 : matchLo (prefixBounds p).1 e.1 <;>
    cases h3 : matchHi (prefixBounds p).2 e.1 <;> simp_all

/-! ## block-address store (`index/v3.rs`) -/

/-- the linear-prediction codec of the block-address store is lossless: with the bit width
`find_best_slope` chooses (`compute_num_bits(max deviation) + 1`, for ANY slope — the slope
heuristic only affects size), every element's shifted deviation fits the width and reads back as
the original start offset / first ordinal -/
theorem C15_addr_codec_roundtrip (slope : Nat) (els : List (Nat × Nat)) :
    ∀ e ∈ els,
      packVal slope (slopeBits slope els) e.1 e.2 < 2 ^ slopeBits slope els ∧
      unpackVal slope (slopeBits slope els) e.1 (packVal slope (slopeBits slope els) e.1 e.2) = e.2 := by
  intro e he
  exact pack_unpack slope (slopeBits slope els) e.1 e.2 (by unfold slopeBits; omega)
    (slopeBits_fits slope els e he)

/-- the two-level `binary_search` of `binary_search_ord` over non-decreasing first ordinals: an
exact hit, or the insertion point (all earlier first ordinals below the target, all later ones
above) — which is the abstract "last block whose first ordinal is ≤ ord" of `Dict.locateOrd`
after the `- 1` of the code -/
theorem C15_addr_binary_search (f : Nat → Nat) (t n : Nat)
    (hmono : ∀ a b, a ≤ b → b < n → f a ≤ f b) :
    match binSearch (fun g => compare (f g) t) (n + 1) 0 n with
    | .inl m => m < n ∧ f m = t
    | .inr p => p ≤ n ∧ (∀ g, g < p → f g < t) ∧ (∀ g, p ≤ g → g < n → t < f g) :=
  binSearch_spec f t n hmono (n + 1) 0 n (Nat.le_refl _) (Nat.zero_le _) (by omega)
    (fun g hg => absurd hg (Nat.not_lt_zero g)) (fun g hg hgn => absurd hgn (by omega))

/- Not proved for the address store (tied by cross-decoding real index bytes on every run):
   the bit-level layout (`BitPacker::write` / `extract_bits`), the 36-byte metadata record, and
   `Store.locateOrd = Dict.locateOrd` as a whole; `locate_with_key` goes through the FST, which is
   a parameter with the contract "first key ≥ k". -/

/-! ## ordinals and keys are inverse; order across block boundaries -/

/-- `ord_to_term ∘ term_ord = id` and the converse, on the dictionary built from any sorted map at
any block length: `term_ord(k) = Some(i)` iff `ord_to_term(i)` yields `k` -/
theorem C15_ord_term_inverse {V} (blockLen : Nat) (m : Assoc V) (hs : SortedMap m) (k : Key) (i : Nat) :
    (build blockLen m).termOrd k = some i ↔ (build blockLen m).ordToTerm i = some k := by
  rw [refine_termOrd blockLen m hs k, (refine_ordToTerm blockLen m i).1]
  exact spec_ord_inverse m hs k i

/-- the only order check for the first key of a block (`previous_key` was cleared by the flush) is
the assert of `find_shorter_str_in_between`, run by `insert_key` against the last key of the last
closed block. With both facts extracted from the source (`separatorGuard`), the writer rejects
every key that is not strictly above the last key of the previous block — whatever the block
length and the rest of the state. (Seeded change C15-D removes that assert: `separatorGuard`
becomes false and this theorem, `C15_insert_accepts_iff` and `C15_insert_order_partial` stop
checking.) -/
theorem C15_block_boundary_rejects (blockLen : Nat) (s : WState) (l k : Key)
    (hstart : s.blockStart = true) (hlast : s.lastBlockKey = some l) (hnot : lexLt l k = false) :
    s.insert blockLen k = none := by
  have hsg : separatorGuard = true := by decide
  unfold WState.insert WState.sepOk
  simp [hstart, hsg, hlast, hnot]

/-- and within a block (previous key non-empty) the asserted `increasing_keys` expression — its
shape and the assert are extracted (`increasingGuard`) — rejects every key that is not strictly
above the previous one -/
theorem C15_within_block_rejects (blockLen : Nat) (s : WState) (k : Key) (hp : s.prev ≠ [])
    (hnot : lexLt s.prev k = false) : s.insert blockLen k = none := by
  have hig : increasingGuard = true := by decide
  have hne : increasingKeys s.prev k ≠ some true := by
    intro h
    rw [(increasingKeys_iff s.prev k hp).mp h] at hnot
    cases hnot
  unfold WState.insert incOk
  simp [hig, hne]

example : ({ blockStart := true, lastBlockKey := some [5] } : WState).insert 0 [5] = none ∧
    ({ blockStart := true, lastBlockKey := some [5] } : WState).insert 0 [4, 9] = none ∧
    (({ blockStart := true, lastBlockKey := some [5] } : WState).insert 0 [5, 0]).isSome = true := by decide
example : ({ prev := [5], blockStart := false } : WState).insert 4000 [5] = none := by decide
example : (build 2 [(([1] : Key), 10), ([1, 2], 20), ([1, 2, 3], 30), ([2], 40)]).termOrd [1, 2, 3] = some 2 ∧
    (build 2 [(([1] : Key), 10), ([1, 2], 20), ([1, 2, 3], 30), ([2], 40)]).ordToTerm 2 = some [1, 2, 3] := by decide

/-- `binary_search_ord` of the v3 index as a whole (store blocks of `B = STORE_BLOCK_LEN` addresses;
outer binary search over the store blocks' reference ordinals; the FAST PATH when `ord` is exactly
a reference ordinal, returning block id `g * B`; `bisect_for_ord` inside the store block
otherwise) equals the abstract search the routing theorems use — "the last block whose first
ordinal is ≤ ord" (`Dict.locateOrd`) — for every strictly increasing list of first ordinals and
every store-block geometry with all store blocks but the last full. (Seeded change C15-C returns
the address of block `g` instead of block `g * B` on the fast path; the model keeps the two id
spaces apart and the harness cross-decodes the real index bytes against it.) -/
theorem C15_addr_locate_ord (B G : Nat) (bl : Nat → Nat) (ords : List Nat) (ord : Nat)
    (hG : 0 < G) (hfull : ∀ g, g + 1 < G → bl g + 1 = B) (hlast : bl (G - 1) + 1 ≤ B)
    (hn : ords.length = (G - 1) * B + bl (G - 1) + 1)
    (hs : ords.Pairwise (· < ·)) (h0 : ords.getD 0 0 ≤ ord) :
    locateOrdGen B G bl (fun id => ords.getD id 0) ord
      = (ords.filter (fun x => decide (x ≤ ord))).length - 1 := by
  have hget : ∀ i, i < ords.length → ords.getD i 0 = ords[i]! := by
    intro i hi
    simp [List.getD_eq_getElem?_getD, List.getElem?_eq_getElem hi, hi]
  have hmono : ∀ a b, a < b → b < ords.length → ords.getD a 0 < ords.getD b 0 := by
    intro a b hab hb
    have ha : a < ords.length := by omega
    have := (List.pairwise_iff_getElem.mp hs) a b ha hb hab
    simpa [List.getD_eq_getElem?_getD, List.getElem?_eq_getElem ha, List.getElem?_eq_getElem hb] using this
  obtain ⟨h1, h2, h3⟩ := locateOrdGen_spec B G bl (fun id => ords.getD id 0) ord ords.length hG hfull
    hlast hn hmono h0
  have := filter_le_length ords ord _ hs h1 h2 h3
  omega

example : locateOrdGen 2 3 (fun g => if g = 2 then 0 else 1) (fun id => [0, 3, 5, 9, 12].getD id 0) 5 = 2 ∧
    locateOrdGen 2 3 (fun g => if g = 2 then 0 else 1) (fun id => [0, 3, 5, 9, 12].getD id 0) 11 = 3 ∧
    locateOrdGen 2 3 (fun g => if g = 2 then 0 else 1) (fun id => [0, 3, 5, 9, 12].getD id 0) 12 = 4 := by decide

/-- end to end for ordinal lookups: on the dictionary the writer builds from any sorted map (more
than one block), the v3 `binary_search_ord` — run over that dictionary's own first ordinals, for
every store-block geometry with all store blocks but the last full — finds exactly the block
`Dict.locateOrd` uses, so `C15_ops_refine_ord_to_term`, `C15_ops_refine_sorted_ords` and the limit
part of `C15_ops_refine_range` hold for the two-level search with its fast path -/
theorem C15_locate_ord_dict {V} (blockLen : Nat) (m : Assoc V) (hs : SortedMap m)
    (hmulti : (build blockLen m).single = false) (B G : Nat) (bl : Nat → Nat) (ord : Nat)
    (hG : 0 < G) (hfull : ∀ g, g + 1 < G → bl g + 1 = B) (hlast : bl (G - 1) + 1 ≤ B)
    (hn : (build blockLen m).blocks.length = (G - 1) * B + bl (G - 1) + 1) :
    locateOrdGen B G bl (fun id => ((build blockLen m).blocks.map (·.firstOrd)).getD id 0) ord
      = (build blockLen m).locateOrd ord := by
  obtain ⟨h1, h2, h3⟩ := build_firstOrds blockLen m hs hmulti ord
  rw [h3]
  exact C15_addr_locate_ord B G bl _ ord hG hfull hlast (by simpa using hn) h1 (by omega)

/-! ## value blocks and file framing -/

/-- value codecs: a block of non-decreasing u64 values (`MonotonicU64SSTable`) and a block of
consecutive ranges (`RangeSSTable`) read back exactly, and the reader returns exactly the bytes
that follow the value block (the key entries) -/
theorem C15_value_roundtrip (rest : List UInt8) :
    (∀ vals : List Nat, MonoFrom 0 vals → loadU64Mono (serU64Mono vals ++ rest) = (vals, rest)) ∧
    (∀ rs : List (Nat × Nat), Contig rs → MonoFrom 0 (rangeBounds rs) →
      loadRange (serRange rs ++ rest) = (rs, rest)) :=
  ⟨fun vals h => loadU64Mono_ser vals rest h, fun rs hc hm => loadRange_ser rs rest hc hm⟩

/-- one block as it lies in the file (value block, then front-coded keys) decodes to its values
and its keys -/
theorem C15_block_payload_roundtrip (vals : List Nat) (ks : List Key) (hv : MonoFrom 0 vals)
    (hk : StrictInc ks) :
    (loadU64Mono (serU64Mono vals ++ encodeBlockKeys ks)).1 = vals ∧
    decodeBlockKeys (loadU64Mono (serU64Mono vals ++ encodeBlockKeys ks)).2 = ks := by
  rw [loadU64Mono_ser vals _ hv]
  exact ⟨rfl, decodeBlockKeys_encode ks hk⟩

/-- the data part of a file — blocks cut at any block length, each framed as
`u32 (len + 1) | compress byte 0 | payload`, then the end marker — read by `read_block` and decoded
block by block gives back the key list, whatever follows the end marker (index, footer) -/
theorem C15_file_roundtrip (blockLen : Nat) (ks : List Key) (tail : List UInt8) (hs : StrictInc ks)
    (hsize : ∀ b ∈ encodeBlocks blockLen ks, b.length + 1 < 4294967296) :
    (readBlocks ((encodeBlocks blockLen ks).length + 1)
        (frameBlocks (encodeBlocks blockLen ks) ++ tail)).map
      (fun bs => ((bs.filterMap isPlain).map decodeBlockKeys).flatten) = some ks := by
  have hne : ∀ p ∈ encodeBlocks blockLen ks, p ≠ [] ∧ p.length + 1 < 4294967296 := by
    intro p hp
    refine ⟨?_, hsize p hp⟩
    unfold encodeBlocks at hp
    obtain ⟨b, hb, rfl⟩ := List.mem_map.mp hp
    have hbne : b ≠ [] := cutBlocks_nonempty id blockLen [] 0 [] ks b hb
    have := encodeEntries_length_ge [] b
    intro e
    unfold encodeBlockKeys at e
    rw [e] at this
    have : b.length = 0 := by simpa using this
    exact hbne (List.eq_nil_of_length_eq_zero this)
  have h := readBlocks_frame (encodeBlocks blockLen ks) tail _ (Nat.lt_succ_self _) hne
  cases hr : readBlocks ((encodeBlocks blockLen ks).length + 1)
      (frameBlocks (encodeBlocks blockLen ks) ++ tail) with
  | none => rw [hr] at h; simp at h
  | some bs =>
    rw [hr] at h
    simp only [Option.map_some, Option.some.injEq] at h ⊢
    have hfm : bs.filterMap isPlain = encodeBlocks blockLen ks := by
      have : ∀ (l : List RawBlock) (ps : List (List UInt8)), l.map isPlain = ps.map some → l.filterMap isPlain = ps := by
        intro l
        induction l with
        | nil => intro ps h; cases ps <;> simp_all
        | cons a r ih =>
          intro ps h
          cases ps with
          | nil => simp at h
          | cons p ps' =>
            simp only [List.map_cons, List.cons.injEq] at h
            simp [List.filterMap_cons, h.1, ih ps' h.2]
      exact this bs _ h
    rw [hfm]
    exact C15_delta_roundtrip blockLen ks hs

example : MonoFrom 0 [3, 3, 10] ∧ Contig [(5, 7), (7, 7), (7, 20)] ∧ MonoFrom 0 (rangeBounds [(5, 7), (7, 7), (7, 20)]) := by
  simp [MonoFrom, Contig, rangeBounds]
example : frameBlocks [[16, 17, 33, 18, 19, 17, 20]] = [8, 0, 0, 0, 0, 16, 17, 33, 18, 19, 17, 20, 0, 0, 0, 0] := by decide

/-! ## the streamer's automaton state stack -/

/-- `Streamer::advance` as the code runs it — on the front-coded `(keep, suffix)` entries, with
`key.truncate(keep)`, `states.truncate(keep + 1)` and one pushed automaton state per suffix byte,
done before the bound tests so the stack stays valid for entries skipped below the lower bound,
`key`/`states` persisting across block boundaries — equals the streamer over the decoded entries
that runs the automaton from its start state on every key: for every automaton, bounds, block
list and starting ordinal. (Seeded change C15-B moves the stack update behind the bound tests.) -/
theorem C15_streamer_state_stack {σ V} (A : Automaton σ) (lo hi : Bound) (bs : List (Assoc V))
    (passed : Bool) (ord : Nat) :
    scanSearchDelta A lo hi passed ord [] [A.start] (fileTriples bs)
      = scanSearch A lo hi passed ord bs.flatten := by
  have h0 : [A.start] = statesOf A A.start [] := by simp [statesOf, pushStates]
  rw [h0]
  exact scanSearchDelta_eq A lo hi _ _ [] passed ord (encodes_file bs [])

/-- hence the automaton search through the byte-level mechanism equals the block-model search of
`C15_automaton_stream`, on every dictionary -/
theorem C15_search_delta {σ V} (d : Dict V) (A : Automaton σ) (lo hi : Bound) :
    d.searchDelta A lo hi = d.search A lo hi := searchDelta_eq d A lo hi

example : scanSearchDelta (prefixAutomaton [1]) .unbounded .unbounded false 0 [] [(prefixAutomaton [1]).start]
      (fileTriples [[(([0, 5] : Key), 1), ([1], 2)], [([1, 7], 3), ([2], 4)]])
    = [(1, [1], 2), (2, [1, 7], 3)] := by decide

/-! ## writer state and block layout; per-round merge tables; corollaries -/

/-- one writer: the state machine that performs the order checks (`previous_key`, block bytes,
block start, last key of the last closed block) closes its blocks exactly where the block layout
used by `build` / `C15_delta_roundtrip` does -/
theorem C15_writer_blocks (blockLen : Nat) (ks : List Key) :
    writerBlocks blockLen {} [] ks = blocksOf id blockLen ks :=
  writerBlocks_eq blockLen {} [] ks

/-- the per-round tables of the heap merge (columnar `TermMerger::advance` + `matching_segments`):
round `j` reports, for every input, the old ordinal of the `j`-th merged key in that input, `none`
if the input does not hold it — i.e. the transposed `C15_term_ordinal_remap` tables -/
theorem C15_merge_round_tables {V} (comb : List V → V) (ms : List (Assoc V))
    (hs : ∀ m ∈ ms, SortedMap m) :
    kmergeOrds (totalLen ms) (ms.map (fun _ => 0)) ms
      = (keys (mergeSpec comb ms)).map (fun k => ms.map (fun m => termOrd m k)) := by
  rw [kmergeOrds_eq comb (totalLen ms) (ms.map (fun _ => 0)) ms hs (Nat.le_refl _) (by simp)]
  apply List.map_congr_left
  intro k _
  unfold roundRow
  rw [List.zip_map_left, List.map_map]
  have : ∀ l : List (Assoc V), (l.zip l).map ((fun p : Nat × Assoc V => (termOrd p.2 k).map (· + p.1)) ∘
      Prod.map (fun _ => 0) id) = l.map (fun m => termOrd m k) := by
    intro l
    induction l with
    | nil => rfl
    | cons a r ih =>
      simp only [List.zip_cons_cons, List.map_cons, Function.comp, Prod.map, id, Nat.add_zero]
      congr 1
      · cases termOrd a k <;> simp
  exact this ms

/-- a prefix stream of the dictionary is a (limited) prefix of the keys starting with `p` -/
theorem C15_ops_refine_prefix {V} (blockLen : Nat) (m : Assoc V) (hs : SortedMap m) (p : Key)
    (limit : Option Nat) (out : List (Nat × Key × V))
    (h : (build blockLen m).stream (prefixBounds p).1 (prefixBounds p).2 limit = some out) :
    out.map (fun e => (e.2.1, e.2.2)) <+: prefixed m p ∧
    (match limit with
     | none => out.map (fun e => (e.2.1, e.2.2)) = prefixed m p
     | some l => min l (prefixed m p).length ≤ out.length) := by
  have := C15_ops_refine_range blockLen m hs (prefixBounds p).1 (prefixBounds p).2 limit
  rw [h] at this
  obtain ⟨_, hlim⟩ := this
  unfold IsLimitedRange at hlim
  rw [C15_prefix_stream] at hlim
  refine ⟨hlim.1, ?_⟩
  cases limit with
  | none => exact hlim.2
  | some l => simpa using hlim.2

/-- range streams through the front-coded entries (`AlwaysMatch` never looks at its state) -/
theorem C15_range_stream_delta {V} (lo hi : Bound) (bs : List (Assoc V)) (ord : Nat) :
    scanSearchDelta allAut lo hi false ord [] [allAut.start] (fileTriples bs)
      = scanStream lo hi false ord bs.flatten := by
  rw [C15_streamer_state_stack, ← scanStream_eq_scanSearch allAut allAut_accepts]

/-- columnar `DictionaryBuilder::serialize`: terms get unordered ids in first-seen order, the
dictionary stores them sorted, and `TermIdMapping` sends an unordered id to the rank of its term:
the term at that rank is the original term, and distinct terms get distinct ranks -/
theorem C15_columnar_term_id_mapping (terms : List Key) (uid : Nat) (t : Key)
    (h : terms[uid]? = some t) :
    (unionKeys [terms])[ordOf (unionKeys [terms]) t]? = some t ∧
    (∀ (uid' : Nat) (t' : Key), terms[uid']? = some t' → t' ≠ t →
      ordOf (unionKeys [terms]) t' ≠ ordOf (unionKeys [terms]) t) := by
  have hsorted := unionKeys_sorted [terms]
  have hmem : ∀ x, x ∈ terms → x ∈ unionKeys [terms] := fun x hx =>
    (mem_unionKeys [terms] x).mpr ⟨terms, by simp, hx⟩
  have ht := hmem t (List.mem_of_getElem? h)
  refine ⟨(findIdx_ordOf _ t hsorted ht).2, ?_⟩
  intro uid' t' h' hne heq
  have ht' := hmem t' (List.mem_of_getElem? h')
  have h1 := (findIdx_ordOf _ t hsorted ht).2
  have h2 := (findIdx_ordOf _ t' hsorted ht').2
  rw [heq, h1] at h2
  exact hne (Option.some.inj h2).symm

example : writerBlocks 2 {} [] [[1], [1, 2], [1, 2, 3], [2]] = [[[1], [1, 2]], [[1, 2, 3]], [[2]]] := by decide
example : kmergeOrds 4 [0, 0] [[(([1] : Key), 1), ([3], 3)], [([2], 20), ([3], 30)]]
    = [[some 0, none], [none, some 0], [some 1, some 1]] := by decide
example : ([([5] : Key), [1], [3]])[0]? = some [5] ∧ ordOf (unionKeys [[[5], [1], [3]]]) [5] = 2 := by decide

/-! ## key bounds to ordinal bounds -/

/-- `Dictionary::term_bounds_to_ord` (an exact hit keeps the bound kind, a miss becomes
`Included(next)` below / `Excluded(next)` above, `Next(u64::MAX)` past the last separator): on the
dictionary built from any sorted map (fewer than `u64::MAX` terms), for every bound kind, the
ordinal bounds select exactly the ordinals whose keys satisfy the key bounds -/
theorem C15_term_bounds_to_ord {V} (blockLen : Nat) (m : Assoc V) (hs : SortedMap m)
    (hn : m.length < U64_MAX) (lo hi : Bound) (i : Nat) (e : Key × V) (h : m[i]? = some e) :
    (((build blockLen m).termBoundsToOrd lo hi).1.lo i && ((build blockLen m).termBoundsToOrd lo hi).2.hi i)
      = (matchLo lo e.1 && matchHi hi e.1) := by
  obtain ⟨h1, h2⟩ := termBoundsToOrd_spec blockLen m hs hn lo hi i e h
  rw [h1, h2]

example : (build 2 [(([1] : Key), 10), ([1, 2], 20), ([1, 2, 3], 30), ([2], 40)]).termBoundsToOrd
      (.excl [1]) (.incl [1, 9]) = (.excl 0, .excl 3) ∧
    (build 2 [(([1] : Key), 10), ([1, 2], 20), ([1, 2, 3], 30), ([2], 40)]).termBoundsToOrd
      (.incl [9]) .unbounded = (.incl U64_MAX, .unbounded) := by decide

/-- `Dictionary::open ∘ Writer::finish`: from the 20 trailing bytes the reader recovers the data
region, the index region, the number of terms and the version -/
theorem C15_open_finish (data index : List UInt8) (numTerms version : Nat)
    (h1 : data.length < 18446744073709551616) (h2 : numTerms < 18446744073709551616)
    (h3 : version < 4294967296) :
    openFile (finishFile data index numTerms version) = ⟨data, index, numTerms, version⟩ :=
  openFile_finish data index numTerms version h1 h2 h3

/-- a whole file as the model writer lays it out — framed front-coded blocks, end marker, any index
region, footer — opened and decoded block by block gives back the keys and the term count -/
theorem C15_whole_file_roundtrip (blockLen : Nat) (ks : List Key) (index : List UInt8)
    (hs : StrictInc ks) (hsize : ∀ b ∈ encodeBlocks blockLen ks, b.length + 1 < 4294967296)
    (hdata : (frameBlocks (encodeBlocks blockLen ks)).length < 18446744073709551616)
    (hn : ks.length < 18446744073709551616) :
    let f := openFile (finishFile (frameBlocks (encodeBlocks blockLen ks)) index ks.length Gen.SSTABLE_VERSION)
    f.numTerms = ks.length ∧ f.version = Gen.SSTABLE_VERSION ∧ f.index = index ∧
    (readBlocks ((encodeBlocks blockLen ks).length + 1) f.data).map
      (fun bs => ((bs.filterMap isPlain).map decodeBlockKeys).flatten) = some ks := by
  intro f
  have hf : f = ⟨frameBlocks (encodeBlocks blockLen ks), index, ks.length, Gen.SSTABLE_VERSION⟩ :=
    openFile_finish _ _ _ _ hdata hn (by decide)
  rw [hf]
  refine ⟨rfl, rfl, rfl, ?_⟩
  have := C15_file_roundtrip blockLen ks [] hs hsize
  simpa using this

example : openFile (finishFile [8, 0, 0, 0, 0, 16, 17, 33, 18, 19, 17, 20, 0, 0, 0, 0] [0, 0, 0, 0, 0, 0, 0, 0] 3 3)
    = ⟨[8, 0, 0, 0, 0, 16, 17, 33, 18, 19, 17, 20, 0, 0, 0, 0], [0, 0, 0, 0, 0, 0, 0, 0], 3, 3⟩ := by decide

/-- bit level of the block-address store: `extract_bits` is "bits `[addr, addr + nbits)` of the
little-endian bit stream" for every buffer, address and width ≤ 57 (8-byte window, shift, mask;
the code asserts ≤ 56) -/
theorem C15_extract_bits_spec (data : List UInt8) (addr nbits : Nat) (h : nbits ≤ 57) :
    extractBits data addr nbits = (streamNat data / 2 ^ addr) % 2 ^ nbits :=
  extractBits_spec data addr nbits h

/-- hence it reads back field `j` of ANY byte buffer that denotes a sequence of `(value, width)`
fields packed from bit 0 upwards (what `BitPacker::write` produces: value `v` of width `n` lands at
the running bit position), whatever follows the fields -/
theorem C15_extract_bits_field (data : List UInt8) (fs : List (Nat × Nat)) (above : Nat)
    (hstream : streamNat data = packNat fs + 2 ^ bitPos fs fs.length * above)
    (hfit : ∀ f ∈ fs, f.1 < 2 ^ f.2) (j : Nat) (f : Nat × Nat) (hj : fs[j]? = some f) (hw : f.2 ≤ 57) :
    extractBits data (bitPos fs j) f.2 = f.1 := by
  rw [extractBits_spec data _ _ hw, hstream]
  exact packNat_field fs hfit j f hj above

example : streamNat [0xB5, 0x01] = packNat [(5, 3), (22, 5), (1, 2)] ∧
    extractBits [0xB5, 0x01] (bitPos [(5, 3), (22, 5), (1, 2)] 1) 5 = 22 := by decide

/-- `BitPacker::write`* then `flush` (64-bit mini buffer, values split across buffer boundaries,
only the used bytes flushed): for every sequence of `(value, width)` fields with `value < 2^width`,
`width ≤ 64`, the bytes denote exactly the fields packed from bit 0 upwards — so, with
`C15_extract_bits_field`, `extract_bits` reads every field of a packed store block back -/
theorem C15_bitpacker (fs : List (Nat × Nat)) (hfit : ∀ f ∈ fs, f.1 < 2 ^ f.2 ∧ f.2 ≤ 64) :
    streamNat (bitPack fs) = packNat fs ∧
    ∀ j f, fs[j]? = some f → f.2 ≤ 57 → extractBits (bitPack fs) (bitPos fs j) f.2 = f.1 := by
  have hv := bitPack_val fs hfit
  refine ⟨hv, fun j f hj hw => ?_⟩
  exact C15_extract_bits_field (bitPack fs) fs 0 (by rw [hv]; simp) (fun g hg => (hfit g hg).1) j f hj hw

example : bitPack [(5, 3), (22, 5), (1, 2)] = [0xB5, 0x01] ∧
    bitPack [(1, 60), (255, 8), (3, 2)] = [1, 0, 0, 0, 0, 0, 0, 240, 63] := by decide

/-- a whole store block of the block-address store, bytes included: the fields
`BlockAddrStoreWriter::flush_block` computes (start and first-ordinal deviations from the linear
predictions, shifted by `2^(nbits-1)`, then the final end) bit-packed by `BitPacker`, read by
`BlockAddrBlockMetadata::deserialize_block_addr` (`extract_bits` at `num_bits * inner_offset`, the
reader's bounds check, `reference + extracted + slope * i - shift`): block `i` of the store block
comes back with its first ordinal, its start offset and the start of the next block as its end —
for every slope and every width that fits the deviations (`C15_addr_codec_roundtrip` shows the
widths `find_best_slope` picks do) -/
theorem C15_store_block_get (rs rb os ob : Nat) (ref : BlockAddr) (more : List BlockAddr)
    (lastStop : Nat) (g : GroupFits rs rb os ob ref more lastStop) (i : Nat) (hi : i ≤ more.length) :
    (groupMeta rs rb os ob ref more).get (bitPack (groupFields rs rb os ob ref more lastStop)) i
      = some ⟨((ref :: more).getD i ref).firstOrd, ((ref :: more).getD i ref).start,
              startAt more lastStop i⟩ :=
  group_get rs rb os ob ref more lastStop g i hi

example : (groupMeta 100 5 10 3 ⟨7, 1000, 1090⟩ [⟨16, 1090, 1200⟩, ⟨27, 1200, 1310⟩]).get
      (bitPack (groupFields 100 5 10 3 ⟨7, 1000, 1090⟩ [⟨16, 1090, 1200⟩, ⟨27, 1200, 1310⟩] 1310)) 1
    = some ⟨16, 1090, 1200⟩ := by decide

/-- the same with values: a whole data region of a `MonotonicU64SSTable` — entries cut into blocks
at any block length, each block written as value block (count, deltas) + front-coded keys,
framed, end marker — read by `read_block` and decoded block by block gives back every key with its
value -/
theorem C15_u64_file_roundtrip (blockLen : Nat) (m : Assoc Nat) (tail : List UInt8) (hs : SortedMap m)
    (hv : (m.map (·.2)).Pairwise (· ≤ ·))
    (hsize : ∀ b ∈ blocksOf (fun e : Key × Nat => e.1) blockLen m, (payloadU64 b).length + 1 < 4294967296) :
    (readBlocks ((blocksOf (fun e : Key × Nat => e.1) blockLen m).length + 1)
        (frameBlocks ((blocksOf (fun e : Key × Nat => e.1) blockLen m).map payloadU64) ++ tail)).map
      (fun bs => ((bs.filterMap isPlain).map decodePayloadU64).flatten) = some m :=
  u64_file_roundtrip blockLen m tail hs hv hsize

example : decodePayloadU64 (payloadU64 [(([1] : Key), 3), ([1, 2], 3), ([2], 10)]) = [([1], 3), ([1, 2], 3), ([2], 10)] := by
  apply decodePayloadU64_payload
  · exact (strictIncB_iff _).mp (by decide)
  · decide

example : (build 0 [(([1] : Key), 10), ([2], 20), ([3], 30), ([4], 40), ([5], 50)]).single = false ∧
    (build 0 [(([1] : Key), 10), ([2], 20), ([3], 30), ([4], 40), ([5], 50)]).blocks.length = (3 - 1) * 2 + 0 + 1 ∧
    locateOrdGen 2 3 (fun g => if g = 2 then 0 else 1)
      (fun id => ((build 0 [(([1] : Key), 10), ([2], 20), ([3], 30), ([4], 40), ([5], 50)]).blocks.map (·.firstOrd)).getD id 0) 2
      = (build 0 [(([1] : Key), 10), ([2], 20), ([3], 30), ([4], 40), ([5], 50)]).locateOrd 2 := by decide

/-- the deviation of the reported ordinals is one-sided: every ordinal an automaton search reports
is at most the true ordinal of its key (entries of pruned blocks are simply not counted) — for
every automaton with sound `can_match`, sorted map, block length and bounds. With
`C15_search_ordinal_counterexample` (strictly smaller after a pruned block) this pins down the
known finding C15:search-stream-term-ord-after-pruned-block. -/
theorem C15_search_ordinals_le {σ V} (A : Automaton σ) (hA : A.CanMatchSound) (blockLen : Nat)
    (m : Assoc V) (hs : SortedMap m) (lo hi : Bound) :
    ∀ p ∈ (build blockLen m).search A lo hi,
      p.1 ≤ ordOf (keys m) p.2.1 ∧ termOrd m p.2.1 = some (ordOf (keys m) p.2.1) := by
  intro p hp
  refine ⟨search_ord_le A hA blockLen m hs lo hi p hp, ?_⟩
  have hmem : (p.2.1, p.2.2) ∈ search A m lo hi := by
    rw [← (C15_automaton_stream A hA blockLen m hs lo hi).1]
    exact List.mem_map.mpr ⟨p, hp, rfl⟩
  have hk : p.2.1 ∈ keys m := by
    unfold search range at hmem
    exact List.mem_map.mpr ⟨_, (List.mem_filter.mp (List.mem_filter.mp hmem).1).1, rfl⟩
  rw [termOrd_eq_keys]
  exact (findIdx_ordOf (keys m) p.2.1 hs hk).1

/-- the same inside a file: whatever bytes follow the store block (the next store blocks), `get`
returns the same addresses — the 8-byte window of `extract_bits` may reach into them, its mask cuts
them off, and the reader's bounds check only gets easier -/
theorem C15_store_block_get_tail (rs rb os ob : Nat) (ref : BlockAddr) (more : List BlockAddr)
    (lastStop : Nat) (g : GroupFits rs rb os ob ref more lastStop) (rest : List UInt8) (i : Nat)
    (hi : i ≤ more.length) :
    (groupMeta rs rb os ob ref more).get (bitPack (groupFields rs rb os ob ref more lastStop) ++ rest) i
      = some ⟨((ref :: more).getD i ref).firstOrd, ((ref :: more).getD i ref).start,
              startAt more lastStop i⟩ :=
  group_get_tail rs rb os ob ref more lastStop g rest i hi

example : (groupMeta 100 5 10 3 ⟨7, 1000, 1090⟩ [⟨16, 1090, 1200⟩, ⟨27, 1200, 1310⟩]).get
      (bitPack (groupFields 100 5 10 3 ⟨7, 1000, 1090⟩ [⟨16, 1090, 1200⟩, ⟨27, 1200, 1310⟩] 1310) ++ [255, 255, 255]) 2
    = some ⟨27, 1200, 1310⟩ := by decide

/-- the whole block-address store, bytes included: `BlockAddrStoreWriter::serialize`
(`u64 len | 36-byte metadata records with running offsets | packed store blocks`) read by
`BlockAddrStore::open` + `get` (`block_id / STORE_BLOCK_LEN` selects the record,
`block_id % STORE_BLOCK_LEN` the address): every address of every store block comes back, for any
number of store blocks — given that the deviations fit the widths (`GroupFits`) and the record
fields fit their integer types (`MetaFits`) -/
theorem C15_store_get (gs : List GroupSpec) (k i : Nat) (g : GroupSpec) (hk : gs[k]? = some g)
    (hsize : META_SIZE * gs.length < 2 ^ 64)
    (hfit : GroupFits g.rs g.rb g.os g.ob g.ref g.more g.lastStop)
    (hmeta : MetaFits g (offsetOf gs k)) (hi : i ≤ g.more.length) (hB : i < Gen.STORE_BLOCK_LEN) :
    (openStore (storeBytes gs)).get (k * Gen.STORE_BLOCK_LEN + i)
      = some ⟨((g.ref :: g.more).getD i g.ref).firstOrd, ((g.ref :: g.more).getD i g.ref).start,
              startAt g.more g.lastStop i⟩ :=
  store_get gs k i g hk hsize hfit hmeta hi hB

example : (openStore (storeBytes [⟨100, 5, 10, 3, ⟨0, 0, 90⟩, [⟨9, 90, 200⟩], 200⟩,
      ⟨100, 5, 10, 3, ⟨20, 200, 310⟩, [⟨29, 310, 400⟩, ⟨40, 400, 500⟩], 500⟩])).get (1 * Gen.STORE_BLOCK_LEN + 2)
    = some ⟨40, 400, 500⟩ := by decide

/-- `BlockAddrStore::binary_search_ord` on the serialised store itself — store-block count taken
from the metadata length, `block_len` parsed from each 36-byte record, first ordinals read through
`get` from the packed bytes, the fast path on a store block's reference ordinal — returns the last
block whose first ordinal is ≤ ord: the abstract search of `Dict.locateOrd`
(`C15_locate_ord_dict`), for every store the writer model produces (all store blocks but the last
full, fields fitting) with strictly increasing first ordinals -/
theorem C15_store_locate_ord (gs : List GroupSpec) (hg : GoodStore gs) (ord : Nat)
    (hs : (allOrds gs).Pairwise (· < ·)) (h0 : (allOrds gs).getD 0 0 ≤ ord) :
    (openStore (storeBytes gs)).locateOrd ord
      = ((allOrds gs).filter (fun x => decide (x ≤ ord))).length - 1 :=
  store_locate_ord gs hg ord hs h0

example : (openStore (storeBytes [⟨100, 5, 10, 3, ⟨0, 0, 90⟩, [⟨9, 90, 200⟩], 200⟩])).locateOrd 9 = 1 ∧
    (openStore (storeBytes [⟨100, 5, 10, 3, ⟨0, 0, 90⟩, [⟨9, 90, 200⟩], 200⟩])).locateOrd 8 = 0 ∧
    allOrds [⟨100, 5, 10, 3, ⟨0, 0, 90⟩, [⟨9, 90, 200⟩], 200⟩] = [0, 9] := by decide

/-! ## round 2: FST contract, merged dictionaries -/

/-- the keys `SSTableIndexBuilder::serialize` inserts into `tantivy_fst::MapBuilder` — the
(shortened) separators of the dictionary built from any sorted map at any block length — are
strictly increasing, which is what the FST builder requires -/
theorem C15_separators_strictly_increasing {V} (blockLen : Nat) (m : Assoc V) (hs : SortedMap m) :
    StrictInc ((build blockLen m).blocks.map (·.sep)) :=
  build_seps_strictInc blockLen m hs

/-- tantivy-fst as a stated contract (`FstContract`: built from strictly increasing keys;
`range().ge(k).next()` = first entry with key ≥ k): `locate_with_key` through ANY such FST built
from the dictionary's separators is the routing of `C15_block_routing`, so every operation theorem
holds for the fst-backed index -/
theorem C15_fst_locate {V} (blockLen : Nat) (m : Assoc V) (f : FstIndex) (hf : FstContract f)
    (hkeys : f.keys = (build blockLen m).blocks.map (·.sep))
    (hmulti : (build blockLen m).single = false) (k : Key) :
    f.geFirst k = (build blockLen m).locateKey k :=
  fst_locate blockLen m f hf hkeys hmulti k

theorem C15_get_map_keys {V} (ks : List Key) (f : Key → V) (k : Key) :
    SSTable.get (ks.map (fun x => (x, f x))) k = if k ∈ ks then some (f k) else none := by
  induction ks with
  | nil => rfl
  | cons a rest ih =>
    unfold SSTable.get at ih ⊢
    rw [List.map_cons, List.find?_cons]
    by_cases h : a = k
    · subst h; simp
    · have : (a == k) = false := by simpa using h
      simp only [this, Bool.false_eq_true, if_false, ih, List.mem_cons]
      have hne : ¬ k = a := fun e => h e.symm
      simp [hne]

/-- merge end to end: the dictionary written from the k-way merge of sorted inputs (any block
length) answers as the merged map — a key is found iff some input holds it, with the combined
value; every entry of every input is found at its remapped ordinal; ordinals map back to the
merged keys -/
theorem C15_merged_dictionary {V} (comb : List V → V) (ms : List (Assoc V))
    (hs : ∀ m ∈ ms, SortedMap m) (blockLen : Nat) :
    (∀ k, (build blockLen (kwayMerge comb ms)).get k
      = if k ∈ unionKeys (ms.map keys) then some (comb (ms.filterMap (fun m => SSTable.get m k))) else none) ∧
    (∀ m ∈ ms, ∀ e ∈ m, (build blockLen (kwayMerge comb ms)).termOrd e.1
      = some (ordOf (keys (mergeSpec comb ms)) e.1)) ∧
    (∀ o, (build blockLen (kwayMerge comb ms)).ordToTerm o = ordToTerm (mergeSpec comb ms) o) := by
  obtain ⟨heq, hsorted, _, _⟩ := C15_merge comb ms hs
  rw [heq]
  refine ⟨fun k => ?_, fun m hm e he => ?_, fun o => (refine_ordToTerm blockLen _ o).1⟩
  · rw [refine_get blockLen _ hsorted k]
    unfold mergeSpec
    exact C15_get_map_keys _ _ k
  · rw [refine_termOrd blockLen _ hsorted e.1]
    have h := (C15_term_ordinal_remap comb ms hs m hm).1
    unfold ordMap at h
    obtain ⟨i, hidx⟩ := List.getElem?_of_mem he
    have := congrArg (fun l => l[i]?) h
    simp only [List.getElem?_map, hidx, Option.map_some] at this
    exact Option.some.inj this

example : (build 0 (kwayMerge List.sum [[(([1] : Key), 1), ([3], 3)], [([2], 20), ([3], 30)]])).get [3] = some 33 ∧
    (build 0 (kwayMerge List.sum [[(([1] : Key), 1), ([3], 3)], [([2], 20), ([3], 30)]])).termOrd [2] = some 1 := by decide

/-! ## round 2: `find_best_slope` mirrored -/

/-- `find_best_slope` (mirrored: the "lowest"/"highest" points by integer slope, the rounded slope
through them, `compute_num_bits(max deviation) + 1`): whatever slope the heuristic lands on, the
width it returns is at least 1, at most 57 and covers every deviation — as long as the largest
deviation is below the 56-bit cut-off of `compute_num_bits` -/
theorem C15_find_best_slope_fits (els : List (Nat × Nat))
    (h56 : numBits (maxDeviation (findBestSlope els).1 els) ≤ 56) :
    1 ≤ (findBestSlope els).2 ∧ (findBestSlope els).2 ≤ 57 ∧
    ∀ e ∈ els, deviation (findBestSlope els).1 e.1 e.2 < 2 ^ ((findBestSlope els).2 - 1) :=
  (findBestSlope_fits els h56).2

/-- a store block exactly as `flush_block` writes it — slopes and widths chosen by
`find_best_slope`, fields bit-packed — returns every address through `get`; no hypothesis on
slopes or widths is left, only monotone data and deviations below the cut-off -/
theorem C15_written_store_block_get (ref : BlockAddr) (more : List BlockAddr) (lastStop : Nat)
    (h : WriterGroupOk ref more lastStop) (rest : List UInt8) (i : Nat) (hi : i ≤ more.length) :
    (groupMeta (mkGroup ref more lastStop).rs (mkGroup ref more lastStop).rb (mkGroup ref more lastStop).os
        (mkGroup ref more lastStop).ob ref more).get ((mkGroup ref more lastStop).bytes ++ rest) i
      = some ⟨((ref :: more).getD i ref).firstOrd, ((ref :: more).getD i ref).start,
              startAt more lastStop i⟩ :=
  group_get_tail _ _ _ _ ref more lastStop (mkGroup_fits ref more lastStop h) rest i hi

example : (findBestSlope (rangeEls ⟨7, 1000, 1090⟩ [⟨16, 1090, 1200⟩, ⟨27, 1200, 1310⟩] 1310)).1 = 100 ∧
    (findBestSlope (ordEls ⟨7, 1000, 1090⟩ [⟨16, 1090, 1200⟩, ⟨27, 1200, 1310⟩])).1 = 10 ∧
    maxDeviation 100 (rangeEls ⟨7, 1000, 1090⟩ [⟨16, 1090, 1200⟩, ⟨27, 1200, 1310⟩] 1310) = 10 := by decide

/-! ## round 2: every stream parameter at once -/

/-- `StreamerBuilder::into_stream` with lower bound, upper bound, limit AND automaton set, for every
automaton with sound `can_match` (and, when it declares `will_always_match` at its start state,
really accepting everything): the streamed keys/values are a prefix of `search A m lo hi`; they are
all of it when there is no limit or the automaton does not always match (the limit is then
ignored by the code); with a limit `l` at least `min l |search|` entries come out. The call fails
only on the always-match path, without the inverted-range guard, and then the result is empty. -/
theorem C15_stream_all_parameters {σ V} (A : Automaton σ) (hA : A.CanMatchSound) (wam : Bool)
    (hwam : wam = true → ∀ k, A.accepts k = true) (blockLen : Nat) (m : Assoc V) (hs : SortedMap m)
    (lo hi : Bound) (limit : Option Nat) :
    match (build blockLen m).searchLim A wam lo hi limit with
    | some out =>
        out.map (fun p => (p.2.1, p.2.2)) <+: search A m lo hi ∧
        ((limit = none ∨ wam = false) → out.map (fun p => (p.2.1, p.2.2)) = search A m lo hi) ∧
        (∀ l, limit = some l → min l (search A m lo hi).length ≤ out.length)
    | none => wam = true ∧ Gen.RANGE_INVERTED_GUARD ≠ 1 ∧ search A m lo hi = [] := by
  cases hw : wam with
  | false =>
    have hsl : (build blockLen m).searchLim A false lo hi limit = some ((build blockLen m).search A lo hi) := by
      unfold Dict.searchLim; simp
    rw [hsl]
    have heq := (C15_automaton_stream A hA blockLen m hs lo hi).1
    simp only
    refine ⟨by rw [heq]; exact List.prefix_refl _, fun _ => heq, fun l _ => ?_⟩
    rw [← heq, List.length_map]; omega
  | true =>
    have hacc := hwam hw
    rw [searchLim_wam _ A hacc, search_all_eq_range A hacc]
    have h := C15_ops_refine_range blockLen m hs lo hi limit
    cases hst : (build blockLen m).stream lo hi limit with
    | none =>
      rw [hst] at h
      exact ⟨rfl, h.1, h.2.1⟩
    | some out =>
      rw [hst] at h
      obtain ⟨_, hpre, hlim⟩ := h
      simp only
      refine ⟨hpre, ?_, ?_⟩
      · intro hor
        rcases hor with hn | hf
        · subst hn; exact hlim
        · cases hf
      · intro l hl
        subst hl
        simpa using hlim

example : (build 0 [(([1] : Key), 10), ([2], 20), ([3], 30)]).searchLim (prefixAutomaton [3]) false .unbounded .unbounded (some 1)
    = some [(0, [3], 30)] := by decide +kernel

/-! ## insertion order (DESIGN §8, F6) -/

/-- the writer accepts a key iff it is greater than the previous one — or both are empty and the
previous one was not the last key of a closed block (the defect) -/
theorem C15_insert_accepts_iff (blockLen : Nat) (s : WState) (last : Option Key) (k : Key)
    (h : WInv s last) :
    (s.insert blockLen k).isSome = true ↔
      (last = none ∨ (∃ l, last = some l ∧ lexLt l k = true) ∨
        (s.blockStart = false ∧ last = some [] ∧ k = [])) :=
  insert_accepts_iff blockLen s last k h

/-- partial form of "accepted ⇒ strictly increasing": it holds for every block length and every
sequence without two consecutive empty keys; conversely every strictly increasing sequence is
accepted (cross-block order is enforced by the assert of find_shorter_str_in_between) -/
theorem C15_insert_order_partial (blockLen : Nat) (ks : List Key) :
    (writerAccepts blockLen ks = true → NoEmptyDup none ks → StrictInc ks) ∧
    (StrictInc ks → writerAccepts blockLen ks = true) := by
  constructor
  · intro h hne
    have h' : firstRejected blockLen {} ks 0 = none := by
      simpa [writerAccepts] using h
    simpa using accepted_strictInc blockLen {} none ks 0 WInv_init h' hne
  · intro h
    have := strictInc_accepted blockLen {} none ks 0 WInv_init (by simpa using h)
    simp [writerAccepts, this]

/-! ## insertion order (DESIGN §8, F6) -/

/-- FALSE as a universal statement: "every sequence the writer accepts is strictly increasing".
Inserting the empty key twice is accepted (`previous_key.is_empty()` short-circuits the test). -/
theorem C15_duplicate_empty_key_counterexample :
    writerAccepts Gen.BLOCK_LEN [[], []] = true ∧ strictIncB [[], []] = false ∧
    writerAccepts 1 [[], [], [1]] = true ∧
    -- with one key per block the block-boundary assert does catch it
    writerAccepts 0 [[], []] = false := by decide

/-! ## round 2: the exact set of accepted insertion sequences -/

/-- FULL form of the insertion-order statement (replaces the hypothesis of
`C15_insert_order_partial` by the exact exception): for every block length, the writer accepts a
sequence iff every key is strictly above its predecessor — except that the `(i+1)`-th key may repeat
an EMPTY `i`-th key as long as `i + 1 ≤ blockLen`, i.e. while the run of empty keys (one byte each)
has not yet closed the block; once it has, the block-boundary assert rejects the next empty key.
Nothing else is ever accepted: the known finding C15:duplicate-empty-key-accepted is the whole
deviation from "accepted ⇔ strictly increasing". -/
theorem C15_insert_order (blockLen : Nat) (ks : List Key) :
    writerAccepts blockLen ks = true ↔ AdjOK blockLen 0 ks := by
  rw [← adjFrom_none_iff, ← accepted_iff_adjFrom blockLen {} none 0 ks 0 (WInv2_init blockLen)]
  simp [writerAccepts]

/-- in particular a sequence without two leading empty keys is accepted iff strictly increasing -/
theorem C15_insert_order_no_empty_dup (blockLen : Nat) (ks : List Key) (h : NoEmptyDup none ks) :
    writerAccepts blockLen ks = true ↔ StrictInc ks :=
  ⟨fun ha => (C15_insert_order_partial blockLen ks).1 ha h, (C15_insert_order_partial blockLen ks).2⟩

example : AdjOK 1 0 [[], [], [1]] ∧ ¬ AdjOK 1 0 [[], [], []] ∧ ¬ AdjOK 4000 0 [[1], [1]] := by
  simp [AdjOK, lexLt]
example : writerAccepts 1 [[], [], []] = false ∧ writerAccepts 2 [[], [], [], [5]] = true := by decide

/-! ## round 2: the width `find_best_slope` returns is minimal; locate-then-get on the store file -/

/-- the width `find_best_slope` returns is not only sufficient (`C15_find_best_slope_fits`) but the
smallest possible for the slope it chose: with one bit less, some deviation would no longer fit
(`2 ^ (width - 2) ≤ deviation` for some element; widths carry one extra bit for the midpoint
shift). Whenever any deviation is non-zero and below the 56-bit cut-off. -/
theorem C15_find_best_slope_width_minimal (els : List (Nat × Nat))
    (h56 : numBits (maxDeviation (findBestSlope els).1 els) ≤ 56)
    (hpos : 0 < maxDeviation (findBestSlope els).1 els) :
    (∀ e ∈ els, deviation (findBestSlope els).1 e.1 e.2 < 2 ^ ((findBestSlope els).2 - 1)) ∧
    ∃ e ∈ els, 2 ^ ((findBestSlope els).2 - 2) ≤ deviation (findBestSlope els).1 e.1 e.2 :=
  ⟨(findBestSlope_fits els h56).2.2.2, findBestSlope_width_minimal els h56 hpos⟩

example : 0 < maxDeviation (findBestSlope (rangeEls ⟨7, 1000, 1090⟩ [⟨16, 1090, 1200⟩, ⟨27, 1200, 1310⟩] 1310)).1
      (rangeEls ⟨7, 1000, 1090⟩ [⟨16, 1090, 1200⟩, ⟨27, 1200, 1310⟩] 1310) ∧
    maxDeviation (findBestSlope (rangeEls ⟨7, 1000, 1090⟩ [⟨16, 1090, 1200⟩, ⟨27, 1200, 1310⟩] 1310)).1
      (rangeEls ⟨7, 1000, 1090⟩ [⟨16, 1090, 1200⟩, ⟨27, 1200, 1310⟩] 1310) < 2 ^ 55 := by decide

/-- `locate_with_ord` then `get` on the serialised block-address store, composed: for every
well-formed store file with strictly increasing first ordinals and every ordinal at or above the
first one, `binary_search_ord` returns a VALID block id, `get` of it reads an address whose first
ordinal is `≤ ord`, and the address of the next block id (when there is one) starts strictly above
`ord` — the block the dictionary then opens is the one that holds the ordinal. -/
theorem C15_store_locate_then_get (gs : List GroupSpec) (hg : GoodStore gs) (ord : Nat)
    (hs : (allOrds gs).Pairwise (· < ·)) (h0 : (allOrds gs).getD 0 0 ≤ ord) :
    ∃ a, (openStore (storeBytes gs)).get ((openStore (storeBytes gs)).locateOrd ord) = some a ∧
      a.firstOrd ≤ ord ∧
      ∀ a', (openStore (storeBytes gs)).locateOrd ord + 1 < (allOrds gs).length →
        (openStore (storeBytes gs)).get ((openStore (storeBytes gs)).locateOrd ord + 1) = some a' →
        ord < a'.firstOrd := by
  obtain ⟨h1, h2, h3⟩ := store_locate_spec gs hg ord hs h0
  obtain ⟨a, ha, hao⟩ := store_get_valid gs hg _ h1
  refine ⟨a, ha, by rw [hao]; exact h2, ?_⟩
  intro a' hlt hg'
  obtain ⟨b, hb, hbo⟩ := store_get_valid gs hg _ hlt
  rw [hb] at hg'
  cases hg'
  rw [hbo]
  exact h3 hlt

example : (openStore (storeBytes [⟨100, 5, 10, 3, ⟨0, 0, 90⟩, [⟨9, 90, 200⟩], 200⟩])).get
      ((openStore (storeBytes [⟨100, 5, 10, 3, ⟨0, 0, 90⟩, [⟨9, 90, 200⟩], 200⟩])).locateOrd 12)
    = some ⟨9, 90, 200⟩ := by decide

/-! ## round 2: `ord_to_term` on the bytes of a whole file -/

/-- `Dictionary::open` + `Dictionary::ord_to_term` composed on the BYTES of a version-3 file — footer,
index region `fst | block-address store | fst_len`, `binary_search_ord`, `get`, the byte range of
the frame, `read_block`, value block skipped, front-coded keys decoded, the `(ord - first_ordinal)`-th
key: for every list of non-empty strictly increasing key blocks, every payload list whose value
blocks `skip` drops, EVERY well-formed store (`GoodStore`: any slopes/widths that fit) that lists
one address per block — first ordinal = number of keys before the block, byte range = the frame —
and ANY non-empty FST byte string (this operation never reads it), the reader returns exactly the
`ord`-th key of the concatenated blocks and `Ok(false)` (`none`) past the end. -/
theorem C15_file_ord_to_term (skip : List UInt8 → List UInt8) (blocks : List (List Key)) (ps : List (List UInt8))
    (gs : List GroupSpec) (fst : List UInt8) (numTerms version ord : Nat)
    (hinc : ∀ b ∈ blocks, StrictInc b) (hne : ∀ b ∈ blocks, b ≠ [])
    (hskip : ∀ (i : Nat) p b, ps[i]? = some p → blocks[i]? = some b → skip p = encodeBlockKeys b)
    (hlen : ps.length = blocks.length)
    (hpsz : ∀ p ∈ ps, p ≠ [] ∧ p.length + 1 < 4294967296)
    (hg : GoodStore gs)
    (hcount : (allOrds gs).length = blocks.length)
    (hAddr : ∀ (id : Nat) a, id < blocks.length → (openStore (storeBytes gs)).get id = some a →
      a.firstOrd = ordStart blocks id ∧ a.start = frameStart ps id ∧ a.stop = frameStart ps (id + 1))
    (hfst0 : fst.length ≠ 0) (hfst : fst.length < 18446744073709551616)
    (hdata : (frameBlocks ps).length < 18446744073709551616)
    (hn : numTerms < 18446744073709551616) (hv : version < 4294967296) :
    fileOrdToTerm skip (finishFile (frameBlocks ps) (fst ++ storeBytes gs ++ u64enc fst.length) numTerms version) ord
      = some (blocks.flatten[ord]?) :=
  file_ord_to_term' skip blocks ps gs fst numTerms version ord hinc hne hskip hlen hpsz hg hcount hAddr
    hfst0 hfst hdata hn hv

/-- instance: the file the model writer lays out for a strictly increasing key list (`VoidSSTable`,
any block length): `ord_to_term` on its bytes is `ks[ord]?` -/
theorem C15_written_file_ord_to_term (blockLen : Nat) (ks : List Key) (hs : StrictInc ks)
    (gs : List GroupSpec) (fst : List UInt8) (ord : Nat)
    (hsize : ∀ b ∈ encodeBlocks blockLen ks, b.length + 1 < 4294967296)
    (hg : GoodStore gs)
    (hcount : (allOrds gs).length = (blocksOf id blockLen ks).length)
    (hAddr : ∀ (i : Nat) a, i < (blocksOf id blockLen ks).length → (openStore (storeBytes gs)).get i = some a →
      a.firstOrd = ordStart (blocksOf id blockLen ks) i ∧ a.start = frameStart (encodeBlocks blockLen ks) i ∧
        a.stop = frameStart (encodeBlocks blockLen ks) (i + 1))
    (hfst0 : fst.length ≠ 0) (hfst : fst.length < 18446744073709551616)
    (hdata : (frameBlocks (encodeBlocks blockLen ks)).length < 18446744073709551616)
    (hn : ks.length < 18446744073709551616) :
    fileOrdToTerm id (finishFile (frameBlocks (encodeBlocks blockLen ks))
        (fst ++ storeBytes gs ++ u64enc fst.length) ks.length Gen.SSTABLE_VERSION) ord = some ks[ord]? := by
  have hfl := blocksOf_flatten (id : Key → Key) blockLen ks
  have hall : ∀ b ∈ blocksOf id blockLen ks, StrictInc b :=
    strictInc_of_mem_flatten (by rw [hfl]; exact hs)
  have hne : ∀ b ∈ blocksOf id blockLen ks, b ≠ [] := cutBlocks_nonempty id blockLen [] 0 [] ks
  have hpsz : ∀ p ∈ encodeBlocks blockLen ks, p ≠ [] ∧ p.length + 1 < 4294967296 := by
    intro p hp
    refine ⟨?_, hsize p hp⟩
    unfold encodeBlocks at hp
    obtain ⟨b, hb, rfl⟩ := List.mem_map.mp hp
    have := encodeEntries_length_ge [] b
    intro e
    unfold encodeBlockKeys at e
    rw [e] at this
    have : b.length = 0 := by simpa using this
    exact hne b hb (List.eq_nil_of_length_eq_zero this)
  have h := C15_file_ord_to_term id (blocksOf id blockLen ks) (encodeBlocks blockLen ks) gs fst ks.length
    Gen.SSTABLE_VERSION ord hall hne
    (by
      intro i p b hp hb
      unfold encodeBlocks at hp
      rw [List.getElem?_map, hb] at hp
      simp only [Option.map_some, Option.some.injEq] at hp
      rw [← hp]; rfl)
    (by simp [encodeBlocks]) hpsz hg hcount hAddr hfst0 hfst hdata hn (by decide)
  rw [h, hfl]

/-- the hypotheses are satisfiable and the reader computes: a two-block file, store with one group -/
example : fileOrdToTerm id (finishFile (frameBlocks [[16, 7], [16, 9]])
      ([1, 2, 3] ++ storeBytes [⟨7, 5, 1, 3, ⟨0, 0, 7⟩, [⟨1, 7, 14⟩], 14⟩] ++ u64enc 3) 2 3) 1 = some (some [9]) ∧
    fileOrdToTerm id (finishFile (frameBlocks [[16, 7], [16, 9]])
      ([1, 2, 3] ++ storeBytes [⟨7, 5, 1, 3, ⟨0, 0, 7⟩, [⟨1, 7, 14⟩], 14⟩] ++ u64enc 3) 2 3) 2 = some none := by decide

/-! ## round 2: the whole block-address store as the writer lays it out -/

/-- `BlockAddrStoreWriter` (addresses buffered, a store block flushed every `STORE_BLOCK_LEN`
addresses and at the end, reference = first buffered address, slopes and widths from
`find_best_slope`, fields bit-packed, 36-byte metadata records with running offsets, length prefix)
followed by `BlockAddrStore::open` + `get`: EVERY address comes back under its block id — for every
list of addresses in which each block ends where the next starts, provided the data is monotone,
the deviations stay below the 56-bit cut-off of `compute_num_bits` and the sizes fit the metadata
fields (`WriterStoreOk`). The real store bytes are rebuilt from the decoded address list alone,
byte-exactly, on every run (`rebuildStoreOk`). -/
theorem C15_writer_store_get (addrs : List BlockAddr) (hch : Chained addrs) (hok : WriterStoreOk addrs)
    (id : Nat) (hid : id < addrs.length) :
    (openStore (storeBytes (writerStore addrs))).get id = addrs[id]? :=
  writer_store_get addrs hch hok id hid

/-- and `binary_search_ord` on those bytes is the abstract ordinal search over the first ordinals
of the given addresses -/
theorem C15_writer_store_locate_ord (addrs : List BlockAddr) (hne : addrs ≠ []) (hch : Chained addrs)
    (hok : WriterStoreOk addrs) (ord : Nat)
    (hs : (addrs.map (·.firstOrd)).Pairwise (· < ·)) (h0 : (addrs.map (·.firstOrd)).getD 0 0 ≤ ord) :
    (openStore (storeBytes (writerStore addrs))).locateOrd ord
      = ((addrs.map (·.firstOrd)).filter (fun x => decide (x ≤ ord))).length - 1 := by
  have he : allOrds (writerStore addrs) = addrs.map (·.firstOrd) := by
    rw [allOrds_eq_map, writerStore_addrs addrs hch]
  have := store_locate_ord (writerStore addrs) (writerStore_good addrs hne hok) ord (by rw [he]; exact hs)
    (by rw [he]; exact h0)
  rw [he] at this
  exact this

/-- `C15_file_ord_to_term` with the store the writer lays out for the frame addresses: nothing is
assumed about what `get` returns any more. Data region of framed payloads, index region
`fst | writer store | fst_len`, footer; `ord_to_term` on these bytes is the `ord`-th key. -/
theorem C15_file_ord_to_term_written_store (skip : List UInt8 → List UInt8) (blocks : List (List Key))
    (ps : List (List UInt8)) (fst : List UInt8) (numTerms version ord : Nat)
    (hinc : ∀ b ∈ blocks, StrictInc b) (hne : ∀ b ∈ blocks, b ≠ []) (hbne : blocks ≠ [])
    (hskip : ∀ (i : Nat) p b, ps[i]? = some p → blocks[i]? = some b → skip p = encodeBlockKeys b)
    (hlen : ps.length = blocks.length)
    (hpsz : ∀ p ∈ ps, p ≠ [] ∧ p.length + 1 < 4294967296)
    (hok : WriterStoreOk (frameAddrs blocks ps))
    (hfst0 : fst.length ≠ 0) (hfst : fst.length < 18446744073709551616)
    (hdata : (frameBlocks ps).length < 18446744073709551616)
    (hn : numTerms < 18446744073709551616) (hv : version < 4294967296) :
    fileOrdToTerm skip (finishFile (frameBlocks ps)
        (fst ++ storeBytes (writerStore (frameAddrs blocks ps)) ++ u64enc fst.length) numTerms version) ord
      = some (blocks.flatten[ord]?) :=
  written_file_ord_to_term skip blocks ps fst numTerms version ord hinc hne hbne hskip hlen hpsz hok
    hfst0 hfst hdata hn hv

example : frameAddrs [[[1]], [[2]]] [[16, 1], [16, 2]] = [⟨0, 0, 7⟩, ⟨1, 7, 14⟩] ∧
    Chained [⟨0, 0, 7⟩, ⟨1, 7, 14⟩] := ⟨by decide, by simp [Chained]⟩

/-- the hypotheses of the writer-store theorems are satisfiable: a two-address store -/
example : WriterStoreOk [⟨0, 0, 7⟩, ⟨1, 7, 14⟩] := by
  have hws : writerStore [⟨0, 0, 7⟩, ⟨1, 7, 14⟩] = [mkGroup ⟨0, 0, 7⟩ [⟨1, 7, 14⟩] 14] := rfl
  have hr56 : numBits (maxDeviation (findBestSlope (rangeEls ⟨0, 0, 7⟩ [⟨1, 7, 14⟩] 14)).1
      (rangeEls ⟨0, 0, 7⟩ [⟨1, 7, 14⟩] 14)) ≤ 56 := numBits_le_56 _ (by decide)
  have ho56 : numBits (maxDeviation (findBestSlope (ordEls ⟨0, 0, 7⟩ [⟨1, 7, 14⟩])).1
      (ordEls ⟨0, 0, 7⟩ [⟨1, 7, 14⟩])) ≤ 56 := numBits_le_56 _ (by decide)
  have hgrp : WriterGroupOk ⟨0, 0, 7⟩ [⟨1, 7, 14⟩] 14 :=
    ⟨fun _ _ => Nat.zero_le _, fun _ _ => Nat.zero_le _, hr56, ho56⟩
  refine ⟨by rw [hws]; decide, ?_, ?_⟩
  · intro g hg
    rw [hws] at hg
    simp only [List.mem_singleton] at hg
    subst hg
    exact hgrp
  · intro k g hk
    rw [hws] at hk ⊢
    cases k with
    | succ j => simp at hk
    | zero =>
      simp only [List.getElem?_cons_zero, Option.some.injEq] at hk
      subst hk
      have fr := findBestSlope_fits (rangeEls ⟨0, 0, 7⟩ [⟨1, 7, 14⟩] 14) hr56
      have fo := findBestSlope_fits (ordEls ⟨0, 0, 7⟩ [⟨1, 7, 14⟩]) ho56
      refine ⟨by decide, by decide, by decide, by decide, by decide, ?_, ?_, by decide⟩
      · show (findBestSlope (ordEls ⟨0, 0, 7⟩ [⟨1, 7, 14⟩])).2 < 256
        omega
      · show (findBestSlope (rangeEls ⟨0, 0, 7⟩ [⟨1, 7, 14⟩] 14)).2 < 256
        omega

/-- files with at most one block carry no index (`fst_len = 0`, `SSTableIndexV3Empty`): the one
pseudo-block covers the data region and `ord_to_term` reads it; on the empty dictionary every
ordinal is past the end -/
theorem C15_small_file_ord_to_term (skip : List UInt8 → List UInt8) (numTerms version ord : Nat)
    (hn : numTerms < 18446744073709551616) (hv : version < 4294967296) :
    (∀ (b : List Key) (p : List UInt8), StrictInc b → skip p = encodeBlockKeys b → p ≠ [] →
      p.length + 1 < 4294967296 →
      fileOrdToTerm skip (finishFile (frameBlocks [p]) (u64enc 0) numTerms version) ord = some b[ord]?) ∧
    fileOrdToTerm skip (finishFile (frameBlocks []) (u64enc 0) numTerms version) ord = some none :=
  ⟨fun b p hinc hskip hp1 hp2 => single_block_file_ord_to_term skip b p numTerms version ord hinc hskip hp1 hp2 hn hv,
   empty_file_ord_to_term skip numTerms version ord hn hv⟩

/-- the file the model writer lays out for a non-empty strictly increasing key list (`VoidSSTable`,
any block length) with the index store the writer model lays out for its frames: `ord_to_term` on
the bytes is `ks[ord]?` — writer and reader composed, the FST bytes arbitrary -/
theorem C15_void_file_ord_to_term (blockLen : Nat) (ks : List Key) (hs : StrictInc ks) (hks : ks ≠ [])
    (fst : List UInt8) (ord : Nat)
    (hsize : ∀ b ∈ encodeBlocks blockLen ks, b.length + 1 < 4294967296)
    (hok : WriterStoreOk (frameAddrs (blocksOf id blockLen ks) (encodeBlocks blockLen ks)))
    (hfst0 : fst.length ≠ 0) (hfst : fst.length < 18446744073709551616)
    (hdata : (frameBlocks (encodeBlocks blockLen ks)).length < 18446744073709551616)
    (hn : ks.length < 18446744073709551616) :
    fileOrdToTerm id (finishFile (frameBlocks (encodeBlocks blockLen ks))
        (fst ++ storeBytes (writerStore (frameAddrs (blocksOf id blockLen ks) (encodeBlocks blockLen ks)))
          ++ u64enc fst.length) ks.length Gen.SSTABLE_VERSION) ord = some ks[ord]? := by
  have hfl := blocksOf_flatten (id : Key → Key) blockLen ks
  have hall : ∀ b ∈ blocksOf id blockLen ks, StrictInc b :=
    strictInc_of_mem_flatten (by rw [hfl]; exact hs)
  have hne : ∀ b ∈ blocksOf id blockLen ks, b ≠ [] := cutBlocks_nonempty id blockLen [] 0 [] ks
  have hbne : blocksOf id blockLen ks ≠ [] := by
    intro e; rw [e] at hfl; exact hks hfl.symm
  have hpsz : ∀ p ∈ encodeBlocks blockLen ks, p ≠ [] ∧ p.length + 1 < 4294967296 := by
    intro p hp
    refine ⟨?_, hsize p hp⟩
    unfold encodeBlocks at hp
    obtain ⟨b, hb, rfl⟩ := List.mem_map.mp hp
    have := encodeEntries_length_ge [] b
    intro e
    unfold encodeBlockKeys at e
    rw [e] at this
    have : b.length = 0 := by simpa using this
    exact hne b hb (List.eq_nil_of_length_eq_zero this)
  have h := C15_file_ord_to_term_written_store id (blocksOf id blockLen ks) (encodeBlocks blockLen ks) fst
    ks.length Gen.SSTABLE_VERSION ord hall hne hbne
    (by
      intro i p b hp hb
      unfold encodeBlocks at hp
      rw [List.getElem?_map, hb] at hp
      simp only [Option.map_some, Option.some.injEq] at hp
      rw [← hp]; rfl)
    (by simp [encodeBlocks]) hpsz hok hfst0 hfst hdata hn (by decide)
  rw [h, hfl]

example : fileOrdToTerm id (finishFile (frameBlocks [[16, 7, 17, 9]]) (u64enc 0) 2 3) 1 = some (some [7, 9]) ∧
    fileOrdToTerm id (finishFile (frameBlocks []) (u64enc 0) 0 3) 0 = some none := by decide

/-- the 56-bit cut-off of `compute_num_bits` (beyond which `find_best_slope` would return a width
of 65 and the store block would be corrupt) is never reached: for block addresses that chain, with
non-negative byte ranges, non-decreasing first ordinals and offsets/ordinals below 2^55 (a 32 PiB
file), every store block the writer flushes satisfies all conditions of `C15_writer_store_get` —
the slope is a `u32`, indices are at most 129, so every deviation is below 2^55. Only the size of
the store region itself (records and packed data below 2^64 bytes) is left as a hypothesis. -/
theorem C15_writer_store_ok (addrs : List BlockAddr) (hch : Chained addrs)
    (hle : ∀ a ∈ addrs, a.start ≤ a.stop)
    (hsmall : ∀ a ∈ addrs, a.stop < 2 ^ 55 ∧ a.firstOrd < 2 ^ 55)
    (hmono : (addrs.map (·.firstOrd)).Pairwise (· ≤ ·))
    (hsize : META_SIZE * (writerStore addrs).length < 2 ^ 64)
    (hoff : ∀ k, offsetOf (writerStore addrs) k < 2 ^ 64) : WriterStoreOk addrs :=
  writerStoreOk_of_small addrs hch hle hsmall hmono hsize hoff

/-- hence writer ∘ reader is the identity on the address list under plain size bounds -/
theorem C15_writer_store_get_small (addrs : List BlockAddr) (hch : Chained addrs)
    (hle : ∀ a ∈ addrs, a.start ≤ a.stop)
    (hsmall : ∀ a ∈ addrs, a.stop < 2 ^ 55 ∧ a.firstOrd < 2 ^ 55)
    (hmono : (addrs.map (·.firstOrd)).Pairwise (· ≤ ·))
    (hsize : META_SIZE * (writerStore addrs).length < 2 ^ 64)
    (hoff : ∀ k, offsetOf (writerStore addrs) k < 2 ^ 64) (id : Nat) (hid : id < addrs.length) :
    (openStore (storeBytes (writerStore addrs))).get id = addrs[id]? :=
  writer_store_get addrs hch (writerStoreOk_of_small addrs hch hle hsmall hmono hsize hoff) id hid

example : maxDeviation (findBestSlope (rangeEls ⟨0, 0, 7⟩ [⟨1, 7, 14⟩] 14)).1 (rangeEls ⟨0, 0, 7⟩ [⟨1, 7, 14⟩] 14) < 2 ^ 56 ∧
    (findBestSlope (rangeEls ⟨0, 0, 7⟩ [⟨1, 7, 14⟩] 14)).1 < 4294967296 ∧
    META_SIZE * (writerStore [⟨0, 0, 7⟩, ⟨1, 7, 14⟩]).length < 2 ^ 64 := by decide

/-! ## round 2: `get_block_with_key` on file bytes, tantivy-fst as a stated contract -/

/-- `SSTableIndex::get_block_with_key` on the bytes of a version-3 file whose index region is
`fst | written store | fst_len`: for EVERY FST answer function that meets the stated tantivy-fst
contract on the separators of the dictionary built from `m`, and the store the writer lays out
for any chained address list with one address per block, the address returned for a key is the
recorded address of the block the separator routing selects (`C15_block_routing`: the unique
block that can hold the key), `none` past the last separator. The real index (tantivy-fst + store)
is compared with this composition on every generated dictionary. -/
theorem C15_file_block_for_key {V} (blockLen : Nat) (m : Assoc V) (f : FstIndex) (hf : FstContract f)
    (hkeys : f.keys = (build blockLen m).blocks.map (·.sep)) (hmulti : (build blockLen m).single = false)
    (addrs : List BlockAddr) (hch : Chained addrs) (hok : WriterStoreOk addrs)
    (hcount : addrs.length = (build blockLen m).blocks.length)
    (data fst : List UInt8) (numTerms version : Nat)
    (hfst0 : fst.length ≠ 0) (hfst : fst.length < 18446744073709551616)
    (hdata : data.length < 18446744073709551616)
    (hn : numTerms < 18446744073709551616) (hv : version < 4294967296) (k : Key) :
    fileBlockForKey f.geFirst
        (openFile (finishFile data (fst ++ storeBytes (writerStore addrs) ++ u64enc fst.length) numTerms version)) k
      = ((build blockLen m).locateKey k).bind (fun id => addrs[id]?) :=
  file_block_for_key blockLen m f hf hkeys hmulti addrs hch hok hcount data fst numTerms version
    hfst0 hfst hdata hn hv k

example : fileBlockForKey (fun _ => some 1) (openFile (finishFile (frameBlocks [[16, 7], [16, 9]])
      ([1, 2, 3] ++ storeBytes [⟨7, 5, 1, 3, ⟨0, 0, 7⟩, [⟨1, 7, 14⟩], 14⟩] ++ u64enc 3) 2 3)) [8]
    = some ⟨1, 7, 14⟩ := by decide

/-- `Dictionary::term_ord_or_next` and `Dictionary::term_ord` composed down to the BYTES of a whole
written file with several blocks — footer, index region `fst | written store | fst_len`, FST answer
(stated contract), `get_block`, byte range of the frame, `read_block`, value block skipped,
front-coded keys decoded, `decode_up_to_or_next`, ordinal shifted by the block's first ordinal:
for every sorted map, block length, value codec whose value blocks `skip` drops, and every FST
meeting the contract on the separators, `term_ord_or_next` on the bytes is the operation of the
block model (which `C15_ops_refine_term_ord_or_next` ties to the specification) and `term_ord` on
the bytes IS the specification `termOrd m k`. -/
theorem C15_file_term_ord {V} (blockLen : Nat) (m : Assoc V) (hs : SortedMap m) (f : FstIndex)
    (hf : FstContract f) (hkeys : f.keys = (build blockLen m).blocks.map (·.sep))
    (hmulti : (build blockLen m).single = false)
    (skip : List UInt8 → List UInt8) (ps : List (List UInt8))
    (hlen : ps.length = (build blockLen m).blocks.length)
    (hskip : ∀ (i : Nat) p b, ps[i]? = some p → (build blockLen m).blocks[i]? = some b →
      skip p = encodeBlockKeys (keys b.entries))
    (hpsz : ∀ p ∈ ps, p ≠ [] ∧ p.length + 1 < 4294967296)
    (hok : WriterStoreOk (frameAddrs (keyBlocks (build blockLen m)) ps))
    (fst : List UInt8) (numTerms version : Nat)
    (hfst0 : fst.length ≠ 0) (hfst : fst.length < 18446744073709551616)
    (hdata : (frameBlocks ps).length < 18446744073709551616)
    (hn : numTerms < 18446744073709551616) (hv : version < 4294967296) (k : Key) :
    fileTermOrdOrNext f.geFirst skip
        (openFile (finishFile (frameBlocks ps)
          (fst ++ storeBytes (writerStore (frameAddrs (keyBlocks (build blockLen m)) ps)) ++ u64enc fst.length)
          numTerms version)) k
      = some ((build blockLen m).termOrdOrNext k) ∧
    fileTermOrd f.geFirst skip
        (openFile (finishFile (frameBlocks ps)
          (fst ++ storeBytes (writerStore (frameAddrs (keyBlocks (build blockLen m)) ps)) ++ u64enc fst.length)
          numTerms version)) k
      = some (termOrd m k) := by
  have h1 := file_term_ord_or_next blockLen m hs f hf hkeys hmulti skip ps hlen hskip hpsz hok fst
    numTerms version hfst0 hfst hdata hn hv k
  refine ⟨h1, ?_⟩
  unfold fileTermOrd
  rw [h1, Option.map_some, ← refine_termOrd blockLen m hs k]
  congr 1
  unfold Dict.termOrd Dict.termOrdOrNext
  cases ((build blockLen m).locateKey k).bind (build blockLen m).blockAt <;> rfl

example : fileTermOrdOrNext (fun _ => some 1) id (openFile (finishFile (frameBlocks [[16, 7], [16, 9]])
      ([1, 2, 3] ++ storeBytes [⟨7, 5, 1, 3, ⟨0, 0, 7⟩, [⟨1, 7, 14⟩], 14⟩] ++ u64enc 3) 2 3)) [9]
    = some (.exact 1) ∧
    fileTermOrd (fun _ => some 1) id (openFile (finishFile (frameBlocks [[16, 7], [16, 9]])
      ([1, 2, 3] ++ storeBytes [⟨7, 5, 1, 3, ⟨0, 0, 7⟩, [⟨1, 7, 14⟩], 14⟩] ++ u64enc 3) 2 3)) [8]
    = some none := by decide

/-- `Dictionary::get` composed down to the BYTES of a whole written file with several blocks, as
`C15_file_term_ord`: for every sorted map, block length, value codec (`skip` drops the value block
of a payload, `vals` decodes it) and every FST meeting the stated contract, `get` on the bytes IS
the specification `get m k`. -/
theorem C15_file_get {V} (blockLen : Nat) (m : Assoc V) (hs : SortedMap m) (f : FstIndex)
    (hf : FstContract f) (hkeys : f.keys = (build blockLen m).blocks.map (·.sep))
    (hmulti : (build blockLen m).single = false)
    (skip : List UInt8 → List UInt8) (vals : List UInt8 → List V) (ps : List (List UInt8))
    (hlen : ps.length = (build blockLen m).blocks.length)
    (hskip : ∀ (i : Nat) p b, ps[i]? = some p → (build blockLen m).blocks[i]? = some b →
      skip p = encodeBlockKeys (keys b.entries) ∧ vals p = b.entries.map (·.2))
    (hpsz : ∀ p ∈ ps, p ≠ [] ∧ p.length + 1 < 4294967296)
    (hok : WriterStoreOk (frameAddrs (keyBlocks (build blockLen m)) ps))
    (fst : List UInt8) (numTerms version : Nat)
    (hfst0 : fst.length ≠ 0) (hfst : fst.length < 18446744073709551616)
    (hdata : (frameBlocks ps).length < 18446744073709551616)
    (hn : numTerms < 18446744073709551616) (hv : version < 4294967296) (k : Key) :
    fileGet f.geFirst skip vals
        (openFile (finishFile (frameBlocks ps)
          (fst ++ storeBytes (writerStore (frameAddrs (keyBlocks (build blockLen m)) ps)) ++ u64enc fst.length)
          numTerms version)) k
      = some (SSTable.get m k) := by
  rw [file_get blockLen m hs f hf hkeys hmulti skip vals ps hlen hskip hpsz hok fst numTerms version
    hfst0 hfst hdata hn hv k, refine_get blockLen m hs k]

/-- the payload hypotheses are met by the monotonic-u64 codec: value block `serU64Mono`, then the
front-coded keys -/
theorem C15_file_get_u64_payload (vs : List Nat) (ksb : List Key) (hv : MonoFrom 0 vs) :
    (loadU64Mono (serU64Mono vs ++ encodeBlockKeys ksb)).2 = encodeBlockKeys ksb ∧
    (loadU64Mono (serU64Mono vs ++ encodeBlockKeys ksb)).1 = vs := by
  rw [loadU64Mono_ser vs _ hv]
  exact ⟨rfl, rfl⟩

example : fileGet (fun _ => some 1) id (fun p => (decodeBlockKeys p).map (fun _ => ()))
      (openFile (finishFile (frameBlocks [[16, 7], [16, 9]])
        ([1, 2, 3] ++ storeBytes [⟨7, 5, 1, 3, ⟨0, 0, 7⟩, [⟨1, 7, 14⟩], 14⟩] ++ u64enc 3) 2 3)) [9]
    = some (some ()) := by decide

/-- the remaining layout: files with at most one block carry no index (`fst_len = 0`,
`SSTableIndexV3Empty`). `get_block_with_key` is the one pseudo-block whatever an FST would say, and
`term_ord_or_next` / `get` on the bytes equal the block model, hence (for `get`) the specification.
Together with `C15_file_term_ord` / `C15_file_get` every dictionary the writer can produce is
covered. -/
theorem C15_small_file_key_ops {V} (blockLen : Nat) (m : Assoc V) (hs : SortedMap m)
    (hsingle : (build blockLen m).single = true)
    (geFirst : Key → Option Nat) (skip : List UInt8 → List UInt8) (vals : List UInt8 → List V)
    (ps : List (List UInt8))
    (hlen : ps.length = (build blockLen m).blocks.length)
    (hskip : ∀ (i : Nat) p b, ps[i]? = some p → (build blockLen m).blocks[i]? = some b →
      skip p = encodeBlockKeys (keys b.entries) ∧ vals p = b.entries.map (·.2))
    (hpsz : ∀ p ∈ ps, p ≠ [] ∧ p.length + 1 < 4294967296)
    (numTerms version : Nat)
    (hn : numTerms < 18446744073709551616) (hv : version < 4294967296) (k : Key) :
    fileTermOrdOrNext geFirst skip (openFile (finishFile (frameBlocks ps) (u64enc 0) numTerms version)) k
      = some ((build blockLen m).termOrdOrNext k) ∧
    fileGet geFirst skip vals (openFile (finishFile (frameBlocks ps) (u64enc 0) numTerms version)) k
      = some (SSTable.get m k) := by
  have h := small_file_key_ops blockLen m hs hsingle geFirst skip vals ps hlen hskip hpsz numTerms version hn hv k
  refine ⟨h.1, ?_⟩
  rw [h.2, refine_get blockLen m hs k]

example : fileTermOrdOrNext (fun _ => none) id (openFile (finishFile (frameBlocks [[16, 7, 17, 9]]) (u64enc 0) 2 3)) [7, 9]
      = some (.exact 1) ∧
    fileTermOrdOrNext (fun _ => none) id (openFile (finishFile (frameBlocks []) (u64enc 0) 0 3)) [7]
      = some (.next 0) := by decide

/-- instance for the real monotonic-u64 codec: payload = `serU64Mono values ++ front-coded keys`,
`skip`/`vals` = the two halves of `loadU64Mono`. `get` on the bytes of the written file is the
specification, for every sorted map whose values are non-decreasing inside each block. -/
theorem C15_u64_file_get (blockLen : Nat) (m : Assoc Nat) (hs : SortedMap m)
    (hmono : ∀ b ∈ (build blockLen m).blocks, MonoFrom 0 (b.entries.map (·.2)))
    (f : FstIndex) (hf : FstContract f) (hkeys : f.keys = (build blockLen m).blocks.map (·.sep))
    (hmulti : (build blockLen m).single = false)
    (hsize : ∀ b ∈ (build blockLen m).blocks,
      (serU64Mono (b.entries.map (·.2)) ++ encodeBlockKeys (keys b.entries)).length + 1 < 4294967296)
    (hok : WriterStoreOk (frameAddrs (keyBlocks (build blockLen m))
      ((build blockLen m).blocks.map (fun b => serU64Mono (b.entries.map (·.2)) ++ encodeBlockKeys (keys b.entries)))))
    (fst : List UInt8) (numTerms version : Nat)
    (hfst0 : fst.length ≠ 0) (hfst : fst.length < 18446744073709551616)
    (hdata : (frameBlocks ((build blockLen m).blocks.map
      (fun b => serU64Mono (b.entries.map (·.2)) ++ encodeBlockKeys (keys b.entries)))).length < 18446744073709551616)
    (hn : numTerms < 18446744073709551616) (hv : version < 4294967296) (k : Key) :
    fileGet f.geFirst (fun p => (loadU64Mono p).2) (fun p => (loadU64Mono p).1)
        (openFile (finishFile (frameBlocks ((build blockLen m).blocks.map
            (fun b => serU64Mono (b.entries.map (·.2)) ++ encodeBlockKeys (keys b.entries))))
          (fst ++ storeBytes (writerStore (frameAddrs (keyBlocks (build blockLen m))
            ((build blockLen m).blocks.map
              (fun b => serU64Mono (b.entries.map (·.2)) ++ encodeBlockKeys (keys b.entries))))) ++ u64enc fst.length)
          numTerms version)) k
      = some (SSTable.get m k) := by
  have hent : ∀ b ∈ (build blockLen m).blocks, b.entries ≠ [] := by
    intro b hb
    have hmem : b.entries ∈ (build blockLen m).blocks.map (·.entries) := List.mem_map.mpr ⟨b, hb, rfl⟩
    rw [build_blocks_eq, mkBlocks_entries] at hmem
    exact cutBlocks_nonempty _ blockLen [] 0 [] m _ hmem
  apply C15_file_get blockLen m hs f hf hkeys hmulti _ _ _ (by simp) ?_ ?_ hok fst numTerms version
    hfst0 hfst hdata hn hv k
  · intro i p b hp hb
    rw [List.getElem?_map, hb] at hp
    simp only [Option.map_some, Option.some.injEq] at hp
    subst hp
    exact C15_file_get_u64_payload _ _ (hmono b (List.mem_of_getElem? hb))
  · intro p hp
    obtain ⟨b, hb, rfl⟩ := List.mem_map.mp hp
    refine ⟨?_, hsize b hb⟩
    intro e
    have hk := encodeEntries_length_ge [] (keys b.entries)
    have hl : (serU64Mono (b.entries.map (·.2)) ++ encodeBlockKeys (keys b.entries)).length = 0 := by rw [e]; rfl
    unfold encodeBlockKeys at hl
    rw [List.length_append] at hl
    have : (keys b.entries).length = 0 := by omega
    have : b.entries.length = 0 := by simpa [keys] using this
    exact hent b hb (List.eq_nil_of_length_eq_zero this)

example : MonoFrom 0 [3, 3, 10] ∧
    (loadU64Mono (serU64Mono [3, 3, 10] ++ encodeBlockKeys [[1], [2], [3]])).1 = [3, 3, 10] ∧
    (loadU64Mono (serU64Mono [3, 3, 10] ++ encodeBlockKeys [[1], [2], [3]])).2 = encodeBlockKeys [[1], [2], [3]] :=
  ⟨by simp [MonoFrom], (C15_file_get_u64_payload _ _ (by simp [MonoFrom])).2,
   (C15_file_get_u64_payload _ _ (by simp [MonoFrom])).1⟩

/-! ## non-vacuity -/

example : StrictInc [[], [0], [0, 0], [0, 255], [1], [255, 255]] :=
  (strictIncB_iff _).mp (by decide)
example : (encodeBlocks 3 [[1], [1, 2], [1, 2, 3], [2], [9, 9, 9, 9]]).length = 3 := by decide
example : (encodeBlocks 0 [[], [1], [1, 2]]).length = 3 := by decide
example : lexLt [1, 2] [1, 2, 0] = true ∧ cpl [1, 2] [1, 2, 0] = 2 := by decide
example : encodeKeepAdd 15 15 = [255] ∧ encodeKeepAdd 2 1 = [18] := by decide
example : encodeKeepAdd 16 3 = [1, 16, 3] ∧ encodeKeepAdd 0 300 = [1, 0, 172, 2] := by
  simp [encodeKeepAdd, vintSer, Gen.FOUR_BIT_LIMITS, Gen.VINT_MODE, Gen.VINT_CONTINUE_BIT]
example : ((build 2 [([1], 10), ([1, 2], 20), ([1, 2, 3], 30), ([2], 40), ([3, 0], 50)]).blocks.map (·.sep))
    = [[1, 2], [1, 3], [3, 0]] := by decide
example : SortedMap [(([1] : Key), 10), ([1, 2], 20), ([1, 2, 3], 30), ([2], 40), ([3, 0], 50)] :=
  (strictIncB_iff _).mp (by decide)
example : (build 2 [([1], 10), ([1, 2], 20), ([1, 2, 3], 30), ([2], 40), ([3, 0], 50)]).termOrdOrNext [1, 9] = .next 3
    ∧ (build 2 [([1], 10), ([1, 2], 20), ([1, 2, 3], 30), ([2], 40), ([3, 0], 50)]).termOrdOrNext [9] = .next U64_MAX := by decide
example : (build 2 [(([1] : Key), 10), ([1, 2], 20), ([1, 2, 3], 30), ([2], 40), ([3, 0], 50)]).sortedOrdsToTerm [0, 0, 2, 3, 4, 7]
    = ([[1], [1], [1, 2, 3], [2], [3, 0]], false) := by decide
example : NoEmptyDup none [[], [1], [1, 2]] ∧ ¬ NoEmptyDup none [[], []] := by simp [NoEmptyDup]
example : writerAccepts 4 [[1], [1, 2], [1, 2, 3], [2]] = true ∧ writerAccepts 4 [[1], [1, 2], [1, 2], [2]] = false := by decide

end TantivyModel.C15
