import TantivyModel.Proofs.SSTable.Delta
/-!
# C15 — Term dictionaries behave as ordered maps from byte strings

Property theorems only (helper lemmas live in `Proofs/SSTable/`). The specification is
`Model/SSTable/Spec.lean` (a strictly increasing association list); the implementation-level
model is `Model/SSTable/{Delta,Index,Search,Merge}.lean`. External parameters: the FST that
stores the separator keys (contract: first key ≥ k), zstd, the automaton implementations.
-/
namespace TantivyModel.C15
open TantivyModel TantivyModel.SSTable

/-! ## the order of keys -/

/-- the byte-string order is a strict total order -/
theorem C15_lex_order_total :
    (∀ a : Key, lexLt a a = false) ∧
    (∀ a b c : Key, lexLt a b = true → lexLt b c = true → lexLt a c = true) ∧
    (∀ a b : Key, lexLt a b = true ∨ a = b ∨ lexLt b a = true) ∧
    (∀ a b : Key, lexLe a b = true → lexLe b a = true → a = b) :=
  ⟨lexLt_irrefl, fun _ _ _ => lexLt_trans, lexLt_trichotomy, fun _ _ => lexLe_antisymm⟩

/-- `common_prefix_len` is the length of the longest common prefix, and the order of two keys is
decided by the first byte after it — the facts `Writer::insert_key` relies on -/
theorem C15_common_prefix (a b : Key) :
    a.take (cpl a b) = b.take (cpl a b) ∧
    (∀ (ha : cpl a b < a.length) (hb : cpl a b < b.length), a[cpl a b]'ha ≠ b[cpl a b]'hb) ∧
    (lexLt a b = true ↔
      (cpl a b = a.length ∧ a.length < b.length) ∨
      (∃ (ha : cpl a b < a.length) (hb : cpl a b < b.length),
        (a[cpl a b]'ha).toNat < (b[cpl a b]'hb).toNat)) :=
  ⟨cpl_take a b, cpl_maximal a b, lexLt_iff_cpl a b⟩

/-! ## front coding -/

/-- VInt round trip for every value, whatever follows in the buffer -/
theorem C15_vint_roundtrip (n : Nat) (rest : List UInt8) :
    vintDe (vintSer n ++ rest) = ((vintSer n).length, n) := vint_roundtrip n rest

/-- under strict increase (or at a block start) no keep/add pair is `(1, 0)`, the only pair whose
one-byte form `keep | add << 4` equals the `VINT_MODE` marker; every other header reads back -/
theorem C15_keep_add_unambiguous (prev k : Key) (h : prev = [] ∨ lexLt prev k = true)
    (rest : List UInt8) :
    ¬ (cpl prev k = 1 ∧ k.length - cpl prev k = 0) ∧
    readKeepAdd (encodeKeepAdd (cpl prev k) (k.length - cpl prev k) ++ rest)
      = some (cpl prev k, k.length - cpl prev k, rest) :=
  ⟨keep_add_ne_one_zero h, readKeepAdd_encode _ _ _ (keep_add_ne_one_zero h)⟩

/-- the ambiguity is real: a key that is the one-byte prefix of its predecessor is written as the
byte `VINT_MODE` and misread -/
theorem C15_keep_add_ambiguous_counterexample :
    encodeKeepAdd (cpl [7, 8] [7]) ([7].length - cpl [7, 8] [7]) = [UInt8.ofNat Gen.VINT_MODE] ∧
    decodeBlockKeys (encodeBlockKeys [[7, 8], [7]]) ≠ [[7, 8], [7]] := by decide

/-- for every strictly increasing key list and every block length (0 = one key per block)
the blocks the writer cuts decode back to the key list -/
theorem C15_delta_roundtrip (blockLen : Nat) (ks : List Key) (h : StrictInc ks) :
    decodeBlocks (encodeBlocks blockLen ks) = ks := by
  unfold decodeBlocks encodeBlocks
  have hfl := blocksOf_flatten (id : Key → Key) blockLen ks
  have hall : ∀ b ∈ blocksOf id blockLen ks, StrictInc b :=
    strictInc_of_mem_flatten (by rw [hfl]; exact h)
  rw [List.map_map]
  have : (blocksOf id blockLen ks).map (decodeBlockKeys ∘ encodeBlockKeys) = blocksOf id blockLen ks := by
    rw [List.map_congr_left (g := id)]
    · simp
    · intro b hb; exact decodeBlockKeys_encode b (hall b hb)
  rw [this, hfl]

/-- the blocks partition the key list, in order, and no block is empty -/
theorem C15_blocks_partition {α} (key : α → Key) (blockLen : Nat) (xs : List α) :
    (blocksOf key blockLen xs).flatten = xs ∧ ∀ b ∈ blocksOf key blockLen xs, b ≠ [] :=
  ⟨blocksOf_flatten key blockLen xs, cutBlocks_nonempty key blockLen [] 0 [] xs⟩

/-! ## insertion order (DESIGN §8, F6) -/

/-- FALSE as a universal statement: "every sequence the writer accepts is strictly increasing".
Inserting the empty key twice is accepted (`previous_key.is_empty()` short-circuits the test). -/
theorem C15_duplicate_empty_key_counterexample :
    writerAccepts Gen.BLOCK_LEN [[], []] = true ∧ strictIncB [[], []] = false ∧
    writerAccepts 1 [[], [], [1]] = true ∧
    -- with one key per block the block-boundary assert does catch it
    writerAccepts 0 [[], []] = false := by decide

/-! ## non-vacuity -/

example : StrictInc [[], [0], [0, 0], [0, 255], [1], [255, 255]] :=
  (strictIncB_iff _).mp (by decide)
example : (encodeBlocks 3 [[1], [1, 2], [1, 2, 3], [2], [9, 9, 9, 9]]).length = 3 := by decide
example : (encodeBlocks 0 [[], [1], [1, 2]]).length = 3 := by decide
example : lexLt [1, 2] [1, 2, 0] = true ∧ cpl [1, 2] [1, 2, 0] = 2 := by decide
example : encodeKeepAdd 15 15 = [255] ∧ encodeKeepAdd 2 1 = [18] := by decide
example : encodeKeepAdd 16 3 = [1, 16, 3] ∧ encodeKeepAdd 0 300 = [1, 0, 172, 2] := by
  simp [encodeKeepAdd, vintSer, Gen.FOUR_BIT_LIMITS, Gen.VINT_MODE, Gen.VINT_CONTINUE_BIT]
example : writerAccepts 4 [[1], [1, 2], [1, 2, 3], [2]] = true ∧ writerAccepts 4 [[1], [1, 2], [1, 2], [2]] = false := by decide

end TantivyModel.C15
