import TantivyModel.Proofs.TopNHeap
import TantivyModel.Proofs.Wand
import TantivyModel.Proofs.PruneEarly
import TantivyModel.Proofs.WandMachine
import TantivyModel.Proofs.Bm25Q
import TantivyModel.Proofs.BlockWandMain
import TantivyModel.Proofs.BlockWandInter
import TantivyModel.Proofs.LexOrder
import TantivyModel.Proofs.LazyKey
import TantivyModel.Proofs.WandHeap
import TantivyModel.Proofs.BlockWandInterTotal
import TantivyModel.Proofs.BlockWandTotalG
import TantivyModel.Proofs.BlockMaxPair
import TantivyModel.Proofs.LazyConvert
import TantivyModel.Proofs.Comparators
/-!
# C06 — Top-K collection returns exactly the best K, with deterministic ties

Property theorems only. `gt` is the strict part of the comparator (`compare(a,b) == Greater`),
assumed to be a strict weak order (`StrictWeak`); `sel` is `select_nth_unstable_by`, assumed to
satisfy its documented contract (`SelectNth`); both are universally quantified.

## What the model assumes about keys (NaN, the `Score::MIN` sentinel)

* Every theorem about an order takes `hgt : StrictWeak gt`. For integer, date, string keys and
  for floats WITHOUT NaN the comparators of `order.rs` are strict weak orders. With a NaN key
  `NaturalComparator::compare = partial_cmp(..).unwrap_or(Equal)` makes NaN "equal" to every
  key; incomparability is then not transitive (`1 ~ NaN ~ 2` but `1 < 2`) and `StrictWeak` is
  FALSE. Nothing is claimed about the ORDER of a result containing NaN keys; the harness (part D)
  still checks no panic / result size / no duplicates / true keys, and found the std sorts of
  the collector panicking on the inconsistent comparator (known finding
  `C06:nan-sort-key-sort-panics`); a NaN threshold rejecting every later, strictly better
  comparable document is reported as an observation.
* The threshold of the pruning callback is an `Option` here: `none` = "nothing to beat"
  (`above gt k none = true`). The code uses the value `Score::MIN` (= `f32::MIN`) for `none` and
  the strict test `score > threshold`, so the two agree exactly for scores `> f32::MIN`. A score
  equal to `f32::MIN`, `-∞` or NaN is never offered by `for_each_pruning(Score::MIN, ..)`: such
  documents are outside the model and missing from the real result (known finding
  `C06:score-not-above-f32-min-never-collected`).
* In the integer-score WAND theorems a threshold is a `Nat`, a document with total score 0 does
  not match, and `θ₀ = 0` plays the role of the sentinel: positive scores only.
-/
namespace TantivyModel.C06
open TantivyModel TantivyModel.TopN List

variable {α : Type}

theorem topK_zero {β : Type} (le : β → β → Bool) (K : Nat) (l : List β) :
    topK le K 0 l = (isort le l).take K := by simp [topK]

/-- `TopNComputer`: for every comparator, every K, every push sequence in ascending address order
and every behaviour of `select_nth` satisfying its contract, `into_sorted_vec` is exactly the best
K in `(key desc, address asc)` order — and the code never hits the out-of-bounds panic. -/
theorem C06_topn_computer (gt : α → α → Bool) (hgt : StrictWeak gt) (K : Nat)
    (sel : List (Entry α) → List (Entry α)) (hsel : SelectNth gt K sel)
    (xs : List (Entry α)) (hasc : AddrAsc xs) :
    intoSortedVec gt sel (pushAll gt sel (Computer.new K) xs) = topK (le gt) K 0 xs ∧
      (pushAll gt sel (Computer.new K) xs).panicked = false := by
  have hinv := inv_pushAll hgt hsel xs [] (Computer.new K) (inv_new gt K) (by simpa using hasc)
  simp only [nil_append] at hinv
  refine ⟨?_, hinv.noPanic⟩
  rw [topK_zero]
  exact (intoVec_spec hgt hsel hinv).1

/-- the pruning threshold of `TopNComputer`, when set, is the key of an already pushed document
that at least K buffered documents precede: documents not above it can never enter the top K. -/
theorem C06_topn_threshold (gt : α → α → Bool) (hgt : StrictWeak gt) (K : Nat)
    (sel : List (Entry α) → List (Entry α)) (hsel : SelectNth gt K sel)
    (xs : List (Entry α)) (hasc : AddrAsc xs) (t : α)
    (ht : (pushAll gt sel (Computer.new K) xs).threshold = some t) :
    ∃ d, d ∈ xs ∧ d.key = t ∧
      K ≤ (pushAll gt sel (Computer.new K) xs).buffer.countP (fun x => le gt x d) := by
  have hinv := inv_pushAll hgt hsel xs [] (Computer.new K) (inv_new gt K) (by simpa using hasc)
  simp only [nil_append] at hinv
  exact hinv.thr t ht

/-- `TopNHeap` (collection by score): the heap holds exactly the best K after every push
sequence in ascending doc order. -/
theorem C06_heap_topk (gt : α → α → Bool) (hgt : StrictWeak gt) (K : Nat)
    (xs : List (Entry α)) (hasc : AddrAsc xs) :
    (xs.foldl (heapPush gt) (Heap.new K)).heap = topK (le gt) K 0 xs := by
  have h := hinv_pushAll hgt xs [] (Heap.new K) (hinv_new gt K) (by simpa using hasc)
  simp only [nil_append] at h
  rw [topK_zero]; exact h.heap

/-- Pruning is sound: a driver (block-max WAND, …) that only ever skips documents whose key is
not above the threshold returned by the last callback (`skipsBelow`) leaves in the heap exactly
the best K of the live documents — the same as exhaustive scoring. -/
theorem C06_pruning_sound (gt : α → α → Bool) (hgt : StrictWeak gt) (K : Nat)
    (cs : List (Cand α × Bool))
    (hasc : AddrAsc (((cs.map (·.1)).filter (·.alive)).map (·.entry)))
    (hskip : skipsBelow gt (Heap.new K, none) cs = true) :
    (prunedRun gt (Heap.new K, none) cs).1.heap
      = topK (le gt) K 0 (((cs.map (·.1)).filter (·.alive)).map (·.entry)) := by
  rw [prunedRun_eq_forEach gt cs _ hskip,
    forEachPruning_eq_pushAll gt _ _ ⟨heapWf_new K, rfl⟩]
  exact C06_heap_topk gt hgt K _ hasc

/-- Pruning with EARLY justifications is sound too (this is the shape of WAND's skips: a document
is passed over while smaller documents are still to be scored, on the strength of a bound that was
not above the threshold *then*): because `TopNHeap`'s threshold never decreases, a driver whose
every skipped document was not above the current threshold or one in force earlier in the same
run still leaves exactly the best K of the live documents in the heap. -/
theorem C06_pruning_sound_early (gt : α → α → Bool) (hgt : StrictWeak gt) (K : Nat)
    (cs : List (Cand α × Bool)) (hasc : AddrAsc (cs.map (·.1.entry)))
    (hskip : skipsBelowEarly gt (Heap.new K, none) [] cs = true) :
    (prunedRun gt (Heap.new K, none) cs).1.heap
      = topK (le gt) K 0 (((cs.map (·.1)).filter (·.alive)).map (·.entry)) := by
  have hs : skipsBelow gt (Heap.new K, none) cs = true :=
    skipsBelow_of_early hgt cs [] (Heap.new K, none) []
      ⟨hinv_new gt K, heapWf_new K, rfl, by simp⟩ (by simpa using hasc) hskip
  refine C06_pruning_sound gt hgt K cs ?_ hs
  refine Pairwise.sublist ?_ hasc
  have : (cs.map (·.1.entry)) = ((cs.map (·.1)).map (·.entry)) := by simp
  rw [this]
  exact Sublist.map _ (filter_sublist)

/-- the collector's threshold never decreases (what makes early justifications valid) -/
theorem C06_threshold_monotone (gt : α → α → Bool) (hgt : StrictWeak gt) (K : Nat)
    (xs : List (Entry α)) (hasc : AddrAsc xs) (e : Entry α) :
    thrLe gt (xs.foldl (heapPush gt) (Heap.new K)).threshold
      (heapPush gt (xs.foldl (heapPush gt) (Heap.new K)) e).threshold := by
  have h := hinv_pushAll hgt xs [] (Heap.new K) (hinv_new gt K) (by simpa using hasc)
  simp only [nil_append] at h
  exact heapPush_thr_mono hgt h

/-- the exhaustive driver is the special case "nothing skipped" -/
theorem C06_exhaustive_is_pruned (gt : α → α → Bool) (st : Heap α × Option α) (cs : List (Cand α)) :
    prunedRun gt st (cs.map (fun c => (c, false))) = forEachPruning gt st cs := by
  have h : skipsBelow gt st (cs.map (fun c => (c, false))) = true := by
    induction cs generalizing st with
    | nil => rfl
    | cons c cs ih => simp only [map_cons, skipsBelow]; exact ih _
  rw [prunedRun_eq_forEach gt _ st h]; simp [Function.comp_def]

/-- `merge_top_k` + offset (the code as fixed: all per-segment fruits sorted by `(key desc,
address asc)`, then `skip(O).take(K)`): if every per-segment fruit has the same best `O+K` as its
segment (which `C06_topn_computer` / `C06_heap_topk` give), the result is entries `O .. O+K` of
the global order — any number of segments, the fruits in ANY order (`into_vec()` / heap order).
Before the fix this needed the fruits in ascending address order and was false without it:
`C06_merge_unsorted_counterexample`. -/
theorem C06_merge_offset (gt : α → α → Bool) (hgt : StrictWeak gt) (K O : Nat)
    (fruits segs : List (List (Entry α)))
    (hfr : TopN.Forall₂ (fun f d => (isort (le gt) f).take (O + K) = (isort (le gt) d).take (O + K))
      fruits segs)
    (hndf : AddrNodup fruits.flatten) (hnd : AddrNodup segs.flatten) :
    mergeTopK gt K O fruits = topK (le gt) K O segs.flatten := by
  unfold mergeTopK
  split
  · rename_i hK; subst hK; simp [topK]
  · have e : ∀ X : List (Entry α), ((isort (le gt) X).drop O).take K = ((isort (le gt) X).take (O + K)).drop O := by
      intro X; rw [drop_take]; congr 1; omega
    unfold topK
    rw [e, e, takeN_isort_flatten hgt (O + K) hfr hndf hnd]

/-- Tuple sort keys (`TopDocs::order_by((k1, k2, …))`, any nesting, any order per component): the
comparator of a pair is `c1.compare(..).then_with(|| c2.compare(..))` (`lexGt`), 3- and 4-tuples
are chains of pairs; if the components' comparators are strict weak orders so is the tuple's,
hence every theorem of this file applies to tuple keys. (That the collector really USES the
components' comparators is the harness's business: the 4-tuple implementation does not forward
`comparator()` — known finding `C06:four-tuple-sort-key-ignores-orders`.) -/
theorem C06_tuple_key_strictWeak {β : Type} (g₁ : α → α → Bool) (g₂ : β → β → Bool)
    (h₁ : StrictWeak g₁) (h₂ : StrictWeak g₂) : StrictWeak (lexGt g₁ g₂) :=
  h₁.lex h₂

/-! ## tuple sort keys: the lazy, component-by-component evaluation -/

/-- `accept_sort_key_lazy` of a chained tuple `(Head, Tail)` (the head decides unless it ties with
the threshold's head, giving up as soon as a component is `Less`) returns exactly what the full
comparison `compare_segment_sort_key` = `head.then_with(tail)` returns — PROVIDED each component's
acceptor is faithful to that component's OWN comparator. By nesting, every tuple
`(k1, (k2, (k3, …)))` — hence 3- and 4-tuples, which are such chains behind an adapter that must
forward `accept_sort_key_lazy` — evaluates lazily to the full lexicographic comparison with the
requested order of every component. (The seeded change C06-C made the adapter fall back to the
default acceptor with NATURAL comparators: `C06_lazy_accept_needs_component_comparators`.) -/
theorem C06_lazy_accept_agrees {κ₁ κ₂ : Type} (a₁ : κ₁ → κ₁ → Option (Ordering × κ₁))
    (a₂ : κ₂ → κ₂ → Option (Ordering × κ₂)) (c₁ : κ₁ → κ₁ → Ordering) (c₂ : κ₂ → κ₂ → Ordering)
    (h₁ : Faithful a₁ c₁) (h₂ : Faithful a₂ c₂) : Faithful (acceptPair a₁ a₂) (lexCmp c₁ c₂) :=
  faithful_pair h₁ h₂

/-- a chain of three components (descending, ascending, descending) evaluated lazily -/
example : Faithful
    (acceptPair (acceptLeaf (fun a b : Nat => compare a b))
      (acceptPair (acceptLeaf (fun a b : Nat => compare b a)) (acceptLeaf (fun a b : Nat => compare a b))))
    (lexCmp (fun a b : Nat => compare a b) (lexCmp (fun a b : Nat => compare b a) (fun a b : Nat => compare a b))) :=
  C06_lazy_accept_agrees _ _ _ _ (faithful_leaf _) (C06_lazy_accept_agrees _ _ _ _ (faithful_leaf _) (faithful_leaf _))

/-- an acceptor that compares with the natural order is NOT faithful to an ascending component:
key 1 against threshold 5 is `Less` naturally (rejected) but `Greater` in ascending order -/
theorem C06_lazy_accept_needs_component_comparators :
    ¬ Faithful (acceptLeaf (fun a b : Nat => compare a b)) (fun a b : Nat => compare b a) := by
  intro h
  have := h 1 5
  revert this
  decide

/-- the pair's `Greater` is the lexicographic combination `lexGt` of the components' `Greater`
(given the head comparator's swap law), so `C06_tuple_key_strictWeak` speaks about it -/
theorem C06_tuple_compare_is_lex {κ₁ κ₂ : Type} (c₁ : κ₁ → κ₁ → Ordering) (c₂ : κ₂ → κ₂ → Ordering)
    (hsw : ∀ a b, c₁ b a = .gt ↔ c₁ a b = .lt) (a b : κ₁ × κ₂) :
    gtOf (lexCmp c₁ c₂) a b = lexGt (gtOf c₁) (gtOf c₂) a b :=
  gtOf_lexCmp c₁ c₂ hsw a b

example : gtOf (lexCmp (fun a b : Nat => compare a b) (fun a b : Nat => compare b a)) (3, 1) (3, 2) = true := by decide

/-- `compute_sort_key_and_collect` for tuples: documents pushed in ascending doc id through the
lazy acceptor (which, unlike `TopNComputer::push`, also lets keys EQUAL to the threshold in) still
leave exactly the best K in the `TopNComputer`, and never hit its out-of-bounds panic — for every
faithful acceptor, every comparator whose `Greater` is a strict weak order, every behaviour of
`select_nth` satisfying its contract. -/
theorem C06_lazy_tuple_collect {κ : Type} (cmp : κ → κ → Ordering) (hgt : StrictWeak (gtOf cmp)) (K : Nat)
    (sel : List (Entry κ) → List (Entry κ)) (hsel : SelectNth (gtOf cmp) K sel)
    (accept : κ → κ → Option (Ordering × κ)) (hacc : Faithful accept cmp)
    (xs : List (Entry κ)) (hasc : AddrAsc xs) :
    intoSortedVec (gtOf cmp) sel (xs.foldl (collectLazy accept sel) (Computer.new K))
        = topK (le (gtOf cmp)) K 0 xs ∧
      (xs.foldl (collectLazy accept sel) (Computer.new K)).panicked = false := by
  have hinv := inv_collectLazyAll hgt hsel hacc xs [] (Computer.new K) (inv_new _ K) (by simpa using hasc)
  simp only [nil_append] at hinv
  refine ⟨?_, hinv.noPanic⟩
  rw [topK_zero]
  exact (intoVec_spec hgt hsel hinv).1

/-- five documents with pair keys (first descending, second ascending), K = 1: the lazy path
keeps (7, 0) at address 3 -/
example : intoSortedVec (gtOf (lexCmp (fun a b : Nat => compare a b) (fun a b : Nat => compare b a)))
    (selSorted (gtOf (lexCmp (fun a b : Nat => compare a b) (fun a b : Nat => compare b a))))
    ([⟨(5, 1), 0⟩, ⟨(7, 2), 1⟩, ⟨(5, 0), 2⟩, ⟨(7, 0), 3⟩, ⟨(7, 1), 4⟩].foldl
      (collectLazy (acceptPair (acceptLeaf (fun a b : Nat => compare a b)) (acceptLeaf (fun a b : Nat => compare b a)))
        (selSorted (gtOf (lexCmp (fun a b : Nat => compare a b) (fun a b : Nat => compare b a)))))
      (Computer.new 1)) = [⟨(7, 0), 3⟩] := by decide

/-- end to end through the LAZY tuple path (`TopDocs::order_by` with a tuple key): every segment's
documents go through `compute_sort_key_and_collect` of the chained tuple (lazy acceptance against
the `TopNComputer`'s threshold), the fruit is `into_vec()`, and `merge_top_k` + offset returns
entries `O .. O+K` of the global order under the tuple's comparator — for every faithful acceptor
(`C06_lazy_accept_agrees`), any number of segments. -/
theorem C06_search_lazy_tuple {κ : Type} (cmp : κ → κ → Ordering) (hgt : StrictWeak (gtOf cmp)) (K O : Nat)
    (sel : List (Entry κ) → List (Entry κ)) (hsel : SelectNth (gtOf cmp) (O + K) sel)
    (accept : κ → κ → Option (Ordering × κ)) (hacc : Faithful accept cmp)
    (segs : List (List (Entry κ))) (hseg : ∀ d, d ∈ segs → AddrAsc d) (hnd : AddrNodup segs.flatten) :
    mergeTopK (gtOf cmp) K O (segs.map fun d => intoVec sel (d.foldl (collectLazy accept sel) (Computer.new (O + K))))
      = topK (le (gtOf cmp)) K O segs.flatten := by
  have hall : TopN.Forall₂ (fun f d => ((isort (le (gtOf cmp)) f).take (O + K) = (isort (le (gtOf cmp)) d).take (O + K)) ∧
      (∀ x, x ∈ f → x ∈ d) ∧ AddrNodup f)
      (segs.map fun d => intoVec sel (d.foldl (collectLazy accept sel) (Computer.new (O + K)))) segs := by
    apply forall₂_map_left
    intro d hd
    have hinv := inv_collectLazyAll hgt hsel hacc d [] (Computer.new (O + K)) (inv_new _ _)
      (by simpa using hseg d hd)
    simp only [nil_append] at hinv
    obtain ⟨h1, h2, h3⟩ := intoVec_spec hgt hsel hinv
    exact ⟨by rw [h1, take_take]; simp, h2, h3⟩
  exact C06_merge_offset (gtOf cmp) hgt K O _ segs (hall.imp fun _ _ h => h.1)
    (addrNodup_flatten_of_sub (hall.imp fun _ _ h => h.2) hnd) hnd

/-- two segments, pair keys (first descending, second ascending), K = 2, offset 1 -/
example : mergeTopK (gtOf (lexCmp (fun a b : Nat => compare a b) (fun a b : Nat => compare b a))) 2 1
    ([[⟨(5, 1), 0⟩, ⟨(7, 2), 1⟩, ⟨(5, 0), 2⟩], [⟨(7, 0), 100⟩, ⟨(7, 1), 101⟩]].map fun d =>
      intoVec (selSorted (gtOf (lexCmp (fun a b : Nat => compare a b) (fun a b : Nat => compare b a))))
        (d.foldl (collectLazy (acceptPair (acceptLeaf (fun a b : Nat => compare a b)) (acceptLeaf (fun a b : Nat => compare b a)))
          (selSorted (gtOf (lexCmp (fun a b : Nat => compare a b) (fun a b : Nat => compare b a))))) (Computer.new (1 + 2))))
    = [⟨(7, 1), 101⟩, ⟨(7, 2), 1⟩] := by decide

/-- `convert_segment_sort_key` of a tuple: the pair converts component-wise; if each component's
conversion preserves its comparator ("must be consistent with the `SortKey` ordering") the pair's
conversion preserves the lexicographic comparator — any nesting by iteration; the shapes of
`convert_segment_sort_key` for `(Head, Tail)` and for the adapter are checked by the extractor
(`Gen.LAZY_TUPLE_SHAPE`). -/
theorem C06_convert_pair_order {κ₁ κ₂ ν₁ ν₂ : Type} (s₁ : κ₁ → κ₁ → Ordering) (s₂ : κ₂ → κ₂ → Ordering)
    (c₁ : ν₁ → ν₁ → Ordering) (c₂ : ν₂ → ν₂ → Ordering) (f₁ : κ₁ → ν₁) (f₂ : κ₂ → ν₂)
    (h₁ : OrderEmb s₁ c₁ f₁) (h₂ : OrderEmb s₂ c₂ f₂) :
    OrderEmb (lexCmp s₁ s₂) (lexCmp c₁ c₂) (convertPair f₁ f₂) :=
  convertPair_emb h₁ h₂

/-- the 3-tuple adapter's map `|(a, (b, c))| (a, b, c)` carries the chain's comparator to the
3-tuple comparator `(C1, C2, C3)` of `order.rs` -/
theorem C06_tuple3_adapter_order {α₁ α₂ α₃ : Type} (c₁ : α₁ → α₁ → Ordering) (c₂ : α₂ → α₂ → Ordering)
    (c₃ : α₃ → α₃ → Ordering) :
    OrderEmb (lexCmp c₁ (lexCmp c₂ c₃)) (tripleCmp c₁ c₂ c₃) (fun k : α₁ × (α₂ × α₃) => (k.1, k.2.1, k.2.2)) :=
  triple_adapter_emb c₁ c₂ c₃

example : OrderEmb (lexCmp (fun a b : Nat => compare a b) (fun a b : Nat => compare b a))
    (lexCmp (fun a b : Int => compare a b) (fun a b : Int => compare b a))
    (convertPair (fun n : Nat => (n : Int)) (fun n : Nat => (n : Int))) :=
  C06_convert_pair_order _ _ _ _ _ _ (fun a b => by simp [compare, compareOfLessAndEq])
    (fun a b => by simp [compare, compareOfLessAndEq])

/-- the lazy tuple path end to end INCLUDING the conversion: segments collected on segment keys
through the lazy acceptor, fruits converted with an order-preserving `convert_segment_sort_key`,
merged with the collector's comparator on the FINAL keys = the page of the converted documents. -/
theorem C06_search_lazy_tuple_converted {κ ν : Type} (cmpSeg : κ → κ → Ordering) (cmp : ν → ν → Ordering)
    (conv : κ → ν) (hconv : OrderEmb cmpSeg cmp conv) (hgt : StrictWeak (gtOf cmpSeg)) (K O : Nat)
    (sel : List (Entry κ) → List (Entry κ)) (hsel : SelectNth (gtOf cmpSeg) (O + K) sel)
    (accept : κ → κ → Option (Ordering × κ)) (hacc : Faithful accept cmpSeg)
    (segs : List (List (Entry κ))) (hseg : ∀ d, d ∈ segs → AddrAsc d) (hnd : AddrNodup segs.flatten) :
    mergeTopK (gtOf cmp) K O
        ((segs.map fun d => intoVec sel (d.foldl (collectLazy accept sel) (Computer.new (O + K)))).map
          (List.map (convEntry conv)))
      = topK (le (gtOf cmp)) K O (segs.flatten.map (convEntry conv)) := by
  rw [mergeTopK_map hconv, C06_search_lazy_tuple cmpSeg hgt K O sel hsel accept hacc segs hseg hnd,
    topK_map (le (gtOf cmpSeg)) (le (gtOf cmp)) (convEntry conv) (le_convEntry hconv)]

/-! ## the comparators of `order.rs`: the hypothesis `StrictWeak` is derived -/

/-- Every comparator `TopDocs` can be given on an optional (fast-field) key — `NaturalComparator`,
`ReverseComparator`, `ReverseNoneIsLowerComparator`, `NaturalNoneIsHigherComparator`, and what
`Order::Asc` / `Order::Desc` turn into (`impl From<Order> for ComparatorEnum`) — is a strict weak
order as soon as the value type's own comparison is one (integers, dates, strings; floats without
NaN). With `C06_tuple_key_strictWeak` this covers tuples of any nesting: the hypothesis `hgt` of
the collector theorems is no assumption for these key types. The shapes of the four `compare`
functions and of the `From<Order>` impl are checked by the extractor (`Gen.COMPARATOR_SHAPE`). -/
theorem C06_comparators_strictWeak {τ : Type} (c : τ → τ → Ordering) (h : StrictWeak (gtOf c)) :
    StrictWeak (gtOf (natOpt c)) ∧ StrictWeak (gtOf (revOpt c)) ∧ StrictWeak (gtOf (revNoneLower c)) ∧
      StrictWeak (gtOf (natNoneHigher c)) ∧ ∀ asc, StrictWeak (gtOf (ofOrder asc c)) :=
  ⟨natOpt_strictWeak h, revOpt_strictWeak h, revNoneLower_strictWeak h, natNoneHigher_strictWeak h,
    ofOrder_strictWeak h⟩

/-- `None` is last in both directions: ascending `[Some 1, Some 2, None]`, descending `[Some 2, Some 1, None]` -/
example : isort (le (gtOf (ofOrder true (fun a b : Nat => compare a b)))) [⟨none, 0⟩, ⟨some 2, 1⟩, ⟨some 1, 2⟩]
    = [⟨some 1, 2⟩, ⟨some 2, 1⟩, ⟨none, 0⟩] := by decide
example : isort (le (gtOf (ofOrder false (fun a b : Nat => compare a b)))) [⟨none, 0⟩, ⟨some 1, 1⟩, ⟨some 2, 2⟩]
    = [⟨some 2, 2⟩, ⟨some 1, 1⟩, ⟨none, 0⟩] := by decide

/-- … and a PAIR of fast-field keys with an order each is a strict weak order as well (the head's
swap law holds for these comparators), so the same goes for tuples -/
theorem C06_pair_of_orders_strictWeak (a₁ a₂ : Bool) :
    StrictWeak (gtOf (lexCmp (ofOrder a₁ (fun a b : Nat => compare a b)) (ofOrder a₂ (fun a b : Nat => compare a b)))) := by
  have hfun : gtOf (lexCmp (ofOrder a₁ (fun a b : Nat => compare a b)) (ofOrder a₂ (fun a b : Nat => compare a b)))
      = lexGt (gtOf (ofOrder a₁ (fun a b : Nat => compare a b))) (gtOf (ofOrder a₂ (fun a b : Nat => compare a b))) := by
    funext x y
    exact gtOf_lexCmp _ _ (fun a b => ofOrder_nat_swap a₁ a b) x y
  rw [hfun]
  exact (ofOrder_strictWeak natCompare_strictWeak a₁).lex (ofOrder_strictWeak natCompare_strictWeak a₂)

/-- the 4-tuple adapter's map `|(a, (b, (c, d)))| (a, b, c, d)` carries the chain comparator to the
4-tuple comparator of `order.rs` -/
theorem C06_tuple4_adapter_order {α₁ α₂ α₃ α₄ : Type} (c₁ : α₁ → α₁ → Ordering) (c₂ : α₂ → α₂ → Ordering)
    (c₃ : α₃ → α₃ → Ordering) (c₄ : α₄ → α₄ → Ordering) :
    OrderEmb (lexCmp c₁ (lexCmp c₂ (lexCmp c₃ c₄)))
      (fun x y : α₁ × α₂ × α₃ × α₄ => (c₁ x.1 y.1).then ((c₂ x.2.1 y.2.1).then ((c₃ x.2.2.1 y.2.2.1).then (c₄ x.2.2.2 y.2.2.2))))
      (fun k : α₁ × (α₂ × (α₃ × α₄)) => (k.1, k.2.1, k.2.2.1, k.2.2.2)) := by
  intro a b; rfl

/-- associativity of the merge: the best N of a union only depend on the best N of each part,
whatever the grouping (segments, threads). -/
theorem C06_merge_any_grouping (gt : α → α → Bool) (hgt : StrictWeak gt) (N : Nat)
    (A B : List (Entry α)) (hn : AddrNodup (A ++ B)) :
    topK (le gt) N 0 (A ++ B) = topK (le gt) N 0 (topK (le gt) N 0 A ++ topK (le gt) N 0 B) := by
  have hle := le_totalPreorder hgt
  simp only [topK_zero]
  have hn1 : AddrNodup ((isort (le gt) A).take N ++ B) := addrNodup_take_isort_append hn N
  have hn2 : AddrNodup ((isort (le gt) B).take N ++ (isort (le gt) A).take N) :=
    addrNodup_take_isort_append (hn1.perm perm_append_comm) N
  have hn3 : AddrNodup ((isort (le gt) A).take N ++ (isort (le gt) B).take N) :=
    hn2.perm perm_append_comm
  have idem : ∀ (X : List (Entry α)), AddrNodup X →
      (isort (le gt) ((isort (le gt) X).take N)).take N = (isort (le gt) X).take N := by
    intro X hX
    have : AddrNodup ((isort (le gt) X).take N) :=
      (hX.perm (isort_perm X).symm).sublist (take_sublist _ _)
    rw [isort_of_sorted hle (this.antisym hgt) ((isort_sorted hle X).take N), take_take]
    simp
  exact takeN_isort_congr hgt N
    (idem A (hn.sublist (sublist_append_left _ _))).symm
    (idem B (hn.sublist (sublist_append_right _ _))).symm hn hn3

/-- the result does not depend on the order in which documents are enumerated -/
theorem C06_topk_perm (gt : α → α → Bool) (hgt : StrictWeak gt) (K O : Nat)
    (l₁ l₂ : List (Entry α)) (hn : AddrNodup l₁) (hp : l₁ ~ l₂) :
    topK (le gt) K O l₁ = topK (le gt) K O l₂ := by
  unfold topK
  rw [isort_eq_of_perm (le_totalPreorder hgt) (hn.antisym hgt) hp]

/-- end-to-end model (`Searcher::search` with a generic sort key): per-segment `TopNComputer`
(documents pushed in ascending doc id, fruit = `into_vec()`), `merge_top_k`, offset = entries
`O .. O+K` of the global order. -/
theorem C06_search (gt : α → α → Bool) (hgt : StrictWeak gt) (K O : Nat)
    (sel : List (Entry α) → List (Entry α)) (hsel : SelectNth gt (O + K) sel)
    (segs : List (List (Entry α))) (hseg : ∀ d, d ∈ segs → AddrAsc d)
    (hnd : AddrNodup segs.flatten) :
    search gt sel K O segs = topK (le gt) K O segs.flatten := by
  unfold search
  have hall : TopN.Forall₂ (fun f d => ((isort (le gt) f).take (O + K) = (isort (le gt) d).take (O + K)) ∧
      (∀ x, x ∈ f → x ∈ d) ∧ AddrNodup f) (segs.map (collectSegment gt sel (O + K))) segs := by
    apply forall₂_map_left
    intro d hd
    have hinv := inv_pushAll hgt hsel d [] (Computer.new (O + K)) (inv_new gt _)
      (by simpa using hseg d hd)
    simp only [nil_append] at hinv
    unfold collectSegment
    obtain ⟨h1, h2, h3⟩ := intoVec_spec hgt hsel hinv
    exact ⟨by rw [h1, take_take]; simp, h2, h3⟩
  exact C06_merge_offset gt hgt K O _ segs (hall.imp fun _ _ h => h.1)
    (addrNodup_flatten_of_sub (hall.imp fun _ _ h => h.2) hnd) hnd

/-- `TopDocs::order_by_fast_field(field, order)` on a `u64` field, end to end, with NO hypothesis on
the comparator left: per-segment `TopNComputer`, `merge_top_k`, offset = entries `O .. O+K` of the
global order `(value asc/desc, None last, address asc)`. -/
theorem C06_search_fast_field_order (asc : Bool) (K O : Nat)
    (sel : List (Entry (Option Nat)) → List (Entry (Option Nat)))
    (hsel : SelectNth (gtOf (ofOrder asc (fun a b : Nat => compare a b))) (O + K) sel)
    (segs : List (List (Entry (Option Nat)))) (hseg : ∀ d, d ∈ segs → AddrAsc d) (hnd : AddrNodup segs.flatten) :
    search (gtOf (ofOrder asc (fun a b : Nat => compare a b))) sel K O segs
      = topK (le (gtOf (ofOrder asc (fun a b : Nat => compare a b)))) K O segs.flatten :=
  C06_search _ (ofOrder_strictWeak natCompare_strictWeak asc) K O sel hsel segs hseg hnd

/-- the live documents of a segment, as entries -/
def aliveEntries (cs : List (Cand α × Bool)) : List (Entry α) :=
  ((cs.map (·.1)).filter (·.alive)).map (·.entry)

/-
FULL STATEMENT (now proved further below for integer scores: `C06_search_end_to_end` with
`C06_wand_union_collects_topk` / `C06_wand_intersection_collects_topk`) — the same with `runs` replaced by the real
drivers: for every segment the run of `Weight::for_each_pruning` (`block_wand_single_scorer`,
`block_wand`, `block_wand_intersection`, `for_each_pruning_scorer`) on the segment's scorers with
the `TopNHeap` callback. The link is proved at the level of the drivers' final states
(`C06_wand_single_skipsBelow`, `C06_wand_union_skipsBelow`: equal to the exhaustive loop for every
callback with non-decreasing thresholds, GIVEN `UB_max` / `UB_block`), and `C06_threshold_monotone`
says the `TopNHeap` callback is such a callback; what is not formalised is the translation between
the two callback vocabularies (`σ × Nat` with integer scores there, `Heap α × Option α` with an
abstract key here). In the theorem below a driver is therefore represented by WHICH documents it
skipped, and the bound hypotheses enter as `hskip`.
-/
/-- End to end, score path (`TopDocs::order_by_score`, any number of segments, any offset):
each segment is collected by a pruning driver into a `TopNHeap` of capacity `O+K` — the driver
scores the candidates in doc order and may skip any document that was not above the threshold
then or earlier in the run (`hskip`; this is what `UB_max` and `UB_block` buy: the WAND drivers
skip nothing else, `C06_wand_*_skipsBelow`) —, the fruit is the heap content in ANY order
(`into_vec()`), and `merge_top_k` with `doc_range = O..O+K` returns exactly entries `O .. O+K` of
all live documents of all segments in `(score desc, address asc)` order. Composition of
`C06_pruning_sound_early` (per segment), `C06_merge_offset` (merge + offset). -/
theorem C06_search_end_to_end_partial (gt : α → α → Bool) (hgt : StrictWeak gt) (K O : Nat)
    (runs : List (List (Cand α × Bool))) (fruits : List (List (Entry α)))
    (hasc : ∀ cs, cs ∈ runs → AddrAsc (cs.map (·.1.entry)))
    (hskip : ∀ cs, cs ∈ runs → skipsBelowEarly gt (Heap.new (O + K), none) [] cs = true)
    (hfruit : TopN.Forall₂ (fun f cs => f ~ (prunedRun gt (Heap.new (O + K), none) cs).1.heap) fruits runs)
    (hnd : AddrNodup (runs.map aliveEntries).flatten) :
    mergeTopK gt K O fruits = topK (le gt) K O (runs.map aliveEntries).flatten := by
  have hle := le_totalPreorder hgt
  have hall : TopN.Forall₂ (fun f d => ((isort (le gt) f).take (O + K) = (isort (le gt) d).take (O + K)) ∧
      (∀ x, x ∈ f → x ∈ d) ∧ AddrNodup f) fruits (runs.map aliveEntries) := by
    apply TopN.Forall₂.map_right
    refine hfruit.mem_right.imp ?_
    intro f cs hfc
    obtain ⟨hperm, hcs⟩ := hfc
    · have hheap := C06_pruning_sound_early gt hgt (O + K) cs (hasc cs hcs) (hskip cs hcs)
      rw [topK_zero] at hheap
      have halive : AddrNodup (aliveEntries cs) := by
        have h1 : AddrAsc (cs.map (·.1.entry)) := hasc cs hcs
        refine (h1.nodup).sublist ?_
        have : (cs.map (·.1.entry)) = ((cs.map (·.1)).map (·.entry)) := by simp
        rw [this]
        exact Sublist.map _ filter_sublist
      have hheapnd : AddrNodup (prunedRun gt (Heap.new (O + K), none) cs).1.heap := by
        rw [hheap]
        exact (halive.perm (isort_perm _).symm).sublist (take_sublist _ _)
      have hfnd : AddrNodup f := hheapnd.perm hperm.symm
      refine ⟨?_, ?_, hfnd⟩
      · rw [isort_eq_of_perm hle (hfnd.antisym hgt) hperm, hheap]
        show (isort (le gt) ((isort (le gt) (aliveEntries cs)).take (O + K))).take (O + K) = _
        rw [isort_of_sorted hle ((hheap ▸ hheapnd).antisym hgt) ((isort_sorted hle _).take _), take_take]
        simp
      · intro x hx
        have : x ∈ (prunedRun gt (Heap.new (O + K), none) cs).1.heap := hperm.subset hx
        rw [hheap] at this
        exact mem_isort.mp (mem_of_mem_take this)
  exact C06_merge_offset gt hgt K O fruits _ (hall.imp fun _ _ h => h.1)
    (addrNodup_flatten_of_sub (hall.imp fun _ _ h => h.2) hnd) hnd

/-- Paging: for exactly comparable keys, the pages `O = 0, K, 2K, …` concatenated are the
complete ordered result list, which is a permutation of the matches: every match exactly once. -/
theorem C06_paging_partition {β : Type} (le : β → β → Bool) (K n : Nat) (l : List β)
    (hn : l.length ≤ n * K) :
    (List.range n).flatMap (fun i => topK le K (i * K) l) = isort le l ∧ isort le l ~ l := by
  refine ⟨?_, isort_perm l⟩
  have key : ∀ m, (List.range m).flatMap (fun i => topK le K (i * K) l) = (isort le l).take (m * K) := by
    intro m
    induction m with
    | zero => simp
    | succ m ih =>
      rw [range_succ, flatMap_append, ih]
      simp only [flatMap_cons, flatMap_nil, append_nil, topK]
      rw [Nat.succ_mul, take_add]
  rw [key n, take_of_length_le (by rw [length_isort]; exact hn)]

/-! ## the block-max WAND drivers, given the bound hypotheses -/

/-- `block_wand_single_scorer` (TermQuery + TopDocs): for EVERY callback (any collector state, any
threshold it returns) the driver makes exactly the calls the exhaustive loop makes and ends in the
same state — it only skips documents not above the threshold — PROVIDED every block's stored
bound really bounds the block's scores (`UB_block`; false across segments with different average
field length, DESIGN §8 S3). -/
theorem C06_wand_single_skipsBelow {σ : Type} (gt : α → α → Bool) (hgt : StrictWeak gt)
    (cb : σ → Nat → α → σ × α) (blocks : List (Wand.Block α)) (hub : Wand.ubBlock gt blocks)
    (st : σ × α) :
    Wand.wandSingle gt cb st blocks = Wand.exhaustive gt cb st (blocks.flatMap (·.docs)) :=
  Wand.wandSingle_eq_exhaustive gt hgt cb blocks hub st

/-- the WAND pivot rule of `block_wand` (`find_pivot_doc`): with the term scorers sorted by their
current document, no document before the pivot — and no document at all when there is no pivot —
has a total score above the threshold, PROVIDED each term's scores are bounded by its
`max_score` (`UB_max`; false on the pinned tree, `C06_UB_max_counterexample`). -/
theorem C06_wand_pivot_sound (θ : Nat) (ts : List Wand.TermList) (hs : Wand.SortedByCur ts)
    (hub : ∀ t, t ∈ ts → ∀ p, p ∈ t.postings → p.2 ≤ t.maxScore) :
    (∀ piv, Wand.findPivot θ ts 0 = some piv → ∀ doc, doc < piv → Wand.totalScore ts doc ≤ θ) ∧
    (Wand.findPivot θ ts 0 = none → ∀ doc, Wand.totalScore ts doc ≤ θ) := by
  have h := Wand.findPivot_sound θ ts 0 (Nat.zero_le _) hs hub
  simpa using h

/-- the block-max refinement of `block_wand`: when the bounds of the blocks under the scorers at
or before the pivot add up to at most the threshold, no document inside all those blocks and
before every other scorer's current document beats the threshold — the range that
`block_max_was_too_low_advance_one_scorer` passes over — PROVIDED each block bound holds
(`UB_block`). Together with `C06_wand_pivot_sound` these are the two justifications of every
skip `block_wand` makes; `C06_pruning_sound_early` turns justified skips into exactness. -/
theorem C06_wand_block_sound (θ : Nat) (pre : List Wand.BlockView) (suffix : List Wand.TermList)
    (doc : Nat)
    (hub : ∀ b, b ∈ pre → ∀ p, p ∈ b.t.postings → p.1 ≤ b.lastDoc → p.2 ≤ b.blockMax)
    (hin : ∀ b, b ∈ pre → doc ≤ b.lastDoc)
    (hsuf : ∀ t, t ∈ suffix → ∀ p, p ∈ t.postings → doc < p.1)
    (hsum : (pre.map (·.blockMax)).sum ≤ θ) :
    Wand.totalScore (pre.map (·.t) ++ suffix) doc ≤ θ :=
  Wand.blockRule_sound θ pre suffix doc hub hin hsuf hsum

/-- The generic document-at-a-time pruning machine over a union of term scorers: ANY run that
(a) moves a scorer forward only past documents whose total score is not above the current
threshold, (b) scores only a document that is not after any remaining posting (so every scorer
containing it is positioned on it) and (c) stops only when every remaining document is dead,
makes exactly the callback calls of the exhaustive loop and ends in the same state — for every
callback whose thresholds never decrease. `block_wand`'s moves are of kind (a) by
`C06_wand_pivot_sound` / `C06_wand_block_sound`, its scoring step is of kind (b) after
`align_scorers` succeeded, its exit is (c) by the `none` case of the pivot rule. -/
theorem C06_wand_machine_sound {σ : Type} (cb : σ → Nat → Nat → σ × Nat) (R : σ → Nat → Prop)
    (hcb : Wand.MonoCb cb R) (B : Nat) (acts : List Wand.Action) (ps : List Wand.Postings)
    (s : σ) (θ : Nat) (hR : R s θ) (hasc : ∀ p, p ∈ ps → Wand.Asc p)
    (hb : ∀ p, p ∈ ps → ∀ x, x ∈ p → x.1 < B)
    (hv : Wand.ValidRun cb Wand.unionTotal B acts ps 0 (s, θ)) :
    Wand.runMachine cb Wand.unionTotal acts ps (s, θ)
      = Wand.exhRange cb (Wand.unionTotal ps) 0 B (s, θ) := by
  have := Wand.runMachine_eq_exhaustive hcb Wand.unionTotal_laws B acts ps 0 s θ hR (Nat.zero_le _) hasc
    (fun p hp x hx => ⟨Nat.zero_le _, hb p hp x hx⟩) hv
  simpa using this

/-- the same for a CONJUNCTION of term scorers (`block_wand_intersection`): a document scores the
sum of its clauses if every scorer contains it and does not match otherwise; the leader's
filtered candidates and the documents of a skipped window are `seek` moves over dead documents,
a candidate all secondaries were sought to is an `eval`. -/
theorem C06_wand_machine_sound_intersection {σ : Type} (cb : σ → Nat → Nat → σ × Nat)
    (R : σ → Nat → Prop) (hcb : Wand.MonoCb cb R) (B : Nat) (acts : List Wand.Action)
    (ps : List Wand.Postings) (s : σ) (θ : Nat) (hR : R s θ) (hasc : ∀ p, p ∈ ps → Wand.Asc p)
    (hb : ∀ p, p ∈ ps → ∀ x, x ∈ p → x.1 < B)
    (hv : Wand.ValidRun cb Wand.interTotal B acts ps 0 (s, θ)) :
    Wand.runMachine cb Wand.interTotal acts ps (s, θ)
      = Wand.exhRange cb (Wand.interTotal ps) 0 B (s, θ) := by
  have := Wand.runMachine_eq_exhaustive hcb Wand.interTotal_laws B acts ps 0 s θ hR (Nat.zero_le _) hasc
    (fun p hp x hx => ⟨Nat.zero_le _, hb p hp x hx⟩) hv
  simpa using this

/-- the pivot rule speaks about the machine's state: for the scorers `ps` (at fixed positions) with
global bounds `ms`, if `ts` is their arrangement sorted by current document, then every document
before `find_pivot_doc`'s pivot — every document at all if there is none — is dead. Hence every
`seek` of any scorer up to the pivot (what `align_scorers` does) is a valid move of the machine
and `None` licenses stopping, PROVIDED `UB_max`. -/
theorem C06_wand_pivot_moves_valid (θ : Nat) (ps : List Wand.Postings) (ms : List Nat)
    (hlen : ps.length = ms.length) (ts : List Wand.TermList) (hperm : ts ~ Wand.views ps ms)
    (hs : Wand.SortedByCur ts)
    (hub : ∀ t, t ∈ ts → ∀ p, p ∈ t.postings → p.2 ≤ t.maxScore) :
    (∀ piv, Wand.findPivot θ ts 0 = some piv → ∀ d, d < piv → Wand.unionTotal ps d ≤ θ) ∧
    (Wand.findPivot θ ts 0 = none → ∀ d, Wand.unionTotal ps d ≤ θ) :=
  Wand.pivot_dead θ ps ms hlen ts hperm hs hub

/-- `block_wand` (union of two or more term scorers + TopDocs), the CONCRETE loop: the Lean mirror
`BlockWand.blockWand` follows the Rust function statement by statement (`find_pivot_doc`, the
shallow seeks and the block-max sum, `block_max_was_too_low_advance_one_scorer` with
`restore_ordering`, `align_scorers` with `swap_remove`, `advance_all_scorers_on_pivot`, the
`is_sorted` debug assertion) and is compared call by call and bit by bit with
`Weight::for_each_pruning` by the harness (`bwand`). For EVERY callback whose thresholds never
decrease: whenever the mirrored loop completes, it ends in the state of the exhaustive loop over
all documents `0 .. TERMINATED` with the total score `Σ clauses` — i.e. it made exactly the
callback calls of the exhaustive loop for documents above the running threshold — PROVIDED
each scorer's postings are ascending and below `TERMINATED`, bounded by its `max_score`
(`UB_max`, false on the pinned tree: `C06_UB_max_counterexample`), and every posting is bounded
by the block-max of its block (`UB_block`) (`BlockWand.WF`). In the proof every iteration is a
move of the pruning machine `Wand.Run`: the too-low branch and `align_scorers` are dead moves
(pivot rule with `UB_max`, block rule with `UB_block`), the scoring step evaluates the smallest
current document with all scorers containing it aligned, `None` from `find_pivot_doc` is a
justified stop. The outcomes `assertFailed` (the mirrored `debug_assert!(is_sorted)`),
`skipAhead` (a skip reader not on the pivot's block after `shallow_seek`; cannot happen for
`doc() <= pivot`, reported by the harness if the model ever answers it) and `outOfFuel` are
not covered by the statement. -/
theorem C06_wand_union_skipsBelow {σ : Type} (cb : σ → Nat → Nat → σ × Nat) (R : σ → Nat → Prop)
    (hcb : Wand.MonoCb cb R) (fuel : Nat) (s : σ) (θ : Nat) (hR : R s θ)
    (scorers : List (BlockWand.TS Nat)) (hwf : ∀ x, x ∈ scorers → BlockWand.WF x) (out : σ × Nat)
    (h : BlockWand.blockWand cb fuel (s, θ) scorers = .ok out) :
    out = Wand.exhRange cb (Wand.unionTotal (scorers.map (·.rest))) 0 BlockWand.T (s, θ) :=
  BlockWand.blockWand_eq_exhaustive hcb fuel s θ hR scorers hwf out h


/-- the mirrored `block_wand` loop is an INSTANCE of the pruning machine: a completed run of the
loop is a run `Wand.Run` of the machine over the union total of the scorers it starts from (the
live ones, sorted by current document) — every iteration one of the machine's three moves (a dead
move, the scoring of the smallest current document, a justified stop). No monotonicity of the
callback is needed here; `Wand.run_sound` turns a machine run into the exhaustive result for
monotone callbacks (`C06_wand_union_skipsBelow`). -/
theorem C06_wand_union_loop_is_machine_run {σ : Type} (cb : σ → Nat → Nat → σ × Nat) (fuel : Nat) (s : σ)
    (θ : Nat) (scorers : List (BlockWand.TS Nat)) (hwf : ∀ x, x ∈ scorers → BlockWand.WF x) (out : σ × Nat)
    (h : BlockWand.blockWand cb fuel (s, θ) scorers = .ok out) :
    Wand.Run cb BlockWand.T
      (BlockWand.tot (BlockWand.sortByDoc (scorers.filter (fun s => decide (s.doc < BlockWand.T))))) 0 (s, θ) out := by
  unfold BlockWand.blockWand at h
  refine BlockWand.wandLoop_run cb fuel s θ _ out 0 ⟨?_, fun _ _ _ _ => Nat.zero_le _⟩ h
  intro x hx
  exact hwf x (mem_filter.mp ((BlockWand.sortByDoc_perm _).subset hx)).1

/-- `block_wand_intersection` (conjunction of two or more term scorers + TopDocs), the CONCRETE
loop: the Lean mirror `BlockWand.blockWandInter` follows the Rust function statement by statement
(stable sort by `size_hint`, the leader's 128-document windows cut at the smallest
`last_doc_in_block` of all scorers, the early exits on the global maxima and on
`!has_remaining_docs()`, the window skip on the sum of block maxima, the branch-free candidate
filter `leader_score > threshold - Σ block maxima` with the threshold of the window's start, the
suffix sums of the secondaries' block maxima, the per-candidate seeks with the `doc() > candidate`
and `seek != candidate` exits and the suffix-bound pruning) and is compared call by call and bit
by bit with `Weight::for_each_pruning` by the harness (`binter`). For EVERY callback whose
thresholds never decrease (the stale filter threshold needs this): whenever the mirrored loop
completes, it ends in the state of the exhaustive loop over all documents `0 .. TERMINATED` with
the conjunction's total score (`Σ clauses` if every scorer contains the document, no match
otherwise) — PROVIDED each scorer's postings are ascending and below `TERMINATED`, bounded by
its `max_score` (`UB_max`) and by the block maximum of their block (`UB_block`)
(`BlockWand.WF`), and `doc_freq ≤ 128·k` means that the first `k` blocks hold the whole posting
list (`WFI.noRem`, the meaning of `has_remaining_docs`). Exact scores: the candidate filter is
read over the integers (`a > θ - b ⟺ a + b > θ`); in `f32` the rounded subtraction can drop a
document that beats the threshold by an ulp (observed, inside the property's rounding allowance).
Outcomes `assertFailed` (fewer than two scorers), `skipAhead` (a skip reader ahead of the
window's block; cannot happen, reported by the harness if the model ever answers it) and
`outOfFuel` are not covered. -/
theorem C06_wand_intersection_skipsBelow {σ : Type} (cb : σ → Nat → Nat → σ × Nat) (R : σ → Nat → Prop)
    (hcb : Wand.MonoCb cb R) (fuel : Nat) (s : σ) (θ : Nat) (hR : R s θ)
    (scorers : List (BlockWand.TS Nat)) (hwf : ∀ x, x ∈ scorers → BlockWand.WFI x) (out : σ × Nat)
    (h : BlockWand.blockWandInter cb fuel (s, θ) scorers = .ok out) :
    out = Wand.exhRange cb (Wand.interTotal (scorers.map (·.rest))) 0 BlockWand.T (s, θ) :=
  BlockWand.blockWandInter_eq_exhaustive hcb fuel s θ hR scorers hwf out h

/-- COMPLETION of the mirrored `block_wand` needs NO bound hypothesis: on fresh scorers with ascending
postings below `TERMINATED` and full blocks ending below `TERMINATED` (`BlockWand.WFC` — nothing
about `max_score` or the block maxima), with a fuel larger than the number of postings, the loop
ends with `.ok` for every callback with non-decreasing thresholds: the `is_sorted` assertion, the
model-only `skipAhead` outcome and running out of fuel are impossible also where `UB_max` /
`UB_block` fail (as the harness observes on the corpora of the known findings). -/
theorem C06_wand_union_completes {σ : Type} (cb : σ → Nat → Nat → σ × Nat) (R : σ → Nat → Prop)
    (hcb : Wand.MonoCb cb R) (fuel : Nat) (s : σ) (θ : Nat) (hR : R s θ)
    (scorers : List (BlockWand.TS Nat)) (hwf : ∀ x, x ∈ scorers → BlockWand.WFC x)
    (hfresh : ∀ x, x ∈ scorers → x.skip = 0) (hfuel : BlockWand.lenSum scorers < fuel) :
    ∃ out, BlockWand.blockWand cb fuel (s, θ) scorers = .ok out :=
  BlockWand.blockWand_completes hcb fuel s θ hR scorers hwf hfresh hfuel

/-- the same for `block_wand_intersection`: ascending postings and fresh skip readers suffice, for
ANY callback -/
theorem C06_wand_intersection_completes {σ : Type} (cb : σ → Nat → Nat → σ × Nat) (fuel : Nat) (s : σ) (θ : Nat)
    (scorers : List (BlockWand.TS Nat)) (hasc : ∀ x, x ∈ scorers → Wand.Asc x.rest)
    (hfresh : ∀ x, x ∈ scorers → x.skip = 0) (hlen : 2 ≤ scorers.length)
    (hfuel : (scorers.map (·.blocks.length)).sum + 2 ≤ fuel) :
    ∃ out, BlockWand.blockWandInter cb fuel (s, θ) scorers = .ok out :=
  BlockWand.blockWandInter_completes cb fuel s θ scorers hasc hfresh hlen hfuel

/-- TOTAL correctness of the mirrored `block_wand`: on FRESH scorers (skip readers on their first
block) whose full blocks end below `TERMINATED`, with a fuel larger than the number of postings,
the loop COMPLETES and its result is the state of the exhaustive loop:
* the mirrored `debug_assert!(is_sorted)` never fires — `restore_ordering` after
  `block_max_was_too_low_advance_one_scorer` and after `align_scorers` (with `swap_remove` of an
  exhausted scorer) and the sort of `advance_all_scorers_on_pivot` re-establish the order;
* the model-only outcome `skipAhead` is impossible — no skip reader is ever ahead of the block of
  `max(current doc, last pivot)`, and the pivots never go backwards (the `max_score` mass of the
  scorers at or before any document below the last pivot stays `≤ threshold`);
* every iteration drops at least one posting (the too-low branch seeks a scorer past the pivot,
  a failed alignment moved a scorer over the pivot, a scored pivot is advanced).
The "whenever the loop completes" of `C06_wand_union_skipsBelow` is discharged. -/
theorem C06_wand_union_total {σ : Type} (cb : σ → Nat → Nat → σ × Nat) (R : σ → Nat → Prop)
    (hcb : Wand.MonoCb cb R) (fuel : Nat) (s : σ) (θ : Nat) (hR : R s θ)
    (scorers : List (BlockWand.TS Nat)) (hwf : ∀ x, x ∈ scorers → BlockWand.WFT x)
    (hfresh : ∀ x, x ∈ scorers → x.skip = 0) (hfuel : BlockWand.lenSum scorers < fuel) :
    BlockWand.blockWand cb fuel (s, θ) scorers
      = .ok (Wand.exhRange cb (Wand.unionTotal (scorers.map (·.rest))) 0 BlockWand.T (s, θ)) :=
  BlockWand.blockWand_total hcb fuel s θ hR scorers hwf hfresh hfuel

/-- TOTAL correctness of the mirrored `block_wand_intersection`: on at least two FRESH scorers (skip
readers on their first block, as `BooleanWeight` hands them over) the loop COMPLETES — it never
reaches the model-only outcome `skipAhead` (after `seek_block(doc)` every skip reader sits exactly
on the block of `doc`, because no deep seek ever moves one past the block of its target), the
`assert!(len >= 2)` holds, and `Σ blocks + 2` iterations suffice (every window ends at the last
document of a block of some scorer, so the next `seek_block` passes that block) — and its result
is the state of the exhaustive loop. The "whenever the loop completes" of
`C06_wand_intersection_skipsBelow` is discharged. -/
theorem C06_wand_intersection_total {σ : Type} (cb : σ → Nat → Nat → σ × Nat) (R : σ → Nat → Prop)
    (hcb : Wand.MonoCb cb R) (fuel : Nat) (s : σ) (θ : Nat) (hR : R s θ)
    (scorers : List (BlockWand.TS Nat)) (hwf : ∀ x, x ∈ scorers → BlockWand.WFI x)
    (hfresh : ∀ x, x ∈ scorers → x.skip = 0) (hlen : 2 ≤ scorers.length)
    (hfuel : (scorers.map (·.blocks.length)).sum + 2 ≤ fuel) :
    BlockWand.blockWandInter cb fuel (s, θ) scorers
      = .ok (Wand.exhRange cb (Wand.interTotal (scorers.map (·.rest))) 0 BlockWand.T (s, θ)) :=
  BlockWand.blockWandInter_total hcb fuel s θ hR scorers hwf hfresh hlen hfuel

theorem skipsBelowEarly_unskipped (gt : α → α → Bool) : ∀ (cs : List (Cand α)) (st : Heap α × Option α)
    (hist : List (Option α)), skipsBelowEarly gt st hist (cs.map fun c => (c, false)) = true
  | [], _, _ => rfl
  | c :: cs, st, hist => by
    simp only [map_cons, skipsBelowEarly, Bool.false_eq_true, if_false]
    exact skipsBelowEarly_unskipped gt cs _ _

/-- END TO END for ABSTRACT keys with the generic driver (`for_each_pruning_scorer`, which skips
nothing): every segment's candidates — live or deleted — go through the `TopNHeap` callback in doc
order, the fruits are the heaps in any order, and `merge_top_k` + offset returns entries
`O .. O+K` of all live documents. No hypothesis about the run is left (the skip hypothesis of
`C06_search_end_to_end_partial` is discharged: nothing is skipped). -/
theorem C06_search_end_to_end_exhaustive (gt : α → α → Bool) (hgt : StrictWeak gt) (K O : Nat)
    (segs : List (List (Cand α))) (fruits : List (List (Entry α)))
    (hasc : ∀ cs, cs ∈ segs → AddrAsc (cs.map (·.entry)))
    (hfruit : TopN.Forall₂ (fun f cs => f ~ (forEachPruning gt (Heap.new (O + K), none) cs).1.heap) fruits segs)
    (hnd : AddrNodup (segs.map fun cs => aliveEntries (cs.map fun c => (c, false))).flatten) :
    mergeTopK gt K O fruits
      = topK (le gt) K O (segs.map fun cs => aliveEntries (cs.map fun c => (c, false))).flatten := by
  have h := C06_search_end_to_end_partial gt hgt K O (segs.map fun cs => cs.map fun c => (c, false)) fruits
    (by
      intro cs hcs
      obtain ⟨cs0, h0, rfl⟩ := mem_map.mp hcs
      simpa [Function.comp_def] using hasc cs0 h0)
    (by
      intro cs hcs
      obtain ⟨cs0, _, rfl⟩ := mem_map.mp hcs
      exact skipsBelowEarly_unskipped gt cs0 _ _)
    (by
      apply TopN.Forall₂.map_right
      refine hfruit.imp ?_
      intro f cs hperm
      rw [C06_exhaustive_is_pruned]
      exact hperm)
    (by simpa [map_map, Function.comp_def] using hnd)
  simpa [map_map, Function.comp_def] using h

/-! ## end to end with the real drivers: the `TopNHeap` callback instantiates the WAND theorems -/

/-- The callback `collect_segment_top_k` hands to `for_each_pruning` (push into the `TopNHeap`,
return its threshold; integer scores, `0` for `Score::MIN`) is a callback of the WAND theorems:
its thresholds never decrease, whatever is pushed in whatever order. -/
theorem C06_heap_callback_monotone (base : Nat) :
    Wand.MonoCb (heapCb base) (fun h θ => HeapOK h ∧ θ = thrNat h) :=
  heapCb_mono base

/-- `block_wand` + the `TopNHeap` callback = the best N of the segment: when the mirrored union
loop completes, the heap holds exactly the best `N` of the segment's matching documents (total
score > 0, address `base + doc`), given `UB_max` / `UB_block`. -/
theorem C06_wand_union_collects_topk (base N fuel : Nat) (scorers : List (BlockWand.TS Nat))
    (hwf : ∀ x, x ∈ scorers → BlockWand.WF x) (out : Heap Nat × Nat)
    (h : BlockWand.blockWand (heapCb base) fuel (Heap.new N, 0) scorers = .ok out) :
    out = Wand.exhRange (heapCb base) (Wand.unionTotal (scorers.map (·.rest))) 0 BlockWand.T (Heap.new N, 0) ∧
    out.1.heap = topK (le natGt) N 0 (segEntries base (Wand.unionTotal (scorers.map (·.rest))) 0 BlockWand.T) := by
  have hout := C06_wand_union_skipsBelow (heapCb base) _ (heapCb_mono base) fuel (Heap.new N) 0
    ⟨heapOK_new N, rfl⟩ scorers hwf out h
  refine ⟨hout, ?_⟩
  have he := exhRange_heapCb base (Wand.unionTotal (scorers.map (·.rest))) BlockWand.T 0 (Heap.new N) (heapWf_new N)
  have h0 : thrNat (Heap.new N) = 0 := rfl
  rw [h0] at he
  rw [hout, he]
  exact C06_heap_topk natGt natGt_strictWeak N _ (segEntries_asc _ _ _ _)

/-- `block_wand_single_scorer` (TermQuery) + the `TopNHeap` callback = the best N of the segment's
postings of the term (positive scores, ascending docs), given `UB_block` for the blocks as the
driver sees them. -/
theorem C06_wand_single_collects_topk (base N : Nat) (blocks : List (Wand.Block Nat))
    (hub : Wand.ubBlock natGt blocks) (hpos : ∀ p, p ∈ blocks.flatMap (·.docs) → 0 < p.2)
    (hasc : (blocks.flatMap (·.docs)).Pairwise (fun a b => a.1 < b.1)) :
    (Wand.wandSingle natGt (heapCb base) (Heap.new N, 0) blocks).1.heap
      = topK (le natGt) N 0 ((blocks.flatMap (·.docs)).map fun p => (⟨p.2, base + p.1⟩ : Entry Nat)) := by
  rw [C06_wand_single_skipsBelow natGt natGt_strictWeak (heapCb base) blocks hub (Heap.new N, 0)]
  have he := exhaustive_heapCb base (blocks.flatMap (·.docs)) (Heap.new N) (heapWf_new N) hpos
  have h0 : thrNat (Heap.new N) = 0 := rfl
  rw [h0] at he
  rw [he]
  refine C06_heap_topk natGt natGt_strictWeak N _ ?_
  unfold AddrAsc
  rw [pairwise_map]
  exact hasc.imp fun h => by simp only; omega

example : (Wand.wandSingle natGt (heapCb 10) (Heap.new 1, 0) [⟨[(0, 5), (3, 9)], 9⟩, ⟨[(7, 2), (8, 6)], 6⟩, ⟨[(20, 7)], 8⟩]).1.heap
    = [⟨9, 13⟩] := by decide

/-- the same for `block_wand_intersection` -/
theorem C06_wand_intersection_collects_topk (base N fuel : Nat) (scorers : List (BlockWand.TS Nat))
    (hwf : ∀ x, x ∈ scorers → BlockWand.WFI x) (out : Heap Nat × Nat)
    (h : BlockWand.blockWandInter (heapCb base) fuel (Heap.new N, 0) scorers = .ok out) :
    out = Wand.exhRange (heapCb base) (Wand.interTotal (scorers.map (·.rest))) 0 BlockWand.T (Heap.new N, 0) ∧
    out.1.heap = topK (le natGt) N 0 (segEntries base (Wand.interTotal (scorers.map (·.rest))) 0 BlockWand.T) := by
  have hout := C06_wand_intersection_skipsBelow (heapCb base) _ (heapCb_mono base) fuel (Heap.new N) 0
    ⟨heapOK_new N, rfl⟩ scorers hwf out h
  refine ⟨hout, ?_⟩
  have he := exhRange_heapCb base (Wand.interTotal (scorers.map (·.rest))) BlockWand.T 0 (Heap.new N) (heapWf_new N)
  have h0 : thrNat (Heap.new N) = 0 := rfl
  rw [h0] at he
  rw [hout, he]
  exact C06_heap_topk natGt natGt_strictWeak N _ (segEntries_asc _ _ _ _)

/-- END TO END, score path, with the real drivers' final states: every segment `(base, total)` is
collected by a driver whose final state is that of the exhaustive loop with the `TopNHeap`
callback of capacity `O+K` — which is what `block_wand_single_scorer`, `block_wand` and
`block_wand_intersection` deliver given `UB_max` / `UB_block` (`C06_wand_single_skipsBelow`,
`C06_wand_union_collects_topk`, `C06_wand_intersection_collects_topk`) and what
`for_each_pruning_scorer` is —, the fruit is the heap content in any order, and `merge_top_k` with
`doc_range = O..O+K` returns exactly entries `O .. O+K` of all matching documents of all segments
in `(score desc, address asc)` order. Any number of segments, offset beyond the end and `K` larger
than the number of matches included (`topK` is `drop O |>.take K` of the complete order). -/
theorem C06_search_end_to_end (K O : Nat) (segs : List (Nat × (Nat → Nat))) (fruits : List (List (Entry Nat)))
    (hfruit : TopN.Forall₂ (fun f (seg : Nat × (Nat → Nat)) =>
      f ~ (Wand.exhRange (heapCb seg.1) seg.2 0 BlockWand.T (Heap.new (O + K), 0)).1.heap) fruits segs)
    (hnd : AddrNodup (segs.map fun seg => segEntries seg.1 seg.2 0 BlockWand.T).flatten) :
    mergeTopK natGt K O fruits
      = topK (le natGt) K O (segs.map fun seg => segEntries seg.1 seg.2 0 BlockWand.T).flatten := by
  have hgt := natGt_strictWeak
  have hle := le_totalPreorder hgt
  have hall : TopN.Forall₂ (fun f d => ((isort (le natGt) f).take (O + K) = (isort (le natGt) d).take (O + K)) ∧
      (∀ x, x ∈ f → x ∈ d) ∧ AddrNodup f) fruits (segs.map fun seg => segEntries seg.1 seg.2 0 BlockWand.T) := by
    apply TopN.Forall₂.map_right
    refine hfruit.imp ?_
    intro f seg hperm
    have he := exhRange_heapCb seg.1 seg.2 BlockWand.T 0 (Heap.new (O + K)) (heapWf_new _)
    have h0 : thrNat (Heap.new (O + K)) = 0 := rfl
    rw [h0] at he
    rw [he] at hperm
    have hheap := C06_heap_topk natGt hgt (O + K) _ (segEntries_asc seg.1 seg.2 BlockWand.T 0)
    rw [topK_zero] at hheap
    simp only at hperm
    rw [hheap] at hperm
    have hdn : AddrNodup (segEntries seg.1 seg.2 0 BlockWand.T) := (segEntries_asc _ _ _ _).nodup
    have hhn : AddrNodup ((isort (le natGt) (segEntries seg.1 seg.2 0 BlockWand.T)).take (O + K)) :=
      (hdn.perm (isort_perm _).symm).sublist (take_sublist _ _)
    have hfn : AddrNodup f := hhn.perm hperm.symm
    refine ⟨?_, ?_, hfn⟩
    · rw [isort_eq_of_perm hle (hfn.antisym hgt) hperm,
        isort_of_sorted hle (hhn.antisym hgt) ((isort_sorted hle _).take _), take_take]
      simp
    · intro x hx
      exact mem_isort.mp (mem_of_mem_take (hperm.subset hx))
  exact C06_merge_offset natGt hgt K O fruits _ (hall.imp fun _ _ h => h.1)
    (addrNodup_flatten_of_sub (hall.imp fun _ _ h => h.2) hnd) hnd

/-- the same with DELETED documents (the `alive_bitset` branch of `collect_segment_top_k`: the
callback returns the old threshold for a deleted document): segments are `(base, alive, total)`,
the result is the page of all LIVE matching documents. -/
theorem C06_search_end_to_end_alive (K O : Nat) (segs : List (Nat × (Nat → Bool) × (Nat → Nat)))
    (fruits : List (List (Entry Nat)))
    (hfruit : TopN.Forall₂ (fun f (seg : Nat × (Nat → Bool) × (Nat → Nat)) =>
      f ~ (Wand.exhRange (heapCbA seg.1 seg.2.1) seg.2.2 0 BlockWand.T (Heap.new (O + K), 0)).1.heap) fruits segs)
    (hnd : AddrNodup (segs.map fun seg => segEntries seg.1 (maskTot seg.2.1 seg.2.2) 0 BlockWand.T).flatten) :
    mergeTopK natGt K O fruits
      = topK (le natGt) K O (segs.map fun seg => segEntries seg.1 (maskTot seg.2.1 seg.2.2) 0 BlockWand.T).flatten := by
  have h := C06_search_end_to_end K O (segs.map fun seg => (seg.1, maskTot seg.2.1 seg.2.2)) fruits
    (by
      apply TopN.Forall₂.map_right
      refine hfruit.imp ?_
      intro f seg hperm
      have h0 : thrNat (Heap.new (O + K)) = 0 := rfl
      have := exhRange_heapCbA seg.1 seg.2.1 seg.2.2 BlockWand.T 0 (Heap.new (O + K))
      rw [h0] at this
      rw [this] at hperm
      dsimp only
      exact hperm)
    (by simpa [map_map, Function.comp_def] using hnd)
  simpa [map_map, Function.comp_def] using h

/-- the drivers, totally: `block_wand` with the deletes-aware `TopNHeap` callback on fresh scorers
ends — without any side condition on the run — with the best N of the segment's live matching
documents in the heap (given `UB_max` / `UB_block`) -/
theorem C06_wand_union_collects_topk_total (base N fuel : Nat) (alive : Nat → Bool) (scorers : List (BlockWand.TS Nat))
    (hwf : ∀ x, x ∈ scorers → BlockWand.WFT x) (hfresh : ∀ x, x ∈ scorers → x.skip = 0)
    (hfuel : BlockWand.lenSum scorers < fuel) :
    ∃ out, BlockWand.blockWand (heapCbA base alive) fuel (Heap.new N, 0) scorers = .ok out ∧
      out.1.heap = topK (le natGt) N 0
        (segEntries base (maskTot alive (Wand.unionTotal (scorers.map (·.rest)))) 0 BlockWand.T) := by
  have ht := C06_wand_union_total (heapCbA base alive) _ (heapCbA_mono base alive) fuel (Heap.new N) 0
    ⟨heapOK_new N, rfl⟩ scorers hwf hfresh hfuel
  refine ⟨_, ht, ?_⟩
  have h0 : thrNat (Heap.new N) = 0 := rfl
  have h1 := exhRange_heapCbA base alive (Wand.unionTotal (scorers.map (·.rest))) BlockWand.T 0 (Heap.new N)
  have h2 := exhRange_heapCb base (maskTot alive (Wand.unionTotal (scorers.map (·.rest)))) BlockWand.T 0
    (Heap.new N) (heapWf_new N)
  rw [h0] at h1 h2
  rw [h1, h2]
  exact C06_heap_topk natGt natGt_strictWeak N _ (segEntries_asc _ _ _ _)

theorem C06_wand_intersection_collects_topk_total (base N fuel : Nat) (alive : Nat → Bool)
    (scorers : List (BlockWand.TS Nat)) (hwf : ∀ x, x ∈ scorers → BlockWand.WFI x)
    (hfresh : ∀ x, x ∈ scorers → x.skip = 0) (hlen : 2 ≤ scorers.length)
    (hfuel : (scorers.map (·.blocks.length)).sum + 2 ≤ fuel) :
    ∃ out, BlockWand.blockWandInter (heapCbA base alive) fuel (Heap.new N, 0) scorers = .ok out ∧
      out.1.heap = topK (le natGt) N 0
        (segEntries base (maskTot alive (Wand.interTotal (scorers.map (·.rest)))) 0 BlockWand.T) := by
  have ht := C06_wand_intersection_total (heapCbA base alive) _ (heapCbA_mono base alive) fuel (Heap.new N) 0
    ⟨heapOK_new N, rfl⟩ scorers hwf hfresh hlen hfuel
  refine ⟨_, ht, ?_⟩
  have h0 : thrNat (Heap.new N) = 0 := rfl
  have h1 := exhRange_heapCbA base alive (Wand.interTotal (scorers.map (·.rest))) BlockWand.T 0 (Heap.new N)
  have h2 := exhRange_heapCb base (maskTot alive (Wand.interTotal (scorers.map (·.rest)))) BlockWand.T 0
    (Heap.new N) (heapWf_new N)
  rw [h0] at h1 h2
  rw [h1, h2]
  exact C06_heap_topk natGt natGt_strictWeak N _ (segEntries_asc _ _ _ _)

/-! ## the score bounds (exact arithmetic) and the refuted hypothesis `UB_max` -/

open TantivyModel.Bm25Q in
/-- tf factor is monotone in tf (used by the block-max pair: larger tf, same length ⇒ larger score) -/
theorem C06_tf_factor_mono_tf (norm tf₁ tf₂ : ℚ) (hn : 0 < norm) (h0 : 0 ≤ tf₁) (h : tf₁ ≤ tf₂) :
    tfFactor tf₁ norm ≤ tfFactor tf₂ norm := tf_factor_mono_tf norm tf₁ tf₂ hn h0 h

open TantivyModel.Bm25Q in
/-- tf factor is antitone in the document length, for every average length -/
theorem C06_tf_factor_anti_norm (k1 b avg tf f₁ f₂ : ℚ) (hk : 0 < k1) (hb0 : 0 ≤ b) (hb1 : b < 1)
    (ha : 0 < avg) (h0 : 0 ≤ tf) (hf : 0 ≤ f₁) (h : f₁ ≤ f₂) :
    tfFactor tf (normOf k1 b f₂ avg) ≤ tfFactor tf (normOf k1 b f₁ avg) :=
  tf_factor_anti_norm tf _ _ h0 (normOf_pos k1 b f₁ avg hk hb0 hb1 hf ha)
    (normOf_mono_fieldnorm k1 b avg f₁ f₂ hk hb0 ha h)

theorem fieldnorm_255 : Gen.FIELD_NORMS_TABLE.getD Gen.MAX_SCORE_FIELDNORM_ID 0 = 2013265944 := by
  decide
theorem fieldnorm_40 : Gen.FIELD_NORMS_TABLE.getD 40 0 = 40 := by
  decide

open TantivyModel.Bm25Q in
/-- `UB_max` ("every score of a term is ≤ `Bm25Weight::max_score`") is FALSE: with average field
length 1, a document of 41 tokens all equal to the term (tf = 41; its length is quantised down to
`id_to_fieldnorm 40 = 40`) has a larger tf factor than the one `max_score` uses
(`fieldnorm_id = 255`, `tf = 2_013_265_944`). DESIGN §8 F5. -/
theorem C06_UB_max_counterexample :
    maxScoreFactor 1 < tfFactor 41 (normOf K1 B ((Gen.FIELD_NORMS_TABLE.getD 40 0 : Nat) : ℚ) 1) := by
  unfold maxScoreFactor
  rw [fieldnorm_255, fieldnorm_40]
  unfold tfFactor normOf K1 B
  norm_num [Gen.K1_NUM, Gen.K1_DEN, Gen.B_NUM, Gen.B_DEN, Gen.MAX_SCORE_TF]

/-
FULL STATEMENT (refuted by `C06_UB_max_counterexample`, `C06_merge_unsorted_counterexample`,
`C06_wand_single_needs_UB_block`; and for dis-max queries by `C12_dismax_topdocs_counterexample`:
`block_wand` sums the clauses whatever the score combiner):
  theorem C06_full : ∀ corpus query K O, TopDocs(K, O) on the block-WAND paths = topK K O (exhaustive scores)
The pruning part holds given `skipsBelow` (`C06_pruning_sound`); `skipsBelow` for the three WAND
drivers needs `UB_max` (false, above) and `UB_block` (needs the searcher's average field length
to equal the segment's, DESIGN §8 S3).
-/

/-! ## non-vacuity -/

def gtNat (a b : Nat) : Bool := decide (b < a)

theorem gtNat_strictWeak : StrictWeak gtNat where
  asymm a b h := by simp [gtNat] at *; omega
  negTrans a b c h1 h2 := by simp [gtNat] at *; omega

open TantivyModel.Bm25Q in
/-- WHERE `UB_block` COMES FROM: the pair `(fieldnorm_id, term_freq)` the serializer stores for a
block is the `max_by` of `Bm25Weight::tf_factor` over the block's postings (shape checked by the
extractor: `Gen.BLOCKWAND_PAIR_IS_ARGMAX_TF_FACTOR`), its tf goes through the one-byte code
(`encode/decode_block_wand_max_tf`, translated from the source). Evaluated under THE SAME
normalisation (`norm f = K1·(1 − B + B·fieldnorm(f)/avg)` with the average field length the pair
was chosen with — one segment, or equal averages) the read-back pair's tf factor bounds the tf
factor of every posting of the block; with a positive weight that is `UB_block`. Under a DIFFERENT
average the arg-max can move: known finding `C06:blockmax-pair-wrong-avg-fieldnorm` (S3). -/
theorem C06_UB_block_same_average (norm : Nat → ℚ) (hnorm : ∀ f, 0 < norm f) (block : List (Nat × BitVec 32))
    (fstar : Nat) (tstar : BitVec 32)
    (hmax : maxByQ (fun p : Nat × BitVec 32 => tfFactor (p.2.toNat : ℚ) (norm p.1)) block = some (fstar, tstar)) :
    ∀ p, p ∈ block → tfFactor (p.2.toNat : ℚ) (norm p.1)
      ≤ tfFactor ((Gen.Fn.decode_block_wand_max_tf (Gen.Fn.encode_block_wand_max_tf tstar)).toNat : ℚ) (norm fstar) :=
  block_pair_bounds norm hnorm block fstar tstar hmax

open TantivyModel.Bm25Q in
/-- three postings (fieldnorm id, tf) under the normalisation `id + 1`: the arg-max is (0, 3) -/
example : maxByQ (fun p : Nat × BitVec 32 => tfFactor (p.2.toNat : ℚ) ((p.1 : ℚ) + 1)) [(2, 3#32), (0, 3#32), (1, 2#32)]
    = some (0, 3#32) := by
  simp only [maxByQ, foldl_cons, foldl_nil, tfFactor]
  norm_num

/-- `UB_block` is necessary: a block whose stored bound is 0 (what `block_max_score` evaluates to
for a term of a field indexed without freqs — known finding `C06:nofreq-term-blockmax-zero`) is
skipped as soon as the threshold is non-negative although its documents score above it. -/
theorem C06_wand_single_needs_UB_block :
    Wand.wandSingle gtNat (fun (s : List Nat) d sc => (s ++ [d], sc)) ([], 1) [⟨[(0, 3), (1, 5)], 0⟩]
      = ([], 1) ∧
    Wand.exhaustive gtNat (fun (s : List Nat) d sc => (s ++ [d], sc)) ([], 1) [(0, 3), (1, 5)]
      = ([0, 1], 5) := by decide

/-- a complete sort satisfies the `select_nth` contract -/
theorem selSorted_selectNth (gt : α → α → Bool) (hgt : StrictWeak gt) (K : Nat) :
    SelectNth gt K (selSorted gt) where
  perm buf := isort_perm buf
  part buf hK := by
    have hle := le_totalPreorder hgt
    have hs : Sorted (le gt) (isort (le gt) buf) := isort_sorted hle buf
    have hlen : K < (isort (le gt) buf).length := by rw [length_isort]; exact hK
    show ∃ front m back, isort (le gt) buf = front ++ m :: back ∧ _
    generalize isort (le gt) buf = s at hs hlen
    have hsplit : s = s.take K ++ s[K] :: s.drop (K + 1) := by
      conv => lhs; rw [← take_append_drop K s]
      rw [drop_eq_getElem_cons hlen]
    have hs' : Sorted (le gt) (s.take K ++ s[K] :: s.drop (K + 1)) := by rw [← hsplit]; exact hs
    unfold Sorted at hs'
    rw [pairwise_append, pairwise_cons] at hs'
    refine ⟨s.take K, s[K], s.drop (K + 1), hsplit, by rw [length_take]; omega, ?_, ?_⟩
    · intro a ha
      exact hs'.2.2 a ha _ mem_cons_self
    · intro b hb
      exact hs'.2.1.1 b hb

/-- the adversarial `select_nth` (best K reversed, pivot, rest reversed) satisfies the contract too -/
theorem selReversed_selectNth (gt : α → α → Bool) (hgt : StrictWeak gt) (K : Nat) :
    SelectNth gt K (selReversed gt K) where
  perm buf := by
    unfold selReversed
    have h1 : ((isort (le gt) buf).drop K).take 1 ++ (((isort (le gt) buf).drop K).drop 1).reverse
        ~ (isort (le gt) buf).drop K := by
      conv => rhs; rw [← take_append_drop 1 ((isort (le gt) buf).drop K)]
      exact Perm.append_left _ (reverse_perm _)
    have h2 : (isort (le gt) buf).take K ++ (isort (le gt) buf).drop K ~ buf := by
      rw [take_append_drop]; exact isort_perm buf
    rw [append_assoc]
    exact ((Perm.append (reverse_perm _) h1)).trans h2
  part buf hK := by
    obtain ⟨front, m, back, hs, hfl, hf, hb⟩ := (selSorted_selectNth gt hgt K).part buf hK
    unfold selSorted at hs
    unfold selReversed
    rw [hs]
    have hd : (front ++ m :: back).drop K = m :: back := by rw [← hfl]; simp
    have ht : (front ++ m :: back).take K = front := by rw [← hfl]; simp
    simp only [hd, ht]
    refine ⟨front.reverse, m, back.reverse, by simp, by simpa using hfl, ?_, ?_⟩
    · intro a ha; exact hf a (mem_reverse.mp ha)
    · intro b hb'; exact hb b (mem_reverse.mp hb')

/-- three segments with massive key ties; N = O + K = 4 -/
def tieSegs : List (List (Entry Nat)) :=
  [[⟨0, 0⟩, ⟨1, 1⟩, ⟨1, 2⟩, ⟨2, 3⟩, ⟨2, 4⟩], [⟨1, 100⟩, ⟨2, 101⟩],
   [⟨2, 200⟩, ⟨2, 201⟩, ⟨2, 202⟩, ⟨1, 203⟩, ⟨2, 204⟩]]

/-- WHY `merge_top_k` had to be fixed (finding `C06:merge-ties-unsorted-fruits`, fixed in the
tree): for the mechanism as coded BEFORE the fix (`searchPushed`: fruits pushed into a
`TopNComputer`) `C06_search` is FALSE: with a `select_nth` that satisfies its contract (`selReversed_selectNth`) the
per-segment fruits (`into_vec`, unsorted) are pushed into the merge `TopNComputer` out of address
order, its strict threshold drops document `200` although it ties with, and precedes, the
returned document `201`. (Reproduced on the real `Searcher::search`: known finding
`C06:merge-ties-unsorted-fruits`.) -/
theorem C06_merge_unsorted_counterexample :
    searchPushed gtNat (selReversed gtNat 4) 3 1 tieSegs = [⟨2, 4⟩, ⟨2, 101⟩, ⟨2, 201⟩] ∧
    search gtNat (selReversed gtNat 4) 3 1 tieSegs = [⟨2, 4⟩, ⟨2, 101⟩, ⟨2, 200⟩] ∧
    topK (le gtNat) 3 1 tieSegs.flatten = [⟨2, 4⟩, ⟨2, 101⟩, ⟨2, 200⟩] ∧
    (∀ d, d ∈ tieSegs → AddrAsc d) ∧ AddrNodup tieSegs.flatten := by
  refine ⟨by decide, by decide, by decide, ?_, ?_⟩
  · intro d hd
    simp only [tieSegs, mem_cons, not_mem_nil, or_false] at hd
    rcases hd with rfl | rfl | rfl <;> (unfold AddrAsc; decide)
  · unfold AddrNodup tieSegs; decide

def exDocs : List (Entry Nat) := [⟨5, 0⟩, ⟨7, 1⟩, ⟨5, 2⟩, ⟨9, 3⟩, ⟨7, 4⟩, ⟨7, 5⟩, ⟨1, 6⟩]

example : AddrAsc exDocs := by unfold AddrAsc exDocs; decide
example : intoSortedVec gtNat (selSorted gtNat) (pushAll gtNat (selSorted gtNat) (Computer.new 2) exDocs)
    = [⟨9, 3⟩, ⟨7, 1⟩] := by decide
example : (pushAll gtNat (selSorted gtNat) (Computer.new 2) exDocs).threshold = some 5 := by decide
example : topK (le gtNat) 2 1 exDocs = [⟨7, 1⟩, ⟨7, 4⟩] := by decide
example : (exDocs.foldl (heapPush gtNat) (Heap.new 3)).heap = [⟨9, 3⟩, ⟨7, 1⟩, ⟨7, 4⟩] := by decide
/-- a pruned run that really skips (docs 2 and 6) and satisfies `skipsBelow` -/
example : skipsBelow gtNat (Heap.new 1, none)
    [(⟨⟨5, 0⟩, true⟩, false), (⟨⟨7, 1⟩, true⟩, false), (⟨⟨5, 2⟩, true⟩, true), (⟨⟨9, 3⟩, false⟩, false),
     (⟨⟨1, 6⟩, true⟩, true)] = true := by decide
example : skipsBelowEarly gtNat (Heap.new 1, none) []
    [(⟨⟨5, 0⟩, true⟩, false), (⟨⟨7, 1⟩, true⟩, false), (⟨⟨6, 2⟩, true⟩, true), (⟨⟨9, 3⟩, true⟩, false),
     (⟨⟨8, 6⟩, true⟩, true)] = true := by decide
example : search gtNat (selSorted gtNat) 2 1 [[⟨5, 0⟩, ⟨7, 1⟩, ⟨5, 2⟩], [⟨9, 100⟩, ⟨7, 101⟩]]
    = [⟨7, 1⟩, ⟨7, 101⟩] := by decide
example : (List.range 3).flatMap (fun i => topK (le gtNat) 3 (i * 3) exDocs) = isort (le gtNat) exDocs := by
  decide

/-- a posting list of three blocks whose bounds hold; with threshold 6 the middle block is skipped -/
def exBlocks : List (Wand.Block Nat) :=
  [⟨[(0, 5), (3, 9)], 9⟩, ⟨[(7, 2), (8, 6)], 6⟩, ⟨[(20, 7)], 8⟩]
example : Wand.ubBlock gtNat exBlocks := by
  intro b hb p hp
  simp only [exBlocks, mem_cons, not_mem_nil, or_false] at hb
  rcases hb with rfl | rfl | rfl <;> simp at hp <;> rcases hp with rfl | rfl <;> decide
/-- callback: remember the calls, raise the threshold to the offered score -/
example : Wand.wandSingle gtNat (fun (s : List Nat) d sc => (s ++ [d], sc)) ([], 4) exBlocks
    = ([0, 3], 9) := by decide
/-- a callback that records the calls and raises the threshold to the offered score is monotone -/
theorem recordCb_mono : Wand.MonoCb (fun (s : List Nat) d sc => (s ++ [d], sc)) (fun _ _ => True) where
  step _ _ _ _ _ h := ⟨trivial, Nat.le_of_lt h⟩
/-- two scorers; with threshold 4 document 1 (total 3) is dead: the first scorer may be moved
past it; then document 2 (3 + 4 = 7) is scored by both, document 5 (total 2 < 7) is dead -/
def exPs : List Wand.Postings := [[(1, 3), (2, 3)], [(2, 4), (5, 2)]]
example : Wand.ValidRun (fun (s : List Nat) d sc => (s ++ [d], sc)) Wand.unionTotal 6 [.seek 0 2, .eval 2] exPs 0 ([], 4) := by
  simp only [Wand.ValidRun, exPs]
  refine ⟨?_, by decide, by decide, ?_, ?_⟩
  · intro p hp x hx hlt
    simp at hp; subst hp
    simp at hx
    rcases hx with rfl | rfl
    · decide
    · simp at hlt
  · intro p hp x hx
    simp [Wand.modifyAt, Wand.seekP] at hp
    rcases hp with rfl | rfl <;> simp at hx <;> rcases hx with rfl | rfl <;> decide
  · intro d
    have h2 : Wand.unionTotal (Wand.modifyAt (fun x => Wand.seekP x 2) [[(1, 3), (2, 3)], [(2, 4), (5, 2)]] 0) 2 = 7 := by decide
    simp only [h2]
    simp only [show (4 : Nat) < 7 from by decide, if_true]
    show Wand.unionTotal [[], [(5, 2)]] d ≤ 7
    by_cases hd : d = 5
    · subst hd; decide
    · rw [Wand.unionTotal_eq_zero]
      · exact Nat.zero_le _
      · intro p hp x hx
        simp only [mem_cons, not_mem_nil, or_false] at hp
        rcases hp with rfl | rfl
        · cases hx
        · simp only [mem_cons, not_mem_nil, or_false] at hx
          subst hx
          exact fun h => hd h.symm
example : Wand.runMachine (fun (s : List Nat) d sc => (s ++ [d], sc)) Wand.unionTotal [.seek 0 2, .eval 2] exPs ([], 4)
    = Wand.exhRange (fun (s : List Nat) d sc => (s ++ [d], sc)) (Wand.unionTotal exPs) 0 6 ([], 4) := by decide
/-- conjunction: document 1 is only in the first list (no match), document 2 is in both -/
example : Wand.runMachine (fun (s : List Nat) d sc => (s ++ [d], sc)) Wand.interTotal [.seek 0 2, .eval 2, .seek 1 6] exPs ([], 4)
    = Wand.exhRange (fun (s : List Nat) d sc => (s ++ [d], sc)) (Wand.interTotal exPs) 0 6 ([], 4) := by decide
/-! non-vacuity of the theorems about the mirrored loops: two well-formed scorers (one decoded
tail block each) on which both loops complete, skip documents 1 and 5, and score document 2 -/
def exA : BlockWand.TS Nat :=
  { rest := [(1, 3), (2, 3)], maxScore := 3, blocks := [], skip := 0, tailMax := 3, tailLoaded := true, cost := 2 }
def exB : BlockWand.TS Nat :=
  { rest := [(2, 4), (5, 2)], maxScore := 4, blocks := [], skip := 0, tailMax := 4, tailLoaded := true, cost := 2 }

theorem exA_wfi : BlockWand.WFI exA where
  wf :=
    { asc := by unfold Wand.Asc; decide
      lt := by decide
      ubMax := by decide
      ubBlk := by
        intro p hp
        refine ⟨fun l bm h => ?_, fun _ => ?_⟩
        · simp [exA] at h
        · simp only [exA, mem_cons, not_mem_nil, or_false] at hp
          rcases hp with rfl | rfl <;> decide
      blocksAsc := Pairwise.nil }
  noRem := by
    intro k hk p _
    have h2 : 2 ≤ 128 * k := hk
    show ([] : List (Nat × Nat)).length < k
    simp only [length_nil]; omega

theorem exB_wfi : BlockWand.WFI exB where
  wf :=
    { asc := by unfold Wand.Asc; decide
      lt := by decide
      ubMax := by decide
      ubBlk := by
        intro p hp
        refine ⟨fun l bm h => ?_, fun _ => ?_⟩
        · simp [exB] at h
        · simp only [exB, mem_cons, not_mem_nil, or_false] at hp
          rcases hp with rfl | rfl <;> decide
      blocksAsc := Pairwise.nil }
  noRem := by
    intro k hk p _
    have h2 : 2 ≤ 128 * k := hk
    show ([] : List (Nat × Nat)).length < k
    simp only [length_nil]; omega

example : (BlockWand.blockWand (fun (s : List Nat) d sc => (s ++ [d], sc)) 20 ([], 4) [exA, exB]).isOk ([2], 7) = true := by
  decide
example : (BlockWand.blockWandInter (fun (s : List Nat) d sc => (s ++ [d], sc)) 20 ([], 4) [exA, exB]).isOk ([2], 7) = true := by
  decide
/-- what the theorem buys on the example: the exhaustive loop over all 2^31 - 1 documents (not
computable by evaluation) ends in the state the pruning loop computed -/
example : (([2], 7) : List Nat × Nat) = Wand.exhRange (fun (s : List Nat) d sc => (s ++ [d], sc))
    (Wand.unionTotal [exA.rest, exB.rest]) 0 BlockWand.T ([], 4) := by
  refine C06_wand_union_skipsBelow _ _ recordCb_mono 20 [] 4 trivial [exA, exB] ?_ _ ?_
  · intro x hx
    simp only [mem_cons, not_mem_nil, or_false] at hx
    rcases hx with rfl | rfl
    · exact exA_wfi.wf
    · exact exB_wfi.wf
  · have h : (BlockWand.blockWand (fun (s : List Nat) d sc => (s ++ [d], sc)) 20 ([], 4) [exA, exB]).isOk ([2], 7) = true := by
      decide
    cases hr : BlockWand.blockWand (fun (s : List Nat) d sc => (s ++ [d], sc)) 20 ([], 4) [exA, exB] with
    | ok o => rw [hr] at h; simp only [BlockWand.Outcome.isOk, decide_eq_true_eq] at h; rw [h]
    | assertFailed => rw [hr] at h; cases h
    | skipAhead => rw [hr] at h; cases h
    | outOfFuel => rw [hr] at h; cases h

/-- the two scorers of the example: the heap of capacity 1 ends with document 2 (3 + 4 = 7) -/
example : (match BlockWand.blockWand (heapCb 100) 20 (Heap.new 1, 0) [exA, exB] with
    | .ok o => decide (o.1.heap = [⟨7, 102⟩]) && decide (o.2 = 7)
    | _ => false) = true := by decide

/-- `C06_search_end_to_end` on the example (one segment at base 100, TopDocs(1)): the real driver's
final heap is the fruit, and the merged page is the best entry of ALL 2^31 - 1 candidate documents -/
example : mergeTopK natGt 1 0 [[⟨7, 102⟩]]
    = topK (le natGt) 1 0
        ([((100 : Nat), Wand.unionTotal [exA.rest, exB.rest])].map fun seg => segEntries seg.1 seg.2 0 BlockWand.T).flatten := by
  have hrun : (match BlockWand.blockWand (heapCb 100) 20 (Heap.new (0 + 1), 0) [exA, exB] with
      | .ok o => decide (o.1.heap = [⟨7, 102⟩]) && decide (o.2 = 7)
      | _ => false) = true := by decide
  refine C06_search_end_to_end 1 0 _ _ (.cons ?_ .nil) ?_
  · cases hr : BlockWand.blockWand (heapCb 100) 20 (Heap.new (0 + 1), 0) [exA, exB] with
    | ok o =>
      rw [hr] at hrun
      simp only [Bool.and_eq_true, decide_eq_true_eq] at hrun
      have := (C06_wand_union_collects_topk 100 (0 + 1) 20 [exA, exB] (by
        intro x hx
        simp only [mem_cons, not_mem_nil, or_false] at hx
        rcases hx with rfl | rfl
        · exact exA_wfi.wf
        · exact exB_wfi.wf) o hr).1
      dsimp only
      have e : Wand.unionTotal ([exA, exB].map (·.rest)) = Wand.unionTotal [exA.rest, exB.rest] := rfl
      rw [← e, ← this, hrun.1]
    | assertFailed => rw [hr] at hrun; cases hrun
    | skipAhead => rw [hr] at hrun; cases hrun
    | outOfFuel => rw [hr] at hrun; cases hrun
  · simp only [map_cons, map_nil, flatten_cons, flatten_nil, append_nil]
    exact (segEntries_asc _ _ _ _).nodup

/-- `C06_wand_intersection_total` on the example: two fresh scorers, no full block, fuel 2 -/
example : BlockWand.blockWandInter (fun (s : List Nat) d sc => (s ++ [d], sc)) 2 ([], 4) [exA, exB]
    = .ok (Wand.exhRange (fun (s : List Nat) d sc => (s ++ [d], sc)) (Wand.interTotal ([exA, exB].map (·.rest))) 0 BlockWand.T ([], 4)) :=
  C06_wand_intersection_total _ _ recordCb_mono 2 [] 4 trivial [exA, exB]
    (by intro x hx; simp only [mem_cons, not_mem_nil, or_false] at hx; rcases hx with rfl | rfl <;> [exact exA_wfi; exact exB_wfi])
    (by intro x hx; simp only [mem_cons, not_mem_nil, or_false] at hx; rcases hx with rfl | rfl <;> rfl)
    (by decide) (by decide)

/-- `C06_wand_union_total` on the example: four postings, fuel 5 -/
example : BlockWand.blockWand (fun (s : List Nat) d sc => (s ++ [d], sc)) 5 ([], 4) [exA, exB]
    = .ok (Wand.exhRange (fun (s : List Nat) d sc => (s ++ [d], sc)) (Wand.unionTotal ([exA, exB].map (·.rest))) 0 BlockWand.T ([], 4)) :=
  C06_wand_union_total _ _ recordCb_mono 5 [] 4 trivial [exA, exB]
    (by
      intro x hx
      simp only [mem_cons, not_mem_nil, or_false] at hx
      rcases hx with rfl | rfl
      · exact ⟨exA_wfi.wf, fun b hb => by simp [exA] at hb⟩
      · exact ⟨exB_wfi.wf, fun b hb => by simp [exB] at hb⟩)
    (by intro x hx; simp only [mem_cons, not_mem_nil, or_false] at hx; rcases hx with rfl | rfl <;> rfl)
    (by decide)

/-- with document 2 deleted the union driver's heap keeps document 1 (score 3): the run itself is
evaluated, the specification side is what `C06_wand_union_collects_topk_total` says about it -/
example : (match BlockWand.blockWand (heapCbA 100 (fun d => d != 2)) 5 (Heap.new 1, 0) [exA, exB] with
    | .ok o => decide (o.1.heap = [⟨3, 101⟩])
    | _ => false) = true := by decide

/-- a scorer whose `max_score` (1) is BELOW its scores — `UB_max` fails — still gives a completing run -/
example : ∃ out, BlockWand.blockWand (fun (s : List Nat) d sc => (s ++ [d], sc)) 5 ([], 0)
    [{ exA with maxScore := 1 }, exB] = .ok out :=
  C06_wand_union_completes _ _ recordCb_mono 5 [] 0 trivial _
    (by
      intro x hx
      simp only [mem_cons, not_mem_nil, or_false] at hx
      rcases hx with rfl | rfl
      · exact ⟨exA_wfi.wf.asc, exA_wfi.wf.lt, fun b hb => by simp [exA] at hb⟩
      · exact ⟨exB_wfi.wf.asc, exB_wfi.wf.lt, fun b hb => by simp [exB] at hb⟩)
    (by intro x hx; simp only [mem_cons, not_mem_nil, or_false] at hx; rcases hx with rfl | rfl <;> rfl)
    (by decide)

def exTerms : List Wand.TermList := [⟨[(2, 3), (9, 1)], 3⟩, ⟨[(5, 4)], 4⟩, ⟨[(5, 2), (6, 2)], 2⟩]
example : Wand.findPivot 5 exTerms 0 = some 5 ∧ Wand.totalScore exTerms 2 = 3 ∧ Wand.totalScore exTerms 5 = 6 := by
  decide

end TantivyModel.C06
