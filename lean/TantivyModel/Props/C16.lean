import TantivyModel.Proofs.GrammarFold
import TantivyModel.Proofs.GrammarSimplify
import TantivyModel.Proofs.GrammarFoldNeg
import TantivyModel.Proofs.GrammarChars
import TantivyModel.Proofs.GrammarPhrase
import TantivyModel.Proofs.GrammarCharsPrint
import TantivyModel.Proofs.GrammarCharsPrintList
import TantivyModel.Proofs.GrammarCharsNested
import TantivyModel.Proofs.GrammarCharsBoost
import TantivyModel.Proofs.GrammarCharsText
import TantivyModel.Proofs.GrammarCharsLenientTotal
import TantivyModel.Proofs.GrammarCharsLenientLeaf
import TantivyModel.Proofs.GrammarFoldSafe
import TantivyModel.Proofs.GrammarFoldSafeN
import TantivyModel.Model.Grammar.Agree
/-!
# C16 — The query parser is total and implements its documented grammar

Property theorems only (lemmas in `Proofs/Grammar.lean`). Fold layer: `lenientFold` /
`strictFold` / `rewrite` mirror `aggregate_infallible_expressions` /
`aggregate_binary_expressions` / `rewrite_ast`; `semAst m res v t` is what the `BooleanQuery`
tree built from `t` matches (`res` resolves leaves, `v` says whether a resolved leaf matches the
document at hand).
-/
namespace TantivyModel.C16
open TantivyModel TantivyModel.Grammar

variable {L T : Type}

/-! ## `Occur::compose` -/

theorem C16_occur_compose_assoc (a b c : Occur) :
    Occur.compose (Occur.compose a b) c = Occur.compose a (Occur.compose b c) := by
  cases a <;> cases b <;> cases c <;> rfl

/-- `Should` is the unit, `MustNot` is an involution up to `Must`, `Must` absorbs `Should` -/
theorem C16_occur_compose_laws (a : Occur) :
    Occur.compose .should a = a ∧ Occur.compose a .should = (if a = .should then .should else a)
    ∧ Occur.compose .mustNot .mustNot = .must
    ∧ Occur.compose .must a = (if a = .mustNot then .mustNot else .must) := by
  cases a <;> simp [Occur.compose]

example : Occur.compose (Occur.compose .must .mustNot) .mustNot = .must := by decide

/-! ## totality and strict/lenient agreement of the fold -/

/-- the lenient fold always returns a tree; it reports an error exactly when the first parsed
    leaf is preceded by an operator; with no parsed leaf it returns the empty query
    (termination of every model function is checked by Lean) -/
theorem C16_model_total (input : List (RawItem L)) :
    ∃ t errs, lenientFold input = (t, errs)
      ∧ (errs = [] ↔ earlyOperand (keepParsed input) = false)
      ∧ (keepParsed input = [] → t = Ast.emptyQuery) :=
  lenientFold_total input

example : lenientFold ([(some .and, none, some (.leaf 1)), (none, none, none)] : List (RawItem Nat))
    = (.leaf 1, [.earlyOperand]) := rfl

/-- the strict fold (first leaf without operator — guaranteed by the strict grammar) never fails -/
theorem C16_strict_fold_total (left : Option Occur × Ast L) (others : List (Item L)) :
    ∃ t, strictFold left others = .ok t :=
  strictFold_ok left others

/-- where the strict fold reports no error the lenient fold returns the same tree and no error -/
theorem C16_lenient_agrees_fold (left : Option Occur × Ast L) (others : List (Item L)) (t : Ast L)
    (h : strictFold left others = .ok t) :
    lenientFold ((none, left.1, some left.2) :: others.map rawOf) = (t, []) :=
  lenient_of_strict left others t h

/-- the special case of a single leaf in `ast()` is the fold of a one-element list -/
theorem C16_strict_single_is_fold (first : Option Occur × Ast L) :
    strictAst first [] = strictFold first [] :=
  strictAst_single first

example : strictFold (none, (.leaf 1 : Ast Nat)) [(some .or, none, .leaf 2), (some .and, none, .leaf 3)]
    = .ok (.clause [(some .should, .leaf 1),
        (some .should, .clause [(some .must, .leaf 2), (some .must, .leaf 3)])]) := rfl

/-! ## meaning of the folded trees -/

/-- **AND binds tighter than OR.** For every operand list `a₀ op₁ a₁ … opₙ aₙ` without markers
    (operands that resolve, i.e. are not trimmed away), the tree built by the fold means the OR
    over the maximal AND-runs (`orOfAnds`: read left to right, `AND` extends the current
    conjunction, `OR` closes it). -/
theorem C16_precedence (m : Mode) (res : L → LAst T) (v : T → Bool) (a0 : Ast L)
    (rest : List (BinOp × Ast L))
    (hd0 : isDead (toLogical m res a0) = false)
    (hdr : ∀ x ∈ rest, isDead (toLogical m res x.2) = false) :
    semAst m res v (lenientFold ((chainFrom none a0 rest).map rawOf)).1
      = orOfAnds (semAst m res v a0) (rest.map (fun x => (x.1, semAst m res v x.2))) := by
  rw [lenientFold_map_rawOf _ (by rfl)]
  exact precedence_sem m res v a0 rest hd0 hdr

/-- `a OR b AND c OR d AND e AND f` = `a ∨ (b ∧ c) ∨ (d ∧ e ∧ f)` -/
example (a b c d e f : Bool) :
    orOfAnds a [(.or, b), (.and, c), (.or, d), (.and, e), (.and, f)] = (a || (b && c) || (d && e && f)) := by
  cases a <;> cases b <;> cases c <;> cases d <;> cases e <;> cases f <;> rfl

example : (lenientFold ((chainFrom none (.leaf 1 : Ast Nat) [(.and, .leaf 2), (.or, .leaf 3)]).map rawOf)).1
    = .clause [(some .should, .clause [(some .must, .leaf 1), (some .must, .leaf 2)]), (some .should, .leaf 3)] := rfl

/-- **AND/OR chains whose operands may carry `-`** (covers the operand bound to AND, e.g.
    `a OR -b AND c`, where no "should-not" may be synthesised). For every operand list
    `[-]a₀ op₁ [-]a₁ … opₙ [-]aₙ` the folded tree means the OR over the maximal AND-runs, where a
    run holds iff it has an unmarked operand, all its unmarked operands hold and none of its `-`
    operands holds; in particular a lone `-x` between ORs (the synthesised should-not) and a run
    of only `-` operands contribute nothing. `C16_precedence` is the case without markers. -/
theorem C16_precedence_markers (m : Mode) (res : L → LAst T) (v : T → Bool) (n0 : Bool) (a0 : Ast L)
    (rest : List (BinOp × Bool × Ast L))
    (hd0 : isDead (toLogical m res a0) = false)
    (hdr : ∀ x ∈ rest, isDead (toLogical m res x.2.2) = false) :
    semAst m res v (lenientFold ((chainFromN none n0 a0 rest).map rawOf)).1
      = runsN (!n0) (litv n0 (semAst m res v a0))
          (rest.map fun x => (x.1, x.2.1, semAst m res v x.2.2)) := by
  rw [lenientFold_map_rawOf _ (by rfl)]
  exact precedenceN_sem m res v n0 a0 rest hd0 hdr

/-- `a OR -b AND c` = `a ∨ (¬b ∧ c)`, `a OR -b` = `a`, `-a AND -b` = nothing -/
example (a b c : Bool) :
    runsN (!false) (litv false a) [(.or, true, b), (.and, false, c)] = (a || (!b && c))
    ∧ runsN (!false) (litv false a) [(.or, true, b)] = a
    ∧ runsN (!true) (litv true a) [(.and, true, b)] = false := by
  cases a <;> cases b <;> cases c <;> decide

/-- the operand bound to AND keeps its MUST_NOT (no should-not is synthesised for it) -/
example : (lenientFold ((chainFromN none false (.leaf 1 : Ast Nat) [(.or, true, .leaf 2), (.and, false, .leaf 3)]).map rawOf)).1
    = .clause [(some .should, .leaf 1), (some .should, .clause [(some .mustNot, .leaf 2), (some .must, .leaf 3)])] := rfl

/-- **`+` / `-` markers.** A list of clauses with optional markers and no operators means: every
    `+` clause matches, no `-` clause matches and, when no clause is required, at least one of the
    others matches; an unmarked clause takes the mode's default occur. -/
theorem C16_markers (m : Mode) (res : L → LAst T) (v : T → Bool) (cs : List (Entry L))
    (hd : NoDead m res cs) :
    semAst m res v (lenientFold ((marksItems cs).map rawOf)).1
      = boolSem (cs.map (fun e => (e.1.getD m.occ, semAst m res v e.2))) := by
  rw [lenientFold_map_rawOf _ (by cases cs <;> rfl)]
  exact markers_sem m res v cs hd

example : (lenientFold ((marksItems [(some .must, (.leaf 1 : Ast Nat)), (none, .leaf 2), (some .mustNot, .leaf 3)]).map rawOf)).1
    = .clause [(some .must, .leaf 1), (none, .leaf 2), (some .mustNot, .leaf 3)] := rfl

/-- **default mode.** Juxtaposed unmarked clauses: any of them in the default mode, all of them
    after `set_conjunction_by_default`. -/
theorem C16_default_mode (m : Mode) (res : L → LAst T) (v : T → Bool) (as : List (Ast L))
    (hne : as ≠ []) (hd : ∀ a ∈ as, isDead (toLogical m res a) = false) :
    semAst m res v (lenientFold ((marksItems (as.map fun a => (none, a))).map rawOf)).1
      = (match m with
         | .orDefault => as.any (semAst m res v)
         | .andDefault => as.all (semAst m res v)) := by
  rw [C16_markers m res v _ (by
    intro e he
    obtain ⟨a, ha, rfl⟩ := List.mem_map.mp he
    exact hd a ha)]
  rw [List.map_map]
  cases m with
  | orDefault =>
    have : (as.map ((fun e : Entry L => (e.1.getD Mode.orDefault.occ, semAst .orDefault res v e.2)) ∘ fun a => (none, a)))
        = (as.map (semAst .orDefault res v)).map (fun b => (Occur.should, b)) := by
      rw [List.map_map]; rfl
    rw [this, boolSem_all_should]
    simp [List.any_map]
  | andDefault =>
    have : (as.map ((fun e : Entry L => (e.1.getD Mode.andDefault.occ, semAst .andDefault res v e.2)) ∘ fun a => (none, a)))
        = (as.map (semAst .andDefault res v)).map (fun b => (Occur.must, b)) := by
      rw [List.map_map]; rfl
    rw [this, boolSem_all_must _ (by simpa using hne)]
    simp [List.all_map]

example : semAst .andDefault (LAst.leaf) (fun n : Nat => n == 1)
    (lenientFold ((marksItems [(none, (.leaf 1 : Ast Nat)), (none, .leaf 2)]).map rawOf)).1 = false := rfl
example : semAst .orDefault (LAst.leaf) (fun n : Nat => n == 1)
    (lenientFold ((marksItems [(none, (.leaf 1 : Ast Nat)), (none, .leaf 2)]).map rawOf)).1 = true := rfl

/-- `a OR -b`: the fold synthesises a "should-not" clause `?(-b)`; as a pure negation matches
    nothing on its own, the query means `a`. `a AND -b` means `a` and not `b`. -/
theorem C16_markers_or_minus (m : Mode) (res : L → LAst T) (v : T → Bool) (a b : Ast L)
    (ha : isDead (toLogical m res a) = false) (hb : isDead (toLogical m res b) = false) :
    (lenientFold [(none, none, some a), (some .or, some .mustNot, some b)]).1
        = .clause [(some .should, a), (some .should, .clause [(some .mustNot, b)])]
    ∧ semAst m res v (lenientFold [(none, none, some a), (some .or, some .mustNot, some b)]).1
        = semAst m res v a
    ∧ semAst m res v (lenientFold [(none, none, some a), (some .and, some .mustNot, some b)]).1
        = (semAst m res v a && !semAst m res v b) := by
  refine ⟨rfl, ?_, ?_⟩
  · show semAst m res v (.clause [(some .should, a), (some .should, .clause [(some .mustNot, b)])]) = _
    simp [semAst, toLogical, toLogicalL, semL, semLs, isDead, allDead, ha, hb, boolSem]
  · show semAst m res v (.clause [(some .must, a), (some .mustNot, b)]) = _
    simp [semAst, toLogical, toLogicalL, semL, semLs, ha, hb, boolSem]

/-- redundant parentheses: a group around a single unmarked operand is that operand, and a
    parenthesised AND-run inside an AND-run does not change the meaning -/
theorem C16_group_assoc (m : Mode) (res : L → LAst T) (v : T → Bool) (a b c : Ast L)
    (ha : isDead (toLogical m res a) = false) (hb : isDead (toLogical m res b) = false)
    (hc : isDead (toLogical m res c) = false) :
    (lenientFold [(none, none, some a)]).1 = a
    ∧ semAst m res v (lenientFold [(none, none, some a),
          (some .and, none, some (lenientFold [(none, none, some b), (some .and, none, some c)]).1)]).1
      = semAst m res v (lenientFold [(none, none, some a), (some .and, none, some b), (some .and, none, some c)]).1 := by
  refine ⟨rfl, ?_⟩
  show semAst m res v (.clause [(some .must, a), (some .must, .clause [(some .must, b), (some .must, c)])])
    = semAst m res v (.clause [(some .must, a), (some .must, b), (some .must, c)])
  simp [semAst, toLogical, toLogicalL, semL, semLs, isDead, allDead, ha, hb, hc, boolSem, Bool.and_assoc]

/-! ## `rewrite_ast` -/

/-- `rewrite_ast` keeps the meaning of every tree that satisfies the side condition `safeWith`
    (Model/Grammar/Safe.lean): removing duplicate clauses never matters, and unwrapping an unmarked
    singleton group `(None, Clause [(o, x)])` to `(o, x)` is harmless when `o` is absent or the
    mode's default occur. (The `NOT` normalisation — `o = MustNot` — deliberately changes the
    meaning, see `C16_rewrite_not_is_minus`; other explicit occurs are the defect witnessed by
    `C16_rewrite_preserves_sem_counterexample`.) -/
theorem C16_rewrite_preserves_sem [DecidableEq L] (m : Mode) (res : L → LAst T) (v : T → Bool)
    (t : Ast L) (h : safeWith m false t = true) :
    semAst m res v (rewrite t) = semAst m res v t :=
  (rewrite_ok m res v t h).1

example : safeWith .orDefault false
    (.clause [(none, .clause [(none, .leaf 1), (none, .leaf 1)]), (none, .leaf 2), (none, (.leaf 2 : Ast Nat))]) = true
    ∧ rewrite (.clause [(none, .clause [(none, .leaf 1), (none, .leaf 1)]), (none, .leaf 2), (none, (.leaf 2 : Ast Nat))])
      = .clause [(none, .leaf 1), (none, .leaf 2)] := ⟨rfl, rfl⟩

/-- `a NOT b` is read as `a -b`: the unmarked pure-negative group is unwrapped into a MUST_NOT
    clause (pinned by `test_not_queries_are_consistent`) -/
theorem C16_rewrite_not_is_minus [DecidableEq L] (a b : L) :
    rewrite (.clause [(none, .leaf a), (none, (Ast.leaf b).unary .mustNot)])
      = .clause [(none, .leaf a), (some .mustNot, .leaf b)] := by
  simp [rewrite, rewriteL, dedup, dedupAux, Ast.entryBeq, Ast.beq, unwrapEntry, Ast.unary]

/-- `LogicalAst::simplify` (applied by the strict `parse_query` only) keeps the meaning -/
theorem C16_simplify_preserves_sem (v : T → Bool) (t : LAst T) :
    semL v (simplify t) = semL v t :=
  (simplify_ok v t).1

example : simplify (.clause [(.should, .clause [(.should, .leaf 1), (.should, (.leaf 2 : LAst Nat))]), (.should, .leaf 3)])
    = .clause [(.should, .leaf 1), (.should, .leaf 2), (.should, .leaf 3)] := rfl

/-- hence `QueryParser::parse_query_lenient` matches what `parse_query` matches whenever the
    latter returns a query (model of both pipelines on the same syntax tree) -/
theorem C16_queryparser_lenient_agrees (m : Mode) (defaults : List Nat) (v : RLeaf → Bool)
    (a : Ast Leaf) (b : Bool) (h : strictSem m defaults v a = some b) :
    lenientSem m defaults v a = b := by
  unfold strictSem at h
  split at h
  · cases h
  · split at h
    · rename_i t hc
      simp only [Option.some.injEq] at h
      rw [← h, C16_simplify_preserves_sem]
      simp [lenientSem, hc]
    · cases h

/-- FALSE in general: `rewrite_ast` preserves the meaning of every tree
    (`∀ m t, semAst m res v (rewrite t) = semAst m res v t`).
    Witness `(+a +a) b` in the default mode: before the rewrite `(a ∧ a) ∨ b`, after it `+a b`,
    i.e. `a`; on a document containing only `b` the two differ. -/
theorem C16_rewrite_preserves_sem_counterexample :
    let t : Ast Nat := .clause [(none, .clause [(some .must, .leaf 1), (some .must, .leaf 1)]), (none, .leaf 2)]
    let v : Nat → Bool := fun n => n == 2
    rewrite t = .clause [(some .must, .leaf 1), (none, .leaf 2)]
    ∧ semAst .orDefault LAst.leaf v t = true
    ∧ semAst .orDefault LAst.leaf v (rewrite t) = false
    ∧ safeWith .orDefault true t = false := by
  intro t v
  exact ⟨rfl, rfl, rfl, rfl⟩

/-! ## character layer (`Model/Grammar/Chars.lean`): the strict grammar as a total Lean parser

The harness compares `parseStrict` with the real `parse_query` on every generated string (printed,
mutated, random UTF-8, edge cases): same tree, same error, same panic. -/
section Chars
open TantivyModel.Grammar.Chars

/-- the character tables of the model are the ones in the source (regenerated on every run) -/
theorem C16_chars_tables :
    specialChars.map Char.toNat = Gen.GRAMMAR_SPECIAL_CHARS
    ∧ escapeInWord.map Char.toNat = Gen.GRAMMAR_ESCAPE_IN_WORD
    ∧ keywords.map (fun k => k.map Char.toNat) = Gen.GRAMMAR_KEYWORDS
    ∧ Gen.GRAMMAR_SLOP_BITS = 32 := by decide

/-- the model parser is total (structural recursion on fuel): every text yields a tree, an error
    or — only without the guard in `literal` — the panic of `set_field(None)` -/
theorem C16_chars_total (guard : Bool) (s : Str) :
    parseStrictWith guard s = .panic ∨ parseStrictWith guard s = .error
      ∨ ∃ t, parseStrictWith guard s = .tree t := by
  cases h : parseStrictWith guard s with
  | panic => exact Or.inl rfl
  | error => exact Or.inr (Or.inl rfl)
  | tree t => exact Or.inr (Or.inr ⟨t, rfl⟩)

/-- once `literal` refuses an exists leaf without a field name (the pending fix), the strict
    grammar has no panic left: for every text -/
theorem C16_strict_never_panics_with_guard (s : Str) : parseStrictWith true s ≠ .panic :=
  parseStrictWith_guarded_ne_panic s

/-- **the strict grammar of the source at hand never panics**: the guard is not a hypothesis here —
    it is the constant the extractor reads from `literal` in query_grammar.rs
    (`GRAMMAR_LITERAL_GUARDS_FIELDLESS_EXISTS`); a source without the guard makes this theorem fail
    to build -/
theorem C16_strict_never_panics (s : Str) : parseStrict s ≠ .panic :=
  parseStrict_ne_panic s

/-- once `set_infallible` has its progress guard, the lenient grammar has no endless loop left:
    for every text (by induction over the four mutually recursive parsers and the set loop) -/
theorem C16_lenient_never_loops_with_guard (s : Str) : parseLenientWith true s ≠ .diverges :=
  parseLenientWith_guarded_ne_diverges s

/-- **the lenient grammar of the source at hand never loops** (the guard is the extracted constant
    `GRAMMAR_SET_LOOP_GUARD`, read from `set_infallible`) -/
theorem C16_lenient_never_loops (s : Str) : parseLenient s ≠ .diverges :=
  parseLenient_ne_diverges s

/-- without the guard `IN [` followed by U+0085 loops forever (the earlier finding), with it the
    parser returns -/
example : astInf false 6 ['I', 'N', ' ', '[', Char.ofNat 0x85] = .diverges
    ∧ (match astInf true 6 ['I', 'N', ' ', '[', Char.ofNat 0x85] with | .diverges => false | .ok _ _ _ => true) = true :=
  ⟨by rfl, by rfl⟩

/-- without the guard `+ *` panics (the known finding), with it `+ *` is a syntax error -/
theorem C16_strict_panic_witness :
    pAst false 4 ['+', ' ', '*'] = .panic ∧ pAst true 4 ['+', ' ', '*'] = .fail := ⟨rfl, rfl⟩

/- Full statement (not proved): `C16_print_parse : ∀ q canonical, parseStrict (print q) = .tree (rewrite (build q))`
   for a printer of abstract queries. Proved parts: (1) the ∀ form at leaf level — every word of
   ASCII letters and digits that is not a keyword (`C16_print_parse_leaf`, through step lemmas for
   each matcher: `wordRest`, `word`, `fieldName`, `range`, `set`, `exists_`, `regex`, `simpleTerm`,
   `plainLiteral`, `pLeaf`, `pOccurLeaf`, `pAst`, for every fuel ≥ 3); (2) the documented concrete
   forms below as kernel-checked evaluations; (3) operand lists of plain words with markers and
   AND/OR for every layout choice (`C16_print_parse_operands`, by induction). (4) the well-formed
   fragment `WFOpd` (`C16_print_parse_nested`): parenthesised lists nested to any depth whose operands
   are words, quoted phrases of any characters (printed with escapes) with slop / prefix star, field
   prefixes, bracketed and elastic ranges, sets, `*`, `name:*`, `NOT x`.
   (5) boosts on words, phrases, parenthesised lists, bracketed ranges and sets, and `name:( … )`
   groups (`C16_print_parse_boosted`). (6) compositions with the fold-layer theorems: from the text
   of an AND/OR chain resp. a marker list to its meaning (`C16_text_precedence`, `C16_text_precedence_markers`, `C16_text_markers`).
   Still open in the ∀ form: escapes inside unquoted words, regex leaves, negative numbers, boosts
   after `NOT (group)`, `*` as a range bound, blanks inside elastic ranges, unicode blanks as separators. -/
/-- **print/parse at leaf level, for all words**: the strict parser (with or without the guard)
    reads a word of ASCII letters and digits that is not `OR`/`AND`/`NOT`/`IN` as the unfielded,
    unquoted literal with exactly that text -/
theorem C16_print_parse_leaf (guard : Bool) (w : Str) (h : PlainWord w) :
    parseStrictWith guard w = .tree (.leaf (.literal none w .none 0 false)) :=
  parseStrictWith_plain guard w h

example : PlainWord ['a', 'b', 'c'] := plainWord_abc

/-- **print/parse for operand lists, for every layout choice of the printer**: the text
    `[+|-]w₀ ( [AND |OR ] [+|-]wᵢ )*` of plain words — any number of leading blanks, at least one
    blank (any number) before each further operand, any number of blanks after an operator keyword,
    any number of trailing blanks — is read by the strict parser (with or without the guard) as the
    fold of exactly those items (`strictAst` = the fold of `C16_precedence` / `C16_markers` /
    `C16_precedence_markers`), followed by `rewrite_ast`. By induction over the operand list, on
    step lemmas for each matcher with a remainder (`Proofs/GrammarCharsRem.lean`). -/
theorem C16_print_parse_operands (guard : Bool) (lead : Nat) (occ : Option Occur) (w : Str)
    (more : List PItem) (k : Nat) (hw : PlainWord w)
    (hm : ∀ it ∈ more, ∃ wi, it.opd = wordOpd wi ∧ PlainWord wi) :
    ∃ t, strictAst (normOcc occ, leafOf w) (more.map itemOf) = .ok t
      ∧ parseStrictWith guard (printList lead occ (wordOpd w) more k []) = .tree (rewrite t) := by
  refine ⟨listTree occ (wordOpd w) more, listTree_eq occ (wordOpd w) more, ?_⟩
  refine parseStrictWith_printList guard lead occ (wordOpd w) more k (.word w hw) ?_
  intro it hi
  obtain ⟨wi, he, hwi⟩ := hm it hi
  rw [he]
  exact .word wi hwi

/-- ` a   AND b OR  -c ` is such a text -/
example : printList 1 none (wordOpd ['a'])
      [⟨some .and, none, wordOpd ['b'], 2, 0⟩, ⟨some .or, some .mustNot, wordOpd ['c'], 0, 1⟩] 1 []
    = [' ', 'a', ' ', ' ', ' ', 'A', 'N', 'D', ' ', 'b', ' ', 'O', 'R', ' ', ' ', '-', 'c', ' '] := by decide
example : PlainWord ['b'] ∧ PlainWord ['c'] := ⟨⟨by simp, by decide, by decide⟩, ⟨by simp, by decide, by decide⟩⟩

/-- **print/parse for the nested fragment** (`WFOpd`: plain words, double-quoted phrases without escapes — any characters but `"` and `\`, optionally followed by a slop `~digits` (below 2^32) or the prefix star —, double-quoted phrases of ANY characters printed with `\"` and `\\` escapes (`escQuoted`), either of them with a field prefix `name:` (the name a plain word), bracketed ranges `[a TO b]`, `{a TO b}`, `[a TO b}`, `{a TO b]` with bounds of letters and digits (also with a field prefix), elastic ranges `>=a`, `<=a`, `<a`, `>a` (also with a field prefix), `*` and `name:*`, sets `IN [a b c]` of plain words with any blanks after `IN`, after `[` and between the elements (also with a field prefix), `NOT x` of a well-formed operand, and parenthesised operand lists
    of well-formed operands, to any depth, each list with `+`/`-` markers, `AND `/`OR ` and any
    layout): the strict parser reads the printed text as the tree the printer's structure denotes —
    at every level the fold (`strictAst`, see `C16_listTree_is_fold`) of the operands' trees —
    followed by `rewrite_ast`. By induction on the well-formedness derivation; a parenthesised list
    is handled by the same list theorem with `)` as the remaining input. -/
theorem C16_print_parse_nested (guard : Bool) (lead : Nat) (occ : Option Occur) (o : Opd)
    (more : List PItem) (k : Nat) (ho : WFOpd o) (hm : ∀ it ∈ more, WFOpd it.opd) :
    parseStrictWith guard (printList lead occ o more k []) = .tree (rewrite (listTree occ o more)) :=
  parseStrictWith_printList guard lead occ o more k ho hm

/-- **print/parse with boosts**: the items of a list (at the top level and inside parenthesised
    lists, to any depth) may carry a boost `^digits[.digits]` when the boosted operand is a plain
    word, a double- or single-quoted phrase (any characters, optional slop / prefix star), either with
    a field prefix, `*`, `name:*`, a parenthesised list, a bracketed range or a set, the latter two
    also with a field prefix, or `NOT x` of such a leaf (`BoostKind`; the boost then applies to the
    `NOT` clause) (`WFB true`); single-quoted phrases `'…'` (printed with `\'` and `\\` escapes) are
    operands as well; every other item is a well-formed operand of `C16_print_parse_nested`,
    a parenthesised list of such items, `name:( … )` of such items (read as the list's tree with
    `set_default_field name`; it may be boosted too), or `NOT` of an unboosted one (`WFB false`). The strict parser
    reads the printed text as `rewrite_ast` of the tree the structure denotes, in which a boosted
    operand's tree is wrapped by `applyBoost` with the value the grammar computes from the decimal
    text (`BoostLit.val`: a boost of exactly one leaves the tree unchanged). -/
theorem C16_print_parse_boosted (guard : Bool) (lead : Nat) (occ : Option Occur) (o : Opd)
    (more : List PItem) (k : Nat) (ho : ∃ b, WFB b o) (hm : ∀ it ∈ more, ∃ b, WFB b it.opd) :
    parseStrictWith guard (printList lead occ o more k []) = .tree (rewrite (listTree occ o more)) :=
  parseStrictWith_printList_boost guard lead occ o more k ho hm

/-- `(a)^2.5 [a TO b]^1` is such a text: the first item is the group boosted by 2.5 (stored as the
    decimal 25 with one fraction digit), the boost of exactly one on the range disappears -/
example :
    let g1 := boostOpd (groupOpd 0 none (wordOpd ['a']) [] 0) ⟨['2'], ['5']⟩
    let r1 := boostOpd (rangeOpd true true ['a'] ['b']) ⟨['1'], []⟩
    printList 0 none g1 [⟨none, none, r1, 0, 0⟩] 0 []
      = ['(', 'a', ')', '^', '2', '.', '5', ' ', '[', 'a', ' ', 'T', 'O', ' ', 'b', ']', '^', '1']
    ∧ g1.leaf = .boost (listTree none (wordOpd ['a']) []) (BoostText.code ⟨25, 1⟩)
    ∧ r1.leaf = (rangeOpd true true ['a'] ['b']).leaf
    ∧ WFB true g1 ∧ WFB true r1 ∧ WFB true (boostOpd (wordOpd ['a']) ⟨['2'], []⟩)
    ∧ (boostOpd (wordOpd ['a']) ⟨['2'], []⟩).text = ['a', '^', '2'] := by
  refine ⟨by decide, rfl, rfl, ?_, ?_, .boostWord _ ⟨by simp, by decide, by decide⟩ _ ⟨by simp, by decide, by simp⟩, by decide⟩
  · exact .boostGroup 0 none _ [] 0 false (fun _ => false) (.base _ (.word _ ⟨by simp, by decide, by decide⟩))
      (by intro it hi; cases hi) _ ⟨by simp, by decide, by decide⟩
  · exact .boostRange _ _ _ _ ⟨by simp, by decide⟩ ⟨by simp, by decide⟩ _ ⟨by simp, by decide, by simp⟩

/-- `t:(a -"b c")` is a well-formed item: the list's tree with the default field `t` on both leaves -/
example :
    let fgp := fieldGroupOpd ['t'] 0 none (wordOpd ['a']) [⟨none, some .mustNot, phraseEscOpd ['b', ' ', 'c'] .none, 0, 0⟩] 0
    fgp.text = ['t', ':', '(', 'a', ' ', '-', '"', 'b', ' ', 'c', '"', ')']
    ∧ fgp.leaf = .clause [(none, .leaf (.literal (some ['t']) ['a'] .none 0 false)),
        (some .mustNot, .leaf (.literal (some ['t']) ['b', ' ', 'c'] .double 0 false))]
    ∧ WFB false fgp := by
  refine ⟨by decide, rfl, ?_⟩
  refine .fieldGroup _ 0 none _ _ 0 false (fun _ => false) ⟨by simp, by decide, by decide⟩
    (.base _ (.word _ ⟨by simp, by decide, by decide⟩)) ?_
  intro it hi
  simp only [List.mem_singleton] at hi
  subst hi
  exact .base _ (.phraseEsc _ _ trivial)

/-- **from the text to the documents**: for every layout of `x₀ op₁ x₁ … opₙ xₙ` (`AND`/`OR`
    keywords, no markers, every `xᵢ` an item of `C16_print_parse_boosted`, `n ≥ 1`) the strict parser
    accepts the text, and the tree it returns means the OR over the maximal AND-runs of the
    operands' meanings — whenever the operands resolve (`isDead … = false`) and `rewrite_ast` is
    meaning-preserving on the operands' own trees (`safeWith`, decidable and true for every leaf, see
    `C16_rewrite_preserves_sem`; for the folded chain itself it is proved, `C16_chain_rewrite_safe`). -/
theorem C16_text_precedence {T : Type} (guard : Bool) (lead k : Nat) (o : Opd) (ops : List (BinOp × Opd × Nat × Nat))
    (hne : ops ≠ []) (ho : ∃ b, WFB b o) (hm : ∀ x ∈ ops, ∃ b, WFB b x.2.1)
    (m : Mode) (res : CLeaf → LAst T) (v : T → Bool)
    (hd0 : isDead (toLogical m res o.leaf) = false)
    (hdr : ∀ x ∈ ops, isDead (toLogical m res x.2.1.leaf) = false)
    (hs0 : safeWith m false o.leaf = true)
    (hsr : ∀ x ∈ ops, safeWith m false x.2.1.leaf = true) :
    ∃ t, parseStrictWith guard (printList lead none o (opItems ops) k []) = .tree t
      ∧ semAst m res v t
        = orOfAnds (semAst m res v o.leaf) (ops.map fun x => (x.1, semAst m res v x.2.1.leaf)) := by
  have hsafe : safeWith m false (listTree none o (opItems ops)) = true := by
    rw [listTree_chain o ops hne, lenientFold_map_rawOf _ (by rfl)]
    exact chain_safe m res v o.leaf _ hs0 (by
      intro y hy
      simp only [List.mem_map] at hy
      obtain ⟨x, hx, rfl⟩ := hy
      exact hsr x hx)
  refine ⟨rewrite (listTree none o (opItems ops)), ?_, ?_⟩
  · refine C16_print_parse_boosted guard lead none o (opItems ops) k ho ?_
    intro it hi
    simp only [opItems, List.mem_map] at hi
    obtain ⟨x, hx, rfl⟩ := hi
    exact hm x hx
  · rw [C16_rewrite_preserves_sem m res v _ hsafe, listTree_chain o ops hne]
    have := C16_precedence m res v o.leaf (ops.map fun x => (x.1, x.2.1.leaf)) hd0 (by
      intro y hy
      simp only [List.mem_map] at hy
      obtain ⟨x, hx, rfl⟩ := hy
      exact hdr x hx)
    simpa [List.map_map, Function.comp_def] using this

/-- **from the text to the documents, chains with `-` operands**: for every layout of
    `[-]x₀ op₁ [-]x₁ … opₙ [-]xₙ` (`AND`/`OR` keywords, `n ≥ 1`, items of `C16_print_parse_boosted`)
    the strict parser accepts the text and the tree it returns means the OR over the maximal
    AND-runs, where a run holds when it has an unmarked operand, all its unmarked operands hold and
    none of its `-` operands holds (`runsN`, the reading of `C16_precedence_markers`: an operand
    bound to AND keeps MUST_NOT inside its run, a lone `-x` between ORs contributes nothing) —
    whenever the operands resolve and `rewrite_ast` is safe on the operands' own trees. -/
theorem C16_text_precedence_markers {T : Type} (guard : Bool) (lead k : Nat) (n0 : Bool) (o : Opd)
    (nops : List (BinOp × Bool × Opd × Nat × Nat)) (hne : nops ≠ [])
    (ho : ∃ b, WFB b o) (hm : ∀ x ∈ nops, ∃ b, WFB b x.2.2.1)
    (m : Mode) (res : CLeaf → LAst T) (v : T → Bool)
    (hd0 : isDead (toLogical m res o.leaf) = false)
    (hdr : ∀ x ∈ nops, isDead (toLogical m res x.2.2.1.leaf) = false)
    (hs0 : safeWith m false o.leaf = true)
    (hsr : ∀ x ∈ nops, safeWith m false x.2.2.1.leaf = true) :
    ∃ t, parseStrictWith guard (printList lead (negMark n0) o (nopItems nops) k []) = .tree t
      ∧ semAst m res v t
        = runsN (!n0) (litv n0 (semAst m res v o.leaf))
            (nops.map fun x => (x.1, x.2.1, semAst m res v x.2.2.1.leaf)) := by
  have hsafe : safeWith m false (listTree (negMark n0) o (nopItems nops)) = true := by
    rw [listTree_chainN n0 o nops hne, lenientFold_map_rawOf _ (by rfl)]
    exact chainN_safe m n0 o.leaf _ hs0 (by
      intro y hy
      simp only [List.mem_map] at hy
      obtain ⟨x, hx, rfl⟩ := hy
      exact hsr x hx)
  refine ⟨rewrite (listTree (negMark n0) o (nopItems nops)), ?_, ?_⟩
  · refine C16_print_parse_boosted guard lead (negMark n0) o (nopItems nops) k ho ?_
    intro it hi
    simp only [nopItems, List.mem_map] at hi
    obtain ⟨x, hx, rfl⟩ := hi
    exact hm x hx
  · rw [C16_rewrite_preserves_sem m res v _ hsafe, listTree_chainN n0 o nops hne]
    have := C16_precedence_markers m res v n0 o.leaf (nops.map fun x => (x.1, x.2.1, x.2.2.1.leaf)) hd0 (by
      intro y hy
      simp only [List.mem_map] at hy
      obtain ⟨x, hx, rfl⟩ := hy
      exact hdr x hx)
    simpa [List.map_map, Function.comp_def] using this

/-- `a AND -b  OR 'c d'`: the layout and the operands of such a chain (the last one a single-quoted phrase) -/
example :
    let nops : List (BinOp × Bool × Opd × Nat × Nat) :=
      [(.and, true, wordOpd ['b'], 0, 0), (.or, false, phraseSOpd ['c', ' ', 'd'] .none, 1, 0)]
    printList 0 (negMark false) (wordOpd ['a']) (nopItems nops) 0 []
      = ['a', ' ', 'A', 'N', 'D', ' ', '-', 'b', ' ', ' ', 'O', 'R', ' ', '\'', 'c', ' ', 'd', '\'']
    ∧ safeWith .orDefault false (phraseSOpd ['c', ' ', 'd'] .none).leaf = true
    ∧ WFB false (phraseSOpd ['c', ' ', 'd'] .none)
    ∧ runsN (!false) (litv false true) [(.and, true, false), (.or, false, false)] = true := by
  exact ⟨by decide, rfl, .phraseS _ _ trivial, rfl⟩

/-- **from the text to the documents, marker lists**: for every layout of `[+|-]x₀ [+|-]x₁ … [+|-]xₙ`
    (juxtaposed, `n ≥ 1`, every `xᵢ` an item of `C16_print_parse_boosted` whose tree is a leaf: a
    word, phrase, range, set, `*`, `name:*`, with or without a field prefix) the strict parser accepts
    the text and the tree it returns means: every `+` operand holds, no `-` operand holds, and — when
    there is no `+` operand — some unmarked operand holds (default mode; all unmarked operands in
    conjunction mode): `boolSem` with the mode's default occur for the unmarked ones. -/
theorem C16_text_markers {T : Type} (guard : Bool) (lead k : Nat) (occ : Option Occur) (o : Opd)
    (ms : List (Option Occur × Opd × Nat)) (hne : ms ≠ [])
    (ho : ∃ b, WFB b o) (hm : ∀ x ∈ ms, ∃ b, WFB b x.2.1)
    (hl : ∀ e ∈ markEntries occ o ms, ∃ l, e.2 = .leaf l)
    (m : Mode) (res : CLeaf → LAst T) (v : T → Bool)
    (hd : ∀ e ∈ markEntries occ o ms, isDead (toLogical m res e.2) = false) :
    ∃ t, parseStrictWith guard (printList lead occ o (markItems ms) k []) = .tree t
      ∧ semAst m res v t
        = boolSem ((markEntries occ o ms).map fun e => (e.1.getD m.occ, semAst m res v e.2)) := by
  have hsafe : safeWith m false (listTree occ o (markItems ms)) = true := by
    rw [listTree_marks occ o ms hne, lenientFold_map_rawOf _ (by simp [markEntries, marksItems, earlyOperand])]
    exact marks_safe m _ hl
  refine ⟨rewrite (listTree occ o (markItems ms)), ?_, ?_⟩
  · refine C16_print_parse_boosted guard lead occ o (markItems ms) k ho ?_
    intro it hi
    simp only [markItems, List.mem_map] at hi
    obtain ⟨x, hx, rfl⟩ := hi
    exact hm x hx
  · rw [C16_rewrite_preserves_sem m res v _ hsafe, listTree_marks occ o ms hne]
    exact C16_markers m res v (markEntries occ o ms) hd

/-- `+a  -"b c" t:d`: the hypotheses hold -/
example :
    let ms : List (Option Occur × Opd × Nat) := [(some .mustNot, phraseEscOpd ['b', ' ', 'c'] .none, 1), (none, fieldWordOpd ['t'] ['d'], 0)]
    printList 0 (some .must) (wordOpd ['a']) (markItems ms) 0 []
      = ['+', 'a', ' ', ' ', '-', '"', 'b', ' ', 'c', '"', ' ', 't', ':', 'd']
    ∧ (∀ e ∈ markEntries (some .must) (wordOpd ['a']) ms, ∃ l, e.2 = .leaf l)
    ∧ (markEntries (some .must) (wordOpd ['a']) ms).map (·.1) = [some .must, some .mustNot, none] := by
  refine ⟨by decide, ?_, rfl⟩
  intro e he
  simp only [markEntries, List.map_cons, List.map_nil, List.mem_cons, List.mem_nil_iff, or_false] at he
  rcases he with rfl | rfl | rfl <;> exact ⟨_, rfl⟩

/-- **`rewrite_ast` is safe on folded chains**: the tree folded from `a₀ op₁ a₁ … opₙ aₙ` satisfies
    the side condition of `C16_rewrite_preserves_sem` as soon as the operands' own trees do (every
    entry of the folded tree carries an explicit occur, so nothing is unwrapped with a changed occur) -/
theorem C16_chain_rewrite_safe [DecidableEq L] (m : Mode) (res : L → LAst T) (v : T → Bool) (a0 : Ast L)
    (rest : List (BinOp × Ast L)) (h0 : safeWith m false a0 = true)
    (hr : ∀ x ∈ rest, safeWith m false x.2 = true) :
    safeWith m false (lenientFold ((chainFrom none a0 rest).map rawOf)).1 = true := by
  rw [lenientFold_map_rawOf _ (by rfl)]
  exact chain_safe m res v a0 rest h0 hr

example : safeWith .orDefault false
    (lenientFold ((chainFrom none (.leaf 1 : Ast Nat) [(.and, .leaf 2), (.or, .leaf 3)]).map rawOf)).1 = true := rfl

/-- the same for chains whose operands carry `-` (entries `NOT x` under OR are singleton clauses
    below an explicit SHOULD, so nothing is unwrapped with a changed occur either) -/
theorem C16_chain_markers_rewrite_safe [DecidableEq L] (m : Mode) (n0 : Bool) (a0 : Ast L)
    (rest : List (BinOp × Bool × Ast L)) (h0 : safeWith m false a0 = true)
    (hr : ∀ x ∈ rest, safeWith m false x.2.2 = true) :
    safeWith m false (lenientFold ((chainFromN none n0 a0 rest).map rawOf)).1 = true := by
  rw [lenientFold_map_rawOf _ (by rfl)]
  exact chainN_safe m n0 a0 rest h0 hr

example : safeWith .orDefault false
    (lenientFold ((chainFromN none false (.leaf 1 : Ast Nat) [(.or, true, .leaf 2), (.and, false, .leaf 3)]).map rawOf)).1 = true := rfl

/-- `a AND b  OR c`: the hypotheses hold (words resolve, `rewrite_ast` is safe on the leaves) -/
example :
    let o := wordOpd ['a']
    let ops : List (BinOp × Opd × Nat × Nat) := [(.and, wordOpd ['b'], 0, 0), (.or, wordOpd ['c'], 1, 0)]
    printList 0 none o (opItems ops) 0 [] = ['a', ' ', 'A', 'N', 'D', ' ', 'b', ' ', ' ', 'O', 'R', ' ', 'c']
    ∧ safeWith .orDefault false o.leaf = true
    ∧ isDead (toLogical .orDefault LAst.leaf o.leaf) = false := ⟨by decide, rfl, rfl⟩

/-- the tree of a printed list is the strict fold of the operands' trees (the subject of the
    fold-layer theorems) -/
theorem C16_listTree_is_fold (occ : Option Occur) (o : Opd) (more : List PItem) :
    strictAst (normOcc occ, o.leaf) (more.map itemOf) = .ok (listTree occ o more) :=
  listTree_eq occ o more

/-- `a ( b OR -c)  AND d` is such a text, with the tree `(?a ?(+(?b ?(-c)) +d))` before `rewrite_ast` -/
example :
    let grp := groupOpd 1 none (wordOpd ['b']) [⟨some .or, some .mustNot, wordOpd ['c'], 0, 0⟩] 0
    printList 0 none (wordOpd ['a']) [⟨none, none, grp, 0, 0⟩, ⟨some .and, none, wordOpd ['d'], 1, 0⟩] 0 []
      = ['a', ' ', '(', ' ', 'b', ' ', 'O', 'R', ' ', '-', 'c', ')', ' ', ' ', 'A', 'N', 'D', ' ', 'd']
    ∧ WFOpd grp := by
  refine ⟨by decide, ?_⟩
  refine .group 1 none _ _ 0 (.word _ ⟨by simp, by decide, by decide⟩) ?_
  intro it hi
  simp only [List.mem_singleton] at hi
  subst hi
  exact .word _ ⟨by simp, by decide, by decide⟩

/-- `"a (b"` is a well-formed phrase operand (its body may contain blanks and special characters) -/
example : (phraseOpd ['a', ' ', '(', 'b']).text = ['"', 'a', ' ', '(', 'b', '"']
    ∧ WFOpd (phraseOpd ['a', ' ', '(', 'b']) :=
  ⟨by decide, .phrase _ (by simp [PhraseBody])⟩

/-- `t:a` and `t:"a b"` are well-formed operands, read as literals with the field set -/
example : (fieldWordOpd ['t'] ['a']).text = ['t', ':', 'a']
    ∧ (fieldWordOpd ['t'] ['a']).leaf = .leaf (.literal (some ['t']) ['a'] .none 0 false)
    ∧ WFOpd (fieldWordOpd ['t'] ['a'])
    ∧ WFOpd (fieldPhraseOpd ['t'] ['a', ' ', 'b']) :=
  ⟨by decide, rfl, .fieldWord _ _ ⟨by simp, by decide, by decide⟩ ⟨by simp, by decide, by decide⟩,
    .fieldPhrase _ _ ⟨by simp, by decide, by decide⟩ (by simp [PhraseBody])⟩

/-- `"a b"~12` and `t:"a"*` are well-formed operands with slop 12 resp. the prefix flag -/
example : (phraseSfxOpd ['a', ' ', 'b'] (.slop ['1', '2'])).text = ['"', 'a', ' ', 'b', '"', '~', '1', '2']
    ∧ (phraseSfxOpd ['a', ' ', 'b'] (.slop ['1', '2'])).leaf = .leaf (.literal none ['a', ' ', 'b'] .double 12 false)
    ∧ WFOpd (phraseSfxOpd ['a', ' ', 'b'] (.slop ['1', '2']))
    ∧ (fieldPhraseSfxOpd ['t'] ['a'] .pfx).leaf = .leaf (.literal (some ['t']) ['a'] .double 0 true)
    ∧ WFOpd (fieldPhraseSfxOpd ['t'] ['a'] .pfx) :=
  ⟨by decide, rfl, .phraseSfx _ _ (by simp [PhraseBody]) ⟨by simp, by decide, by decide⟩, rfl,
    .fieldPhraseSfx _ _ _ ⟨by simp, by decide, by decide⟩ (by simp [PhraseBody]) trivial⟩

/-- `t:[a TO b}` is a well-formed operand: the range with an inclusive lower and an exclusive upper bound -/
example : (fieldRangeOpd ['t'] true false ['a'] ['b']).text = ['t', ':', '[', 'a', ' ', 'T', 'O', ' ', 'b', '}']
    ∧ (fieldRangeOpd ['t'] true false ['a'] ['b']).leaf = .leaf (.range (some ['t']) (.incl ['a']) (.excl ['b']))
    ∧ WFOpd (fieldRangeOpd ['t'] true false ['a'] ['b']) :=
  ⟨by decide, rfl, .fieldRange _ _ _ _ _ ⟨by simp, by decide, by decide⟩ ⟨by simp, by decide⟩ ⟨by simp, by decide⟩⟩

/-- `t:IN  [a  b]` is a well-formed operand: the set of `a` and `b` on field `t` -/
example : (fieldSetOpd ['t'] 1 0 ['a'] [(1, ['b'])]).text = ['t', ':', 'I', 'N', ' ', ' ', '[', 'a', ' ', ' ', 'b', ']']
    ∧ (fieldSetOpd ['t'] 1 0 ['a'] [(1, ['b'])]).leaf = .leaf (.set (some ['t']) [['a'], ['b']])
    ∧ WFOpd (fieldSetOpd ['t'] 1 0 ['a'] [(1, ['b'])]) := by
  refine ⟨by decide, rfl, .fieldSet _ _ _ _ _ ⟨by simp, by decide, by decide⟩ ⟨⟨by simp, by decide, by decide⟩, ?_⟩⟩
  intro e he
  simp only [List.mem_singleton] at he
  subst he
  exact ⟨by simp, by decide, by decide⟩

/-- `"a\"\\"` (the phrase body `a"\` printed with escapes) is a well-formed operand that reads back as that body -/
example : (phraseEscOpd ['a', '"', '\\'] .none).text = ['"', 'a', '\\', '"', '\\', '\\', '"']
    ∧ (phraseEscOpd ['a', '"', '\\'] .none).leaf = .leaf (.literal none ['a', '"', '\\'] .double 0 false)
    ∧ WFOpd (phraseEscOpd ['a', '"', '\\'] .none) :=
  ⟨by decide, rfl, .phraseEsc _ _ trivial⟩

/-- `t:>=5`, `*` and `t:*` are well-formed operands -/
example : (fieldElasticOpd ['t'] 0 ['5']).text = ['t', ':', '>', '=', '5']
    ∧ (fieldElasticOpd ['t'] 0 ['5']).leaf = .leaf (.range (some ['t']) (.incl ['5']) .unbounded)
    ∧ WFOpd (fieldElasticOpd ['t'] 0 ['5']) ∧ WFOpd allOpd ∧ WFOpd (existsOpd ['t'])
    ∧ (existsOpd ['t']).leaf = .leaf (.exists ['t']) :=
  ⟨by decide, rfl, .fieldElastic _ _ _ ⟨by simp, by decide, by decide⟩ ⟨by simp, by decide⟩, .all,
    .existsField _ ⟨by simp, by decide, by decide⟩, rfl⟩

/-- `NOT  t:a` is a well-formed operand, read as the clause `(-t:a)` -/
example : (notOpd 1 (fieldWordOpd ['t'] ['a'])).text = ['N', 'O', 'T', ' ', ' ', 't', ':', 'a']
    ∧ (notOpd 1 (fieldWordOpd ['t'] ['a'])).leaf
        = .clause [(some .mustNot, .leaf (.literal (some ['t']) ['a'] .none 0 false))]
    ∧ WFOpd (notOpd 1 (fieldWordOpd ['t'] ['a'])) :=
  ⟨by decide, rfl, .not _ _ (.fieldWord _ _ ⟨by simp, by decide, by decide⟩ ⟨by simp, by decide, by decide⟩)⟩

/-- `C16_print_parse_partial`: the documented forms parse to the documented trees -/
theorem C16_print_parse_partial :
    pAst false 4 ['a', 'b', 'c'] = .ok (.leaf (.literal none ['a', 'b', 'c'] .none 0 false)) []
    ∧ pAst false 4 ['t', ':', 'a'] = .ok (.leaf (.literal (some ['t']) ['a'] .none 0 false)) []
    ∧ pAst false 4 ['"', 'a', ' ', 'b', '"', '~', '2'] = .ok (.leaf (.literal none ['a', ' ', 'b'] .double 2 false)) []
    ∧ pAst false 5 ['a', ' ', 'A', 'N', 'D', ' ', 'b', ' ', 'O', 'R', ' ', 'c']
        = .ok (.clause [(some .should, .clause [(some .must, .leaf (.literal none ['a'] .none 0 false)),
              (some .must, .leaf (.literal none ['b'] .none 0 false))]),
            (some .should, .leaf (.literal none ['c'] .none 0 false))]) [] :=
  ⟨rfl, rfl, rfl, rfl⟩

/-- `abc` : a word -/
example : pAst false 4 ['a', 'b', 'c'] = .ok (.leaf (.literal none ['a', 'b', 'c'] .none 0 false)) [] := by rfl

/-- `title:abc` : field prefix -/
example : pAst false 4 ['t', 'i', 't', 'l', 'e', ':', 'a', 'b', 'c'] = .ok (.leaf (.literal (some ['t', 'i', 't', 'l', 'e']) ['a', 'b', 'c'] .none 0 false)) [] := by rfl

/-- `title : abc` : spaces around the colon -/
example : pAst false 4 ['t', 'i', 't', 'l', 'e', ' ', ':', ' ', 'a', 'b', 'c'] = .ok (.leaf (.literal (some ['t', 'i', 't', 'l', 'e']) ['a', 'b', 'c'] .none 0 false)) [] := by rfl

/-- `"a b"~2` : phrase with slop -/
example : pAst false 4 ['"', 'a', ' ', 'b', '"', '~', '2'] = .ok (.leaf (.literal none ['a', ' ', 'b'] .double 2 false)) [] := by rfl

/-- `'a b'*` : prefix phrase, single quotes -/
example : pAst false 4 ['\'', 'a', ' ', 'b', '\'', '*'] = .ok (.leaf (.literal none ['a', ' ', 'b'] .single 0 true)) [] := by rfl

/-- `a\:b` : escaped colon inside a word -/
example : pAst false 4 ['a', '\\', ':', 'b'] = .ok (.leaf (.literal none ['a', ':', 'b'] .none 0 false)) [] := by rfl

/-- `"a\"b"` : escaped quote inside a phrase -/
example : pAst false 4 ['"', 'a', '\\', '"', 'b', '"'] = .ok (.leaf (.literal none ['a', '"', 'b'] .double 0 false)) [] := by rfl

/-- `f:[a TO b}` : range, inclusive lower and exclusive upper bound -/
example : pAst false 4 ['f', ':', '[', 'a', ' ', 'T', 'O', ' ', 'b', '}'] = .ok (.leaf (.range (some ['f']) (.incl ['a']) (.excl ['b']))) [] := by rfl

/-- `f:{* TO b]` : open lower bound -/
example : pAst false 4 ['f', ':', '{', '*', ' ', 'T', 'O', ' ', 'b', ']'] = .ok (.leaf (.range (some ['f']) .unbounded (.incl ['b']))) [] := by rfl

/-- `f:>=-5` : comparison form with a negative number -/
example : pAst false 4 ['f', ':', '>', '=', '-', '5'] = .ok (.leaf (.range (some ['f']) (.incl ['-', '5']) .unbounded)) [] := by rfl

/-- `f: IN [a "b c" -2]` : set -/
example : pAst false 4 ['f', ':', ' ', 'I', 'N', ' ', '[', 'a', ' ', '"', 'b', ' ', 'c', '"', ' ', '-', '2', ']'] = .ok (.leaf (.set (some ['f']) [['a'], ['b', ' ', 'c'], ['-', '2']])) [] := by rfl

/-- `f:*` : exists -/
example : pAst false 4 ['f', ':', '*'] = .ok (.leaf (.exists ['f'])) [] := by rfl

/-- `*` : all documents -/
example : pAst false 4 ['*'] = .ok (.leaf .all) [] := by rfl

/-- `a^2.50` : boost (stored as decimal digits and scale) -/
example : pAst false 4 ['a', '^', '2', '.', '5', '0'] = .ok (.boost (.leaf (.literal none ['a'] .none 0 false)) (25 * 65536 + 1)) [] := by rfl

/-- `a^1.0` : a boost of one is dropped -/
example : pAst false 4 ['a', '^', '1', '.', '0'] = .ok (.leaf (.literal none ['a'] .none 0 false)) [] := by rfl

/-- `a AND b OR c` : AND binds tighter than OR -/
example : pAst false 5 ['a', ' ', 'A', 'N', 'D', ' ', 'b', ' ', 'O', 'R', ' ', 'c'] = .ok (.clause [(some .should, .clause [(some .must, .leaf (.literal none ['a'] .none 0 false)), (some .must, .leaf (.literal none ['b'] .none 0 false))]), (some .should, .leaf (.literal none ['c'] .none 0 false))]) [] := by rfl

/-- `+a -b c` : occur markers -/
example : pAst false 5 ['+', 'a', ' ', '-', 'b', ' ', 'c'] = .ok (.clause [(some .must, .leaf (.literal none ['a'] .none 0 false)), (some .mustNot, .leaf (.literal none ['b'] .none 0 false)), (none, .leaf (.literal none ['c'] .none 0 false))]) [] := by rfl

/-- `( a OR  b )` : parentheses and redundant whitespace -/
example : pAst false 8 ['(', ' ', 'a', ' ', 'O', 'R', ' ', ' ', 'b', ' ', ')'] = .ok (.clause [(some .should, .leaf (.literal none ['a'] .none 0 false)), (some .should, .leaf (.literal none ['b'] .none 0 false))]) [] := by rfl

/-- `((a))` : redundant parentheses -/
example : pAst false 12 ['(', '(', 'a', ')', ')'] = .ok (.leaf (.literal none ['a'] .none 0 false)) [] := by rfl

/-- `NOT a` : NOT -/
example : pAst false 5 ['N', 'O', 'T', ' ', 'a'] = .ok (.clause [(some .mustNot, .leaf (.literal none ['a'] .none 0 false))]) [] := by rfl

/-- `f:(a b)` : field scope over a group -/
example : pAst false 8 ['f', ':', '(', 'a', ' ', 'b', ')'] = .ok (.clause [(none, .leaf (.literal (some ['f']) ['a'] .none 0 false)), (none, .leaf (.literal (some ['f']) ['b'] .none 0 false))]) [] := by rfl

/-! ## strict vs lenient at character level (`Model/Grammar/CharsLenient.lean`, `Agree.lean`)

The harness compares `parseLenient` with the real `parse_query_lenient` (tree and number of
errors) on every generated string, and evaluates the statement below on every string. -/

/-- **strict and lenient agree at leaf level, for all words**: the lenient grammar (with or without
    its loop guard) reads every word of ASCII letters and digits that is not a keyword as the strict
    grammar does (`C16_print_parse_leaf`) — the same tree and no error. The ∀ part of
    `C16_lenient_agrees_chars` proved so far; by step lemmas through `wordInfChars`, `wordInf`,
    `simpleTermInf`, `termOrPhraseInf`, `literalNoGroupInf`, `leafInf`, `operandInf`, `sepLoop`,
    `astInf`. -/
theorem C16_lenient_agrees_leaf (gs gl : Bool) (w : Str) (h : PlainWord w) :
    ∃ t, parseStrictWith gs w = .tree t ∧ parseLenientWith gl w = .tree t 0 :=
  ⟨_, parseStrictWith_plain gs w h, parseLenientWith_plain gl w h⟩

example : featureFree ['a', 'b', 'c'] = true ∧ PlainWord ['a', 'b', 'c'] := ⟨rfl, plainWord_abc⟩

/- Full statement (not proved; evaluated by the harness on every generated text — real parsers
   and Lean models — as the executable predicate `agreesOn`):
   `theorem C16_lenient_agrees_chars (s : Str) (t : Ast CLeaf) (hs : parseStrict s = .tree t)
       (hf : featureFree s = true) : parseLenient s = .tree t 0`
   where `featureFree` (Agree.lean) is the decidable textual predicate "none of the catalogued
   divergence features occurs". Proved part: kernel-checked agreement on the documented forms. -/
theorem C16_lenient_agrees_chars_partial :
    (agreesAt 12 ['a', 'b', 'c'] = true ∧ featureFree ['a', 'b', 'c'] = true)
    ∧ (agreesAt 12 ['t', 'i', 't', 'l', 'e', ':', 'a', 'b', 'c'] = true ∧ featureFree ['t', 'i', 't', 'l', 'e', ':', 'a', 'b', 'c'] = true)
    ∧ (agreesAt 12 ['"', 'a', ' ', 'b', '"', '~', '2'] = true ∧ featureFree ['"', 'a', ' ', 'b', '"', '~', '2'] = true)
    ∧ (agreesAt 12 ['\'', 'a', ' ', 'b', '\'', '*'] = true ∧ featureFree ['\'', 'a', ' ', 'b', '\'', '*'] = true)
    ∧ (agreesAt 12 ['f', ':', '[', 'a', ' ', 'T', 'O', ' ', 'b', '}'] = true ∧ featureFree ['f', ':', '[', 'a', ' ', 'T', 'O', ' ', 'b', '}'] = true)
    ∧ (agreesAt 12 ['f', ':', '{', '*', ' ', 'T', 'O', ' ', 'b', ']'] = true ∧ featureFree ['f', ':', '{', '*', ' ', 'T', 'O', ' ', 'b', ']'] = true)
    ∧ (agreesAt 12 ['f', ':', ' ', 'I', 'N', ' ', '[', 'a', ' ', '"', 'b', ' ', 'c', '"', ' ', '-', '2', ']'] = true ∧ featureFree ['f', ':', ' ', 'I', 'N', ' ', '[', 'a', ' ', '"', 'b', ' ', 'c', '"', ' ', '-', '2', ']'] = true)
    ∧ (agreesAt 12 ['f', ':', '*'] = true ∧ featureFree ['f', ':', '*'] = true)
    ∧ (agreesAt 12 ['*'] = true ∧ featureFree ['*'] = true)
    ∧ (agreesAt 12 ['a', '^', '2', '.', '5'] = true ∧ featureFree ['a', '^', '2', '.', '5'] = true)
    ∧ (agreesAt 12 ['a', ' ', 'A', 'N', 'D', ' ', 'b', ' ', 'O', 'R', ' ', 'c'] = true ∧ featureFree ['a', ' ', 'A', 'N', 'D', ' ', 'b', ' ', 'O', 'R', ' ', 'c'] = true)
    ∧ (agreesAt 12 ['+', 'a', ' ', '-', 'b', ' ', 'c'] = true ∧ featureFree ['+', 'a', ' ', '-', 'b', ' ', 'c'] = true)
    ∧ (agreesAt 12 ['(', ' ', 'a', ' ', 'O', 'R', ' ', ' ', 'b', ' ', ')'] = true ∧ featureFree ['(', ' ', 'a', ' ', 'O', 'R', ' ', ' ', 'b', ' ', ')'] = true)
    ∧ (agreesAt 12 ['(', '(', 'a', ')', ')'] = true ∧ featureFree ['(', '(', 'a', ')', ')'] = true)
    ∧ (agreesAt 12 ['N', 'O', 'T', ' ', 'a'] = true ∧ featureFree ['N', 'O', 'T', ' ', 'a'] = true)
    ∧ (agreesAt 12 ['f', ':', '(', 'a', ' ', 'b', ')'] = true ∧ featureFree ['f', ':', '(', 'a', ' ', 'b', ')'] = true) := by
  refine ⟨⟨rfl, rfl⟩, ⟨rfl, rfl⟩, ⟨rfl, rfl⟩, ⟨rfl, rfl⟩, ⟨rfl, rfl⟩, ⟨rfl, rfl⟩, ⟨rfl, rfl⟩, ⟨rfl, rfl⟩, ⟨rfl, rfl⟩, ⟨rfl, rfl⟩, ⟨rfl, rfl⟩, ⟨rfl, rfl⟩, ⟨rfl, rfl⟩, ⟨rfl, rfl⟩, ⟨rfl, rfl⟩, ⟨rfl, rfl⟩⟩

/-- one witness per catalogued strict/lenient divergence family: the strict grammar accepts the text,
    the lenient grammar returns another tree or an error, and `featureFree` excludes the text -/
theorem C16_lenient_divergence_witnesses :
    -- C16:lenient-range-space-before-closing-bracket
    (divergesAt 8 ['[', 'a', ' ', 'T', 'O', ' ', 'b', ' ', ']'] = true ∧ featureFree ['[', 'a', ' ', 'T', 'O', ' ', 'b', ' ', ']'] = false)
    ∧
    -- C16:lenient-set-space-after-opening-bracket
    (divergesAt 8 ['I', 'N', ' ', '[', ' ', '\'', 'a', '\'', ']'] = true ∧ featureFree ['I', 'N', ' ', '[', ' ', '\'', 'a', '\'', ']'] = false)
    ∧
    -- C16:lenient-regex-commit-differs-from-strict
    (divergesAt 8 ['c', ':', '/', 'a', '/', 'b'] = true ∧ featureFree ['c', ':', '/', 'a', '/', 'b'] = false)
    ∧
    -- C16:lenient-range-commit-differs-from-strict
    (divergesAt 8 ['>'] = true ∧ featureFree ['>'] = false)
    ∧
    -- C16:lenient-not-requires-plain-space
    (divergesAt 8 ['N', 'O', 'T', '\t', 'a'] = true ∧ featureFree ['N', 'O', 'T', '\t', 'a'] = false)
    ∧
    -- C16:lenient-not-keyword-vs-field-name
    (divergesAt 8 ['x', ' ', 'N', 'O', 'T', ' ', ':', 'b'] = true ∧ featureFree ['x', ' ', 'N', 'O', 'T', ' ', ':', 'b'] = false)
    ∧
    -- C16:lenient-range-bound-escape-differs
    (divergesAt 8 ['<', ' ', 's', '\\', ' ', 'a'] = true ∧ featureFree ['<', ' ', 's', '\\', ' ', 'a'] = false)
    ∧
    -- C16:lenient-negative-number-with-suffix
    (divergesAt 8 ['n', ':', '-', '1', '~', '0'] = true ∧ featureFree ['n', ':', '-', '1', '~', '0'] = false)
    ∧
    -- C16:lenient-touching-clauses-differ-from-strict
    (divergesAt 8 ['a', ' ', 'b', '(', 'c', ')'] = true ∧ featureFree ['a', ' ', 'b', '(', 'c', ')'] = false)
  := by
  refine ⟨⟨rfl, rfl⟩, ⟨rfl, rfl⟩, ⟨rfl, rfl⟩, ⟨rfl, rfl⟩, ⟨rfl, rfl⟩, ⟨rfl, rfl⟩, ⟨rfl, rfl⟩, ⟨rfl, rfl⟩, ⟨rfl, rfl⟩⟩


end Chars

/-! ## phrase literals: the compile step (`Model/Grammar/Phrase.lean`)

`generate_literals_for_str` numbers the phrase terms by the analyzer's `token.position`. The harness
compares the offsets in the real compiled query with `Phrase.compile (analyse …)` on every run. -/
section Phrase
open TantivyModel.Grammar.Phrase
variable {W : Type}

/-- **phrase offsets are the analyzer's positions**: the terms compiled from a quoted literal are
    exactly the kept words, each with its index in the literal as offset (a dropped token leaves
    its gap) -/
theorem C16_phrase_offsets_are_positions (keep : W → Bool) (ws : List W) (o : Nat) (w : W) :
    (o, w) ∈ compile (analyse keep ws) ↔ (ws[o]? = some w ∧ keep w = true) := by
  rw [compile_eq]
  unfold analyse
  rw [mem_analyseFrom]
  constructor
  · rintro ⟨i, rfl, h1, h2⟩
    exact ⟨by simpa using h1, h2⟩
  · rintro ⟨h1, h2⟩
    exact ⟨o, by omega, h1, h2⟩

/-- **the gap is preserved**: a document that contains the literal's words verbatim (whatever
    precedes and follows, whichever words the analyzer drops) matches the compiled phrase -/
theorem C16_phrase_keeps_gap [DecidableEq W] (keep : W → Bool) (pre ws post : List W)
    (h : analyse keep ws ≠ []) :
    phraseMatch (compile (analyse keep ws)) (analyse keep (pre ++ ws ++ post)) = true := by
  rw [compile_eq]
  cases hA : analyse keep ws with
  | nil => exact absurd hA h
  | cons t rest =>
    obtain ⟨o0, w0⟩ := t
    have hd : (pre.length + o0, w0) ∈ analyse keep (pre ++ ws ++ post) :=
      mem_doc_of_mem_phrase keep pre ws post o0 w0 (by rw [hA]; simp)
    unfold phraseMatch
    simp only [List.any_eq_true]
    refine ⟨(pre.length + o0, w0), hd, ?_⟩
    simp only [decide_true, Bool.true_and, List.all_eq_true]
    intro t ht
    obtain ⟨a, b⟩ := t
    have hm := mem_doc_of_mem_phrase keep pre ws post a b (by rw [hA]; exact List.mem_cons_of_mem _ ht)
    have hle := analyseFrom_head_le keep 0 ws o0 w0 rest hA (a, b) ht
    have e : pre.length + o0 + (a - o0) = pre.length + a := by simp only at hle; omega
    simp only [e]
    exact List.contains_iff_mem.mpr hm

/-- numbering the terms by their index in the surviving token list (the seeded change C16-C)
    loses the gap: `quick the fox` (0 = a stop word) no longer matches its own text and matches
    `quick fox` instead -/
theorem C16_phrase_by_index_loses_gap :
    let keep : Nat → Bool := fun w => w != 0
    phraseMatch (compile (analyse keep [1, 0, 2])) (analyse keep [1, 0, 2]) = true
    ∧ phraseMatch (compileByIndex (analyse keep [1, 0, 2])) (analyse keep [1, 0, 2]) = false
    ∧ phraseMatch (compileByIndex (analyse keep [1, 0, 2])) (analyse keep [1, 2]) = true
    ∧ phraseMatch (compile (analyse keep [1, 0, 2])) (analyse keep [1, 2]) = false := by
  decide

example : analyse (fun w : Nat => w != 0) [1, 0, 2] ≠ [] := by decide

end Phrase

end TantivyModel.C16
