import TantivyModel.Proofs.Grammar
/-!
# C16 — The query parser is total and implements its documented grammar

Property theorems only (lemmas in `Proofs/Grammar.lean`). Fold layer: `lenientFold` /
`strictFold` / `rewrite` mirror `aggregate_infallible_expressions` /
`aggregate_binary_expressions` / `rewrite_ast`; `semAst m res v t` is what the `BooleanQuery`
tree built from `t` matches (`res` resolves leaves, `v` says whether a resolved leaf matches the
document at hand).
-/
namespace TantivyModel.C16
open TantivyModel TantivyModel.Grammar

variable {L T : Type}

/-! ## `Occur::compose` -/

theorem C16_occur_compose_assoc (a b c : Occur) :
    Occur.compose (Occur.compose a b) c = Occur.compose a (Occur.compose b c) := by
  cases a <;> cases b <;> cases c <;> rfl

/-- `Should` is the unit, `MustNot` is an involution up to `Must`, `Must` absorbs `Should` -/
theorem C16_occur_compose_laws (a : Occur) :
    Occur.compose .should a = a ∧ Occur.compose a .should = (if a = .should then .should else a)
    ∧ Occur.compose .mustNot .mustNot = .must
    ∧ Occur.compose .must a = (if a = .mustNot then .mustNot else .must) := by
  cases a <;> simp [Occur.compose]

example : Occur.compose (Occur.compose .must .mustNot) .mustNot = .must := by decide

/-! ## totality and strict/lenient agreement of the fold -/

/-- the lenient fold always returns a tree; it reports an error exactly when the first parsed
    leaf is preceded by an operator; with no parsed leaf it returns the empty query
    (termination of every model function is checked by Lean) -/
theorem C16_model_total (input : List (RawItem L)) :
    ∃ t errs, lenientFold input = (t, errs)
      ∧ (errs = [] ↔ earlyOperand (keepParsed input) = false)
      ∧ (keepParsed input = [] → t = Ast.emptyQuery) :=
  lenientFold_total input

example : lenientFold ([(some .and, none, some (.leaf 1)), (none, none, none)] : List (RawItem Nat))
    = (.leaf 1, [.earlyOperand]) := rfl

/-- the strict fold (first leaf without operator — guaranteed by the strict grammar) never fails -/
theorem C16_strict_fold_total (left : Option Occur × Ast L) (others : List (Item L)) :
    ∃ t, strictFold left others = .ok t :=
  strictFold_ok left others

/-- where the strict fold reports no error the lenient fold returns the same tree and no error -/
theorem C16_lenient_agrees_fold (left : Option Occur × Ast L) (others : List (Item L)) (t : Ast L)
    (h : strictFold left others = .ok t) :
    lenientFold ((none, left.1, some left.2) :: others.map rawOf) = (t, []) :=
  lenient_of_strict left others t h

/-- the special case of a single leaf in `ast()` is the fold of a one-element list -/
theorem C16_strict_single_is_fold (first : Option Occur × Ast L) :
    strictAst first [] = strictFold first [] :=
  strictAst_single first

example : strictFold (none, (.leaf 1 : Ast Nat)) [(some .or, none, .leaf 2), (some .and, none, .leaf 3)]
    = .ok (.clause [(some .should, .leaf 1),
        (some .should, .clause [(some .must, .leaf 2), (some .must, .leaf 3)])]) := rfl

end TantivyModel.C16
