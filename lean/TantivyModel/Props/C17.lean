import TantivyModel.Proofs.Sorted
import TantivyModel.Proofs.SortedDocView
import TantivyModel.Proofs.SortedOrds
/-!
# C17 — A sorted index keeps every segment in sort order, with unchanged semantics

Property theorems only; helper lemmas in `Proofs/Sorted.lean`, model in `Model/Sorted.lean`
(the definitions the driver `Driver/C17.lean` executes).
-/
namespace TantivyModel.C17
open TantivyModel TantivyModel.Merge TantivyModel.Sorted

/-- `sort_order` (fresh segment): the new→old mapping is a permutation of the row ids, and the
keys read along it are sorted in the configured direction; `None` compares below every value,
so documents without a value come first ascending and last descending. -/
theorem C17_sort_order_perm_sorted (keys : List SKey) (desc : Bool) :
    (sortOrder keys desc).Perm (List.range keys.length) ∧
    sortedKeys desc ((sortOrder keys desc).filterMap (keys[·]?)) ∧
    (∀ k, dirLe false none k = true) ∧ (∀ k, dirLe true k none = true) := by
  refine ⟨sortOrder_perm keys desc, ?_, dirLe_none_asc, dirLe_none_desc⟩
  have e : (sortOrder keys desc).filterMap (keys[·]?) = (sortedPairs keys desc).map (·.1) := by
    rw [sortOrder_eq, List.filterMap_map]
    have gen : ∀ l : List (SKey × Nat), (∀ p ∈ l, keys[p.2]? = some p.1) →
        l.filterMap ((fun x => keys[x]?) ∘ fun x => x.2) = l.map (·.1) := by
      intro l hl
      induction l with
      | nil => rfl
      | cons p rest ih =>
        simp only [List.filterMap_cons, Function.comp, hl p (by simp), List.map_cons]
        rw [← ih (fun q hq => hl q (by simp [hq]))]
    exact gen _ (fun p hp => sortedPairs_key keys desc p hp)
  unfold sortedKeys
  rw [e, List.pairwise_map]
  exact sortedPairs_sorted keys desc

/-- the sort is stable: rows with `key i ≤ key j` (in direction) and `i < j` keep their order;
in particular documents with equal keys stay in insertion order -/
theorem C17_sort_order_stable (keys : List SKey) (desc : Bool) (i j : Nat) (hij : i < j)
    (hj : j < keys.length) (hle : dirLe desc keys[i] keys[j] = true) :
    List.Sublist [i, j] (sortOrder keys desc) := by
  have hsub := pair_sublist_of_lt keys.zipIdx i j hij (by simpa using hj)
  have e1 : keys.zipIdx[i]'(by simp; omega) = (keys[i], i) := by simp
  have e2 : keys.zipIdx[j]'(by simpa using hj) = (keys[j], j) := by simp
  rw [e1, e2] at hsub
  have := List.pair_sublist_mergeSort (le := fun a b : SKey × Nat => dirLe desc a.1 b.1)
    (fun a b c => dirLe_trans desc a.1 b.1 c.1) (fun a b => dirLe_total desc a.1 b.1) hle hsub
  have := this.map (·.2)
  simpa [sortOrder] using this

example : sortOrder [some 5, none, some 3] false = [1, 2, 0] := by
  simp [sortOrder, List.zipIdx, List.mergeSort, List.MergeSort.Internal.splitInTwo, dirLe, keyLe]
example : sortOrder [some 5, none, some 5] true = [0, 2, 1] := by
  simp [sortOrder, List.zipIdx, List.mergeSort, List.MergeSort.Internal.splitInTwo, dirLe, keyLe]
example := C17_sort_order_stable [some 5, none, some 5] true 0 2 (by decide) (by decide) (by decide)

/-- `remap_and_write` / `remap_doc_opstamps`: ONE permutation `π = sortOrder keys` drives
everything. For every new doc id `n`: the per-document data (stored fields, norms, fast values)
and the opstamp at `n` are those of old doc `π n`; the old→new table is the inverse of `π`
(`o2n (π n) = n`), and each posting list is the old list with doc ids sent through old→new,
re-sorted by doc id (tf and positions travel with their posting). -/
theorem C17_remap_consistent {α} (s : RawSeg α) (keys : List SKey) (desc : Bool)
    (hd : s.docs.length = keys.length) (ho : s.opstamps.length = keys.length) :
    let π := sortOrder keys desc
    let t := sortedSegment s keys desc
    (∀ n : Nat, t.docs[n]? = (π[n]?).bind (fun o => s.docs[o]?)) ∧
    (∀ n : Nat, t.opstamps[n]? = (π[n]?).bind (fun o => s.opstamps[o]?)) ∧
    (∀ n d : Nat, π[n]? = some d → (oldToNewOf π)[d]? = some n) ∧
    (∀ k ps, (k, ps) ∈ s.terms →
      (k, remapPostingList (oldToNewOf π) ps) ∈ t.terms ∧
      (remapPostingList (oldToNewOf π) ps).Perm
        (ps.map fun p => { p with doc := (oldToNewOf π).getD p.doc 0 }) ∧
      (remapPostingList (oldToNewOf π) ps).Pairwise (fun a b => a.doc ≤ b.doc)) := by
  intro π t
  have hperm := sortOrder_perm keys desc
  have hb : ∀ o ∈ π, o < keys.length := fun o ho' => by
    have := (hperm.mem_iff).1 ho'
    simpa using this
  have hnd : π.Nodup := hperm.nodup_iff.2 List.nodup_range
  refine ⟨fun n => ?_, fun n => ?_, fun n d h => oldToNewOf_inverse π hnd n d h, ?_⟩
  · exact remap_getElem? π s.docs (fun o ho' => by rw [hd]; exact hb o ho') n
  · exact remap_getElem? π s.opstamps (fun o ho' => by rw [ho]; exact hb o ho') n
  · intro k ps hk
    refine ⟨?_, List.mergeSort_perm _ _, ?_⟩
    · show (k, _) ∈ s.terms.map _
      exact List.mem_map.2 ⟨(k, ps), hk, rfl⟩
    · have := List.pairwise_mergeSort (le := fun a b : Posting => decide (a.doc ≤ b.doc))
        (fun a b c h1 h2 => by simp at h1 h2 ⊢; omega) (fun a b => by simp; omega)
        (ps.map fun p => { p with doc := (oldToNewOf π).getD p.doc 0 })
      exact this.imp (fun h => by simpa using h)

/-- POSTINGS STAY ATTACHED TO THE RIGHT DOCUMENT. The term view of new document `n` of the sorted
segment — every term it occurs in, with term frequency and positions — is exactly the term view of
the document that was inserted as `π n` (`d = (sortOrder keys)[n]`). Together with
`C17_remap_consistent` (stored fields, norms, fast values and opstamps of `n` are those of `π n`)
this is "sorting changes nothing else", document by document. Hypothesis: the recorders hold each
document at most once per term and only ids of the segment. -/
theorem C17_remap_docview {α} (s : RawSeg α) (keys : List SKey) (desc : Bool) (n d : Nat)
    (hn : n < keys.length) (hπ : (sortOrder keys desc)[n]? = some d)
    (hpost : ∀ t ∈ s.terms, (t.2.map (·.doc)).Nodup ∧ ∀ p ∈ t.2, p.doc < keys.length) :
    docTerms (sortedSegment s keys desc).terms n = docTerms s.terms d := by
  simp only [docTerms, sortedSegment, List.filterMap_map]
  apply filterMap_congr_mem
  intro t ht
  obtain ⟨hnd, hb⟩ := hpost t ht
  have h := find_remapped keys desc t.2 n d hn hπ hnd hb
  have e : ∀ x : Option Posting, x.map (fun p => (t.1, p.tf, p.pos))
      = (x.map fun p => (p.tf, p.pos)).map fun y => (t.1, y.1, y.2) := by
    intro x; cases x <;> rfl
  simp only [Function.comp]
  rw [e, e, h]

def exRaw : RawSeg Nat :=
  { docs := [100, 101, 102], opstamps := [7, 8, 9],
    terms := [([97], [⟨0, 1, [0]⟩, ⟨2, 2, [1, 4]⟩]), ([98], [⟨1, 1, [3]⟩])] }

example := C17_remap_consistent exRaw [some 5, none, some 3] false rfl rfl
example : sortOrder [some 5, none, some 3] false = [1, 2, 0] := by
  simp [sortOrder, List.zipIdx, List.mergeSort, List.MergeSort.Internal.splitInTwo, dirLe, keyLe]
/-- new doc 1 of the sorted segment is old doc 2 and carries its postings -/
example : docTerms (sortedSegment exRaw [some 5, none, some 3] false).terms 1 = docTerms exRaw.terms 2 :=
  C17_remap_docview exRaw [some 5, none, some 3] false 1 2 (by decide)
    (by simp [sortOrder, List.zipIdx, List.mergeSort, List.MergeSort.Internal.splitInTwo, dirLe, keyLe])
    (by decide)
example : docTerms exRaw.terms 2 = [([97], 2, [1, 4])] := by decide

/-- Deletes inside the transaction: a delete with opstamp `t` hits a matching document iff the
document's opstamp is smaller. Evaluated on the sorted segment with the REMAPPED opstamps it
hits exactly the images of the documents it hits in insertion order. -/
theorem C17_deletes_same_docs (keys : List SKey) (desc : Bool) (matches_ : List Bool)
    (opstamps : List Nat) (t : Nat) (hm : matches_.length = keys.length)
    (ho : opstamps.length = keys.length) :
    deleteHits (remap (sortOrder keys desc) matches_) (remap (sortOrder keys desc) opstamps) t
      = remap (sortOrder keys desc) (deleteHits matches_ opstamps t) := by
  apply deleteHits_remap _ _ _ _ (by omega)
  intro o ho'
  have := ((sortOrder_perm keys desc).mem_iff).1 ho'
  rw [hm]; simpa using this

example := C17_deletes_same_docs [some 5, none, some 3] false [true, true, false] [10, 12, 11] 12 rfl rfl

/-- `generate_doc_id_mapping_with_sort_by_field`: merging sources that are each sorted on the key
yields a sorted sequence containing exactly the live documents of the sources. -/
theorem C17_merge_kway_sorted (desc : Bool) (runs : List Run)
    (h : ∀ r ∈ runs, sortedKeys desc (r.map (·.1))) :
    sortedKeys desc ((kmerge desc runs).map (·.1)) ∧ (kmerge desc runs).Perm runs.flatten := by
  refine ⟨?_, kmerge_perm desc runs⟩
  unfold sortedKeys
  rw [List.pairwise_map]
  exact kmerge_sorted desc runs (fun r hr => by
    have := h r hr
    unfold sortedKeys at this
    rwa [List.pairwise_map] at this)

example : (kmerge false [[(none, 0, 0), (some 5, 0, 1)], [(none, 1, 0), (some 2, 1, 1)]]).map (·.1)
    = [none, none, some 2, some 5] := by
  simp [kmerge, dirLe, keyLe]
example := C17_merge_kway_sorted false [[(none, 0, 0), (some 5, 0, 1)], [(none, 1, 0), (some 2, 1, 1)]]
  (by intro r hr; simp at hr; rcases hr with rfl | rfl <;> simp [sortedKeys, dirLe, keyLe])

/-- The k-way merge consumes every source front to back: the live documents of one source
appear in the merged segment in their old relative order (each run is a sublist of the merged
sequence), whatever the keys — so the old→new mapping restricted to one source is strictly
increasing, which is what lets `merger.rs` re-emit each source's posting lists, already in doc-id
order, without re-sorting them (C04's `remap_monotone` hypothesis discharged for sorted merges). -/
theorem C17_merge_kway_keeps_source_order (desc : Bool) (runs : List Run) (r : Run) (hr : r ∈ runs) :
    r.Sublist (kmerge desc runs) :=
  kmerge_sublist desc runs r hr

/-- consequence: two documents of one source whose doc ids increase in the source still appear
in that order in the merged sequence (pairwise statement over the source's own documents) -/
theorem C17_merge_kway_source_pairs (desc : Bool) (runs : List Run) (r : Run) (hr : r ∈ runs)
    (a b : SKey × Nat × Nat) (hab : [a, b].Sublist r) : [a, b].Sublist (kmerge desc runs) :=
  hab.trans (kmerge_sublist desc runs r hr)

example : [(some 5, 0, 1), (some 7, 0, 2)].Sublist
    (kmerge false [[(none, 0, 0), (some 5, 0, 1), (some 7, 0, 2)], [(some 6, 1, 0)]]) :=
  C17_merge_kway_source_pairs false _ [(none, 0, 0), (some 5, 0, 1), (some 7, 0, 2)] (by simp)
    _ _ (by decide)

/-- `is_disjunct_and_sorted_on_sort_property`: under the guard — every source sorted, no live
document without a value, every live key within its column's `[min, max]`, and consecutive
ranges disjunct in reader order — plain stacking of the sources is sorted. -/
theorem C17_merge_stack_sorted (desc : Bool) (sr : List (Stats × Run))
    (hsorted : ∀ p ∈ sr, sortedKeys desc (p.2.map (·.1)))
    (hrange : ∀ p ∈ sr, inRange p.1 p.2) (hvalid : ∀ p ∈ sr, p.1.1 ≤ p.1.2)
    (hd : disjunct desc (sr.map (·.1)) = true) :
    sortedKeys desc (((sr.map (·.2)).flatten).map (·.1)) := by
  unfold sortedKeys
  rw [List.pairwise_map]
  exact stack_sorted desc sr (fun p hp => by
    have := hsorted p hp
    unfold sortedKeys at this
    rwa [List.pairwise_map] at this) hrange hvalid hd

example : stackOk false [(1, 5), (5, 9)] [[(some 1, 0, 0), (some 5, 0, 1)], [(some 5, 1, 0), (some 9, 1, 1)]] = true := by
  decide
example := C17_merge_stack_sorted false
  [((1, 5), [(some 1, 0, 0), (some 5, 0, 1)]), ((5, 9), [(some 5, 1, 0), (some 9, 1, 1)])]
  (by intro p hp; simp at hp; rcases hp with rfl | rfl <;> simp [sortedKeys, dirLe, keyLe])
  (by intro p hp; simp at hp; rcases hp with rfl | rfl <;> simp [inRange])
  (by intro p hp; simp at hp; rcases hp with rfl | rfl <;> simp)
  (by decide)
/-- a live document without a value blocks stacking (it must move to the front / back) -/
example : stackOk false [(1, 5), (6, 9)] [[(some 1, 0, 0)], [(none, 1, 0), (some 9, 1, 1)]] = false := by decide

/-! ## the live-null scan, the stack-vs-k-way decision, null placement -/

/-- `segment_has_live_nulls` is exact for `Full` and `Optional` columns: it answers `true` iff
some LIVE document has no sort value (deleted documents without value do not count; an
`Optional` column without deletes always has one). -/
theorem C17_live_nulls_scan_exact (c : SegCol) (hlen : c.keys.length = c.alive.length)
    (hcard : CardOk c) (hnm : c.card ≠ .multivalued) :
    hasLiveNulls c.card c.keys c.alive = true ↔ ∃ k ∈ c.liveKeys, k = none :=
  hasLiveNulls_iff c hlen hcard hnm

example : hasLiveNulls .optional [none, some 3] [false, true] = false
    ∧ hasLiveNulls .optional [none, some 3] [true, true] = true
    ∧ hasLiveNulls .optional [none, some 3, none] [false, true, true] = true := by decide

/-- OPEN for multi-valued sort columns (a row with zero values reads `first() = None`, but the
scan only inspects `Optional` columns): the decision says "no live null" although one exists.
Index validation asks for a single-valued fast field in its message but cannot enforce it. -/
theorem C17_multivalued_nulls_counterexample :
    hasLiveNulls .multivalued [none, some 5] [true, true] = false ∧
    stackDecision false [⟨.multivalued, [some 7], [true], (7, 7)⟩,
                         ⟨.multivalued, [none, some 9], [true, true], (9, 9)⟩] = true := by
  decide

/-- SOUNDNESS OF THE STACK-VS-K-WAY DECISION (numeric sort fields). If
`is_disjunct_and_sorted_on_sort_property` answers "stack" — ranges disjunct in reader order and
the live-null scan negative for every reader — then stacking the readers' live documents is in
sort order, provided every reader is itself sorted, holds at least one live doc (readers
without live docs are dropped by `IndexMerger::open`), its column is `Full` or `Optional`, and
the column statistics cover its values. The range and null facts `C17_merge_stack_sorted` assumed
are now DERIVED from the decision procedure. -/
theorem C17_stack_decision_sound (desc : Bool) (cs : List SegCol)
    (hlen : ∀ c ∈ cs, c.keys.length = c.alive.length)
    (hcard : ∀ c ∈ cs, CardOk c) (hnm : ∀ c ∈ cs, c.card ≠ .multivalued)
    (hstats : ∀ c ∈ cs, StatsOk c) (hne : ∀ c ∈ cs, c.liveKeys ≠ [])
    (hsorted : ∀ c ∈ cs, sortedKeys desc c.liveKeys)
    (hdec : stackDecision desc cs = true) :
    sortedKeys desc ((cs.map SegCol.liveKeys).flatten) := by
  simp only [stackDecision, Bool.and_eq_true, Bool.not_eq_true'] at hdec
  obtain ⟨hdis, hnul⟩ := hdec
  have hsome : ∀ c ∈ cs, ∀ k ∈ c.liveKeys, ∃ v, k = some v ∧ c.stats.1 ≤ v ∧ v ≤ c.stats.2 := by
    intro c hc k hk
    have hf := any_false_forall cs _ hnul c hc
    cases hkv : k with
    | none =>
      exfalso
      have := (hasLiveNulls_iff c (hlen c hc) (hcard c hc) (hnm c hc)).2 ⟨k, hk, hkv⟩
      rw [hf] at this; cases this
    | some v =>
      exact ⟨v, rfl, hstats c hc k (mem_liveDocs _ _ _ hk) v hkv⟩
  let sr : List (Stats × Run) := cs.map fun c => (c.stats, c.liveKeys.map fun k => (k, 0, 0))
  have key := stack_sorted desc sr
    (by
      intro p hp
      obtain ⟨c, hc, rfl⟩ := List.mem_map.1 hp
      simp only [List.pairwise_map]
      exact hsorted c hc)
    (by
      intro p hp
      obtain ⟨c, hc, rfl⟩ := List.mem_map.1 hp
      intro x hx
      obtain ⟨k, hk, rfl⟩ := List.mem_map.1 hx
      exact hsome c hc k hk)
    (by
      intro p hp
      obtain ⟨c, hc, rfl⟩ := List.mem_map.1 hp
      obtain ⟨k, hk⟩ := List.exists_mem_of_ne_nil _ (hne c hc)
      obtain ⟨v, _, h1, h2⟩ := hsome c hc k hk
      exact Nat.le_trans h1 h2)
    (by
      have e0 : sr.map (·.1) = cs.map (·.stats) := by simp only [sr, List.map_map]; rfl
      rw [e0]; exact hdis)
  have e : (sr.map (·.2)).flatten = ((cs.map SegCol.liveKeys).flatten).map fun k => (k, 0, 0) := by
    simp only [sr, List.map_map, List.map_flatten]
    rfl
  rw [e, List.pairwise_map] at key
  exact key

example : stackDecision false [⟨.full, [some 1, some 5], [true, true], (1, 5)⟩,
                               ⟨.optional, [none, some 5, some 9], [false, true, true], (5, 9)⟩] = true := by
  decide
example := C17_stack_decision_sound false
  [⟨.full, [some 1, some 5], [true, true], (1, 5)⟩,
   ⟨.optional, [none, some 5, some 9], [false, true, true], (5, 9)⟩]
  (by decide) (by intro c hc; simp at hc; rcases hc with rfl | rfl <;> simp [CardOk])
  (by decide)
  (by intro c hc; simp at hc; rcases hc with rfl | rfl <;> simp [StatsOk] <;> omega)
  (by decide)
  (by intro c hc; simp at hc; rcases hc with rfl | rfl <;> simp [sortedKeys, SegCol.liveKeys, Merge.liveDocs, dirLe, keyLe])
  (by decide)

/-- The REPAIRED scan (pending fix: only `Full` columns are exempt) is exact for every
cardinality, multi-valued columns included — no side condition on the cardinality is left. -/
theorem C17_live_nulls_scan_exact_repaired (c : SegCol) (hlen : c.keys.length = c.alive.length)
    (hcard : CardOk c) :
    hasLiveNullsFixed c.card c.keys c.alive = true ↔ ∃ k ∈ c.liveKeys, k = none :=
  hasLiveNullsFixed_iff c hlen hcard

example : hasLiveNullsFixed .multivalued [none, some 5] [true, true] = true
    ∧ hasLiveNullsFixed .multivalued [none, some 5] [false, true] = false := by decide

/-- Soundness of the stack decision for the scan the CURRENT source performs
(`stackDecisionG`, selected by the guards extracted from `merger.rs`). The cardinality
hypothesis is now conditional on the extracted shape: a multi-valued sort column is allowed as
soon as the source scans it (`Gen.LIVE_NULLS_SCANS_MULTIVALUED = 1`, the pending fix); with the
pinned shape the theorem needs — and says so — that no reader's sort column is multi-valued
(`C17_multivalued_nulls_counterexample` is the witness that this cannot be dropped there). The
proof does not evaluate the guard: it stays valid when the fix is applied. An edit of either
function to an unknown shape makes the driver answer `?` and `stackDecisionG = none`. -/
theorem C17_stack_decision_sound_extracted (desc : Bool) (cs : List SegCol)
    (hlen : ∀ c ∈ cs, c.keys.length = c.alive.length)
    (hcard : ∀ c ∈ cs, CardOk c)
    (hnm : ∀ c ∈ cs, c.card = .multivalued → Gen.LIVE_NULLS_SCANS_MULTIVALUED = 1)
    (hstats : ∀ c ∈ cs, StatsOk c) (hne : ∀ c ∈ cs, c.liveKeys ≠ [])
    (hsorted : ∀ c ∈ cs, sortedKeys desc c.liveKeys)
    (hdec : stackDecisionG desc cs = some true) :
    sortedKeys desc ((cs.map SegCol.liveKeys).flatten) := by
  unfold stackDecisionG at hdec
  split at hdec
  · simp only [Option.some.injEq] at hdec
    apply stack_sound_of_scan hasLiveNullsG desc cs ?_ hstats hne hsorted hdec
    intro c hc hfalse k hk hknone
    unfold hasLiveNullsG at hfalse
    by_cases hg : Gen.LIVE_NULLS_SCANS_MULTIVALUED = 1
    · simp only [hg, if_true] at hfalse
      have := (hasLiveNullsFixed_iff c (hlen c hc) (hcard c hc)).2 ⟨k, hk, hknone⟩
      rw [hfalse] at this; cases this
    · simp only [hg, if_false] at hfalse
      have hnmc : c.card ≠ .multivalued := fun h => hg (hnm c hc h)
      have := (hasLiveNulls_iff c (hlen c hc) (hcard c hc) hnmc).2 ⟨k, hk, hknone⟩
      rw [hfalse] at this; cases this
  · cases hdec

example : stackDecisionG false [⟨.full, [some 1, some 5], [true, true], (1, 5)⟩,
    ⟨.optional, [none, some 5, some 9], [false, true, true], (5, 9)⟩] = some true := by decide

/-- EVERY SEGMENT OF A SORTED INDEX IS SORTED, for every history: whatever sequence of flushes,
deletes and merges (k-way or stacked, of fresh or already merged segments) produced a segment,
its sort keys in doc-id order are sorted in the configured direction — hence (by
`C17_null_placement`) documents without value come first ascending and last descending. Induction
over `ReachableKeys`; the stacking case rests on the extracted decision procedure. -/
theorem C17_every_segment_sorted (desc : Bool) (ks : List SKey) (h : ReachableKeys desc ks) :
    sortedKeys desc ks := by
  induction h with
  | fresh keys => exact (C17_sort_order_perm_sorted keys desc).2.1
  | live ks alive _ ih => exact ih.sublist (liveDocs_sublist ks alive)
  | kway runs _ ih => exact (C17_merge_kway_sorted desc runs ih).1
  | stack cs _ hlen hcard hnm hstats hne hdec ih =>
    exact C17_stack_decision_sound_extracted desc cs hlen hcard hnm hstats hne
      (fun c hc => (ih c hc).sublist (liveDocs_sublist c.keys c.alive)) hdec

/-- a merged segment (k-way) of a fresh segment with a deleted doc and another fresh segment -/
example : ReachableKeys false ((kmerge false
    [ (Merge.liveDocs ((sortOrder [some 5, none, some 3] false).filterMap ([some 5, none, some 3][·]?)) [true, false, true]).map (fun k => (k, 0, 0)),
      ((sortOrder [some 4] false).filterMap ([some 4][·]?)).map (fun k => (k, 1, 0)) ]).map (·.1)) := by
  apply ReachableKeys.kway
  intro r hr
  simp only [List.mem_cons, List.mem_nil_iff, or_false] at hr
  rcases hr with rfl | rfl
  · have e : ((fun x : SKey × Nat × Nat => x.1) ∘ fun k : SKey => (k, 0, 0)) = id := rfl
    rw [List.map_map, e, List.map_id]
    exact ReachableKeys.live _ _ (ReachableKeys.fresh _)
  · have e : ((fun x : SKey × Nat × Nat => x.1) ∘ fun k : SKey => (k, 1, 0)) = id := rfl
    rw [List.map_map, e, List.map_id]
    exact ReachableKeys.fresh _

/-- STR / BYTES SORT FIELDS: merged term ordinals order exactly like the term bytes. For terms
`k1`, `k2` of any of the segments' dictionaries, `remapped_term_ord` compares as the byte strings
do, and equal ordinals mean equal terms — so the k-way merge on merged ordinals is the k-way merge
on the terms themselves, and the model's use of byte-order ranks as keys for str/bytes sort fields
loses nothing. -/
theorem C17_merged_ordinals_order (dicts : List (List Merge.Key)) (k1 k2 : Merge.Key)
    (h1 : ∃ d ∈ dicts, k1 ∈ d) (h2 : ∃ d ∈ dicts, k2 ∈ d) :
    (mergedOrd dicts k1 < mergedOrd dicts k2 ↔ Merge.keyLt k1 k2 = true) ∧
    (mergedOrd dicts k1 = mergedOrd dicts k2 ↔ k1 = k2) := by
  obtain ⟨hs, hm⟩ := Merge.keyUnion_props dicts
  have m1 : k1 ∈ mergedDict dicts := (hm k1).2 h1
  have m2 : k2 ∈ mergedDict dicts := (hm k2).2 h2
  refine ⟨idxOf_lt_iff_of_sorted _ hs k1 k2 m1 m2, ?_⟩
  constructor
  · exact idxOf_inj_of_mem _ k1 k2 m1 m2
  · intro h; rw [h]

example : mergedDict [[[98], [100]], [[97], [98]]] = [[97], [98], [100]] := by decide
example : mergedOrd [[[98], [100]], [[97], [98]]] [100] = 2 ∧ mergedOrd [[[98], [100]], [[97], [98]]] [97] = 0 := by
  decide

/-- NULL PLACEMENT as a property of every sorted key sequence (hence of every fresh segment by
`C17_sort_order_perm_sorted`, every k-way merged segment by `C17_merge_kway_sorted` and every
stacked segment by `C17_stack_decision_sound`): ascending, a document without value is never
preceded by one with a value (the missing values form a prefix); descending, it is never
followed by one (they form a suffix). -/
theorem C17_null_placement (ks : List SKey) :
    (sortedKeys false ks → ∀ i j (hij : i < j) (hj : j < ks.length), ks[j] = none → ks[i]'(by omega) = none) ∧
    (sortedKeys true ks → ∀ i j (hij : i < j) (hj : j < ks.length), ks[i]'(by omega) = none → ks[j] = none) :=
  ⟨fun h i j hij hj => sorted_nulls_asc ks h i j hij hj,
   fun h i j hij hj => sorted_nulls_desc ks h i j hij hj⟩

/-- null placement of the k-way merged order -/
theorem C17_merge_null_placement (desc : Bool) (runs : List Run)
    (h : ∀ r ∈ runs, sortedKeys desc (r.map (·.1))) (i j : Nat) (hij : i < j)
    (hj : j < ((kmerge desc runs).map (·.1)).length) :
    (desc = false → ((kmerge desc runs).map (·.1))[j] = none → ((kmerge desc runs).map (·.1))[i]'(by omega) = none) ∧
    (desc = true → ((kmerge desc runs).map (·.1))[i]'(by omega) = none → ((kmerge desc runs).map (·.1))[j] = none) := by
  have hs := (C17_merge_kway_sorted desc runs h).1
  constructor
  · intro hd; subst hd
    exact (C17_null_placement _).1 hs i j hij hj
  · intro hd; subst hd
    exact (C17_null_placement _).2 hs i j hij hj

end TantivyModel.C17
