import TantivyModel.Proofs.Tokenizer
import TantivyModel.Proofs.Fragments
import TantivyModel.Proofs.NgramSnippet
import TantivyModel.Proofs.Html
import TantivyModel.Proofs.Stateful
import TantivyModel.Proofs.Instances
/-!
# C19 — Tokens and snippets always point inside the text, on character boundaries

Property theorems only (helper lemmas live in `Proofs/`). A text is any list of code points; the
Unicode class `is_alphanumeric` of each code point, `char::to_lowercase`, the ASCII-folding table,
the stemmer, the dictionary matcher and the regex matcher are parameters: every theorem holds for
every assignment of them.

The model is **stateless**: every analyzer is a function of the text alone (the only buffer that
survives an `advance`, the facet tokenizer's text, is threaded explicitly inside one stream —
`facetChain`). The Rust tokenizers and filters do keep reusable buffers inside the analyzer
(`token`, `buffer`, `cuts`, `parts`) that must be reset by `token_stream`; "the tokens of a text do
not depend on what the analyzer processed before, nor on whether earlier streams were drained" is
therefore a correspondence obligation, checked by the harness on reused analyzers with abandoned
streams (`check_history`), not a theorem about this model.
-/
namespace TantivyModel.C19
open TantivyModel TantivyModel.Tok TantivyModel.Snip

/-! ### tokenizers -/

/-- SimpleTokenizer: in bounds, on boundaries, `from ≤ to`, text = slice; tokens are disjoint, in
text order, positions strictly increase -/
theorem C19_simple_offsets (s : Text) :
    Contract s (simpleTokens s) ∧ (∀ t ∈ simpleTokens s, TextIsSlice s t) ∧
    (simpleTokens s).Pairwise (fun a b => a.to ≤ b.from_ ∧ a.pos < b.pos) :=
  scanTokens_contract _ s

/-- WhitespaceTokenizer -/
theorem C19_whitespace_offsets (s : Text) :
    Contract s (whitespaceTokens s) ∧ (∀ t ∈ whitespaceTokens s, TextIsSlice s t) ∧
    (whitespaceTokens s).Pairwise (fun a b => a.to ≤ b.from_ ∧ a.pos < b.pos) :=
  scanTokens_contract _ s

/-- RawTokenizer: exactly one token, the whole text (also for the empty text) -/
theorem C19_raw_offsets (s : Text) :
    Contract s (rawTokens s) ∧
    ∀ t ∈ rawTokens s, TextIsSlice s t ∧ t.from_ = 0 ∧ t.to = byteLen s ∧ t.pos = 0 := by
  refine ⟨⟨?_, by simp [rawTokens]⟩, ?_⟩
  · intro t ht
    simp only [rawTokens, List.mem_singleton] at ht
    subst ht
    exact ⟨Nat.zero_le _, Nat.le_refl _, isBoundary_zero s, isBoundary_len s⟩
  · intro t ht
    simp only [rawTokens, List.mem_singleton] at ht
    subst ht
    exact ⟨rfl, rfl, rfl, rfl⟩

/-- RegexTokenizer, for every matcher that reports ordered matches on character boundaries
(`RegexOk`, the contract of the `regex` crate on `&str`): the cursor arithmetic keeps the contract -/
theorem C19_regex_offsets (s : Text) (ms : List (Nat × Nat)) (h : RegexOk s 0 ms) :
    Contract s (regexTokens s ms) ∧ (∀ t ∈ regexTokens s ms, TextIsSlice s t) ∧
    (regexTokens s ms).Pairwise (fun a b => a.to ≤ b.from_ ∧ a.pos < b.pos) := by
  obtain ⟨h1, h2⟩ := regexAux_spec s ms 0 0 h
  refine ⟨⟨?_, ?_⟩, ?_, ?_⟩
  · intro t ht
    simp only [regexTokens, List.mem_map] at ht
    obtain ⟨x, hx, rfl⟩ := ht
    obtain ⟨q1, q2, q3, _, _⟩ := h1 x hx
    exact ⟨q1, isBoundary_le q3, q2, q3⟩
  · simp only [regexTokens, List.pairwise_map]
    refine h2.imp_of_mem ?_
    intro a b ha _ hab
    obtain ⟨q1, _, _, _, _⟩ := h1 a ha
    simp only [mkToken]; omega
  · intro t ht
    simp only [regexTokens, List.mem_map] at ht
    obtain ⟨x, _, rfl⟩ := ht
    rfl
  · simp only [regexTokens, List.pairwise_map]
    exact h2.imp (fun h => by simpa [mkToken] using h)

/-- FacetTokenizer: every token carries offsets 0..0 and position 0 (trivially inside the text);
its text is a prefix of the text ending on a character boundary -/
theorem C19_facet_offsets (sep : Nat) (s : Text) :
    Contract s (facetTokens sep s) ∧
    ∀ t ∈ facetTokens sep s, t.from_ = 0 ∧ t.to = 0 ∧ t.pos = 0 ∧
      ∃ p, IsBoundary s p ∧ t.text = (sliceFrom 0 s 0 p).map Cp.code := by
  have key : ∀ t ∈ facetTokens sep s, t.from_ = 0 ∧ t.to = 0 ∧ t.pos = 0 ∧
      ∃ p, IsBoundary s p ∧ t.text = (sliceFrom 0 s 0 p).map Cp.code := by
    intro t ht
    simp only [facetTokens, List.mem_cons] at ht
    rcases ht with ht | ht
    · subst ht
      exact ⟨rfl, rfl, rfl, 0, isBoundary_zero s, by rw [sliceFrom_empty_of_le (Nat.le_refl 0)]; rfl⟩
    · split at ht
      · simp at ht
      · simp only [List.mem_map] at ht
        obtain ⟨p, hp, rfl⟩ := ht
        exact ⟨rfl, rfl, rfl, p, facetCuts_boundary sep s true 0 p hp, rfl⟩
  refine ⟨⟨?_, ?_⟩, key⟩
  · intro t ht
    obtain ⟨e1, e2, _, _⟩ := key t ht
    rw [e1, e2]
    exact ⟨Nat.le_refl _, Nat.zero_le _, isBoundary_zero s, isBoundary_zero s⟩
  · apply pairwise_of_forall_mem
    intro x hx y hy
    obtain ⟨a1, _, a3, _⟩ := key x hx
    obtain ⟨b1, _, b3, _⟩ := key y hy
    omega

/-- FacetTokenizer under any filter chain (the text buffer the tokenizer appends to is rewritten in
place by the filters — `facetChain`): whatever the filters do, every token carries (0, 0, 0) -/
theorem C19_facet_chain_offsets (sep : Nat) (fs : List Filter) (s : Text) :
    Contract s (facetChain sep fs s) ∧
    ∀ t ∈ facetChain sep fs s, t.from_ = 0 ∧ t.to = 0 ∧ t.pos = 0 := by
  have key : ∀ t ∈ facetChain sep fs s, t.from_ = 0 ∧ t.to = 0 ∧ t.pos = 0 := by
    intro t ht
    simp only [facetChain, List.mem_map] at ht
    obtain ⟨x, _, rfl⟩ := ht
    exact ⟨rfl, rfl, rfl⟩
  refine ⟨⟨?_, ?_⟩, key⟩
  · intro t ht
    obtain ⟨e1, e2, _⟩ := key t ht
    rw [e1, e2]
    exact ⟨Nat.le_refl _, Nat.zero_le _, isBoundary_zero s, isBoundary_zero s⟩
  · apply pairwise_of_forall_mem
    intro x hx y hy
    obtain ⟨a1, _, a3⟩ := key x hx
    obtain ⟨b1, _, b3⟩ := key y hy
    omega

/-- the two facet models agree: with no filters the threaded buffer just rebuilds the prefixes -/
theorem C19_facet_chain_nil (sep : Nat) (s : Text) : facetChain sep [] s = facetTokens sep s :=
  facetChain_nil sep s

/-- … but the facet tokens' text is *not* the slice their offsets point to (the code never assigns
the offsets): text `a`, second token has text `a` and offsets 0..0 -/
theorem C19_facet_text_not_slice_counterexample :
    ∃ (s : Text) (t : Token), t ∈ facetTokens 0 s ∧ ¬ TextIsSlice s t := by
  refine ⟨[⟨97, true⟩], ⟨0, 0, 0, [97]⟩, by decide, by unfold TextIsSlice; decide⟩

/-- NgramTokenizer on valid scalar values (the extracted 16-entry width table agrees with UTF-8):
the stuttering iterator yields **exactly** the pairs `(F[i], F[i+k])`, `min ≤ k ≤ max`, in order,
over the boundary list `F` of the text — for every text length, including texts shorter than
`min` (no pair) -/
theorem C19_ngram_enumeration (s : Text) (hv : ∀ c ∈ s, c.code < 0x110000) (minG maxG : Nat)
    (hmin : 0 < minG) (hle : minG ≤ maxG) :
    stutterAll (frontiers s) minG maxG = ngramSpec (boundariesFrom 0 s) minG maxG := by
  rw [frontiers_eq_boundaries s hv]
  exact stutterAll_eq_spec (boundariesFrom 0 s) minG maxG hmin hle (by cases s <;> simp [boundariesFrom])

/-- the guards of `NgramTokenizer::new` (read from the source) accept exactly the settings the
n-gram theorems assume: every constructible n-gram tokenizer has `0 < min_gram ≤ max_gram` -/
theorem C19_ngram_constructor_guards (minG maxG : Nat) :
    ngramNewOk minG maxG = true ↔ (0 < minG ∧ minG ≤ maxG) := by
  have h1 : Gen.NGRAM_NEW_REJECTS_ZERO_MIN = 1 := by decide
  have h2 : Gen.NGRAM_NEW_REJECTS_MIN_GT_MAX = 1 := by decide
  unfold ngramNewOk
  rw [h1, h2]
  simp
  omega

/-- NgramTokenizer (all n-grams and prefix-only): token contract, text = slice, position 0 -/
theorem C19_ngram_offsets (s : Text) (hv : ∀ c ∈ s, c.code < 0x110000) (minG maxG : Nat)
    (hmin : 0 < minG) (hle : minG ≤ maxG) (prefixOnly : Bool) :
    Contract s (ngramTokens s minG maxG prefixOnly) ∧
    ∀ t ∈ ngramTokens s minG maxG prefixOnly, TextIsSlice s t ∧ t.pos = 0 ∧ t.from_ < t.to := by
  have hpairs := ngramOffsets_spec s hv minG maxG hmin hle prefixOnly
  obtain ⟨hin, hmono⟩ := hpairs
  refine ⟨⟨?_, ?_⟩, ?_⟩
  · intro t ht
    simp only [ngramTokens, List.mem_map] at ht
    obtain ⟨p, hp, rfl⟩ := ht
    obtain ⟨q1, q2, q3⟩ := hin p hp
    exact ⟨Nat.le_of_lt q3, isBoundary_le q2, q1, q2⟩
  · simp only [ngramTokens, List.pairwise_map]
    exact hmono.imp (fun h => ⟨h, Nat.le_refl _⟩)
  · intro t ht
    simp only [ngramTokens, List.mem_map] at ht
    obtain ⟨p, hp, rfl⟩ := ht
    exact ⟨rfl, rfl, (hin p hp).2.2⟩

/-! ### filters -/

/-- every filter (lower-caser, ASCII folding, remove-long, alphanumeric-only, stop words, stemmer,
compound splitter — whatever their text-level functions do) keeps the token contract, and every
token it emits carries the offsets and position of a token it received -/
theorem C19_filter_preserves_offsets (f : Filter) (s : Text) (ts : List Token) (h : Contract s ts) :
    Contract s (f.apply ts) ∧
    ∀ t' ∈ f.apply ts, ∃ t ∈ ts, t'.from_ = t.from_ ∧ t'.to = t.to ∧ t'.pos = t.pos := by
  refine ⟨apply_contract f s ts h, ?_⟩
  intro t' ht'
  simp only [Filter.apply, List.mem_flatMap] at ht'
  obtain ⟨t, ht, ht'⟩ := ht'
  exact ⟨t, ht, onToken_offsets f t t' ht'⟩

/-- … hence every chain of filters -/
theorem C19_chain_preserves_offsets (fs : List Filter) (s : Text) (ts : List Token)
    (h : Contract s ts) :
    Contract s (applyChain fs ts) ∧
    ∀ t' ∈ applyChain fs ts, ∃ t ∈ ts, t'.from_ = t.from_ ∧ t'.to = t.to ∧ t'.pos = t.pos := by
  induction fs generalizing ts with
  | nil => exact ⟨h, fun t' ht' => ⟨t', ht', rfl, rfl, rfl⟩⟩
  | cons f fs ih =>
    obtain ⟨h1, h2⟩ := C19_filter_preserves_offsets f s ts h
    obtain ⟨i1, i2⟩ := ih (f.apply ts) h1
    refine ⟨i1, ?_⟩
    intro t' ht'
    obtain ⟨u, hu, e1, e2, e3⟩ := i2 t' ht'
    obtain ⟨t, ht, q1, q2, q3⟩ := h2 u hu
    exact ⟨t, ht, by omega, by omega, by omega⟩

/-! ### snippets -/

/-- `collapse_overlapped_ranges`: same covered set; for well-formed ranges the output is sorted and
pairwise disjoint -/
theorem C19_collapse (l : List (Nat × Nat)) :
    (∀ x, Covered (collapse l) x ↔ Covered l x) ∧
    ((∀ r ∈ l, r.1 ≤ r.2) →
      (∀ o ∈ collapse l, o.1 ≤ o.2) ∧ (collapse l).Pairwise (fun a b => a.2 ≤ b.1)) :=
  ⟨collapse_cover l, collapse_disjoint l⟩

/-- for any token stream satisfying the token contract, `snippet` does not panic, the fragment is
`text[a..b]` with `a ≤ b ≤ |text|` on boundaries, and every highlight (shifted back by `a`) is an
in-bounds range of the text on boundaries that starts inside the fragment -/
theorem C19_fragment_bounds (mode : Nat) (s : Text) (M : Nat) (ts : List STok) (hc : SContract s ts) :
    ∃ sn a b, snippet mode s M ts = some sn ∧ a ≤ b ∧ b ≤ byteLen s ∧ IsBoundary s a ∧ IsBoundary s b ∧
      sn.fragment = sliceFrom 0 s a b ∧ byteLen sn.fragment = b - a ∧
      ∀ h ∈ sn.hl, h.1 ≤ h.2 ∧ a + h.2 ≤ byteLen s ∧ IsBoundary s (a + h.1) ∧ IsBoundary s (a + h.2) := by
  obtain ⟨frags, e, hf⟩ := search_P1 mode s M ts hc
  simp only [snippet, e]
  cases hb : selectBest frags with
  | none =>
    refine ⟨⟨[], []⟩, 0, 0, rfl, Nat.le_refl _, Nat.zero_le _, isBoundary_zero s, isBoundary_zero s,
      ?_, rfl, by simp⟩
    rw [sliceFrom_empty_of_le (Nat.le_refl 0)]
  | some f =>
    have hfi := hf f (selectBest_mem frags f hb)
    simp only [mkSnippet_of_FI s f hfi]
    obtain ⟨f1, f2, f3, f4, f5⟩ := hfi
    refine ⟨_, f.start, f.stop, rfl, f1, f2, f3, f4, rfl, byteLen_slice (Nat.zero_le _) f3 f4 f1, ?_⟩
    intro h hh
    simp only [List.mem_map] at hh
    obtain ⟨x, hx, rfl⟩ := hh
    obtain ⟨q1, q2, q3, q4, q5⟩ := f5 x hx
    have e1 : f.start + (x.1 - f.start) = x.1 := by omega
    have e2 : f.start + (x.2 - f.start) = x.2 := by omega
    simp only [e1, e2]
    exact ⟨by omega, q3, q4, q5⟩

/-- with the running maximum in `try_add_token` (`mode ≠ 0`, the repaired code): for **every**
token stream satisfying the contract — no monotonicity of end offsets, no bound on the token
length — `snippet` does not panic, every highlight lies inside the fragment on character
boundaries of the fragment, and `to_html` does not panic -/
theorem C19_highlights_inside (mode : Nat) (hm : mode ≠ 0) (s : Text) (M : Nat) (ts : List STok)
    (hc : SContract s ts) :
    ∃ sn, snippet mode s M ts = some sn ∧
      (∀ h ∈ sn.hl, h.1 ≤ h.2 ∧ h.2 ≤ byteLen sn.fragment ∧
        IsBoundary sn.fragment h.1 ∧ IsBoundary sn.fragment h.2) ∧
      ∃ out, toHtml sn = some out := by
  obtain ⟨frags, e, hf⟩ := search_P7 hm s M ts hc
  exact snippet_inside mode s M ts frags e hf

/-- … for the code as it is (`stopMode` is read from `try_add_token` by the extractor): once the
source keeps the running maximum, the statement holds for the model the driver executes -/
theorem C19_highlights_inside_code (hfix : stopMode ≠ 0) (s : Text) (M : Nat) (ts : List STok)
    (hc : SContract s ts) :
    ∃ sn, snippet stopMode s M ts = some sn ∧
      (∀ h ∈ sn.hl, h.1 ≤ h.2 ∧ h.2 ≤ byteLen sn.fragment ∧
        IsBoundary sn.fragment h.1 ∧ IsBoundary sn.fragment h.2) ∧
      ∃ out, toHtml sn = some out :=
  C19_highlights_inside stopMode hfix s M ts hc

/- Full statement (false with the plain assignment `stopMode = 0`, see the counterexamples below): "…and every highlight lies inside
the fragment, `b − a ≤ max_num_chars`". Proved parts: -/

/-- if moreover the end offsets never decrease (every built-in tokenizer except the full n-gram
enumeration; filters keep it), every highlight lies inside the fragment on boundaries of the
fragment string, and `to_html` does not panic -/
theorem C19_highlights_inside_partial (mode : Nat) (s : Text) (M : Nat) (ts : List STok) (hc : SContract s ts)
    (hto : ts.Pairwise (fun a b => a.to ≤ b.to)) :
    ∃ sn, snippet mode s M ts = some sn ∧
      (∀ h ∈ sn.hl, h.1 ≤ h.2 ∧ h.2 ≤ byteLen sn.fragment ∧
        IsBoundary sn.fragment h.1 ∧ IsBoundary sn.fragment h.2) ∧
      ∃ out, toHtml sn = some out := by
  obtain ⟨frags, e, hf⟩ := search_P2 mode s M ts hc hto
  exact snippet_inside mode s M ts frags e hf

/-- the same conclusion for token streams whose end offsets dip and recover like an n-gram
enumeration (`RecOkN`: every new maximum of `offset_to` is immediately preceded by the previous
maximum, and the last token holds the maximum), provided no single token is longer than
`max_num_chars` -/
theorem C19_highlights_inside_records_partial (mode : Nat) (s : Text) (M : Nat) (ts : List STok)
    (hc : SContract s ts) (hlen : ∀ t ∈ ts, t.to - t.from_ ≤ M)
    (hrec : RecOkN 0 0 (ts.map (·.to))) :
    ∃ sn, snippet mode s M ts = some sn ∧
      (∀ h ∈ sn.hl, h.1 ≤ h.2 ∧ h.2 ≤ byteLen sn.fragment ∧
        IsBoundary sn.fragment h.1 ∧ IsBoundary sn.fragment h.2) ∧
      ∃ out, toHtml sn = some out := by
  obtain ⟨frags, e, hf⟩ := search_records mode s M ts hc hlen hrec
  exact snippet_inside mode s M ts frags e hf

/-- … instantiated: the full n-gram tokenizer (any `min ≤ max`), any text of valid scalar values,
any query terms, any `max_num_chars` that no single n-gram exceeds (e.g. `4·max_gram` bytes):
`snippet` and `to_html` do not panic and every highlight lies inside the fragment -/
theorem C19_ngram_analyzer_snippet_safe_partial (mode : Nat) (s : Text) (hv : ∀ c ∈ s, c.code < 0x110000)
    (minG maxG : Nat) (hmin : 0 < minG) (hle : minG ≤ maxG) (M : Nat) (sc : Token → Option Nat)
    (hlen : ∀ t ∈ ngramTokens s minG maxG false, t.to - t.from_ ≤ M) :
    ∃ sn, snippet mode s M ((ngramTokens s minG maxG false).map (toSTok sc)) = some sn ∧
      (∀ h ∈ sn.hl, h.1 ≤ h.2 ∧ h.2 ≤ byteLen sn.fragment ∧
        IsBoundary sn.fragment h.1 ∧ IsBoundary sn.fragment h.2) ∧
      ∃ out, toHtml sn = some out := by
  obtain ⟨hc, _⟩ := C19_ngram_offsets s hv minG maxG hmin hle false
  apply C19_highlights_inside_records_partial
  · refine ⟨?_, ?_⟩
    · intro t ht
      simp only [List.mem_map] at ht
      obtain ⟨u, hu, rfl⟩ := ht
      exact hc.inb u hu
    · simp only [List.pairwise_map, toSTok]
      exact hc.mono.imp (fun h => h.1)
  · intro t ht
    simp only [List.mem_map] at ht
    obtain ⟨u, hu, rfl⟩ := ht
    exact hlen u hu
  · have := ngram_recOk s hv minG maxG hmin hle
    simpa [ngramTokens, toSTok, mkToken, List.map_map, Function.comp_def] using this

/-- … in closed form: `max_num_chars ≥ 4 · max_gram` suffices (e.g. the default 150 with every
`max_gram ≤ 37`); the length bound then follows from `C19_fragment_length_partial` -/
theorem C19_ngram_analyzer_snippet_safe (mode : Nat) (s : Text) (hv : ∀ c ∈ s, c.code < 0x110000)
    (minG maxG : Nat) (hmin : 0 < minG) (hle : minG ≤ maxG) (M : Nat) (hM : 4 * maxG ≤ M)
    (sc : Token → Option Nat) :
    ∃ sn, snippet mode s M ((ngramTokens s minG maxG false).map (toSTok sc)) = some sn ∧
      (∀ h ∈ sn.hl, h.1 ≤ h.2 ∧ h.2 ≤ byteLen sn.fragment ∧
        IsBoundary sn.fragment h.1 ∧ IsBoundary sn.fragment h.2) ∧
      ∃ out, toHtml sn = some out :=
  C19_ngram_analyzer_snippet_safe_partial mode s hv minG maxG hmin hle M sc
    (fun t ht => Nat.le_trans (ngram_token_len s hv minG maxG hmin hle false t ht) hM)

/-- if no single token is longer than `max_num_chars` bytes, the fragment has at most
`max_num_chars` bytes, hence at most `max_num_chars` characters -/
theorem C19_fragment_length_partial (mode : Nat) (s : Text) (M : Nat) (ts : List STok) (hc : SContract s ts)
    (hlen : ∀ t ∈ ts, t.to - t.from_ ≤ M) :
    ∃ sn, snippet mode s M ts = some sn ∧ byteLen sn.fragment ≤ M ∧ sn.fragment.length ≤ M := by
  obtain ⟨frags, e, hf⟩ := search_P3 mode s M ts hc hlen
  simp only [snippet, e]
  cases hb : selectBest frags with
  | none => exact ⟨⟨[], []⟩, rfl, by simp [byteLen], by simp⟩
  | some f =>
    obtain ⟨hfi, hl⟩ := hf f (selectBest_mem frags f hb)
    simp only [mkSnippet_of_FI s f hfi]
    obtain ⟨f1, _, f3, f4, _⟩ := hfi
    have hb := byteLen_slice (Nat.zero_le _) f3 f4 f1
    refine ⟨_, rfl, by simp only; omega, ?_⟩
    have := length_le_byteLen (sliceFrom 0 s f.start f.stop)
    simp only; omega

/-- the fragment-length clause, **full and unconditional** in the form that is true: for every
contract-satisfying token stream the fragment is within `max_num_chars` bytes **or** it is spanned
by one single token of the stream (`text[t.from..t.to]`, the token that opened the fragment) —
exactly the shape of the recorded S7 finding, nothing else can exceed the limit -/
theorem C19_fragment_within_limit_or_single_token (mode : Nat) (s : Text) (M : Nat)
    (ts : List STok) (hc : SContract s ts) :
    ∃ sn, snippet mode s M ts = some sn ∧
      (byteLen sn.fragment ≤ M ∨
        ∃ t ∈ ts, sn.fragment = sliceFrom 0 s t.from_ t.to ∧ byteLen sn.fragment = t.to - t.from_) := by
  obtain ⟨frags, e, hf⟩ := search_P8 mode s M ts hc
  simp only [snippet, e]
  cases hb : selectBest frags with
  | none => exact ⟨⟨[], []⟩, rfl, Or.inl (by simp [byteLen])⟩
  | some f =>
    obtain ⟨hfi, hl⟩ := hf f (selectBest_mem frags f hb)
    simp only [mkSnippet_of_FI s f hfi]
    obtain ⟨f1, _, f3, f4, _⟩ := hfi
    have hlen := byteLen_slice (Nat.zero_le _) f3 f4 f1
    refine ⟨_, rfl, ?_⟩
    rcases hl with hl | ⟨t, ht, e1, e2⟩
    · left; simp only; omega
    · right
      refine ⟨t, ht, ?_, ?_⟩
      · simp only [e1, e2]
      · simp only [hlen, e1, e2]

/-- hence a bound that needs no hypothesis on the tokens: the fragment is never longer than the
larger of `max_num_chars` and the longest token -/
theorem C19_fragment_length_bound (mode : Nat) (s : Text) (M L : Nat) (ts : List STok)
    (hc : SContract s ts) (hL : ∀ t ∈ ts, t.to - t.from_ ≤ L) :
    ∃ sn, snippet mode s M ts = some sn ∧ byteLen sn.fragment ≤ max M L := by
  obtain ⟨sn, h1, h2⟩ := C19_fragment_within_limit_or_single_token mode s M ts hc
  refine ⟨sn, h1, ?_⟩
  rcases h2 with h | ⟨t, ht, _, e⟩
  · omega
  · have := hL t ht; omega

/-- DESIGN S7 (holds for the code in either mode): text `abcdefghij klm`, query `abcdefghij`,
`max_num_chars = 3`: the first token of a fragment is added unconditionally, the fragment is 10
bytes long -/
theorem C19_long_token_counterexample :
    ∃ (M : Nat) (ts : List STok) (f : Frag),
      searchFragments stopMode M ts = some [f] ∧ f.stop - f.start > M := by
  refine ⟨3, [⟨0, 10, some 8⟩, ⟨11, 14, none⟩], ⟨8, 0, 10, [(0, 10)]⟩, ?_, ?_⟩ <;> decide

/-- while `try_add_token` assigns the stop offset plainly (`stopMode = 0`): text `abcd`, all
n-grams (1,3), terms a, ab, abc, b, bc, `max_num_chars = 2`: the token contract holds but the end
offsets are not monotone; the selected snippet is `ab` with a highlight 0..3 outside it, and
`to_html` panics -/
theorem C19_highlight_outside_counterexample (hplain : stopMode = 0) :
    ∃ (s : Text) (M : Nat) (ts : List STok) (sn : Snippet),
      SContract s ts ∧ snippet stopMode s M ts = some sn ∧ byteLen sn.fragment = 2 ∧
      (0, 3) ∈ sn.hl ∧ toHtml sn = none := by
  rw [hplain]
  refine ⟨[⟨97, true⟩, ⟨98, true⟩, ⟨99, true⟩, ⟨100, true⟩], 2,
    [⟨0, 1, some 1⟩, ⟨0, 2, some 1⟩, ⟨0, 3, some 1⟩, ⟨1, 2, some 1⟩, ⟨1, 3, some 1⟩, ⟨1, 4, none⟩,
     ⟨2, 3, none⟩, ⟨2, 4, none⟩, ⟨3, 4, none⟩],
    ⟨[⟨97, true⟩, ⟨98, true⟩], [(0, 3), (1, 2)]⟩, ⟨by decide, by decide⟩, by decide, by decide,
    by decide, by decide⟩

/-- the same failure (again only while `stopMode = 0`) with the default `max_num_chars = 150` and
no over-long token: n-grams (1,3) of `abcd` behind a stop-word filter that removes `d` and `cd` —
the stream ends with (2,3), the term token (1,4) ends after the fragment's stop offset -/
theorem C19_highlight_outside_filtered_counterexample (hplain : stopMode = 0) :
    ∃ (s : Text) (ts : List STok) (sn : Snippet),
      SContract s ts ∧ (∀ t ∈ ts, t.to - t.from_ ≤ 150) ∧ snippet stopMode s 150 ts = some sn ∧
      byteLen sn.fragment = 3 ∧ sn.hl = [(1, 4)] ∧ toHtml sn = none := by
  rw [hplain]
  refine ⟨[⟨97, true⟩, ⟨98, true⟩, ⟨99, true⟩, ⟨100, true⟩],
    [⟨0, 1, none⟩, ⟨0, 2, none⟩, ⟨0, 3, none⟩, ⟨1, 2, none⟩, ⟨1, 3, none⟩, ⟨1, 4, some 1⟩, ⟨2, 3, none⟩],
    ⟨[⟨97, true⟩, ⟨98, true⟩, ⟨99, true⟩], [(1, 4)]⟩, ⟨by decide, by decide⟩, by decide, by decide,
    by decide, rfl, by decide⟩

/-- the raw highlight list has one range per matching token: with overlapping tokens (n-grams)
the ranges overlap (only `to_html` collapses them); the same in either mode -/
theorem C19_raw_highlights_overlap_counterexample :
    ∃ (s : Text) (ts : List STok) (sn : Snippet),
      SContract s ts ∧ snippet stopMode s 150 ts = some sn ∧ sn.hl = [(0, 1), (0, 2), (1, 2)] := by
  refine ⟨[⟨97, true⟩, ⟨98, true⟩], [⟨0, 1, some 1⟩, ⟨0, 2, some 1⟩, ⟨1, 2, some 1⟩],
    ⟨[⟨97, true⟩, ⟨98, true⟩], [(0, 1), (0, 2), (1, 2)]⟩, ⟨by decide, by decide⟩, by decide, rfl⟩

/-- the monotonicity clause of the contract is needed: a stream whose `offset_from` decreases
makes `next.offset_to - fragment.start_offset` underflow -/
theorem C19_offset_underflow_counterexample :
    searchFragments stopMode 0 [⟨5, 6, none⟩, ⟨0, 1, none⟩] = none := by decide

/-- `to_html`, whenever it does not panic: un-escaping and stripping the tags gives the fragment,
and no `<`, `>`, `&`, `"`, `'` is copied verbatim -/
theorem C19_html_escape (sn : Snippet) (out : List Html) (h : toHtml sn = some out) :
    strip out = sn.fragment.map Cp.code ∧ ∀ c, Html.raw c ∈ out → isSpecial c = false := by
  obtain ⟨h1, h2⟩ := toHtmlAux_spec sn.fragment (collapse sn.hl) 0 out h
  refine ⟨?_, h2⟩
  rw [h1, sliceFrom_all (Nat.le_refl 0) (by omega)]

/-- all slice indices used by `to_html` are on boundaries whenever the highlights are in-bounds
ranges on boundaries of the fragment: the Rust slicing cannot panic -/
theorem C19_to_html_no_panic (sn : Snippet)
    (hall : ∀ h ∈ sn.hl, h.1 ≤ h.2 ∧ IsBoundary sn.fragment h.1 ∧ IsBoundary sn.fragment h.2) :
    ∃ out, toHtml sn = some out := by
  obtain ⟨c1, c2⟩ := collapse_disjoint sn.hl (fun r hr => (hall r hr).1)
  apply toHtmlAux_some sn.fragment (collapse sn.hl) 0 (isBoundary_zero _) _ c2
  intro o ho
  obtain ⟨⟨a, ha, ea⟩, ⟨b, hb, eb⟩⟩ := collapse_endpoints sn.hl o ho
  have := c1 o ho
  exact ⟨Nat.zero_le _, this, by rw [ea]; exact (hall a ha).2.1, by rw [eb]; exact (hall b hb).2.2⟩

/-- every highlight of the snippet is the range (shifted into fragment coordinates) of a token
whose lower-cased text is a query term -/
theorem C19_highlights_are_term_tokens (mode : Nat) (s : Text) (M : Nat) (ts : List STok) (hc : SContract s ts) :
    ∃ sn a, snippet mode s M ts = some sn ∧
      ∀ h ∈ sn.hl, ∃ t ∈ ts, t.score.isSome = true ∧ a ≤ t.from_ ∧ h = (t.from_ - a, t.to - a) := by
  obtain ⟨frags, e, hf⟩ := search_P4 mode s M ts hc
  simp only [snippet, e]
  cases hb : selectBest frags with
  | none => exact ⟨⟨[], []⟩, 0, rfl, by simp⟩
  | some f =>
    obtain ⟨hfi, hterm⟩ := hf f (selectBest_mem frags f hb)
    simp only [mkSnippet_of_FI s f hfi]
    refine ⟨_, f.start, rfl, ?_⟩
    intro h hh
    simp only [List.mem_map] at hh
    obtain ⟨x, hx, rfl⟩ := hh
    obtain ⟨t, ht, hs, rfl⟩ := hterm x hx
    exact ⟨t, ht, hs, (hfi.2.2.2.2 _ hx).1, rfl⟩

/- Full statement (false for overlapping tokens, `C19_raw_highlights_overlap_counterexample`):
"`highlighted()` is sorted and pairwise disjoint". Proved part: -/

/-- with tokens that do not overlap (simple, whitespace, raw, regex tokenizers under any filter
that does not duplicate tokens) the raw highlight list is sorted and pairwise disjoint -/
theorem C19_raw_highlights_disjoint_partial (mode : Nat) (s : Text) (M : Nat) (ts : List STok)
    (hc : SContract s ts) (hd : ts.Pairwise (fun a b => a.to ≤ b.from_)) :
    ∃ sn, snippet mode s M ts = some sn ∧ sn.hl.Pairwise (fun a b => a.2 ≤ b.1) := by
  obtain ⟨frags, e, hf⟩ := search_P5 mode s M ts hc hd
  simp only [snippet, e]
  cases hb : selectBest frags with
  | none => exact ⟨⟨[], []⟩, rfl, by simp⟩
  | some f =>
    obtain ⟨hfi, hp⟩ := hf f (selectBest_mem frags f hb)
    simp only [mkSnippet_of_FI s f hfi]
    refine ⟨_, rfl, ?_⟩
    simp only [List.pairwise_map]
    refine hp.imp_of_mem ?_
    intro a b ha hb hab
    have := (hfi.2.2.2.2 a ha).1
    have := (hfi.2.2.2.2 b hb).1
    omega

/-- the unconditional part of "the highlighted ranges are sorted": for every contract-satisfying
token stream (overlapping and duplicated tokens included) the raw highlights are ordered by their
start offset -/
theorem C19_raw_highlights_sorted_by_start (mode : Nat) (s : Text) (M : Nat) (ts : List STok)
    (hc : SContract s ts) :
    ∃ sn, snippet mode s M ts = some sn ∧ sn.hl.Pairwise (fun a b => a.1 ≤ b.1) := by
  obtain ⟨frags, e, hf⟩ := search_P9 mode s M ts hc
  simp only [snippet, e]
  cases hb : selectBest frags with
  | none => exact ⟨⟨[], []⟩, rfl, by simp⟩
  | some f =>
    obtain ⟨hfi, hp⟩ := hf f (selectBest_mem frags f hb)
    simp only [mkSnippet_of_FI s f hfi]
    refine ⟨_, rfl, ?_⟩
    simp only [List.pairwise_map]
    refine hp.imp_of_mem ?_
    intro a b ha hb hab
    have := (hfi.2.2.2.2 a ha).1
    have := (hfi.2.2.2.2 b hb).1
    omega

/-- end to end for every analyzer = (a tokenizer whose tokens satisfy the contract with end offsets
that never decrease) + any filter chain, any text, any query terms, any `max_num_chars`: `snippet`
does not panic, every highlight lies inside the fragment on character boundaries of the fragment,
and `to_html` does not panic -/
theorem C19_analyzer_snippet_safe (mode : Nat) (s : Text) (ts0 : List Token) (hc : Contract s ts0)
    (hto : ts0.Pairwise (fun a b => a.to ≤ b.to)) (fs : List Filter) (M : Nat)
    (sc : Token → Option Nat) :
    ∃ sn, snippet mode s M ((applyChain fs ts0).map (toSTok sc)) = some sn ∧
      (∀ h ∈ sn.hl, h.1 ≤ h.2 ∧ h.2 ≤ byteLen sn.fragment ∧
        IsBoundary sn.fragment h.1 ∧ IsBoundary sn.fragment h.2) ∧
      ∃ out, toHtml sn = some out := by
  obtain ⟨hcc, _⟩ := C19_chain_preserves_offsets fs s _ hc
  have hto' := chain_to_mono fs _ hto
  apply C19_highlights_inside_partial
  · refine ⟨?_, ?_⟩
    · intro t ht
      simp only [List.mem_map] at ht
      obtain ⟨u, hu, rfl⟩ := ht
      exact hcc.inb u hu
    · simp only [List.pairwise_map, toSTok]
      exact hcc.mono.imp (fun h => h.1)
  · simp only [List.pairwise_map, toSTok]
    exact hto'

/-- … instantiated: every analyzer built from SimpleTokenizer or WhitespaceTokenizer (any scanning
predicate) and any filter chain — in particular tantivy's `default` and `en_stem` analyzers -/
theorem C19_scan_analyzer_snippet_safe (mode : Nat) (p : Cp → Bool) (fs : List Filter) (s : Text) (M : Nat)
    (sc : Token → Option Nat) :
    ∃ sn, snippet mode s M ((applyChain fs (scanTokens p s)).map (toSTok sc)) = some sn ∧
      (∀ h ∈ sn.hl, h.1 ≤ h.2 ∧ h.2 ≤ byteLen sn.fragment ∧
        IsBoundary sn.fragment h.1 ∧ IsBoundary sn.fragment h.2) ∧
      ∃ out, toHtml sn = some out := by
  obtain ⟨hc, _, hp⟩ := scanTokens_contract p s
  refine C19_analyzer_snippet_safe mode s _ hc ?_ fs M sc
  refine hp.imp_of_mem ?_
  intro a b _ hb hab
  have := (hc.inb b hb).1
  omega

/-- … RawTokenizer + any filter chain -/
theorem C19_raw_analyzer_snippet_safe (mode : Nat) (fs : List Filter) (s : Text) (M : Nat)
    (sc : Token → Option Nat) :
    ∃ sn, snippet mode s M ((applyChain fs (rawTokens s)).map (toSTok sc)) = some sn ∧
      (∀ h ∈ sn.hl, h.1 ≤ h.2 ∧ h.2 ≤ byteLen sn.fragment ∧
        IsBoundary sn.fragment h.1 ∧ IsBoundary sn.fragment h.2) ∧
      ∃ out, toHtml sn = some out :=
  C19_analyzer_snippet_safe mode s _ (C19_raw_offsets s).1 (by simp [rawTokens]) fs M sc

/-- … RegexTokenizer (any matcher satisfying `RegexOk`) + any filter chain -/
theorem C19_regex_analyzer_snippet_safe (mode : Nat) (fs : List Filter) (s : Text) (ms : List (Nat × Nat))
    (h : RegexOk s 0 ms) (M : Nat) (sc : Token → Option Nat) :
    ∃ sn, snippet mode s M ((applyChain fs (regexTokens s ms)).map (toSTok sc)) = some sn ∧
      (∀ h ∈ sn.hl, h.1 ≤ h.2 ∧ h.2 ≤ byteLen sn.fragment ∧
        IsBoundary sn.fragment h.1 ∧ IsBoundary sn.fragment h.2) ∧
      ∃ out, toHtml sn = some out := by
  obtain ⟨hc, _, hp⟩ := C19_regex_offsets s ms h
  refine C19_analyzer_snippet_safe mode s _ hc ?_ fs M sc
  refine hp.imp_of_mem ?_
  intro a b _ hb hab
  have := (hc.inb b hb).1
  omega

/-! ### the code as it is: hypotheses discharged from the extracted source shape -/

/-- the extractor reads `self.stop_offset = self.stop_offset.max(token.offset_to)` in
`try_add_token`: the model the driver runs keeps the running maximum. (A return to the plain
assignment makes this — and everything below that uses it — fail to check.) -/
theorem C19_stop_offset_is_running_max : stopMode ≠ 0 := by decide

/-- **full** (no monotone-end hypothesis, no bound on token lengths): for the code as it is and
every token stream satisfying the contract, `snippet` does not panic, every highlight lies inside
the fragment on character boundaries of the fragment string, and `to_html` does not panic -/
theorem C19_snippet_safe (s : Text) (M : Nat) (ts : List STok) (hc : SContract s ts) :
    ∃ sn, snippet stopMode s M ts = some sn ∧
      (∀ h ∈ sn.hl, h.1 ≤ h.2 ∧ h.2 ≤ byteLen sn.fragment ∧
        IsBoundary sn.fragment h.1 ∧ IsBoundary sn.fragment h.2) ∧
      ∃ out, toHtml sn = some out :=
  C19_highlights_inside_code C19_stop_offset_is_running_max s M ts hc

/-- … end to end for **every** analyzer = any tokenizer whose tokens satisfy the contract + any
filter chain (token-dropping and token-duplicating filters included), any query terms, any
`max_num_chars` -/
theorem C19_every_analyzer_snippet_safe (s : Text) (ts0 : List Token) (hc : Contract s ts0)
    (fs : List Filter) (M : Nat) (sc : Token → Option Nat) :
    ∃ sn, snippet stopMode s M ((applyChain fs ts0).map (toSTok sc)) = some sn ∧
      (∀ h ∈ sn.hl, h.1 ≤ h.2 ∧ h.2 ≤ byteLen sn.fragment ∧
        IsBoundary sn.fragment h.1 ∧ IsBoundary sn.fragment h.2) ∧
      ∃ out, toHtml sn = some out := by
  obtain ⟨hcc, _⟩ := C19_chain_preserves_offsets fs s _ hc
  apply C19_snippet_safe
  refine ⟨?_, ?_⟩
  · intro t ht
    simp only [List.mem_map] at ht
    obtain ⟨u, hu, rfl⟩ := ht
    exact hcc.inb u hu
  · simp only [List.pairwise_map, toSTok]
    exact hcc.mono.imp (fun h => h.1)

/-- … instantiated for the n-gram tokenizer (all n-grams or prefix only, any `min ≤ max`) behind
any filter chain — the configuration in which `to_html` used to panic — with any `max_num_chars` -/
theorem C19_ngram_any_chain_snippet_safe (s : Text) (hv : ∀ c ∈ s, c.code < 0x110000)
    (minG maxG : Nat) (hmin : 0 < minG) (hle : minG ≤ maxG) (prefixOnly : Bool)
    (fs : List Filter) (M : Nat) (sc : Token → Option Nat) :
    ∃ sn, snippet stopMode s M
        ((applyChain fs (ngramTokens s minG maxG prefixOnly)).map (toSTok sc)) = some sn ∧
      (∀ h ∈ sn.hl, h.1 ≤ h.2 ∧ h.2 ≤ byteLen sn.fragment ∧
        IsBoundary sn.fragment h.1 ∧ IsBoundary sn.fragment h.2) ∧
      ∃ out, toHtml sn = some out :=
  C19_every_analyzer_snippet_safe s _ (C19_ngram_offsets s hv minG maxG hmin hle prefixOnly).1 fs M sc

/-- … and for the facet tokenizer under any filter chain (threaded text buffer) -/
theorem C19_facet_any_chain_snippet_safe (sep : Nat) (fs : List Filter) (s : Text) (M : Nat)
    (sc : Token → Option Nat) :
    ∃ sn, snippet stopMode s M ((facetChain sep fs s).map (toSTok sc)) = some sn ∧
      (∀ h ∈ sn.hl, h.1 ≤ h.2 ∧ h.2 ≤ byteLen sn.fragment ∧
        IsBoundary sn.fragment h.1 ∧ IsBoundary sn.fragment h.2) ∧
      ∃ out, toHtml sn = some out := by
  have := C19_every_analyzer_snippet_safe s _ (C19_facet_chain_offsets sep fs s).1 [] M sc
  simpa [applyChain] using this

/-! ### `to_html` as characters -/

/-- un-escaping the whole rendering (the five entities back to their characters) and removing the
`<b>`/`</b>` tags gives exactly the fragment — over gaps **and** highlighted parts, for the string
the driver compares byte for byte with `Snippet::to_html()` (`renderChars`) -/
theorem C19_html_roundtrip (sn : Snippet) (out : List Html) (h : toHtml sn = some out) :
    unescapeChars (renderChars out) = sn.fragment.map Cp.code := by
  rw [unescape_render out (toHtmlAux_wf sn.fragment (collapse sn.hl) 0 out h)]
  exact (C19_html_escape sn out h).1

/-- every piece of the rendering is well formed: a character copied verbatim is none of
`<>&"'`, an entity always stands for one of them (so every `<` of the string opens a tag and every
`&` opens an entity) -/
theorem C19_html_pieces_wellformed (sn : Snippet) (out : List Html) (h : toHtml sn = some out) :
    ∀ e ∈ out, WfHtml e :=
  toHtmlAux_wf sn.fragment (collapse sn.hl) 0 out h

/-- the `<b>…</b>` pairs of the rendering enclose, in order, exactly the text of the collapsed
highlight ranges of the fragment (nothing else is tagged, no range is skipped or shifted) -/
theorem C19_html_tags_enclose_collapsed_highlights (sn : Snippet) (out : List Html)
    (h : toHtml sn = some out) :
    tagged out = (collapse sn.hl).map (fun r => (sliceFrom 0 sn.fragment r.1 r.2).map Cp.code) :=
  toHtmlAux_tagged sn.fragment (collapse sn.hl) 0 out h

/-- end to end for the code as it is: any contract-satisfying token stream renders, and the
rendering reads back as the fragment, which is a slice of the text on character boundaries -/
theorem C19_snippet_html_roundtrip (s : Text) (M : Nat) (ts : List STok) (hc : SContract s ts) :
    ∃ sn out a b, snippet stopMode s M ts = some sn ∧ toHtml sn = some out ∧
      IsBoundary s a ∧ IsBoundary s b ∧ a ≤ b ∧ sn.fragment = sliceFrom 0 s a b ∧
      unescapeChars (renderChars out) = (sliceFrom 0 s a b).map Cp.code := by
  obtain ⟨sn, h1, _, out, h3⟩ := C19_snippet_safe s M ts hc
  obtain ⟨sn', a, b, e1, hab, _, ha, hb, hf, _⟩ := C19_fragment_bounds stopMode s M ts hc
  rw [h1] at e1
  cases e1
  exact ⟨sn, out, a, b, h1, h3, ha, hb, hab, hf, by rw [← hf]; exact C19_html_roundtrip sn out h3⟩

/-! ### hypotheses of the partial theorems, discharged for built-in analyzers -/

/-- lower-caser, ASCII folding and stemmer (whatever their text functions are): the sequence of
(offset_from, offset_to, position) is exactly the input's — nothing dropped, added or moved -/
theorem C19_rewriting_filters_keep_token_sequence (f : Filter) (hf : f.Rewrites) (ts : List Token) :
    (f.apply ts).map (fun t => (t.from_, t.to, t.pos)) = ts.map (fun t => (t.from_, t.to, t.pos)) :=
  apply_rewrites_keys f hf ts

/-- "a token that was not normalised equals the slice of text it points to", for filter chains:
remove-long, alphanumeric-only and stop-word filters in any order only drop tokens — what comes out
is a sub-sequence of the tokenizer's tokens, each still equal to its slice -/
theorem C19_dropping_chain_keeps_text_is_slice (s : Text) (ts0 : List Token)
    (hs : ∀ t ∈ ts0, TextIsSlice s t) (fs : List Filter) (hfs : ∀ f ∈ fs, f.Drops) :
    (applyChain fs ts0).Sublist ts0 ∧ ∀ t ∈ applyChain fs ts0, TextIsSlice s t := by
  have h := chain_drops_sublist fs hfs ts0
  exact ⟨h, fun t ht => hs t (h.subset ht)⟩

/-- … instantiated for the Simple / Whitespace tokenizers -/
theorem C19_scan_dropping_chain_text_is_slice (p : Cp → Bool) (s : Text) (fs : List Filter)
    (hfs : ∀ f ∈ fs, f.Drops) : ∀ t ∈ applyChain fs (scanTokens p s), TextIsSlice s t :=
  (C19_dropping_chain_keeps_text_is_slice s _ (scanTokens_contract p s).2.1 fs hfs).2

/-- `select_best_fragment_combination` (`max_by`): the fragment it picks is one of the candidates
and no candidate has a higher score -/
theorem C19_selected_fragment_has_max_score (frags : List Frag) (f : Frag)
    (h : selectBest frags = some f) : f ∈ frags ∧ ∀ g ∈ frags, g.score ≤ f.score :=
  ⟨selectBest_mem frags f h, selectBest_max frags f h⟩

/-- `RemoveLongFilter::limit(L)` right behind a tokenizer (tokens still equal to their slice; the
strict `<` of the predicate is read from the source), followed by any filters: every token is
shorter than `L` bytes *in the text* -/
theorem C19_remove_long_bounds_token_length (s : Text) (L : Nat) (fs : List Filter)
    (ts : List Token) (hc : Contract s ts) (hs : ∀ t ∈ ts, TextIsSlice s t) :
    ∀ t ∈ applyChain (Filter.removeLong L :: fs) ts, t.to - t.from_ < L :=
  removeLong_chain_bounds s L fs ts hc hs

/-- the fragment-length clause, **without** the "no token longer than the limit" hypothesis, for
every analyzer of the shape of tantivy's `default` / `en_stem` analyzers — Simple (or Whitespace)
tokenizer, `RemoveLongFilter::limit(L)`, then any filters — whenever `L ≤ max_num_chars + 1`: the
fragment has at most `max_num_chars` bytes, hence characters -/
theorem C19_remove_long_analyzer_fragment_length (p : Cp → Bool) (L : Nat) (fs : List Filter)
    (s : Text) (M : Nat) (hM : L ≤ M + 1) (sc : Token → Option Nat) :
    ∃ sn, snippet stopMode s M
        ((applyChain (Filter.removeLong L :: fs) (scanTokens p s)).map (toSTok sc)) = some sn ∧
      byteLen sn.fragment ≤ M ∧ sn.fragment.length ≤ M := by
  obtain ⟨hc, hs, _⟩ := scanTokens_contract p s
  obtain ⟨hcc, _⟩ := C19_chain_preserves_offsets (Filter.removeLong L :: fs) s _ hc
  have hb := C19_remove_long_bounds_token_length s L fs _ hc hs
  apply C19_fragment_length_partial
  · refine ⟨?_, ?_⟩
    · intro t ht
      simp only [List.mem_map] at ht
      obtain ⟨u, hu, rfl⟩ := ht
      exact hcc.inb u hu
    · simp only [List.pairwise_map, toSTok]
      exact hcc.mono.imp (fun h => h.1)
  · intro t ht
    simp only [List.mem_map] at ht
    obtain ⟨u, hu, rfl⟩ := ht
    have := hb u hu
    simp only [toSTok]; omega

/-- … with the extracted constants: the `default` analyzer's limit (40) and the default
`max_num_chars` (150) — a snippet of the default configuration never exceeds the limit -/
theorem C19_default_analyzer_fragment_within_default_limit (fs : List Filter) (s : Text)
    (sc : Token → Option Nat) :
    ∃ sn, snippet stopMode s Gen.DEFAULT_MAX_NUM_CHARS
        ((applyChain (Filter.removeLong Gen.DEFAULT_REMOVE_TOKEN_LENGTH :: fs)
          (simpleTokens s)).map (toSTok sc)) = some sn ∧
      byteLen sn.fragment ≤ Gen.DEFAULT_MAX_NUM_CHARS ∧
      sn.fragment.length ≤ Gen.DEFAULT_MAX_NUM_CHARS :=
  C19_remove_long_analyzer_fragment_length _ _ fs s _ (by decide) sc

/-- the fragment-length clause for n-gram analyzers (any filter chain behind them) whenever
`max_num_chars ≥ 4 · max_gram` -/
theorem C19_ngram_analyzer_fragment_length (s : Text) (hv : ∀ c ∈ s, c.code < 0x110000)
    (minG maxG : Nat) (hmin : 0 < minG) (hle : minG ≤ maxG) (prefixOnly : Bool)
    (fs : List Filter) (M : Nat) (hM : 4 * maxG ≤ M) (sc : Token → Option Nat) :
    ∃ sn, snippet stopMode s M
        ((applyChain fs (ngramTokens s minG maxG prefixOnly)).map (toSTok sc)) = some sn ∧
      byteLen sn.fragment ≤ M ∧ sn.fragment.length ≤ M := by
  obtain ⟨hc, _⟩ := C19_ngram_offsets s hv minG maxG hmin hle prefixOnly
  obtain ⟨hcc, hsame⟩ := C19_chain_preserves_offsets fs s _ hc
  apply C19_fragment_length_partial
  · refine ⟨?_, ?_⟩
    · intro t ht
      simp only [List.mem_map] at ht
      obtain ⟨u, hu, rfl⟩ := ht
      exact hcc.inb u hu
    · simp only [List.pairwise_map, toSTok]
      exact hcc.mono.imp (fun h => h.1)
  · intro t ht
    simp only [List.mem_map] at ht
    obtain ⟨u, hu, rfl⟩ := ht
    obtain ⟨v, hv', e1, e2, _⟩ := hsame u hu
    have := ngram_token_len s hv minG maxG hmin hle prefixOnly v hv'
    simp only [toSTok]; omega

/-- the "raw highlights sorted and disjoint" clause for every analyzer = a tokenizer with
non-overlapping tokens + filters that never duplicate a token (everything but the compound
splitter) -/
theorem C19_nonsplitting_analyzer_raw_highlights_disjoint (s : Text) (ts0 : List Token)
    (hc : Contract s ts0) (hd : ts0.Pairwise (fun a b => a.to ≤ b.from_)) (fs : List Filter)
    (hfs : ∀ f ∈ fs, f.NoSplit) (M : Nat) (sc : Token → Option Nat) :
    ∃ sn, snippet stopMode s M ((applyChain fs ts0).map (toSTok sc)) = some sn ∧
      sn.hl.Pairwise (fun a b => a.2 ≤ b.1) := by
  obtain ⟨hcc, _⟩ := C19_chain_preserves_offsets fs s _ hc
  have hd' := chain_pairwise_offsets fs hfs (fun a b => a.2 ≤ b.1) ts0 hd
  apply C19_raw_highlights_disjoint_partial
  · refine ⟨?_, ?_⟩
    · intro t ht
      simp only [List.mem_map] at ht
      obtain ⟨u, hu, rfl⟩ := ht
      exact hcc.inb u hu
    · simp only [List.pairwise_map, toSTok]
      exact hcc.mono.imp (fun h => h.1)
  · simp only [List.pairwise_map, toSTok]
    exact hd'

/-- … instantiated: Simple / Whitespace tokenizer behind lower-caser, folding, remove-long,
alphanumeric-only, stop words, stemmer in any order and number -/
theorem C19_scan_analyzer_raw_highlights_disjoint (p : Cp → Bool) (fs : List Filter)
    (hfs : ∀ f ∈ fs, f.NoSplit) (s : Text) (M : Nat) (sc : Token → Option Nat) :
    ∃ sn, snippet stopMode s M ((applyChain fs (scanTokens p s)).map (toSTok sc)) = some sn ∧
      sn.hl.Pairwise (fun a b => a.2 ≤ b.1) := by
  obtain ⟨hc, _, hp⟩ := scanTokens_contract p s
  exact C19_nonsplitting_analyzer_raw_highlights_disjoint s _ hc (hp.imp (fun h => h.1)) fs hfs M sc

/-! ### state that survives a stream: history independence -/

/-- the stateful `SplitCompoundWords` stream, started on **any** content of the reusable `parts`
buffer and read for `k` tokens: the leftovers below the top of the buffer come first, then the
stateless filter applied to the tokens of the tail stream -/
theorem C19_split_stream_emits (g : List Nat → Option (List (List Nat))) (k : Nat) (P : PartsBuf)
    (inner : List Token) :
    (splitRun g k P inner).1 = (P.tail ++ (Filter.split g).apply inner).take k :=
  splitRun_emits g k P inner

/-- the extractor finds `self.parts.clear()` in `SplitCompoundWordsFilter::token_stream` -/
theorem C19_split_parts_cleared : Gen.SPLIT_COMPOUND_CLEARS_PARTS ≠ 0 := by decide

/-- history independence of `SplitCompoundWords` when `token_stream` clears the buffer: whatever
streams the analyzer served before (any texts, each abandoned after any number of tokens, from any
initial buffer), the first `k` tokens of a new stream are the first `k` tokens of the stateless
filter on that stream's input -/
theorem C19_split_history_independent (clears : Nat) (hc : clears ≠ 0)
    (g : List Nat → Option (List (List Nat))) (P0 : PartsBuf) (hist : List (List Token × Nat))
    (inner : List Token) (k : Nat) :
    (splitRun g k (splitNewStream clears (splitHistory clears g P0 hist)) inner).1
      = ((Filter.split g).apply inner).take k := by
  rw [splitRun_emits]
  simp [splitNewStream, hc]

/-- … for the code as it is; a drained stream gives exactly the stateless filter's tokens -/
theorem C19_split_history_independent_code (g : List Nat → Option (List (List Nat)))
    (P0 : PartsBuf) (hist : List (List Token × Nat)) (inner : List Token) :
    (∀ k, (splitRun g k (splitNewStream Gen.SPLIT_COMPOUND_CLEARS_PARTS
        (splitHistory Gen.SPLIT_COMPOUND_CLEARS_PARTS g P0 hist)) inner).1
      = ((Filter.split g).apply inner).take k) ∧
    (splitRun g ((Filter.split g).apply inner).length (splitNewStream Gen.SPLIT_COMPOUND_CLEARS_PARTS
        (splitHistory Gen.SPLIT_COMPOUND_CLEARS_PARTS g P0 hist)) inner).1
      = (Filter.split g).apply inner := by
  have h := C19_split_history_independent _ C19_split_parts_cleared g P0 hist inner
  exact ⟨h, by rw [h]; exact List.take_of_length_le (Nat.le_refl _)⟩

/-- without the clearing (the seeded change C19-C) the tokens do depend on the history: a
compound `[1,2]` split into `[1]`,`[2]` at offsets 0..16, abandoned after its first part, makes the
next stream start with the stale part `[2]` at 0..16 although its own text has one 5-byte token -/
theorem C19_split_stale_parts_counterexample :
    ∃ (g : List Nat → Option (List (List Nat))) (hist : List (List Token × Nat)) (inner : List Token),
      (splitRun g 5 (splitNewStream 0 (splitHistory 0 g [] hist)) inner).1
        = ⟨0, 16, 0, [2]⟩ :: (Filter.split g).apply inner ∧ inner = [⟨0, 5, 0, [7]⟩] := by
  refine ⟨fun t => if t = [1, 2] then some [[1], [2]] else none,
    [([⟨0, 16, 0, [1, 2]⟩], 1)], [⟨0, 5, 0, [7]⟩], by decide, rfl⟩

/-- the extractor finds `output.clear()` at the start of `to_lowercase_unicode` and `to_ascii`,
and `self.buffer.clear()` before the stemmer refills its buffer -/
theorem C19_rewrite_buffers_cleared :
    Gen.LOWERCASER_CLEARS_OUTPUT ≠ 0 ∧ Gen.ASCII_FOLDING_CLEARS_OUTPUT ≠ 0 ∧
    Gen.STEMMER_CLEARS_BUFFER ≠ 0 := by decide

/-- history independence of the lower-caser, the ASCII-folding filter and the stemmer, which build
the new text in a reusable `String` that they swap with the token text: whatever the buffer holds
when the stream starts (any earlier tokens, any earlier streams), the stateful stream over the
tokens of its tail is the stateless filter -/
theorem C19_rewrite_filters_history_independent (buf : List Nat) (ts : List Token)
    (f : Nat → List Nat) (fo : Nat → Option (List Nat)) (g : List Nat → List Nat)
    (owned : List Nat → Bool) :
    (bufferedStream (lowerStep Gen.LOWERCASER_CLEARS_OUTPUT f) buf ts).1 = (Filter.lower f).apply ts ∧
    (bufferedStream (foldStep Gen.ASCII_FOLDING_CLEARS_OUTPUT fo) buf ts).1 = (Filter.fold fo).apply ts ∧
    (bufferedStream (stemStep Gen.STEMMER_CLEARS_BUFFER g owned) buf ts).1 = (Filter.stem g).apply ts := by
  obtain ⟨h1, h2, h3⟩ := C19_rewrite_buffers_cleared
  refine ⟨?_, ?_, ?_⟩
  · rw [apply_lower_eq_map]
    exact bufferedStream_of_step _ _ (lowerStep_text h1 f) ts buf
  · rw [apply_fold_eq_map]
    exact bufferedStream_of_step _ _ (foldStep_text h2 fo) ts buf
  · rw [apply_stem_eq_map]
    exact bufferedStream_of_step _ _ (stemStep_text h3 g owned) ts buf

/-- without the `clear()` the texts accumulate: the second non-ASCII token comes out prefixed by
the first one's original text -/
theorem C19_rewrite_buffer_not_cleared_counterexample :
    (bufferedStream (lowerStep 0 (fun c => [c])) [] [⟨0, 2, 0, [233]⟩, ⟨3, 5, 1, [252]⟩]).1
      = [⟨0, 2, 0, [233]⟩, ⟨3, 5, 1, [233, 252]⟩] := by decide

/-- the extractor finds `self.token.reset()` in `token_stream` of every built-in tokenizer, and
`Token::reset` sets `position = usize::MAX` -/
theorem C19_tokenizers_reset_token :
    Gen.TOKENIZERS_RESET_TOKEN ≠ 0 ∧ Gen.TOKEN_RESET_POSITION_IS_MAX ≠ 0 := by decide

/-- history independence of the position counter kept in the tokenizer's own `Token`: whatever
position earlier streams left there, Simple/Whitespace tokenizers number the tokens of the next text
from 0 — the stateful stream is the stateless `scanTokens` -/
theorem C19_scan_history_independent (p : Cp → Bool) (left : Nat) (s : Text) :
    scanStream Gen.TOKENIZERS_RESET_TOKEN Gen.TOKEN_RESET_POSITION_IS_MAX p left s
      = scanTokens p s := by
  have h : wrapAdd1 (streamStartPosition Gen.TOKENIZERS_RESET_TOKEN
      Gen.TOKEN_RESET_POSITION_IS_MAX left) = 0 := by
    have e : streamStartPosition Gen.TOKENIZERS_RESET_TOKEN Gen.TOKEN_RESET_POSITION_IS_MAX left
        = usizeMax := by
      unfold streamStartPosition
      rw [if_neg C19_tokenizers_reset_token.1, if_neg C19_tokenizers_reset_token.2]
    rw [e]; decide
  unfold scanStream scanTokens
  rw [h]

/-- history independence of the facet tokenizer's accumulating text buffer: whatever text an
earlier (abandoned) stream left in the tokenizer's token, the next stream starts from the empty
text — the stateful stream is `facetChain` -/
theorem C19_facet_history_independent (sep : Nat) (fs : List Filter) (left : List Nat) (s : Text) :
    facetStream Gen.TOKENIZERS_RESET_TOKEN sep fs left s = facetChain sep fs s := by
  unfold facetStream facetChain
  rw [if_neg C19_tokenizers_reset_token.1]

/-- the components composed: an analyzer `Simple|Whitespace → LowerCaser → SplitCompoundWords` (the
shape of the analyzer in which the seeded change C19-C showed) in **any** state left by any
history of texts and abandoned streams gives, for the next text and any number `k` of tokens read,
the first `k` tokens of the stateless model — "the tokens of a text do not depend on what the
analyzer processed before" -/
theorem C19_analyzer_history_independent (p : Cp → Bool) (f : Nat → List Nat)
    (g : List Nat → Option (List (List Nat))) (st : AnalyzerState) (s : Text) (k : Nat) :
    analyzerRun p f g st s k
      = (applyChain [Filter.lower f, Filter.split g] (scanTokens p s)).take k := by
  simp only [analyzerRun]
  rw [C19_scan_history_independent,
    (C19_rewrite_filters_history_independent st.lowerBuf (scanTokens p s) f (fun _ => none) id
      (fun _ => true)).1,
    splitRun_emits]
  simp [splitNewStream, C19_split_parts_cleared, applyChain]

/-- for **every** filter chain behind a Simple / Whitespace tokenizer: whatever each filter's
reusable buffers and the tokenizer's token hold when `token_stream` is called (any history of texts
and abandoned streams), the stream's tokens — and so their first `k`, if it is abandoned in turn —
are the stateless model's -/
theorem C19_any_chain_history_independent (p : Cp → Bool) (owned : List Nat → Bool)
    (fs : List Filter) (sts : List FilterState) (left : Nat) (s : Text) (k : Nat) :
    (chainStream owned fs sts
        (scanStream Gen.TOKENIZERS_RESET_TOKEN Gen.TOKEN_RESET_POSITION_IS_MAX p left s)).take k
      = (applyChain fs (scanTokens p s)).take k := by
  rw [C19_scan_history_independent, chainStream_eq_applyChain]

/-- … and behind any tokenizer (its tokens given): the chain's streams do not depend on the state
of the filters' buffers -/
theorem C19_chain_streams_history_independent (owned : List Nat → Bool) (fs : List Filter)
    (sts : List FilterState) (ts : List Token) :
    chainStream owned fs sts ts = applyChain fs ts :=
  chainStream_eq_applyChain owned fs sts ts

/-- without the reset the positions of the next text continue where the last stream stopped -/
theorem C19_scan_no_reset_counterexample :
    scanStream 0 1 (fun c => c.alnum) 4 [⟨97, true⟩] = [⟨0, 1, 5, [97]⟩] := by decide

/-! ### non-vacuity: the hypotheses are met by concrete non-trivial states -/

-- "hé 😀a": a 2-byte and a 4-byte code point; tokens (0,3,0) and (8,9,1)
example : simpleTokens [⟨104, true⟩, ⟨233, true⟩, ⟨32, false⟩, ⟨128512, false⟩, ⟨97, true⟩]
    = [⟨0, 3, 0, [104, 233]⟩, ⟨8, 9, 1, [97]⟩] := by decide
example : RegexOk [⟨104, true⟩, ⟨233, true⟩, ⟨32, false⟩, ⟨97, true⟩] 0 [(0, 3), (1, 2)] := by
  simp only [RegexOk]; decide
example : (∀ c ∈ ([⟨104, true⟩, ⟨233, true⟩, ⟨128512, false⟩] : Text), c.code < 0x110000) ∧ 0 < 1 ∧ 1 ≤ 2 := by
  decide
example : stutterAll (frontiers [⟨104, true⟩, ⟨233, true⟩, ⟨128512, false⟩]) 1 2
    = [(0, 1), (0, 3), (1, 3), (1, 7), (3, 7)] := by decide
example : Contract [⟨104, true⟩, ⟨233, true⟩] [⟨0, 3, 0, [104, 233]⟩] :=
  ⟨by decide, by decide⟩
example : Contract [⟨104, true⟩, ⟨233, true⟩, ⟨32, false⟩, ⟨97, true⟩] [⟨0, 3, 0, [104, 233]⟩, ⟨4, 5, 1, [97]⟩]
    ∧ [(⟨0, 3, 0, [104, 233]⟩ : Token), ⟨4, 5, 1, [97]⟩].Pairwise (fun a b => a.to ≤ b.to) :=
  ⟨⟨by decide, by decide⟩, by decide⟩
example : SContract [⟨97, true⟩, ⟨233, true⟩, ⟨32, false⟩, ⟨98, true⟩] [⟨0, 3, some 4⟩, ⟨4, 5, none⟩]
    ∧ [(⟨0, 3, some 4⟩ : STok), ⟨4, 5, none⟩].Pairwise (fun a b => a.to ≤ b.to)
    ∧ ∀ t ∈ [(⟨0, 3, some 4⟩ : STok), ⟨4, 5, none⟩], t.to - t.from_ ≤ 3 :=
  ⟨⟨by decide, by decide⟩, by decide, by decide⟩
example : [(⟨0, 3, some 4⟩ : STok), ⟨4, 5, none⟩].Pairwise (fun a b => a.to ≤ b.from_) := by decide
example : ∀ f ∈ [Filter.removeLong 40, Filter.alnumOnly, Filter.stop [[116, 104, 101]]], f.Drops := by
  simp [Filter.Drops]
example : selectBest [⟨1, 0, 3, []⟩, ⟨2, 4, 7, []⟩, ⟨2, 8, 9, []⟩] = some ⟨2, 4, 7, []⟩ := by decide
example : ngramNewOk 2 3 = true ∧ ngramNewOk 0 3 = false ∧ ngramNewOk 4 3 = false := by decide
-- the hypotheses of the instance theorems
example : (Filter.lower (fun c => [c])).Rewrites ∧ (Filter.removeLong 40).NoSplit
    ∧ ∀ f ∈ [Filter.removeLong 40, Filter.lower (fun c => [c]), Filter.alnumOnly], f.NoSplit := by
  simp [Filter.Rewrites, Filter.NoSplit]
example : Gen.DEFAULT_REMOVE_TOKEN_LENGTH ≤ Gen.DEFAULT_MAX_NUM_CHARS + 1 ∧ 4 * 3 ≤ 150 := by decide
-- an analyzer state left by an abandoned compound: the next text is unaffected
example : analyzerRun (fun c => c.alnum) (fun c => [c]) (fun t => if t = [97, 98] then some [[97], [98]] else none)
    ⟨7, [1, 2, 3], [⟨0, 16, 0, [9]⟩, ⟨0, 16, 0, [8]⟩]⟩ [⟨65, true⟩, ⟨66, true⟩, ⟨32, false⟩, ⟨99, true⟩] 5
    = [⟨0, 2, 0, [97]⟩, ⟨0, 2, 0, [98]⟩, ⟨3, 4, 1, [99]⟩] := by decide
-- stale buffers in both filters of a chain: no effect
example : chainStream (fun _ => false) [Filter.lower (fun c => [c]), Filter.split (fun _ => none)]
    [⟨[1, 2], []⟩, ⟨[], [⟨0, 9, 0, [5]⟩, ⟨0, 9, 0, [6]⟩]⟩] [⟨0, 2, 0, [233]⟩] = [⟨0, 2, 0, [233]⟩] := by decide
-- a history: a compound abandoned after its first part, then another text
example : (1 : Nat) ≠ 0 ∧ splitHistory 1 (fun t => if t = [1, 2] then some [[1], [2]] else none) []
    [([⟨0, 16, 0, [1, 2]⟩], 1)] = [⟨0, 16, 0, [1]⟩, ⟨0, 16, 0, [2]⟩] := by decide
-- the two mode hypotheses: exactly one of them holds for the extracted value, both are possible values
example : stopMode = 0 ∨ stopMode ≠ 0 := by decide
example : (1 : Nat) ≠ 0 := by decide
example : RecOkN 0 0 ([(⟨0, 1, some 1⟩ : STok), ⟨0, 3, none⟩, ⟨1, 3, some 2⟩].map (·.to)) := by
  simp [RecOkN]
example : ∀ t ∈ ngramTokens [⟨97, true⟩, ⟨233, true⟩, ⟨98, true⟩] 1 2 false, t.to - t.from_ ≤ 3 := by
  decide
example : ∀ r ∈ [((0 : Nat), (3 : Nat)), (2, 5), (5, 7)], r.1 ≤ r.2 := by decide
example : collapse [(2, 5), (0, 3), (5, 7), (0, 3)] = [(0, 5), (5, 7)] := by decide
-- the rendering of `<a> b` with `a` highlighted is the string `&lt;<b>a</b>&gt; b`, and reads back
example : renderChars [.ent 60, .open_, .raw 97, .close, .ent 62, .raw 32, .raw 98]
    = [38, 108, 116, 59, 60, 98, 62, 97, 60, 47, 98, 62, 38, 103, 116, 59, 32, 98] := by decide
example : unescapeChars [38, 108, 116, 59, 60, 98, 62, 97, 60, 47, 98, 62, 38, 103, 116, 59, 32, 98]
    = [60, 97, 62, 32, 98] := by decide
example : tagged [.ent 60, .open_, .raw 97, .close, .ent 62, .raw 32, .raw 98] = [[97]] := by decide
-- `<a> b` with `a` highlighted renders as `&lt;<b>a</b>&gt; b`
example : toHtml ⟨[⟨60, false⟩, ⟨97, true⟩, ⟨62, false⟩, ⟨32, false⟩, ⟨98, true⟩], [(1, 2)]⟩
    = some [.ent 60, .open_, .raw 97, .close, .ent 62, .raw 32, .raw 98] := by decide

end TantivyModel.C19
