import TantivyModel.Model.Tokenizer.Filters
import TantivyModel.Model.Tokenizer.Ngram
import TantivyModel.Model.Snippet
/-!
# C19 — Tokens and snippets always point inside the text, on character boundaries
-/
namespace TantivyModel.C19
open TantivyModel TantivyModel.Tok TantivyModel.Snip

/-- DESIGN S7: text `abcdefghij klm`, query `abcdefghij`, `max_num_chars = 3`: the first token of
a fragment is added unconditionally, the fragment is 10 bytes long. -/
theorem C19_long_token_counterexample :
    ∃ (M : Nat) (ts : List STok) (f : Frag),
      searchFragments M ts = some [f] ∧ f.stop - f.start > M := by
  refine ⟨3, [⟨0, 10, some 8⟩, ⟨11, 14, none⟩], ⟨8, 0, 10, [(0, 10)]⟩, ?_, ?_⟩ <;> decide

end TantivyModel.C19
