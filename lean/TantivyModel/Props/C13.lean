import TantivyModel.Proofs.TinySet
import TantivyModel.Proofs.DocSet.Basic
import TantivyModel.Proofs.DocSet.Default
import TantivyModel.Proofs.DocSet.ReqOpt
import TantivyModel.Proofs.DocSet.Exclude
import TantivyModel.Proofs.DocSet.SimpleUnion
import TantivyModel.Proofs.DocSet.Intersection
import TantivyModel.Proofs.DocSet.BufferedUnion
import TantivyModel.Proofs.DocSet.IntersectionCount
import TantivyModel.Proofs.DocSet.BufferedUnionSeek
import TantivyModel.Proofs.DocSet.BufferedUnionDanger
import TantivyModel.Proofs.DocSet.BufferedUnionFill
import TantivyModel.Proofs.DocSet.Construct
import TantivyModel.Proofs.DocSet.IntersectionScore
import TantivyModel.Proofs.DocSet.BitSet
import TantivyModel.Proofs.DocSet.Tree
import TantivyModel.Proofs.DocSet.BufferedUnionScore
import TantivyModel.Proofs.DocSet.DisjunctionScore
import TantivyModel.Proofs.DocSet.ScoreMoves
import TantivyModel.Proofs.DocSet.BufferedUnionScoreDanger
import TantivyModel.Proofs.DocSet.ScoreCompose
import TantivyModel.Proofs.DocSet.TinySetBridge
import TantivyModel.Proofs.DocSet.TreeScore1
import TantivyModel.Proofs.DocSet.TreeScore2
import TantivyModel.Proofs.DocSet.TreeScore3
import TantivyModel.Proofs.DocSet.TreeScore4
import TantivyModel.Model.DocSet.Tree
/-!
# C13 — every DocSet is one sorted sequence under any mix of advance and seek

Property theorems only (helper lemmas: `Proofs/DocSet/*.lean`).

* specification-cursor laws (`C13_spec_*`): what `seek`, `fill_buffer`, `fill_bitset_block`,
  `count_including_deleted` mean on one strictly increasing sequence;
* `C13_program_equiv`: for **every** implementation satisfying the refinement contract `Lawful`
  and every finite legal call program, the outputs equal those of the specification cursor;
  `C13_end_sticky`;
* `C13_default_lawful`: an implementation that overrides only `doc` / `advance` / `seek`
  correctly and inherits the trait's default bodies for everything else satisfies the contract;
* instances: `C13_vec_*` (sorted-vector leaf);
* deviations of the real code, mirrored by the model (`…_counterexample`).
-/
namespace TantivyModel.C13
open TantivyModel TantivyModel.DocSet

/-! ## specification cursor -/

/-- every operation keeps the remaining sequence strictly increasing and below the end marker -/
theorem C13_spec_sorted_preserved {l : List Nat} (h : Sorted l) (t m : Nat) :
    Sorted (Spec.advance l) ∧ Sorted (Spec.seek t l) ∧ Sorted (Spec.fillBuffer l).2
      ∧ Sorted (Spec.fillBitset m l).2 :=
  ⟨h.tail, h.seek t, h.drop _, (h.seek m).seek _⟩

/-- `seek t` lands on the first document `≥ t`: nothing `≥ t` is lost, nothing `< t` remains -/
theorem C13_spec_seek_first_ge {l : List Nat} (h : Sorted l) (t : Nat) (ht : t ≤ TERMINATED) :
    (∀ x, x ∈ Spec.seek t l ↔ x ∈ l ∧ t ≤ x) ∧ t ≤ Spec.doc (Spec.seek t l) :=
  ⟨Spec.mem_seek h, Spec.seek_head_ge ht⟩

/-- seeking to the current document (or below) does not move -/
theorem C13_spec_seek_current {l : List Nat} (h : Sorted l) (t : Nat) (ht : t ≤ Spec.doc l) :
    Spec.seek t l = l := Spec.seek_of_le ht h

/-- seeks compose: only the largest target matters -/
theorem C13_spec_seek_seek (l : List Nat) (t u : Nat) (h : t ≤ u) :
    Spec.seek u (Spec.seek t l) = Spec.seek u l := Spec.seek_seek h

/-- the end is sticky in the specification -/
theorem C13_spec_end_sticky (t m : Nat) :
    Spec.doc [] = TERMINATED ∧ Spec.advance [] = [] ∧ Spec.seek t [] = [] ∧ Spec.fillBuffer [] = ([], [])
      ∧ Spec.fillBitset m [] = ([], []) ∧ Spec.count [] = 0 := by
  simp [Spec.doc, Spec.advance, Spec.seek, Spec.fillBuffer, Spec.fillBitset, Spec.count]

/-- a document sequence has at most `TERMINATED` elements (bounds every loop of the trait) -/
theorem C13_spec_length_bound {l : List Nat} (h : Sorted l) : l.length ≤ TERMINATED := h.length_le

/-! ## the generic refinement theorem -/

/-- **Program equivalence.** For every implementation `D` that satisfies the refinement contract,
every valid state and every finite legal program of calls
{doc, advance, seek, seek_danger sequences, fill_buffer, fill_bitset_block, count_including_deleted},
the observations equal those of the specification cursor over the remaining documents. -/
theorem C13_program_equiv {σ : Type} (D : DS σ) (V : σ → List Nat → Prop)
    (W : σ → Nat → List Nat → Prop) (hD : Lawful D V W) (prog : List Op) (s : σ) (l : List Nat)
    (hV : V s l) (hlegal : legalProg ⟨l, none⟩ prog = true) :
    implRun D s prog = specRun ⟨l, none⟩ prog :=
  program_equiv D V W hD prog s ⟨l, none⟩ (Or.inl ⟨rfl, hV⟩) hlegal

/-- **End sticky.** Once a lawful implementation reports the end, every further legal call reports
the end (documents, buffers, blocks and counts are all empty). -/
theorem C13_end_sticky {σ : Type} (D : DS σ) (V : σ → List Nat → Prop)
    (W : σ → Nat → List Nat → Prop) (hD : Lawful D V W) (prog : List Op) (s : σ)
    (hV : V s []) (hlegal : legalProg ⟨[], none⟩ prog = true) :
    implRun D s prog = specRun ⟨[], none⟩ prog ∧ D.doc s = TERMINATED :=
  ⟨program_equiv D V W hD prog s ⟨[], none⟩ (Or.inl ⟨rfl, hV⟩) hlegal, by
    rw [hD.doc_eq hV]; rfl⟩

/-- **Trait defaults.** If `doc`/`advance`/`seek` of an implementation refine the cursor, the
default bodies of `seek_danger`, `fill_buffer`, `fill_bitset_block`, `count_including_deleted`
(src/docset.rs) do too. Covers every type that overrides nothing else. -/
theorem C13_default_lawful {σ : Type} (doc : σ → Nat) (adv : σ → σ) (seek : Nat → σ → σ)
    (score : σ → Nat × σ) (V : σ → List Nat → Prop) (hC : Core doc adv seek V) :
    Lawful (DS.ofCore doc adv seek score) V (defaultW V) :=
  lawful_ofCore doc adv seek score V hC

/-! ## instances -/

/-- the sorted-vector leaf (VecDocSet / the harness's VecScorer) -/
theorem C13_vec_lawful : Lawful Vec.ds Vec.V (defaultW Vec.V) :=
  lawful_ofCore _ _ _ _ _ Vec.core

theorem C13_vec_program_equiv (docs : List Nat) (score : Nat) (hs : Sorted docs) (prog : List Op)
    (hlegal : legalProg ⟨docs, none⟩ prog = true) :
    implRun Vec.ds (Vec.init docs score) prog = specRun ⟨docs, none⟩ prog :=
  C13_program_equiv Vec.ds Vec.V _ C13_vec_lawful prog _ docs ⟨rfl, hs⟩ hlegal

theorem C13_vec_end_sticky (score : Nat) (prog : List Op)
    (hlegal : legalProg ⟨[], none⟩ prog = true) :
    implRun Vec.ds (Vec.init [] score) prog = specRun ⟨[], none⟩ prog :=
  (C13_end_sticky Vec.ds Vec.V _ C13_vec_lawful prog _ ⟨rfl, Sorted.nil⟩ hlegal).1

/-- **BitSetDocSet** (src/query/bitset/mod.rs): cursor bucket + remaining bits of that bucket over a
bitset of 64-bit buckets; `advance` (pop / `first_non_empty_bucket`), `seek` (past `max_value`, into
a later bucket, inside the cursor bucket) and the default methods. The behaviour of `seek` past
`max_value` is read from the source through the extracted guard
`BITSET_SEEK_PAST_MAX_EXHAUSTS_CURSOR` (= 1 on the current source; with 0 the statement is false:
KNOWN_FINDINGS `C13:bitset-seek-past-max-not-sticky`). -/
theorem C13_bitset_lawful (fx : Fix) : Lawful (BitSet.ds fx) BitSet.V (defaultW BitSet.V) :=
  BitSet.lawful fx

theorem C13_bitset_program_equiv (fx : Fix) (docs : List Nat) (maxValue score : Nat) (hs : Sorted docs)
    (hm : ∀ d ∈ docs, d < maxValue) (prog : List Op) (hlegal : legalProg ⟨docs, none⟩ prog = true) :
    implRun (BitSet.ds fx) (BitSet.init docs maxValue score) prog = specRun ⟨docs, none⟩ prog :=
  C13_program_equiv _ _ _ (BitSet.lawful fx) prog _ docs (BitSet.init_V hs hm) hlegal

theorem C13_bitset_end_sticky (fx : Fix) (maxValue score : Nat) (prog : List Op)
    (hlegal : legalProg ⟨[], none⟩ prog = true) :
    implRun (BitSet.ds fx) (BitSet.init [] maxValue score) prog = specRun ⟨[], none⟩ prog :=
  (C13_end_sticky _ _ _ (BitSet.lawful fx) prog _
    (BitSet.init_V Sorted.nil (fun _ h => by cases h)) hlegal).1

/-- the leaves of the scorer trees the driver builds -/
theorem C13_leaf_lawful (fx : Fix) : Lawful (Leaf.ds fx) Leaf.V Leaf.W := Leaf.lawful fx

/-! ### combinators over abstract children (`Lawful` children ⇒ `Lawful` combinator) -/

section combinators
variable {σ τ : Type} {A : DS σ} {B : DS τ}
  {VA : σ → List Nat → Prop} {WA : σ → Nat → List Nat → Prop}
  {VB : τ → List Nat → Prop} {WB : τ → Nat → List Nat → Prop}

/-- RequiredOptionalScorer: the sequence of the required child, whatever the optional child is -/
theorem C13_reqopt_lawful (hA : Lawful A VA WA) :
    Lawful (ReqOpt.ds A B) (ReqOpt.V VA) (ReqOpt.W (τ := τ) WA) := ReqOpt.lawful hA

theorem C13_reqopt_program_equiv (hA : Lawful A VA WA) (s : ReqOpt.State σ τ) (l : List Nat)
    (hV : VA s.req l) (prog : List Op) (hlegal : legalProg ⟨l, none⟩ prog = true) :
    implRun (ReqOpt.ds A B) s prog = specRun ⟨l, none⟩ prog :=
  C13_program_equiv _ _ _ (ReqOpt.lawful hA) prog s l hV hlegal

theorem C13_reqopt_end_sticky (hA : Lawful A VA WA) (s : ReqOpt.State σ τ) (hV : VA s.req [])
    (prog : List Op) (hlegal : legalProg ⟨[], none⟩ prog = true) :
    implRun (ReqOpt.ds A B) s prog = specRun ⟨[], none⟩ prog :=
  (C13_end_sticky _ _ _ (ReqOpt.lawful hA) prog s hV hlegal).1

/-- Exclude (single exclusion set or a vector of them): underlying minus all exclusion sets -/
theorem C13_exclude_lawful (hA : Lawful A VA WA) (hB : Lawful B VB WB) :
    Lawful (Exclude.ds A B) (Exclude.V VA VB WB) (defaultW (Exclude.V VA VB WB)) :=
  Exclude.lawful hA hB

/-- from construction: `Exclude::new(u, es)` over valid children enumerates exactly the documents
of `u` that are in none of the exclusion sets, under every legal call program -/
theorem C13_exclude_program_equiv (hA : Lawful A VA WA) (hB : Lawful B VB WB) (u : σ)
    (es : List τ) (lu : List Nat) (les : List (List Nat)) (hu : VA u lu) (hes : All2 VB es les)
    (prog : List Op) (hlegal : legalProg ⟨lu.filter (Exclude.ok les), none⟩ prog = true) :
    implRun (Exclude.ds A B) (Exclude.new A B u es) prog
      = specRun ⟨lu.filter (Exclude.ok les), none⟩ prog :=
  C13_program_equiv _ _ _ (Exclude.lawful hA hB) prog _ _ (Exclude.new_V hA hB hu hes) hlegal

theorem C13_exclude_end_sticky (hA : Lawful A VA WA) (hB : Lawful B VB WB) (s : Exclude.State σ τ)
    (hV : Exclude.V VA VB WB s []) (prog : List Op) (hlegal : legalProg ⟨[], none⟩ prog = true) :
    implRun (Exclude.ds A B) s prog = specRun ⟨[], none⟩ prog :=
  (C13_end_sticky _ _ _ (Exclude.lawful hA hB) prog s hV hlegal).1

/-- SimpleUnion: the sorted union of the children -/
theorem C13_simple_union_lawful (hA : Lawful A VA WA) :
    Lawful (SimpleUnion.ds A) (SimpleUnion.V VA) (defaultW (SimpleUnion.V VA)) :=
  SimpleUnion.lawful hA

theorem C13_simple_union_program_equiv (hA : Lawful A VA WA) (cs : List σ) (ls : List (List Nat))
    (l : List Nat) (hcs : All2 VA cs ls) (hl : SimpleUnion.IsUnion l ls)
    (prog : List Op) (hlegal : legalProg ⟨l, none⟩ prog = true) :
    implRun (SimpleUnion.ds A) (SimpleUnion.build A cs) prog = specRun ⟨l, none⟩ prog :=
  C13_program_equiv _ _ _ (SimpleUnion.lawful hA) prog _ _ (SimpleUnion.build_V hA hcs hl) hlegal

theorem C13_simple_union_end_sticky (hA : Lawful A VA WA) (s : SimpleUnion.State σ)
    (hV : SimpleUnion.V VA s []) (prog : List Op) (hlegal : legalProg ⟨[], none⟩ prog = true) :
    implRun (SimpleUnion.ds A) s prog = specRun ⟨[], none⟩ prog :=
  (C13_end_sticky _ _ _ (SimpleUnion.lawful hA) prog s hV hlegal).1

/-- Intersection (left / right / any number of others): the leap-frog `advance` (left `seek`, the
others `seek_danger`, candidates taken from the returned lower bounds), `seek` through
`go_to_first_doc`, `seek_danger` with the intersection's own danger zone, over ANY lawful children —
which may sit in their danger zones between iterations and after the end was reached.
`_partial`: `count_including_deleted` is the sparse (advance-driven) branch; the dense block-counting
branch is tied by the harness only, and provably does not end in a valid state
(`C13_intersection_dense_count_end_counterexample`).
FULL STATEMENT: the same with `Inter.ds A` (both count branches). -/
theorem C13_intersection_lawful_partial (hA : Lawful A VA WA) :
    Lawful (Inter.dsSparse A) (Inter.V VA WA) (Inter.W VA WA) := Inter.lawful_sparse hA

/-- **Dense count.** The block loop of `count_including_deleted_dense` (one fresh 1024-doc mask per
child, ANDed, popcount, next base = the largest next document) started at `nb` with every child
valid and positioned at or before `nb` returns the number of common documents `≥ nb` — for all
children lists and any number of children (unbounded; replaces the five-clause `decide` instance).
Hypothesis: documents stay `BLOCK_WINDOW` below the end marker, where the trait's default
`fill_bitset_block` is specified (beyond it the real code would set the TERMINATED bit). -/
theorem C13_intersection_dense_count (hA : Lawful A VA WA) (s : Inter.State σ) (nb cnt : Nat)
    (ll lr : List Nat) (los : List (List Nat)) (hL : VA s.left ll) (hR : VA s.right lr)
    (hO : All2 VA s.others los) (hdl : Spec.doc ll ≤ nb) (hdr : Spec.doc lr ≤ nb)
    (hdo : ∀ lo ∈ los, Spec.doc lo ≤ nb) (hnb : nb < TERMINATED → nb + BLOCK_WINDOW ≤ TERMINATED)
    (hsm : ∀ x, (x ∈ ll ∨ x ∈ lr ∨ ∃ lo ∈ los, x ∈ lo) → x + BLOCK_WINDOW ≤ TERMINATED) :
    (Inter.denseLoop A FUEL nb cnt s).1 = cnt + (Spec.seek nb (Inter.Common ll lr los)).length :=
  Inter.denseLoop_law hA FUEL (by unfold FUEL; omega) hL hR hO hdl hdr hdo hnb hsm

/-- **Intersection, full.** With both `count_including_deleted` branches (the real `Inter.ds`, for
every setting of the repair switches): `Lawful` children (whose documents stay `BLOCK_WINDOW` below
the end marker) ⇒ `Lawful` intersection. Supersedes `C13_intersection_lawful_partial`. -/
theorem C13_intersection_lawful (hA : Lawful A VA WA)
    (hsmall : ∀ {c l}, VA c l → ∀ x ∈ l, x + BLOCK_WINDOW ≤ TERMINATED) (fx : Fix) :
    Lawful (Inter.ds A fx) (Inter.V VA WA) (Inter.W VA WA) := Inter.lawful hA hsmall fx

theorem C13_intersection_program_equiv (hA : Lawful A VA WA)
    (hsmall : ∀ {c l}, VA c l → ∀ x ∈ l, x + BLOCK_WINDOW ≤ TERMINATED) (fx : Fix)
    (s : Inter.State σ) (l : List Nat) (hV : Inter.V VA WA s l) (prog : List Op)
    (hlegal : legalProg ⟨l, none⟩ prog = true) :
    implRun (Inter.ds A fx) s prog = specRun ⟨l, none⟩ prog :=
  C13_program_equiv _ _ _ (Inter.lawful hA hsmall fx) prog s l hV hlegal

theorem C13_intersection_end_sticky (hA : Lawful A VA WA)
    (hsmall : ∀ {c l}, VA c l → ∀ x ∈ l, x + BLOCK_WINDOW ≤ TERMINATED) (fx : Fix)
    (s : Inter.State σ) (hV : Inter.V VA WA s []) (prog : List Op)
    (hlegal : legalProg ⟨[], none⟩ prog = true) :
    implRun (Inter.ds A fx) s prog = specRun ⟨[], none⟩ prog :=
  (C13_end_sticky _ _ _ (Inter.lawful hA hsmall fx) prog s hV hlegal).1

/-- the abstraction: documents common to all children -/
theorem C13_intersection_abstraction (ll lr : List Nat) (los : List (List Nat)) (x : Nat) :
    x ∈ Inter.Common ll lr los ↔ x ∈ ll ∧ x ∈ lr ∧ ∀ lo ∈ los, x ∈ lo := Inter.mem_common

theorem C13_intersection_program_equiv_partial (hA : Lawful A VA WA) (s : Inter.State σ)
    (l : List Nat) (hV : Inter.V VA WA s l) (prog : List Op)
    (hlegal : legalProg ⟨l, none⟩ prog = true) :
    implRun (Inter.dsSparse A) s prog = specRun ⟨l, none⟩ prog :=
  C13_program_equiv _ _ _ (Inter.lawful_sparse hA) prog s l hV hlegal

theorem C13_intersection_end_sticky_partial (hA : Lawful A VA WA) (s : Inter.State σ)
    (hV : Inter.V VA WA s []) (prog : List Op) (hlegal : legalProg ⟨[], none⟩ prog = true) :
    implRun (Inter.dsSparse A) s prog = specRun ⟨[], none⟩ prog :=
  (C13_end_sticky _ _ _ (Inter.lawful_sparse hA) prog s hV hlegal).1

/-- the order of the children does not matter for the set that is enumerated: swapping left and
right, or permuting the others, gives the same common documents (with
`C13_intersection_lawful_partial`: the same observations under every legal program) -/
theorem C13_intersection_order_irrelevant (ll lr : List Nat) (los los' : List (List Nat))
    (hl : Sorted ll) (hr : Sorted lr) (hperm : ∀ lo, lo ∈ los ↔ lo ∈ los') :
    Inter.Common ll lr los = Inter.Common lr ll los
      ∧ Inter.Common ll lr los = Inter.Common ll lr los' := by
  constructor
  · apply Sorted.ext (Inter.common_sorted hl) (Inter.common_sorted hr)
    intro x
    rw [Inter.mem_common, Inter.mem_common]
    constructor
    · rintro ⟨a, b, c⟩; exact ⟨b, a, c⟩
    · rintro ⟨a, b, c⟩; exact ⟨b, a, c⟩
  · apply Sorted.ext (Inter.common_sorted hl) (Inter.common_sorted hl)
    intro x
    rw [Inter.mem_common, Inter.mem_common]
    constructor
    · rintro ⟨a, b, c⟩; exact ⟨a, b, fun lo hlo => c lo ((hperm lo).mpr hlo)⟩
    · rintro ⟨a, b, c⟩; exact ⟨a, b, fun lo hlo => c lo ((hperm lo).mp hlo)⟩

/-- BufferedUnionScorer, parametric in the horizon `H` (any positive multiple of 64): the invariant
"the window holds exactly the not yet consumed members of the children inside
[window_start, window_start + H), every child is positioned at or beyond the horizon" is preserved by
`advance` (pop the smallest buffered delta; on an empty window `refill` moves the window to the
smallest child document and drains every child below the new horizon), and the abstraction commutes:
the remaining sequence loses exactly its head. Children abstract (lawful, `score` preserving their
abstraction). `_partial`: `advance`/`doc` only — `seek`, `seek_danger`, `fill_buffer`,
`count_including_deleted` and `build` are open (plan in the comment below); findings 5 and 9 live
in `seek_danger`/`seek`, finding 3 in `count`. -/
theorem C13_union_advance_refines_partial (hA : Lawful A VA WA)
    (hscore : ∀ {c l}, VA c l → VA (A.score c).2 l) (H : Nat) (hH : 64 ∣ H) (hH0 : 0 < H)
    (s : BUnion.State σ) (l : List Nat) (hV : BUnion.V VA H s l) :
    BUnion.V VA H (BUnion.advance A H s) (Spec.advance l)
      ∧ (BUnion.advance A H s).doc = Spec.doc (Spec.advance l) :=
  ⟨BUnion.advance_law hA hscore hH hH0 hV,
    (BUnion.core0 hA hscore hH hH0).doc_eq (BUnion.advance_law hA hscore hH hH0 hV)⟩

theorem C13_union_advance_program_equiv_partial (hA : Lawful A VA WA)
    (hscore : ∀ {c l}, VA c l → VA (A.score c).2 l) (H : Nat) (hH : 64 ∣ H) (hH0 : 0 < H)
    (fx : Fix) (s : BUnion.State σ) (l : List Nat) (hV : BUnion.V VA H s l) (prog : List Op)
    (hp : advOnly prog = true) :
    implRun (BUnion.ds A H fx) s prog = specRun ⟨l, none⟩ prog :=
  core0_program_equiv (BUnion.ds A H fx) (BUnion.V VA H) (BUnion.core0 hA hscore hH hH0) prog s l hV hp

/-- BufferedUnionScorer::seek (the code as it is after the repairs, read from the extracted guards):
the buffered branch (drop the whole 64-doc buckets below the target's bucket, then advance) and the
far branch (clear the window, re-validate every child with `seek(max(doc, target))`, drop the
exhausted ones, refill, pop) both land on the first member `≥ target` and keep the window
invariant — for every horizon `H` (multiple of 64), every lawful children, every target. -/
theorem C13_union_seek_refines (hA : Lawful A VA WA)
    (hscore : ∀ {c l}, VA c l → VA (A.score c).2 l) (H : Nat) (hH : 64 ∣ H) (hH0 : 0 < H) (fx : Fix)
    (s : BUnion.State σ) (l : List Nat) (t : Nat) (hV : BUnion.V VA H s l) (hd : s.doc ≤ t)
    (ht : t ≤ TERMINATED) :
    BUnion.V VA H (BUnion.seek fx A H t s) (Spec.seek t l)
      ∧ (BUnion.seek fx A H t s).doc = Spec.doc (Spec.seek t l) :=
  ⟨BUnion.seek_law hA hscore hH hH0 fx hV hd ht,
    (BUnion.core0 hA hscore hH hH0).doc_eq (BUnion.seek_law hA hscore hH hH0 fx hV hd ht)⟩

/-- every legal program of doc / advance / seek / fill_bitset_block calls on the buffered union model
observes the specification's sequence (seek_danger, fill_buffer, count: see the open list) -/
theorem C13_union_core_program_equiv_partial (hA : Lawful A VA WA)
    (hscore : ∀ {c l}, VA c l → VA (A.score c).2 l) (H : Nat) (hH : 64 ∣ H) (hH0 : 0 < H)
    (fx : Fix) (s : BUnion.State σ) (l : List Nat) (hV : BUnion.V VA H s l) (prog : List Op)
    (hp : coreOnly prog = true) (hlegal : legalProg ⟨l, none⟩ prog = true) :
    implRun (BUnion.ds A H fx) s prog = specRun ⟨l, none⟩ prog :=
  core_program_equiv (BUnion.ds A H fx) (BUnion.V VA H) (BUnion.core hA hscore hH hH0 fx) rfl prog s l hV hp hlegal

/-- `count_including_deleted` of the buffered union returns the number of documents still to come
(the current one, the buffered ones, and what `while self.refill()` drains from the children) -/
theorem C13_union_count (hA : Lawful A VA WA)
    (hscore : ∀ {c l}, VA c l → VA (A.score c).2 l) (H : Nat) (hH : 64 ∣ H) (hH0 : 0 < H) (fx : Fix)
    (s : BUnion.State σ) (l : List Nat) (hV : BUnion.V VA H s l) :
    (BUnion.count fx A H s).1 = l.length :=
  BUnion.count_law hA hscore hH hH0 fx hV

/-- **BufferedUnionScorer, `Lawful`.** The real `doc`, `advance`/`refill`, `seek` (buffered and far
branch), `seek_danger` (buffered path, far path over the children with the first-hit break, and the
danger zones both leave), `fill_bitset_block`, `count_including_deleted` — for every horizon `H`
(multiple of 64) and all lawful children whose `score()` preserves their abstraction. The behaviour
of `seek_danger` below the window start and of the far `seek` towards children in their danger
zones is the REPAIRED one: it is read from the extracted guards
(`UNION_SEEK_DANGER_BELOW_WINDOW_BUFFERED`, `UNION_SEEK_REVALIDATES_CHILDREN` = 1), so the proof
breaks if either repair is reverted (findings 5 and 9). `_partial`: `fill_buffer` is the trait
default in `BUnion.dsNF`; the model's own `fill_buffer` loop is still open. -/
theorem C13_union_lawful_partial (hA : Lawful A VA WA)
    (hscore : ∀ {c l}, VA c l → VA (A.score c).2 l) (H : Nat) (hH : 64 ∣ H) (hH0 : 0 < H) (fx : Fix) :
    Lawful (BUnion.dsNF A H fx) (BUnion.V VA H) (BUnion.W VA WA H) :=
  BUnion.lawful_nf hA hscore hH hH0 fx

theorem C13_union_program_equiv_partial (hA : Lawful A VA WA)
    (hscore : ∀ {c l}, VA c l → VA (A.score c).2 l) (H : Nat) (hH : 64 ∣ H) (hH0 : 0 < H) (fx : Fix)
    (s : BUnion.State σ) (l : List Nat) (hV : BUnion.V VA H s l) (prog : List Op)
    (hlegal : legalProg ⟨l, none⟩ prog = true) :
    implRun (BUnion.dsNF A H fx) s prog = specRun ⟨l, none⟩ prog :=
  C13_program_equiv _ _ _ (BUnion.lawful_nf hA hscore hH hH0 fx) prog s l hV hlegal

theorem C13_union_end_sticky_partial (hA : Lawful A VA WA)
    (hscore : ∀ {c l}, VA c l → VA (A.score c).2 l) (H : Nat) (hH : 64 ∣ H) (hH0 : 0 < H) (fx : Fix)
    (s : BUnion.State σ) (hV : BUnion.V VA H s []) (prog : List Op)
    (hlegal : legalProg ⟨[], none⟩ prog = true) :
    implRun (BUnion.dsNF A H fx) s prog = specRun ⟨[], none⟩ prog :=
  (C13_end_sticky _ _ _ (BUnion.lawful_nf hA hscore hH hH0 fx) prog s hV hlegal).1

/-- `fill_buffer` of the buffered union (three nested loops: pop the current bucket, move to the next
bucket, refill the window) emits the next up-to-64 documents and leaves the cursor on the one after -/
theorem C13_union_fill_buffer (hA : Lawful A VA WA)
    (hscore : ∀ {c l}, VA c l → VA (A.score c).2 l) (H : Nat) (hH : 64 ∣ H) (hH0 : 0 < H) (fx : Fix)
    (s : BUnion.State σ) (l : List Nat) (hV : BUnion.V VA H s l) :
    (BUnion.fillBuffer fx A H s).1 = l.take BUFLEN
      ∧ BUnion.V VA H (BUnion.fillBuffer fx A H s).2 (l.drop BUFLEN) :=
  BUnion.fillBuffer_law hA hscore hH hH0 fx hV

/-- **BufferedUnionScorer, full.** Every method of the model the driver runs (`BUnion.ds`), for every
horizon `H` (multiple of 64), all lawful children, every setting of the repair switches.
Supersedes `C13_union_lawful_partial`. The repaired behaviour of `seek_danger` / far `seek` is read
from the extracted guards (= 1 on the current source). -/
theorem C13_union_lawful (hA : Lawful A VA WA)
    (hscore : ∀ {c l}, VA c l → VA (A.score c).2 l) (H : Nat) (hH : 64 ∣ H) (hH0 : 0 < H) (fx : Fix) :
    Lawful (BUnion.ds A H fx) (BUnion.V VA H) (BUnion.W VA WA H) :=
  BUnion.lawful hA hscore hH hH0 fx

theorem C13_union_program_equiv (hA : Lawful A VA WA)
    (hscore : ∀ {c l}, VA c l → VA (A.score c).2 l) (H : Nat) (hH : 64 ∣ H) (hH0 : 0 < H) (fx : Fix)
    (s : BUnion.State σ) (l : List Nat) (hV : BUnion.V VA H s l) (prog : List Op)
    (hlegal : legalProg ⟨l, none⟩ prog = true) :
    implRun (BUnion.ds A H fx) s prog = specRun ⟨l, none⟩ prog :=
  C13_program_equiv _ _ _ (BUnion.lawful hA hscore hH hH0 fx) prog s l hV hlegal

theorem C13_union_end_sticky (hA : Lawful A VA WA)
    (hscore : ∀ {c l}, VA c l → VA (A.score c).2 l) (H : Nat) (hH : 64 ∣ H) (hH0 : 0 < H) (fx : Fix)
    (s : BUnion.State σ) (hV : BUnion.V VA H s []) (prog : List Op)
    (hlegal : legalProg ⟨[], none⟩ prog = true) :
    implRun (BUnion.ds A H fx) s prog = specRun ⟨[], none⟩ prog :=
  (C13_end_sticky _ _ _ (BUnion.lawful hA hscore hH hH0 fx) prog s hV hlegal).1

/-- instantiated at the extracted horizon -/
theorem C13_union_lawful_extracted (hA : Lawful A VA WA)
    (hscore : ∀ {c l}, VA c l → VA (A.score c).2 l) (fx : Fix) :
    Lawful (BUnion.ds A Gen.UNION_HORIZON fx) (BUnion.V VA Gen.UNION_HORIZON) (BUnion.W VA WA Gen.UNION_HORIZON) :=
  BUnion.lawful hA hscore (by decide) (by decide) fx

/-- from construction: `BufferedUnionScorer::build` over valid children enumerates, under every legal
call program, exactly their sorted union -/
theorem C13_union_program_equiv_from_build (hA : Lawful A VA WA)
    (hscore : ∀ {c l}, VA c l → VA (A.score c).2 l) (H : Nat) (hH : 64 ∣ H) (hH0 : 0 < H) (fx : Fix)
    (sum : Bool) (cs : List σ) (ls : List (List Nat)) (U : List Nat) (hcs : All2 VA cs ls)
    (hU : SimpleUnion.IsUnion U ls) (prog : List Op) (hlegal : legalProg ⟨U, none⟩ prog = true) :
    implRun (BUnion.ds A H fx) (BUnion.build A H sum cs) prog = specRun ⟨U, none⟩ prog :=
  C13_program_equiv _ _ _ (BUnion.lawful hA hscore hH hH0 fx) prog _ _
    (BUnion.build_V hA hscore hH hH0 sum hcs hU) hlegal

/-- from construction: `Intersection::new` over valid children enumerates, under every legal call
program, exactly their common documents -/
theorem C13_intersection_program_equiv_from_new (hA : Lawful A VA WA)
    (hsmall : ∀ {c l}, VA c l → ∀ x ∈ l, x + BLOCK_WINDOW ≤ TERMINATED) (fx : Fix) (dense : Bool)
    (l r : σ) (os : List σ) (ll lr : List Nat) (los : List (List Nat)) (hL : VA l ll) (hR : VA r lr)
    (hO : All2 VA os los) (prog : List Op)
    (hlegal : legalProg ⟨Inter.Common ll lr los, none⟩ prog = true) :
    implRun (Inter.ds A fx) (Inter.new A dense l r os) prog = specRun ⟨Inter.Common ll lr los, none⟩ prog :=
  C13_program_equiv _ _ _ (Inter.lawful hA hsmall fx) prog _ _ (Inter.new_V hA dense hL hR hO) hlegal

/-- the extracted horizon satisfies the side conditions -/
theorem C13_union_horizon_ok : 64 ∣ Gen.UNION_HORIZON ∧ 0 < Gen.UNION_HORIZON
    ∧ Gen.UNION_HORIZON / 64 = Gen.UNION_HORIZON_NUM_TINYBITSETS := by decide

/-- score path independence of RequiredOptionalScorer (SumCombiner): with an empty cache (every
move empties it) the score at the current document `d` is `score_req(d) + [d ∈ opt] score_opt(d)`,
a function of `d` alone, for every state the two children were brought to by whatever calls -/
theorem C13_reqopt_score_path_independent (hB : Lawful B VB WB) (fA fB : Nat → Nat)
    (hfA : ∀ {r}, (A.score r).1 = fA (A.doc r)) (hfB : ∀ {o}, (B.score o).1 = fB (B.doc o))
    (s : ReqOpt.State σ τ) (lo : List Nat) (hVO : VB s.opt lo) (hc : s.cache = none)
    (hsum : s.sum = true) (hd : A.doc s.req < TERMINATED) :
    (ReqOpt.score A B s).1 = fA (A.doc s.req) + (if A.doc s.req ∈ lo then fB (A.doc s.req) else 0) :=
  ReqOpt.score_value hB hfA hfB hVO hc hsum hd

/-- **Disjunction** (minimum-should-match, src/query/disjunction.rs): the heap-pop loop of `advance`
(pop the scorers on the smallest document, count them, stop at the first document reached by at
least `minimum_matches_required`) and the default methods, over lawful children. -/
theorem C13_disjunction_lawful (hA : Lawful A VA WA)
    (hscore : ∀ {c l}, VA c l → VA (A.score c).2 l) :
    Lawful (Disj.ds A) (Disj.V VA) (defaultW (Disj.V VA)) :=
  Disj.lawful hA hscore

/-- from `Disjunction::new`: over valid children, every legal call program observes exactly the
cursor over the documents contained in at least `k` of the children's lists -/
theorem C13_disjunction_program_equiv (hA : Lawful A VA WA)
    (hscore : ∀ {c l}, VA c l → VA (A.score c).2 l) (sum : Bool) (k : Nat) (hk : 1 ≤ k)
    (cs : List σ) (ls : List (List Nat)) (L : List Nat) (hcs : All2 VA cs ls) (hL : Sorted L)
    (hmem : ∀ x, x ∈ L ↔ k ≤ Disj.cnt x ls) (prog : List Op)
    (hlegal : legalProg ⟨L, none⟩ prog = true) :
    implRun (Disj.ds A) (Disj.new A sum k cs) prog = specRun ⟨L, none⟩ prog :=
  C13_program_equiv _ _ _ (Disj.lawful hA hscore) prog _ L
    (Disj.new_V hA hscore sum hk hcs hL hmem) hlegal

theorem C13_disjunction_end_sticky (hA : Lawful A VA WA)
    (hscore : ∀ {c l}, VA c l → VA (A.score c).2 l) (s : Disj.State σ) (hV : Disj.V VA s [])
    (prog : List Op) (hlegal : legalProg ⟨[], none⟩ prog = true) :
    implRun (Disj.ds A) s prog = specRun ⟨[], none⟩ prog :=
  (C13_end_sticky _ _ _ (Disj.lawful hA hscore) prog s hV hlegal).1

/-- on a document every child of the intersection sits on that document (what `score` relies on) -/
theorem C13_intersection_children_aligned (hA : Lawful A VA WA) (s : Inter.State σ) (l : List Nat)
    (hV : Inter.V VA WA s l) (hne : l ≠ []) : ∀ c ∈ Inter.toList s, A.doc c = Spec.doc l :=
  Inter.children_doc hA hV hne

/-- score of the intersection (SumCombiner): with `g c` the score function of child `c`, the score at
the current document `d` is `Σ_children g c d`, for every valid state however it was reached -/
theorem C13_intersection_score_value (hA : Lawful A VA WA) (fx : Fix) (g : σ → Nat → Nat)
    (hg : ∀ {c l}, VA c l → l ≠ [] → (A.score c).1 = g c (A.doc c)) (s : Inter.State σ) (l : List Nat)
    (hV : Inter.V VA WA s l) (hne : l ≠ []) :
    ((Inter.ds A fx).score s).1 = (((Inter.toList s).map g).map (fun f => f (Spec.doc l))).sum :=
  Inter.score_value hA fx g hg hV hne

/-- the moves of the intersection leave data of the children that the children's own methods do not
change (their score functions) alone -/
theorem C13_intersection_ghost_preserved {α : Type} (g : σ → α) (hG : Inter.Ghost A g) (fx : Fix)
    (s : Inter.State σ) (t : Nat) :
    (Inter.toList ((Inter.ds A fx).advance s)).map g = (Inter.toList s).map g
      ∧ (Inter.toList ((Inter.ds A fx).seek t s)).map g = (Inter.toList s).map g
      ∧ (Inter.toList ((Inter.ds A fx).seekDanger t s).2).map g = (Inter.toList s).map g
      ∧ (Inter.toList ((Inter.ds A fx).score s).2).map g = (Inter.toList s).map g :=
  ⟨Inter.advance_ghost hG s, Inter.seek_ghost hG t s, Inter.seekDanger_ghost hG t s, Inter.score_ghost hG fx s⟩

/-- score path independence of the intersection: two valid states on the same document, over children
with the same score functions, score the same — whatever calls brought them there -/
theorem C13_intersection_score_path_independent (hA : Lawful A VA WA) (fx : Fix) (g : σ → Nat → Nat)
    (hg : ∀ {c l}, VA c l → l ≠ [] → (A.score c).1 = g c (A.doc c)) (s1 s2 : Inter.State σ) (l1 l2 : List Nat)
    (hV1 : Inter.V VA WA s1 l1) (hV2 : Inter.V VA WA s2 l2) (h1 : l1 ≠ []) (h2 : l2 ≠ [])
    (hdoc : Spec.doc l1 = Spec.doc l2)
    (hghost : (Inter.toList s1).map g = (Inter.toList s2).map g) :
    ((Inter.ds A fx).score s1).1 = ((Inter.ds A fx).score s2).1 := by
  rw [Inter.score_value hA fx g hg hV1 h1, Inter.score_value hA fx g hg hV2 h2, hdoc, hghost]

/-- **Score clause of the SUM buffered union.** Children: any lawful implementation whose `score()` is
a function `g c` of the current document that the child's own moves do not change (`Inter.Ghost`).
Build the union (`BufferedUnionScorer::build`, SumCombiner) and apply ANY legal mix of `advance` and
`seek` (window refills, bucket-skipping in-horizon seeks that clear the dropped slots, far seeks that
clear everything, at any horizon `H`): the union sits on the document the specification cursor sits
on, and `score()` there is the sum of `g c d` over the children containing `d`.
`fill_buffer` is excluded: for it the statement is false (C13_union_fill_buffer_*_counterexample). -/
theorem C13_union_score_value (hA : Lawful A VA WA) (hscore : ∀ {c l}, VA c l → VA (A.score c).2 l)
    (g : σ → Nat → Nat) (hG : Inter.Ghost A g) (hg : ∀ {c l}, VA c l → l ≠ [] → (A.score c).1 = g c (A.doc c))
    (H : Nat) (hH : 64 ∣ H) (hH0 : 0 < H) (fx : Fix) (cs : List σ) (ls : List (List Nat)) (U : List Nat)
    (hcs : All2 VA cs ls) (hU : SimpleUnion.IsUnion U ls) (ms : List BUnion.Move)
    (hl : BUnion.legalMoves U ms) :
    (BUnion.runMoves fx A H (BUnion.build A H true cs) ms).doc = Spec.doc (BUnion.specMoves U ms)
      ∧ ((BUnion.runMoves fx A H (BUnion.build A H true cs) ms).doc < TERMINATED →
          ((BUnion.ds A H fx).score (BUnion.runMoves fx A H (BUnion.build A H true cs) ms)).1
            = BUnion.gsum g cs ls (BUnion.runMoves fx A H (BUnion.build A H true cs) ms).doc) :=
  BUnion.score_after_moves hA hscore hG hg hH hH0 fx hcs hU ms hl

/-- score path independence of the SUM buffered union: two legal call sequences of `advance` / `seek`
that end on the same document end with the same score -/
theorem C13_union_score_path_independent (hA : Lawful A VA WA)
    (hscore : ∀ {c l}, VA c l → VA (A.score c).2 l)
    (g : σ → Nat → Nat) (hG : Inter.Ghost A g) (hg : ∀ {c l}, VA c l → l ≠ [] → (A.score c).1 = g c (A.doc c))
    (H : Nat) (hH : 64 ∣ H) (hH0 : 0 < H) (fx : Fix) (cs : List σ) (ls : List (List Nat)) (U : List Nat)
    (hcs : All2 VA cs ls) (hU : SimpleUnion.IsUnion U ls) (ms1 ms2 : List BUnion.Move)
    (hl1 : BUnion.legalMoves U ms1) (hl2 : BUnion.legalMoves U ms2)
    (hsame : Spec.doc (BUnion.specMoves U ms1) = Spec.doc (BUnion.specMoves U ms2))
    (hlt : Spec.doc (BUnion.specMoves U ms1) < TERMINATED) :
    ((BUnion.ds A H fx).score (BUnion.runMoves fx A H (BUnion.build A H true cs) ms1)).1
      = ((BUnion.ds A H fx).score (BUnion.runMoves fx A H (BUnion.build A H true cs) ms2)).1 := by
  obtain ⟨a1, a2⟩ := BUnion.score_after_moves hA hscore hG hg hH hH0 fx hcs hU ms1 hl1
  obtain ⟨b1, b2⟩ := BUnion.score_after_moves hA hscore hG hg hH hH0 fx hcs hU ms2 hl2
  rw [a2 (by rw [a1]; exact hlt), b2 (by rw [b1, ← hsame]; exact hlt), a1, b1, hsame]

/-- … at the extracted horizon -/
theorem C13_union_score_path_independent_extracted (hA : Lawful A VA WA)
    (hscore : ∀ {c l}, VA c l → VA (A.score c).2 l)
    (g : σ → Nat → Nat) (hG : Inter.Ghost A g) (hg : ∀ {c l}, VA c l → l ≠ [] → (A.score c).1 = g c (A.doc c))
    (fx : Fix) (cs : List σ) (ls : List (List Nat)) (U : List Nat)
    (hcs : All2 VA cs ls) (hU : SimpleUnion.IsUnion U ls) (ms1 ms2 : List BUnion.Move)
    (hl1 : BUnion.legalMoves U ms1) (hl2 : BUnion.legalMoves U ms2)
    (hsame : Spec.doc (BUnion.specMoves U ms1) = Spec.doc (BUnion.specMoves U ms2))
    (hlt : Spec.doc (BUnion.specMoves U ms1) < TERMINATED) :
    ((BUnion.ds A Gen.UNION_HORIZON fx).score (BUnion.runMoves fx A Gen.UNION_HORIZON (BUnion.build A Gen.UNION_HORIZON true cs) ms1)).1
      = ((BUnion.ds A Gen.UNION_HORIZON fx).score (BUnion.runMoves fx A Gen.UNION_HORIZON (BUnion.build A Gen.UNION_HORIZON true cs) ms2)).1 :=
  C13_union_score_path_independent hA hscore g hG hg _ (by decide) (by decide) fx cs ls U hcs hU ms1 ms2 hl1 hl2 hsame hlt

/-- **Score clause of Disjunction** (minimum-should-match, SumCombiner): built by `Disjunction::new`
over lawful children whose score is a function of the document (`Inter.Ghost`), after ANY legal mix
of `advance` and `seek` the disjunction sits on the specification cursor's document and `score()`
there is the sum of the score functions of the children containing it (the running combiner is reset
per candidate and updated once per popped scorer). -/
theorem C13_disjunction_score_value (hA : Lawful A VA WA) (hscore : ∀ {c l}, VA c l → VA (A.score c).2 l)
    (g : σ → Nat → Nat) (hG : Inter.Ghost A g) (hg : ∀ {c l}, VA c l → l ≠ [] → (A.score c).1 = g c (A.doc c))
    (k : Nat) (hk : 1 ≤ k) (cs : List σ) (ls : List (List Nat)) (L : List Nat) (hcs : All2 VA cs ls)
    (hL : Sorted L) (hmem : ∀ x, x ∈ L ↔ k ≤ Disj.cnt x ls) (ms : List Disj.Move)
    (hl : Disj.legalMoves L ms) :
    (Disj.runMoves A (Disj.new A true k cs) ms).currentDoc = Spec.doc (Disj.specMoves L ms)
      ∧ ((Disj.runMoves A (Disj.new A true k cs) ms).currentDoc < TERMINATED →
          ((Disj.ds A).score (Disj.runMoves A (Disj.new A true k cs) ms)).1
            = Disj.gsum g cs ls (Disj.runMoves A (Disj.new A true k cs) ms).currentDoc) :=
  Disj.score_after_moves hA hscore hG hg hk hcs hL hmem ms hl

/-- score path independence of Disjunction -/
theorem C13_disjunction_score_path_independent (hA : Lawful A VA WA)
    (hscore : ∀ {c l}, VA c l → VA (A.score c).2 l)
    (g : σ → Nat → Nat) (hG : Inter.Ghost A g) (hg : ∀ {c l}, VA c l → l ≠ [] → (A.score c).1 = g c (A.doc c))
    (k : Nat) (hk : 1 ≤ k) (cs : List σ) (ls : List (List Nat)) (L : List Nat) (hcs : All2 VA cs ls)
    (hL : Sorted L) (hmem : ∀ x, x ∈ L ↔ k ≤ Disj.cnt x ls) (ms1 ms2 : List Disj.Move)
    (hl1 : Disj.legalMoves L ms1) (hl2 : Disj.legalMoves L ms2)
    (hsame : Spec.doc (Disj.specMoves L ms1) = Spec.doc (Disj.specMoves L ms2))
    (hlt : Spec.doc (Disj.specMoves L ms1) < TERMINATED) :
    ((Disj.ds A).score (Disj.runMoves A (Disj.new A true k cs) ms1)).1
      = ((Disj.ds A).score (Disj.runMoves A (Disj.new A true k cs) ms2)).1 := by
  obtain ⟨a1, a2⟩ := Disj.score_after_moves hA hscore hG hg hk hcs hL hmem ms1 hl1
  obtain ⟨b1, b2⟩ := Disj.score_after_moves hA hscore hG hg hk hcs hL hmem ms2 hl2
  rw [a2 (by rw [a1]; exact hlt), b2 (by rw [b1, ← hsame]; exact hlt), a1, b1, hsame]

/-- **The SUM union with its scores is lawful.** With "valid AND scoring the total of the children"
(`BUnion.VS`) as the valid-state relation and the danger zones carrying the score invariant
(`BUnion.WS`), every method of the buffered union — `advance`, `seek`, `seek_danger` (buffered and
children paths, danger zones of the children included), `fill_bitset_block`, `count`, and the trait's
default `fill_buffer` in place of the union's own (for which the statement is false) — satisfies the
refinement contract. `G` is any total score function consistent with the children. -/
theorem C13_union_score_lawful (hA : Lawful A VA WA) (hscore : ∀ {c l}, VA c l → VA (A.score c).2 l)
    (g : σ → Nat → Nat) (hG : Inter.Ghost A g) (hg : ∀ {c l}, VA c l → l ≠ [] → (A.score c).1 = g c (A.doc c))
    (G : Nat → Nat) (H : Nat) (hH : 64 ∣ H) (hH0 : 0 < H) (fx : Fix) :
    Lawful (BUnion.dsNF A H fx) (BUnion.VS g G VA H) (BUnion.WS g G VA WA H) :=
  BUnion.lawful_S hA hscore hG hg hH hH0 fx

/-- **Score clause of the SUM union, every legal call program.** Built over valid children, after ANY
legal program of doc / advance / seek / seek_danger sequences (as Intersection and Exclude drive
it) / fill_bitset_block / default fill_buffer: the observations are the specification cursor's, and
whenever the cursor is not in a danger zone the union sits on the specification's document and
`score()` is the sum of the score functions of the children containing it. -/
theorem C13_union_score_program (hA : Lawful A VA WA) (hscore : ∀ {c l}, VA c l → VA (A.score c).2 l)
    (g : σ → Nat → Nat) (hG : Inter.Ghost A g) (hg : ∀ {c l}, VA c l → l ≠ [] → (A.score c).1 = g c (A.doc c))
    (H : Nat) (hH : 64 ∣ H) (hH0 : 0 < H) (fx : Fix) (cs : List σ) (ls : List (List Nat)) (U : List Nat)
    (hcs : All2 VA cs ls) (hU : SimpleUnion.IsUnion U ls) (prog : List Op)
    (hl : legalProg ⟨U, none⟩ prog = true) (hnc : ∀ op ∈ prog, op ≠ Op.count) :
    implRun (BUnion.dsNF A H fx) (BUnion.build A H true cs) prog = specRun ⟨U, none⟩ prog
      ∧ ((specFinal ⟨U, none⟩ prog).danger = none →
          (implFinal (BUnion.dsNF A H fx) (BUnion.build A H true cs) prog).doc
              = Spec.doc (specFinal ⟨U, none⟩ prog).rest
            ∧ ((implFinal (BUnion.dsNF A H fx) (BUnion.build A H true cs) prog).doc < TERMINATED →
                ((BUnion.dsNF A H fx).score (implFinal (BUnion.dsNF A H fx) (BUnion.build A H true cs) prog)).1
                  = BUnion.gsum g cs ls (implFinal (BUnion.dsNF A H fx) (BUnion.build A H true cs) prog).doc)) :=
  BUnion.score_after_program hA hscore hG hg hH hH0 fx hcs hU prog hl hnc

/-- **Composition of the score clause, SUM union.** `Scored C V W g`: what a scoring parent needs from
a child (it refines the cursor, `score()` does not move it, on a document its score is `g c d` with
`g c` untouched by the child's methods). Over scored children the buffered union — paired with its
total score function as ghost data, valid states = `BUnion.VS` — is again a scored child. -/
theorem C13_scored_union_closed (g : σ → Nat → Nat) (hS : Scored A VA WA g) (H : Nat) (hH : 64 ∣ H)
    (hH0 : 0 < H) (fx : Fix) :
    Scored ((BUnion.dsNF A H fx).withGhost (α := Nat → Nat))
      (fun p l => BUnion.VS g p.2 VA H p.1 l) (fun p t l => BUnion.WS g p.2 VA WA H p.1 t l)
      (fun p => p.2) :=
  BUnion.scored hS hH hH0 fx

/-- **Composition of the score clause, Disjunction**: over scored children the minimum-should-match
disjunction (SumCombiner) is again a scored child -/
theorem C13_scored_disjunction_closed (g : σ → Nat → Nat) (hS : Scored A VA WA g) :
    Scored ((Disj.ds A).withGhost (α := Nat → Nat))
      (fun p l => Disj.VS g p.2 VA p.1 l) (fun p t l => defaultW (Disj.VS g p.2 VA) p.1 t l)
      (fun p => p.2) :=
  Disj.scored hS

/-- **Composition of the score clause, Intersection**: over scored children (holding small documents,
see `Scored.restrict`) the intersection, paired with the sum of its children's score functions, is
again a scored child -/
theorem C13_scored_intersection_closed (g : σ → Nat → Nat) (hS : Scored A VA WA g)
    (hsmall : ∀ {c l}, VA c l → ∀ x ∈ l, x + BLOCK_WINDOW ≤ TERMINATED) (fx : Fix) :
    Scored ((Inter.ds A fx).withGhost (α := Nat → Nat))
      (fun p l => Inter.V VA WA p.1 l ∧ Inter.PF g p.2 p.1)
      (fun p t l => Inter.W VA WA p.1 t l ∧ Inter.PF g p.2 p.1) (fun p => p.2) :=
  Inter.scored hS hsmall fx

/-- **Composition of the score clause, Exclude**: a scored scorer minus lawful exclusion sets is a
scored child with the underlying scorer's score function -/
theorem C13_scored_exclude_closed (g : σ → Nat → Nat) (hS : Scored A VA WA g) (hB : Lawful B VB WB) :
    Scored (Exclude.ds A B) (Exclude.V VA VB WB) (defaultW (Exclude.V VA VB WB)) (fun s => g s.u) :=
  Exclude.scored hS hB

/-- **Composition of the score clause, RequiredOptionalScorer** (SumCombiner): a scored required child
and a scored optional child give a scored child; its score function `F` is the required score plus
the optional score on the optional scorer's documents (`ReqOpt.FC`), cached values included -/
theorem C13_scored_reqopt_closed (gA : σ → Nat → Nat) (gB : τ → Nat → Nat) (hSA : Scored A VA WA gA)
    (hSB : Scored B VB WB gB) :
    Scored ((ReqOpt.ds A B).withGhost (α := Nat → Nat))
      (fun p l => ReqOpt.RS gA gB VA VB p.2 p.1 l) (fun p t l => ReqOpt.RSW gA gB WA VB p.2 p.1 t l)
      (fun p => p.2) :=
  ReqOpt.scored hSA hSB

/-- a scored child stays scored when its lists are restricted to small documents -/
theorem C13_scored_restrict (g : σ → Nat → Nat) (hS : Scored A VA WA g) : Scored A (RV VA) (RW WA) g :=
  hS.restrict

/-- score of the intersection from `Intersection::new`, after ANY legal mix of `advance` and `seek`:
`score()` at the current document `d` is the sum of `g c d` over all its children -/
theorem C13_intersection_score_after_moves (hA : Lawful A VA WA) (g : σ → Nat → Nat)
    (hG : Inter.Ghost A g) (hg : ∀ {c l}, VA c l → l ≠ [] → (A.score c).1 = g c (A.doc c)) (fx : Fix) (dense : Bool)
    (l r : σ) (os : List σ) (ll lr : List Nat) (los : List (List Nat)) (hL : VA l ll) (hR : VA r lr)
    (hO : All2 VA os los) (ms : List BUnion.Move)
    (hl : BUnion.legalMoves (Inter.Common ll lr los) ms) :
    Inter.doc A (Inter.runMoves A (Inter.new A dense l r os) ms)
        = Spec.doc (BUnion.specMoves (Inter.Common ll lr los) ms)
      ∧ (Inter.doc A (Inter.runMoves A (Inter.new A dense l r os) ms) < TERMINATED →
          ((Inter.ds A fx).score (Inter.runMoves A (Inter.new A dense l r os) ms)).1
            = (((l :: r :: os).map g).map
                (fun f => f (Inter.doc A (Inter.runMoves A (Inter.new A dense l r os) ms)))).sum) :=
  Inter.score_after_moves hA hG hg fx dense hL hR hO ms hl

end combinators

/-- **The score clause composes over every nesting.** `ScoredNode`: the scorer types assembled at any
depth from the sorted-vector and bitset leaves with SUM unions, minimum-should-match disjunctions, intersections,
exclusions and required/optional nodes. Every one of them is `Scored`: it refines the sorted-list
cursor through every legal call program (`Scored.lawful`), and on every valid state sitting on a
document `score()` equals the node's score function at that document (`Scored.hg`) — a function
that none of the node's methods changes (`Scored.ghost`), so the score at a document does not depend
on how it was reached. -/
theorem C13_score_composes {σ : Type} {C : DS σ} {V : σ → List Nat → Prop}
    {W : σ → Nat → List Nat → Prop} {g : σ → Nat → Nat} (h : ScoredNode σ C V W g) : Scored C V W g :=
  h.scored

/-- the sorted-vector leaf is a scored child -/
theorem C13_scored_vec : Scored Vec.ds Vec.V (defaultW Vec.V) (fun c (_ : Nat) => c.score) := Vec.scored

/-- **two levels**: a SUM union of SUM unions of sorted vectors (the inner unions are driven through
advance / seek / seek_danger by the outer one). After every legal call program on the outer union,
outside danger zones, `score()` at the current document is the sum over the inner unions containing
it of their totals, i.e. of the scores of all leaves containing it. No hypothesis but sortedness. -/
theorem C13_union_of_unions_score (H : Nat) (hH : 64 ∣ H) (hH0 : 0 < H) (fx : Fix)
    (groups : List (List (List Nat × Nat))) (hs : ∀ grp ∈ groups, ∀ p ∈ grp, Sorted p.1)
    (Us : List (List Nat)) (hUs : All2 (fun grp U => SimpleUnion.IsUnion U (grp.map (·.1))) groups Us)
    (U : List Nat) (hU : SimpleUnion.IsUnion U Us) (prog : List Op)
    (hl : legalProg ⟨U, none⟩ prog = true) (hnc : ∀ op ∈ prog, op ≠ Op.count)
    (hnd : (specFinal ⟨U, none⟩ prog).danger = none) :
    let D := BUnion.dsNF ((BUnion.dsNF Vec.ds H fx).withGhost (α := Nat → Nat)) H fx
    let s := implFinal D (BUnion.build ((BUnion.dsNF Vec.ds H fx).withGhost (α := Nat → Nat)) H true
      (groups.map (unionChild H))) prog
    s.doc = Spec.doc (specFinal ⟨U, none⟩ prog).rest
      ∧ (s.doc < TERMINATED →
          (D.score s).1 = BUnion.gsum (fun p => p.2) (groups.map (unionChild H)) Us s.doc) :=
  union_of_unions_score hH hH0 fx groups hs Us hUs U hU prog hl hnc hnd

/-- the SUM union over sorted-vector leaves with constant scores (no hypothesis left but sortedness):
after any legal mix of `advance` and `seek`, `score()` is the sum of the scores of the leaves
containing the current document -/
theorem C13_union_of_vecs_score (H : Nat) (hH : 64 ∣ H) (hH0 : 0 < H) (fx : Fix)
    (children : List (List Nat × Nat)) (hs : ∀ p ∈ children, Sorted p.1) (U : List Nat)
    (hU : SimpleUnion.IsUnion U (children.map (·.1))) (ms : List BUnion.Move)
    (hl : BUnion.legalMoves U ms) :
    let s := BUnion.runMoves fx Vec.ds H
      (BUnion.build Vec.ds H true (children.map (fun p => Vec.init p.1 p.2))) ms
    s.doc = Spec.doc (BUnion.specMoves U ms) ∧ (s.doc < TERMINATED →
      ((BUnion.ds Vec.ds H fx).score s).1
        = BUnion.gsum (fun c (_ : Nat) => c.score) (children.map (fun p => Vec.init p.1 p.2))
            (children.map (·.1)) s.doc) :=
  BUnion.vecs_score hH hH0 fx children hs hU ms hl

/-! ### composition: whole scorer trees, as the driver builds and runs them -/

/-- **Every scorer tree.** For every nesting depth `n`, the model the driver runs on the harness's
trees (`levelDS fx n`: BufferedUnionScorer / SimpleUnion / Intersection / Exclude /
RequiredOptionalScorer / Disjunction nodes, nested arbitrarily, over VecDocSet / BitSetDocSet
leaves) is `Lawful`. -/
theorem C13_tree_lawful (fx : Fix) (n : Nat) :
    Lawful (levelDS fx n) (LevelVW n).1 (LevelVW n).2 := (level_lawful fx n).1

/-- from the tree description: whenever the description denotes the sorted list `l` (`Den`: leaves
hold sorted lists, a union node denotes the union, an intersection node the common documents, an
exclusion node the difference, a required/optional node its required part, a minimum-should-match
node the documents in at least `k` children), `buildTree` — the constructors
`BufferedUnionScorer::build`, `Intersection::new`, `Exclude::new`, `Disjunction::new`, … run bottom-up —
succeeds, and every legal call program on the built scorer observes exactly the cursor over `l`. -/
theorem C13_tree_program_equiv (fx : Fix) (n : Nat) (t : Tree) (l : List Nat) (hden : Den n t l)
    (prog : List Op) (hlegal : legalProg ⟨l, none⟩ prog = true) :
    ∃ s, buildTree fx n t = some s ∧ implRun (levelDS fx n) s prog = specRun ⟨l, none⟩ prog := by
  obtain ⟨s, hs, hV⟩ := build_valid fx n t l hden
  exact ⟨s, hs, C13_program_equiv _ _ _ (level_lawful fx n).1 prog s l hV hlegal⟩

/-- end sticky for whole trees: a tree denoting the empty list answers every call program like the
exhausted cursor -/
theorem C13_tree_end_sticky (fx : Fix) (n : Nat) (t : Tree) (hden : Den n t [])
    (prog : List Op) (hlegal : legalProg ⟨[], none⟩ prog = true) :
    ∃ s, buildTree fx n t = some s ∧ implRun (levelDS fx n) s prog = specRun ⟨[], none⟩ prog :=
  C13_tree_program_equiv fx n t [] hden prog hlegal

/-- `score()` never moves a cursor, at any depth: it keeps valid and danger-zone states -/
theorem C13_tree_score_keeps_state (fx : Fix) (n : Nat) :
    ScoreOK (levelDS fx n) (LevelVW n).1 (LevelVW n).2 := (level_lawful fx n).2

/-! ### the score clause on the model the driver runs (`levelDS`, `buildTree`), nesting depth 1

Score counterpart of `C13_tree_program_equiv` for the tree descriptions with one scoring node over
vector / bitset leaves (`Den 0` leaves: sorted lists of small documents). `scoreOf c`: the constant
score of leaf `c`; `tsum cs ls x`: the sum of the scores of the leaves whose list holds `x`. Programs:
every legal call program without `count` (and, for the union, without its own `fill_buffer`, for
which the statement is false); the statement is made whenever the cursor is not in a danger zone. -/

/-- SUM `BufferedUnionScorer` over leaves: `buildTree` succeeds and `score()` of the scorer the driver
runs is the sum of the scores of the leaves containing the current document -/
theorem C13_tree1_union_score (fx : Fix) (cs : List Tree) (ls : List (List Nat)) (U : List Nat)
    (hA : All2 (Den 0) cs ls) (hU : SimpleUnion.IsUnion U ls) (prog : List Op)
    (hl : legalProg ⟨U, none⟩ prog = true) (hnc : ∀ op ∈ prog, op ≠ Op.count) (hnf : noFill prog)
    (hnd : (specFinal ⟨U, none⟩ prog).danger = none) :
    ∃ s, buildTree fx 1 (.bunion true cs) = some s
      ∧ (levelDS fx 1).doc (implFinal (levelDS fx 1) s prog) = Spec.doc (specFinal ⟨U, none⟩ prog).rest
      ∧ ((levelDS fx 1).doc (implFinal (levelDS fx 1) s prog) < TERMINATED →
          ((levelDS fx 1).score (implFinal (levelDS fx 1) s prog)).1
            = tsum cs ls ((levelDS fx 1).doc (implFinal (levelDS fx 1) s prog))) :=
  tree1_union_score fx cs ls U hA hU prog hl hnc hnf hnd

/-- minimum-should-match `Disjunction` (SumCombiner) over leaves -/
theorem C13_tree1_disjunction_score (fx : Fix) (k : Nat) (cs : List Tree) (ls : List (List Nat))
    (L : List Nat) (hA : All2 (Den 0) cs ls) (hk : 1 ≤ k) (hL : Sorted L)
    (hmem : ∀ x, x ∈ L ↔ k ≤ Disj.cnt x ls) (prog : List Op) (hl : legalProg ⟨L, none⟩ prog = true)
    (hnc : ∀ op ∈ prog, op ≠ Op.count) (hnd : (specFinal ⟨L, none⟩ prog).danger = none) :
    ∃ s, buildTree fx 1 (.disj true k cs) = some s
      ∧ (levelDS fx 1).doc (implFinal (levelDS fx 1) s prog) = Spec.doc (specFinal ⟨L, none⟩ prog).rest
      ∧ ((levelDS fx 1).doc (implFinal (levelDS fx 1) s prog) < TERMINATED →
          ((levelDS fx 1).score (implFinal (levelDS fx 1) s prog)).1
            = tsum cs ls ((levelDS fx 1).doc (implFinal (levelDS fx 1) s prog))) :=
  tree1_disj_score fx k cs ls L hA hk hL hmem prog hl hnc hnd

/-- `Intersection` over leaves: the score is the sum of the scores of all its leaves -/
theorem C13_tree1_intersection_score (fx : Fix) (dense : Bool) (tl tr : Tree) (tos : List Tree)
    (ll lr : List Nat) (los : List (List Nat)) (hl0 : Den 0 tl ll) (hr0 : Den 0 tr lr)
    (ho0 : All2 (Den 0) tos los) (prog : List Op)
    (hl : legalProg ⟨Inter.Common ll lr los, none⟩ prog = true) (hnc : ∀ op ∈ prog, op ≠ Op.count)
    (hnd : (specFinal ⟨Inter.Common ll lr los, none⟩ prog).danger = none) :
    ∃ s, buildTree fx 1 (.inter dense (tl :: tr :: tos)) = some s
      ∧ (levelDS fx 1).doc (implFinal (levelDS fx 1) s prog)
          = Spec.doc (specFinal ⟨Inter.Common ll lr los, none⟩ prog).rest
      ∧ ((levelDS fx 1).doc (implFinal (levelDS fx 1) s prog) < TERMINATED →
          ((levelDS fx 1).score (implFinal (levelDS fx 1) s prog)).1 = ((tl :: tr :: tos).map scoreOf).sum) :=
  tree1_inter_score fx dense tl tr tos ll lr los hl0 hr0 ho0 prog hl hnc hnd

/-- `RequiredOptionalScorer` (SumCombiner) over two leaves: required score plus the optional score on
the optional leaf's documents -/
theorem C13_tree1_reqopt_score (fx : Fix) (treq topt : Tree) (l lo : List Nat) (hr0 : Den 0 treq l)
    (ho0 : Den 0 topt lo) (prog : List Op) (hl : legalProg ⟨l, none⟩ prog = true)
    (hnc : ∀ op ∈ prog, op ≠ Op.count) (hnd : (specFinal ⟨l, none⟩ prog).danger = none) :
    ∃ s, buildTree fx 1 (.reqopt true treq topt) = some s
      ∧ (levelDS fx 1).doc (implFinal (levelDS fx 1) s prog) = Spec.doc (specFinal ⟨l, none⟩ prog).rest
      ∧ ((levelDS fx 1).doc (implFinal (levelDS fx 1) s prog) < TERMINATED →
          ((levelDS fx 1).score (implFinal (levelDS fx 1) s prog)).1
            = scoreOf treq + (if (levelDS fx 1).doc (implFinal (levelDS fx 1) s prog) ∈ lo then scoreOf topt else 0)) :=
  tree1_reqopt_score fx treq topt l lo hr0 ho0 prog hl hnc hnd

/-- `Exclude` over leaves: the score is the underlying leaf's -/
theorem C13_tree1_exclude_score (fx : Fix) (tu : Tree) (tes : List Tree) (lu : List Nat)
    (les : List (List Nat)) (hu0 : Den 0 tu lu) (he0 : All2 (Den 0) tes les) (prog : List Op)
    (hl : legalProg ⟨lu.filter (Exclude.ok les), none⟩ prog = true) (hnc : ∀ op ∈ prog, op ≠ Op.count)
    (hnd : (specFinal ⟨lu.filter (Exclude.ok les), none⟩ prog).danger = none) :
    ∃ s, buildTree fx 1 (.excl tu tes) = some s
      ∧ (levelDS fx 1).doc (implFinal (levelDS fx 1) s prog)
          = Spec.doc (specFinal ⟨lu.filter (Exclude.ok les), none⟩ prog).rest
      ∧ ((levelDS fx 1).doc (implFinal (levelDS fx 1) s prog) < TERMINATED →
          ((levelDS fx 1).score (implFinal (levelDS fx 1) s prog)).1 = scoreOf tu) :=
  tree1_excl_score fx tu tes lu les hu0 he0 prog hl hnc hnd

/-! ### nesting depth 2 on the driver's model: conjunction of disjunctions -/

/-- erasing ghost data (any map `ψ` commuting with the methods a parent uses, `Hom`) commutes with every
method of the intersection: the step that carries the score theorems from the ghost-paired scorer
types to the driver's plain states, for `Intersection` parents -/
theorem C13_intersection_erasure {σ' σ : Type} {C' : DS σ'} {C : DS σ} {ψ : σ' → σ} (h : Hom C' C ψ) (fx : Fix) :
    Hom (Inter.ds C' fx) (Inter.ds C fx) (Inter.State.map ψ) := Inter.hom h fx

/-- **Intersection of SUM unions of leaves (`+(a b …) +(c d …) …`), two levels, on the model the driver
builds and runs.** `buildTree` at depth 2 succeeds and, after every legal call program without
`count` / `fill_buffer`, outside danger zones, the scorer sits on the specification's document and
`score()` is the sum over the unions of the scores of their leaves containing the document. The inner
unions are driven by the intersection through seek / seek_danger (danger zones included). -/
theorem C13_tree2_intersection_of_unions_score (fx : Fix) (dense : Bool) (g1 g2 : Group) (gs : List Group)
    (h1 : GroupOK g1) (h2 : GroupOK g2) (hs : ∀ g ∈ gs, GroupOK g) (prog : List Op)
    (hl : legalProg ⟨Inter.Common g1.2.2 g2.2.2 (gs.map (·.2.2)), none⟩ prog = true)
    (hnc : ∀ op ∈ prog, op ≠ Op.count) (hnf : noFill prog)
    (hnd : (specFinal ⟨Inter.Common g1.2.2 g2.2.2 (gs.map (·.2.2)), none⟩ prog).danger = none) :
    ∃ s, buildTree fx 2 (.inter dense (.bunion true g1.1 :: .bunion true g2.1 :: gs.map (fun g => Tree.bunion true g.1))) = some s
      ∧ (levelDS fx 2).doc (implFinal (levelDS fx 2) s prog)
          = Spec.doc (specFinal ⟨Inter.Common g1.2.2 g2.2.2 (gs.map (·.2.2)), none⟩ prog).rest
      ∧ ((levelDS fx 2).doc (implFinal (levelDS fx 2) s prog) < TERMINATED →
          ((levelDS fx 2).score (implFinal (levelDS fx 2) s prog)).1
            = ((g1 :: g2 :: gs).map (fun g => groupScore g ((levelDS fx 2).doc (implFinal (levelDS fx 2) s prog)))).sum) :=
  tree2_inter_of_unions_score fx dense g1 g2 gs h1 h2 hs prog hl hnc hnf hnd

/-- erasing ghost data commutes with every method of the required/optional scorer -/
theorem C13_reqopt_erasure {σ' σ τ' τ : Type} {R' : DS σ'} {R : DS σ} {O' : DS τ'} {O : DS τ}
    {φ : σ' → σ} {ψ : τ' → τ} (hφ : Hom R' R φ) (hψ : Hom O' O ψ) :
    Hom (ReqOpt.ds R' O') (ReqOpt.ds R O) (ReqOpt.State.map2 φ ψ) := ReqOpt.hom hφ hψ

/-- **`+a (b c …)`: a required leaf with an optional SUM union of leaves, two levels, on the model the
driver builds and runs.** `score()` is the required leaf's score plus, on the documents of the union,
the scores of the union's leaves containing the document (the optional union is moved by `score()`
itself, through `seek`). -/
theorem C13_tree2_reqopt_union_score (fx : Fix) (treq : Tree) (l : List Nat) (g : Group) (hr0 : Den 0 treq l)
    (hg : GroupOK g) (prog : List Op) (hl : legalProg ⟨l, none⟩ prog = true)
    (hnc : ∀ op ∈ prog, op ≠ Op.count) (hnf : noFill prog) (hnd : (specFinal ⟨l, none⟩ prog).danger = none) :
    ∃ s, buildTree fx 2 (.reqopt true treq (.bunion true g.1)) = some s
      ∧ (levelDS fx 2).doc (implFinal (levelDS fx 2) s prog) = Spec.doc (specFinal ⟨l, none⟩ prog).rest
      ∧ ((levelDS fx 2).doc (implFinal (levelDS fx 2) s prog) < TERMINATED →
          ((levelDS fx 2).score (implFinal (levelDS fx 2) s prog)).1
            = scoreOf treq + (if (levelDS fx 2).doc (implFinal (levelDS fx 2) s prog) ∈ g.2.2
                then groupScore g ((levelDS fx 2).doc (implFinal (levelDS fx 2) s prog)) else 0)) :=
  tree2_reqopt_union_score fx treq l g hr0 hg prog hl hnc hnf hnd

/-- erasing ghost data commutes with every method of the buffered union that a parent or a call program
uses (`fill_buffer` and `count` aside): `build`, `advance` (refill / drain), `seek` (buffered and far
branch), `seek_danger`, `fill_bitset_block`, `score` -/
theorem C13_union_erasure {σ' σ : Type} {C' : DS σ'} {C : DS σ} {ψ : σ' → σ} (h : Hom C' C ψ) (H : Nat) (fx : Fix) :
    Hom (BUnion.dsNF C' H fx) (BUnion.ds C H fx) (BUnion.State.map ψ) := BUnion.hom h H fx

/-- **SUM union of intersections of leaves (`(+a +b …) (+c +d …) …`), two levels, on the model the driver
builds and runs**: `score()` is the sum, over the intersections containing the document, of the scores
of all their leaves -/
theorem C13_tree2_union_of_intersections_score (fx : Fix) (dense : Bool) (gs : List IGroup)
    (hs : ∀ g ∈ gs, g.ok) (U : List Nat) (hU : SimpleUnion.IsUnion U (gs.map IGroup.common)) (prog : List Op)
    (hl : legalProg ⟨U, none⟩ prog = true) (hnc : ∀ op ∈ prog, op ≠ Op.count) (hnf : noFill prog)
    (hnd : (specFinal ⟨U, none⟩ prog).danger = none) :
    ∃ s, buildTree fx 2 (.bunion true (gs.map (IGroup.tree dense))) = some s
      ∧ (levelDS fx 2).doc (implFinal (levelDS fx 2) s prog) = Spec.doc (specFinal ⟨U, none⟩ prog).rest
      ∧ ((levelDS fx 2).doc (implFinal (levelDS fx 2) s prog) < TERMINATED →
          ((levelDS fx 2).score (implFinal (levelDS fx 2) s prog)).1
            = isum gs ((levelDS fx 2).doc (implFinal (levelDS fx 2) s prog))) :=
  tree2_union_of_inters_score fx dense gs hs U hU prog hl hnc hnf hnd

/-! ### open statements

Proved above (no longer open): `Lawful` for Intersection (incl. the dense count), BufferedUnionScorer
(every method), Disjunction, BitSetDocSet, and for every nesting of them (`C13_tree_lawful`); the score
clause of the SUM buffered union and of Disjunction under any mix of advance / seek
(`C13_union_score_value`, `C13_union_score_path_independent`, `C13_disjunction_score_*`) and of the
intersection.

OPEN — the DisjunctionMax combiner (oracle-only, not modelled).
The SCORE clause composes: `Scored` (what a scoring parent needs from a child) holds for the vector
leaf and is closed under SUM union, Disjunction, Intersection, Exclude and RequiredOptional
(`C13_scored_*_closed`, packaged over every nesting as `C13_score_composes`). The inner nodes there
carry their total score function as ghost data (`DS.withGhost`); the formal link from those scorer
types to the driver's `levelDS` / `buildTree` is written for nesting depth 1 (`C13_tree1_*_score`:
one scoring node over leaves, where no ghost data is needed) and, at depth 2, for intersections of
SUM unions, required/optional nodes over a leaf and a SUM union, and SUM unions of intersections
(`C13_tree2_intersection_of_unions_score`, `C13_tree2_reqopt_union_score`,
`C13_tree2_union_of_intersections_score`, through `C13_intersection_erasure` / `C13_reqopt_erasure` /
`C13_union_erasure`); for the other shapes (Disjunction / Exclude parents, depth >= 3) it is open (it needs "erasing the ghost data commutes with every method"
for the other parent kinds, as proved for the intersection).

Hypothesis kept: the children of an Intersection hold documents with doc + BLOCK_WINDOW ≤ TERMINATED
(`Small`). It mirrors a precondition of the real default `fill_bitset_block(min_doc, ..)`: with
min_doc + 4096 > TERMINATED an exhausted docset gets a bit set for TERMINATED itself (the loop tests
`doc >= horizon` only). Unreachable with real segments (doc ids that large do not occur).
-/

/-- a checked instance of the Disjunction model (a test on concrete inputs; the general statement is
`C13_disjunction_lawful` above) -/
theorem C13_disjunction_refines_instance :
    implRun (Disj.ds Vec.ds)
        (Disj.new Vec.ds true 2 [Vec.init [1, 5, 9] 2, Vec.init [5, 7, 9] 3, Vec.init [9, 11] 1])
        [.doc, .advance, .seekDanger 10, .seekDanger TERMINATED]
      = specRun ⟨[5, 9], none⟩ [.doc, .advance, .seekDanger 10, .seekDanger TERMINATED]
    ∧ implRun (Disj.ds Vec.ds)
        (Disj.new Vec.ds true 2 [Vec.init [1, 5, 9] 2, Vec.init [5, 7, 9] 3, Vec.init [9, 11] 1])
        [.seek 6, .fillBuffer, .doc]
      = specRun ⟨[5, 9], none⟩ [.seek 6, .fillBuffer, .doc] := by
  decide +kernel


/-! ## deviations of the real code, mirrored by the model (each reproduced by the harness
against the real code and recorded in KNOWN_FINDINGS.txt)

Statements that are therefore FALSE for the buffered union / dense intersection models (and not part
of the contract `Lawful` / of the score theorems above): "after `count` the state is valid for `[]`"
and "`score` at `d` does not depend on how `d` was reached" for call sequences containing
`fill_buffer`. -/

/-- S4: `fill_buffer` drains the window without clearing the drained slots' combiners; after the
next refill the stale sums are added to (HORIZON = 64 instance: one child, every doc scores 2;
`fill_buffer`, `advance` → doc 65 scores 4, whereas `seek 65` on a fresh scorer scores 2). -/
theorem C13_union_fill_buffer_stale_scores_counterexample :
    let D := BUnion.ds Vec.ds 64
    let s0 := BUnion.build Vec.ds 64 true [Vec.init (List.range 130) 2]
    let s2 := D.advance (D.fillBuffer s0).2
    D.doc s2 = 65 ∧ (D.score s2).1 = 4 ∧ D.doc (D.seek 65 s0) = 65 ∧ (D.score (D.seek 65 s0)).1 = 2 := by
  decide +kernel

/-- `fill_buffer` moves the cursor without refreshing `self.score` -/
theorem C13_union_fill_buffer_score_not_refreshed_counterexample :
    let D := BUnion.ds Vec.ds 128
    let s0 := BUnion.build Vec.ds 128 true [Vec.init (List.range 66) 1, Vec.init [64] 4]
    (D.score (D.fillBuffer s0).2).1 = 1 ∧ D.doc (D.fillBuffer s0).2 = 64
      ∧ D.doc (D.seek 64 s0) = 64 ∧ (D.score (D.seek 64 s0)).1 = 5 := by
  decide +kernel

/-- `count_including_deleted` of the buffered union returns the right number but leaves `doc()` -/
theorem C13_union_count_end_counterexample :
    let D := BUnion.ds Vec.ds 64
    let s0 := BUnion.build Vec.ds 64 false [Vec.init [1, 5, 900] 1, Vec.init [5, 7] 1]
    (D.count s0).1 = 4 ∧ D.doc (D.count s0).2 = 900 ∧ D.doc (D.advance (D.count s0).2) = TERMINATED := by
  decide +kernel

/-- the dense `count_including_deleted` of the intersection stops with `doc() = left.doc()` -/
theorem C13_intersection_dense_count_end_counterexample :
    let D := Inter.ds Vec.ds
    let s0 := Inter.new Vec.ds true (Vec.init [1, 2000] 1) (Vec.init [1] 1) []
    (D.count s0).1 = 1 ∧ D.doc (D.count s0).2 = 2000 := by
  decide +kernel

/-- the dense count ANDs one fresh block mask per child: with five clauses of which the fourth and
fifth (in cost order) are the ones that filter, it returns the size of the intersection (13), not the
size of the first three (40). A checked instance of the model (a test, not the open theorem
"dense count = length of the common documents"); the harness drives the real code over 4-6-clause
dense intersections against the same model and the brute-force count. -/
theorem C13_intersection_dense_count_five_clauses_instance :
    let D := Inter.ds Vec.ds
    let a := Vec.init (List.range 40) 1
    let b := Vec.init (List.range 60) 1
    let c := Vec.init (List.range 80) 1
    let g := Vec.init ((List.range 200).filter (fun d => d ≥ 40 || d % 2 == 1)) 1
    let h := Vec.init ((List.range 220).filter (fun d => d ≥ 40 || d % 3 != 0)) 1
    (D.count (Inter.new Vec.ds true a b [c, g, h])).1 = 13 := by
  decide +kernel

/-- a buffered union asked `seek_danger t` with `t` below its window start answers from its
children only: the bound overshoots its own buffered documents (HORIZON = 64 instance: buffered
{500, 510}, child at 2000; `seek_danger 460` = SeekLowerBound 2000 although 500 is a member). -/
theorem C13_union_seek_danger_below_window_counterexample :
    let D := BUnion.ds Vec.ds 64
    let s0 := D.advance (BUnion.build Vec.ds 64 false [Vec.init [10, 500, 510] 1, Vec.init [2000] 1])
    Gen.UNION_SEEK_DANGER_BELOW_WINDOW_BUFFERED = 0 →
      D.doc s0 = 500 ∧ (D.seekDanger 460 s0).1 = .lower 2000 := by
  decide +kernel

/-! ## non-vacuity -/

example : Sorted [1, 5, 9] := by
  refine ⟨by decide, ?_⟩
  intro x hx
  simp only [List.mem_cons, List.mem_nil_iff, or_false] at hx
  rcases hx with rfl | rfl | rfl <;> decide
example : legalProg ⟨[1, 5, 9], none⟩
    [.doc, .advance, .seek 5, .seekDanger 7, .seekDanger 9, .fillBuffer, .seek TERMINATED, .count] = true := by
  decide
example : specRun ⟨[1, 5, 9], none⟩ [.advance, .seek 6, .seekDanger 9, .fillBuffer, .doc]
    = [.doc 5, .doc 9, .sd true, .buf [9], .doc TERMINATED] := by decide
example : ∀ x ∈ [1, 5, 9000], x + BLOCK_WINDOW ≤ TERMINATED := by decide
example : coreOnly [.doc, .seek 5, .advance, .fillBitset 7] = true := by decide
example : Inter.Common [1, 5, 9] [5, 9, 11] [[0, 5, 9], [9]] = [9] := by decide
example : All2 Vec.V [Vec.init [] 1] [[]] := All2.cons ⟨rfl, Sorted.nil⟩ All2.nil
example : Inter.Ghost Vec.ds (fun c (_ : Nat) => c.score) := Inter.vec_ghost
example : ∀ c : Vec.State, (Vec.ds.score c).1 = (fun c (_ : Nat) => c.score) c (Vec.ds.doc c) := fun _ => rfl
example : let D := Inter.ds Vec.ds
    let s0 := Inter.new Vec.ds false (Vec.init [1, 5, 9] 2) (Vec.init [5, 9] 3) [Vec.init [0, 5, 7, 9] 4]
    D.doc s0 = 5 ∧ (D.score s0).1 = 9 ∧ D.doc (D.advance s0) = 9 ∧ (D.score (D.advance s0)).1 = 9
      ∧ (D.score (D.seek 9 s0)).1 = 9 := by decide +kernel
example : SimpleUnion.IsUnion [1, 5, 7, 9] [[1, 5, 9], [5, 7]] := by
  refine ⟨⟨by decide, ?_⟩, ?_⟩
  · intro x hx
    simp only [List.mem_cons, List.mem_nil_iff, or_false] at hx
    rcases hx with rfl | rfl | rfl | rfl <;> decide
  · intro x
    simp only [List.mem_cons, List.mem_nil_iff, or_false, exists_eq_or_imp, exists_eq_left]
    omega
example : implRun (BitSet.ds) (BitSet.init [1, 5, 70, 200] 256 1)
      [.doc, .advance, .seek 64, .seekDanger 100, .seek 300, .advance, .doc]
    = specRun ⟨[1, 5, 70, 200], none⟩ [.doc, .advance, .seek 64, .seekDanger 100, .seek 300, .advance, .doc] := by
  decide +kernel
example : Den 1 (.sunion [.vec [1, 5] 1, .bits [5, 7] 8 1]) [1, 5, 7] := by
  refine ⟨[[1, 5], [5, 7]], All2.cons ⟨rfl, ⟨by decide, by decide⟩, by unfold Small; decide⟩
    (All2.cons ⟨rfl, ⟨by decide, by decide⟩, by decide, by unfold Small; decide⟩ All2.nil), ⟨by decide, by decide⟩, ?_⟩
  intro x
  simp only [List.mem_cons, List.mem_nil_iff, or_false, exists_eq_or_imp, exists_eq_left]
  omega
example : (buildTree {} 2 (.inter false [.bunion true [.vec [1, 5, 9] 1, .bits [5, 7] 8 2], .vec [5, 9, 11] 1])).map
      (fun s => implRun (levelDS {} 2) s [.doc, .advance, .seekDanger 10, .doc])
    = some (specRun ⟨[5, 9], none⟩ [.doc, .advance, .seekDanger 10, .doc]) := by decide +kernel
example : Disj.cnt 5 [[1, 5], [5, 7], [9]] = 2 ∧ Disj.cnt 9 [[1, 5], [5, 7], [9]] = 1 := by decide
example : Den 1 (.disj true 2 [.vec [1, 5] 1, .vec [5, 7] 1]) [5] := by
  refine ⟨[[1, 5], [5, 7]], All2.cons ⟨rfl, ⟨by decide, by decide⟩, by unfold Small; decide⟩
    (All2.cons ⟨rfl, ⟨by decide, by decide⟩, by unfold Small; decide⟩ All2.nil), by decide, ⟨by decide, by decide⟩, ?_⟩
  intro x
  simp only [Disj.cnt_cons, Disj.cnt_nil, List.mem_cons, List.mem_nil_iff, or_false]
  constructor
  · rintro rfl; decide
  · intro h
    by_cases h5 : x = 5
    · exact h5
    · exfalso
      by_cases h1 : x = 1 <;> by_cases h7 : x = 7 <;> simp [h1, h7, h5] at h <;> omega
example : (buildTree {} 2 (.excl (.disj true 2 [.vec [1, 5, 9] 1, .bits [5, 7, 9] 16 2, .vec [9, 11] 1]) [.vec [9] 1])).map
      (fun s => implRun (levelDS {} 2) s [.doc, .advance, .doc])
    = some (specRun ⟨[5], none⟩ [.doc, .advance, .doc]) := by decide +kernel
example : BUnion.legalMoves [1, 5, 9] [.advance, .seek 9, .advance] :=
  ⟨trivial, ⟨by decide, by decide⟩, trivial, trivial⟩
example : let D := BUnion.ds Vec.ds 64
    let s0 := BUnion.build Vec.ds 64 true [Vec.init (List.range 130) 2, Vec.init [65, 129] 5]
    (D.score (BUnion.runMoves {} Vec.ds 64 s0 [.seek 65])).1 = 7
      ∧ (D.score (BUnion.runMoves {} Vec.ds 64 s0 [.seek 3, .advance, .seek 64, .advance])).1 = 7
      ∧ (BUnion.runMoves {} Vec.ds 64 s0 [.seek 3, .advance, .seek 64, .advance]).doc = 65 := by
  decide +kernel
example : Disj.legalMoves [5, 9] [.seek 6, .advance] := ⟨⟨by decide, by decide⟩, trivial, trivial⟩
example : let s0 := Disj.new Vec.ds true 2 [Vec.init [1, 5, 9] 2, Vec.init [5, 7, 9] 3, Vec.init [9, 11] 4]
    ((Disj.ds Vec.ds).score (Disj.runMoves Vec.ds s0 [.advance])).1 = 9
      ∧ ((Disj.ds Vec.ds).score (Disj.runMoves Vec.ds s0 [.seek 6])).1 = 9
      ∧ ((Disj.ds Vec.ds).score s0).1 = 5 := by decide +kernel
example : BUnion.gsum (fun c (_ : Nat) => c.score) [Vec.init [1, 5] 2, Vec.init [5, 7] 3] [[1, 5], [5, 7]] 5 = 5 := by
  decide
example : let s0 := Inter.new Vec.ds false (Vec.init [1, 5, 9] 2) (Vec.init [5, 9] 3) [Vec.init [0, 5, 7, 9] 4]
    ((Inter.ds Vec.ds).score (Inter.runMoves Vec.ds s0 [.advance])).1 = 9
      ∧ Inter.doc Vec.ds (Inter.runMoves Vec.ds s0 [.seek 6]) = 9 := by decide +kernel
example : let prog : List Op := [.seekDanger 70, .seekDanger 129, .doc]
    let s0 := BUnion.build Vec.ds 64 true [Vec.init (List.range 130) 2, Vec.init [65, 129] 5]
    legalProg ⟨List.range 130, none⟩ prog = true
      ∧ (specFinal ⟨List.range 130, none⟩ prog).danger = none
      ∧ ((BUnion.dsNF Vec.ds 64 {}).score (implFinal (BUnion.dsNF Vec.ds 64 {}) s0 prog)).1 = 7 := by
  decide +kernel
example : let H := 64
    let D := BUnion.dsNF ((BUnion.dsNF Vec.ds H {}).withGhost (α := Nat → Nat)) H {}
    let s0 := BUnion.build ((BUnion.dsNF Vec.ds H {}).withGhost (α := Nat → Nat)) H true
      [unionChild H [(List.range 130, 2), ([65, 129], 5)], unionChild H [([65, 200], 3)]]
    (D.score (implFinal D s0 [.seekDanger 65])).1 = 10 ∧ (implFinal D s0 [.seekDanger 65]).doc = 65
      ∧ (D.score (implFinal D s0 [.advance, .seek 129])).1 = 7 := by
  decide +kernel
example := C13_score_composes
  (ScoredNode.inter {} (ScoredNode.union 64 (by decide) (by decide) {} (ScoredNode.reqopt ScoredNode.vec ScoredNode.vec)))
example : Den 0 (.vec [1, 5] 2) [1, 5] := ⟨rfl, ⟨by decide, by decide⟩, by unfold Small; decide⟩
example : tsum [.vec [1, 5] 2, .bits [5, 7] 8 3] [[1, 5], [5, 7]] 5 = 5 := by decide
example : noFill [.advance, .seekDanger 7, .doc] := by
  intro op hop
  simp only [List.mem_cons, List.mem_nil_iff, or_false] at hop
  rcases hop with rfl | rfl | rfl <;> exact (fun h => by cases h)
example : (buildTree {} 1 (.reqopt true (.vec [1, 5, 9] 2) (.bits [5, 7] 8 3))).map
      (fun s => ((levelDS {} 1).score (implFinal (levelDS {} 1) s [.advance])).1) = some 5 := by
  decide +kernel
example : GroupOK ([.vec [1, 5] 2, .vec [5, 7] 3], [[1, 5], [5, 7]], [1, 5, 7]) := by
  refine ⟨All2.cons ⟨rfl, ⟨by decide, by decide⟩, by unfold Small; decide⟩
    (All2.cons ⟨rfl, ⟨by decide, by decide⟩, by unfold Small; decide⟩ All2.nil), ⟨by decide, by decide⟩, ?_⟩
  intro x
  simp only [List.mem_cons, List.mem_nil_iff, or_false, exists_eq_or_imp, exists_eq_left]
  omega
example : (buildTree {} 2 (.inter false [.bunion true [.vec [1, 5] 2, .vec [5, 7] 3], .bunion true [.vec [5, 9] 4, .bits [7] 8 1]])).map
      (fun s => ((levelDS {} 2).doc s, ((levelDS {} 2).score s).1,
        ((levelDS {} 2).score (implFinal (levelDS {} 2) s [.advance])).1)) = some (5, 9, 4) := by
  decide +kernel
example : (buildTree {} 2 (.reqopt true (.vec [1, 5, 9] 2) (.bunion true [.vec [5, 7] 3, .bits [9] 16 4]))).map
      (fun s => (((levelDS {} 2).score s).1, ((levelDS {} 2).score (implFinal (levelDS {} 2) s [.advance])).1,
        ((levelDS {} 2).score (implFinal (levelDS {} 2) s [.seek 9])).1)) = some (2, 5, 6) := by
  decide +kernel
example : (buildTree {} 2 (.bunion true [.inter false [.vec [1, 5, 9] 2, .vec [5, 9] 3], .inter false [.vec [5, 7] 1, .bits [5, 7] 8 4]])).map
      (fun s => ((levelDS {} 2).doc s, ((levelDS {} 2).score s).1,
        ((levelDS {} 2).score (implFinal (levelDS {} 2) s [.advance])).1,
        ((levelDS {} 2).score (implFinal (levelDS {} 2) s [.seekDanger 9])).1)) = some (5, 10, 5, 5) := by
  decide +kernel
example : Exclude.ok [[5, 7], [9]] 1 = true ∧ Exclude.ok [[5, 7], [9]] 9 = false := by decide
example : Vec.V (Vec.init [1, 5, 9] 2) [1, 5, 9] := ⟨rfl, by
  refine ⟨by decide, ?_⟩
  intro x hx
  simp only [List.mem_cons, List.mem_nil_iff, or_false] at hx
  rcases hx with rfl | rfl | rfl <;> decide⟩

/-! ### `TinySet` — translated from common/src/bitset.rs on every run (`Gen/PureFns.lean`)

The 64-bit bucket underlying `BitSet`, `BitSetDocSet` and the buffered union's window was a
contract of the doc-set models; these theorems discharge it for the source text itself: element
`i` is bit `i`, and `pop_lowest` (Kernighan's `n & (n - 1)`) returns the minimum and removes
exactly it. -/
section TinySetSrc
open TantivyModel.Gen.Fn TantivyModel.TinySet

theorem C13_src_tinyset_insert_remove_contains (s : BitVec 64) (el : BitVec 32) (h : el.toNat < 64) :
    (∀ i, mem (tinyset_insert s el) i = (mem s i || decide (i = el.toNat)))
    ∧ (∀ i, mem (tinyset_remove s el) i = (mem s i && !decide (i = el.toNat)))
    ∧ tinyset_contains s el = mem s el.toNat
    ∧ (∀ i, mem (tinyset_singleton el) i = decide (i = el.toNat)) :=
  ⟨mem_insert s el h, mem_remove s el h, contains_eq_mem s el h, mem_singleton el h⟩

theorem C13_src_tinyset_ranges (b : BitVec 32) (h : b.toNat < 64) :
    (∀ i, mem (tinyset_range_lower b) i = decide (i < b.toNat))
    ∧ (∀ i, mem (tinyset_range_greater_or_equal b) i = (decide (b.toNat ≤ i) && decide (i < 64)))
    ∧ (∀ i, mem tinyset_full i = decide (i < 64)) ∧ (∀ i, mem tinyset_empty i = false) :=
  ⟨mem_range_lower b h, mem_range_greater_or_equal b h, mem_full, mem_empty⟩

theorem C13_src_tinyset_pop_lowest (s : BitVec 64) :
    ((∀ i, mem s i = false) → tinyset_pop_lowest s = (none, s))
    ∧ ((∃ i, mem s i = true) → ∃ l s', tinyset_pop_lowest s = (some l, s') ∧ l.toNat < 64
        ∧ mem s l.toNat = true ∧ (∀ j, j < l.toNat → mem s j = false)
        ∧ ∀ i, mem s' i = (mem s i && !decide (i = l.toNat))) :=
  ⟨pop_lowest_empty s, pop_lowest_spec s⟩

example : ∃ i, mem (0x50#64) i = true := ⟨4, by decide⟩
example : tinyset_pop_lowest 0x50#64 = (some 4#32, 0x40#64) := by decide +kernel

/-! #### the bucket arrays of the models are the translated `TinySet` words

`Bridge.elems s`: the sorted list of the members of a word; `Bridge.window bs`: the sorted list of the
set bits `64 * bucket + bit` of a bucket array — the representation `BUnion.State.window` and
`BitSet.State.all` use. The list operations of the models are what the source functions compute. -/
open TantivyModel.DocSet.Bridge

/-- `TinySet::pop_lowest` pops the head of the member list of the word -/
theorem C13_src_tinyset_pop_is_head (s : BitVec 64) :
    (elems s = [] → tinyset_pop_lowest s = (none, s))
    ∧ (elems s ≠ [] → ∃ l s', tinyset_pop_lowest s = (some l, s') ∧ elems s = l.toNat :: elems s') :=
  elems_pop s

/-- refill: `self.bitsets[delta / 64].insert_mut(delta % 64)` is the model's `insertDelta` on the window -/
theorem C13_src_window_insert (bs : List (BitVec 64)) (k : Nat) (e : BitVec 32) (hk : k < bs.length)
    (he : e.toNat < 64) :
    window (bs.set k (tinyset_insert (bs.getD k 0#64) e)) = BUnion.insertDelta (64 * k + e.toNat) (window bs) :=
  window_insert bs k e hk he

/-- advance_buffered / fill_buffer: `self.bitsets[bucket].pop_lowest()` is the model's `popBucket` -/
theorem C13_src_window_pop (bs : List (BitVec 64)) (b : Nat) (hb : b < bs.length) :
    BUnion.popBucket b (window bs) =
      match tinyset_pop_lowest (bs.getD b 0#64) with
      | (none, _) => none
      | (some l, s') => some (64 * b + l.toNat, window (bs.set b s')) :=
  window_pop bs b hb

/-- `BitSet::tinyset(bucket)`: the model's `bucketOf` is the bucket's word -/
theorem C13_src_bitset_bucket (ws : List (BitVec 64)) (b : Nat) :
    BitSet.bucketOf (window ws) b = (elems (ws.getD b 0#64)).map (64 * b + ·) :=
  bucketOf_window ws b

/-- `BitSetDocSet::seek` into a later bucket:
`docs.tinyset(bucket).intersect(TinySet::range_greater_or_equal(target % 64))` is the model's
"members of the target's bucket from the target on" -/
theorem C13_src_bitset_seek_mask (ws : List (BitVec 64)) (t : Nat) (lo : BitVec 32) (hlo : lo.toNat = t % 64) :
    (BitSet.bucketOf (window ws) (t / 64)).filter (fun d => decide (d ≥ t))
      = (elems (tinyset_intersect (ws.getD (t / 64) 0#64) (tinyset_range_greater_or_equal lo))).map
          (64 * (t / 64) + ·) :=
  seek_mask ws t lo hlo

/-- **BitSetDocSet over an arbitrary array of `TinySet` words**: no sortedness hypothesis is left — the
member list of a word array is sorted by construction — and every legal call program observes the
cursor over exactly the set bits of the words -/
theorem C13_src_bitset_words_program_equiv (fx : Fix) (ws : List (BitVec 64)) (score : Nat)
    (hlen : 64 * ws.length ≤ TERMINATED) (prog : List Op)
    (hlegal : legalProg ⟨window ws, none⟩ prog = true) :
    implRun (BitSet.ds fx) (BitSet.init (window ws) (64 * ws.length) score) prog
      = specRun ⟨window ws, none⟩ prog := by
  have hb : ∀ d ∈ window ws, d < 64 * ws.length := by
    intro d hd
    have := ((mem_window ws d).mp hd).1
    omega
  exact C13_bitset_program_equiv fx (window ws) (64 * ws.length) score
    ⟨window_sorted ws, fun x hx => by have := hb x hx; omega⟩ hb prog hlegal

example : window [0x50#64, 0x3#64] = [4, 6, 64, 65] := by decide +kernel
example : BUnion.popBucket 1 (window [0x50#64, 0x3#64]) = some (64, window [0x50#64, 0x2#64]) := by
  decide +kernel
end TinySetSrc

end TantivyModel.C13
