import TantivyModel.Proofs.LockHist
import TantivyModel.Proofs.LockFile
/-!
# C18 — At most one writer per index; the lock follows the writer's lifetime

Property theorems only (helper lemmas: `Proofs/Lock.lean`, `Proofs/LockHist.lean`). All
statements quantify over *every* history `h : List Ev` of the small-step events of
`Model/Lock.lean` (acquire / construct by any thread or `Index` handle, the two halves of
`rollback`, drop, `wait_merging_threads`, worker failure), i.e. over every interleaving of any
number of threads; `final init h` is the state reached from a fresh index directory.

Contract assumed of `Directory::acquire_lock` (modelled, not verified): it is an atomic
test-and-set of the resource (`open_write` create-new / `flock(LOCK_EX|LOCK_NB)`), which is what
the single `acquire` event expresses, and dropping the guard frees it.
-/
namespace TantivyModel.C18
open TantivyModel TantivyModel.Lock

/-- the writer lock is the non-blocking one: a busy lock is reported at once, not waited for -/
theorem C18_nonblocking : Gen.INDEX_WRITER_LOCK_IS_BLOCKING = 0 := by decide

/-- `rollback` moves the guard out of the writer and into the replacement (no second acquire) -/
theorem C18_rollback_moves_guard : Gen.ROLLBACK_REACQUIRES = 0 := by decide

/-- **Mutual exclusion.** After every history: at most one guard object exists, it exists iff the
lock is taken, at most one live writer owns it, and a further `Index::writer…` call (from any
handle or thread `t`) returns `Ok` iff the lock is free (and the arguments are valid and the
construction does not fail); while the lock is taken the call fails with `LockBusy`
and changes nothing. -/
theorem C18_mutex (h : List Ev) :
    let s := final init h
    s.guards.length ≤ 1 ∧ (s.held = true ↔ s.guards.length = 1) ∧
    (s.writers.filter (fun x => s.guards.contains (.writer x.id))).length ≤ 1 ∧
    (∀ t a n, (create s t a n).2 = .ok s.next ↔ (s.held = false ∧ a = true ∧ n = true)) ∧
    (∀ t a n, s.held = true → (create s t a n).1 = s ∧
        ((create s t a n).2 = .lockBusy ∨ (create s t a n).2 = .stuck)) := by
  intro s
  have hi : Inv s := inv_reach h
  have hw : WF s := wf_final wf_init h
  refine ⟨inv_guards_le hi, inv_held_iff hi, ?_, ?_, fun t a n hh => create_held hh t a n⟩
  · exact owners_le_one hi hw
  · intro t a n
    cases hh : s.held
    · rw [create_free hi hh]
      cases a <;> cases n <;> simp
    · have := create_held hh t a n
      constructor
      · intro hok
        rcases this.2 with h2 | h2 <;> rw [h2] at hok <;> cases hok
      · intro hc
        simp at hc

example : (create (final init [.acquire 0, .construct 0 true true]) 7 true true).2 = .lockBusy := by decide
example : (create (final init [.acquire 0, .construct 0 true true, .drop 0]) 7 true true).2 = .ok 1 := by decide

/-- **Release.** Dropping the lock-owning writer, consuming it with `wait_merging_threads`, or a
failed construction (invalid budget / thread count, or an error inside `IndexWriter::new`) frees
the lock, and the next creation succeeds. -/
theorem C18_release (h : List Ev) :
    let s := final init h
    (∀ w, hasWriter s w = true → .writer w ∈ s.guards →
        (step s (.drop w)).1.held = false ∧ (step s (.wait w)).1.held = false ∧
        (∀ t, (create (step s (.drop w)).1 t true true).2 = .ok s.next) ∧
        (∀ t, (create (step s (.wait w)).1 t true true).2 = .ok s.next)) ∧
    (∀ t a n, .creating t ∈ s.guards → (a && n) = false →
        (step s (.construct t a n)).1.held = false ∧
        (∀ t', (create (step s (.construct t a n)).1 t' true true).2 = .ok s.next)) := by
  intro s
  have hi : Inv s := inv_reach h
  constructor
  · intro w hw ho
    have hg : s.guards = [.writer w] := inv_mem_eq hi ho
    have hd : (dropWriter s w).1.held = false ∧ (dropWriter s w).1.next = s.next := by
      simp [dropWriter, hw, hg]
    have hid : Inv (dropWriter s w).1 := inv_dropWriter hi w
    refine ⟨hd.1, hd.1, ?_, ?_⟩ <;>
    · intro t
      show (create (dropWriter s w).1 t true true).2 = _
      rw [create_free hid hd.1]
      simp [hd.2]
  · intro t a n hc han
    have hg : s.guards = [.creating t] := inv_mem_eq hi hc
    have hs : (step s (.construct t a n)).1.held = false ∧ (step s (.construct t a n)).1.next = s.next := by
      cases a <;> cases n <;> simp_all [step]
    refine ⟨hs.1, ?_⟩
    intro t'
    rw [create_free (inv_step hi _) hs.1]
    simp [hs.2]

example : hasWriter (final init [.acquire 0, .construct 0 true true]) 0 = true
    ∧ Owner.writer 0 ∈ (final init [.acquire 0, .construct 0 true true]).guards := by decide
example : Owner.creating 3 ∈ (final init [.acquire 3]).guards := by decide

/-- **Rollback keeps the lock.** In every reachable state in which some `rollback` is in
progress the lock is taken; it stays taken, in the same guard object, through *any* events of
other threads until that rollback finishes, none of which can create a writer; and when the
rollback finishes successfully the same writer owns the guard again. -/
theorem C18_rollback_keeps (h : List Ev) :
    let s := final init h
    (∀ w, hasWriter s w = true → .writer w ∈ s.guards →
        .rolling w ∈ (step s (.rollbackTake w)).1.guards ∧ (step s (.rollbackTake w)).2 = .done) ∧
    (∀ w, .rolling w ∈ s.guards → s.held = true ∧
        (∀ h' : List Ev, (∀ e ∈ h', ∀ b, e ≠ .rollbackNew w b) →
            (final s h').held = true ∧ .rolling w ∈ (final s h').guards ∧ countOk (run s h').2 = 0) ∧
        (step s (.rollbackNew w true)).1.held = true ∧
        .writer w ∈ (step s (.rollbackNew w true)).1.guards ∧
        (step s (.rollbackNew w true)).2 = .ok w) := by
  intro s
  have hi : Inv s := inv_reach h
  constructor
  · intro w hw ho
    have hg : s.guards = [.writer w] := inv_mem_eq hi ho
    simp [step, hw, hg, move]
  · intro w hr
    have hg : s.guards = [.rolling w] := inv_mem_eq hi hr
    refine ⟨inv_mem_held hi hr, ?_, ?_⟩
    · intro h'
      -- generalise over the reachable state
      have key : ∀ (s : St), Inv s → .rolling w ∈ s.guards →
          (∀ e ∈ h', ∀ b, e ≠ .rollbackNew w b) →
          (final s h').held = true ∧ .rolling w ∈ (final s h').guards ∧ countOk (run s h').2 = 0 := by
        induction h' with
        | nil => intro s hi hr _; exact ⟨inv_mem_held hi hr, hr, rfl⟩
        | cons e es ih =>
          intro s hi hr hne
          obtain ⟨h1, _, h3⟩ := rolling_step hi hr e (hne e (by simp))
          have hr' : .rolling w ∈ (step s e).1.guards := by rw [h1]; exact hr
          have := ih (step s e).1 (inv_step hi e) hr' (fun e' he' => hne e' (by simp [he']))
          rw [final_cons, run_cons]
          refine ⟨this.1, this.2.1, ?_⟩
          have h4 := this.2.2
          simp only [countOk, List.filter_cons, h3] at h4 ⊢
          simpa using h4
      exact key s hi hr
    · have hh := inv_mem_held hi hr
      simp [step, hg, move, hh]

example : Owner.rolling 0 ∈ (final init [.acquire 0, .construct 0 true true, .rollbackTake 0]).guards := by decide
example : (run (final init [.acquire 0, .construct 0 true true, .rollbackTake 0])
    [.acquire 1, .acquire 2, .construct 1 true true, .drop 5, .kill 0]).2
    = [.lockBusy, .lockBusy, .stuck, .stuck, .done] := by decide

/-- **After a worker failure.** A failed indexing worker does not release anything — the writer
object still owns the lock and creations keep failing with `LockBusy` — and once that writer is
dropped a new writer opens. -/
theorem C18_after_kill (h : List Ev) :
    let s := final init h
    ∀ w, hasWriter s w = true → .writer w ∈ s.guards →
      let s1 := (step s (.kill w)).1
      s1.held = true ∧ .writer w ∈ s1.guards ∧
      (∀ t a n, (create s1 t a n).2 = .lockBusy) ∧
      (∀ t, (create (step s1 (.drop w)).1 t true true).2 = .ok s.next) := by
  intro s w hw ho s1
  have hi : Inv s := inv_reach h
  have hg : s.guards = [.writer w] := inv_mem_eq hi ho
  have hh : s.held = true := inv_mem_held hi ho
  have e1 : s1 = { s with writers := setKilled s.writers w true } := by
    simp [s1, step, hw]
  have hw1 : hasWriter s1 w = true := by
    rw [e1]
    simp only [hasWriter, List.any_eq_true] at hw ⊢
    obtain ⟨x, hx, hxw⟩ := hw
    refine ⟨{ x with killed := true }, ?_, hxw⟩
    simp only [setKilled, List.mem_map]
    exact ⟨x, hx, by simp [hxw]⟩
  have hi1 : Inv s1 := inv_step hi _
  refine ⟨by rw [e1]; exact hh, by rw [e1]; exact ho, ?_, ?_⟩
  · intro t a n
    have hg1 : s1.guards = [.writer w] := by rw [e1]; exact hg
    have hh1 : s1.held = true := by rw [e1]; exact hh
    simp [create, step, hg1, hh1]
  · intro t
    have hg1 : s1.guards = [.writer w] := by rw [e1]; exact hg
    have hn1 : s1.next = s.next := by rw [e1]
    have hd : (dropWriter s1 w).1.held = false ∧ (dropWriter s1 w).1.next = s.next := by
      rw [← hn1]
      simp [dropWriter, hw1, hg1]
    show (create (dropWriter s1 w).1 t true true).2 = _
    rw [create_free (inv_dropWriter hi1 w) hd.1]
    simp [hd.2]

example : (run init [.acquire 0, .construct 0 true true, .kill 0, .acquire 1, .drop 0, .acquire 1,
    .construct 1 true true]).2 = [.done, .ok 0, .done, .lockBusy, .done, .done, .ok 1] := by decide

/-- **Racing creations.** From any reachable state, in any interleaving of the `acquire` and
`construct` steps of any number of threads (valid or invalid arguments, failing or not), at
most one creation returns a writer — given only that `acquire` is an atomic test-and-set. -/
theorem C18_racing_creates (h : List Ev) (race : List Ev)
    (hr : ∀ e ∈ race, isCreateStep e = true) :
    countOk (run (final init h) race).2 ≤ 1 :=
  racing_le_one (inv_reach h) race hr

example : countOk (run init [.acquire 0, .acquire 1, .acquire 2, .construct 1 true true,
    .construct 0 true true, .construct 2 true true]).2 = 1 := by decide
example : countOk (run init [.acquire 0, .acquire 1, .construct 0 false true, .acquire 2,
    .construct 2 true true, .acquire 1, .construct 1 true true]).2 = 1 := by decide

/-
Full statement (false for the code as it is):
  theorem C18_live_le_one (h : List Ev) : (final init h).writers.length ≤ 1
A `rollback` whose inner `IndexWriter::new` fails (I/O error while reading `meta.json`, a thread
that cannot be spawned) has already moved the guard out of `self`; the guard is dropped with the
error, `self` stays alive without a lock, and another writer can be created next to it.
-/

/-- the part that holds: without a failed rollback at most one writer object is alive, and it
owns the lock -/
theorem C18_live_le_one_partial (h : List Ev) (hn : ∀ e ∈ h, noFailedRollback e = true) :
    (final init h).writers.length ≤ 1 ∧
    ∀ x ∈ (final init h).writers,
      .writer x.id ∈ (final init h).guards ∨ .rolling x.id ∈ (final init h).guards :=
  owned_final inv_init owned_init h hn

example : ∀ e ∈ [Ev.acquire 0, .construct 0 true true, .rollbackTake 0, .rollbackNew 0 true, .kill 0],
    noFailedRollback e = true := by decide

/-- witness: create, failed rollback, create → two live writer objects (the first one without a
lock), and a second `rollback` of the first one panics -/
theorem C18_live_counterexample :
    let h := [Ev.acquire 0, .construct 0 true true, .rollbackTake 0, .rollbackNew 0 false,
              .acquire 1, .construct 1 true true]
    (final init h).writers.length = 2 ∧ (run init h).2.getLast? = some (.ok 1) ∧
    (step (final init h) (.rollbackTake 0)).2 = .panic := by decide

/-! ### at most one live writer, over all lifecycles, from the extracted shape of `rollback` -/

/-- the events the code can produce, given the extracted order inside `rollback`: when the
replacement writer is built *before* the guard is taken out of `self`
(`Gen.ROLLBACK_TAKES_GUARD_AFTER_NEW = 1`) a failing rollback is `rollbackFailedEarly` (nothing
happens to the guard) and the guard-dropping `rollbackNew _ false` cannot occur -/
def producible (rollbackTakesGuardAfterNew : Bool) (e : Ev) : Bool :=
  if rollbackTakesGuardAfterNew then noFailedRollback e else true

/-- **At most one live writer — every lifecycle.** For a code whose `rollback` takes the guard
out of `self` only after the replacement writer was built, in EVERY history of creations (any
handle / thread, valid or invalid arguments, failing or not), rollbacks (succeeding or failing),
drops, `wait_merging_threads` and worker failures there is at most one live `IndexWriter` object,
and it owns the lock. (No hypothesis on the history is left: it is the code shape, extracted
into `Gen.ROLLBACK_TAKES_GUARD_AFTER_NEW`, that rules the bad event out. For the code as it is
that constant is 0 and `C18_live_counterexample` applies.) -/
theorem C18_live_le_one (h : List Ev) (hp : ∀ e ∈ h, producible true e = true) :
    (final init h).writers.length ≤ 1 ∧
    ∀ x ∈ (final init h).writers,
      .writer x.id ∈ (final init h).guards ∨ .rolling x.id ∈ (final init h).guards :=
  owned_final inv_init owned_init h (fun e he => by simpa [producible] using hp e he)

/-- the same statement instantiated with the extracted constant: it speaks about the code as it
is as soon as the extractor finds the repaired order in `rollback` -/
theorem C18_live_le_one_of_extracted_shape (hshape : Gen.ROLLBACK_TAKES_GUARD_AFTER_NEW = 1) (h : List Ev)
    (hp : ∀ e ∈ h, producible (Gen.ROLLBACK_TAKES_GUARD_AFTER_NEW == 1) e = true) :
    (final init h).writers.length ≤ 1 := by
  have : (Gen.ROLLBACK_TAKES_GUARD_AFTER_NEW == 1) = true := by simp [hshape]
  rw [this] at hp
  exact (C18_live_le_one h hp).1

example : ∀ e ∈ [Ev.acquire 0, .construct 0 true true, .rollbackFailedEarly 0, .rollbackFailedEarly 0, .rollbackTake 0,
    .rollbackNew 0 true, .kill 0, .acquire 1], producible true e = true := by decide
example : (run init [.acquire 0, .construct 0 true true, .rollbackFailedEarly 0, .acquire 1, .rollbackTake 0, .rollbackNew 0 true]).2
    = [.done, .ok 0, .ioErr, .lockBusy, .done, .ok 0] := by decide

/-! ### the atomic test-and-set of `acquire`, from the extracted shape of the lock-file code -/

open TantivyModel.LockFile in
/-- **`acquire` is an atomic test-and-set — derived, not assumed, for the lock-file protocol.**
If `open_write` tests and inserts under one write-lock guard and `try_acquire_lock` builds the
guard only after `open_write` succeeded, then in every interleaving of any number of threads'
`open_write` / guard construction / guard drops: at most one thread or guard holds the lock, one
does iff the lock file exists, an `open_write` succeeds iff the file was absent, and a refused
`open_write` changes nothing. -/
theorem C18_acquire_test_and_set (sh : LockFile.Shape) (ha : sh.atomicOpen = true) (hg : sh.guardLate = true)
    (h : List LockFile.Ev) (t : Nat) :
    let s := LockFile.final sh h
    LockFile.holders s ≤ 1 ∧ (s.file = true ↔ LockFile.holders s = 1) ∧
    ((LockFile.step sh s (.openWrite t)).2 = .acquired ↔ s.file = false) ∧
    (s.file = true → LockFile.step sh s (.openWrite t) = (s, .refused)) := by
  intro s
  obtain ⟨_, h2⟩ := LockFile.inv_final ha hg LockFile.init LockFile.inv_init h
  have h2' : LockFile.holders s = (if s.file then 1 else 0) := h2
  refine ⟨?_, ?_, ?_, ?_⟩
  · split at h2' <;> omega
  · cases hf : s.file <;> simp [hf] at h2' ⊢ <;> omega
  · cases hf : s.file <;> simp [LockFile.step, ha, hf]
  · intro hf
    simp [LockFile.step, ha, hf, LockFile.refuse, hg]

/-- **The lock-file `open_write` refines the abstract `acquire`.** Whenever the lock-file state and
the abstract lock state agree (file exists ⇔ lock held, same number of holders / guard objects), an
`open_write` by thread `t` and the abstract `acquire t` give corresponding outcomes (`acquired` ⇔
`done`, `refused` ⇔ `lockBusy`) and agreeing states again — so every theorem about `Model/Lock.lean`
speaks about the lock-file implementation. -/
theorem C18_acquire_refines (sh : LockFile.Shape) (ha : sh.atomicOpen = true) (hg : sh.guardLate = true)
    (fs : LockFile.St) (ls : Lock.St) (t : Nat)
    (hfile : fs.file = ls.held) (hcount : LockFile.holders fs = ls.guards.length)
    (hfresh : Owner.creating t ∉ ls.guards) :
    ((LockFile.step sh fs (.openWrite t)).2 = .acquired ↔ (Lock.step ls (.acquire t)).2 = .done) ∧
    ((LockFile.step sh fs (.openWrite t)).2 = .refused ↔ (Lock.step ls (.acquire t)).2 = .lockBusy) ∧
    (LockFile.step sh fs (.openWrite t)).1.file = (Lock.step ls (.acquire t)).1.held ∧
    LockFile.holders (LockFile.step sh fs (.openWrite t)).1 = (Lock.step ls (.acquire t)).1.guards.length := by
  cases hh : ls.held <;>
    simp [LockFile.step, Lock.step, ha, hg, hfile, hh, hfresh, LockFile.refuse, LockFile.succeed,
      LockFile.holders] at hcount ⊢ <;> omega

example : (LockFile.step ⟨true, true⟩ LockFile.init (.openWrite 3)).2 = .acquired
    ∧ (Lock.step Lock.init (.acquire 3)).2 = .done := by decide

/-- the code as it is now has both shapes (extracted), so its lock-file protocol is the atomic
test-and-set that `Model/Lock.lean` takes `acquire` to be -/
theorem C18_acquire_test_and_set_of_extracted_shape (h : List LockFile.Ev) :
    LockFile.holders (LockFile.final LockFile.codeShape h) ≤ 1 :=
  (C18_acquire_test_and_set LockFile.codeShape (by decide) (by decide) h 0).1

example : (LockFile.run ⟨true, true⟩ LockFile.init [.openWrite 0, .openWrite 1, .mkGuard 0, .openWrite 2, .dropGuard, .openWrite 1]).2
    = [.acquired, .refused, .done, .refused, .done, .acquired] := by decide

/-- without the single critical section (test and insertion are two steps) two threads both see
the file absent and both "create" it: two holders -/
theorem C18_acquire_two_step_open_write_counterexample :
    LockFile.holders (LockFile.final ⟨false, true⟩ [.check 0, .check 1, .insert 0, .insert 1]) = 2 := by decide

/-- with the guard built before `open_write`, a refused attempt deletes the holder's lock file and
the next attempt succeeds: two holders -/
theorem C18_acquire_early_guard_counterexample :
    (LockFile.run ⟨true, false⟩ LockFile.init [.openWrite 0, .openWrite 1, .openWrite 2]).2 = [.acquired, .refused, .acquired]
    ∧ LockFile.holders (LockFile.final ⟨true, false⟩ [.openWrite 0, .openWrite 1, .openWrite 2]) = 2 := by decide

end TantivyModel.C18
