import TantivyModel.Proofs.FaultsClean
import TantivyModel.Proofs.FaultsFix
/-!
# C11 — An I/O error never corrupts the index nor is silently swallowed

Property theorems only (helpers: `Proofs/Faults*.lean`). The statements quantify over every
script `cs : List Call` of API calls and every fault plan `F : Nat → Plan` (call index ↦ set of
storage phases that hit a failing operation in that call) — "fails once at k" and "fails from k
on" are two such plans — and over the channel capacity `cap` (`PIPELINE_MAX_SIZE_IN_DOCS`).
`final sy fx cap F cs` is the state reached from an empty index.

What the model does *not* cover is listed in `tools/claims/C11.json`: several worker threads
(one worker here), deletes, the exact number of storage operations per phase, and the runtime
clause "neither aborts nor hangs" of the real process (tested only).
-/
namespace TantivyModel.C11
open TantivyModel TantivyModel.Faults

/-- the code shapes that `Model/Faults.lean` mirrors are the ones the extractor finds in the
source now (a missing or reordered step makes the item fail to extract and this theorem fail) -/
theorem C11_mirrored_code_shape :
    Gen.COMMIT_TASK_PROPAGATES = 1 ∧ Gen.SAVE_METAS_SYNC_THEN_ATOMIC_WRITE = 1 ∧
    Gen.PREPARE_COMMIT_JOINS_AND_PROPAGATES = 1 ∧ Gen.ADD_CHECKS_ALIVE = 1 ∧
    Gen.MERGE_ERRORS_GO_TO_FUTURE = 1 ∧ Gen.END_MERGE_PROPAGATES = 1 ∧
    Gen.GC_KEEPS_UNDELETED_MANAGED = 1 ∧ 0 < codeCap := by decide

/-- **A commit that returns `Ok` is complete.** In every faulty run, if a `commit` of a writer
that has reported no error since it was created / rolled back returns `Ok`, then none of the
storage phases its result depends on failed (worker flush of the documents still in the worker's
open segment, purge, `save_metas`, and — when the
code has it — the directory sync after the rename), `meta.json` now denotes exactly the previous content plus every document whose `add_document` returned
`Ok` since the last commit, and every segment it references has its files. -/
theorem C11_commit_ok_complete (sy : Bool) (fx : Fixes) (cap : Nat) (F : Nat → Plan) (cs : List Call) (f : Plan)
    (hS : Safe sy fx cap F 0 init cs) :
    let s := final sy fx cap F cs
    ∀ w, s.writer = some w → w.clean = true → (call sy fx cap f s .commit).2 = .ok →
      f .purge = false ∧ f .saveMeta = false ∧ (sy && f .saveSync2) = false ∧
      (w.queue ≠ [] → f .worker = false) ∧
      content (call sy fx cap f s .commit).1.metaSegs = content s.metaSegs ++ w.acked ∧
      segsHaveFiles (call sy fx cap f s .commit).1.metaSegs (call sy fx cap f s .commit).1.files := by
  intro s w hw hc hok
  have hK : K s := K_run sy fx cap F 0 init cs K_init
  have hJ : J sy (call sy fx cap f s .commit).1 :=
    J_call sy fx cap f s .commit (J_run sy fx cap F 0 init cs (J_init sy) hS) (fun _ _ _ _ h => by cases h)
  simp only [K, hw] at hK
  obtain ⟨h1, h2, h3, h4, h5⟩ := clean_commit_ok hw (hK hc) hok
  exact ⟨h1, h2, h3, h4, h5, hJ.1⟩

example : (run false noFix 4 (fun _ => noFault) 0 init [.newWriter, .add 7, .add 8, .commit]).2 = [.ok, .ok, .ok, .ok]
    ∧ content (final false noFix 4 (fun _ => noFault) [.newWriter, .add 7, .add 8, .commit]).metaSegs = [7, 8] := by decide

/-
Full statement without the hypothesis `w.clean` (false for the code as it is):
  commit = Ok ⇒ content after = content before ++ documents acknowledged since the last commit
After a `commit` that failed because a worker failed, `prepare_commit` has taken the worker
handles and returned at the first error without restarting the workers: later `add_document`s
return `Ok` into a channel nobody reads and the next `commit` returns `Ok` without them.
-/
/-- witness: add (worker fails) ; commit = Err ; add 2 = Ok ; commit = Ok ; document 2 is not
in the index -/
theorem C11_commit_ok_complete_counterexample :
    let F : Nat → Plan := fun i p => i == 1 && p == .worker
    let cs := [Call.newWriter, .add 1, .commit, .add 2, .commit]
    (run false noFix 4 F 0 init cs).2 = [.ok, .ok, .err, .ok, .ok] ∧ content (final false noFix 4 F cs).metaSegs = [] := by
  decide

/-- **The last commit stays intact.** In every faulty run, at every point: every segment
`meta.json` references has its files on storage (GC deletes only what neither `meta.json` nor a
register references; failed workers and merges leave only unreferenced files); `meta.json`
changes only in a `commit` / `merge` whose `atomic_write` succeeded — a failed `atomic_write`
leaves it as it was — a merge by a writer without earlier failures never changes its content;
and when a `commit` of such a writer returns `Err`, `meta.json` denotes either exactly what it
denoted before or exactly the attempted commit (previous content plus every acknowledged
document, all files present) — the latter only when the code syncs the directory after the
rename and precisely that barrier failed: the commit is visible, its durability unknown.
(A merge after a `commit` whose `save_metas` failed publishes that commit's complete content:
`end_merge` saves the in-memory committed register.) -/
theorem C11_last_commit_intact (sy : Bool) (fx : Fixes) (cap : Nat) (F : Nat → Plan) (cs : List Call) (f : Plan) (c : Call)
    (hS : Safe sy fx cap F 0 init cs) :
    let s := final sy fx cap F cs
    segsHaveFiles s.metaSegs s.files ∧
    ((call sy fx cap f s c).1.metaSegs ≠ s.metaSegs →
        (c = .commit ∧ f .saveMeta = false ∧ f .purge = false) ∨
        (c = .merge ∧ f .endMergeSave = false ∧ f .mergeThread = false ∧ f .endMergePurge = false)) ∧
    (c = .merge → ∀ w, s.writer = some w → w.clean = true →
        content (call sy fx cap f s c).1.metaSegs = content s.metaSegs) ∧
    (c = .commit → ∀ w, s.writer = some w → w.clean = true → (call sy fx cap f s c).2 = .err →
        content (call sy fx cap f s c).1.metaSegs = content s.metaSegs ∨
        (content (call sy fx cap f s c).1.metaSegs = content s.metaSegs ++ w.acked ∧ sy = true ∧
         f .saveSync2 = true ∧ f .purge = false ∧ f .saveMeta = false ∧
         segsHaveFiles (call sy fx cap f s c).1.metaSegs (call sy fx cap f s c).1.files)) := by
  intro s
  have hJ : J sy s := J_run sy fx cap F 0 init cs (J_init sy) hS
  have hK : K s := K_run sy fx cap F 0 init cs K_init
  refine ⟨hJ.1, ?_, ?_, ?_⟩
  · intro hne
    cases c with
    | commit =>
      left
      refine ⟨rfl, ?_⟩
      simp only [call] at hne
      cases hs : s.writer with
      | none => simp [hs] at hne
      | some w =>
        simp only [hs] at hne
        have hu : ∀ s' w', s'.metaSegs = s.metaSegs → (updaterCommit sy f s' w').1.metaSegs ≠ s.metaSegs →
            f .saveMeta = false ∧ f .purge = false := by
          intro s' w' hm h
          unfold updaterCommit at h
          split at h
          · exact absurd hm h
          · split at h
            · exact absurd hm h
            · split at h
              · exact absurd hm h
              · rename_i h1 h2
                exact ⟨by simpa using h2, by simpa using h1⟩
        split at hne
        · exact hu _ _ rfl hne
        · split at hne
          · exact absurd rfl hne
          · split at hne
            · exact absurd rfl hne
            · refine hu _ _ ?_ hne
              unfold flushS; split <;> rfl
    | merge =>
      right
      refine ⟨rfl, ?_⟩
      simp only [call] at hne
      cases hs : s.writer with
      | none => simp [hs] at hne
      | some w =>
        simp only [hs] at hne
        split at hne
        · exact absurd rfl hne
        · split at hne
          · exact absurd rfl hne
          · split at hne
            · exact absurd rfl hne
            · split at hne
              · exact absurd rfl hne
              · rename_i h1 h2 h3
                exact ⟨by simpa using h3, by simpa using h1, by simpa using h2⟩
    | newWriter =>
      exfalso; apply hne
      simp only [call]
      cases s.writer <;> simp only
      split <;> try rfl
      split <;> try rfl
      split <;> try rfl
      split <;> rfl
    | add d =>
      exfalso; apply hne
      simp only [call]
      cases s.writer <;> simp only
      split <;> try rfl
      split
      · split <;> rfl
      · split <;> try rfl
        split <;> rfl
    | rollback =>
      exfalso; apply hne
      simp only [call]
      cases s.writer <;> simp only
      split <;> try rfl
      split <;> try rfl
      split <;> rfl
    | dropWriter =>
      exfalso; apply hne
      simp only [call]
      cases s.writer <;> simp only
      split <;> rfl
    | waitMerges =>
      exfalso; apply hne
      simp only [call]
      cases s.writer <;> simp only
      split <;> rfl
    | gc =>
      exfalso; apply hne
      simp only [call]
      cases s.writer <;> simp only
      split <;> try rfl
      split
      · exact gcRun_meta _ _ _
      · exact gcRun_meta _ _ _
    | reload =>
      exfalso; apply hne
      simp only [call]
      split <;> rfl
    | removeLock =>
      exfalso; apply hne
      simp only [call]
      split <;> rfl
  · intro hc w hs hcl
    subst hc
    simp only [K, hs] at hK
    obtain ⟨_, _, _, h4, _, _, _, _⟩ := hK hcl
    simp only [call, hs]
    split <;> try rfl
    split <;> try rfl
    split <;> try rfl
    split <;> try rfl
    split
    · simp [mergedRegs, content, h4]
    · rw [gcRun_meta]
      simp [mergedPublished, mergedRegs, content, h4]
  · intro hc w hs hcl herr
    subst hc
    simp only [K, hs] at hK
    exact clean_commit_err hs (hK hcl) herr
      (J_call sy fx cap f s .commit hJ (fun _ _ _ _ h => by cases h)).1

example : (final false noFix 4 (fun i p => i == 3 && p == .saveMeta) [.newWriter, .add 1, .commit, .commit]).metaSegs
    = [⟨0, [1]⟩] := by decide

/-- **Errors are reported, confined, or harmless.** In every faulty run, for the current writer:
(i) an indexing-worker (or compressor) failure during `add_document` leaves the writer in a
state in which every further `add_document` and the next `commit` return `Err`; a worker, purge
or `save_metas` failure during `commit` — including the directory sync after the rename, when the
code has it — makes that `commit` return `Err`;
(ii) a failure on the merge thread or in `end_merge`'s `advance_deletes` makes `merge` return
`Err` and leaves `meta.json` and both registers untouched;
(iii) GC failures never change the result of `commit`, and failing deletes leave the storage and
the managed list exactly as they were;
(iv) a failing reload returns `Err` and leaves the current searcher (and everything else) alone. -/
theorem C11_error_reported (sy : Bool) (fx : Fixes) (cap : Nat) (F : Nat → Plan) (cs : List Call) (f : Plan) :
    let s := final sy fx cap F cs
    ∀ w, s.writer = some w →
      (w.alive = true → w.workers = true → f .worker = true → ∀ d, ∃ w',
          (call sy fx cap f s (.add d)).1.writer = some w' ∧ w'.workerErr = true ∧ w'.alive = false ∧
          w'.workers = true) ∧
      (w.workerErr = true → w.alive = false → w.workers = true →
          (∀ d, (call sy fx cap f s (.add d)).2 = .err) ∧ (call sy fx cap f s .commit).2 = .err) ∧
      (w.workers = true →
          ((w.queue ≠ [] ∧ f .worker = true) ∨ f .purge = true ∨ f .saveMeta = true ∨
           (sy = true ∧ f .saveSync2 = true)) →
          (call sy fx cap f s .commit).2 = .err) ∧
      (f .mergeThread = true ∨ f .endMergePurge = true →
          (call sy fx cap f s .merge).2 = .err ∧ (call sy fx cap f s .merge).1.metaSegs = s.metaSegs ∧
          ∃ w', (call sy fx cap f s .merge).1.writer = some w' ∧ w'.committed = w.committed ∧
                w'.uncommitted = w.uncommitted) ∧
      (∀ f' : Plan, (∀ p, p ≠ .gcLock → p ≠ .gcDelete → p ≠ .gcManaged → f' p = f p) →
          (call sy fx cap f' s .commit).2 = (call sy fx cap f s .commit).2) ∧
      (f .gcDelete = true → (gcRun f s w).1 = s) ∧
      (f .reload = true → call sy fx cap f s .reload = (s, .err)) := by
  intro s w hw
  refine ⟨?_, ?_, ?_, ?_, ?_, ?_, ?_⟩
  · intro ha hwk hf d
    exact ⟨bombed w d, by simp [call, hw, ha, hwk, hf, newFiles], by simp [bombed], by simp [bombed],
      by simp [bombed, hwk]⟩
  · intro he ha hwk
    exact ⟨fun d => by simp [call, hw, ha], by simp [call, hw, hwk, he]⟩
  · intro hwk hfail
    simp only [call, hw, hwk]
    cases hwe : w.workerErr with
    | true => simp
    | false =>
      simp only [Bool.not_true, Bool.false_eq_true, ↓reduceIte]
      split
      · rfl
      · rename_i hcond
        rcases hfail with ⟨hq, hfw⟩ | hp | hsv | ⟨hsy, hs2⟩
        · exfalso; apply hcond
          cases hq' : w.queue with
          | nil => exact absurd hq' hq
          | cons a as => simp [hfw, inFlight, hq']
        · unfold updaterCommit; split <;> simp [hp]
        · unfold updaterCommit; split <;> try rfl
          split <;> simp [hsv]
        · unfold updaterCommit; split <;> try rfl
          split <;> try rfl
          split <;> simp [hsy, hs2]
  · intro hf
    simp only [call, hw]
    split
    · exact ⟨rfl, rfl, markErr w, rfl, rfl, rfl⟩
    · rcases hf with hf | hf
      · rw [if_pos hf]
        exact ⟨rfl, rfl, markErr w, rfl, rfl, rfl⟩
      · split <;>
          first
          | exact ⟨rfl, rfl, markErr w, rfl, rfl, rfl⟩
          | (rw [if_pos hf]; exact ⟨rfl, rfl, markErr w, rfl, rfl, rfl⟩)
  · intro f' hf'
    have e1 : f' .worker = f .worker := hf' _ (by decide) (by decide) (by decide)
    have e2 : f' .purge = f .purge := hf' _ (by decide) (by decide) (by decide)
    have e3 : f' .saveMeta = f .saveMeta := hf' _ (by decide) (by decide) (by decide)
    have e4 : f' .saveSync2 = f .saveSync2 := hf' _ (by decide) (by decide) (by decide)
    have hu : ∀ s' w', (updaterCommit sy f' s' w').2 = (updaterCommit sy f s' w').2 := by
      intro s' w'
      unfold updaterCommit
      rw [e2, e3, e4]
      split <;> try rfl
      split <;> try rfl
      split <;> try rfl
      split <;> rfl
    simp only [call, hw, e1]
    split
    · exact hu _ _
    · split <;> try rfl
      split <;> try rfl
      exact hu _ _
  · exact gcRun_delete_fails f s w
  · intro hf
    simp [call, hf]

example : (run false noFix 4 (fun i p => i == 1 && p == .worker) 0 init [.newWriter, .add 1, .add 2, .commit]).2
    = [.ok, .ok, .err, .err] := by decide
example : (run false noFix 4 (fun i p => i == 1 && p == .worker) 0 init [.newWriter, .add 1, .waitMerges, .newWriter, .add 2, .waitMerges]).2
    = [.ok, .ok, .err, .ok, .ok, .ok] := by decide
example : (run false noFix 4 (fun i p => i == 3 && p == .mergeThread) 0 init [.newWriter, .add 1, .commit, .merge, .merge]).2
    = [.ok, .ok, .ok, .err, .ok] := by decide

/-- **Recoverable.** From every state of every faulty run in which no lock file was orphaned —
which is every state if flushing and deleting the lock file never fail — dropping the writer
(whatever happened to it) and opening a new one succeeds once the faults are over, and the new
writer adds and commits on top of exactly what `meta.json` denoted. -/
theorem C11_recoverable (sy : Bool) (fx : Fixes) (cap : Nat) (F : Nat → Plan) (cs : List Call) (d : Nat) :
    let s := final sy fx cap F cs
    ((∀ i, LockSafe (F i)) → stale s = false) ∧
    (stale s = false →
      (run sy fx cap (fun _ => noFault) 0 s [.dropWriter, .newWriter, .add d, .commit]).2 = [.ok, .ok, .ok, .ok] ∧
      content (run sy fx cap (fun _ => noFault) 0 s [.dropWriter, .newWriter, .add d, .commit]).1.metaSegs
        = content s.metaSegs ++ [d]) := by
  intro s
  constructor
  · intro hF
    have key : ∀ (cs : List Call) (i : Nat) (s0 : St), stale s0 = false → stale (run sy fx cap F i s0 cs).1 = false := by
      intro cs
      induction cs with
      | nil => intro i s0 h; exact h
      | cons c cs ih =>
        intro i s0 h
        rw [run_cons]
        exact ih (i + 1) _ (stale_call sy fx cap (F i) (hF i) s0 c h)
    exact key cs 0 init (by decide)
  · intro hst
    have hdrop := drop_noFault sy fx cap s hst
    simp only [run_cons, hdrop]
    cases hsf : segFull fx [d] <;>
      simp [run, call, noFault, freshWriter, updaterCommit, flushS, flushW, published, commitRegs,
        gcRun_meta, content, newFiles, hsf]

example : stale (final false noFix 4 (fun i p => i == 1 && p == .worker) [.newWriter, .add 1, .commit]) = false := by decide

/-
Full statement without the hypothesis on the lock file (false for the code as it is): the
default `Directory::acquire_lock` leaves the lock file behind when the `flush` after its creation
fails (no guard was built yet) and when the `delete` in the guard's `Drop` fails (only logged);
from then on every `Index::writer` fails with `LockBusy`, also after the faults are over.
-/
theorem C11_recoverable_counterexample :
    let F : Nat → Plan := fun i p => i == 1 && p == .lockDelete
    (run false noFix 4 F 0 init [.newWriter, .dropWriter, .newWriter, .newWriter]).2 = [.ok, .ok, .err, .err] ∧
    stale (final false noFix 4 F [.newWriter, .dropWriter]) = true ∧
    stale (final false noFix 4 (fun i p => i == 0 && p == .lockFlush) [.newWriter]) = true := by decide

/-
Model-level liveness. Full statement (false for the code as it is): no call blocks forever.
A writer whose `commit` failed on a worker error has no workers but a live channel: the
`cap + 1`-th `add_document` blocks forever on the bounded channel.
-/
/-- the part that holds: in every faulty run no call of a writer that has reported no error
blocks, and the only call that can ever block is `add_document` on a writer left without workers
whose channel is full -/
theorem C11_no_wait_cycle_partial (sy : Bool) (fx : Fixes) (cap : Nat) (F : Nat → Plan) (cs : List Call) (f : Plan) (c : Call) :
    let s := final sy fx cap F cs
    ((call sy fx cap f s c).2 = .hang →
        ∃ d w, c = .add d ∧ s.writer = some w ∧ w.workers = false ∧ w.clean = false ∧ cap ≤ w.queue.length) := by
  intro s hh
  have hK : K s := K_run sy fx cap F 0 init cs K_init
  cases c with
  | add d =>
    simp only [call] at hh
    cases hs : s.writer with
    | none => simp [hs] at hh
    | some w =>
      simp only [hs] at hh
      split at hh
      · cases hh
      · split at hh
        · rename_i hwk
          have hwk' : w.workers = false := by simpa using hwk
          split at hh
          · rename_i hq
            refine ⟨d, w, rfl, rfl, hwk', ?_, hq⟩
            cases hc : w.clean with
            | false => rfl
            | true =>
              simp only [K, hs] at hK
              have := (hK hc).2.2.1
              simp [hwk'] at this
          · cases hh
        · split at hh <;> try cases hh
          split at hh <;> cases hh
  | newWriter =>
    simp only [call] at hh
    cases hs : s.writer <;> simp only [hs] at hh
    · split at hh <;> try cases hh
      split at hh <;> try cases hh
      split at hh <;> try cases hh
      split at hh <;> cases hh
    · cases hh
  | commit =>
    simp only [call] at hh
    have hu : ∀ s' w', (updaterCommit sy f s' w').2 ≠ .hang := by
      intro s' w'
      unfold updaterCommit
      split <;> try simp
      split <;> try simp
      split <;> try simp
      split <;> simp
    cases hs : s.writer <;> simp only [hs] at hh
    · cases hh
    · split at hh
      · exact absurd hh (hu _ _)
      · split at hh <;> try cases hh
        split at hh <;> try cases hh
        exact absurd hh (hu _ _)
  | rollback =>
    simp only [call] at hh
    cases hs : s.writer <;> simp only [hs] at hh
    · cases hh
    · split at hh <;> try cases hh
      split at hh <;> try cases hh
      split at hh <;> cases hh
  | dropWriter =>
    simp only [call] at hh
    cases hs : s.writer <;> simp only [hs] at hh <;> cases hh
  | waitMerges =>
    simp only [call] at hh
    cases hs : s.writer <;> simp only [hs] at hh
    · cases hh
    · split at hh <;> cases hh
  | merge =>
    simp only [call] at hh
    cases hs : s.writer <;> simp only [hs] at hh
    · cases hh
    · split at hh <;> try cases hh
      split at hh <;> try cases hh
      split at hh <;> try cases hh
      split at hh <;> try cases hh
      split at hh <;> cases hh
  | gc =>
    simp only [call] at hh
    cases hs : s.writer <;> simp only [hs] at hh
    · cases hh
    · split at hh <;> try cases hh
      split at hh
      · rename_i h1; rw [h1] at hh; cases hh
      · cases hh
  | reload =>
    simp only [call] at hh
    split at hh <;> cases hh
  | removeLock =>
    simp only [call] at hh
    cases hh

/-- witness with a channel of capacity 2: after the failed commit the third add blocks -/
theorem C11_no_wait_cycle_counterexample :
    (run false noFix 2 (fun i p => i == 1 && p == .worker) 0 init
      [.newWriter, .add 1, .commit, .add 2, .add 3, .add 4]).2 = [.ok, .ok, .err, .ok, .ok, .hang] := by
  decide

/-- **Worker death disconnects the pipeline.** Once the bomb went off (`alive = false`: the
status dropped its receiver, the dead worker dropped the other one) every `add_document` returns
`Err` — whatever the capacity and however full the channel: in particular a producer blocked on a
full channel is woken with an error; nothing blocks. -/
theorem C11_worker_death_disconnects (sy : Bool) (fx : Fixes) (cap : Nat) (F : Nat → Plan) (cs : List Call) (f : Plan) (d : Nat) :
    let s := final sy fx cap F cs
    ∀ w, s.writer = some w → w.alive = false →
      (call sy fx cap f s (.add d)).2 = .err ∧ ∀ cap', (call sy fx cap' f s (.add d)).2 ≠ .hang := by
  intro s w hw ha
  exact ⟨by simp [call, hw, ha], fun cap' => by simp [call, hw, ha]⟩

example : (run false noFix 0 (fun i p => i == 1 && p == .worker) 0 init [.newWriter, .add 1, .add 2]).2 = [.ok, .ok, .err] := by decide

/-- the code as it is now: does `save_metas` sync after the rename? (0 / 1; the model handles both) -/
theorem C11_post_rename_sync_shape : Gen.SAVE_METAS_SYNC_AFTER_WRITE = 0 ∨ Gen.SAVE_METAS_SYNC_AFTER_WRITE = 1 := by
  decide

/-- without the post-rename sync the storage invariant needs no proviso at all -/
theorem C11_last_commit_intact_without_post_rename_sync (fx : Fixes) (cap : Nat) (F : Nat → Plan) (cs : List Call) :
    segsHaveFiles (final false fx cap F cs).metaSegs (final false fx cap F cs).files :=
  (J_run_nosync fx cap F 0 init cs (J_init false)).1

/-- **A commit whose durability barrier failed is visible, and recovery starts from it.** With
the post-rename sync: if only that barrier fails in the `commit` of a clean writer, the call
returns `Err`, `meta.json` denotes exactly the attempted commit with all its files present, and
a following `rollback` succeeds on top of it (the examples below also run a later `commit`). -/
theorem C11_commit_err_after_rename_visible (fx : Fixes) (cap : Nat) (F : Nat → Plan) (cs : List Call) (f : Plan)
    (hS : Safe true fx cap F 0 init cs)
    (hf : f .saveSync2 = true ∧ f .worker = false ∧ f .purge = false ∧ f .saveMeta = false) :
    let s := final true fx cap F cs
    ∀ w, s.writer = some w → w.clean = true → w.workerErr = false →
      (call true fx cap f s .commit).2 = .err ∧
      content (call true fx cap f s .commit).1.metaSegs = content s.metaSegs ++ w.acked ∧
      segsHaveFiles (call true fx cap f s .commit).1.metaSegs (call true fx cap f s .commit).1.files ∧
      (call true fx cap noFault (call true fx cap f s .commit).1 .rollback).2 = .ok ∧
      (call true fx cap noFault (call true fx cap f s .commit).1 .rollback).1.metaSegs
        = (call true fx cap f s .commit).1.metaSegs := by
  intro s w hw hc hwe
  have hK : K s := K_run true fx cap F 0 init cs K_init
  simp only [K, hw] at hK
  have hcw := hK hc
  have hJ : J true (call true fx cap f s .commit).1 :=
    J_call true fx cap f s .commit (J_run true fx cap F 0 init cs (J_init true) hS) (fun _ _ _ _ h => by cases h)
  obtain ⟨he, hm, w1, hw1, hg1⟩ := commit_sync2_clean (cap := cap) hw hcw hwe hf
  have hrb := rollback_noFault true fx cap _ w1 hw1 hg1
  exact ⟨he, hm, hJ.1, by rw [hrb], by rw [hrb]⟩

/-
Without the proviso `Safe` the storage invariant is false for a code that syncs after the
rename inside the free function `save_metas` (i.e. before `store_meta`): the barrier of a commit
fails (`meta.json` = the attempted commit, `active_index_meta` = the old one), then a merge fails
in `end_merge`'s `save_metas` after the registers were swapped; now neither a register nor
`active_index_meta` references the segments `meta.json` denotes and the next GC deletes them.
(Two independent faults; "once" / "from k on" plans cannot produce it.)
-/
theorem C11_post_rename_sync_double_fault_counterexample :
    let F : Nat → Plan := fun i p => (i == 2 && p == .saveSync2) || (i == 3 && p == .endMergeSave)
    let cs := [Call.newWriter, .add 1, .commit, .merge, .gc]
    (run true noFix 4 F 0 init cs).2 = [.ok, .ok, .err, .err, .ok] ∧
    (final true noFix 4 F cs).metaSegs = [⟨0, [1]⟩] ∧ (final true noFix 4 F cs).files = [1] := by decide

example : (run true noFix 4 (fun i p => i == 2 && p == .saveSync2) 0 init [.newWriter, .add 1, .commit, .rollback, .add 2, .commit]).2
      = [.ok, .ok, .err, .ok, .ok, .ok]
    ∧ content (final true noFix 4 (fun i p => i == 2 && p == .saveSync2) [.newWriter, .add 1, .commit, .rollback, .add 2, .commit]).metaSegs = [1, 2]
    ∧ content (final false noFix 4 (fun i p => i == 2 && p == .saveSync2) [.newWriter, .add 1, .commit]).metaSegs = [1] := by decide

/-- several segments per transaction (the worker closes a segment every `cutDocs` documents):
when a later segment of the transaction fails, the earlier ones stay registered; the commit
fails, and — without rollback — the next commit publishes that part of the failed transaction -/
example : (run false ⟨false, false, 2⟩ 9 (fun i p => i == 3 && p == .worker) 0 init
      [.newWriter, .add 0, .add 1, .add 2, .commit, .commit, .merge]).2 = [.ok, .ok, .ok, .ok, .err, .ok, .ok]
    ∧ content (final false ⟨false, false, 2⟩ 9 (fun i p => i == 3 && p == .worker)
      [.newWriter, .add 0, .add 1, .add 2, .commit, .commit, .merge]).metaSegs = [0, 1]
    ∧ (final false ⟨false, false, 2⟩ 9 (fun _ => noFault) [.newWriter, .add 0, .add 1, .add 2, .add 3, .add 4, .commit]).metaSegs
        = [⟨0, [0, 1]⟩, ⟨1, [2, 3]⟩, ⟨2, [4]⟩] := by decide

/-! ### the full statements, for a code with the two small repairs (`Fixes`, extracted) -/

/-- **No call ever blocks** — the full form of `C11_no_wait_cycle_partial`. For a code whose
`prepare_commit` restarts a worker for every joined handle before it returns the first error
(`Gen.PREPARE_COMMIT_RESTARTS_WORKERS = 1`): in every faulty run, whatever failed before and
without any rollback, no API call blocks — every writer always has workers on its current
channel (commit joins them and restarts them, a dead worker disconnects its channel, rollback
and new writers start fresh ones), so nothing ever waits on a channel nobody reads. -/
theorem C11_no_wait_cycle (sy : Bool) (fx : Fixes) (hfx : fx.restartWorkers = true) (cap : Nat) (F : Nat → Plan)
    (cs : List Call) (f : Plan) (c : Call) :
    (call sy fx cap f (final sy fx cap F cs) c).2 ≠ .hang := by
  intro hh
  obtain ⟨d, w, _, hw, hwk, _, _⟩ := C11_no_wait_cycle_partial sy fx cap F cs f c hh
  have hfit : Fit fx (final sy fx cap F cs) := Fit_run sy fx cap F 0 init cs (Fit_init fx)
  simp only [Fit, hw, wOk, hfx, hwk] at hfit
  simp at hfit

/-- for the code as it is, as soon as the extractor finds the repaired `prepare_commit` -/
theorem C11_no_wait_cycle_of_extracted_shape (hshape : Gen.PREPARE_COMMIT_RESTARTS_WORKERS = 1) (sy : Bool)
    (cap : Nat) (F : Nat → Plan) (cs : List Call) (f : Plan) (c : Call) :
    (call sy codeFixes cap f (final sy codeFixes cap F cs) c).2 ≠ .hang :=
  C11_no_wait_cycle sy codeFixes (by simp [codeFixes, hshape]) cap F cs f c

example : (run false ⟨true, false, 0⟩ 2 (fun i p => i == 1 && p == .worker) 0 init
      [.newWriter, .add 1, .commit, .add 2, .add 3, .add 4, .commit]).2 = [.ok, .ok, .err, .ok, .ok, .ok, .ok]
    ∧ content (final false ⟨true, false, 0⟩ 2 (fun i p => i == 1 && p == .worker)
      [.newWriter, .add 1, .commit, .add 2, .add 3, .add 4, .commit]).metaSegs = [2, 3, 4] := by decide

/-- **No acknowledged document is silently dropped by a successful commit** — the full form of
what `C11_commit_ok_complete_counterexample` refutes for the pinned code. With `restartWorkers`:
in every faulty run, whatever failed before and without any rollback, a `commit` that returns
`Ok` publishes both registers and every document that is queued for the workers (every document
acknowledged since the last worker failure or commit). -/
theorem C11_commit_ok_publishes_every_queued_document (sy : Bool) (fx : Fixes) (hfx : fx.restartWorkers = true)
    (cap : Nat) (F : Nat → Plan) (cs : List Call) (f : Plan) :
    let s := final sy fx cap F cs
    ∀ w, s.writer = some w → (call sy fx cap f s .commit).2 = .ok →
      content (call sy fx cap f s .commit).1.metaSegs = content w.committed ++ content w.uncommitted ++ w.queue := by
  intro s w hw hok
  have hfit : Fit fx s := Fit_run sy fx cap F 0 init cs (Fit_init fx)
  simp only [Fit, hw, wOk, hfx] at hfit
  have hwk : w.workers = true := by
    have : w.workers = true ∧ (fx.rollbackKeeps = false ∨ w.guard = true) := by simpa using hfit
    exact this.1
  exact commit_ok_publishes hw hwk hok

example : content (final false ⟨true, false, 0⟩ 4 (fun i p => i == 1 && p == .worker)
    [.newWriter, .add 1, .commit, .add 2, .commit]).metaSegs = [2] := by decide

/-
Open (not in the Lean model): `delete_term` / `delete_query` — their content effect is judged only
by the harness oracle; several indexing workers (the model has one worker handing over one or
several segments per transaction).
-/

/-- **No call ever panics, and a failed rollback can be retried.** For a code whose `rollback`
takes the lock guard out of `self` only after the replacement writer was built
(`Gen.ROLLBACK_TAKES_GUARD_AFTER_NEW = 1`): in every faulty run every writer owns its guard, no
API call panics, and after a `rollback` that failed, the same call succeeds once the fault is
over. -/
theorem C11_no_panic_rollback_retry (sy : Bool) (fx : Fixes) (hfx : fx.rollbackKeeps = true) (cap : Nat)
    (F : Nat → Plan) (cs : List Call) (f : Plan) (c : Call) :
    let s := final sy fx cap F cs
    (call sy fx cap f s c).2 ≠ .panic ∧
    (∀ w, s.writer = some w → w.guard = true ∧
      (call sy fx cap noFault (call sy fx cap f s .rollback).1 .rollback).2 = .ok) := by
  intro s
  have hfit : Fit fx s := Fit_run sy fx cap F 0 init cs (Fit_init fx)
  have hguard : ∀ w, s.writer = some w → w.guard = true := by
    intro w hw
    simp only [Fit, hw, wOk, hfx] at hfit
    have : (fx.restartWorkers = false ∨ w.workers = true) ∧ w.guard = true := by simpa using hfit
    exact this.2
  constructor
  · intro hp
    have := call_panic hp
    obtain ⟨w, _, hw, hg⟩ := this
    rw [hguard w hw] at hg
    cases hg
  · intro w hw
    refine ⟨hguard w hw, ?_⟩
    have hg := hguard w hw
    cases hf : f .ctorRead <;> simp [call, hw, hg, hf, hfx, noFault, markErr, freshWriter]

example : (run false ⟨false, true, 0⟩ 4 (fun i p => i == 2 && p == .ctorRead) 0 init
    [.newWriter, .add 1, .rollback, .rollback, .newWriter, .add 2, .commit]).2 = [.ok, .ok, .err, .ok, .err, .ok, .ok] := by decide

end TantivyModel.C11
