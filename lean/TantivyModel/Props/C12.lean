import TantivyModel.Proofs.Bm25
import TantivyModel.Proofs.Bm25Q
import TantivyModel.Proofs.Bm25Tree
import TantivyModel.Proofs.Bm25Round
import TantivyModel.Proofs.Bm25RoundDisMax
/-!
# C12 — Relevance scores are BM25 over the searcher's statistics; explain agrees

Property theorems only. The float expression is abstract (`Arith F`, executed in `Float32` by the
driver and compared bit for bit with the implementation by the harness); the theorems below are
the exact parts: which inputs the score depends on, partition invariance of those inputs, the
explain value being the same expression, the field-norm table facts, and the bounds over `ℚ`.
-/
namespace TantivyModel.C12
open TantivyModel TantivyModel.Bm25 List

/-- For a corpus without deleted documents the searcher statistics `(N, tokens(f), n(t))` are the
same for every partition of the same documents into segments (sums over a partition), in any
order of the documents. -/
theorem C12_stats_partition_invariant (segs₁ segs₂ : List (List Doc))
    (h : segs₁.flatten ~ segs₂.flatten) (t : Nat) :
    statsOf segs₁ = statsOf segs₂ ∧ docFreqOf segs₁ t = docFreqOf segs₂ t :=
  ⟨statsOf_perm h, docFreqOf_perm h t⟩

/-- the statistics are those of the unsegmented corpus -/
theorem C12_stats_are_global (segs : List (List Doc)) (t : Nat) :
    (statsOf segs).numDocs = segs.flatten.length ∧
    (statsOf segs).numTokens = (segs.flatten.map List.length).sum ∧
    docFreqOf segs t = segs.flatten.countP (·.contains t) := by
  refine ⟨?_, ?_, ?_⟩
  · simp [statsOf, length_flatten]
  · simp [statsOf, sum_map_length_flatten]
  · simp [docFreqOf, countP_flatten]

/-- The model score of a term on a document is a function of
`(N, tokens, n, fieldnorm_id, tf, boost)` only — whatever the arithmetic `F` — hence it does
not depend on how the documents are split into segments, on the collector or on K: two
evaluations with the same six inputs are the same expression (bit-identical in `Float32`). -/
theorem C12_score_depends_only_on {F : Type} [Arith F] (segs₁ segs₂ : List (List Doc))
    (h : segs₁.flatten ~ segs₂.flatten) (t : Nat) (d : Doc) (boost : F) :
    termScoreIn segs₁ t d boost = termScoreIn segs₂ t d boost := by
  unfold termScoreIn
  rw [statsOf_perm h, docFreqOf_perm h t]

/-- the same for a whole query tree: the score only depends on the statistics -/
theorem C12_tree_score_congr {F : Type} [Arith F] (segs₁ segs₂ : List (List Doc))
    (h : segs₁.flatten ~ segs₂.flatten) (q : QTree F) (boost : F) :
    score (statsOf segs₁) q boost = score (statsOf segs₂) q boost := by
  rw [statsOf_perm h]

/-- the two IEEE facts the explain path relies on (`1.0 * x = x`, `1.0 == 1.0`) -/
structure OneLaws (F : Type) [Arith F] : Prop where
  isOne_one : Arith.isOne (one : F) = true
  one_mul : ∀ x : F, Arith.mul one x = x

/-- trees without `BoostQuery` nodes -/
inductive BoostFree {F : Type} : QTree F → Prop
  | term (n id tf) : BoostFree (.term n id tf)
  | phrase (ns id c) : BoostFree (.phrase ns id c)
  | const (q c) : BoostFree (.const q c)
  | sum (qs) : BoostFree (.sum qs)
  | dismax (qs tie) : BoostFree (.dismax qs tie)

/-- `explain(..).value()` is the score: for term, const-score, boolean sum and dis-max queries the
explain path evaluates the very same expression as the scorer (given `1.0 * x = x`). -/
theorem C12_explain_value {F : Type} [Arith F] (hF : OneLaws F) (s : Stats) (q : QTree F)
    (hq : BoostFree q) : explainValue s q = score s q one := by
  cases hq with
  | term n id tf => simp [explainValue, score]
  | phrase ns id c => simp [explainValue, score]
  | const q c => simp [explainValue, score, hF.one_mul]
  | sum qs => simp [explainValue]
  | dismax qs tie => simp [explainValue]

/-
FULL STATEMENT (false in `Float32`, true in exact arithmetic):
  explainValue s (.boost q b) = score s (.boost q b) one
`BoostWeight::explain` multiplies the *unboosted* value by the boost (`(w * f) * b`) whereas the
scorer multiplies the *weight* (`(w * b) * f`): the two differ by rounding. Proved part: equality
for every arithmetic in which multiplication is commutative and associative.
-/
structure MulLaws (F : Type) [Arith F] : Prop extends OneLaws F where
  mul_comm : ∀ x y : F, Arith.mul x y = Arith.mul y x
  mul_assoc : ∀ x y z : F, Arith.mul (Arith.mul x y) z = Arith.mul x (Arith.mul y z)
  isOne_eq : ∀ x : F, Arith.isOne x = true → x = one

theorem C12_explain_value_boost_partial {F : Type} [Arith F] (hF : MulLaws F) (s : Stats)
    (n id tf : Nat) (b : F) :
    explainValue s (.boost (.term n id tf) b) = score s (.boost (.term n id tf) b) one := by
  simp only [explainValue, score, hF.one_mul, termScore, weight, hF.isOne_one, if_true]
  generalize Arith.mul (idf (F := F) n s.numDocs) (Arith.add one K1) = W
  generalize tfFactor (F := F) s id tf = T
  by_cases hb : Arith.isOne b = true
  · have := hF.isOne_eq b hb
    subst this
    simp only [hF.isOne_one, if_true]
    rw [hF.mul_comm _ one, hF.one_mul]
  · simp only [hb, Bool.false_eq_true, if_false]
    rw [hF.mul_assoc W T b, hF.mul_comm T b, ← hF.mul_assoc W b T]

/-- trees in which no dis-max node is a union of plain term queries -/
def NoTermDisMax {F : Type} : QTree F → Prop
  | .dismax qs _ => qs.all QTree.isTerm = false
  | _ => True

/-
FULL STATEMENT (false for the code as written): `topDocsScore s q = score s q one` for every q —
"a given searcher returns the same score for the same query and document whatever the collector".
`BooleanWeight::for_each_pruning` sends a dis-max over term queries through `block_wand`, which sums.
-/
/-- collector independence of the score, proved for every tree that is not a dis-max over plain
term queries -/
theorem C12_collector_independent_partial {F : Type} [Arith F] (s : Stats) (q : QTree F)
    (hq : NoTermDisMax q) : topDocsScore s q = score s q one := by
  cases q with
  | dismax qs tie => simp only [NoTermDisMax] at hq; simp [topDocsScore, hq]
  | term _ _ _ => rfl
  | phrase _ _ _ => rfl
  | boost _ _ => rfl
  | const _ _ => rfl
  | sum _ => rfl

/-- an arbitrary interpretation of the operations on `Nat` (not arithmetic: `div` is made
non-vanishing) — enough to exhibit that two expressions are structurally different -/
instance toyArith : Arith Nat where
  ofNat := id
  add := (· + ·)
  sub := (· - ·)
  mul := (· * ·)
  div := fun x y => x + y + 1
  ln := id
  max := Nat.max
  half := 0
  isOne := (· == 1)

/-- the refuted case: a dis-max (tie breaker 0) over two matching terms scores the maximum, but
the TopDocs path reports the sum (known finding `C12:dismax-topdocs-sums-clauses`) -/
theorem C12_dismax_topdocs_counterexample :
    let s : Stats := { numDocs := 10, numTokens := 10 }
    let q : QTree Nat := .dismax [.term 1 1 8, .term 2 1 8] 0
    topDocsScore s q ≠ score s q one := by decide

/-! ## field-norm quantisation (shared with C07) -/

theorem C12_fieldnorm_table_len : Gen.FIELD_NORMS_TABLE.length = 256 := by decide +kernel

/-- `id_to_fieldnorm` is strictly increasing -/
theorem C12_id_to_fieldnorm_strictMono :
    ∀ i : Fin 255, idToFieldnorm i.val < idToFieldnorm (i.val + 1) := by decide +kernel

/-- `fieldnorm_to_id (id_to_fieldnorm i) = i` for all 256 codes -/
theorem C12_fieldnorm_roundtrip : ∀ i : Fin 256, fieldnormToId (idToFieldnorm i.val) = i.val := by
  decide +kernel

/-- bracket property of the quantisation, for every field length: the decoded length is the
largest table entry not above the true length. -/
theorem C12_fieldnorm_quantisation (f : Nat) :
    idToFieldnorm (fieldnormToId f) ≤ f ∧
    (fieldnormToId f + 1 < 256 → f < idToFieldnorm (fieldnormToId f + 1)) := by
  have hspec := takeWhile_spec (fun x => decide (x ≤ f)) Gen.FIELD_NORMS_TABLE 0
  have h0 : 0 < (Gen.FIELD_NORMS_TABLE.takeWhile (fun x => decide (x ≤ f))).length := by
    have : Gen.FIELD_NORMS_TABLE = 0 :: Gen.FIELD_NORMS_TABLE.tail := by decide +kernel
    rw [this, takeWhile_cons_of_pos (by simp)]
    simp
  have hle : (Gen.FIELD_NORMS_TABLE.takeWhile (fun x => decide (x ≤ f))).length ≤ 256 := by
    have := (takeWhile_sublist (fun x => decide (x ≤ f)) (l := Gen.FIELD_NORMS_TABLE)).length_le
    rw [C12_fieldnorm_table_len] at this
    exact this
  unfold fieldnormToId idToFieldnorm
  constructor
  · have := hspec.1 ((Gen.FIELD_NORMS_TABLE.takeWhile (fun x => decide (x ≤ f))).length - 1) (by omega)
    simpa using this
  · intro hlt
    have hk : (Gen.FIELD_NORMS_TABLE.takeWhile (fun x => decide (x ≤ f))).length - 1 + 1
        = (Gen.FIELD_NORMS_TABLE.takeWhile (fun x => decide (x ≤ f))).length := by omega
    rw [hk]
    have := hspec.2 (by rw [C12_fieldnorm_table_len]; omega)
    simpa using this

/-! ## exact bounds over ℚ -/

open TantivyModel.Bm25Q in
/-- idf is positive: the argument of the logarithm exceeds 1 whenever `0 ≤ n ≤ N` -/
theorem C12_idf_pos (n N : ℚ) (h0 : 0 ≤ n) (h : n ≤ N) : 1 < idfArg n N := idf_pos n N h0 h

open TantivyModel.Bm25Q in
/-- `0 ≤ tf_factor < 1` -/
theorem C12_tf_factor_bounds (tf norm : ℚ) (h0 : 0 ≤ tf) (hn : 0 < norm) :
    0 ≤ tfFactor tf norm ∧ tfFactor tf norm < 1 := tf_factor_lt_one tf norm h0 hn

open TantivyModel.Bm25Q in
theorem C12_tf_factor_mono_tf (norm tf₁ tf₂ : ℚ) (hn : 0 < norm) (h0 : 0 ≤ tf₁) (h : tf₁ ≤ tf₂) :
    tfFactor tf₁ norm ≤ tfFactor tf₂ norm := tf_factor_mono_tf norm tf₁ tf₂ hn h0 h

/-! ## non-vacuity -/

/-- the same six documents, one segment vs three segments in a different order -/
def exSegsA : List (List Doc) := [[[1, 2, 2], [2], [3, 3, 3, 1], [], [2, 1], [4]]]
def exSegsB : List (List Doc) := [[[2], [4]], [[3, 3, 3, 1], [1, 2, 2]], [[2, 1], []]]

example : exSegsA.flatten ~ exSegsB.flatten := by decide
example : statsOf exSegsA = { numDocs := 6, numTokens := 11 } := by decide
example : statsOf exSegsB = { numDocs := 6, numTokens := 11 } := by decide
example : docFreqOf exSegsB 2 = 3 := by decide
/-- a length strictly inside a quantisation bucket is rounded down to the bucket's lower end
(stated without pinning table values: the lengths between two consecutive entries) -/
example : fieldnormToId (idToFieldnorm 100 + 1) = 100 ∧ idToFieldnorm 100 + 1 < idToFieldnorm 101 := by
  decide +kernel
example : BoostFree (QTree.sum [QTree.term 3 2 1, QTree.const (QTree.term 1 1 1) (0 : Nat)] : QTree Nat) :=
  .sum _

/-! ## the dis-max combiner; explain on every tree (exact arithmetic) -/

/-- exact integer arithmetic (scores scaled to integers): an instance in which the laws of exact
arithmetic hold; `div` and `ln` are irrelevant to the theorems below -/
instance intArith : Arith Int where
  ofNat := Int.ofNat
  add := (· + ·)
  sub := (· - ·)
  mul := (· * ·)
  div := (· / ·)
  ln := id
  max := max
  half := 0
  isOne := (· == 1)

theorem intArith_addMax : AddMaxLaws Int where
  add_comm := Int.add_comm
  add_assoc := Int.add_assoc
  max_comm := Int.max_comm
  max_assoc := Int.max_assoc

theorem intArith_exact : ExactLaws Int where
  isOne_one := by decide
  isOne_eq x h := by
    have : x = 1 := by simpa [Arith.isOne] using h
    subst this; rfl
  one_mul := Int.one_mul
  mul_comm := Int.mul_comm
  mul_assoc := Int.mul_assoc
  add_mul := Int.add_mul
  sub_mul := Int.sub_mul
  zero_mul := Int.zero_mul

/-- every non-negative factor commutes with `max` -/
theorem intArith_maxCompat (b : Int) (hb : 0 ≤ b) : MaxCompat b := by
  intro x y
  show max (x * b) (y * b) = max x y * b
  rcases Int.le_total x y with h | h
  · rw [Int.max_eq_right h, Int.max_eq_right (Int.mul_le_mul_of_nonneg_right h hb)]
  · rw [Int.max_eq_left h, Int.max_eq_left (Int.mul_le_mul_of_nonneg_right h hb)]

/-- The score of a `DisjunctionMaxQuery` node is `DisjunctionMaxCombiner` run over the matching
clauses: start from `(max, sum) = (0, 0)`, `update` with each clause score in clause order
(`max = Score::max(score, max); sum += score`), then `score() = max + (sum − max) · tie_breaker`
(the combiner's three methods are checked against the source by the extractor,
`Gen.DISMAX_COMBINER_SHAPE`). In every arithmetic — also `f32`. -/
theorem C12_dismax_is_combiner_run {F : Type} [Arith F] (s : Stats) (qs : List (QTree F)) (tie boost : F) :
    score s (.dismax qs tie) boost
      = ((qs.map (score s · boost)).foldl DisMaxState.update DisMaxState.init).score tie :=
  dismax_eq_combiner s qs tie boost

example : score (F := Int) ⟨10, 50⟩ (.dismax [.const (.term 1 1 1) 3, .const (.term 1 1 1) 7, .const (.term 1 1 1) 5] 2) 1
    = 7 + (15 - 7) * 2 := by decide

/-- … and it does not depend on the order of the clauses: `max + tie·(sum − max)` of the same
clause scores in any order — in every arithmetic whose `+` and `max` are commutative and
associative (exact arithmetic; in `f32` `max` is, `+` is commutative only: the order can change
the rounding of the sum, nothing else). A combiner that loses a clause score in `update` (the
seeded change C12-C dropped the previous maximum from the sum) breaks `C12_dismax_is_combiner_run`
at the extracted shape. The same for a boolean sum. -/
theorem C12_dismax_order_independent {F : Type} [Arith F] (hF : AddMaxLaws F) (s : Stats)
    (qs qs' : List (QTree F)) (h : qs ~ qs') (tie boost : F) :
    score s (.dismax qs tie) boost = score s (.dismax qs' tie) boost :=
  dismax_perm hF s h tie boost

theorem C12_sum_order_independent {F : Type} [Arith F] (hF : AddMaxLaws F) (s : Stats)
    (qs qs' : List (QTree F)) (h : qs ~ qs') (boost : F) :
    score s (.sum qs) boost = score s (.sum qs') boost :=
  sum_perm hF s h boost

example : score (F := Int) ⟨10, 50⟩ (.dismax [.const (.term 1 1 1) 3, .const (.term 1 1 1) 7] 2) 1
    = score (F := Int) ⟨10, 50⟩ (.dismax [.const (.term 1 1 1) 7, .const (.term 1 1 1) 3] 2) 1 :=
  C12_dismax_order_independent intArith_addMax _ _ _ (Perm.swap _ _ _) _ _

/-- A boost factors out of EVERY query tree — terms, phrases, const-score, boolean sums, dis-max,
nested boosts: `weight.scorer(reader, β)` scores `β` times what `weight.scorer(reader, 1.0)`
scores — in exact arithmetic (`ExactLaws`) and for boosts that commute with `max` (every
non-negative boost, `intArith_maxCompat`; a NEGATIVE boost below a dis-max does not: the maximum
becomes a minimum). -/
theorem C12_boost_factors_out {F : Type} [Arith F] (hF : ExactLaws F) (s : Stats) (q : QTree F)
    (hq : GoodBoosts q) (β : F) (hβ : MaxCompat β) : score s q β = Arith.mul (score s q one) β :=
  score_lin hF s q hq β hβ

/-- FULL explain agreement in exact arithmetic: `Weight::explain(..).value()` equals the score for
every query tree, boosts anywhere (`BoostWeight::explain` multiplies the unboosted value afterwards
where the scorer multiplies the weight first — the same number exactly, a different rounding in
`f32`: the harness compares within 4 ulp per unit there). Extends `C12_explain_value` (boost-free
trees, every arithmetic) and `C12_explain_value_boost_partial` (a boosted term). -/
theorem C12_explain_value_exact {F : Type} [Arith F] (hF : ExactLaws F) (s : Stats) (q : QTree F)
    (hq : GoodBoosts q) : explainValue s q = score s q one :=
  explain_eq_score hF s q hq

/-- a boosted dis-max of a boosted term and a const clause below a boolean sum, over `Int` -/
example : explainValue (F := Int) ⟨10, 50⟩
      (.sum [.boost (.dismax [.boost (.const (.term 1 1 1) 3) 2, .const (.term 1 1 1) 4] 1) 5, .const (.term 2 1 1) 1])
    = score (F := Int) ⟨10, 50⟩
      (.sum [.boost (.dismax [.boost (.const (.term 1 1 1) 3) 2, .const (.term 1 1 1) 4] 1) 5, .const (.term 2 1 1) 1]) one :=
  C12_explain_value_exact intArith_exact _ _ (by
    simp only [GoodBoosts, GoodBoostsL, and_true, true_and]
    exact ⟨intArith_maxCompat 5 (by decide), intArith_maxCompat 2 (by decide)⟩)

/-- the hypothesis on the boosts is needed: with the boost −1 the maximum of the boosted clauses is
the boosted MINIMUM of the clauses -/
theorem C12_negative_boost_not_max_compatible : ¬ MaxCompat (-1 : Int) := by
  intro h
  have := h 1 2
  revert this
  decide

/-! ## rounding: explicit error bounds over an abstract rounding model -/

/-- THE CLAUSE SUM UNDER ROUNDING. Read the arithmetic through `val : F → ℚ` and let every addition
be exact up to a relative error `u` (`RoundLaws`; IEEE `f32` without overflow / underflow:
`u = 2⁻²⁴`). The score of a boolean sum of `n` clauses with non-negative scores lies within
`(1 − u)ⁿ … (1 + u)ⁿ` of the exact sum of the clause scores — the "determined up to floating-point
rounding of that sum" of the property, as an explicit bound. -/
theorem C12_sum_rounding_bound {F : Type} [Arith F] (val : F → ℚ) (u : ℚ) (h : RoundLaws val u) (s : Stats)
    (qs : List (QTree F)) (boost : F) (hpos : ∀ q, q ∈ qs → 0 ≤ val (score s q boost)) :
    (1 - u) ^ qs.length * ((qs.map fun q => val (score s q boost)).sum) ≤ val (score s (.sum qs) boost) ∧
      val (score s (.sum qs) boost) ≤ (1 + u) ^ qs.length * ((qs.map fun q => val (score s q boost)).sum) := by
  rw [score_sum, sumScores_eq_foldl]
  have := foldl_add_bounds h (qs.map (score s · boost)) zero (by rw [h.zero])
    (by
      intro x hx
      obtain ⟨q, hq, rfl⟩ := List.mem_map.mp hx
      exact hpos q hq)
  simpa [h.zero, List.map_map, Function.comp_def] using this

/-- … and two evaluation orders of the same clauses (e.g. `block_wand` versus the union scorer, or
the clause order of the query) differ by at most `((1 + u)ⁿ − (1 − u)ⁿ) · Σ` — about `2·n·u·Σ`:
the tolerance the harness allows for multi-clause sums (4 ulp per clause) is of this form. -/
theorem C12_sum_order_rounding_bound {F : Type} [Arith F] (val : F → ℚ) (u : ℚ) (h : RoundLaws val u) (s : Stats)
    (qs qs' : List (QTree F)) (hp : qs ~ qs') (boost : F) (hpos : ∀ q, q ∈ qs → 0 ≤ val (score s q boost)) :
    |val (score s (.sum qs) boost) - val (score s (.sum qs') boost)|
      ≤ ((1 + u) ^ qs.length - (1 - u) ^ qs.length) * ((qs.map fun q => val (score s q boost)).sum) := by
  rw [score_sum, score_sum, sumScores_eq_foldl, sumScores_eq_foldl]
  have := foldl_add_perm_bound h (hp.map (score s · boost))
    (by
      intro x hx
      obtain ⟨q, hq, rfl⟩ := List.mem_map.mp hx
      exact hpos q hq)
  simpa [List.map_map, Function.comp_def] using this

/-- THE MULTIPLICATION ORDER OF A BOOST. `BoostWeight::explain` multiplies the unboosted value by
the boost, `(w · f) · b`, the scorer multiplies the weight first, `(w · b) · f` (the full statement
`explain = score` is false in `f32`). With every multiplication exact up to `u` the two differ by
at most `4·u·(w·f·b)`: for a boosted term whose boost is not `1.0`, -/
theorem C12_explain_boost_rounding_bound {F : Type} [Arith F] (val : F → ℚ) (u : ℚ) (h : RoundLaws val u)
    (hone : Arith.isOne (one : F) = true) (s : Stats) (n id tf : Nat) (b : F) (hb : Arith.isOne b = false)
    (hw : 0 ≤ val (Arith.mul (idf (F := F) n s.numDocs) (Arith.add one K1)))
    (hf : 0 ≤ val (tfFactor (F := F) s id tf)) (hb0 : 0 ≤ val b)
    (hmul1 : ∀ x : F, Arith.mul one x = x) :
    |val (explainValue s (.boost (.term n id tf) b)) - val (score s (.boost (.term n id tf) b) one)|
      ≤ 4 * u * (val (Arith.mul (idf (F := F) n s.numDocs) (Arith.add one K1)) * val (tfFactor (F := F) s id tf) * val b) := by
  simp only [explainValue, score, termScore, weight, hone, if_true, hmul1, hb, Bool.false_eq_true, if_false]
  exact mul_order_bound h _ _ _ hw hf hb0

/-- exact integer arithmetic satisfies the rounding laws for every `u ∈ [0, 1]` (no error at all):
the bounds are not vacuous; `f32` is the intended instance of the hypothesis, with `u = 2⁻²⁴` -/
theorem intArith_round (u : ℚ) (h0 : 0 ≤ u) (h1 : u ≤ 1) : RoundLaws (fun x : Int => (x : ℚ)) u where
  u_nonneg := h0
  u_le_one := h1
  zero := by simp [zero, Arith.ofNat]
  add_err x y := by
    show |((x + y : Int) : ℚ) - ((x : ℚ) + (y : ℚ))| ≤ u * |(x : ℚ) + (y : ℚ)|
    rw [Int.cast_add, sub_self, abs_zero]
    exact mul_nonneg h0 (abs_nonneg _)
  mul_err x y := by
    show |((x * y : Int) : ℚ) - ((x : ℚ) * (y : ℚ))| ≤ u * |(x : ℚ) * (y : ℚ)|
    rw [Int.cast_mul, sub_self, abs_zero]
    exact mul_nonneg h0 (abs_nonneg _)

example : |((score (F := Int) ⟨10, 50⟩ (.sum [.const (.term 1 1 1) 3, .const (.term 1 1 1) 7]) 1 : Int) : ℚ)
      - ((score (F := Int) ⟨10, 50⟩ (.sum [.const (.term 1 1 1) 7, .const (.term 1 1 1) 3]) 1 : Int) : ℚ)|
    ≤ ((1 + 1 / 100 : ℚ) ^ 2 - (1 - 1 / 100) ^ 2) * (3 + 7) := by
  have := C12_sum_order_rounding_bound (fun x : Int => (x : ℚ)) (1 / 100) (intArith_round _ (by norm_num) (by norm_num))
    ⟨10, 50⟩ [.const (.term 1 1 1) 3, .const (.term 1 1 1) 7] [.const (.term 1 1 1) 7, .const (.term 1 1 1) 3]
    (Perm.swap _ _ _) 1 (by
      intro q hq
      simp only [mem_cons, not_mem_nil, or_false] at hq
      rcases hq with rfl | rfl <;> norm_num [score, Arith.mul])
  simpa [score, Arith.mul] using this

/-- THE DIS-MAX VALUE UNDER ROUNDING: the maximum is exact, the sum carries the error of `n`
additions, then one subtraction, one multiplication by the tie breaker and one addition. With
`E = (1+u)ⁿ − 1`, `a = u(1+E) + E`, `b = u(1+a) + a`, `c = u(1+b) + b` (`c ≈ (n + 3)·u`), a tie
breaker in `[0, 1]` and non-negative clause scores, the computed score is within `c · Σ` of
`max + (Σ − max) · tie` of the clause scores. -/
theorem C12_dismax_rounding_bound {F : Type} [Arith F] (val : F → ℚ) (u : ℚ) (h : RoundLawsMax val u) (s : Stats)
    (qs : List (QTree F)) (tie boost : F) (hpos : ∀ q, q ∈ qs → 0 ≤ val (score s q boost))
    (ht0 : 0 ≤ val tie) (ht1 : val tie ≤ 1) :
    |val (score s (.dismax qs tie) boost)
        - (((qs.map (score s · boost)).map val).foldl (fun a x => Max.max x a) 0
            + (((qs.map (score s · boost)).map val).sum
                - ((qs.map (score s · boost)).map val).foldl (fun a x => Max.max x a) 0) * val tie)|
      ≤ (u * (1 + (u * (1 + (u * (1 + ((1 + u) ^ qs.length - 1)) + ((1 + u) ^ qs.length - 1)))
            + (u * (1 + ((1 + u) ^ qs.length - 1)) + ((1 + u) ^ qs.length - 1))))
          + (u * (1 + (u * (1 + ((1 + u) ^ qs.length - 1)) + ((1 + u) ^ qs.length - 1)))
            + (u * (1 + ((1 + u) ^ qs.length - 1)) + ((1 + u) ^ qs.length - 1))))
        * ((qs.map (score s · boost)).map val).sum := by
  rw [score_dismax, sumScores_eq_foldl, maxScores_eq_foldl]
  have := dismax_round_bound h (qs.map (score s · boost)) tie
    (by
      intro x hx
      obtain ⟨q, hq, rfl⟩ := List.mem_map.mp hx
      exact hpos q hq) ht0 ht1
  simpa using this

theorem intArith_roundMax (u : ℚ) (h0 : 0 ≤ u) (h1 : u ≤ 1) : RoundLawsMax (fun x : Int => (x : ℚ)) u where
  toRoundLaws := intArith_round u h0 h1
  sub_err x y := by
    show |((x - y : Int) : ℚ) - ((x : ℚ) - (y : ℚ))| ≤ u * |(x : ℚ) - (y : ℚ)|
    rw [Int.cast_sub, sub_self, abs_zero]
    exact mul_nonneg h0 (abs_nonneg _)
  max_exact x y := by
    show ((Max.max x y : Int) : ℚ) = Max.max (x : ℚ) (y : ℚ)
    exact Int.cast_max

example : RoundLawsMax (fun x : Int => (x : ℚ)) (1 / 1000) := intArith_roundMax _ (by norm_num) (by norm_num)

end TantivyModel.C12
