import TantivyModel.Proofs.Reader
import TantivyModel.Proofs.ReaderSeq
import TantivyModel.Proofs.ReaderPub
import TantivyModel.Proofs.Generations
import TantivyModel.Proofs.ReaderProgress
import TantivyModel.Proofs.ReaderMutex
import TantivyModel.Proofs.ReaderFresh
/-!
# C05 — Searchers are immutable snapshots; readers only ever see whole commits

Property theorems only (invariants live in `Proofs/Reader*.lean`). A *trace* is an arbitrary
interleaving of reader events (any number of readers, in any process) and writer/GC events;
`valid full t` is the decidable lock discipline + lock-file semantics that the harness also
evaluates on traces logged from the real code.
-/
namespace TantivyModel.C05
open TantivyModel TantivyModel.Reader

/-- the source text, as seen by the extractor, follows the full discipline (reader: named
META_LOCK guard bound before the single load of meta.json and the segment opens; GC: living
set and choice of doomed files inside the lock arm, deletes only over that choice) -/
theorem C05_code_follows_discipline : codeDisc = full := by decide

/-- the eager-open mechanism: `SegmentReader::open` opens every component (all but the
temporary store) before the lock is released -/
theorem C05_all_components_opened_eagerly :
    Gen.EAGER_OPEN_COMPONENTS = Gen.SEGMENT_COMPONENTS_WITHOUT_TEMP := by decide

/-- For every interleaving that follows the discipline: no `openFile` ever hits a missing
(deleted) path, and every publication hands out handles on exactly the files of the one meta
that reload loaded. -/
theorem C05_reload_whole_commit (t : List Ev) (hv : valid full t = true) :
    (run init t).badOpens = [] ∧
    ∀ r j, (r, j) ∈ (run init t).pubs →
      ((run init t).rs r).j = some j ∧
      ∀ p, p ∈ (searcherOf (run init t) r).map (·.path) ↔ p ∈ metaFiles (run init t) j := by
  have hI := inv_run init t inv_init hv
  refine ⟨hI.noBad, ?_⟩
  intro r j hm
  obtain ⟨_, hj, hall⟩ := hI.pubOk r j hm
  refine ⟨hj, ?_⟩
  intro p
  unfold searcherOf
  rw [hI.handlesTried r]
  constructor
  · intro hp
    obtain ⟨j', hj', hm'⟩ := hI.triedSub r p hp
    rw [hj] at hj'
    cases hj'
    exact hm'
  · exact hall p

/-- the same fact, step-wise: after any disciplined history, an `openFile` that the discipline
allows finds its file (it was not deleted between `loadMeta` and now) -/
theorem C05_open_never_hits_deleted (t : List Ev) (hv : valid full t = true) (r : Rid) (p : Path)
    (hok : ok full (run init t) (.openFile r p) = true) :
    ∃ b, (run init t).fs.lookup p = some b ∧ p ∉ (run init t).deleted := by
  have hI := inv_run init t inv_init hv
  obtain ⟨b, j, hb, _, _, _, _⟩ := open_finds _ r p hI hok
  refine ⟨b, hb, ?_⟩
  intro hd
  rw [hI.gone p hd] at hb
  cases hb

/-- GC side of the same invariant: under the discipline no deleted or doomed path is referenced by
the newest meta (so a reload that starts now, in any process, will find every file), nor by any
meta saved since the last `gcList` -/
theorem C05_gc_spares_every_loadable_commit (t : List Ev) (hv : valid full t = true) (p : Path)
    (hp : p ∈ (run init t).deleted ∨ p ∈ (run init t).gcDels) :
    p ∉ metaFiles (run init t) ((run init t).metas.length - 1) ∧
    ∀ j, (run init t).kList ≤ j → p ∉ metaFiles (run init t) j := by
  have hI := inv_run init t inv_init hv
  have hk := hI.klt
  have h : ∀ j, (run init t).kList ≤ j → p ∉ metaFiles (run init t) j :=
    fun j hj => hI.doomed p (hp.symm) j hj
  exact ⟨h _ (by omega), h⟩

/-- Every observation on a held searcher is a function of its handles alone: it is the same
in every state of the world, in particular after any further events. -/
theorem C05_snapshot_immutable {α : Type} (f : List (Path × Nat) → α) (S : Searcher)
    (s : St) (t : List Ev) : observe (run s t) f S = observe s f S := rfl

/-- … and no event that any discipline allows changes the handles of a published reload -/
theorem C05_published_handles_fixed (d : Disc) (s : St) (e : Ev) (r : Rid)
    (hp : (s.rs r).phase = .published) (hok : ok d s e = true) :
    searcherOf (step s e) r = searcherOf s r ∧ ((step s e).rs r).phase = .published := by
  cases e with
  | acquire r' =>
    have hne : r ≠ r' := by
      intro h; subst h
      simp only [ok, Bool.and_eq_true, decide_eq_true_eq] at hok
      rw [hp] at hok; exact absurd hok.2 (by decide)
    simp [step, searcherOf, upd, hne, hp]
  | loadMeta r' =>
    have hne : r ≠ r' := by
      intro h; subst h
      simp only [ok] at hok
      split at hok <;> simp [hp] at hok
    simp [step, searcherOf, upd, hne, hp]
  | openFile r' p =>
    have hne : r ≠ r' := by
      intro h; subst h
      simp [ok, hp] at hok
    simp only [step]
    split <;> simp [searcherOf, upd, hne, hp]
  | release r' =>
    have hne : r ≠ r' := by
      intro h; subst h
      simp only [ok] at hok
      split at hok <;> simp [hp] at hok
    simp [step, searcherOf, upd, hne, hp]
  | warm r' =>
    by_cases hne : r = r'
    · subst hne; simp [step, searcherOf, upd, hp]
    · simp [step, searcherOf, upd, hne, hp]
  | publish r' =>
    have hne : r ≠ r' := by
      intro h; subst h
      simp [ok, hp] at hok
    simp only [step]
    split <;> simp [searcherOf, upd, hne, hp]
  | create p b => simp [step, searcherOf, hp]
  | saveMeta f => simp [step, searcherOf, hp]
  | gcAcquire => simp [step, searcherOf, hp]
  | gcList l => simp [step, searcherOf, hp]
  | gcRelease => simp [step, searcherOf, hp]
  | gcDelete p => simp [step, searcherOf, hp]
  | mLock r' => simp [step, searcherOf, hp]
  | mUnlock r' => simp [step, searcherOf, hp]

/-- the excluded design: a component resolved by path at observation time is *not* a snapshot —
a later GC delete changes what it returns -/
theorem C05_lazy_open_counterexample :
    let s := run init [.create 1 10, .saveMeta [1]]
    let s' := run s [.create 2 20, .saveMeta [2], .gcAcquire, .gcList [2], .gcRelease, .gcDelete 1]
    validFrom full init [.create 1 10, .saveMeta [1], .create 2 20, .saveMeta [2], .gcAcquire,
      .gcList [2], .gcRelease, .gcDelete 1] = true ∧
    observeLazy s id [1] = [(1, some 10)] ∧ observeLazy s' id [1] = [(1, none)] := by
  decide

/-- a reload never opens a file of an uncommitted segment: every handle's path is listed in the
meta the reload loaded, hence in a completed `saveMeta` -/
theorem C05_no_uncommitted (t : List Ev) (hv : valid full t = true) (r : Rid) (h : Handle)
    (hh : h ∈ searcherOf (run init t) r) :
    (∃ j, ((run init t).rs r).j = some j ∧ j < (run init t).metas.length ∧
      h.path ∈ metaFiles (run init t) j) ∧ ¬ uncommitted (run init t) h.path := by
  have hI := inv_run init t inv_init hv
  have hp : h.path ∈ ((run init t).rs r).tried := by
    rw [← hI.handlesTried r]
    exact List.mem_map_of_mem hh
  obtain ⟨j, hj, hm⟩ := hI.triedSub r h.path hp
  refine ⟨⟨j, hj, hI.jlt r j hj, hm⟩, ?_⟩
  intro hu
  have hlt := hI.jlt r j hj
  have : (run init t).metas.getD j [] ∈ (run init t).metas := by
    rw [List.getD_eq_getElem?_getD, List.getElem?_eq_getElem hlt]
    exact List.getElem_mem hlt
  exact hu.2 _ this hm

/-- reloads of one reader that do not overlap in time publish non-decreasing commit numbers -/
theorem C05_sequential_reloads_monotone (ρ : Nat) (t : List Ev) (hv : valid full t = true)
    (hs : sequential ρ t = true) :
    List.Pairwise (· ≤ ·) (pubsOf ρ (run init t)) :=
  (seq_run ρ init t inv_init (seqInv_init ρ) hv hs).2.sorted

/-- how the source enforces the hypothesis `sequential ρ t` of the theorem above since the repair
of S5: `InnerIndexReader::reload` binds a guard of the per-reader `reload_lock` in its outermost
block before `create_searcher` (which loads meta.json and opens the segments) and keeps it until
after the single, unconditional `searcher.store` — so a reload of a reader starts only when
every earlier reload of that reader has published. (Ordering publications by generation id
instead does not give this: the id is drawn after the load.) -/
theorem C05_reloads_of_one_reader_serialised : Gen.RELOAD_MUTEX_COVERS_LOAD_AND_STORE = 1 := by
  decide

/-- …but META_LOCK covers loading, not the `ArcSwap` store: two *overlapping* reloads of the
same reader, both following the discipline, can publish in the reverse order of their
`loadMeta`, and the reader moves back from meta_2 to meta_1. -/
theorem C05_concurrent_reloads_counterexample :
    let t : List Ev :=
      [.create 1 10, .saveMeta [1],
       .acquire (0, 0), .loadMeta (0, 0), .openFile (0, 0) 1, .release (0, 0),
       .create 2 20, .saveMeta [1, 2],
       .acquire (0, 1), .loadMeta (0, 1), .openFile (0, 1) 1, .openFile (0, 1) 2,
       .release (0, 1), .publish (0, 1),
       .publish (0, 0)]
    valid full t = true ∧ sequential 0 t = false ∧ pubsOf 0 (run init t) = [2, 1] := by
  decide

/-- the model-produced interleaving for a reader that does not take the lock: GC deletes a
file between `loadMeta` and `openFile` -/
theorem C05_reader_without_lock_counterexample :
    let t : List Ev :=
      [.create 1 10, .saveMeta [1], .loadMeta (0, 0), .create 2 20, .saveMeta [2],
       .gcAcquire, .gcList [2], .gcRelease, .gcDelete 1, .openFile (0, 0) 1]
    valid { readerLock := false } t = true ∧ (run init t).badOpens = [((0, 0), 1)] := by
  decide

/-- … and for a GC that computes its living set without holding the lock -/
theorem C05_gc_list_outside_lock_counterexample :
    let t : List Ev :=
      [.create 1 10, .saveMeta [1], .acquire (0, 0), .loadMeta (0, 0), .create 2 20,
       .saveMeta [2], .gcList [2], .gcDelete 1, .openFile (0, 0) 1]
    valid { gcLock := false } t = true ∧ valid full t = false ∧
      (run init t).badOpens = [((0, 0), 1)] := by
  decide

/-! ### non-vacuity: the hypotheses are met by concrete non-trivial histories -/

/-- a reload pre-empted between `loadMeta` and its opens while the writer commits, merges and
collects: GC has to wait for the lock; the reload publishes exactly meta_1 -/
example :
    let t : List Ev :=
      [.create 1 10, .create 2 11, .saveMeta [1, 2],
       .acquire (7, 0), .loadMeta (7, 0), .openFile (7, 0) 1,
       .create 3 30, .saveMeta [3],            -- merge of 1,2 into 3 published meanwhile
       .create 4 40,                           -- an uncommitted segment
       .openFile (7, 0) 2, .release (7, 0),
       .gcAcquire, .gcList [3, 4], .gcRelease, .gcDelete 1,
       .publish (7, 0), .gcDelete 2,
       .acquire (7, 1), .loadMeta (7, 1), .openFile (7, 1) 3, .release (7, 1), .publish (7, 1)]
    valid full t = true ∧ sequential 7 t = true ∧ pubsOf 7 (run init t) = [1, 2] ∧
      searcherOf (run init t) (7, 0) = [⟨2, 11⟩, ⟨1, 10⟩] ∧ uncommitted (run init t) 4 := by
  decide

example : ∃ t, valid full t = true ∧ (run init t).pubs ≠ [] :=
  ⟨[.create 1 10, .saveMeta [1], .acquire (0, 0), .loadMeta (0, 0), .openFile (0, 0) 1,
    .release (0, 0), .publish (0, 0)], by decide⟩

example : ok full (run init [.create 1 10, .saveMeta [1], .acquire (0, 0), .loadMeta (0, 0)])
    (.openFile (0, 0) 1) = true := by decide

example : observe init (fun l => l.length) [⟨1, 10⟩, ⟨2, 20⟩] = 2 := by decide

/-! ### publication as an atomic register (`ArcSwap`), warming, generations -/

/-- `ArcSwap::store`: from the moment reload `r` publishes, `searcher()` of its reader returns
`r`'s searcher (commit `j`) … -/
theorem C05_searcher_serves_last_publication (s : St) (r : Rid) (j : Nat)
    (hj : (s.rs r).j = some j) :
    served r.1 (step s (.publish r)) = some j ∧ servedReload r.1 (step s (.publish r)) = some r :=
  served_step_publish s r j hj

/-- … and no event other than a publication of the same reader changes what `searcher()` returns:
the register has no other writer (commits, merges, GC, other readers, a reload in progress) -/
theorem C05_served_unchanged_by_other_events (ρ : Nat) (s : St) (e : Ev)
    (h : ∀ r, e = .publish r → r.1 ≠ ρ) : served ρ (step s e) = served ρ s := by
  unfold served; rw [served_step_other ρ s e h]

/-- Linearisable, monotone reads: with the reloads of reader `ρ` serialised (the reload mutex),
whatever `searcher()` returned at some point of a disciplined history, every later `searcher()`
returns a commit at least as new — the reader never moves back. -/
theorem C05_served_commit_monotone (ρ : Nat) (t u : List Ev) (hv : valid full (t ++ u) = true)
    (hs : sequential ρ (t ++ u) = true) (a b : Nat) (ha : served ρ (run init t) = some a)
    (hb : served ρ (run init (t ++ u)) = some b) : a ≤ b := by
  have hsorted := C05_sequential_reloads_monotone ρ (t ++ u) hv hs
  obtain ⟨ext, he⟩ := pubs_run_prefix (run init t) u
  rw [← run_append] at he
  have hsplit := pubsOf_of_pubs_append ρ (run init t) (run init (t ++ u)) ext he
  unfold served at ha hb
  rw [hsplit] at hsorted hb
  exact getLast_le_of_pairwise _ _ hsorted a b ha hb

/-- what `searcher()` returns is a whole commit: the served reload's handles are exactly the
files of one meta, all opened successfully -/
theorem C05_served_is_whole_commit (ρ : Nat) (t : List Ev) (hv : valid full t = true) (r : Rid)
    (hr : servedReload ρ (run init t) = some r) :
    ∃ j, ((run init t).rs r).j = some j ∧
      ∀ p, p ∈ (searcherOf (run init t) r).map (·.path) ↔ p ∈ metaFiles (run init t) j := by
  have hm := List.mem_of_getLast? hr
  simp only [List.mem_map, List.mem_filter] at hm
  obtain ⟨⟨r', j⟩, ⟨hmem, _⟩, hrr⟩ := hm
  simp only at hrr
  subst hrr
  exact ⟨j, (C05_reload_whole_commit t hv).2 r' j hmem⟩

/-- warming precedes publication: if reader `ρ` stores only searchers returned by
`create_searcher` (which runs every warmer and propagates their errors before returning), every
searcher `ρ` ever published had been warmed -/
theorem C05_published_searcher_warmed (ρ : Nat) (t : List Ev) (hv : valid full t = true)
    (hw : warmedBeforePublish ρ t = true) (r : Rid) (j : Nat)
    (hm : (r, j) ∈ (run init t).pubs) (hr : r.1 = ρ) : ((run init t).rs r).warmed = true :=
  warm_run ρ init t inv_init (warmInv_init ρ) hv hw r j hm hr

/-- the source has that order: track in the inventory, build, `warm_new_searcher_generation(..)?`,
`Ok(searcher)`; `reload` stores what `create_searcher` returned; the id is recorded before the
warmers run -/
theorem C05_warming_order_in_source :
    Gen.WARM_AFTER_TRACK_BEFORE_RETURN = 1 ∧ Gen.RELOAD_PUBLISHES_CREATED_SEARCHER = 1 ∧
    Gen.WARM_RECORDS_ID_BEFORE_WARMERS = 1 := by decide

/-- Inventory of live generations: a generation that was warmed and of which some searcher is
still alive (in flight, in the ArcSwap slot or held by a client) keeps its warmer artifact, for
every history of reloads, `searcher()` calls, drops and warmer GCs -/
theorem C05_live_generation_keeps_its_artifacts (t : List Gens.GEv) (hv : Gens.gvalid t = true)
    (g : Nat) (hw : g ∈ (Gens.grun Gens.ginit t).everWarmed)
    (hl : Gens.live (Gens.grun Gens.ginit t) g = true) :
    g ∈ (Gens.grun Gens.ginit t).artifacts :=
  (Gens.ginv_run Gens.ginit t Gens.ginv_init hv).kept g hw hl

/-- the list the next `Warmer::garbage_collect` receives contains every live generation -/
theorem C05_warmer_gc_list_has_every_live_generation (t : List Gens.GEv)
    (hv : Gens.gvalid t = true) (g : Nat) (hl : Gens.live (Gens.grun Gens.ginit t) g = true) :
    g ∈ Gens.liveList (Gens.grun Gens.ginit t) :=
  Gens.mem_liveList _ g ((Gens.ginv_run Gens.ginit t Gens.ginv_init hv).bound g hl) hl

/-- generation ids are drawn in increasing order without repetition -/
theorem C05_generation_ids_increasing (t : List Gens.GEv) (hv : Gens.gvalid t = true) :
    (Gens.grun Gens.ginit t).drawn = (List.range (Gens.grun Gens.ginit t).counter).reverse ∧
    (Gens.grun Gens.ginit t).drawn.Nodup := by
  have h := (Gens.ginv_run Gens.ginit t Gens.ginv_init hv).drawn
  refine ⟨h, ?_⟩
  rw [h]
  unfold List.Nodup
  rw [List.pairwise_reverse]
  exact (List.nodup_range (n := (Gens.grun Gens.ginit t).counter)).imp (fun h => Ne.symm h)

/-- the source has the shape the generation model assumes: the tracked object is owned by the
shared inner searcher, and the only `Warmer::garbage_collect` call gets `inventory.list()` -/
theorem C05_generation_bookkeeping_in_source :
    Gen.GENERATION_TRACKED_IN_SEARCHER_INNER = 1 ∧ Gen.WARMER_GC_GETS_INVENTORY_LIST = 1 := by
  decide

/-- Progress: in every disciplined history, a reload that has loaded meta_j and holds META_LOCK
can run to publication — opening each remaining file of meta_j (all present, whatever the writer
and GC have done meanwhile), releasing the lock, warming, publishing — without leaving the
discipline: a reload never *needs* to fail or to wait for the writer. -/
theorem C05_reload_can_always_complete (t : List Ev) (hv : valid full t = true) (r : Rid) (j : Nat)
    (hl : (run init t).lock = some (.reader r)) (hp : ((run init t).rs r).phase = .loaded)
    (hj : ((run init t).rs r).j = some j) :
    valid full (t ++ finish (run init t) r j) = true ∧
    (r, j) ∈ (run init (t ++ finish (run init t) r j)).pubs := by
  have hI := inv_run init t inv_init hv
  obtain ⟨h1, h2⟩ := finish_valid (run init t) r j ⟨hI, hl, hp, hj⟩
  refine ⟨?_, ?_⟩
  · show validFrom full init (t ++ _) = true
    rw [validFrom_append]
    have hv' : validFrom full init t = true := hv
    rw [hv', h1]; rfl
  · rw [run_append]; exact h2

/-- The hypothesis `sequential ρ` is not needed as such: it follows from the mutual exclusion of
the reader's reload mutex and the *local* shape of `reload()` (take the guard, load, publish,
drop the guard) — the shape `C05_reloads_of_one_reader_serialised` reads off the source. -/
theorem C05_mutex_gives_sequential (ρ : Nat) (t : List Ev) (hv : valid full t = true)
    (hm : mutexDisciplined ρ t = true) : sequential ρ t = true :=
  sequential_of_mutex ρ t hv hm

/-- reloads under the reload mutex publish non-decreasing commits (no global hypothesis) -/
theorem C05_reloads_monotone_under_mutex (ρ : Nat) (t : List Ev) (hv : valid full t = true)
    (hm : mutexDisciplined ρ t = true) : List.Pairwise (· ≤ ·) (pubsOf ρ (run init t)) :=
  C05_sequential_reloads_monotone ρ t hv (sequential_of_mutex ρ t hv hm)

/-- … and `searcher()` never moves back -/
theorem C05_served_commit_monotone_under_mutex (ρ : Nat) (t u : List Ev)
    (hv : valid full (t ++ u) = true) (hm : mutexDisciplined ρ (t ++ u) = true) (a b : Nat)
    (ha : served ρ (run init t) = some a) (hb : served ρ (run init (t ++ u)) = some b) : a ≤ b :=
  C05_served_commit_monotone ρ t u hv (sequential_of_mutex ρ (t ++ u) hv hm) a b ha hb

/-- Freshness: a reload reflects every commit that was complete before it started — if meta_k
was the newest meta when reload `r` took META_LOCK, whatever `r` publishes is meta_j with
`k ≤ j` (together with `C05_served_commit_monotone_under_mutex`: once such a reload has
returned, `searcher()` never again shows less than commit `k`). -/
theorem C05_reload_reflects_commits_before_it_started (t1 t2 : List Ev) (r : Rid) (j : Nat)
    (hv : valid full (t1 ++ .acquire r :: t2) = true)
    (hp : (r, j) ∈ (run init (t1 ++ .acquire r :: t2)).pubs) :
    (run init t1).metas.length - 1 ≤ j := by
  have hv' : validFrom full init (t1 ++ .acquire r :: t2) = true := hv
  rw [validFrom_append] at hv'
  simp only [Bool.and_eq_true] at hv'
  obtain ⟨hv1, hv2⟩ := hv'
  have hI1 := inv_run init t1 inv_init hv1
  have hv2' : ok full (run init t1) (.acquire r) = true ∧
      validFrom full (step (run init t1) (.acquire r)) t2 = true := by
    simpa [validFrom, check, Bool.and_eq_true] using hv2
  have hF := fresh_run r _ _ t2 (fresh_after_acquire (run init t1) r hI1) hv2'.2
  have hrun : run init (t1 ++ .acquire r :: t2) = run (step (run init t1) (.acquire r)) t2 := by
    rw [run_append]; rfl
  have hI := inv_run init _ inv_init hv
  rw [hrun] at hp hI
  exact hF.loaded j (hI.pubOk r j hp).2.1

/-- The user-level statement (the oracle of the overlap explorer, as a theorem): under the reload
mutex, once a reload of reader `ρ` that started when meta_k was the newest has published, what
`searcher()` returns at the end of any continuation of the history — however many commits,
merges, GCs and further reloads of `ρ` and of other readers it contains — is a commit `≥ k`. -/
theorem C05_searcher_reflects_commits_before_a_returned_reload (ρ : Nat) (t1 t2 : List Ev)
    (r : Rid) (j b : Nat) (hr : r.1 = ρ) (hv : valid full (t1 ++ .acquire r :: t2) = true)
    (hm : mutexDisciplined ρ (t1 ++ .acquire r :: t2) = true)
    (hp : (r, j) ∈ (run init (t1 ++ .acquire r :: t2)).pubs)
    (hb : served ρ (run init (t1 ++ .acquire r :: t2)) = some b) :
    (run init t1).metas.length - 1 ≤ b := by
  have h1 := C05_reload_reflects_commits_before_it_started t1 t2 r j hv hp
  have hs := C05_reloads_monotone_under_mutex ρ _ hv hm
  have h2 := le_getLast_of_pairwise _ hs j b (mem_pubsOf_of_mem ρ _ r j hp hr) hb
  omega

/-- "for as long as it is held": the handles of a published reload are the same after any
further history (any discipline; commits, merges, GC deletes, other reloads, writer drop) -/
theorem C05_held_searcher_fixed_forever (d : Disc) (s : St) (u : List Ev) (r : Rid)
    (hp : (s.rs r).phase = .published) (hv : validFrom d s u = true) :
    searcherOf (run s u) r = searcherOf s r :=
  (held_fixed_run d s u r (fun s e hp hok => C05_published_handles_fixed d s e r hp hok) hp hv).1

/-! ### the main theorems with the discipline read off the source instead of assumed -/

theorem C05_reload_whole_commit_of_source (t : List Ev) (hv : valid codeDisc t = true) :
    (run init t).badOpens = [] ∧
    ∀ r j, (r, j) ∈ (run init t).pubs →
      ((run init t).rs r).j = some j ∧
      ∀ p, p ∈ (searcherOf (run init t) r).map (·.path) ↔ p ∈ metaFiles (run init t) j := by
  rw [C05_code_follows_discipline] at hv
  exact C05_reload_whole_commit t hv

theorem C05_no_uncommitted_of_source (t : List Ev) (hv : valid codeDisc t = true) (r : Rid)
    (h : Handle) (hh : h ∈ searcherOf (run init t) r) : ¬ uncommitted (run init t) h.path := by
  rw [C05_code_follows_discipline] at hv
  exact (C05_no_uncommitted t hv r h hh).2

theorem C05_served_commit_monotone_of_source (ρ : Nat) (t u : List Ev)
    (hv : valid codeDisc (t ++ u) = true) (hs : sequential ρ (t ++ u) = true) (a b : Nat)
    (ha : served ρ (run init t) = some a) (hb : served ρ (run init (t ++ u)) = some b) : a ≤ b := by
  rw [C05_code_follows_discipline] at hv
  exact C05_served_commit_monotone ρ t u hv hs a b ha hb

/-! non-vacuity of the new statements -/

example :
    let t : List Ev :=
      [.create 1 10, .saveMeta [1], .acquire (3, 0), .loadMeta (3, 0), .openFile (3, 0) 1,
       .release (3, 0), .warm (3, 0), .publish (3, 0)]
    let u : List Ev :=
      [.create 2 20, .saveMeta [1, 2], .acquire (3, 1), .loadMeta (3, 1), .openFile (3, 1) 2,
       .openFile (3, 1) 1, .release (3, 1), .warm (3, 1), .publish (3, 1)]
    valid full (t ++ u) = true ∧ sequential 3 (t ++ u) = true ∧
      warmedBeforePublish 3 (t ++ u) = true ∧ served 3 (run init t) = some 1 ∧
      served 3 (run init (t ++ u)) = some 2 ∧ servedReload 3 (run init (t ++ u)) = some (3, 1) := by
  decide

/-- a reload pre-empted after its first open while a merge is published: what is left to do -/
example :
    let t : List Ev :=
      [.create 1 10, .create 2 11, .saveMeta [1, 2], .acquire (7, 0), .loadMeta (7, 0),
       .openFile (7, 0) 1, .create 3 30, .saveMeta [3]]
    valid full t = true ∧ (run init t).lock = some (.reader (7, 0)) ∧
      finish (run init t) (7, 0) 1 =
        [.openFile (7, 0) 2, .release (7, 0), .warm (7, 0), .publish (7, 0)] := by
  decide

/-- two reloads of reader 3 under its mutex, racing a writer; and the overlapping schedule of
`C05_concurrent_reloads_counterexample` cannot be completed with mutex events: the second
`mLock` is refused while the first reload holds the mutex -/
example :
    let t : List Ev :=
      [.create 1 10, .saveMeta [1], .mLock (3, 0), .acquire (3, 0), .loadMeta (3, 0),
       .openFile (3, 0) 1, .release (3, 0), .create 2 20, .saveMeta [1, 2], .warm (3, 0),
       .publish (3, 0), .mUnlock (3, 0),
       .mLock (3, 1), .acquire (3, 1), .loadMeta (3, 1), .openFile (3, 1) 2, .openFile (3, 1) 1,
       .release (3, 1), .warm (3, 1), .publish (3, 1), .mUnlock (3, 1)]
    valid full t = true ∧ mutexDisciplined 3 t = true ∧ pubsOf 3 (run init t) = [1, 2] ∧
    mutexDisciplined 0 [.create 1 10, .saveMeta [1], .mLock (0, 0), .acquire (0, 0),
      .loadMeta (0, 0), .openFile (0, 0) 1, .release (0, 0), .create 2 20, .saveMeta [1, 2],
      .mLock (0, 1), .acquire (0, 1)] = false := by
  decide

/-- a searcher published on meta_1 and held while its files are merged away and deleted -/
example :
    let t : List Ev :=
      [.create 1 10, .saveMeta [1], .acquire (0, 0), .loadMeta (0, 0), .openFile (0, 0) 1,
       .release (0, 0), .warm (0, 0), .publish (0, 0)]
    let u : List Ev :=
      [.create 2 20, .saveMeta [2], .gcAcquire, .gcList [2], .gcRelease, .gcDelete 1]
    ((run init t).rs (0, 0)).phase = .published ∧ validFrom full (run init t) u = true ∧
      (run (run init t) u).deleted = [1] ∧ searcherOf (run (run init t) u) (0, 0) = [⟨1, 10⟩] := by
  decide

/-- a publication without warming is what `warmedBeforePublish` excludes -/
example : warmedBeforePublish 3 [.create 1 10, .saveMeta [1], .acquire (3, 0), .loadMeta (3, 0),
    .openFile (3, 0) 1, .release (3, 0), .publish (3, 0)] = false := by decide

example :
    let t : List Gens.GEv :=
      [.track, .warm 0, .store 0, .take, .track, .warm 1, .store 1, .warmGc, .drop 0, .warmGc]
    Gens.gvalid t = true ∧ (Gens.grun Gens.ginit t).gcCalls = [[1]] ∧
      (Gens.grun Gens.ginit t).artifacts = [1] ∧ Gens.live (Gens.grun Gens.ginit t) 1 = true ∧
      Gens.live (Gens.grun Gens.ginit t) 0 = false := by
  decide

/-- while the client still holds generation 0 the warmers are not even asked -/
example : (Gens.grun Gens.ginit [.track, .warm 0, .store 0, .take, .track, .warm 1, .store 1,
    .warmGc]).artifacts = [1, 0] := by decide

end TantivyModel.C05
