import TantivyModel.Proofs.Columnar.Mapping
import TantivyModel.Proofs.Columnar.Linear
/-!
# C08 — Fast fields return exactly the values that were indexed

Property theorems only (helper lemmas live in `Proofs/Columnar/`). Bytes are naturals `< 256`,
`u64` values naturals `< 2^64`; wrapping arithmetic of the linear codecs is on `BitVec 64`.
The constants and the closed functions `i64_to_u64`, `f64_to_u64`, `is_sparse`, … come from
`Gen/Columnar.lean`, regenerated from the Rust sources on every run.
-/
namespace TantivyModel.C08
open TantivyModel TantivyModel.Columnar

/-! ## bit packer -/

/-- `BitPacker::write*/close` (every width 0..64): the bytes written are the little-endian digits of
`Σ vᵢ·2^(i·w)`, nothing else, and exactly `⌈n·w/8⌉` of them. -/
theorem C08_bitpacker_stream (w : Nat) (hw : w ≤ 64) (vals : List Nat) (h : ∀ v ∈ vals, v < 2 ^ w) :
    leNat (pack w vals) = packNat w vals ∧ (∀ b ∈ pack w vals, b < 256)
      ∧ (pack w vals).length = (w * vals.length + 7) / 8 :=
  pack_spec w hw vals h

/-- `BitUnpacker::get`: for every width the unpacker accepts (`≤ 56` or `64`, the guard of
`BitUnpacker::new`), every value list with values `< 2^width` and every position, `get i` is the
i-th value written. -/
theorem C08_bitpacker_roundtrip (w : Nat) (hw : unpackerWidthOk w = true) (vals : List Nat)
    (h : ∀ v ∈ vals, v < 2 ^ w) (i : Nat) (hi : i < vals.length) :
    unpackGet w i (pack w vals) = vals[i] :=
  unpack_pack w hw vals h i hi

/-- the same read is not disturbed by whatever bytes follow a byte-aligned stream (next block of
the blockwise codec, footer, padding) -/
theorem C08_bitpacker_roundtrip_followed (w : Nat) (hw : unpackerWidthOk w = true) (vals : List Nat)
    (h : ∀ v ∈ vals, v < 2 ^ w) (rest : Bytes) (hrest : ∀ b ∈ rest, b < 256)
    (hfull : 8 ∣ w * vals.length) (i : Nat) (hi : i < vals.length) :
    unpackGet w i (pack w vals ++ rest) = vals[i] :=
  unpackGet_append w hw vals h rest hrest hfull i hi

/-- `compute_num_bits` always yields a width the unpacker accepts and that holds the amplitude -/
theorem C08_num_bits_sufficient (n : Nat) (hn : n < 2 ^ 64) :
    unpackerWidthOk (computeNumBits n) = true ∧ n < 2 ^ computeNumBits n :=
  ⟨computeNumBits_ok n, lt_two_pow_computeNumBits n hn⟩

example : unpackGet 3 4 (pack 3 [1, 2, 3, 4, 5, 6, 7, 0, 1]) = 5 := by decide
example : pack 3 [1, 2, 3, 4, 5, 6, 7, 0, 1] = [0xd1, 0x58, 0x1f, 0x01] := by decide
example : unpackGet 64 1 (pack 64 [7, 2 ^ 64 - 1]) = 2 ^ 64 - 1 := by decide

/-! ## statistics -/

/-- `StatsCollector`: `min ≤ v ≤ max` for every stored value, both are attained, the row count is
the number of values, and `gcd` (never 0) divides every `v − min`. -/
theorem C08_stats_bound (vals : List Nat) :
    (collectStats vals).numRows = vals.length ∧ (collectStats vals).gcd ≠ 0 ∧
    (∀ v ∈ vals, (collectStats vals).min ≤ v ∧ v ≤ (collectStats vals).max
        ∧ (collectStats vals).gcd ∣ v - (collectStats vals).min) ∧
    (vals ≠ [] → (collectStats vals).min ∈ vals ∧ (collectStats vals).max ∈ vals) :=
  collectStats_spec vals

example : collectStats [1000, 4000, 2500] = { gcd := 1500, min := 1000, max := 4000, numRows := 3 } := by decide

/-! ## codecs -/

/-- bitpacked codec with min/gcd normalisation: `min + gcd · unpack((v − min)/gcd) = v` for every
column of u64 values and every row -/
theorem C08_bitpacked_exact (vals : List Nat) (hv : ∀ v ∈ vals, v < 2 ^ 64) (i : Nat) (hi : i < vals.length) :
    bitpackedGet (collectStats vals) (bitpackedPayload (collectStats vals) vals) i = vals[i] :=
  bitpacked_exact vals hv i hi

/-- linear codec, in `BitVec 64`: exact for every column, every row and *every* estimation line
(whatever `Line::train` returns): the stored offset is `deviationᵢ − min_deviation`, which lies
in `[0, max_deviation − min_deviation]` and therefore fits the chosen width; the `HALF_SPACE`
shift of the intercept cancels. -/
theorem C08_linear_exact (l : Line) (vals : List Nat) (hv : ∀ v ∈ vals, v < 2 ^ 64) (i : Nat)
    (hi : i < vals.length) :
    linearGet (linearEncWith l vals).1 (linearEncWith l vals).2.1 (linearEncWith l vals).2.2 i = vals[i] :=
  linear_exact l vals hv i hi

example : (List.range 4).map (linearGet (linearEncWith (Line.train [10, 7, 4, 1]) [10, 7, 4, 1]).1
    (linearEncWith (Line.train [10, 7, 4, 1]) [10, 7, 4, 1]).2.1
    (linearEncWith (Line.train [10, 7, 4, 1]) [10, 7, 4, 1]).2.2) = [10, 7, 4, 1] := by decide

/-! ## monotone mappings (functions extracted from common/src/lib.rs) -/

/-- `i64_to_u64` is the signed value shifted by `2^63`, hence strictly monotone for the signed
order, and `u64_to_i64` is its two-sided inverse; `f64_to_u64` is the IEEE total-order key
(`f64Key`: −∞ < … < −0 < +0 < … < +∞) shifted by `2^63`, hence strictly monotone and injective on
NaN-free floats, and `u64_to_f64` is its two-sided inverse. -/
theorem C08_monotonic_mappings :
    (∀ a b : BitVec 64, (Gen.i64_to_u64 a).toNat < (Gen.i64_to_u64 b).toNat ↔ a.toInt < b.toInt) ∧
    (∀ a : BitVec 64, Gen.u64_to_i64 (Gen.i64_to_u64 a) = a ∧ Gen.i64_to_u64 (Gen.u64_to_i64 a) = a) ∧
    (∀ a b : BitVec 64, (Gen.f64_to_u64 a).toNat < (Gen.f64_to_u64 b).toNat ↔ f64Key a < f64Key b) ∧
    (∀ a : BitVec 64, Gen.u64_to_f64 (Gen.f64_to_u64 a) = a ∧ Gen.f64_to_u64 (Gen.u64_to_f64 a) = a) := by
  refine ⟨?_, fun a => ⟨u64_to_i64_i64_to_u64 a, i64_to_u64_u64_to_i64 a⟩, ?_,
    fun a => ⟨u64_to_f64_f64_to_u64 a, f64_to_u64_u64_to_f64 a⟩⟩
  · intro a b
    have ha := i64_to_u64_toNat a
    have hb := i64_to_u64_toNat b
    omega
  · intro a b
    have ha := f64_to_u64_toNat a
    have hb := f64_to_u64_toNat b
    omega

-- −0.0 (0x8000…) sorts just below +0.0 (0); −∞ (0xFFF0…) below −1.0 (0xBFF0…)
example : (Gen.f64_to_u64 0x8000000000000000#64).toNat + 1 = (Gen.f64_to_u64 0#64).toNat := by decide
example : (Gen.f64_to_u64 0xFFF0000000000000#64).toNat < (Gen.f64_to_u64 0xBFF0000000000000#64).toNat := by decide
example : Gen.i64_to_u64 0x8000000000000000#64 = 0#64 := by decide

end TantivyModel.C08
