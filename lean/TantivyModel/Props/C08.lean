import TantivyModel.Proofs.PureFns
import TantivyModel.Proofs.Columnar.Mapping
import TantivyModel.Proofs.Columnar.LinearColumn
import TantivyModel.Proofs.Columnar.RangeU32
import TantivyModel.Proofs.Columnar.RangeLookupMain
import TantivyModel.Proofs.Columnar.CompactGaps
import TantivyModel.Proofs.Columnar.CompactRange
import TantivyModel.Proofs.Columnar.CompactColumnMain
import TantivyModel.Proofs.Columnar.StackMissing
import TantivyModel.Proofs.Columnar.Writer
import TantivyModel.Proofs.Columnar.OptRankSelect
import TantivyModel.Proofs.Columnar.DictColumn
import TantivyModel.Proofs.Columnar.DictStack
import TantivyModel.Proofs.Columnar.DictKept
import TantivyModel.Proofs.Columnar.ColumnFile
import TantivyModel.Proofs.Columnar.FileEndToEnd
import TantivyModel.Proofs.Columnar.StackFile
/-!
# C08 — Fast fields return exactly the values that were indexed

Property theorems only (helper lemmas live in `Proofs/Columnar/`). Bytes are naturals `< 256`,
`u64` values naturals `< 2^64`; wrapping arithmetic of the linear codecs is on `BitVec 64`.
The constants and the closed functions `i64_to_u64`, `f64_to_u64`, `is_sparse`, … come from
`Gen/Columnar.lean`, regenerated from the Rust sources on every run.
-/
namespace TantivyModel.C08
open TantivyModel TantivyModel.Columnar

/-! ## bit packer -/

/-- `BitPacker::write*/close` (every width 0..64): the bytes written are the little-endian digits of
`Σ vᵢ·2^(i·w)`, nothing else, and exactly `⌈n·w/8⌉` of them. -/
theorem C08_bitpacker_stream (w : Nat) (hw : w ≤ 64) (vals : List Nat) (h : ∀ v ∈ vals, v < 2 ^ w) :
    leNat (pack w vals) = packNat w vals ∧ (∀ b ∈ pack w vals, b < 256)
      ∧ (pack w vals).length = (w * vals.length + 7) / 8 :=
  pack_spec w hw vals h

/-- `BitUnpacker::get`: for every width the unpacker accepts (`≤ 56` or `64`, the guard of
`BitUnpacker::new`), every value list with values `< 2^width` and every position, `get i` is the
i-th value written. -/
theorem C08_bitpacker_roundtrip (w : Nat) (hw : unpackerWidthOk w = true) (vals : List Nat)
    (h : ∀ v ∈ vals, v < 2 ^ w) (i : Nat) (hi : i < vals.length) :
    unpackGet w i (pack w vals) = vals[i] :=
  unpack_pack w hw vals h i hi

/-- the same read is not disturbed by whatever bytes follow a byte-aligned stream (next block of
the blockwise codec, footer, padding) -/
theorem C08_bitpacker_roundtrip_followed (w : Nat) (hw : unpackerWidthOk w = true) (vals : List Nat)
    (h : ∀ v ∈ vals, v < 2 ^ w) (rest : Bytes) (hrest : ∀ b ∈ rest, b < 256)
    (hfull : 8 ∣ w * vals.length) (i : Nat) (hi : i < vals.length) :
    unpackGet w i (pack w vals ++ rest) = vals[i] :=
  unpackGet_append w hw vals h rest hrest hfull i hi

/-- `BitUnpacker::get_ids_for_value_range`, u32 fast path: the guard on the range start and the
conversion of the u64 query range to u32 are the *source expressions* (translated by rs2lean into
`Gen.range_lookup_*` on every run). Clamp-then-narrow is exact: for every stored value `x < 2^32`,
either the start is beyond `u32::MAX` and nothing can match, or `lo ≤ x ≤ hi` holds exactly when
`x` lies in the converted u32 range. (Narrowing before clamping is not: see the example.) -/
theorem C08_range_u32_conversion_exact (lo hi x : Nat) (hlo : lo < 2 ^ 64) (hhi : hi < 2 ^ 64) (hx : x < 2 ^ 32) :
    (Gen.range_lookup_start_too_big (BitVec.ofNat 64 lo) (BitVec.ofNat 64 hi) = true → ¬ lo ≤ x) ∧
    (Gen.range_lookup_start_too_big (BitVec.ofNat 64 lo) (BitVec.ofNat 64 hi) = false →
      ((lo ≤ x ∧ x ≤ hi) ↔
        ((Gen.range_lookup_start_u32 (BitVec.ofNat 64 lo) (BitVec.ofNat 64 hi)).toNat ≤ x ∧
          x ≤ (Gen.range_lookup_end_u32 (BitVec.ofNat 64 lo) (BitVec.ofNat 64 hi)).toNat))) :=
  range_u32_exact lo hi x hlo hhi hx

/-- the whole `get_ids_for_value_range` (slow u64 path for widths above 32, converted u32 path
otherwise) on a packed stream, possibly followed by other bytes: exactly the positions of `s..e`
whose value lies in `lo..=hi`, for every accepted width, every value list and every query range -/
theorem C08_bitunpacker_range_lookup (w : Nat) (hw : unpackerWidthOk w = true) (vals : List Nat)
    (h : ∀ v ∈ vals, v < 2 ^ w) (rest : Bytes) (hrest : ∀ b ∈ rest, b < 256)
    (lo hi s e : Nat) (hlo : lo < 2 ^ 64) (hhi : hi < 2 ^ 64) (he : e ≤ vals.length) :
    unpackRangeIds w (pack w vals ++ rest) lo hi s e
      = (List.range' s (e - s)).filter (fun i => decide (lo ≤ vals.getD i 0) && decide (vals.getD i 0 ≤ hi)) :=
  unpackRangeIds_spec w hw vals h rest hrest lo hi s e hlo hhi he

example : unpackRangeIds 3 (pack 3 [1, 2, 3, 4, 5, 0]) 2 4 1 6 = [1, 2, 3] := by decide
-- a range end above u32::MAX is clamped to u32::MAX (truncating it first would give 5)
example : (Gen.range_lookup_end_u32 0#64 (BitVec.ofNat 64 (2 ^ 32 + 5))).toNat = 4294967295
    ∧ unpackRangeIds 4 (pack 4 [9, 3]) 0 (2 ^ 32 + 5) 0 2 = [0, 1] := by decide

/-- `compute_num_bits` always yields a width the unpacker accepts and that holds the amplitude -/
theorem C08_num_bits_sufficient (n : Nat) (hn : n < 2 ^ 64) :
    unpackerWidthOk (computeNumBits n) = true ∧ n < 2 ^ computeNumBits n :=
  ⟨computeNumBits_ok n, lt_two_pow_computeNumBits n hn⟩

example : unpackGet 3 4 (pack 3 [1, 2, 3, 4, 5, 6, 7, 0, 1]) = 5 := by decide
example : pack 3 [1, 2, 3, 4, 5, 6, 7, 0, 1] = [0xd1, 0x58, 0x1f, 0x01] := by decide
example : unpackGet 64 1 (pack 64 [7, 2 ^ 64 - 1]) = 2 ^ 64 - 1 := by decide

/-! ## statistics -/

/-- `StatsCollector`: `min ≤ v ≤ max` for every stored value, both are attained, the row count is
the number of values, and `gcd` (never 0) divides every `v − min`. -/
theorem C08_stats_bound (vals : List Nat) :
    (collectStats vals).numRows = vals.length ∧ (collectStats vals).gcd ≠ 0 ∧
    (∀ v ∈ vals, (collectStats vals).min ≤ v ∧ v ≤ (collectStats vals).max
        ∧ (collectStats vals).gcd ∣ v - (collectStats vals).min) ∧
    (vals ≠ [] → (collectStats vals).min ∈ vals ∧ (collectStats vals).max ∈ vals) :=
  collectStats_spec vals

example : collectStats [1000, 4000, 2500] = { gcd := 1500, min := 1000, max := 4000, numRows := 3 } := by decide

/-! ## codecs -/

/-- bitpacked codec with min/gcd normalisation: `min + gcd · unpack((v − min)/gcd) = v` for every
column of u64 values and every row -/
theorem C08_bitpacked_exact (vals : List Nat) (hv : ∀ v ∈ vals, v < 2 ^ 64) (i : Nat) (hi : i < vals.length) :
    bitpackedGet (collectStats vals) (bitpackedPayload (collectStats vals) vals) i = vals[i] :=
  bitpacked_exact vals hv i hi

/-- a whole bitpacked column through its real byte layout — codec byte, VInt-encoded stats header
(min, gcd, amplitude/gcd, rows), bit-packed payload: `load(serialize(vals)) = vals` for every
column of at most `u32::MAX` u64 values (includes the VInt and header round trips) -/
theorem C08_bitpacked_column_roundtrip (vals : List Nat) (hv : ∀ v ∈ vals, v < 2 ^ 64)
    (hlen : vals.length < 2 ^ 32) :
    decodeU64Column (0 :: bitpackedEnc vals) = some vals :=
  bitpacked_column_roundtrip vals hv hlen

example : (0 :: bitpackedEnc [10, 20, 40]) = [0, 0x8a, 0x8a, 0x83, 0x83, 0x34] := by decide

/-- the invariant of `LinearCodecEstimator`'s pass over the column, for the update step as the
source has it now (`Gen.linearDevStep` is translated from `collect_after_line_estimation` on every
run): starting from `(u64::MAX, 0)`, after the pass `min_deviation ≤ deviationᵢ ≤ max_deviation`
for every row — the first row included. This is what makes every residual
`deviationᵢ − min_deviation` fit `compute_num_bits(max_deviation − min_deviation)`. -/
theorem C08_linear_estimator_invariant (devs : List Nat) :
    ∀ d ∈ devs, (devBounds devs).1 ≤ d ∧ d ≤ (devBounds devs).2 :=
  devBounds_spec devs

example : devBounds [7, 3, 5] = (3, 7) ∧ devBounds [9] = (9, 9) := by decide

/-- linear codec, in `BitVec 64`: exact for every column, every row and *every* estimation line
(whatever `Line::train` returns): the stored offset is `deviationᵢ − min_deviation`, which lies
in `[0, max_deviation − min_deviation]` and therefore fits the chosen width; the `HALF_SPACE`
shift of the intercept cancels. -/
theorem C08_linear_exact (l : Line) (vals : List Nat) (hv : ∀ v ∈ vals, v < 2 ^ 64) (i : Nat)
    (hi : i < vals.length) :
    linearGet (linearEncWith l vals).1 (linearEncWith l vals).2.1 (linearEncWith l vals).2.2 i = vals[i] :=
  linear_exact l vals hv i hi

example : (List.range 4).map (linearGet (linearEncWith (Line.train [10, 7, 4, 1]) [10, 7, 4, 1]).1
    (linearEncWith (Line.train [10, 7, 4, 1]) [10, 7, 4, 1]).2.1
    (linearEncWith (Line.train [10, 7, 4, 1]) [10, 7, 4, 1]).2.2) = [10, 7, 4, 1] := by decide

/-- blockwise-linear codec across blocks and its footer, through the real byte layout: stats
header; one bit packer shared by all 512-row blocks (empty again at every block boundary because
512·w bits are whole 64-bit words, so the stream is the concatenation of the blocks' streams and
block `b` starts at `Σ w·512/8`); per block (VInt slope, VInt intercept, width byte); footer length
as u32 LE: `load (serialize vals) = vals` for every column of at most `u32::MAX` u64 values. -/
theorem C08_blockwise_exact (vals : List Nat) (hv : ∀ v ∈ vals, v < 2 ^ 64) (hlen : vals.length < 2 ^ 32) :
    decodeU64Column (2 :: blockwiseEnc vals) = some vals :=
  blockwise_column_roundtrip vals hv hlen

/-- the linear codec through its byte layout (stats header, VInt line, width byte, payload), whenever
it is applicable (at least `LINE_ESTIMATION_BLOCK_LEN` values) -/
theorem C08_linear_column_roundtrip (vals : List Nat) (hv : ∀ v ∈ vals, v < 2 ^ 64) (hlen : vals.length < 2 ^ 32)
    (bytes : Bytes) (henc : linearEnc vals = some bytes) : decodeU64Column (1 :: bytes) = some vals :=
  linear_column_roundtrip vals hv hlen bytes henc

/-- one block of the blockwise-linear codec, for every line: normalised values `(v − min)/gcd`,
offsets written with the block's maximal `compute_num_bits`, read back exactly also when more bytes
follow the byte-aligned stream -/
theorem C08_blockwise_block (s : Stats) (hg : s.gcd ≠ 0) (block : List Nat) (rest : Bytes)
    (hrest : ∀ b ∈ rest, b < 256)
    (hv : ∀ v ∈ block, s.min ≤ v ∧ v < 2 ^ 64 ∧ s.gcd ∣ v - s.min)
    (hfull : 8 ∣ (bwBlockEnc s block).1.width * block.length)
    (i : Nat) (hi : i < block.length) :
    s.min + (BitVec.ofNat 64 s.gcd * ((bwBlockEnc s block).1.line.eval i + BitVec.ofNat 64
        (unpackGet (bwBlockEnc s block).1.width i
          (pack (bwBlockEnc s block).1.width (bwBlockEnc s block).2 ++ rest)))).toNat = block[i] :=
  blockwise_block_exact s hg block rest hrest hv (Or.inl hfull) i hi

example : decodeU64Column (2 :: blockwiseEnc [100, 103, 109, 106]) = some [100, 103, 109, 106] := by decide

/-- codec choice is irrelevant: whichever codec `serialize_u64_based_column_values` picks among the
applicable ones (any estimate, any codec list), loading the bytes gives the indexed values — all
three serialized forms decode to the same column. -/
theorem C08_codec_choice_irrelevant (vals : List Nat) (hv : ∀ v ∈ vals, v < 2 ^ 64) (hlen : vals.length < 2 ^ 32)
    (codec : Nat) (bytes : Bytes) (henc : encodeU64Column codec vals = some bytes) :
    decodeU64Column bytes = some vals := by
  unfold encodeU64Column at henc
  split at henc
  · cases henc; exact bitpacked_column_roundtrip vals hv hlen
  · cases h : linearEnc vals with
    | none => rw [h] at henc; cases henc
    | some b => rw [h] at henc; cases henc; exact linear_column_roundtrip vals hv hlen b h
  · cases henc; exact blockwise_column_roundtrip vals hv hlen
  · cases henc

/-! ## compact space (u128 columns: IP addresses) -/

/-- the facts behind both compact-space theorems: `vals` = the sorted, deduplicated values of the
column; `sel` = whatever non-empty selection of the candidate blanks (below the minimum, between
consecutive values, above the maximum) the cost heuristic of `get_compact_space` makes, in the
order `finish` sorts them. Then the covered space is well formed and covers every value. -/
theorem C08_compact_space_covers (vals : List Nat) (hs : vals.Pairwise (· < ·)) (hmax : ∀ v ∈ vals, v ≤ U128MAX)
    (sel : List (Nat × Nat)) (hsub : sel.Sublist (allGaps vals)) (hne : sel ≠ []) :
    ValidRanges (coveredOf sel) ∧ ∀ v ∈ vals, Covered (coveredOf sel) v := by
  obtain ⟨hout, hvalid⟩ := allGaps_spec vals hs hmax
  have hvb := validBlanks_sublist hsub hvalid
  have hcov : coveredOf sel = coveredFrom 0 sel := by
    unfold coveredOf
    cases sel with
    | nil => exact absurd rfl hne
    | cons b bs => rfl
  rw [hcov]
  exact ⟨coveredFrom_valid 0 sel hvb, fun v hv => coveredFrom_covers 0 sel hvb v (Nat.zero_le _) (hmax v hv)
    (fun b hb => hout b (hsub.subset hb) v hv)⟩

/-- compact-space codec: whichever blanks are removed, every row of the column (values in any order,
with repetitions) reads back exactly — `compact_to_u128 (unpack i) = vals[i]` — also with the
footer bytes following the bit-packed compact values -/
theorem C08_compact_space_exact (vals : List Nat) (hs : vals.Pairwise (· < ·)) (hmax : ∀ v ∈ vals, v ≤ U128MAX)
    (sel : List (Nat × Nat)) (hsub : sel.Sublist (allGaps vals)) (hne : sel ≠ [])
    (hamp : amplitude (coveredOf sel) < 2 ^ 64)
    (col : List Nat) (hcol : ∀ v ∈ col, v ∈ vals) (rest : Bytes) (hrest : ∀ b ∈ rest, b < 256)
    (i : Nat) (hi : i < col.length) :
    fromCompact (coveredOf sel)
      (unpackGet (computeNumBits (amplitude (coveredOf sel))) i (compactPayload (coveredOf sel) col ++ rest)) = col[i] := by
  obtain ⟨hv, hc⟩ := C08_compact_space_covers vals hs hmax sel hsub hne
  exact compact_codec_exact _ hv hamp col (fun v hvm => hc v (hcol v hvm)) rest hrest i hi

/-- the mapping value ↦ compact value is defined on every value, inverted by `compact_to_u128`, and
strictly monotone — so comparisons and range lookups on compact values are comparisons on the
original u128 values -/
theorem C08_compact_space_order_preserving (vals : List Nat) (hs : vals.Pairwise (· < ·))
    (hmax : ∀ v ∈ vals, v ≤ U128MAX) (sel : List (Nat × Nat)) (hsub : sel.Sublist (allGaps vals)) (hne : sel ≠ []) :
    (∀ v ∈ vals, ∃ c, toCompact (coveredOf sel) v = some c ∧ 1 ≤ c ∧ c ≤ amplitude (coveredOf sel)
        ∧ fromCompact (coveredOf sel) c = v) ∧
    (∀ v1 v2 c1 c2, v1 < v2 → toCompact (coveredOf sel) v1 = some c1 → toCompact (coveredOf sel) v2 = some c2 → c1 < c2) := by
  obtain ⟨hv, hc⟩ := C08_compact_space_covers vals hs hmax sel hsub hne
  refine ⟨?_, fun v1 v2 c1 c2 hlt h1 h2 => toCompactFrom_mono _ hv 1 v1 v2 c1 c2 hlt h1 h2⟩
  intro v hvm
  obtain ⟨c, h1, h2, h3, h4⟩ := toCompactFrom_spec _ hv 1 v (hc v hvm)
  exact ⟨c, h1, h2, by omega, h4⟩

/-- a whole compact-space (IP) column through its real byte layout — header (VInt num_vals, codec 1),
bit-packed compact values, footer (u64 flags, VIntU128 min / max / num_vals, u8 num_bits, VInt
number of ranges, delta-coded VIntU128 range bounds), footer length as u32 LE — for whatever blanks
the cost heuristic removed: `open_u128_mapped (serialize vals)` succeeds, recovers the compact
space, and every row reads back exactly. (At most 10^8 ranges so that the footer length fits the
trailing u32; the amplitude must fit u64 — the real code asserts `≤ 32` bits.) -/
theorem C08_compact_column_roundtrip (vals : List Nat) (hs : vals.Pairwise (· < ·)) (hmax : ∀ v ∈ vals, v ≤ U128MAX)
    (sel : List (Nat × Nat)) (hsub : sel.Sublist (allGaps vals)) (hne : sel ≠ [])
    (hnr : (coveredOf sel).length ≤ 100000000) (hamp : amplitude (coveredOf sel) < 2 ^ 64)
    (col : List Nat) (hcol : ∀ v ∈ col, v ∈ vals) (hlen : col.length < 2 ^ 32) :
    ∃ c, openU128Column (ipColumnEnc (coveredOf sel) col) = some c ∧ c.numVals = col.length
      ∧ c.ranges = coveredOf sel ∧ ∀ i (hi : i < col.length), c.get i = col[i] := by
  obtain ⟨hv, hc⟩ := C08_compact_space_covers vals hs hmax sel hsub hne
  have hrmax : ∀ r ∈ coveredOf sel, r.2 ≤ U128MAX := by
    obtain ⟨_, hvalid⟩ := allGaps_spec vals hs hmax
    have hvb := validBlanks_sublist hsub hvalid
    have hcov : coveredOf sel = coveredFrom 0 sel := by
      unfold coveredOf
      cases sel with
      | nil => exact absurd rfl hne
      | cons b bs => rfl
    rw [hcov]
    exact coveredFrom_le_max 0 sel hvb
  exact compact_column_roundtrip _ hv hrmax hnr hamp col (fun v hvm => hc v (hcol v hvm)) hlen

example : (openU128Column (ipColumnEnc [(5, 100), (2 ^ 128 - 1, 2 ^ 128 - 1)] [100, 5, 2 ^ 128 - 1])).map
    (fun c => (List.range 3).map c.get) = some [100, 5, 2 ^ 128 - 1] := by decide

/-- range lookup on a compact-space column (`CompactSpaceDecompressor::get_row_ids_for_value_range`):
the u128 query range is converted to a compact range — an end that is covered maps to its compact
value, a start in a gap moves up to the next range's `compact_start`, an end in a gap moves down
to the previous range's `compact_end`, both ends in the same gap (or an empty range) match nothing
— and the positions whose compact value lies in it are exactly the positions of `s..e` whose
original value lies in `lo..=hi`. -/
theorem C08_compact_space_range_lookup (vals : List Nat) (hs : vals.Pairwise (· < ·)) (hmax : ∀ v ∈ vals, v ≤ U128MAX)
    (sel : List (Nat × Nat)) (hsub : sel.Sublist (allGaps vals)) (hne : sel ≠ [])
    (col : List Nat) (hcol : ∀ v ∈ col, v ∈ vals) (lo hi s e : Nat) :
    compactRangeRows (coveredOf sel) (col.map (fun v => (toCompact (coveredOf sel) v).getD 0)) lo hi s e
      = (List.range' s (min e col.length - s)).filter (fun i => decide (lo ≤ col.getD i 0) && decide (col.getD i 0 ≤ hi)) := by
  obtain ⟨hv, hc⟩ := C08_compact_space_covers vals hs hmax sel hsub hne
  exact compactRangeRows_spec _ hv col (fun v hvm => hc v (hcol v hvm)) lo hi s e

example : compactRange [(5, 100), (200, 300)] 101 199 = none
    ∧ compactRange [(5, 100), (200, 300)] 50 250 = some (46, 147)
    ∧ compactRange [(5, 100), (200, 300)] 150 1000 = some (97, 197)
    ∧ compactRangeRows [(5, 100), (200, 300)] [46, 97, 1, 147] 60 200 0 4 = [1] := by decide

example : allGaps [5, 6, 100, 2 ^ 128 - 1] = [(0, 4), (7, 99), (101, 2 ^ 128 - 2)] := by decide
example : coveredOf [(0, 4), (101, 2 ^ 128 - 2)] = [(5, 100), (2 ^ 128 - 1, 2 ^ 128 - 1)]
    ∧ toCompact [(5, 100), (2 ^ 128 - 1, 2 ^ 128 - 1)] 100 = some 96
    ∧ toCompact [(5, 100), (2 ^ 128 - 1, 2 ^ 128 - 1)] (2 ^ 128 - 1) = some 97
    ∧ fromCompact [(5, 100), (2 ^ 128 - 1, 2 ^ 128 - 1)] 97 = 2 ^ 128 - 1 := by decide

/-! ## optional index -/

/-- the optional index on its real byte layout (VInt row count; per 65 536-row block either sorted
u16 LE or 1024 mini blocks of 64-bit bitvec + u16 rank offset; block metadata; block count): for
every strictly increasing set of rows below `numRows`, `open (serialize rows)` succeeds and
`rank d` = number of members below `d` (every `d`, also beyond the last row), `rank_if_exists d` =
`some (rank d)` exactly on members, `select k` = the k-th member — with `find_block` started at 0
(`OptionalIndex::select`, used by `MultiValueIndex::select_batch_in_place`) or at any cursor block
not beyond the answer (`OptionalIndexSelectCursor`) — and `select (rank r) = r` on members.
(`numRows ≤ 65535·65536`: the number of non-empty blocks must fit the trailing u16.) -/
theorem C08_optional_rank_select (rows : List Nat) (numRows : Nat)
    (hs : rows.Pairwise (· < ·)) (hb : ∀ r ∈ rows, r < numRows) (hsmall : numRows ≤ 65535 * 65536) :
    ∃ o, optOpen (optEnc rows numRows) = some o ∧ o.numDocs = numRows ∧ o.numNonNull = rows.length ∧
      (∀ d, o.rank d = some (rankSpec rows d)) ∧
      (∀ d, d < numRows → o.rankIfExists d = if d ∈ rows then some (rankSpec rows d) else none) ∧
      (∀ k (hk : k < rows.length), o.select k = some rows[k] ∧
          ∀ start, start ≤ rows[k] / EPB → o.selectFrom start k = some rows[k]) ∧
      (∀ r ∈ rows, (o.rank r).bind o.select = some r) := by
  have ok : OptOk rows numRows := ⟨hs, hb, hsmall⟩
  refine ⟨openedOf rows numRows, optOpen_enc rows numRows ok, rfl, rfl, opt_rank rows numRows ok,
    opt_rankIfExists rows numRows ok,
    fun k hk => ⟨opt_select rows numRows ok k hk, fun start h => opt_selectFrom rows numRows ok k hk start h⟩, ?_⟩
  intro r hr
  obtain ⟨k, hk, rfl⟩ := List.getElem_of_mem hr
  rw [opt_rank rows numRows ok, rankSpec_getElem rows hs k hk]
  exact opt_select rows numRows ok k hk

/-- the abstract layer used above, for every block size: `rank` through blocks (block offset +
in-block rank) counts the members below; on a strictly increasing list `select (rank r) = r` and
the k-th member has rank k; a sparse block alone (binary search on sorted u16 LE) and a dense
block alone (bitvec + rank offsets) answer like the abstract set. -/
theorem C08_optional_blocks (E : Nat) (hE : 0 < E) :
    (∀ (rows : List Nat) (r : Nat), rankBlocks E rows r = rankSpec rows r) ∧
    (∀ (rows : List Nat), rows.Pairwise (· < ·) →
        (∀ r ∈ rows, rows[rankSpec rows r]? = some r) ∧
        (∀ k (hk : k < rows.length), rankSpec rows rows[k] = k)) ∧
    (∀ (els : List Nat), els.Pairwise (· < ·) → (∀ e ∈ els, e < 65536) → ∀ t, t < 65536 →
        sparseRank (sparseEnc els) t = rankSpec els t ∧ denseRank (denseEnc els) t = rankSpec els t ∧
        sparseRankIfExists (sparseEnc els) t = (if t ∈ els then some (rankSpec els t) else none) ∧
        denseRankIfExists (denseEnc els) t = (if t ∈ els then some (rankSpec els t) else none) ∧
        (∀ k (hk : k < els.length), sparseSelect (sparseEnc els) k = els[k]
            ∧ denseSelect (denseEnc els) k = some els[k])) :=
  ⟨rankBlocks_eq E hE, fun rows hs => ⟨select_rank rows hs, rankSpec_getElem rows hs⟩,
   fun els hs h t ht => ⟨(sparse_spec els hs h t).1, dense_rank els hs t ht, (sparse_spec els hs h t).2.1,
     dense_rankIfExists els hs t ht,
     fun k hk => ⟨(sparse_spec els hs h t).2.2 k hk, dense_select els hs h k hk⟩⟩⟩

example : (optOpen (optEnc [1, 5, 9] 10)).bind (·.rank 6) = some 2
    ∧ (optOpen (optEnc [1, 5, 9] 10)).bind (·.select 2) = some 9
    ∧ (optOpen (optEnc [1, 5, 9] 10)).bind (·.rankIfExists 5) = some 1
    ∧ (optOpen (optEnc [1, 5, 9] 10)).bind (·.rankIfExists 6) = none := by decide
example : rankBlocks 4 [1, 5, 6, 11] 6 = 2 ∧ sparseRank (sparseEnc [1, 5, 6, 700]) 6 = 2
    ∧ sparseRankIfExists (sparseEnc [1, 5, 6, 700]) 7 = none
    ∧ sparseSelect (sparseEnc [1, 5, 6, 700]) 3 = 700 := by decide
-- the extracted switch: 5 119 members → sparse, 5 120 → dense
example : Gen.is_sparse 5119 = true ∧ Gen.is_sparse 5120 = false := by decide

/-! ## column index: rows ↔ (index, flat values) -/

/-- multivalued index (rows with values + compact start offsets): every row reads back exactly its
values in insertion order, rows without values read back empty -/
theorem C08_multivalued_ranges {V : Type} (rows : Column V) :
    read (encodeAs .multivalued rows).1 (encodeAs .multivalued rows).2 = rows :=
  read_encodeAs .multivalued rows trivial

/-- writer pipeline from the operation log: recording every value of every document
(`ColumnWriter::record`: `NewDoc`/`Value` symbols, `delta_with_last_doc` cardinality detection),
`get_cardinality(num_docs)`, and replaying the log into the index builder of that cardinality
(`consume_operation_iterator`, Optional/Multivalued index builders) writes exactly
`encodeAs (detectCard rows) rows`, which reads back as the rows: every document returns exactly
its values in insertion order, none when absent. -/
theorem C08_writer_pipeline {V : Type} (rows : Column V) :
    writerEncode rows = encodeAs (detectCard rows) rows ∧
    read (writerEncode rows).1 (writerEncode rows).2 = rows := by
  have h := writerEncode_eq rows
  exact ⟨h, by rw [h]; exact read_encodeAs _ rows (detectCard_fits rows)⟩

/-- for every cardinality that fits the rows (Full needs one value in every row, Optional at most
one) the written (index, values) reads back as the rows — the merge may pick a larger cardinality
than the writer -/
theorem C08_column_index_roundtrip {V : Type} (rows : Column V) (card : Card) (hfit : card.fits rows) :
    read (encodeAs card rows).1 (encodeAs card rows).2 = rows :=
  read_encodeAs card rows hfit

/-- the whole u64 column file on its bytes (`serialize_column_mappable_to_u64` / `open_column_u64`:
cardinality code, optional index, multivalued start-offsets column and its u32 length, column
values under any codec, trailing u32 index length): for every well-formed column index (what the
writer and every merge hand over: rows-with-values strictly increasing below the row count, start
offsets below 2^64) the file opens, and reading every document through the opened readers
(`rank_if_exists` on the optional index bytes, start offsets decoded from their column, values
decoded from theirs) equals reading through the abstract index. The index bytes must stay below
4 GiB (the code stores their length as u32). -/
theorem C08_column_file_open (startsCodec valCodec : Nat) (idx : Index) (vals : List Nat) (bytes : Bytes)
    (hok : IndexOk idx) (hv : ∀ v ∈ vals, v < 2 ^ 64) (hlen : vals.length < 2 ^ 32)
    (hibl : ∀ ib, indexEnc startsCodec idx = some ib → ib.length < 2 ^ 32)
    (henc : columnFileEnc startsCodec valCodec idx vals = some bytes) :
    ∃ f, openColumnFile bytes = some f ∧ f.read = read idx vals :=
  columnFile_read startsCodec valCodec idx vals bytes hok hv hlen hibl henc

/-- rows → column file → rows: for every cardinality that fits, any codecs, the file written for
`rows` opens and every document reads back exactly its values in insertion order. -/
theorem C08_column_file_roundtrip (startsCodec valCodec : Nat) (card : Card) (rows : Column Nat)
    (hfit : card.fits rows) (hv : ∀ r ∈ rows, ∀ v ∈ r, v < 2 ^ 64) (hn : rows.length ≤ 65535 * 65536)
    (hvals : rows.flatten.length < 2 ^ 32) (bytes : Bytes)
    (hibl : ∀ ib, indexEnc startsCodec (encodeAs card rows).1 = some ib → ib.length < 2 ^ 32)
    (henc : columnFileEnc startsCodec valCodec (encodeAs card rows).1 (encodeAs card rows).2 = some bytes) :
    ∃ f, openColumnFile bytes = some f ∧ f.read = rows :=
  columnFile_roundtrip startsCodec valCodec card rows hfit hv hn hvals bytes hibl henc

/-- operation log → bytes → rows: the column file serialized from what the writer pipeline produces
(`writerEncode`: ColumnWriter::record, cardinality detection, index builders) opens, and every
document reads back exactly the values recorded for it, in insertion order. -/
theorem C08_writer_file_roundtrip (startsCodec valCodec : Nat) (rows : Column Nat)
    (hv : ∀ r ∈ rows, ∀ v ∈ r, v < 2 ^ 64) (hn : rows.length ≤ 65535 * 65536)
    (hvals : rows.flatten.length < 2 ^ 32) (bytes : Bytes)
    (hibl : ∀ ib, indexEnc startsCodec (writerEncode rows).1 = some ib → ib.length < 2 ^ 32)
    (henc : columnFileEnc startsCodec valCodec (writerEncode rows).1 (writerEncode rows).2 = some bytes) :
    ∃ f, openColumnFile bytes = some f ∧ f.read = rows :=
  writer_file_roundtrip startsCodec valCodec rows hv hn hvals bytes hibl henc

/-- shuffled merge → bytes → rows: the column file serialized from the merged (index, values) opens
and reads back as `mergeSpec` of what a reader sees of the inputs. -/
theorem C08_merge_file_roundtrip (startsCodec valCodec : Nat) (card : Card) (order : List (Nat × Nat))
    (ins : List (MergeInput Nat))
    (hvalid : ∀ a ∈ order, validAddr ins a)
    (hfit : card.fits (order.map (inputRow ins)))
    (hv : ∀ a ∈ order, ∀ v ∈ inputRow ins a, v < 2 ^ 64) (hn : order.length ≤ 65535 * 65536)
    (hvals : (order.map (inputRow ins)).flatten.length < 2 ^ 32) (bytes : Bytes)
    (hibl : ∀ ib, indexEnc startsCodec (mergeShuffledAs card order ins).1 = some ib → ib.length < 2 ^ 32)
    (henc : columnFileEnc startsCodec valCodec (mergeShuffledAs card order ins).1
      (mergeShuffledAs card order ins).2 = some bytes) :
    ∃ f, openColumnFile bytes = some f ∧ f.read = mergeSpec order (ins.map MergeInput.read) :=
  merge_file_roundtrip startsCodec valCodec card order ins hvalid hfit hv hn hvals bytes hibl henc

/-- stacked merge → bytes → rows: inputs canonical or missing; the column file serialized from the
stacked (index, values) opens and reads back as the concatenation of what a reader sees of each
input (a stacked merge writes `encodeAs` of the concatenated rows: `mergeStacked_eq_encodeAs`). -/
theorem C08_merge_stack_file_roundtrip (startsCodec valCodec : Nat) (ins : List (MergeInput Nat))
    (h : ∀ m ∈ ins, CanonOrMissing m)
    (hv : ∀ v ∈ (mergeStacked ins).2, v < 2 ^ 64)
    (hn : (stackSpec (ins.map MergeInput.read)).length ≤ 65535 * 65536)
    (hvals : (stackSpec (ins.map MergeInput.read)).flatten.length < 2 ^ 32) (bytes : Bytes)
    (hibl : ∀ ib, indexEnc startsCodec (mergeStacked ins).1 = some ib → ib.length < 2 ^ 32)
    (henc : columnFileEnc startsCodec valCodec (mergeStacked ins).1 (mergeStacked ins).2 = some bytes) :
    ∃ f, openColumnFile bytes = some f ∧ f.read = stackSpec (ins.map MergeInput.read) :=
  stack_file_roundtrip startsCodec valCodec ins h hv hn hvals bytes hibl henc

example : ((columnFileEnc 0 0
      (mergeStacked [⟨1, some (encodeAs .full [[1]])⟩, ⟨2, none⟩, (⟨1, some (encodeAs .full [[5]])⟩ : MergeInput Nat)]).1
      (mergeStacked [⟨1, some (encodeAs .full [[1]])⟩, ⟨2, none⟩, (⟨1, some (encodeAs .full [[5]])⟩ : MergeInput Nat)]).2).bind
      openColumnFile).map ColFile.read = some [[1], [], [], [5]] := by decide

/-- Str / Bytes column file (`open_column_bytes`): `[dictionary][term ordinal column file][dictionary
length u32 LE]` splits back into the dictionary bytes and the ordinal column, which opens as above
(the dictionary itself is an sstable: C15). -/
theorem C08_bytes_column_file (dict colFile : Bytes) (hd : dict.length < 2 ^ 32) (f : ColFile)
    (hf : openColumnFile colFile = some f) :
    openBytesColumnFile (bytesColumnFileEnc dict colFile) = some (dict, f) :=
  bytesColumnFile_open dict colFile hd f hf

example : ((columnFileEnc 0 0 (writerEncode [[4], [], [4, 1]]).1 (writerEncode [[4], [], [4, 1]]).2).bind
      (fun c => openBytesColumnFile (bytesColumnFileEnc [9, 9, 9] c))).map (fun p => (p.1, p.2.read))
    = some ([9, 9, 9], [[4], [], [4, 1]]) := by decide

/-- the same for u128 (IP address) column files (`open_column_u128`): column index bytes + the
compact-space column + index length, for any valid compact space covering the values. -/
theorem C08_column_file_u128 (startsCodec : Nat) (rs : Ranges) (idx : Index) (vals : List Nat) (bytes : Bytes)
    (hok : IndexOk idx) (hv : ValidRanges rs) (hmax : ∀ r ∈ rs, r.2 ≤ U128MAX)
    (hnr : rs.length ≤ 100000000) (hamp : amplitude rs < 2 ^ 64)
    (hcov : ∀ v ∈ vals, Covered rs v) (hlen : vals.length < 2 ^ 32)
    (hibl : ∀ ib, indexEnc startsCodec idx = some ib → ib.length < 2 ^ 32)
    (henc : columnFileEnc128 startsCodec rs idx vals = some bytes) :
    ∃ f, openColumnFile128 bytes = some f ∧ f.read = read idx vals :=
  columnFile128_read startsCodec rs idx vals bytes hok hv hmax hnr hamp hcov hlen hibl henc

example : ((columnFileEnc128 0 [(5, 100), (2 ^ 100, 2 ^ 100 + 3)] (encodeAs .optional [[], [2 ^ 100 + 1], [7]]).1
      [2 ^ 100 + 1, 7]).bind openColumnFile128).map ColFile.read = some [[], [2 ^ 100 + 1], [7]] := by decide

example : ((columnFileEnc 0 2 (encodeAs .multivalued [[5], [], [7, 9]]).1
      (encodeAs .multivalued [[5], [], [7, 9]]).2).bind openColumnFile).map ColFile.read
    = some [[5], [], [7, 9]] := by decide
example : ((columnFileEnc 0 0 (encodeAs .optional [[], [3]]).1 (encodeAs .optional [[], [3]]).2).bind
      openColumnFile).map ColFile.read = some [[], [3]] := by decide

/-- numeric coercion (`CompatibleNumericalTypes` + `Coerce`): when the detected column type is an
integer type, every recorded value is an integer, is coerced without reaching `unreachable!()`, and
the stored 64-bit pattern denotes the same number in the column's type — coercion is exact, hence
injective and order preserving, on the values present. (A mixed column that falls back to f64
stores `v as f64`, which is lossy above 2^53 by design; floats are opaque to the kernel and that
case is checked by the harness only.) -/
theorem C08_numeric_coercion_exact (vals : List NumVal) (ht : numTypeOf vals ≠ .f64) :
    ∀ v ∈ vals, ∃ x n, coerceInt (numTypeOf vals) v = some x ∧ v.intValue = some n
      ∧ storedInt (numTypeOf vals) x = n :=
  coercion_exact vals ht

example : numTypeOf [.i64 5#64, .u64 7#64] = .i64 ∧ numTypeOf [.u64 (BitVec.ofNat 64 (2 ^ 63)), .u64 1#64] = .u64
    ∧ numTypeOf [.u64 (BitVec.ofNat 64 (2 ^ 63)), .i64 (BitVec.ofInt 64 (-1))] = .f64 := by decide
example : writerEncode [[1, 2], [], [3], []] = (.multivalued [0, 2] 4 [0, 2, 3], [1, 2, 3]) := by decide
example : (writerEncode [[1], [2]]).1 = .full ∧ (writerEncode [[1], [], [2]]).1 = .optional [0, 2] 3
    ∧ (writerEncode [[1], []]).1 = .optional [0] 2 := by decide

example : read (encodeAs .multivalued [[1, 2], [], [3], []]).1 (encodeAs .multivalued [[1, 2], [], [3], []]).2
    = [[1, 2], [], [3], []] := by decide
example : encodeAs .multivalued [[1, 2], [], [3], []] = (.multivalued [0, 2] 4 [0, 2, 3], [1, 2, 3]) := by decide

/-! ## range lookup -/

/-- looking documents up by a value range on the u64 images (what the column stores) is looking
them up by the signed order for i64 columns and by the IEEE total order for f64 columns -/
theorem C08_range_lookup (col : Column (BitVec 64)) (lo hi : BitVec 64) :
    docsInRange (fun v => (Gen.Col.i64_to_u64 v).toNat) col (Gen.Col.i64_to_u64 lo).toNat (Gen.Col.i64_to_u64 hi).toNat
      = (List.range col.length).filter (fun d => (col.getD d []).any
          (fun v => decide (lo.toInt ≤ v.toInt) && decide (v.toInt ≤ hi.toInt))) ∧
    docsInRange (fun v => (Gen.Col.f64_to_u64 v).toNat) col (Gen.Col.f64_to_u64 lo).toNat (Gen.Col.f64_to_u64 hi).toNat
      = (List.range col.length).filter (fun d => (col.getD d []).any
          (fun v => decide (f64Key lo ≤ f64Key v) && decide (f64Key v ≤ f64Key hi))) := by
  unfold docsInRange
  constructor
  · congr 1; funext d; congr 1; funext v
    dsimp only
    have h1 := i64_to_u64_toNat lo
    have h2 := i64_to_u64_toNat hi
    have h3 := i64_to_u64_toNat v
    congr 1 <;> (apply decide_eq_decide.mpr; omega)
  · congr 1; funext d; congr 1; funext v
    dsimp only
    have h1 := f64_to_u64_toNat lo
    have h2 := f64_to_u64_toNat hi
    have h3 := f64_to_u64_toNat v
    congr 1 <;> (apply decide_eq_decide.mpr; omega)

/-- `Column::get_docids_for_value_range` through the column index, for every cardinality that fits the
rows: the document range is turned into a row range (`docid_range_to_rowids`: identity / rank /
start offsets of the ranks), the matching rows are collected, and `select_batch_in_place` maps them
back (Optional: `select`; Multivalued: the cursor loop over the start offsets that writes each
document once, then `select`). The result is exactly the documents of `s..e` that hold a value in
the range, ascending, each once. -/
theorem C08_column_range_lookup {V : Type} (key : V → Nat) (card : Card) (rows : Column V) (hfit : card.fits rows)
    (lo hi s e : Nat) (hse : s ≤ e) (he : e ≤ rows.length) :
    docidsForValueRange key (encodeAs card rows).1 (encodeAs card rows).2 lo hi s e
      = (List.range' s (e - s)).filter (fun d => (rows.getD d []).any (fun v => decide (lo ≤ key v) && decide (key v ≤ hi))) :=
  column_range_lookup key card rows hfit lo hi s e hse he

example : docidsForValueRange id (encodeAs .multivalued [[5, 9], [], [1], [7, 8, 7]]).1
    (encodeAs .multivalued [[5, 9], [], [1], [7, 8, 7]]).2 7 9 0 4 = [0, 3] := by decide
example : docidsForValueRange id (encodeAs .optional [[5], [], [1], [7]]).1
    (encodeAs .optional [[5], [], [1], [7]]).2 2 7 1 4 = [3] := by decide

/-- the bitpacked reader transforms a query range to the stored (normalised) values. With the
hypothesis `hHi : s.min ≤ hi` the transformation is exact; without it (`hi < min`) both bounds
are clamped to 0 by `saturating_sub` and the rows holding the minimum match — see
`C08_range_transform_counterexample` (known finding C08:range-below-min-returns-min-rows). -/
theorem C08_range_transform_partial (s : Stats) (hg : s.gcd ≠ 0) (lo hi v : Nat)
    (hv : s.min ≤ v) (hd : s.gcd ∣ v - s.min) (hHi : s.min ≤ hi) :
    (lo ≤ v ∧ v ≤ hi) ↔
      ((transformRange s lo hi).1 ≤ (v - s.min) / s.gcd ∧ (v - s.min) / s.gcd ≤ (transformRange s lo hi).2) :=
  transformRange_exact s hg lo hi v hv hd hHi

/-- the rows `BitpackedReader::get_row_ids_for_value_range` reports, as the *current* source computes
them (`Gen.RANGE_BELOW_MIN_GUARD` is re-extracted on every run), are exactly the rows holding a
value in the query range — provided the source has the guard, or the query range is not entirely
below the column minimum (named hypothesis `hGuardOrHi`; its failure is the known finding
C08:range-below-min-returns-min-rows). -/
theorem C08_range_rows_partial (s : Stats) (hg : s.gcd ≠ 0) (vals : List Nat)
    (hv : ∀ v ∈ vals, s.min ≤ v ∧ s.gcd ∣ v - s.min) (lo hi : Nat)
    (hGuardOrHi : Gen.RANGE_BELOW_MIN_GUARD = true ∨ s.min ≤ hi ∨ lo > hi) :
    rangeRowsWith Gen.RANGE_BELOW_MIN_GUARD s (vals.map (fun v => (v - s.min) / s.gcd)) lo hi
      = (List.range vals.length).filter (fun i => decide (lo ≤ vals.getD i 0) && decide (vals.getD i 0 ≤ hi)) := by
  rcases hGuardOrHi with h | h
  · rw [h]; exact rangeRows_guarded_exact s hg vals hv lo hi
  · rw [rangeRowsWith_guard_irrelevant _ s _ lo hi h]; exact rangeRows_guarded_exact s hg vals hv lo hi

/-- the source now has the guard (`Gen.RANGE_BELOW_MIN_GUARD = true`, re-extracted on every run; it was
added by the fix for C08:range-below-min-returns-min-rows): the rows the bitpacked reader reports for
any query range are exactly the rows holding a value in the range. Removing the guard breaks this
theorem (and `C08_range_transform_counterexample` shows the witness). -/
theorem C08_range_rows_exact (s : Stats) (hg : s.gcd ≠ 0) (vals : List Nat)
    (hv : ∀ v ∈ vals, s.min ≤ v ∧ s.gcd ∣ v - s.min) (lo hi : Nat) :
    rangeRowsWith Gen.RANGE_BELOW_MIN_GUARD s (vals.map (fun v => (v - s.min) / s.gcd)) lo hi
      = (List.range vals.length).filter (fun i => decide (lo ≤ vals.getD i 0) && decide (vals.getD i 0 ≤ hi)) :=
  C08_range_rows_partial s hg vals hv lo hi (Or.inl rfl)

/-- with the guard `if *range.end() < stats.min_value { return None; }` the lookup is exact for every
query range (this is the behaviour after the pending fix) -/
theorem C08_range_rows_guarded (s : Stats) (hg : s.gcd ≠ 0) (vals : List Nat)
    (hv : ∀ v ∈ vals, s.min ≤ v ∧ s.gcd ∣ v - s.min) (lo hi : Nat) :
    rangeRowsWith true s (vals.map (fun v => (v - s.min) / s.gcd)) lo hi
      = (List.range vals.length).filter (fun i => decide (lo ≤ vals.getD i 0) && decide (vals.getD i 0 ≤ hi)) :=
  rangeRows_guarded_exact s hg vals hv lo hi

/-- without the guard: values [10, 20, 30, 10], query range 0..=5 — the transformed range is [0, 0],
which the stored value of 10 (`(10 − 10)/10 = 0`) satisfies although 10 ∉ [0, 5]: rows 0 and 3 are
reported -/
theorem C08_range_transform_counterexample :
    transformRange (collectStats [10, 20, 30, 10]) 0 5 = (0, 0)
      ∧ rangeRowsWith false (collectStats [10, 20, 30, 10]) [0, 1, 2, 0] 0 5 = [0, 3]
      ∧ rangeRowsWith true (collectStats [10, 20, 30, 10]) [0, 1, 2, 0] 0 5 = [] := by decide

/-! ## merge -/

/-- shuffled merge (any new-row → old-row mapping, deleted rows simply absent, missing columns =
all rows absent), for every cardinality the merge may pick that fits the surviving rows:
`read (merge order cols) = mergeSpec order (cols.map read)` -/
theorem C08_merge_shuffle {V : Type} (card : Card) (order : List (Nat × Nat)) (ins : List (MergeInput V))
    (hvalid : ∀ a ∈ order, validAddr ins a)
    (hfit : card.fits (order.map (inputRow ins))) :
    read (mergeShuffledAs card order ins).1 (mergeShuffledAs card order ins).2
      = mergeSpec order (ins.map MergeInput.read) :=
  read_mergeShuffled_spec card order ins hvalid hfit

/-- the cardinality the model detects always fits, so `mergeShuffled` itself satisfies the theorem -/
theorem C08_merge_shuffle_detected {V : Type} (order : List (Nat × Nat)) (ins : List (MergeInput V))
    (hvalid : ∀ a ∈ order, validAddr ins a) :
    read (mergeShuffled order ins).1 (mergeShuffled order ins).2 = mergeSpec order (ins.map MergeInput.read) :=
  read_mergeShuffled_spec _ order ins hvalid (detectCard_fits _)

example : read (mergeShuffled [(0, 1), (1, 0), (0, 0)]
      [⟨2, some (encodeAs .optional [[7], []])⟩, (⟨1, none⟩ : MergeInput Nat)]).1
    (mergeShuffled [(0, 1), (1, 0), (0, 0)]
      [⟨2, some (encodeAs .optional [[7], []])⟩, (⟨1, none⟩ : MergeInput Nat)]).2
    = [[], [], [7]] := by decide

/-- stacked merge: every input is either missing in that segment (`ColumnIndex::Empty { num_docs }`)
or in canonical form — `encodeAs card rows` for a cardinality that fits its rows, which is what the
writer (`C08_writer_pipeline`) and every earlier merge (`mergeShuffledAs_eq`, `mergeStacked_canon`)
produce. The merged column (maximum cardinality, rows-with-values shifted by the segment offsets,
cumulated start offsets, concatenated values) reads back as the concatenation of what a reader
sees of each input; a missing column contributes `num_docs` absent rows. -/
theorem C08_merge_stack {V : Type} (ins : List (MergeInput V)) (h : ∀ m ∈ ins, CanonOrMissing m) :
    read (mergeStacked ins).1 (mergeStacked ins).2 = stackSpec (ins.map MergeInput.read) :=
  read_mergeStacked_any ins h

example : read (mergeStacked [⟨1, some (encodeAs .full [[1]])⟩, ⟨2, none⟩,
      (⟨1, some (encodeAs .full [[5]])⟩ : MergeInput Nat)]).1
    (mergeStacked [⟨1, some (encodeAs .full [[1]])⟩, ⟨2, none⟩,
      (⟨1, some (encodeAs .full [[5]])⟩ : MergeInput Nat)]).2
    = [[1], [], [], [5]] := by decide

example : read (mergeStacked [⟨2, some (encodeAs .full [[1], [2]])⟩,
      (⟨2, some (encodeAs .multivalued [[], [3, 4]])⟩ : MergeInput Nat)]).1
    (mergeStacked [⟨2, some (encodeAs .full [[1], [2]])⟩,
      (⟨2, some (encodeAs .multivalued [[], [3, 4]])⟩ : MergeInput Nat)]).2
    = [[1], [2], [], [3, 4]] := by decide

/-! ## merging the dictionaries of a Str / Bytes column: remapped term ordinals -/

/-- `merge_dict_and_compute_term_ord_mapping` over the `TermMerger` k-way merge (`mergeDicts`), for any
number of segment dictionaries (strictly increasing term lists; a segment without the column has the
empty one) and any "a surviving row uses this ordinal" predicate: the merged dictionary is strictly
increasing; every (segment, old ordinal) a surviving row uses is registered, and the new ordinal
denotes in the merged dictionary exactly the term the old ordinal denoted in the segment's; hence
new ordinals of any two registered terms compare like the terms themselves. -/
theorem C08_dictionary_merge_remap (used : Nat → Nat → Bool) (ds : List (List Nat))
    (hds : ∀ d ∈ ds, d.Pairwise (· < ·)) :
    (mergeDicts used ds).merged.Pairwise (· < ·) ∧
    (∀ s o, s < ds.length → o < (ds.getD s []).length → used s o = true →
      ∃ n, remapOrd (mergeDicts used ds) s o = some n ∧
        (mergeDicts used ds).merged[n]? = (ds.getD s [])[o]?) ∧
    (∀ n n' a b : Nat, (mergeDicts used ds).merged[n]? = some a → (mergeDicts used ds).merged[n']? = some b →
      (a < b ↔ n < n')) :=
  ⟨(mergeDicts_spec used ds hds).1, fun s o hs ho hu => remapOrd_spec used ds hds s o hs ho hu,
   fun n n' a b h1 h2 => sorted_idx_lt _ (mergeDicts_spec used ds hds).1 n n' a b h1 h2⟩

/-- the merged dictionary holds exactly the terms some segment holds at a used ordinal: no term is
emitted that no surviving row can reach (the code's "remove useless terms"), none that is used is
dropped -/
theorem C08_dictionary_merge_terms (used : Nat → Nat → Bool) (ds : List (List Nat))
    (hds : ∀ d ∈ ds, d.Pairwise (· < ·)) (x : Nat) :
    x ∈ (mergeDicts used ds).merged ↔
      ∃ s o, s < ds.length ∧ (ds.getD s [])[o]? = some x ∧ used s o = true :=
  mergeDicts_mem used ds hds x

-- three segments (one without the column): term 3 is shared, so both old ordinals map to new ordinal 2
example : (mergeDicts (fun _ _ => true) [[1, 3, 5], [2, 3], []]).merged = [1, 2, 3, 5] := by decide
example : remapOrd (mergeDicts (fun _ _ => true) [[1, 3, 5], [2, 3], []]) 1 1 = some 2 := by decide
example : remapOrd (mergeDicts (fun _ _ => true) [[1, 3, 5], [2, 3], []]) 0 1 = some 2 := by decide
-- no surviving row uses ordinal 0 of segment 0: term 1 is dropped and the later ordinals shift
example : (mergeDicts (fun s o => !(s == 0 && o == 0)) [[1, 3, 5], [2, 3], []]).merged = [2, 3, 5] := by decide
example : remapOrd (mergeDicts (fun s o => !(s == 0 && o == 0)) [[1, 3, 5], [2, 3], []]) 0 2 = some 2 := by decide

/-- the merged Str / Bytes column end to end (`merge_bytes_or_str_column`: merged dictionary, merged
column index, ordinals remapped per segment while the rows are rearranged): for any row mapping
(deleted rows absent, segments without the column), any cardinality that fits, if every ordinal of a
surviving row lies inside its segment's dictionary and is marked used (the term bitsets of the alive
rows; always the case when every term is kept), then resolving every merged row through the merged
dictionary gives exactly the terms the old row resolved to in its own segment. -/
theorem C08_dictionary_column_merge (card : Card) (used : Nat → Nat → Bool) (order : List (Nat × Nat))
    (ins : List DictInput)
    (hdict : ∀ d ∈ ins, d.dict.Pairwise (· < ·))
    (hvalid : ∀ a ∈ order, validAddr (ins.map (·.ords)) a)
    (hfit : card.fits (order.map (inputRow (ins.map (·.ords)))))
    (hords : ∀ a ∈ order, ∀ o ∈ inputRow (ins.map (·.ords)) a, o < ((ins.map (·.dict)).getD a.1 []).length)
    (hused : ∀ a ∈ order, ∀ o ∈ inputRow (ins.map (·.ords)) a, used a.1 o = true) :
    readTerms (mergeDictColumnAs card used order ins).1 (mergeDictColumnAs card used order ins).2.1
        (mergeDictColumnAs card used order ins).2.2
      = mergeSpec order (ins.map DictInput.readTerms) :=
  mergeDictColumn_spec card used order ins hdict hvalid hfit hords hused

/-- the same with the kept terms decided as the code decides them (`compute_term_bitset` over the
alive rows of every segment that has an alive bitset, `is_term_present`; `usedOf`): it suffices that
every surviving row of a segment with a bitset is in that bitset — what `ShuffleMergeOrder` provides. -/
theorem C08_dictionary_column_merge_alive (card : Card) (alive : List (Option (List Nat)))
    (order : List (Nat × Nat)) (ins : List DictInput)
    (hdict : ∀ d ∈ ins, d.dict.Pairwise (· < ·))
    (hvalid : ∀ a ∈ order, validAddr (ins.map (·.ords)) a)
    (hfit : card.fits (order.map (inputRow (ins.map (·.ords)))))
    (hords : ∀ a ∈ order, ∀ o ∈ inputRow (ins.map (·.ords)) a, o < ((ins.map (·.dict)).getD a.1 []).length)
    (halive : ∀ a ∈ order, ∀ rows, alive.getD a.1 none = some rows → a.2 ∈ rows) :
    readTerms (mergeDictColumnAs card (usedOf alive ins) order ins).1
        (mergeDictColumnAs card (usedOf alive ins) order ins).2.1
        (mergeDictColumnAs card (usedOf alive ins) order ins).2.2
      = mergeSpec order (ins.map DictInput.readTerms) :=
  mergeDictColumn_alive card alive order ins hdict hvalid hfit hords halive

/-- stacked merge of a Str / Bytes column (`MergeRowOrder::Stack`: every term kept, stacked column
index, every ordinal of every segment remapped in turn): inputs canonical or missing, ordinals inside
their dictionaries — the merged column resolves to the concatenation of what each segment resolved. -/
theorem C08_dictionary_column_stack (ins : List DictInput)
    (hdict : ∀ d ∈ ins, d.dict.Pairwise (· < ·))
    (hcanon : ∀ d ∈ ins, CanonOrMissing d.ords)
    (hords : ∀ d ∈ ins, ∀ r ∈ d.ords.read, ∀ o ∈ r, o < d.dict.length) :
    readTerms (mergeDictColumnStacked ins).1 (mergeDictColumnStacked ins).2.1 (mergeDictColumnStacked ins).2.2
      = stackSpec (ins.map DictInput.readTerms) :=
  mergeDictColumnStacked_spec ins hdict hcanon hords

example : (fun m : List Nat × Index × List Nat => (m.1, read m.2.1 m.2.2))
      (mergeDictColumnStacked [⟨[1, 3, 5], ⟨2, some (encodeAs .multivalued [[0, 2], [1]])⟩⟩, ⟨[], ⟨1, none⟩⟩,
        ⟨[2, 3], ⟨1, some (encodeAs .full [[1]])⟩⟩])
    = ([1, 2, 3, 5], [[0, 3], [2], [], [2]]) := by decide

-- alive rows {0} of segment 0 (bitset), no bitset for segment 1: term 3 of segment 0 is unused there
-- but kept through segment 1, term 2 of segment 1 is kept because that segment has no bitset
example :
    (mergeDictColumnAs .multivalued
      (usedOf [some [0], none] [⟨[1, 3, 5], ⟨2, some (encodeAs .multivalued [[0, 2], [1]])⟩⟩,
        ⟨[2, 3], ⟨1, some (encodeAs .full [[1]])⟩⟩]) [(1, 0), (0, 0)]
      [⟨[1, 3, 5], ⟨2, some (encodeAs .multivalued [[0, 2], [1]])⟩⟩, ⟨[2, 3], ⟨1, some (encodeAs .full [[1]])⟩⟩]).1
    = [1, 2, 3, 5] := by decide

-- segment 0: dictionary [1,3,5], rows [1,5] and [3]; segment 1: dictionary [2,3], row [3]; row 1 of
-- segment 0 is deleted and term 2 is used by no row: merged dictionary [1,3,5], rows [3] and [1,5]
example :
    mergeDictColumnAs .multivalued (fun s o => (s == 0 && (o == 0 || o == 2)) || (s == 1 && o == 1)) [(1, 0), (0, 0)]
      [⟨[1, 3, 5], ⟨2, some (encodeAs .multivalued [[0, 2], [1]])⟩⟩, ⟨[2, 3], ⟨1, some (encodeAs .full [[1]])⟩⟩]
    = ([1, 3, 5], .multivalued [0, 1] 2 [0, 1, 3], [1, 0, 2]) := by decide
example :
    readTerms [1, 3, 5] (.multivalued [0, 1] 2 [0, 1, 3]) [1, 0, 2] = [[some 3], [some 1, some 5]] := by decide

/-! ## monotone mappings (functions extracted from common/src/lib.rs) -/

/-- `i64_to_u64` is the signed value shifted by `2^63`, hence strictly monotone for the signed
order, and `u64_to_i64` is its two-sided inverse; `f64_to_u64` is the IEEE total-order key
(`f64Key`: −∞ < … < −0 < +0 < … < +∞) shifted by `2^63`, hence strictly monotone and injective on
NaN-free floats, and `u64_to_f64` is its two-sided inverse. -/
theorem C08_monotonic_mappings :
    (∀ a b : BitVec 64, (Gen.Col.i64_to_u64 a).toNat < (Gen.Col.i64_to_u64 b).toNat ↔ a.toInt < b.toInt) ∧
    (∀ a : BitVec 64, Gen.Col.u64_to_i64 (Gen.Col.i64_to_u64 a) = a ∧ Gen.Col.i64_to_u64 (Gen.Col.u64_to_i64 a) = a) ∧
    (∀ a b : BitVec 64, (Gen.Col.f64_to_u64 a).toNat < (Gen.Col.f64_to_u64 b).toNat ↔ f64Key a < f64Key b) ∧
    (∀ a : BitVec 64, Gen.Col.u64_to_f64 (Gen.Col.f64_to_u64 a) = a ∧ Gen.Col.f64_to_u64 (Gen.Col.u64_to_f64 a) = a) := by
  refine ⟨?_, fun a => ⟨u64_to_i64_i64_to_u64 a, i64_to_u64_u64_to_i64 a⟩, ?_,
    fun a => ⟨u64_to_f64_f64_to_u64 a, f64_to_u64_u64_to_f64 a⟩⟩
  · intro a b
    have ha := i64_to_u64_toNat a
    have hb := i64_to_u64_toNat b
    omega
  · intro a b
    have ha := f64_to_u64_toNat a
    have hb := f64_to_u64_toNat b
    omega

-- −0.0 (0x8000…) sorts just below +0.0 (0); −∞ (0xFFF0…) below −1.0 (0xBFF0…)
example : (Gen.Col.f64_to_u64 0x8000000000000000#64).toNat + 1 = (Gen.Col.f64_to_u64 0#64).toNat := by decide
example : (Gen.Col.f64_to_u64 0xFFF0000000000000#64).toNat < (Gen.Col.f64_to_u64 0xBFF0000000000000#64).toNat := by decide
example : Gen.Col.i64_to_u64 0x8000000000000000#64 = 0#64 := by decide

/-! ### functions translated from the Rust source on every run (`Gen/PureFns.lean`)

`bitpacker::compute_num_bits`, the zig-zag code of the columnar writer's in-memory
column operations, and two bit helpers of the optional index. The definitions are the source
text, mechanically translated; these theorems are re-checked against it on every run. -/
section SrcFns
open TantivyModel.Gen.Fn TantivyModel.PureFns

theorem C08_src_compute_num_bits (n : BitVec 64) :
    n.toNat < 2 ^ (compute_num_bits n).toNat ∧ (compute_num_bits n).toNat ≤ 64
    ∧ (n ≠ 0#64 → (compute_num_bits n).toNat ≤ 56 → 2 ^ ((compute_num_bits n).toNat - 1) ≤ n.toNat) :=
  ⟨PureFns.compute_num_bits_fits n, PureFns.compute_num_bits_le n, PureFns.compute_num_bits_minimal n⟩

theorem C08_src_zig_zag_bijection (n : BitVec 64) :
    decode_zig_zag (encode_zig_zag n) = n ∧ encode_zig_zag (decode_zig_zag n) = n :=
  ⟨PureFns.decode_encode_zig_zag n, PureFns.encode_decode_zig_zag n⟩

theorem C08_src_dense_bit_helpers (w : BitVec 64) (n : BitVec 16) (h : n.toNat < 64) :
    get_bit_at w n = w.getLsbD n.toNat := PureFns.get_bit_at_eq w n h

example : encode_zig_zag (-3#64) = 5#64 ∧ decode_zig_zag 5#64 = -3#64 := by decide
end SrcFns

end TantivyModel.C08
