import TantivyModel.Proofs.WriterHistory
import TantivyModel.Proofs.WriterMergeMeta
import TantivyModel.Proofs.WriterBook
/-!
# C02 — A commit publishes exactly the sequential effect of the operations before it

Specification: `WriterSpec.replay` (Model/WriterSpec.lean).  Implementation-level model:
`Writer.step` / `Writer.run` (Model/Writer.lean), every internal choice an adversarial event.
Property theorems only; helper lemmas live in `Proofs/Writer*.lean`.
-/
namespace TantivyModel.C02
open TantivyModel TantivyModel.WriterSpec TantivyModel.Writer

variable {α : Type}

/-! ## a delete removes only documents added before it -/

/-- **C02_delete_only_earlier** (segment under construction, `apply_deletes` with per-document
opstamps; and finalised / committed segments, `advance_deletes`).  Running
`compute_deleted_bitset` up to `target` over the queue `rest` from the cursor on:
* the cursor moves past exactly the operations with opstamp `≤ target` at the head of the queue;
* with per-document opstamps a document stays alive iff it was alive and no consumed delete
  `del` has `del.q d ∧ d.op < del.op` — i.e. a delete with opstamp `o` removes `d` iff `d` matches
  and `opstamp d < o`;
* without them (finalised segment) every matching document is removed, which is the same
  thing exactly when every document of the segment is older than the consumed deletes — the
  cursor discipline (`C02_cursor_discipline`). -/
theorem C02_delete_only_earlier (withMap : Bool) (target : Nat) (rest : List (DelOp α))
    (docs : List (SDoc α)) (c : Nat) :
    let dels := processed target rest
    (consume withMap target rest docs c).2 = c + dels.length
    ∧ (consume withMap target rest docs c).1.map (·.alive)
        = docs.map (fun d => d.alive && !dels.any (fun del => del.q d.doc && (!withMap || decide (d.op < del.op))))
    ∧ (consume withMap target rest docs c).1.map (fun d => (d.doc, d.op)) = docs.map (fun d => (d.doc, d.op)) := by
  intro dels
  rw [consume_spec]
  refine ⟨rfl, ?_, ?_⟩
  · simp only [List.map_map]
    apply List.map_congr_left
    intro d _
    have hf : (fun del : DelOp α => del.q d.doc && isDeleted withMap d.op del.op)
        = (fun del => del.q d.doc && (!withMap || decide (d.op < del.op))) := by
      funext del; cases withMap <;> simp [isDeleted]
    simp only [Function.comp, hit, hf]
    rfl
  · simp only [List.map_map]
    apply List.map_congr_left
    intro d _
    rfl

/-- cursor discipline: `skip_to(first opstamp)` skips exactly the leading deletes older than the
first document of the new segment; on a queue sorted by opstamp none of the skipped deletes is
younger than any document of the segment, so skipping them loses nothing. -/
theorem C02_cursor_discipline (first : Nat) (rest : List (DelOp α)) (c : Nat) :
    skipTo first rest c = c + (rest.takeWhile (fun del => decide (del.op < first))).length
    ∧ ∀ del ∈ rest.takeWhile (fun del => decide (del.op < first)), ∀ dop, first ≤ dop → ¬ dop < del.op := by
  refine ⟨skipTo_spec first rest c, ?_⟩
  intro del hdel dop hd
  have := mem_takeWhile_prop hdel
  simp at this
  omega

/-! ## commit = sequential replay -/

/-- the events of a run that need no side condition: everything except `delete_all_documents`
and merges -/
def plainEvent : Event α → Bool
  | .deleteAll => false
  | .mergeStart _ _ => false
  | .mergeEnd _ => false
  | .stamp _ => false
  | .publish _ => false
  | _ => true

theorem C02_okRun_of_plain (s : WState α) (es : List (Event α)) (h : es.all plainEvent = true) : okRun s es := by
  induction es generalizing s with
  | nil => trivial
  | cons e es ih =>
    simp only [List.all_cons, Bool.and_eq_true] at h
    refine ⟨?_, fun s' _ _ => ih s' h.2⟩
    cases e <;> first | trivial | simp [plainEvent] at h

/-- **C02_commit_refines_replay_partial.**  For every number of indexing workers and every event
sequence `es` of the implementation-level model — API calls interleaved in any way with the
adversarial internal events: which worker receives which batch (`recv`), when a worker cuts its
segment (`cut`), when the segment updater registers a finished segment (`register`), when
`consider_merge_options` draws a stamp (`tick`), when the delete queue is flushed, **which merges
start and end when** (`mergeStart` of any duplicate-free set of segments of one register, by the
policy or by `IndexWriter::merge`; `mergeEnd` with its catch-up and reconciliation, sources still
uncommitted, committed in the meantime, or gone) — such that (`okRun2`)
  * `delete_all_documents` is issued only in a clean state (`cleanState`: nothing of the current
    transaction pending and no delete issued by this writer), and
  * no delete is stamped with the opstamp of the last commit while committed segments exist
    (the F8 shape: the first operation of a re-created writer),
the documents a fresh searcher shows are, as a multiset, exactly `(replay (history es)).committed`
(every survivor exactly once), and the documents the next commit would publish are exactly
`(replay (history es)).pending`.  In particular this holds after every `commit`, `rollback`,
`abort`, reopen, and before and after every merge (every prefix of a run is a run).

The statement at full strength (no side condition) is false in the model as in the code: see
the five counter-example theorems below. -/
theorem C02_commit_refines_replay_partial [DecidableEq α] (n : Nat) (es : List (Event α)) (s : WState α)
    (hrun : run (WState.init n) es = some s) (hok : okRun2 (WState.init n) es) :
    List.Perm (published s) (replay (history es)).committed
      ∧ List.Perm (live s) (replay (history es)).pending := by
  have := (inv_run2 (WState.init n) s SpecState.init es (inv_init n) (minv_init n) hok hrun).1
  exact ⟨this.pub, this.pend⟩

/-- the same with hypotheses that read the API history only (`okHist`: a scan with three flags —
operations pending in the transaction, a delete issued by this writer, nothing stamped since the
writer was re-created): `delete_all_documents` only right after a commit / rollback of a writer
that issued no delete, and the first operation after `rollback` is not a delete (nor a batch
starting with one).  `okRun2_of_okHist` shows that these imply the state-level hypotheses at every
step of every run with that history. -/
theorem C02_commit_refines_replay_history [DecidableEq α] (n : Nat) (es : List (Event α)) (s : WState α)
    (hrun : run (WState.init n) es = some s) (hh : okHist HFlags.init (history es))
    (hns : es.all (fun e => !isSubstep e) = true) :
    List.Perm (published s) (replay (history es)).committed :=
  (C02_commit_refines_replay_partial n es s hrun
    (okRun2_of_okHist (WState.init n) SpecState.init HFlags.init es (inv_init n) (minv_init n) (flag_init n) hh hns)).1

/-- **C02_history_verdict_decides.**  The executable scan `okHistB` - what the driver answers to
`C02 clean …`, on which the harness bases every attribution to a known finding - decides exactly
the hypothesis of `C02_commit_refines_replay_history`; hence whenever the driver says `clean`, the
published documents of every run of the model with that history are the sequential replay. -/
theorem C02_history_verdict_decides [DecidableEq α] (n : Nat) (es : List (Event α)) (s : WState α)
    (hrun : run (WState.init n) es = some s) (hns : es.all (fun e => !isSubstep e) = true) :
    (okHistB HFlags.init (history es) = true ↔ okHist HFlags.init (history es))
    ∧ (okHistB HFlags.init (history es) = true → List.Perm (published s) (replay (history es)).committed) :=
  ⟨okHistB_iff _ _, fun h => C02_commit_refines_replay_history n es s hrun ((okHistB_iff _ _).mp h) hns⟩

/-- F10 at the level of one segment (two producer threads; reproduced on the real code by the
forced schedules of the harness): thread A stamps a batch `[add x (5), delete x (6), add y (7)]`
and queues its delete, thread B stamps `add z (9)` later but is sent first; the worker starts the
segment with z, `skip_to(9)` passes the delete, then A's adds join the segment: `apply_deletes`
leaves x alive although `5 < 6` - the hypothesis of `BuildOK` (the skipped deletes are older than
every document of the segment), which atomic API calls guarantee, fails. -/
theorem C02_producer_race_counterexample :
    let log : List (DelOp Nat) := [⟨6, fun d => d == 10⟩]
    let c := skipTo 9 log 0
    let sg : Seg Nat := { id := 0, docs := mkDocs [(12, 9), (10, 5), (11, 7)], cursor := c }
    c = 1 ∧ (finalize log sg).docs.map (fun d => (d.doc, d.alive)) = [(12, true), (10, true), (11, true)]
      ∧ dead log (10, 5) = true := by
  decide

/-- **merges are invisible**: under the same hypotheses no internal event — in particular no
`mergeStart` / `mergeEnd` — changes what a fresh searcher shows -/
theorem C02_merges_invisible [DecidableEq α] (n : Nat) (es : List (Event α)) (e : Event α) (s s' : WState α) (r : Nat)
    (hrun : run (WState.init n) es = some s) (hstep : step s e = some (s', r)) (hint : e.toOp = none)
    (hok : okRun2 (WState.init n) (es ++ [e])) : List.Perm (published s') (published s) := by
  have hrun' : run (WState.init n) (es ++ [e]) = some s' := by
    have gen : ∀ (s0 : WState α) (l : List (Event α)), run s0 l = some s → run s0 (l ++ [e]) = some s' := by
      intro s0 l
      induction l generalizing s0 with
      | nil => intro h; simp only [run, Option.some.injEq] at h; subst h; simp [run, hstep]
      | cons a l ih =>
        intro h
        simp only [run, List.cons_append] at h ⊢
        split at h
        · rename_i s1 r1 hs1; exact ih s1 h
        · cases h
    exact gen _ es hrun
  have hok' : okRun2 (WState.init n) es := by
    have gen : ∀ (s0 : WState α) (l : List (Event α)), okRun2 s0 (l ++ [e]) → okRun2 s0 l := by
      intro s0 l
      induction l generalizing s0 with
      | nil => intro _; trivial
      | cons a l ih => intro h; exact ⟨h.1, fun s1 r1 hs => ih s1 (h.2 s1 r1 hs)⟩
    exact gen _ es hok
  have h1 := (C02_commit_refines_replay_partial n (es ++ [e]) s' hrun' hok).1
  have h2 := (C02_commit_refines_replay_partial n es s hrun hok').1
  have hh : history (es ++ [e]) = history es := by
    simp [history, List.filterMap_append, hint]
  rw [hh] at h1
  exact h1.trans h2.symm

/-- **segment ids are unique and fresh**: in every such run the ids of all segments in the system
(under construction, finished, registered, results of merges in flight) are pairwise distinct and
smaller than the next id; no merge in flight names a segment that is not registered yet -/
theorem C02_segment_ids_fresh [DecidableEq α] (n : Nat) (es : List (Event α)) (s : WState α)
    (hrun : run (WState.init n) es = some s) (hok : okRun2 (WState.init n) es) :
    (allIds s).Nodup ∧ (∀ i ∈ allIds s, i < s.nextId)
      ∧ (∀ m ∈ s.merges, ∀ i ∈ m.ids, i < s.nextId ∧ i ∉ pipeIds s) := by
  have := (inv_run2 (WState.init n) s SpecState.init es (inv_init n) (minv_init n) hok hrun).2
  exact ⟨this.nodup, this.idLt, fun m hm i hi => ⟨this.srcLt m hm i hi, this.srcFresh m hm i hi⟩⟩

/-- runs without `delete_all_documents` and merges satisfy the hypotheses whenever no delete is
the first operation after a rollback; kept from the first version: runs with no merge at all and
`okRun` -/
theorem C02_commit_refines_replay_nomerge [DecidableEq α] (n : Nat) (es : List (Event α)) (s : WState α)
    (hrun : run (WState.init n) es = some s) (hok : okRun (WState.init n) es) :
    List.Perm (published s) (replay (history es)).committed
      ∧ List.Perm (live s) (replay (history es)).pending := by
  have := inv_run (WState.init n) s SpecState.init es (inv_init n) hok hrun
  exact ⟨this.pub, this.pend⟩

/-- corollary with a purely syntactic hypothesis: runs without `delete_all_documents` and merges -/
theorem C02_commit_refines_replay_plain [DecidableEq α] (n : Nat) (es : List (Event α)) (s : WState α)
    (hrun : run (WState.init n) es = some s) (hplain : es.all plainEvent = true) :
    List.Perm (published s) (replay (history es)).committed :=
  (C02_commit_refines_replay_nomerge n es s hrun (C02_okRun_of_plain _ es hplain)).1

/-- the sound core (one logical segment, per-document opstamps, the delete queue, the rule of
`compute_deleted_bitset` applied at commit): for **every** history, with stamps drawn by
`consider_merge_options` at any point (`none`), in which `delete_all_documents` is only issued
while the delete queue of the writer is empty, the published list is exactly — same order —
the committed list of the sequential replay, and the payload is the one of the last commit. -/
theorem C02_core_refines_replay (es : List (Option (Op α))) (h : cleanFrom (CState.init : CState α) es) :
    (crun CState.init es).pub.map (·.1) = (replay (es.filterMap id)).committed
      ∧ (crun CState.init es).payload = (replay (es.filterMap id)).payload := by
  have := core_run CState.init SpecState.init es core_init h
  rw [foldl_specOf] at this
  exact ⟨this.committed, this.payload⟩

/-- the local steps of the real mechanism compute the rule of the core: on a queue sorted by
opstamp, `skip_to` + `apply_deletes` turn a segment under construction into a finished segment
whose alive bits are the opstamp rule for the deletes before its cursor, `advance_deletes` keeps
that, and a commit (target beyond every queued delete) makes the bits the rule over the whole
queue. -/
theorem C02_segment_steps_sound (log : List (DelOp α)) (hs : SortedLog log) :
    (∀ sg, BuildOK log sg → SegOK log (finalize log sg))
    ∧ (∀ sg target, SegOK log sg → SegOK log (advance log target sg))
    ∧ (∀ sg target, SegOK log sg → (∀ del ∈ log, del.op ≤ target) →
        ∀ d ∈ (advance log target sg).docs, d.alive = !dead log (d.doc, d.op)) :=
  ⟨fun sg h => finalize_segOK log sg hs h, fun sg t h => advance_segOK log t sg h,
   fun sg t h ht => (advance_full log t sg h ht).2⟩

/-! ## opstamps -/

/-- **C02_opstamp_monotone_partial.**  In every run as in `C02_commit_refines_replay_partial`
(so: `delete_all_documents`, which reverts the stamper, only in clean states), a `commit` returns
an opstamp larger than that of every document and every delete operation in the system, and that
opstamp and the payload are what `meta.json` holds afterwards.  (`commit_opstamp()` is *not*
that value: `C02_commit_opstamp_counterexample`.) -/
theorem C02_opstamp_monotone_partial [DecidableEq α] (n : Nat) (es : List (Event α)) (s s' : WState α)
    (p : Option Nat) (o : Nat)
    (hrun : run (WState.init n) es = some s) (hok : okRun2 (WState.init n) es)
    (hc : step s (.commit p) = some (s', o)) :
    (∀ q ∈ allPairs s, q.2 < o) ∧ (∀ del ∈ s.log, del.op < o)
      ∧ s'.metas.opstamp = o ∧ s'.metas.payload = p ∧ s'.stamper = o + 1 := by
  have hinv := (inv_run2 (WState.init n) s SpecState.init es (inv_init n) (minv_init n) hok hrun).1
  simp only [step] at hc
  split at hc
  · simp only [Option.some.injEq, Prod.mk.injEq] at hc
    obtain ⟨rfl, rfl⟩ := hc
    exact ⟨hinv.pairsLt, hinv.logLt, rfl, rfl, rfl⟩
  · cases hc

/-! ## the model evaluates the comparisons found in the source -/

/-- **C02_extracted_guards.**  The four opstamp comparisons of the delete machinery, as the
extractor reads them from the Rust source on every run (`Gen/WriterGuards.lean`), are the ones the
refinement proof is made for: `doc_opstamp < delete_opstamp` (`is_deleted`),
`operation.opstamp < target` (`skip_to`), `delete_op.opstamp > target` (the `break` of
`compute_deleted_bitset`) and `delete_operation.opstamp < committed_opstamp` (the catch-up of
`end_merge`).  The executable model uses the extracted operators; a change of one of them (e.g.
`<=` in the catch-up: a re-opened writer's first delete, stamped with the commit opstamp, would be
published by `end_merge`) makes this theorem - and the equations in `Proofs/Writer.lean` every
other theorem rests on - fail to check. -/
theorem C02_extracted_guards :
    Gen.IS_DELETED_CMP = 0 ∧ Gen.SKIP_TO_CMP = 0 ∧ Gen.COMPUTE_DELETED_BREAK_CMP = 2 ∧ Gen.END_MERGE_CATCHUP_CMP = 0
    ∧ (∀ a b, isDeletedGuard a b = decide (a < b)) ∧ (∀ a b, behindGuard a b = decide (a < b))
    ∧ (∀ a b, breakGuard a b = decide (a > b)) ∧ (∀ a b, catchUpGuard a b = decide (a < b)) :=
  ⟨rfl, rfl, rfl, rfl, isDeletedGuard_eq, behindGuard_eq, breakGuard_eq, catchUpGuard_eq⟩

/-- with `<=` in the catch-up guard a delete stamped exactly with the commit opstamp is applied to
the merged segment (what the seeded change C02-C does), with `<` it is not -/
example : cmpCode 1 5 5 = true ∧ cmpCode Gen.END_MERGE_CATCHUP_CMP 5 5 = false := by decide

/-! ## `advance_deletes` with its bookkeeping (`delete_opstamp`, "already up to date") -/

/-- **C02_advanceDeletes_early_return_only.**  `advance_deletes(segment, entry, target)` as it is
(`advanceDeletes`: early return when the segment's delete file was written for this very target,
new delete file when more documents are deleted than the meta records) differs from its core
(`advance`: `compute_deleted_bitset` from the cursor) by nothing but the early return: if
`delete_opstamp ≠ target` both leave the same documents, alive bits and cursor; if
`delete_opstamp = target` nothing at all happens (the cursor stays). -/
theorem C02_advanceDeletes_early_return_only [DecidableEq α] (log : List (DelOp α)) (t : Nat) (sg : Seg α) :
    (sg.delOp ≠ some t → sameCore (advanceDeletes log t sg) (advance log t sg))
    ∧ (sg.delOp = some t → advanceDeletes log t sg = sg) :=
  ⟨advanceDeletes_core log t sg, advanceDeletes_skip log t sg⟩

/-- **C02_mergeSegsD_committed.**  On the states the refinement invariant allows - every source of
a merge of committed segments sits exactly at the last commit `B` (`CommittedAt`, part of
`C02_cursor_discipline_invariant`) - `merge` with the real `advance_deletes` (early return
included, whatever the `delete_opstamp`s of the sources) produces exactly the merged segment of
the model's `mergeSegs`: the bookkeeping is invisible, which is why the state machine may use the
core.  (Without that hypothesis it is not: `C02_merge_counterexample_reopen_lost`.) -/
theorem C02_mergeSegsD_committed [DecidableEq α] (log : List (DelOp α)) (B newId : Nat) (srcs : List (Seg α))
    (h : ∀ sg ∈ srcs, CommittedAt log B sg) :
    mergeSegsD log B newId srcs = mergeSegs log B newId srcs := by
  apply mergeSegsD_eq_of_fields
  intro sg hsg
  have a := advanceDeletes_committedAt log B sg (h sg hsg)
  rw [advance_committedAt log B sg (h sg hsg)]
  exact a

/-- the same for sources none of which carries `delete_opstamp = target` (every merge of
uncommitted segments: their target is a fresh stamp) -/
theorem C02_mergeSegsD_fresh_target [DecidableEq α] (log : List (DelOp α)) (t newId : Nat) (srcs : List (Seg α))
    (h : ∀ sg ∈ srcs, sg.delOp ≠ some t) :
    mergeSegsD log t newId srcs = mergeSegs log t newId srcs := by
  apply mergeSegsD_eq_of_fields
  intro sg hsg
  obtain ⟨_, h2, h3⟩ := advanceDeletes_core log t sg (h sg hsg)
  exact ⟨h2, h3⟩

/-- F8, second manifestation (found by this check, reproduced on the real code): the last commit
(opstamp 5) deleted document 3 in segment B (`delete_opstamp = 5`); the writer is re-created and its
first operation, stamped 5 as well, deletes document 4 of B; a merge of A and B with target 5
advances A past that delete, SKIPS B ("already up to date") and gives the merged segment A's
cursor: document 4 is alive in the merged segment and the delete is behind its cursor - lost for
good.  (The core `mergeSegs` would instead remove 4 at once: the first manifestation.) -/
theorem C02_merge_counterexample_reopen_lost :
    let log : List (DelOp Nat) := [⟨5, fun d => d == 4⟩]
    let a : Seg Nat := { id := 0, docs := [⟨1, 1, true⟩, ⟨2, 2, true⟩], cursor := 0 }
    let b : Seg Nat := { id := 1, docs := [⟨3, 3, false⟩, ⟨4, 4, true⟩], cursor := 0, delOp := some 5, metaDead := 1 }
    mergeCommitted Gen.END_MERGE_CATCHUP_CMP log 5 [a, b] = some ([1, 2, 4], 1)
      ∧ (mergeSegs log 5 0 [a, b]).map (fun M => (aliveDocs M, M.cursor)) = some ([1, 2], 1) := by
  decide

/-- the corner next to it where the code is right, and what the seeded change C02-C breaks: both
sources carry `delete_opstamp = 5`, so `merge` applies nothing and the merged segment keeps the
cursor before the delete; with the extracted catch-up guard (`<`) `end_merge` leaves it alone -
document 4 stays published until a commit; with `<=` (code 1) `end_merge` applies the uncommitted
delete and publishes it. -/
theorem C02_catchup_guard_le_counterexample :
    let log : List (DelOp Nat) := [⟨5, fun d => d == 4⟩]
    let a : Seg Nat := { id := 0, docs := [⟨1, 1, false⟩, ⟨2, 2, true⟩], cursor := 0, delOp := some 5, metaDead := 1 }
    let b : Seg Nat := { id := 1, docs := [⟨3, 3, false⟩, ⟨4, 4, true⟩], cursor := 0, delOp := some 5, metaDead := 1 }
    mergeCommitted Gen.END_MERGE_CATCHUP_CMP log 5 [a, b] = some ([2, 4], 0)
      ∧ mergeCommitted 1 log 5 [a, b] = some ([2], 1) := by
  decide

/-- **the early return of `advance_deletes` after a reverted stamper** (why the refinement theorem,
whose state machine uses the core `advance`, transfers to the machine with bookkeeping only while
the stamper never goes back - `C02_bookkeeping_refines` / `C02_bookkeeping_counterexample`), at
the level of one segment:
`delete_all_documents` reverts the stamper to the stale `committed_opstamp` (F1/F3), below the
opstamp `T = 10` of `meta.json`.  A merge of two new uncommitted segments is running while
`delete 1` (opstamp 3) is pushed; `end_merge` sees `3 < T`, catches the merged segment up "to the
last commit" and records `delete_opstamp = T`.  The reused opstamps climb back: `delete 2` gets 9,
the next commit gets exactly `T` - and `advance_deletes(M, T)` returns early ("already up-to-date"):
document 2 is published although its delete (9) is older than the commit (10); the core `advance`
deletes it.  The history (`…; commit; delete_all_documents; add 1; add 2; delete 1; …; delete 2;
commit`) satisfies `okHist`: the refinement theorem holds for the core machine and, on this
shape, does not transfer to the code. -/
theorem C02_stale_catchup_lost_delete_counterexample :
    let M : Seg Nat := { id := 7, docs := mkDocs [(1, 0), (2, 1)], cursor := 0 }
    let log1 : List (DelOp Nat) := [⟨3, fun d => d == 1⟩]
    let log2 : List (DelOp Nat) := log1 ++ [⟨9, fun d => d == 2⟩]
    let M1 := catchUpWith Gen.END_MERGE_CATCHUP_CMP log1 10 M
    M1.delOp = some 10 ∧ aliveDocs M1 = [2]
      ∧ aliveDocs (advanceDeletes log2 10 M1) = [2]
      ∧ aliveDocs (advance log2 10 M1) = [] := by
  decide

/-! ## the state machine with the bookkeeping of `advance_deletes` (`Model/WriterBook.lean`) -/

/-- **C02_bookkeeping_refines.**  `stepD` / `runD` is the state machine in which every
`advance_deletes` of `commit`, `merge` and `end_merge` has its bookkeeping (the early return when
the entry's `delete_opstamp` is the target; a new `delete_opstamp` only when more documents are
deleted than recorded; metas kept by segment id, the merged entry new, a re-created writer starts
from the metas of `meta.json`).  For EVERY event sequence as in `C02_commit_refines_replay_partial`
(any merges, workers, commits, rollbacks / reopen) in which the stamper never goes below
`meta.opstamp` (`bookRun`: `delete_all_documents` only while `committed_opstamp`, which a commit
leaves stale, is not below it - i.e. on a writer that has not committed since it was created)
every run of that machine is, state by state, the run of the core machine - the early return only
ever fires where the core is the identity (a merge of committed segments at the last commit, or an
empty delete queue right after reopen) - and so publishes exactly the sequential replay.  Without
the hypothesis on `delete_all_documents` this is false: `C02_bookkeeping_counterexample`. -/
theorem C02_bookkeeping_refines [DecidableEq α] (n : Nat) (es : List (Event α)) (sD : WState α) (B : Book)
    (hok : okRun2 (WState.init n) es) (hk : bookRun (WState.init n) es)
    (hrun : runD (WState.init n, Book.init) es = some (sD, B)) :
    run (WState.init n) es = some sD
      ∧ List.Perm (published sD) (replay (history es)).committed
      ∧ List.Perm (live sD) (replay (history es)).pending := by
  have h := runD_run (WState.init n) Book.init SpecState.init es (sD, B) (inv_init n) (minv_init n) (binv_init n) hok hk hrun
  exact ⟨h, C02_commit_refines_replay_partial n es sD h hok⟩

theorem noSubsteps_of_bookHist (c : Bool) (es : List (Event α)) (h : bookHist c es = true) :
    es.all (fun e => !isSubstep e) = true := by
  induction es generalizing c with
  | nil => rfl
  | cons e es ih =>
    simp only [bookHist, Bool.and_eq_true] at h
    simp only [List.all_cons, Bool.and_eq_true]
    refine ⟨?_, ih _ h.2⟩
    cases e <;> first | rfl | (have := h.1; simp at this)

/-- **C02_bookkeeping_refines_history**: the same from the sequence of calls alone - `okHist` (as in
`C02_commit_refines_replay_history`) and `bookHist`: `delete_all_documents` is only called on a
writer object that has not committed yet (since `IndexWriter::new` / `rollback`). -/
theorem C02_bookkeeping_refines_history [DecidableEq α] (n : Nat) (es : List (Event α)) (sD : WState α) (B : Book)
    (hh : okHist HFlags.init (history es)) (hk : bookHist false es = true)
    (hrun : runD (WState.init n, Book.init) es = some (sD, B)) :
    List.Perm (published sD) (replay (history es)).committed :=
  (C02_bookkeeping_refines n es sD B
    (okRun2_of_okHist (WState.init n) SpecState.init HFlags.init es (inv_init n) (minv_init n) (flag_init n) hh
      (noSubsteps_of_bookHist false es hk))
    (bookRun_of_hist _ false es (fun _ => Nat.le_refl _) hk) hrun).2.1

/-- not vacuous, and the early return is exercised: the first commit (4) records
`delete_opstamp = 4` for segment 0, the merge of the committed segments (target 4) takes the early
return for it, the commit (6) writes the delete of document 2 into the merged segment; after the
rollback the re-created writer starts from these metas -/
example :
    let es : List (Event Nat) :=
      [.deleteAll, .add 1, .add 3, .recv 0, .recv 0, .cut 0, .register, .add 2, .recv 0, .cut 0, .register,
       .del (fun d => d == 1), .commit none, .mergeStart [0, 1] true, .del (fun d => d == 2), .mergeEnd 0, .commit none,
       .add 4, .rollback, .commit none]
    bookHist false es = true
      ∧ (runD (WState.init 1, Book.init) es).map (fun p => (published p.1, p.2.delOp 0, p.2.delOp 2))
          = some ([3], some 4, some 6) := by
  decide

/-- **F11 in the state machine with bookkeeping** (`C02:reused-opstamp-advance-deletes-early-return`,
reproduced on the real code by the harness scenario `stale_catchup`): five stamps, `commit` (5),
`delete_all_documents` in a clean state (the stamper goes back to the stale `committed_opstamp` 0),
two new segments, a merge of them (target 2) during which `delete 1` (3) is pushed - `end_merge`
catches up to 5 and records it -, `delete 2` (4), `commit` - which draws 5 again: the machine with
bookkeeping publishes 2, the core machine and the sequential replay nothing; the history satisfies
the hypothesis `okHist` of `C02_commit_refines_replay_history`. -/
theorem C02_bookkeeping_counterexample :
    let es : List (Event Nat) :=
      [.tick, .tick, .tick, .tick, .tick, .commit none, .deleteAll,
       .add 1, .recv 0, .cut 0, .register, .add 2, .recv 0, .cut 0, .register,
       .mergeStart [0, 1] true, .del (fun d => d == 1), .mergeEnd 0, .del (fun d => d == 2), .commit none]
    (runD (WState.init 1, Book.init) es).map (fun p => (published p.1, p.1.metas.opstamp, p.2.delOp 2)) = some ([2], 5, some 5)
      ∧ (run (WState.init 1) es).map published = some []
      ∧ (replay (history es)).committed = []
      ∧ okHistB HFlags.init (history es) = true := by
  decide

/-! ## the delete-cursor discipline, for every segment and every merged entry -/

/-- **C02_cursor_discipline_invariant.**  In every run as in `C02_commit_refines_replay_partial`:
* every finished segment (waiting for the updater, uncommitted, committed) satisfies `SegOK`: its
  alive bits are exactly the opstamp rule for the deletes *before* its cursor, and every delete at
  or after its cursor is younger than all its documents (so applying it without per-document
  opstamps is the rule);
* every segment under construction satisfies `BuildOK` (its `skip_to` skipped only deletes older
  than all its documents);
* every committed segment's cursor sits exactly at the last commit (`CommittedAt`);
* every merged entry in flight whose sources are still registered is a finished segment in that
  sense, all its documents alive, **its cursor the common cursor of its advanced sources**
  (`merge` clones the cursor after `advance_deletes`) - the documents it holds are exactly the
  source documents alive under the deletes before that cursor. -/
theorem C02_cursor_discipline_invariant [DecidableEq α] (n : Nat) (es : List (Event α)) (s : WState α)
    (hrun : run (WState.init n) es = some s) (hok : okRun2 (WState.init n) es) :
    (∀ sg ∈ s.inflight ++ s.uncommitted ++ s.committed, SegOK s.log sg)
    ∧ (∀ w ∈ s.workers, ∀ sg, w.seg = some sg → BuildOK s.log sg ∧ sg.cursor = w.cur)
    ∧ (∀ sg ∈ s.committed, CommittedAt s.log s.metas.opstamp sg)
    ∧ (∀ m ∈ s.merges, present m.ids (s.uncommitted ++ s.committed) → ∀ M, m.result = some M →
        SegOK s.log M ∧ (∀ d ∈ M.docs, d.alive = true)
        ∧ List.Perm (segPairs M) (((srcsOf m.ids (s.uncommitted ++ s.committed)).flatMap segPairs).filter
            (fun p => !dead (s.log.take M.cursor) p))) := by
  obtain ⟨hw, hm⟩ := inv_run2 (WState.init n) s SpecState.init es (inv_init n) (minv_init n) hok hrun
  refine ⟨hw.segs, fun w hw' => (hw.workers w hw').2.2, hm.cis, ?_⟩
  intro m hmem hp M hr
  obtain ⟨c, _, _, g⟩ := hm.good m hmem hp
  simp only [hr] at g
  obtain ⟨g0, g1, g2, g3⟩ := g
  subst g0
  exact ⟨g1, g2, g3⟩

/-! ## opstamps -/

/-- events that return the stamp they draw -/
def stampedApi : Event α → Bool
  | .add _ => true
  | .del _ => true
  | .batch _ => true
  | .commit _ => true
  | .prepare => true
  | .stamp _ => true
  | _ => false

/-- events that do not move the stamper backwards (all but `delete_all_documents`, which reverts
it, and `rollback`, which restarts it at the last commit) -/
def keepsStamper : Event α → Bool
  | .deleteAll => false
  | .rollback => false
  | _ => true

theorem C02_step_opstamps (s s' : WState α) (e : Event α) (r : Nat) (h : step s e = some (s', r)) :
    (keepsStamper e = true → s.stamper ≤ s'.stamper)
    ∧ (stampedApi e = true → s.stamper ≤ r ∧ r < s'.stamper) := by
  cases e with
  | add d => simp only [step, Option.some.injEq, Prod.mk.injEq] at h; obtain ⟨rfl, rfl⟩ := h; simp
  | del q => simp only [step, Option.some.injEq, Prod.mk.injEq] at h; obtain ⟨rfl, rfl⟩ := h; simp
  | batch items =>
    simp only [step, batch_fold, List.nil_append, Option.some.injEq, Prod.mk.injEq] at h
    obtain ⟨rfl, rfl⟩ := h
    simp; omega
  | deleteAll => simp [keepsStamper, stampedApi]
  | rollback => simp [keepsStamper, stampedApi]
  | commit p =>
    simp only [step] at h
    split at h
    · simp only [Option.some.injEq, Prod.mk.injEq] at h; obtain ⟨rfl, rfl⟩ := h; simp [saveMetas]
    · cases h
  | prepare =>
    simp only [step] at h
    split at h
    · simp only [Option.some.injEq, Prod.mk.injEq] at h; obtain ⟨rfl, rfl⟩ := h; simp
    · cases h
  | recv w =>
    refine ⟨fun _ => ?_, by simp [stampedApi]⟩
    simp only [step] at h
    split at h
    · split at h
      · split at h
        · cases h
        · simp only [Option.some.injEq, Prod.mk.injEq] at h; obtain ⟨rfl, _⟩ := h; exact Nat.le_refl _
      · simp only [Option.some.injEq, Prod.mk.injEq] at h; obtain ⟨rfl, _⟩ := h; exact Nat.le_refl _
    · cases h
  | cut w =>
    refine ⟨fun _ => ?_, by simp [stampedApi]⟩
    simp only [step] at h
    split at h
    · split at h
      · simp only [Option.some.injEq, Prod.mk.injEq] at h; obtain ⟨rfl, _⟩ := h; exact Nat.le_refl _
      · cases h
    · cases h
  | register =>
    refine ⟨fun _ => ?_, by simp [stampedApi]⟩
    simp only [step] at h
    split at h
    · simp only [Option.some.injEq, Prod.mk.injEq] at h; obtain ⟨rfl, _⟩ := h; exact Nat.le_refl _
    · cases h
  | tick => simp only [step, Option.some.injEq, Prod.mk.injEq] at h; obtain ⟨rfl, _⟩ := h; simp [stampedApi]
  | flush => simp only [step, Option.some.injEq, Prod.mk.injEq] at h; obtain ⟨rfl, _⟩ := h; simp [stampedApi]
  | mergeStart ids policy =>
    refine ⟨fun _ => ?_, by simp [stampedApi]⟩
    simp only [step] at h
    split at h
    · cases h
    · split at h
      · simp only [Option.some.injEq, Prod.mk.injEq] at h; obtain ⟨rfl, _⟩ := h
        show s.stamper ≤ s.stamper + 1; omega
      · split at h
        · simp only [Option.some.injEq, Prod.mk.injEq] at h; obtain ⟨rfl, _⟩ := h; exact Nat.le_refl _
        · cases h
  | mergeEnd k =>
    refine ⟨fun _ => ?_, by simp [stampedApi]⟩
    simp only [step] at h
    split at h
    · cases h
    · split at h
      · simp only [Option.some.injEq, Prod.mk.injEq] at h; obtain ⟨rfl, _⟩ := h; exact Nat.le_refl _
      · split at h
        · simp only [Option.some.injEq, Prod.mk.injEq] at h; obtain ⟨rfl, _⟩ := h; exact Nat.le_refl _
        · simp only [Option.some.injEq, Prod.mk.injEq] at h; obtain ⟨rfl, _⟩ := h; exact Nat.le_refl _
  | stamp op =>
    cases op with
    | add d => simp only [step, Option.some.injEq, Prod.mk.injEq] at h; obtain ⟨rfl, rfl⟩ := h; simp
    | del q => simp only [step, Option.some.injEq, Prod.mk.injEq] at h; obtain ⟨rfl, rfl⟩ := h; simp
    | batch items =>
      simp only [step, batch_fold, List.nil_append, Option.some.injEq, Prod.mk.injEq] at h
      obtain ⟨rfl, rfl⟩ := h
      simp; omega
    | deleteAll => simp [step] at h
    | commit p => simp [step] at h
    | rollback => simp [step] at h
    | prepare => simp [step] at h
  | publish k =>
    refine ⟨fun _ => ?_, by simp [stampedApi]⟩
    simp only [step] at h
    split at h
    · cases h
    · simp only [Option.some.injEq, Prod.mk.injEq] at h; obtain ⟨rfl, _⟩ := h; exact Nat.le_refl _
    · simp only [Option.some.injEq, Prod.mk.injEq] at h; obtain ⟨rfl, _⟩ := h; exact Nat.le_refl _

theorem C02_run_stamper_mono (s s' : WState α) (es : List (Event α)) (h : run s es = some s')
    (hk : es.all keepsStamper = true) : s.stamper ≤ s'.stamper := by
  induction es generalizing s with
  | nil => simp only [run, Option.some.injEq] at h; subst h; exact Nat.le_refl _
  | cons e es ih =>
    simp only [List.all_cons, Bool.and_eq_true] at hk
    simp only [run] at h
    split at h
    · rename_i s1 r hs
      exact Nat.le_trans ((C02_step_opstamps s s1 e r hs).1 hk.1) (ih s1 h hk.2)
    · cases h

/-- **C02_returned_opstamps_increase.**  For any number of workers, any schedule of the internal
events and any merges: between two API calls that return a stamp (`add_document`, `delete_*`,
`run`, `prepare_commit`, `commit`), if no `delete_all_documents` and no `rollback` happens in
between, the later call returns a strictly larger opstamp - whatever happened before (re-opened
writer included).  Together with `C02_opstamp_monotone_partial`: the opstamp of a commit exceeds
that of every operation it includes and is what `meta.json` holds. -/
theorem C02_returned_opstamps_increase (s s1 s2 s3 : WState α) (e1 e2 : Event α) (mid : List (Event α)) (r1 r2 : Nat)
    (h1 : step s e1 = some (s1, r1)) (hmid : run s1 mid = some s2) (h2 : step s2 e2 = some (s3, r2))
    (hs1 : stampedApi e1 = true) (hs2 : stampedApi e2 = true) (hk : mid.all keepsStamper = true) : r1 < r2 := by
  have a := (C02_step_opstamps s s1 e1 r1 h1).2 hs1
  have b := C02_run_stamper_mono s1 s2 mid hmid hk
  have c := (C02_step_opstamps s2 s3 e2 r2 h2).2 hs2
  omega

/-! ## rollback -/

/-- **C02_rollback_restores**: after `rollback` (also `abort`, drop + reopen) the writer is a new
writer over `meta.json`: what is published is unchanged, the registers hold exactly the
published documents, the pipeline (channel, workers, finished segments, uncommitted register,
delete queue, merges) is empty, and the stamper restarts at the opstamp of the last commit,
which is what the call returns and what `commit_opstamp()` reports. -/
theorem C02_rollback_restores (s : WState α) :
    ∃ s', step s .rollback = some (s', s.metas.opstamp)
      ∧ published s' = published s
      ∧ s'.committed.flatMap aliveDocs = published s
      ∧ s'.uncommitted = [] ∧ s'.inflight = [] ∧ s'.channel = [] ∧ s'.log = [] ∧ s'.merges = []
      ∧ (∀ w ∈ s'.workers, w.seg = none)
      ∧ s'.stamper = s.metas.opstamp ∧ commitOpstamp s' = s.metas.opstamp ∧ s'.metas = s.metas := by
  refine ⟨_, rfl, rfl, ?_, rfl, rfl, rfl, rfl, rfl, ?_, rfl, rfl, rfl⟩
  · simp only [published, List.flatMap_map]
    apply flatMap_congr'
    intro sg _
    simp [aliveDocs, reload, List.filter_filter]
  · intro w hw
    simp at hw
    obtain ⟨_, _, rfl⟩ := hw
    rfl

/-! ## batches -/

/-- **C02_batch_atomic_order**: `run(items)` draws `|items| + 1` contiguous opstamps; item `i`
gets `stamper + i`, the call returns `stamper + |items|`; the deletes are appended to the delete
queue and the adds travel as **one** batch (one element of the channel, hence to one worker, which
`recv` hands over as a unit), both in the order written and carrying their own stamps — so a
delete of the batch removes exactly the matching documents stamped before it, inside and outside
the batch (`C02_delete_only_earlier`). -/
theorem C02_batch_atomic_order (s : WState α) (items : List (Item α)) :
    let stamped := stampItems s.stamper items
    ∃ s', step s (.batch items) = some (s', s.stamper + items.length)
      ∧ s'.stamper = s.stamper + items.length + 1
      ∧ stamped.map (·.1) = items ∧ stamped.map (·.2) = List.range' s.stamper items.length
      ∧ s'.log = s.log ++ batchDels stamped
      ∧ s'.channel = (if (batchAdds stamped).isEmpty then s.channel else s.channel ++ [batchAdds stamped])
      ∧ s'.uncommitted = s.uncommitted ∧ s'.committed = s.committed ∧ s'.metas = s.metas := by
  intro stamped
  simp only [step, batch_fold, List.nil_append]
  exact ⟨_, rfl, rfl, stampItems_items _ _, stampItems_stamps _ _, rfl, rfl, rfl, rfl, rfl⟩

/-- every `recv` moves one whole batch from the channel into one worker's segment -/
theorem C02_batch_one_unit (s s' : WState α) (w r : Nat) (h : step s (.recv w) = some (s', r)) :
    ∃ b rest wk, s.channel = b :: rest ∧ s'.channel = rest ∧ s.workers[w]? = some wk
      ∧ ∃ sg, (s'.workers[w]?).bind (·.seg) = some sg
          ∧ sg.docs = (match wk.seg with | some old => old.docs | none => []) ++ mkDocs b := by
  simp only [step] at h
  split at h
  · rename_i b rest wk hc hw
    have hwlt : w < s.workers.length := by
      rcases Nat.lt_or_ge w s.workers.length with hlt | hge
      · exact hlt
      · simp [List.getElem?_eq_none hge] at hw
    split at h
    · rename_i hseg
      split at h
      · cases h
      · rename_i first tl
        simp only [Option.some.injEq, Prod.mk.injEq] at h
        obtain ⟨rfl, _⟩ := h
        refine ⟨_, rest, wk, hc, rfl, hw, ?_⟩
        simp [hwlt, hseg]
    · rename_i sg hseg
      simp only [Option.some.injEq, Prod.mk.injEq] at h
      obtain ⟨rfl, _⟩ := h
      refine ⟨b, rest, wk, hc, rfl, hw, ?_⟩
      simp [hwlt, hseg]
  · cases h

/-! ## producer sub-steps

`add_document`, `delete_query` / `delete_term` and `run` are not atomic in the code: a producer
thread first draws its stamps (`run` also queues its deletes), then sends its adds to the channel
(`delete_*`: pushes the delete).  `Event.stamp` / `Event.publish` are these two sub-steps
(`tantivy::verif::pause_point` sits between them; the forced schedules of the harness drive the
real code through them and compare the outcome with this model, driver op `substeps`). -/

/-- the atomic event of an API call that has two sub-steps -/
def atomicOf : Op α → Option (Event α)
  | .add d => some (.add d)
  | .del q => some (.del q)
  | .batch items => some (.batch items)
  | _ => none

theorem eraseIdx_concat_length {β : Type} (l : List β) (a : β) : (l ++ [a]).eraseIdx l.length = l := by
  induction l with
  | nil => rfl
  | cons x l ih => simp [List.eraseIdx_cons_succ, ih]

/-- **C02_substeps_atomic**: whatever other producers have stamped and not yet published, the first
sub-step of a call immediately followed by its second one is the atomic event of the state machine
(same state, same returned opstamp): the atomic events of the refinement theorem are exactly the
calls whose two sub-steps are not interleaved with anything. -/
theorem C02_substeps_atomic (s : WState α) (op : Op α) (e : Event α) (he : atomicOf op = some e) :
    (step s (.stamp op)).bind (fun p => (step p.1 (.publish s.pendingPubs.length)).map (fun q => (q.1, p.2)))
      = step s e := by
  cases op with
  | add d =>
    simp only [atomicOf, Option.some.injEq] at he; subst he
    simp [step, eraseIdx_concat_length]
  | del q =>
    simp only [atomicOf, Option.some.injEq] at he; subst he
    simp [step, eraseIdx_concat_length]
  | batch items =>
    simp only [atomicOf, Option.some.injEq] at he; subst he
    simp only [step, Option.bind_some, List.getElem?_concat_length, eraseIdx_concat_length, Option.map_some]
  | deleteAll => simp [atomicOf] at he
  | commit p => simp [atomicOf] at he
  | rollback => simp [atomicOf] at he
  | prepare => simp [atomicOf] at he

/-- every API call as its two sub-steps, one right after the other -/
def expandEvent : Event α → List (Event α)
  | .add d => [.stamp (.add d), .publish 0]
  | .del q => [.stamp (.del q), .publish 0]
  | .batch items => [.stamp (.batch items), .publish 0]
  | e => [e]

def expand (es : List (Event α)) : List (Event α) := es.flatMap expandEvent

theorem history_expand (es : List (Event α)) : history (expand es) = history es := by
  induction es with
  | nil => rfl
  | cons e es ih =>
    have : history (expandEvent e) = history [e] := by
      cases e <;> simp [expandEvent, history, Event.toOp]
    simp only [expand, List.flatMap_cons, history, List.filterMap_append] at *
    rw [ih, this]
    simp [List.filterMap_cons]
    cases e.toOp <;> rfl

/-- no atomic event leaves anything stamped-but-unpublished behind -/
theorem step_pending_nil (s s' : WState α) (e : Event α) (r : Nat) (h : step s e = some (s', r))
    (hns : isSubstep e = false) (hp : s.pendingPubs = []) : s'.pendingPubs = [] := by
  cases e with
  | add d => simp only [step, Option.some.injEq, Prod.mk.injEq] at h; obtain ⟨rfl, _⟩ := h; exact hp
  | del q => simp only [step, Option.some.injEq, Prod.mk.injEq] at h; obtain ⟨rfl, _⟩ := h; exact hp
  | batch items => simp only [step, Option.some.injEq, Prod.mk.injEq] at h; obtain ⟨rfl, _⟩ := h; exact hp
  | deleteAll => simp only [step, Option.some.injEq, Prod.mk.injEq] at h; obtain ⟨rfl, _⟩ := h; exact hp
  | rollback => simp only [step, Option.some.injEq, Prod.mk.injEq] at h; obtain ⟨rfl, _⟩ := h; rfl
  | commit p =>
    simp only [step] at h
    split at h
    · simp only [Option.some.injEq, Prod.mk.injEq] at h; obtain ⟨rfl, _⟩ := h; exact hp
    · cases h
  | prepare =>
    simp only [step] at h
    split at h
    · simp only [Option.some.injEq, Prod.mk.injEq] at h; obtain ⟨rfl, _⟩ := h; exact hp
    · cases h
  | recv w =>
    simp only [step] at h
    split at h
    · split at h
      · split at h
        · cases h
        · simp only [Option.some.injEq, Prod.mk.injEq] at h; obtain ⟨rfl, _⟩ := h; exact hp
      · simp only [Option.some.injEq, Prod.mk.injEq] at h; obtain ⟨rfl, _⟩ := h; exact hp
    · cases h
  | cut w =>
    simp only [step] at h
    split at h
    · split at h
      · simp only [Option.some.injEq, Prod.mk.injEq] at h; obtain ⟨rfl, _⟩ := h; exact hp
      · cases h
    · cases h
  | register =>
    simp only [step] at h
    split at h
    · simp only [Option.some.injEq, Prod.mk.injEq] at h; obtain ⟨rfl, _⟩ := h; exact hp
    · cases h
  | tick => simp only [step, Option.some.injEq, Prod.mk.injEq] at h; obtain ⟨rfl, _⟩ := h; exact hp
  | flush => simp only [step, Option.some.injEq, Prod.mk.injEq] at h; obtain ⟨rfl, _⟩ := h; exact hp
  | mergeStart ids policy =>
    simp only [step] at h
    split at h
    · cases h
    · split at h
      · simp only [Option.some.injEq, Prod.mk.injEq] at h; obtain ⟨rfl, _⟩ := h; exact hp
      · split at h
        · simp only [Option.some.injEq, Prod.mk.injEq] at h; obtain ⟨rfl, _⟩ := h; exact hp
        · cases h
  | mergeEnd k =>
    simp only [step] at h
    split at h
    · cases h
    · split at h
      · simp only [Option.some.injEq, Prod.mk.injEq] at h; obtain ⟨rfl, _⟩ := h; exact hp
      · split at h
        · simp only [Option.some.injEq, Prod.mk.injEq] at h; obtain ⟨rfl, _⟩ := h; exact hp
        · simp only [Option.some.injEq, Prod.mk.injEq] at h; obtain ⟨rfl, _⟩ := h; exact hp
  | stamp op => simp [isSubstep] at hns
  | publish k => simp [isSubstep] at hns

theorem run_append (s : WState α) (l1 l2 : List (Event α)) :
    run s (l1 ++ l2) = (run s l1).bind (fun s' => run s' l2) := by
  induction l1 generalizing s with
  | nil => rfl
  | cons e l1 ih =>
    simp only [List.cons_append, run]
    cases step s e with
    | none => rfl
    | some p => exact ih p.1

theorem run_two_of_eq (s : WState α) (e1 e2 e : Event α)
    (h : (step s e1).bind (fun p => (step p.1 e2).map (fun q => (q.1, p.2))) = step s e) :
    run s [e1, e2] = run s [e] := by
  simp only [run]
  rw [← h]
  cases step s e1 with
  | none => rfl
  | some p =>
    obtain ⟨s1, r1⟩ := p
    simp only [Option.bind_some]
    cases step s1 e2 with
    | none => rfl
    | some q => obtain ⟨s2, r2⟩ := q; rfl

theorem run_expandEvent (s : WState α) (e : Event α) (hp : s.pendingPubs = []) :
    run s (expandEvent e) = run s [e] := by
  have h0 : s.pendingPubs.length = 0 := by rw [hp]; rfl
  cases e with
  | add d =>
    have := C02_substeps_atomic s (.add d) (.add d) rfl
    rw [h0] at this
    exact run_two_of_eq s _ _ _ this
  | del q =>
    have := C02_substeps_atomic s (.del q) (.del q) rfl
    rw [h0] at this
    exact run_two_of_eq s _ _ _ this
  | batch items =>
    have := C02_substeps_atomic s (.batch items) (.batch items) rfl
    rw [h0] at this
    exact run_two_of_eq s _ _ _ this
  | _ => rfl

theorem run_expand (s : WState α) (es : List (Event α)) (hns : es.all (fun e => !isSubstep e) = true)
    (hp : s.pendingPubs = []) : run s (expand es) = run s es := by
  induction es generalizing s with
  | nil => rfl
  | cons e es ih =>
    simp only [List.all_cons, Bool.and_eq_true, Bool.not_eq_true'] at hns
    show run s (expandEvent e ++ expand es) = run s (e :: es)
    rw [run_append, run_expandEvent s e hp]
    simp only [run]
    cases hs : step s e with
    | none => rfl
    | some p =>
      obtain ⟨s', r⟩ := p
      exact ih s' (by simpa using hns.2) (step_pending_nil s s' e r hs hns.1 hp)

/-- **C02_commit_refines_replay_substeps_adjacent**: the refinement theorem for runs in which every
`add_document` / `delete_*` / `run` is written as its two sub-steps, as long as the two sub-steps
of a call are adjacent (any number of producer threads whose calls do not overlap between stamp
and send; workers, merges, commits, rollbacks anywhere).  What is outside - sub-steps of two calls
interleaved - is false in general: `C02_substeps_counterexample` (F10). -/
theorem C02_commit_refines_replay_substeps_adjacent [DecidableEq α] (n : Nat) (es : List (Event α)) (s : WState α)
    (hns : es.all (fun e => !isSubstep e) = true)
    (hrun : run (WState.init n) (expand es) = some s) (hok : okRun2 (WState.init n) es) :
    List.Perm (published s) (replay (history (expand es))).committed
      ∧ List.Perm (live s) (replay (history (expand es))).pending := by
  rw [history_expand]
  rw [run_expand (WState.init n) es hns rfl] at hrun
  exact C02_commit_refines_replay_partial n es s hrun hok

/-- **F10 in the state machine** (`C02:producer-race-skip-to-passes-own-delete`; reproduced on the
real code by the forced schedule `s1 s2 p2 p1`): producer A stamps the batch
`[add 10, delete 10, add 11]` (stamps 0, 1, 2, returns 3) and queues its delete; producer B stamps
`add 12` (4) and is sent first; the worker starts a segment with 12 - `skip_to(4)` moves its
cursor past A's delete - and cuts it; then A's adds arrive and form the next segment, whose cursor
starts after the delete: the commit publishes 10, although in both orders of the two calls the
sequential replay deletes it. -/
theorem C02_substeps_counterexample :
    let a : Op Nat := .batch [.add 10, .del (fun d => d == 10), .add 11]
    let b : Op Nat := .add 12
    let es : List (Event Nat) :=
      [.stamp a, .stamp b, .publish 1, .recv 0, .cut 0, .publish 0, .recv 0, .cut 0, .register, .register, .commit none]
    (run (WState.init 1) es).map published = some [12, 10, 11]
      ∧ (replay (history es)).committed = [11, 12]
      ∧ (replay [b, a, .commit none]).committed = [12, 11] := by
  decide

/-- **returned opstamps do not order overlapping calls**: `delete 10` stamps first (0), `add 10`
second (1) and is sent first.  If the worker cuts the segment before the delete is pushed, the
commit applies the delete to the finished segment (no per-document opstamps any more,
`DocToOpstampMapping::None`): 10 is deleted - the sequential effect in the order add, delete, not
in stamp order; if the worker takes the batch after the push, `skip_to(1)` passes the delete and
10 survives.  Both outcomes are sequential effects of the two overlapping calls in SOME order
(what the forced schedules of the harness accept), unlike `C02_substeps_counterexample`. -/
theorem C02_substeps_stamp_order_counterexample :
    let a : Op Nat := .del (fun d => d == 10)
    let b : Op Nat := .add 10
    let eager : List (Event Nat) := [.stamp a, .stamp b, .publish 1, .recv 0, .cut 0, .register, .publish 0, .commit none]
    let lazy : List (Event Nat) := [.stamp a, .stamp b, .publish 1, .publish 0, .recv 0, .cut 0, .register, .commit none]
    (run (WState.init 1) eager).map published = some []
      ∧ (run (WState.init 1) lazy).map published = some [10]
      ∧ (replay (history eager)).committed = [10]
      ∧ (replay [b, a, .commit none]).committed = [] := by
  decide

/-- the same two calls with the sub-steps of A adjacent (B stamps in between or not): 10 is deleted -/
example :
    let a : Op Nat := .batch [.add 10, .del (fun d => d == 10), .add 11]
    let b : Op Nat := .add 12
    (run (WState.init 1)
      [.stamp a, .publish 0, .stamp b, .publish 0, .recv 0, .cut 0, .recv 0, .cut 0, .register, .register, .commit none]).map
        published = some [11, 12] := by
  decide

/-- `C02_commit_refines_replay_substeps_adjacent` is not vacuous -/
example : (expand ([.add 1, .del (fun d => d == 1), .commit none] : List (Event Nat))).length = 5
    ∧ okRun2 (WState.init 1) ([.add (1 : Nat), .recv 0, .cut 0, .register, .commit none]) := by
  refine ⟨by decide, ?_⟩
  exact okRun2_of_okHist (WState.init 1) SpecState.init HFlags.init _ (inv_init 1) (minv_init 1) (flag_init 1)
    (by show okHist HFlags.init [Op.add 1, Op.commit none]; simp [okHist, okOp]) (by decide)

/-! ## the three (four) counter-examples: the unrestricted statement is false

Status of the full statement: every clause of the property is proved for all event sequences
under the two hypotheses of `C02_commit_refines_replay_partial` (merges, any number of workers,
reopen included); what remains outside is exactly what the counter-examples below (and F9, F10,
which need a second OS thread: `C02_producer_race_counterexample` and the harness) show to be false
in the code, plus the sub-steps of concurrent producers, which the model takes as atomic.

`C02_full` — *for every event sequence `es` with `run (WState.init n) es = some s`:
`published s` is a permutation of `(replay (history es)).committed`, and
`commitOpstamp s = s.metas.opstamp`* — is **not provable**: the model, like the code, falsifies it. -/

/-- F1: `IndexWriter::committed_opstamp` is assigned in `IndexWriter::new` only: after
`add; add; commit` the commit returned 2 (= `meta.json`), `commit_opstamp()` still says 0. -/
theorem C02_commit_opstamp_counterexample :
    (run (WState.init 1) [.add (1 : Nat), .add 2, .recv 0, .recv 0, .cut 0, .register, .commit none]).map
      (fun s => (s.metas.opstamp, commitOpstamp s, published s)) = some (2, 0, [1, 2]) := by
  decide

/-- F2: `add a; commit; add b; delete_all_documents; commit` publishes `b`: the document was still
in the pipeline (channel / worker), `remove_all_segments` only clears the registers. -/
theorem C02_deleteAll_counterexample_pending :
    let es : List (Event Nat) :=
      [.add 1, .recv 0, .cut 0, .register, .commit none, .add 2, .deleteAll, .recv 0, .cut 0, .register, .commit none]
    (run (WState.init 1) es).map published = some [2] ∧ (replay (history es)).committed = [] := by
  decide

/-- F3: `commit; delete_term(k); delete_all_documents; add(k); commit`: the stamper is reverted
below the opstamp of the queued delete, so the *later* add gets a *smaller* opstamp and the
commit (opstamp 1 = the delete's) applies the delete to it. -/
theorem C02_deleteAll_counterexample_order :
    let es : List (Event Nat) :=
      [.commit none, .del (fun d => d == 7), .deleteAll, .add 7, .recv 0, .cut 0, .register, .commit none]
    (run (WState.init 1) es).map published = some [] ∧ (replay (history es)).committed = [7] := by
  decide

/-- F3': nothing needs to be *pending*: a delete that was committed earlier by the same writer
is still ahead of the new workers' cursors (they start at the flushed end of the queue), and the
stale `committed_opstamp` reverts the stamper below it. -/
theorem C02_deleteAll_counterexample_committed_delete :
    let es : List (Event Nat) :=
      [.del (fun d => d == 5), .del (fun d => d == 7), .commit none, .deleteAll, .add 7, .recv 0, .cut 0,
       .register, .commit none]
    (run (WState.init 1) es).map published = some [] ∧ (replay (history es)).committed = [7] := by
  decide

/-- F8 (found by this check): a re-created writer (`rollback`, reopen) restarts the stamper *at* the
opstamp of the last commit, so its first operation shares that opstamp; a merge of committed
segments — whose target is exactly that opstamp — applies a first `delete` and `end_merge`
publishes the result: a document disappears from the searchers without any commit. -/
theorem C02_merge_counterexample_reopen :
    let es : List (Event Nat) :=
      [.add 7, .recv 0, .cut 0, .register, .commit none, .rollback, .del (fun d => d == 7),
       .mergeStart [0] false, .mergeEnd 0]
    (run (WState.init 1) es).map published = some [] ∧ (replay (history es)).committed = [7] := by
  decide

/-! ## non-vacuity -/

-- a non-trivial run exists: three workers, segments cut inside the transaction, a delete between
-- two documents of one segment, a batch, a policy merge of uncommitted segments, a rollback
example :
    let es : List (Event Nat) :=
      [.add 1, .add 2, .recv 1, .del (fun d => d == 2 || d == 3), .add 3, .recv 1, .recv 2, .cut 1,
       .batch [.add 4, .del (fun d => d == 4 || d == 5), .add 5], .register, .recv 0, .cut 0, .cut 2,
       .register, .register, .mergeStart [0, 1] true, .commit (some 9), .mergeEnd 0, .add 6, .rollback]
    (run (WState.init 3) es).map published = some [5, 1, 3]   -- a permutation: the merge reordered
      ∧ (replay (history es)).committed = [1, 3, 5] := by decide
-- the hypotheses of the refinement theorem hold on that run up to the merge (plain events), and
-- on a run with a clean delete_all_documents
example :
    let es : List (Event Nat) :=
      [.add 1, .add 2, .recv 1, .del (fun d => d == 2 || d == 3), .add 3, .recv 1, .recv 2, .cut 1,
       .batch [.add 4, .del (fun d => d == 4 || d == 5), .add 5], .register, .recv 0, .cut 0, .cut 2,
       .register, .register, .commit (some 9), .add 6, .rollback]
    es.all plainEvent = true ∧ (run (WState.init 3) es).map published = some [1, 5, 3] := by decide
-- the history-level hypotheses hold on a history with a policy merge, a rollback followed by an
-- add, and a clean delete_all_documents; they fail on the F8 shape
example : okHist HFlags.init (history ([.add 1, .recv 0, .cut 0, .register, .add 2, .recv 0, .cut 0, .register,
    .mergeStart [0, 1] true, .commit none, .mergeEnd 0, .rollback, .deleteAll, .add 3] : List (Event Nat))) := by
  show okHist HFlags.init [Op.add 1, Op.add 2, Op.commit none, Op.rollback, Op.deleteAll, Op.add 3]
  simp [okHist, okOp, hstepOp, HFlags.init]
example : ¬ okHist HFlags.init (history ([.add 7, .commit none, .rollback, .del (fun d => d == 7)] : List (Event Nat))) := by
  show ¬ okHist HFlags.init [Op.add 7, Op.commit none, Op.rollback, Op.del (fun d => d == 7)]
  simp [okHist, okOp, hstepOp, HFlags.init]
example :
    (run (WState.init 1) ([.add 1, .recv 0, .cut 0, .register, .add 2, .recv 0, .cut 0, .register,
      .mergeStart [0, 1] true, .commit none, .mergeEnd 0, .rollback, .deleteAll, .add 3] : List (Event Nat))).map
      (fun s => (published s, s.merges.length, s.committed.length)) = some ([1, 2], 0, 0) := by decide
-- returned opstamps on a run with a re-opened writer, a tick and a merge in between
example :
    let s0 : WState Nat := WState.init 2
    (do let (s1, r1) ← step s0 (.add 1)
        let s2 ← run s1 [.recv 0, .tick, .cut 0, .register, .add 2, .recv 1, .cut 1, .register, .mergeStart [0, 1] true]
        let (_, r2) ← step s2 (.commit none)
        pure (r1, r2)) = some (0, 4) := by decide
-- `CommittedAt` is satisfiable with a delete on each side of the cursor and a delete_opstamp
example : CommittedAt ([⟨3, fun _ => true⟩, ⟨9, fun _ => false⟩] : List (DelOp Nat)) 5
    ({ id := 0, docs := [⟨1, 1, false⟩], cursor := 1, delOp := some 5, metaDead := 1 } : Seg Nat) := by
  constructor <;> intro del hd <;> simp at hd <;> subst hd <;> decide
example : cleanState (WState.init 2 : WState Nat) := by
  refine ⟨rfl, rfl, rfl, rfl, ?_⟩
  intro w hw
  simp only [WState.init, List.mem_replicate] at hw
  rw [hw.2]
example : cleanFrom (CState.init : CState Nat) [some (.add 1), some (.commit none), some .rollback, some .deleteAll] := by
  simp [cleanFrom, cstep, CState.init]
example : processed 5 [⟨3, fun d => d == (1 : Nat)⟩, ⟨5, fun _ => true⟩, ⟨6, fun _ => true⟩] ≠ [] := by
  simp [processed]
example : ∃ s : WState Nat, s.metas.segs ≠ [] ∧ s.channel ≠ [] :=
  ⟨{ WState.init 1 with channel := [[(1, 0)]], metas := ⟨0, none, [{ id := 0, docs := [⟨1, 0, true⟩], cursor := 0 }]⟩ }, by simp, by simp⟩

end TantivyModel.C02
