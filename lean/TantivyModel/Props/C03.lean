import TantivyModel.Proofs.BoolCompile
import TantivyModel.Proofs.QueryLists
import TantivyModel.Proofs.PhraseSlop
import TantivyModel.Proofs.OrderEnc
import TantivyModel.Proofs.LeafTree
import TantivyModel.Proofs.JsonRange
import TantivyModel.Proofs.FastRange
import TantivyModel.Proofs.Carrying
import TantivyModel.Proofs.PhraseAlign
import TantivyModel.Proofs.PhraseExact
import TantivyModel.Gen.PhraseScorer
/-!
# C03 — Queries match exactly the documents their logical meaning prescribes

Property theorems only (helper lemmas live in `Proofs/`).

* spec: `QuerySem.sem` / `QuerySem.answer`;
* implementation model: `BoolCompile.compile` (mirrors `BooleanWeight::scorer` /
  `complex_scorer`), interpreted by `BoolCompile.mem` / `interp`;
* `cls : LeafCls` says which scorer *type* every leaf weight returns (the code eliminates
  `AllScorer` / `EmptyScorer` by type); the theorems hold for every classifier that is sound on
  leaves (`LeafSound`), `leafTree` — the classifier the driver executes — is one of them.
-/
namespace TantivyModel.C03
open TantivyModel TantivyModel.QuerySem TantivyModel.BoolCompile

/-- a leaf scorer produces exactly the documents of the segment that satisfy the leaf
(hypothesis `leafOk`: not a phrase of ≥ 3 terms with slop ≥ 1 — DESIGN S6) -/
def LeafSoundOn (cls : LeafCls) (docs : List ADoc) : Prop :=
  ∀ (scoring b : Bool) (l : Leaf) (d : Nat) (h : d < docs.length),
    leafOk l = true → mem docs.length (cls scoring b l docs) d = semLeaf l docs[d]

/-- sound on every segment -/
def LeafSound (cls : LeafCls) : Prop := ∀ docs, LeafSoundOn cls docs


/-! ## compile is sound (partial: side conditions `okQ`) -/

mutual
theorem compile_mem (cls : LeafCls) (guard : Bool) (scoring : Bool) (docs : List ADoc) (hcls : LeafSoundOn cls docs)
    (d : Nat) (hd : d < docs.length) :
    (q : Query) → (b : Bool) → okQ guard q = true →
      mem docs.length (compile cls guard scoring docs b q) d = sem q docs[d]
  | .leaf l, b, h => by
    simp only [compile, sem]
    exact hcls scoring b l d hd (by simpa [okQ] using h)
  | .boost q, b, h => by
    simp only [compile, sem]
    exact compile_mem cls guard scoring docs hcls d hd q _ (by simpa [okQ] using h)
  | .constScore q, b, h => by
    have ih := compile_mem cls guard scoring docs hcls d hd q b (by simpa [okQ] using h)
    simp only [compile, sem]
    split
    · simpa [mem] using ih
    · exact ih
  | .disMax qs, b, h => by
    have ih := compileAny_vals cls guard scoring docs hcls d hd qs b (by simpa [okQ] using h)
    simp only [compile, sem]
    rw [mem_boolScorer guard scoring docs.length d hd _ _ (singleOkT_compileAny cls guard scoring docs b qs), ih,
      boolSem_should_only, semAny_eq_any]
  | .bool cs msm, b, h => by
    have h' : singleOk guard cs msm = true ∧ okCs guard cs = true := by simpa [okQ] using h
    have ih := compileClauses_vals cls guard scoring docs hcls d hd cs b h'.2
    simp only [compile, sem]
    rw [mem_boolScorer guard scoring docs.length d hd _ _
      (by rw [singleOkT_compileClauses]; exact h'.1), ih]
theorem compileAny_vals (cls : LeafCls) (guard : Bool) (scoring : Bool) (docs : List ADoc) (hcls : LeafSoundOn cls docs)
    (d : Nat) (hd : d < docs.length) :
    (qs : List Query) → (b : Bool) → okQs guard qs = true →
      valsOf docs.length d (compileAny cls guard scoring docs b qs)
        = qs.map (fun q => (Occur.should, sem q docs[d]))
  | [], _, _ => by simp [compileAny, valsOf]
  | q :: qs, b, h => by
    have h' : okQ guard q = true ∧ okQs guard qs = true := by simpa [okQs] using h
    have i1 := compile_mem cls guard scoring docs hcls d hd q b h'.1
    have i2 := compileAny_vals cls guard scoring docs hcls d hd qs b h'.2
    simp only [compileAny, valsOf, List.map_cons] at i2 ⊢
    rw [i1, i2]
theorem compileClauses_vals (cls : LeafCls) (guard : Bool) (scoring : Bool) (docs : List ADoc) (hcls : LeafSoundOn cls docs)
    (d : Nat) (hd : d < docs.length) :
    (cs : List (Occur × Query)) → (b : Bool) → okCs guard cs = true →
      valsOf docs.length d (compileClauses cls guard scoring docs b cs) = semClauses cs docs[d]
  | [], _, _ => by simp [compileClauses, valsOf, semClauses]
  | (o, q) :: cs, b, h => by
    have h' : okQ guard q = true ∧ okCs guard cs = true := by simpa [okCs] using h
    have i1 := compile_mem cls guard scoring docs hcls d hd q b h'.1
    have i2 := compileClauses_vals cls guard scoring docs hcls d hd cs b h'.2
    simp only [compileClauses, valsOf, List.map_cons, semClauses] at i2 ⊢
    rw [i1, i2]
end

/-
Full statement (DESIGN §7): for every query tree and segment,
  `docs (interp (compile q seg)) = (seg.docs.filter (sem q)).ids`.
It is false as stated (see `C03_msm_single_clause_counterexample`, `C03_phrase_slop3_inconsistent`);
the proved part carries the side condition `okQ guard q`:
  * if the single-clause branch does not honour the minimum (`guard = false`): every boolean node
    with exactly one clause has `msm ≤ 1` (SHOULD) / `msm = 0` (MUST) — F4; void with the guard
    (see `C03_compile_sound`);
  * no phrase of ≥ 3 terms with slop ≥ 1 — S6;
  * no fuzzy leaf in prefix mode (`C03_fuzzy_prefix_counterexample`).
-/
theorem C03_compile_sound_partial (cls : LeafCls) (guard : Bool) (scoring b : Bool)
    (docs : List ADoc) (hcls : LeafSoundOn cls docs) (q : Query) (hok : okQ guard q = true) :
    (interp docs.length (compile cls guard scoring docs b q)).filterMap (fun d => docs[d]?.map (·.id))
      = (docs.filter (sem q)).map (·.id) := by
  rw [← range_filterMap_getElem docs (sem q) (·.id)]
  unfold interp
  rw [List.filterMap_filter]
  apply filterMap_congr'
  intro d hdm
  have hd : d < docs.length := List.mem_range.mp hdm
  rw [compile_mem cls guard scoring docs hcls d hd q b hok]
  simp [List.getElem?_eq_getElem hd]

/-- the scorer tree iterates exactly over the matching segment doc ids, in increasing order -/
theorem C03_compile_sound_docids (cls : LeafCls) (guard : Bool) (scoring b : Bool)
    (docs : List ADoc) (hcls : LeafSoundOn cls docs) (q : Query) (hok : okQ guard q = true) :
    interp docs.length (compile cls guard scoring docs b q)
      = (List.range docs.length).filter (fun d => match docs[d]? with | some x => sem q x | none => false) := by
  unfold interp
  apply List.filter_congr
  intro d hdm
  have hd : d < docs.length := List.mem_range.mp hdm
  rw [compile_mem cls guard scoring docs hcls d hd q b hok]
  simp [List.getElem?_eq_getElem hd]

/-- the collector paths (`Weight::for_each*`), which bypass the single-clause shortcut at the
outermost boolean weight, produce the same set -/
theorem C03_compileTop_sound_partial (cls : LeafCls) (guard : Bool) (scoring : Bool)
    (docs : List ADoc) (hcls : LeafSoundOn cls docs) (d : Nat) (hd : d < docs.length) :
    (q : Query) → okQ guard q = true → mem docs.length (compileTop cls guard scoring docs q) d = sem q docs[d]
  | .leaf l, hok => by
    simp only [compileTop]
    exact compile_mem cls guard scoring docs hcls d hd _ false hok
  | .boost q, hok => by
    have hq : okQ guard q = true := by simpa [okQ] using hok
    simp only [compileTop, sem]
    split
    · exact compile_mem cls guard scoring docs hcls d hd q true hq
    · exact C03_compileTop_sound_partial cls guard scoring docs hcls d hd q hq
  | .constScore q, hok => by
    have hq : okQ guard q = true := by simpa [okQ] using hok
    simp only [compileTop, sem]
    split
    · simpa [mem] using compile_mem cls guard scoring docs hcls d hd q false hq
    · exact C03_compileTop_sound_partial cls guard scoring docs hcls d hd q hq
  | .disMax qs, hok => by
    have ih := compileAny_vals cls guard scoring docs hcls d hd qs false (by simpa [okQ] using hok)
    simp only [compileTop, sem]
    rw [mem_complex_eq_boolSem scoring docs.length d hd, ih, boolSem_should_only, semAny_eq_any]
  | .bool cs msm, hok => by
    have h' : singleOk guard cs msm = true ∧ okCs guard cs = true := by simpa [okQ] using hok
    have ih := compileClauses_vals cls guard scoring docs hcls d hd cs false h'.2
    simp only [compileTop, sem]
    rw [mem_complex_eq_boolSem scoring docs.length d hd, ih]

/-- a scorer tree is iterated in strictly increasing doc-id order, without duplicates, below
`max_doc` (the DocSet contract the collectors rely on; the iteration mechanics are C13's) -/
theorem C03_interp_sorted (n : Nat) (t : STree) :
    (interp n t).Pairwise (· < ·) ∧ ∀ d ∈ interp n t, d < n := by
  unfold interp
  refine ⟨List.Pairwise.filter _ List.pairwise_lt_range, ?_⟩
  intro d hd
  exact List.mem_range.mp (List.mem_filter.mp hd).1

/-! ## F4: the single-clause shortcut and `minimum_number_should_match`

`guard` says whether the `weights.len() == 1` branch of `BooleanWeight::scorer` honours the
minimum; the value for the code as it is now is `singleClauseGuard`, regenerated from the source
(`Gen.BOOL_SINGLE_CLAUSE_HONOURS_MSM`). With the guard the side condition on single-clause
booleans disappears (`okQ true` only constrains leaves). -/

/-- with the guard, `okQ` puts no condition on boolean nodes -/
theorem singleOk_guard (cs : List (Occur × Query)) (msm : Nat) : singleOk true cs msm = true := by
  simp [singleOk]

/-- DESIGN §7 `C03_compile_sound`, for the code with the single-clause guard: for every query tree
whose leaves are `leafOk` (no ≥ 3-term sloppy phrase, no fuzzy prefix) and every segment, the
scorer tree iterates exactly over the documents satisfying `sem`. -/
theorem C03_compile_sound (cls : LeafCls) (scoring b : Bool) (docs : List ADoc)
    (hcls : LeafSoundOn cls docs) (q : Query) (hleaves : okQ true q = true) :
    (interp docs.length (compile cls true scoring docs b q)).filterMap (fun d => docs[d]?.map (·.id))
      = (docs.filter (sem q)).map (·.id) :=
  C03_compile_sound_partial cls true scoring b docs hcls q hleaves

/-- the same for the model that follows the source: conditional on the extracted guard -/
theorem C03_compile_sound_extracted (hg : singleClauseGuard = true) (cls : LeafCls) (scoring b : Bool)
    (docs : List ADoc) (hcls : LeafSoundOn cls docs) (q : Query) (hleaves : okQ true q = true) :
    (interp docs.length (compile cls singleClauseGuard scoring docs b q)).filterMap
        (fun d => docs[d]?.map (·.id))
      = (docs.filter (sem q)).map (·.id) := by
  rw [hg]
  exact C03_compile_sound cls scoring b docs hcls q hleaves

/-- without the guard (the pinned code): one SHOULD clause with `msm = 2` — the specification
matches nothing, the scorer built by `BooleanWeight::scorer` matches every document of the clause,
while the collector paths (`complex_scorer` directly) match nothing: the paths disagree with each
other. With the guard all of them match nothing. -/
theorem C03_msm_single_clause_counterexample :
    let doc : ADoc := ⟨7, [⟨1, [97], [0]⟩], []⟩
    let q : Query := .bool [(.should, .leaf (.term 1 [97]))] 2
    sem q doc = false
      ∧ interp 1 (compile leafTree false true [doc] false q) = [0]
      ∧ interp 1 (compile leafTree false false [doc] false q) = [0]
      ∧ interp 1 (compileTop leafTree false true [doc] q) = []
      ∧ okQ false q = false
      ∧ interp 1 (compile leafTree true true [doc] false q) = []
      ∧ okQ true q = true := by
  decide

/-- without the guard: the same shortcut with one MUST clause and `msm = 1` (two MUST clauses
with `msm = 1` correctly match nothing); with the guard: nothing -/
theorem C03_msm_single_must_clause_counterexample :
    let doc : ADoc := ⟨7, [⟨1, [97], [0]⟩, ⟨1, [98], [1]⟩], []⟩
    let a : Query := .leaf (.term 1 [97])
    let b : Query := .leaf (.term 1 [98])
    sem (.bool [(.must, a)] 1) doc = false
      ∧ interp 1 (compile leafTree false true [doc] false (.bool [(.must, a)] 1)) = [0]
      ∧ interp 1 (compile leafTree false true [doc] false (.bool [(.must, a), (.must, b)] 1)) = []
      ∧ interp 1 (compile leafTree true true [doc] false (.bool [(.must, a)] 1)) = [] := by
  decide

/-! ## collectors agree -/

/-- Count, id collection and ranking with a limit ≥ number of matches, scoring on or off, through
`Weight::scorer` or `Weight::for_each*`: the same documents — the live documents of the segment
that satisfy the query; deleted documents are invisible to all of them. -/
theorem C03_collectors_agree (cls : LeafCls) (guard : Bool) (s : Seg) (hcls : LeafSoundOn cls s.docs) (q : Query)
    (hok : okQ guard q = true) (scoring : Bool) :
    collectDocs cls guard scoring s q
        = (List.range s.docs.length).filter
            (fun d => (match s.docs[d]? with | some x => sem q x | none => false) && aliveAt s.alive d)
      ∧ collectDocsTop cls guard scoring s q = collectDocs cls guard scoring s q
      ∧ collectCount cls guard scoring s q = (collectIds cls guard scoring s q).length := by
  refine ⟨?_, ?_, ?_⟩
  · unfold collectDocs
    rw [C03_compile_sound_docids cls guard scoring false s.docs hcls q hok, List.filter_filter]
    apply List.filter_congr
    intro d _
    rw [Bool.and_comm]
  · unfold collectDocsTop collectDocs interp
    congr 1
    apply List.filter_congr
    intro d hdm
    have hd : d < s.docs.length := List.mem_range.mp hdm
    rw [C03_compileTop_sound_partial cls guard scoring s.docs hcls d hd q hok,
      compile_mem cls guard scoring s.docs hcls d hd q false hok]
  · unfold collectCount collectIds collectDocs interp
    symm
    apply length_filterMap_of_isSome
    intro d hdm
    have hd : d < s.docs.length := by
      have := (List.mem_filter.mp hdm).1
      exact List.mem_range.mp (List.mem_filter.mp this).1
    simp [List.getElem?_eq_getElem hd]

/-- scoring enabled and disabled give the same documents -/
theorem C03_scoring_irrelevant (cls : LeafCls) (guard : Bool) (s : Seg) (hcls : LeafSoundOn cls s.docs) (q : Query)
    (hok : okQ guard q = true) : collectDocs cls guard true s q = collectDocs cls guard false s q := by
  rw [(C03_collectors_agree cls guard s hcls q hok true).1, (C03_collectors_agree cls guard s hcls q hok false).1]

/-- `Weight::count`: with no deleted document the count shortcut (`count_including_deleted`) is
the number of collected documents. (With deletes the code filters by the alive bitset; the
`example` below shows the shortcut would be wrong there.) -/
theorem C03_count_shortcut_sound (cls : LeafCls) (guard : Bool) (s : Seg) (q : Query)
    (hlen : s.alive.length = s.docs.length) (hnodel : s.alive.all id = true) :
    weightCount cls guard s q = collectCount cls guard false s q
      ∧ (interp s.docs.length (compile cls guard false s.docs false q)).length = collectCount cls guard false s q := by
  have key : (interp s.docs.length (compile cls guard false s.docs false q)).length
      = collectCount cls guard false s q := by
    unfold collectCount collectDocs
    congr 1
    symm
    apply List.filter_eq_self.mpr
    intro d hdm
    have hd : d < s.alive.length := by
      rw [hlen]; exact List.mem_range.mp (List.mem_filter.mp hdm).1
    have := List.all_eq_true.mp hnodel (s.alive[d]) (List.getElem_mem hd)
    simp [aliveAt, List.getD_eq_getElem?_getD, List.getElem?_eq_getElem hd] at this ⊢
    exact this
  exact ⟨by unfold weightCount; simp [hnodel, key], key⟩

/-- `docsWhere` keeps as many doc ids as there are documents satisfying the predicate -/
theorem length_docsWhere (docs : List ADoc) (p : ADoc → Bool) :
    (docsWhere docs p).length = (docs.filter p).length := by
  unfold docsWhere
  rw [List.length_map, ← List.countP_eq_length_filter, ← List.countP_eq_length_filter]
  have h : docs.countP p = (docs.zipIdx.map Prod.fst).countP p := by rw [List.zipIdx_map_fst]
  rw [h, List.countP_map]
  rfl

/-- `TermWeight::count`: on a segment without deleted documents the `doc_freq` shortcut is the
number of documents the term query collects (what `Count` / `Query::count` report for a term) -/
theorem C03_term_count_shortcut (guard : Bool) (s : Seg) (hw : DocsWf s.docs)
    (hlen : s.alive.length = s.docs.length) (hnodel : s.alive.all id = true) (f : Nat) (t : Bytes) :
    termCountShortcut s f t = collectCount leafTree guard false s (.leaf (.term f t))
      ∧ termCountShortcut s f t = (s.docs.filter (fun d => hasTerm d f t)).length := by
  have hcs := C03_count_shortcut_sound leafTree guard s (.leaf (.term f t)) hlen hnodel
  have hsound := C03_compile_sound_partial leafTree guard false false s.docs
    (leafTree_soundOn s.docs hw) (.leaf (.term f t)) (by simp [okQ, leafOk])
  have hl := congrArg List.length hsound
  rw [List.length_map] at hl
  have hsome : ((interp s.docs.length (compile leafTree guard false s.docs false (.leaf (.term f t)))).filterMap
      (fun d => s.docs[d]?.map (·.id))).length
      = (interp s.docs.length (compile leafTree guard false s.docs false (.leaf (.term f t)))).length := by
    apply length_filterMap_of_isSome
    intro d hd
    have hdn := (C03_interp_sorted s.docs.length _).2 d hd
    simp [List.getElem?_eq_getElem hdn]
  have hfreq : termCountShortcut s f t = (s.docs.filter (fun d => hasTerm d f t)).length := by
    unfold termCountShortcut; exact length_docsWhere s.docs _
  have hsem : (s.docs.filter (sem (.leaf (.term f t)))).length = (s.docs.filter (fun d => hasTerm d f t)).length := by
    congr 1
  refine ⟨?_, hfreq⟩
  rw [hfreq, ← hcs.2, ← hsome, hl, hsem]

/-! ## whole searcher = specification; independence of segmentation and of other deletes -/

/-- per segment: collected ids = ids of the live documents satisfying the query -/
theorem C03_segment_ids (cls : LeafCls) (guard : Bool) (scoring : Bool) (s : Seg) (hcls : LeafSoundOn cls s.docs)
    (hwf : s.wf) (q : Query) (hok : okQ guard q = true) :
    collectIds cls guard scoring s q = (s.live.filter (sem q)).map (·.id) := by
  unfold collectIds
  rw [(C03_collectors_agree cls guard s hcls q hok scoring).1]
  exact range_filterMap_live s.docs s.alive hwf (sem q)

/-- the result of a search over any corpus is the specification's answer -/
theorem C03_search_eq_answer (cls : LeafCls) (guard : Bool) (scoring : Bool) (c : Corpus)
    (hcls : ∀ s ∈ c, LeafSoundOn cls s.docs) (hwf : ∀ s ∈ c, s.wf) (q : Query) (hok : okQ guard q = true) :
    searchIds cls guard scoring c q = answer q c := by
  unfold searchIds answer Corpus.live
  induction c with
  | nil => simp
  | cons s c ih =>
    simp only [List.flatMap_cons, List.filter_append, List.map_append]
    rw [C03_segment_ids cls guard scoring s (hcls s (by simp)) (hwf s (by simp)) q hok,
      ih (fun s' hs' => hcls s' (by simp [hs'])) (fun s' hs' => hwf s' (by simp [hs']))]

/-- the answer depends only on the live documents: any two partitions into segments (any order,
merged or not, whatever deleted documents they still carry) of the same live documents give the
same result up to order; deleting *other* documents removes exactly those from the answer. -/
theorem C03_segmentation_invariant (cls : LeafCls) (guard : Bool) (s1 s2 : Bool)
    (c1 c2 : Corpus) (hc1 : ∀ s ∈ c1, LeafSoundOn cls s.docs) (hc2 : ∀ s ∈ c2, LeafSoundOn cls s.docs)
    (h1 : ∀ s ∈ c1, s.wf) (h2 : ∀ s ∈ c2, s.wf) (q : Query) (hok : okQ guard q = true)
    (hperm : c1.live.Perm c2.live) :
    (searchIds cls guard s1 c1 q).Perm (searchIds cls guard s2 c2 q) := by
  rw [C03_search_eq_answer cls guard s1 c1 hc1 h1 q hok, C03_search_eq_answer cls guard s2 c2 hc2 h2 q hok]
  unfold answer
  exact (hperm.filter _).map _

theorem C03_delete_others (q : Query) (c c' : Corpus) (keep : ADoc → Bool)
    (h : c'.live = c.live.filter keep) :
    answer q c' = ((c.live.filter (sem q)).filter keep).map (·.id) := by
  unfold answer
  rw [h, List.filter_filter, List.filter_filter]
  congr 1
  apply List.filter_congr
  intro x _
  rw [Bool.and_comm]

/-! ## the classifier the driver executes -/

/-- `leafTree` (term: `EmptyScorer` when absent, `AllScorer` when scoring is off and every document
has the term; exists: all/empty/other; phrase: the mirrored position algorithms in cost order; …)
is sound on every segment whose position lists are increasing (`DocsWf`) -/
theorem C03_leafTree_sound (docs : List ADoc) (hw : DocsWf docs) : LeafSoundOn leafTree docs :=
  leafTree_soundOn docs hw

/-- hypothesis-free instance for the executable model: what `tvmodel` computes for `search` is
what it computes for `answer`, for every corpus and every query satisfying the side conditions -/
theorem C03_search_eq_answer_concrete (scoring : Bool) (c : Corpus)
    (hwf : ∀ s ∈ c, s.wf) (hdw : ∀ s ∈ c, DocsWf s.docs) (q : Query)
    (hok : okQ singleClauseGuard q = true) :
    searchIds leafTree singleClauseGuard scoring c q = answer q c :=
  C03_search_eq_answer leafTree singleClauseGuard scoring c
    (fun s hs => leafTree_soundOn s.docs (hdw s hs)) hwf q hok

/-- the same with every hypothesis in executable form — exactly what the driver evaluates on each
case (`C03 wf <corpus>`, `C03 ok <query>`): whenever both answer 1, `search` = `answer` -/
theorem C03_search_eq_answer_checked (scoring : Bool) (c : Corpus) (q : Query)
    (hwf : c.all (fun s => docsWfB s.docs && s.alive.length == s.docs.length) = true)
    (hok : okQ singleClauseGuard q = true) :
    searchIds leafTree singleClauseGuard scoring c q = answer q c := by
  have h := List.all_eq_true.mp hwf
  apply C03_search_eq_answer_concrete scoring c _ _ q hok
  · intro s hs
    have := h s hs
    simp only [Bool.and_eq_true, beq_iff_eq] at this
    exact this.2
  · intro s hs
    have := h s hs
    simp only [Bool.and_eq_true] at this
    exact docsWfB_sound s.docs this.1

/-! ## S6: phrases of ≥ 3 terms with slop ≥ 1 -/

/-- adjusted positions `a@0 … b@3 … c@5` (a document `a x x b x c` for the phrase "a b c"):
with slop 2 the scoring-off algorithm (`intersection_exists_with_slop`, which forgets the slop
already spent) matches, the scoring-on algorithm (`…_with_carrying_slop`) does not, and the
budget meaning (sum of gaps 2 + 1 = 3 > 2) does not. -/
theorem C03_phrase_slop3_inconsistent :
    PhraseSlop.phraseOff [[2], [4], [5]] 2 = true
      ∧ PhraseSlop.phraseOn [[2], [4], [5]] 2 = false
      ∧ phraseSlop [[2], [4], [5]] 2 = false := by
  decide

/-- two-term phrases with slop: both real algorithms (scoring on: `intersection_count_with_slop`,
scoring off: `intersection_exists_with_slop`), in either processing order, decide exactly the
documented meaning "some occurrence pair is within `slop`" (full statement for n terms: false,
see `C03_phrase_slop3_inconsistent`). -/
theorem C03_phrase_slop_partial (a b : List Nat) (slop : Nat)
    (ha : a.Pairwise (· ≤ ·)) (hb : b.Pairwise (· ≤ ·)) :
    PhraseSlop.phraseOff [a, b] slop = phraseSlop [a, b] slop
      ∧ PhraseSlop.phraseOn [a, b] slop = phraseSlop [a, b] slop
      ∧ PhraseSlop.phraseOff [b, a] slop = phraseSlop [a, b] slop
      ∧ PhraseSlop.phraseOn [b, a] slop = phraseSlop [a, b] slop
      ∧ (phraseSlop [a, b] slop = true ↔ ∃ p, p ∈ a ∧ ∃ q, q ∈ b ∧ dist p q ≤ slop) :=
  have h := PhraseSlop.phrase_two_terms a b slop ha hb
  ⟨h.1, h.2.1, h.2.2.1, h.2.2.2, PhraseSlop.phraseSlop_two a b slop⟩

/-! ## fuzzy prefix mode -/

/-- term "bet", query "aib", distance 2: the prefix "b" is within distance 2 of the query (the
documented meaning of prefix mode matches), but the acceptance rule of the prefix automaton
(`is_prefix_sink`) does not freeze that match and the longer prefixes are farther: the
implementation misses the term; the term "b" alone is matched. Hence `leafOk` excludes fuzzy
prefix leaves from `C03_compile_sound_partial`. -/
theorem C03_fuzzy_prefix_counterexample :
    fuzzyMatch [97, 105, 98] 2 false true [98, 101, 116] = true
      ∧ implFuzzyMatch [97, 105, 98] 2 false true [98, 101, 116] = false
      ∧ implFuzzyMatch [97, 105, 98] 2 false true [98] = true := by
  decide

/-! ## order-preserving encodings (functions regenerated from common/src/lib.rs) -/

/-- `i64_to_u64` is strictly monotone from the signed order to the unsigned order -/
theorem C03_i64_to_u64_strictMono (x y : BitVec 64) :
    x.toInt < y.toInt ↔ (OrderEnc.i64_to_u64 x).toNat < (OrderEnc.i64_to_u64 y).toNat := by
  have hx := OrderEnc.i64_to_u64_toNat x
  have hy := OrderEnc.i64_to_u64_toNat y
  omega

/-- `f64_to_u64` is strictly monotone from the sign-magnitude order of IEEE-754 bit patterns
(the order of non-NaN floats, with -0 < +0) to the unsigned order -/
theorem C03_f64_to_u64_strictMono (x y : BitVec 64) :
    OrderEnc.f64Key x < OrderEnc.f64Key y
      ↔ (OrderEnc.f64_to_u64 x).toNat < (OrderEnc.f64_to_u64 y).toNat := by
  have hx := OrderEnc.f64_to_u64_toNat x
  have hy := OrderEnc.f64_to_u64_toNat y
  omega

/-- big-endian term bytes of equal width: lexicographic order ⇔ numeric order -/
theorem C03_be_bytes_lex_iff_lt (w v1 v2 : Nat) (h1 : v1 < 256 ^ w) (h2 : v2 < 256 ^ w) :
    blt (OrderEnc.be w v1) (OrderEnc.be w v2) = decide (v1 < v2) :=
  OrderEnc.blt_be w v1 v2 h1 h2

def bndBe (w : Nat) : BndN → Bnd
  | .incl v => .incl (OrderEnc.be w v)
  | .excl v => .excl (OrderEnc.be w v)
  | .unb => .unb

def bndBelow (w : Nat) : BndN → Prop
  | .incl v => v < 256 ^ w
  | .excl v => v < 256 ^ w
  | .unb => True

/-- the two range evaluators agree: a range over the term dictionary (big-endian bytes of the
encoded value, lexicographic) selects the same values as the range over the fast-field column
(encoded values, numeric), for inclusive, exclusive and unbounded ends -/
theorem C03_range_paths_agree (w : Nat) (lo hi : BndN) (v : Nat) (hv : v < 256 ^ w)
    (hlo : bndBelow w lo) (hhi : bndBelow w hi) :
    inRange (bndBe w lo) (bndBe w hi) (OrderEnc.be w v) = inRangeN lo hi v := by
  have L : ∀ b, b < 256 ^ w → blt (OrderEnc.be w v) (OrderEnc.be w b) = decide (v < b) :=
    fun b hb => OrderEnc.blt_be w v b hv hb
  have R : ∀ b, b < 256 ^ w → blt (OrderEnc.be w b) (OrderEnc.be w v) = decide (b < v) :=
    fun b hb => OrderEnc.blt_be w b v hb hv
  unfold inRange inRangeN
  cases lo <;> cases hi <;> simp only [bndBe, bndBelow] at hlo hhi ⊢ <;>
    simp [L, R, hlo, hhi] <;> rw [Bool.eq_iff_iff] <;> simp <;> omega

/-! ## the ≥ 3-term slop algorithm (`intersection_count_with_carrying_slop`): what does hold -/

/-- whatever slops are carried in, the carrying intersection reports no match and keeps no position
when no occurrence pair of the two lists is within the slop (no sortedness needed) -/
theorem C03_carrying_no_pair_no_match (L S R : List Nat) (slop : Nat)
    (hfar : ∀ a ∈ L, ∀ b ∈ R, slop < dist a b) :
    PhraseSlop.carrying L S R slop = (0, [], []) :=
  PhraseSlop.carrying_far L S R slop hfar

/-- hence, whatever slops are carried in (any fold step, any number of terms, no sortedness): a
positive count means that some occurrence pair of the two lists is within the slop -/
theorem C03_carrying_count_pos_implies_pair (L S R : List Nat) (slop : Nat)
    (h : 0 < (PhraseSlop.carrying L S R slop).1) : ∃ a, a ∈ L ∧ ∃ b, b ∈ R ∧ dist a b ≤ slop := by
  apply Classical.byContradiction
  intro hn
  have hfar : ∀ a ∈ L, ∀ b ∈ R, slop < dist a b := by
    intro a ha b hb
    apply Nat.lt_of_not_le
    intro hle
    exact hn ⟨a, ha, b, hb, hle⟩
  rw [C03_carrying_no_pair_no_match L S R slop hfar] at h
  exact Nat.lt_irrefl 0 h

/-- first fold step (no slops carried in, increasing lists): the count is positive exactly when
some occurrence pair is within the slop — until its first hit the loop moves like
`intersection_exists_with_slop` -/
theorem C03_carrying_first_step_exact (L R : List Nat) (slop : Nat)
    (hl : L.Pairwise (· ≤ ·)) (hr : R.Pairwise (· ≤ ·)) :
    0 < (PhraseSlop.carrying L [] R slop).1 ↔ ∃ a, a ∈ L ∧ ∃ b, b ∈ R ∧ dist a b ≤ slop :=
  PhraseSlop.carrying_first_step L R slop hl hr

/-- a sloppy phrase of ≥ 3 terms: on a document in which the first two processed terms have no
occurrence pair within the slop, the scoring path, the no-scoring path and the budget meaning all
say "no match" (the paths can only disagree — `C03_phrase_slop3_inconsistent` — once the first
pair is within the slop) -/
theorem C03_phrase_slop3_far_agree (a b : List Nat) (rest : List (List Nat)) (hrest : rest ≠ [])
    (slop : Nat) (hfar : ∀ x ∈ a, ∀ y ∈ b, slop < dist x y) :
    PhraseSlop.phraseOff (a :: b :: rest) slop = false ∧ PhraseSlop.phraseOn (a :: b :: rest) slop = false
      ∧ phraseSlop (a :: b :: rest) slop = false := by
  have h := PhraseSlop.phrase3_far a b rest hrest slop hfar
  refine ⟨h.1, h.2, ?_⟩
  simp only [phraseSlop, slopChain]
  rw [List.any_eq_false]
  intro x hx
  simp only [Bool.not_eq_true]
  rw [List.any_eq_false]
  intro y hy
  have := hfar x hx y hy
  simp only [Bool.not_eq_true, Bool.and_eq_false_iff, decide_eq_false_iff_not]
  left; omega

/-! ## the phrase scorer's per-document state -/

/-- does `compute_phrase_match` clear `left_slops` before folding a document's terms? (read from
the source by `extract/items/boolweight.py`; the extraction fails if the reset moves) -/
def phraseSlopsReset : Bool := Gen.PHRASE_LEFT_SLOPS_RESET_AT_START == 1

/-- a sloppy phrase scorer driven over any sequence of candidate documents, from any initial
state: with the reset at the start of `compute_phrase_match` (the extracted guard) the answer for
each document is the per-document function `phraseOff` / `phraseOn` — nothing leaks from one
document to the next, on the scoring and on the no-scoring path. (This is what allows `leafTree`
and the harness to evaluate the slop algorithms document by document.) -/
theorem C03_phrase_slops_no_leak (hreset : phraseSlopsReset = true) (slop : Nat)
    (docs : List (List (List Nat))) (st : List Nat) :
    PhraseSlop.runSteps (PhraseSlop.offStep phraseSlopsReset slop) st docs = docs.map (PhraseSlop.phraseOff · slop)
      ∧ PhraseSlop.runSteps (PhraseSlop.onStep phraseSlopsReset slop) st docs
          = docs.map (PhraseSlop.phraseOn · slop) := by
  rw [hreset]
  exact PhraseSlop.runSteps_reset slop docs st

/-- the guard holds for the source as it is now -/
theorem C03_phrase_slops_reset_extracted : phraseSlopsReset = true := by decide

/-- without the reset the carried slops of "a b … c" (document 1) make the scorer miss the exact
occurrence "a b c" in document 2 on the no-scoring path -/
theorem C03_phrase_slops_leak_counterexample :
    PhraseSlop.runSteps (PhraseSlop.offStep false 1) [] [[[0], [1], [5]], [[3], [4], [4]]] = [false, false]
      ∧ [[[0], [1], [5]], [[3], [4], [4]]].map (PhraseSlop.phraseOff · 1) = [false, true] := by
  decide

/-! ## exact phrases of any length: the sorted-merge intersections -/

/-- slop 0, any number (≥ 2) of terms, in whatever order the scorer processes them (a permutation
`ls'` of the adjusted position lists `ls`, each increasing): folding the lists with `intersection`
and finishing with `intersection_exists` (scoring off) or `intersection_count > 0` (scoring on)
decides exactly "one value is common to all lists" = `phraseExact` — the two real paths agree
with each other and with the meaning, for every phrase length (contrast: slop ≥ 1 with ≥ 3 terms,
`C03_phrase_slop3_inconsistent`). `leafTree` runs these algorithms in cost order. -/
theorem C03_phrase_exact_any_terms (ls ls' : List (List Nat)) (hlen : 2 ≤ ls.length)
    (hsorted : ∀ l ∈ ls, l.Pairwise (· ≤ ·)) (hperm : ls'.Perm ls) :
    PhraseSlop.exactOff ls' = phraseExact ls ∧ PhraseSlop.exactOn ls' = phraseExact ls := by
  have hlen' : 2 ≤ ls'.length := by rw [hperm.length_eq]; exact hlen
  have hs' : ∀ l ∈ ls', l.Pairwise (· ≤ ·) := fun l hl => hsorted l (hperm.mem_iff.mp hl)
  have hne : ls' ≠ [] := by intro h; rw [h] at hlen'; simp at hlen'
  have h := PhraseSlop.exact_impl_eq_spec ls' hlen' hs'
  have hp := PhraseSlop.phraseExact_perm ls' ls hne hperm
  exact ⟨h.1.trans hp, h.2.trans hp⟩

/-! ## alignment arithmetic of phrases and phrase prefixes (offsets, gaps) -/

/-- the common offset on which the position lists are aligned does not matter: any `mx` above
every term offset gives the same exact and sloppy matches as `maxOff terms` (this is what allows the
phrase-prefix scorer to align the full terms on the maximum of *all* offsets, the prefix's included) -/
theorem C03_phrase_alignment_shift_invariant (d : ADoc) (f mx : Nat) (terms : List (Nat × Bytes))
    (slop : Nat) (hmx : maxOff terms ≤ mx) :
    phraseExact (adjusted d f mx terms) = phraseExact (adjusted d f (maxOff terms) terms)
      ∧ phraseSlop (adjusted d f mx terms) slop = phraseSlop (adjusted d f (maxOff terms) terms) slop := by
  have e : mx = maxOff terms + (mx - maxOff terms) := by omega
  rw [e, adjusted_shift d f (maxOff terms) (mx - maxOff terms) terms (fun ot h => le_maxOff h),
    phraseExact_shift, phraseSlop_shift]
  exact ⟨rfl, rfl⟩

/-- exact phrase, any number of terms, arbitrary offsets: a match is a choice of one position per
term such that all positions minus their offsets coincide -/
theorem C03_phrase_exact_iff (d : ADoc) (f : Nat) (terms : List (Nat × Bytes)) (hne : terms ≠ []) :
    semPhrase d f terms 0 = true ↔
      ∃ v, ∀ ot ∈ terms, ∃ pos ∈ positionsOf d f ot.2, pos + (maxOff terms - ot.1) = v := by
  have hadj : adjusted d f (maxOff terms) terms ≠ [] := by
    unfold adjusted; simpa using hne
  simp only [semPhrase, if_true]
  rw [phraseExact_iff _ hadj]
  constructor
  · rintro ⟨v, h⟩; exact ⟨v, (mem_adjusted_iff d f _ terms v).mp h⟩
  · rintro ⟨v, h⟩; exact ⟨v, (mem_adjusted_iff d f _ terms v).mpr h⟩

/-- phrase prefix with arbitrary offsets (a gap may precede the prefix term): with
`mx = max (maxOff terms) poff`, a match is a position of some term starting with `pre` and one
position per full term, all aligned on the same value -/
theorem C03_phrase_prefix_iff (d : ADoc) (f : Nat) (terms : List (Nat × Bytes)) (poff : Nat) (pre : Bytes)
    (hne : terms ≠ []) :
    semPhrasePrefix d f terms poff pre = true ↔
      ∃ v, (∃ p ∈ d.postings, (p.field == f && isPrefix pre p.term) = true
              ∧ ∃ pos ∈ p.positions, pos + (max (maxOff terms) poff - poff) = v)
        ∧ ∀ ot ∈ terms, ∃ pos ∈ positionsOf d f ot.2, pos + (max (maxOff terms) poff - ot.1) = v := by
  have hadj : adjusted d f (max (maxOff terms) poff) terms ≠ [] := by
    unfold adjusted; simpa using hne
  have hsem : semPhrasePrefix d f terms poff pre
      = phraseExact (((d.postings.filter (fun p => p.field == f && isPrefix pre p.term)).flatMap
          (fun p => p.positions.map (· + (max (maxOff terms) poff - poff))))
          :: adjusted d f (max (maxOff terms) poff) terms) := by
    unfold semPhrasePrefix
    simp only
  rw [hsem]
  · rw [phraseExact_iff _ (by simp)]
    constructor
    · rintro ⟨v, h⟩
      refine ⟨v, ?_, (mem_adjusted_iff d f _ terms v).mp (fun l hl => h l (by simp [hl]))⟩
      have hs := h _ (List.mem_cons_self)
      obtain ⟨p, hp, hv⟩ := List.mem_flatMap.mp hs
      obtain ⟨pos, hpos, he⟩ := List.mem_map.mp hv
      have hp' := List.mem_filter.mp hp
      exact ⟨p, hp'.1, hp'.2, pos, hpos, he⟩
    · rintro ⟨v, ⟨p, hp, hpre, pos, hpos, he⟩, hall⟩
      refine ⟨v, ?_⟩
      intro l hl
      rcases List.mem_cons.mp hl with rfl | hl
      · exact List.mem_flatMap.mpr ⟨p, List.mem_filter.mpr ⟨hp, hpre⟩, List.mem_map.mpr ⟨pos, hpos, he⟩⟩
      · exact (mem_adjusted_iff d f _ terms v).mpr hall l hl

/-- one full term at offset 0 and the prefix term `g` positions later (`g - 1` tokens in between):
a match is an occurrence of the full term followed, exactly `g` positions later, by a term that
starts with the prefix -/
theorem C03_phrase_prefix_gap (d : ADoc) (f : Nat) (t pre : Bytes) (g : Nat) :
    semPhrasePrefix d f [(0, t)] g pre = true ↔
      ∃ pos ∈ positionsOf d f t, ∃ p ∈ d.postings,
        (p.field == f && isPrefix pre p.term) = true ∧ pos + g ∈ p.positions := by
  rw [C03_phrase_prefix_iff d f [(0, t)] g pre (by simp)]
  have hm : max (maxOff [(0, t)]) g = g := by simp [maxOff]
  rw [hm]
  constructor
  · rintro ⟨v, ⟨p, hp, hpre, pos', hpos', he'⟩, hall⟩
    obtain ⟨pos, hpos, he⟩ := hall (0, t) (by simp)
    refine ⟨pos, hpos, p, hp, hpre, ?_⟩
    have : pos + g = pos' := by simp at he he'; omega
    rw [this]; exact hpos'
  · rintro ⟨pos, hpos, p, hp, hpre, hmem⟩
    refine ⟨pos + g, ⟨p, hp, hpre, pos + g, hmem, by simp⟩, ?_⟩
    intro ot hot
    simp at hot; subst hot
    exact ⟨pos, hpos, by simp⟩

/-! ## fast-field range: the scorer chosen by min/max pruning -/

/-- `search_on_u64_ff`: whichever scorer the pruning picks — `EmptyScorer` (empty value range, incl.
the `checked_add` / `checked_sub` overflows), `AllScorer` (range covering [min, max] of a full
column) or a `RangeDocSet` over the clamped range — it selects a value of the column iff the value
lies within the query bounds, for every inclusive / exclusive / unbounded combination and any
column bounds `colMin ≤ v ≤ colMax` (they need not be tight) -/
theorem C03_fast_range_pruning_sound (lo hi : BndN) (colMin colMax : Nat) (full : Bool) (v : Nat)
    (hmin : colMin ≤ v) (hmax : v ≤ colMax) (hv : v ≤ FastRange.U64MAX) :
    (FastRange.classify lo hi colMin colMax full).selects v = inRangeN lo hi v :=
  FastRange.classify_sound lo hi colMin colMax full v hmin hmax hv

/-- in particular the type-based All/Empty elimination of `complex_scorer` is fed correct facts:
`AllScorer` only for a full column all of whose values are in range, `EmptyScorer` only when none is -/
theorem C03_fast_range_all_empty (lo hi : BndN) (colMin colMax : Nat) (full : Bool) :
    (FastRange.classify lo hi colMin colMax full = .all →
        full = true ∧ ∀ v, colMin ≤ v → v ≤ colMax → v ≤ FastRange.U64MAX → inRangeN lo hi v = true)
      ∧ (FastRange.classify lo hi colMin colMax full = .empty →
        ∀ v, colMin ≤ v → v ≤ colMax → v ≤ FastRange.U64MAX → inRangeN lo hi v = false) :=
  FastRange.classify_all_empty lo hi colMin colMax full

/-- the cardinality condition of the AllScorer shortcut as the source has it: taken for Full
columns only (`column.index.get_cardinality() == Cardinality::Full`). Read by the extractor; this
theorem stops compiling when the source extends the shortcut to another cardinality. -/
theorem C03_fast_range_shortcut_extracted :
    FastRange.Shortcut.extracted = FastRange.Shortcut.onlyFull := by
  decide

/-- document level, for the code as it is: on a Full, Optional or Multivalued column (a document
holds exactly one / at most one / any number of values, zero included) the scorer built by
`search_on_u64_ff` selects a document iff one of ITS values lies within the bounds; a document
without a value never matches, also when the range covers the whole column -/
theorem C03_fast_range_doc_sound (lo hi : BndN) (colMin colMax : Nat) (card : FastRange.Card)
    (vs : List Nat) (hcard : card.admits vs)
    (hvs : ∀ v ∈ vs, colMin ≤ v ∧ v ≤ colMax ∧ v ≤ FastRange.U64MAX) :
    (FastRange.classifyC FastRange.Shortcut.extracted lo hi colMin colMax card).selectsDoc vs
      = vs.any (inRangeN lo hi) := by
  rw [C03_fast_range_shortcut_extracted]
  exact FastRange.classifyC_doc_sound _ rfl rfl lo hi colMin colMax card vs hcard hvs

/-- the restriction is necessary: with the shortcut extended to Multivalued (or Optional) columns a
document without a value matches every range that covers [column min, column max] -/
theorem C03_fast_range_shortcut_beyond_full_counterexample :
    (FastRange.classifyC ⟨true, false, true⟩ (.incl 0) .unb 3 9 .multivalued).selectsDoc [] = true
    ∧ (FastRange.classifyC ⟨true, true, false⟩ (.incl 3) (.incl 9) 3 9 .optional).selectsDoc [] = true
    ∧ ([] : List Nat).any (inRangeN (.incl 0) .unb) = false
    ∧ FastRange.Card.admits .multivalued [] ∧ FastRange.Card.admits .optional [] := by
  refine ⟨by decide, by decide, by decide, trivial, ?_⟩
  show ([] : List Nat).length ≤ 1
  decide

/-! ## range over a numeric JSON path: bound type × column type -/

/-- `search_on_json_numerical_field` + `transform_from_f64_bounds`: for every bound kind (inclusive /
exclusive / unbounded), bound type (i64 / u64 / f64 term; f64 values h/2 with |h| < 2^53) and integer
column type (i64 / u64) the converted bounds select exactly the values of the column that satisfy the
numeric meaning of the range — except for the combinations excluded by `lowerOk` / `upperOk`
(counterexamples below). In particular a negative i64 upper bound on a u64 column selects nothing
(`Excluded(0)`), a negative lower bound everything, a u64 upper bound above i64::MAX on an i64 column
everything, a negative fractional f64 lower bound and a positive fractional f64 upper bound are
truncated inward. -/
theorem C03_json_range_coercion_partial (col : JsonRange.ColT) (lo hi : JsonRange.B) (v : Int)
    (hv : JsonRange.inCol col v) (hlo : lo.wf) (hhi : hi.wf)
    (hokl : JsonRange.lowerOk col lo = true) (hoku : JsonRange.upperOk col hi = true) :
    JsonRange.implMatch col lo hi v = JsonRange.specMatch lo hi v := by
  unfold JsonRange.implMatch JsonRange.coerce
  rw [JsonRange.inRangeN_eq, JsonRange.specMatch_eq, JsonRange.lower_exact col lo v hv hlo hokl,
    JsonRange.upper_exact col hi v hv hhi hoku]

/-- the repaired table (the three rows as `tools/fixes/pending/C03-json-range-bound-conversions.patch`
writes them) is exact for every bound kind, bound type and integer column type, without any side
condition -/
theorem C03_json_range_coercion (col : JsonRange.ColT) (lo hi : JsonRange.B) (v : Int)
    (hv : JsonRange.inCol col v) (hlo : lo.wf) (hhi : hi.wf) :
    JsonRange.implMatchG JsonRange.Guards.repaired col lo hi v = JsonRange.specMatch lo hi v := by
  unfold JsonRange.implMatchG
  rw [JsonRange.inRangeN_eq, JsonRange.specMatch_eq, JsonRange.lower_exact_repaired col lo v hv hlo,
    JsonRange.upper_exact_repaired col hi v hv hhi]

/-- the table the driver executes follows the guards read from the source: it is the pinned table
(exact under `lowerOk` / `upperOk`) or the repaired one (exact), whichever the source has -/
theorem C03_json_range_coercion_extracted (col : JsonRange.ColT) (lo hi : JsonRange.B) (v : Int)
    (hv : JsonRange.inCol col v) (hlo : lo.wf) (hhi : hi.wf)
    (hg : JsonRange.Guards.extracted = JsonRange.Guards.repaired
          ∨ (JsonRange.Guards.extracted = JsonRange.Guards.pinned
              ∧ JsonRange.lowerOk col lo = true ∧ JsonRange.upperOk col hi = true)) :
    JsonRange.implMatchG JsonRange.Guards.extracted col lo hi v = JsonRange.specMatch lo hi v := by
  rcases hg with hg | ⟨hg, hl, hu⟩
  · rw [hg]; exact C03_json_range_coercion col lo hi v hv hlo hhi
  · rw [hg, JsonRange.implMatchG_pinned]
    exact C03_json_range_coercion_partial col lo hi v hv hlo hhi hl hu

/-- the guards read from the source as it is now: all three rows are in their repaired form
(fix 72d566d2e); this theorem stops checking if one of them regresses -/
theorem C03_json_range_guards_repaired : JsonRange.Guards.extracted = JsonRange.Guards.repaired := by
  decide

/-- hence, for the code as it is now, the executed table is exact for every bound kind, bound type
(i64 / u64 / f64 term, |f64| < 2^52) and integer column type — no side condition left -/
theorem C03_json_range_coercion_current (col : JsonRange.ColT) (lo hi : JsonRange.B) (v : Int)
    (hv : JsonRange.inCol col v) (hlo : lo.wf) (hhi : hi.wf) :
    JsonRange.implMatchG JsonRange.Guards.extracted col lo hi v = JsonRange.specMatch lo hi v :=
  C03_json_range_coercion_extracted col lo hi v hv hlo hhi (Or.inl C03_json_range_guards_repaired)

/-- column type of a merged segment (`merged_numerical_columns_type`), for a path whose values
were supplied as u64: feeding the (min, max) of the source columns to the writer's accumulator
gives the type the writer would give the union of all source values (deleted documents of a
source segment included) — so the type of `attrs.p` after a merge is again `colOf` of its values,
and the bound-conversion theorems apply to merged segments too -/
theorem C03_json_merged_column_type (segs : List JsonRange.SegVals) (hok : ∀ s ∈ segs, s.ok) :
    JsonRange.mergedCol (segs.map JsonRange.SegVals.src)
      = (JsonRange.colOf true (segs.flatMap (·.vals))).lift :=
  JsonRange.mergedCol_u64_supplied segs hok

/-- the same for any mix of i64- and u64-supplied values, f64 outcome included (negative values
next to values ≥ i64::MAX): the merged column's type is the write-time type `writtenCol` of all
source values together — merging never changes the type a path would have had in one segment -/
theorem C03_json_merged_column_type_mixed (segs : List JsonRange.SegMix) (hok : ∀ s ∈ segs, s.ok) :
    JsonRange.mergedCol (segs.map JsonRange.SegMix.src)
      = JsonRange.writtenCol (segs.flatMap (·.vals)) :=
  JsonRange.mergedCol_mixed segs hok

/-- `writtenCol` restricted to one supplied type is `colOf` -/
theorem C03_json_written_column_type_single (sup : Bool) (vals : List Int) :
    JsonRange.writtenCol (vals.map (fun v => (sup, v))) = (JsonRange.colOf sup vals).lift := by
  unfold JsonRange.writtenCol JsonRange.colOf JsonRange.pI JsonRange.pU
  cases sup with
  | false => simp [JsonRange.ColT.lift]
  | true =>
    have hU : (vals.map (fun v => (true, v))).all (fun p => p.1 || decide (0 ≤ p.2)) = true := by
      simp
    simp only [List.all_map, Bool.not_true, Bool.false_or] at hU ⊢
    by_cases h : vals.all (fun v => decide (v < JsonRange.I64MAX)) = true
    · have h' : (vals.all ((fun p : Bool × Int => !p.1 || decide (p.2 < JsonRange.I64MAX)) ∘ fun v => (true, v))) = true := by
        simpa [Function.comp_def] using h
      simp [h, h', JsonRange.ColT.lift]
    · simp [h, JsonRange.ColT.lift, Function.comp_def]

/-- integer-typed bounds (i64 / u64 terms): only the lower-bound condition remains -/
theorem C03_json_int_range_coercion_partial (col : JsonRange.ColT) (lo hi : JsonRange.B) (v : Int)
    (hv : JsonRange.inCol col v) (hlo : lo.wf) (hhi : hi.wf) (hok : JsonRange.lowerOk col lo = true)
    (hint : ∀ h, hi ≠ .incl (.f h) ∧ hi ≠ .excl (.f h)) :
    JsonRange.implMatch col lo hi v = JsonRange.specMatch lo hi v := by
  apply C03_json_range_coercion_partial col lo hi v hv hlo hhi hok
  cases hi with
  | unb => rfl
  | incl x => cases x with
    | f h => exact absurd rfl (hint h).1
    | i w => rfl
    | u w => rfl
  | excl x => cases x with
    | f h => exact absurd rfl (hint h).2
    | i w => rfl
    | u w => rfl

/-- f64 column (a path that received a float): every bound — i64, u64 or f64 term — is converted
with its kind preserved, and selects exactly the values satisfying the numeric meaning, as long as
the numbers involved convert to binary64 exactly (half-units below 2^53); only the order of the
encoded values matters (`C03_f64_to_u64_strictMono`) -/
theorem C03_json_f64_column_range_exact (lo hi : JsonRange.B) (hv : Int)
    (hs : -(2 ^ 53) < hv ∧ hv < 2 ^ 53) (hlo : lo.small) (hhi : hi.small) :
    JsonRange.implMatchF lo hi hv = JsonRange.specMatchF lo hi hv :=
  JsonRange.f64_column_exact lo hi hv hs hlo hhi

/-- the excluded u64 combination is really wrong in the pinned code: `attrs.n:[9223372036854775808 TO *]`
(a u64 term) on a path whose column is i64 is converted to `Excluded(i64::MAX as u64)` in the
column's *encoded* space, i.e. to "value ≥ 0", instead of "nothing" -/
theorem C03_json_u64_lower_bound_on_i64_column_counterexample :
    JsonRange.implMatch .i64 (.incl (.u (2 ^ 63))) .unb 5 = true
      ∧ JsonRange.specMatch (.incl (.u (2 ^ 63))) .unb 5 = false
      ∧ JsonRange.implMatch .i64 (.incl (.u (2 ^ 63))) .unb (-5) = false
      ∧ JsonRange.lowerOk .i64 (.incl (.u (2 ^ 63))) = false := by
  decide

/-- the excluded f64 combinations are really wrong in the pinned code: an upper bound -1.5 on a
u64 column becomes Unbounded (0 matches `[* TO -1.5]`); a lower bound 2.5 becomes Included(2)
(2 matches `[2.5 TO *]`); an upper bound -2.5 on an i64 column becomes Included(-2) -/
theorem C03_json_f64_bound_counterexamples :
    JsonRange.implMatch .u64 .unb (.incl (.f (-3))) 0 = true
      ∧ JsonRange.specMatch .unb (.incl (.f (-3))) 0 = false
      ∧ JsonRange.implMatch .i64 (.incl (.f 5)) .unb 2 = true
      ∧ JsonRange.specMatch (.incl (.f 5)) .unb 2 = false
      ∧ JsonRange.implMatch .i64 .unb (.incl (.f (-5))) (-2) = true
      ∧ JsonRange.specMatch .unb (.incl (.f (-5))) (-2) = false
      ∧ JsonRange.upperOk .u64 (.incl (.f (-3))) = false ∧ JsonRange.lowerOk .i64 (.incl (.f 5)) = false
      ∧ JsonRange.upperOk .i64 (.incl (.f (-5))) = false := by
  decide

/-! ## non-vacuity -/

/-- the classifier that never specialises is sound on every leaf -/
theorem plainCls_sound : LeafSound (fun _ _ l docs => .wrapped (.leaf (docsWhere docs (semLeaf l)) false)) := by
  intro docs scoring b l d hd _
  simp only [mem]
  exact contains_docsWhere docs (semLeaf l) d hd

example : ∃ cls, LeafSound cls := ⟨_, plainCls_sound⟩
example : DocsWf [⟨1, [⟨1, [97], [0, 3, 7]⟩, ⟨1, [98], [1]⟩], []⟩] := by
  intro doc hdoc p hp
  simp at hdoc; subst hdoc
  simp at hp
  rcases hp with rfl | rfl <;> decide
-- a query of depth 3 that satisfies the side conditions, on a two-segment corpus with a delete
example :
    let q : Query := .bool [(.must, .leaf (.term 1 [97])),
      (.should, .bool [(.should, .leaf (.term 1 [98])), (.mustNot, .leaf .all)] 0),
      (.mustNot, .disMax [.leaf (.term 1 [99])])] 0
    okQ false q = true ∧ okQ true q = true := by decide
example :
    let d1 : ADoc := ⟨1, [⟨1, [97], [0]⟩], []⟩
    let d2 : ADoc := ⟨2, [⟨1, [97], [0]⟩, ⟨1, [99], [1]⟩], []⟩
    let d3 : ADoc := ⟨3, [⟨1, [97], [0]⟩], []⟩
    let c : Corpus := [⟨[d1, d2], [true, true]⟩, ⟨[d3], [false]⟩]
    let q : Query := .bool [(.must, .leaf (.term 1 [97])), (.mustNot, .leaf (.term 1 [99]))] 0
    (∀ s ∈ c, s.wf) ∧ answer q c = [1] ∧ searchIds leafTree false true c q = [1]
      ∧ searchIds leafTree singleClauseGuard false c q = [1] := by
  refine ⟨?_, by decide, by decide, by decide⟩
  intro s hs
  simp at hs
  rcases hs with rfl | rfl <;> rfl
-- effective minimum = raw minimum minus the eliminated AllScorer SHOULD clauses: SHOULD[ALL, a, b, c]
-- with msm = 3 needs two of a, b, c (Disjunction with 2, not promotion of a, b, c to MUST)
example :
    let doc : ADoc := ⟨1, [⟨1, [97], [0]⟩, ⟨1, [98], [1]⟩], []⟩
    let doc2 : ADoc := ⟨2, [⟨1, [97], [0]⟩], []⟩
    let t (c : Nat) : Query := .leaf (.term 1 [c])
    let q : Query := .bool [(.should, .leaf .all), (.should, t 97), (.should, t 98), (.should, t 99)] 3
    okQ false q = true ∧ sem q doc = true ∧ sem q doc2 = false
      ∧ interp 2 (compile leafTree false true [doc, doc2] false q) = [0]
      ∧ interp 2 (compileTop leafTree true false [doc, doc2] q) = [0] := by
  decide
-- with a deleted document the count shortcut would over-count: the side condition is needed
example :
    let d1 : ADoc := ⟨1, [⟨1, [97], [0]⟩], []⟩
    let s : Seg := ⟨[d1, d1], [true, false]⟩
    termCountShortcut s 1 [97] = 2 ∧ collectCount leafTree false false s (.leaf (.term 1 [97])) = 1 := by
  decide
example : ([2, 5, 9] : List Nat).Pairwise (· ≤ ·) ∧ phraseSlop [[2, 5, 9], [7]] 2 = true := by decide
example : (-1 : Int) = (BitVec.ofNat 64 (2^64 - 1)).toInt ∧ (BitVec.ofNat 64 5).toInt = 5 := by decide
example : OrderEnc.f64Key (BitVec.ofNat 64 (2^63)) < OrderEnc.f64Key (BitVec.ofNat 64 0) := by decide
example : (300 : Nat) < 256 ^ 2 ∧ OrderEnc.be 2 300 = [1, 44] := by decide
example : bndBelow 2 (BndN.incl 300) := by show 300 < 256 ^ 2; decide
example : JsonRange.inCol .u64 0 ∧ (JsonRange.B.excl (.i (-3))).wf ∧ JsonRange.lowerOk .u64 (.excl (.i (-3))) = true
    ∧ JsonRange.implMatch .u64 .unb (.excl (.i (-3))) 0 = false
    ∧ JsonRange.upperOk .u64 (.excl (.i (-3))) = true ∧ JsonRange.upperOk .i64 (.incl (.f 5)) = true := by
  refine ⟨?_, ?_, by decide, by decide, by decide, by decide⟩
  · show (0 : Int) ≤ 0 ∧ (0 : Int) < 2 ^ 64
    decide
  · show -(2 ^ 63) ≤ (-3 : Int) ∧ (-3 : Int) ≤ JsonRange.I64MAX
    decide
example : PhraseSlop.exactOff [[4, 9], [1, 4, 7], [4]] = true ∧ PhraseSlop.exactOn [[4], [1, 4, 7], [4, 9]] = true
    ∧ PhraseSlop.exactOff [[4, 9], [1, 5, 7], [4]] = false ∧ ([4, 9] : List Nat).Pairwise (· ≤ ·)
    ∧ ([[4], [1, 4, 7], [4, 9]] : List (List Nat)).Perm [[4, 9], [1, 4, 7], [4]] := by
  refine ⟨by decide, by decide, by decide, by decide, ?_⟩
  exact (List.Perm.swap _ _ _).trans ((List.Perm.cons _ (List.Perm.swap _ _ _)).trans (List.Perm.swap _ _ _))
-- "a x b…": full term a at 0, a term starting with b two positions later
example :
    let d : ADoc := ⟨1, [⟨1, [97], [0]⟩, ⟨1, [120], [1]⟩, ⟨1, [98, 99], [2]⟩], []⟩
    semPhrasePrefix d 1 [(0, [97])] 2 [98] = true ∧ semPhrasePrefix d 1 [(0, [97])] 1 [98] = false
      ∧ maxOff [(0, [97]), (2, [98])] ≤ 5 := by decide
example : JsonRange.Guards.extracted = JsonRange.Guards.repaired ∨ JsonRange.Guards.extracted = JsonRange.Guards.pinned := by
  decide
example : JsonRange.implMatchG JsonRange.Guards.repaired .u64 .unb (.incl (.f (-3))) 0 = false
    ∧ JsonRange.implMatchG JsonRange.Guards.repaired .i64 (.incl (.f 5)) .unb 2 = false
    ∧ JsonRange.implMatchG JsonRange.Guards.repaired .i64 (.incl (.u (2 ^ 63))) .unb 5 = false := by decide
example : FastRange.classify (.incl 3) (.excl 10) 3 9 true = .all
    ∧ FastRange.classify (.incl 3) (.excl 10) 3 9 false = .range 3 9
    ∧ FastRange.classify (.excl 9) .unb 3 9 true = .empty
    ∧ FastRange.classify .unb (.excl 0) 0 9 true = .empty
    ∧ FastRange.classify (.excl FastRange.U64MAX) .unb 0 FastRange.U64MAX true = .empty
    ∧ (3 : Nat) ≤ 5 ∧ (5 : Nat) ≤ FastRange.U64MAX := by decide
example : (∀ x ∈ ([1, 2] : List Nat), ∀ y ∈ ([9] : List Nat), 3 < dist x y)
    ∧ PhraseSlop.carrying [1, 2] [] [9] 3 = (0, [], [])
    ∧ 0 < (PhraseSlop.carrying [1, 5] [] [4, 6] 3).1 ∧ ([[7]] : List (List Nat)) ≠ [] := by decide
example : (JsonRange.SegVals.mk [3, 9] 3 9).ok ∧ (JsonRange.SegVals.mk [2 ^ 63, 0] 0 (2 ^ 63)).ok
    ∧ JsonRange.mergedCol [⟨.i64, 3, 9⟩, ⟨.u64, 0, 2 ^ 63⟩] = .u64
    ∧ JsonRange.mergedCol [⟨.i64, -3, 9⟩, ⟨.u64, 0, 2 ^ 63⟩] = .f64 := by
  refine ⟨?_, ?_, by decide, by decide⟩
  · refine ⟨by simp, by simp, ?_, ?_⟩ <;> intro v hv <;> simp at hv <;> rcases hv with rfl | rfl <;> decide
  · refine ⟨by simp, by simp, ?_, ?_⟩ <;> intro v hv <;> simp at hv <;> rcases hv with rfl | rfl <;> decide
example :
    let c : Corpus := [⟨[⟨1, [⟨1, [97], [0, 4]⟩], []⟩], [true]⟩]
    c.all (fun s => docsWfB s.docs && s.alive.length == s.docs.length) = true := by decide
example : (JsonRange.B.excl (.f (-3))).small ∧ (JsonRange.B.incl (.i 7)).small
    ∧ JsonRange.implMatchF (.excl (.f (-3))) (.incl (.i 7)) 5 = true
    ∧ JsonRange.implMatchF (.excl (.f (-3))) (.incl (.i 7)) (-3) = false := by
  refine ⟨?_, ?_, by decide, by decide⟩
  · show -(2 ^ 53) < (-3 : Int) ∧ (-3 : Int) < 2 ^ 53
    decide
  · show -(2 ^ 53) < (2 * 7 : Int) ∧ (2 * 7 : Int) < 2 ^ 53
    decide
example :
    let d1 : ADoc := ⟨1, [⟨1, [97], [0]⟩], []⟩
    let s : Seg := ⟨[d1, d1, ⟨3, [], []⟩], [true, true, true]⟩
    s.alive.all id = true ∧ termCountShortcut s 1 [97] = 2
      ∧ (interp 3 (compile leafTree true false s.docs false (.leaf (.term 1 [97])))) = [0, 1] := by
  decide
example : (([⟨1, [], []⟩, ⟨2, [], []⟩] : List ADoc)).Perm [⟨2, [], []⟩, ⟨1, [], []⟩] :=
  List.Perm.swap _ _ _

end TantivyModel.C03
