import TantivyModel.Proofs.Footer
import TantivyModel.Proofs.Decimal
import TantivyModel.Proofs.Crc32Burst
import TantivyModel.Proofs.Crc32Order
import TantivyModel.Proofs.Crc32Bits
/-!
# C20 — Checksum validation detects any corruption of a segment file

Property theorems only (helper lemmas live in `Proofs/`). `C : PayloadCodec` is the serde_json
text codec of the footer, a parameter with the round-trip contract `GoodCodec`.
-/
namespace TantivyModel.C20
open TantivyModel TantivyModel.Footer TantivyModel.Crc32

/-- contract assumed of the footer text codec (serde_json for the fixed `Footer` shape) -/
structure GoodCodec (C : PayloadCodec) : Prop where
  roundtrip : ∀ f, C.dec (C.enc f) = some f
  short : ∀ f, (C.enc f).length ≤ Gen.FOOTER_MAX_LEN

/-- reading back a written file yields the footer and exactly the content without it -/
theorem C20_extract_append (C : PayloadCodec) (hC : GoodCodec C) (body : Bytes) (f : Footer) :
    extract C (body ++ footerBytes C f) = .ok (f, body) :=
  extract_payload C body (C.enc f) f (hC.short f) (hC.roundtrip f)

/-- `open_read` of a file of a supported format version is exactly the body -/
theorem C20_open_read_body (C : PayloadCodec) (hC : GoodCodec C) (body : Bytes) (f : Footer)
    (hv : isCompatible f = true) : openRead C (body ++ footerBytes C f) = .body body := by
  simp [openRead, C20_extract_append C hC, hv]

/-- files of an unsupported format version are refused, never misread -/
theorem C20_version_refused (C : PayloadCodec) (hC : GoodCodec C) (body : Bytes) (f : Footer)
    (hv : f.version.fmt.toNat < Gen.INDEX_FORMAT_OLDEST_SUPPORTED_VERSION
          ∨ Gen.INDEX_FORMAT_VERSION < f.version.fmt.toNat) :
    openRead C (body ++ footerBytes C f) = .incompatible := by
  have : isCompatible f = false := by
    unfold isCompatible
    rcases hv with h | h <;> simp <;> omega
  simp [openRead, C20_extract_append C hC, this]

/-- an intact file is reported intact -/
theorem C20_intact_reports_nothing (C : PayloadCodec) (hC : GoodCodec C) (body : Bytes)
    (v : Version) :
    validate C (body ++ footerBytes C { version := v, crc := crc32 body }) = .intact := by
  simp [validate, C20_extract_append C hC]

/-- exact characterisation of the files `validate_checksum` accepts -/
theorem C20_validate_iff (C : PayloadCodec) (file : Bytes) :
    validate C file = .intact ↔
      ∃ body p f, file = body ++ footerBytesOfPayload p ∧ p.length ≤ Gen.FOOTER_MAX_LEN
        ∧ C.dec p = some f ∧ f.crc = crc32 body := by
  constructor
  · intro h
    unfold validate at h
    split at h
    · cases h
    · rename_i f body he
      obtain ⟨p, hp, hd, hl⟩ := extract_shape' C file f body he
      refine ⟨body, p, f, hp, hl, hd, ?_⟩
      by_cases hc : crc32 body = f.crc
      · exact hc.symm
      · simp [hc] at h
  · rintro ⟨body, p, f, rfl, hl, hd, hc⟩
    simp [validate, extract_payload C body p f hl hd, hc]

/-- core CRC fact: substituting one byte changes the checksum, whatever precedes and follows -/
theorem crc32_single_byte (pre suf : Bytes) (a b : UInt8) (h : a ≠ b) :
    crc32 (pre ++ a :: suf) ≠ crc32 (pre ++ b :: suf) := by
  intro he
  unfold crc32 at he
  have h1 := finalize_injective he
  rw [update_append, update_append] at h1
  have h2 : update (step (update init pre) a) suf = update (step (update init pre) b) suf := by
    simpa [update] using h1
  exact h (step_injective_byte (update_injective_state suf h2))

/-- any byte substitution in the body (hence any single bit flip) is detected -/
theorem C20_single_byte_detected (C : PayloadCodec) (hC : GoodCodec C) (body : Bytes)
    (v : Version) (i : Nat) (hi : i < body.length) (b : UInt8) (hb : b ≠ body[i]) :
    validate C (body.set i b ++ footerBytes C { version := v, crc := crc32 body }) = .damaged := by
  have hne : crc32 (body.set i b) ≠ crc32 body := by
    have e1 : body = body.take i ++ body[i] :: body.drop (i + 1) := by
      simp
    have e2 : body.set i b = body.take i ++ b :: body.drop (i + 1) := by
      rw [List.set_eq_take_append_cons_drop]; simp [hi]
    rw [e2]
    conv => rhs; rw [e1]
    exact crc32_single_byte _ _ _ _ hb
  simp [validate, C20_extract_append C hC, hne]

/-- single bit flips are byte substitutions -/
theorem C20_bit_flip_detected (C : PayloadCodec) (hC : GoodCodec C) (body : Bytes)
    (v : Version) (i : Nat) (hi : i < body.length) (k : Nat) (hk : k < 8) :
    validate C (body.set i (body[i] ^^^ (1 <<< UInt8.ofNat k))
      ++ footerBytes C { version := v, crc := crc32 body }) = .damaged := by
  apply C20_single_byte_detected C hC body v i hi
  intro h
  have : (body[i] ^^^ (1 <<< UInt8.ofNat k)) ^^^ body[i] = 0 := by rw [h]; simp
  have h2 : (1 : UInt8) <<< UInt8.ofNat k = 0 := by
    have e : (body[i] ^^^ (1 <<< UInt8.ofNat k)) ^^^ body[i] = (1 <<< UInt8.ofNat k) := by
      rw [UInt8.xor_comm body[i], UInt8.xor_assoc, UInt8.xor_self, UInt8.xor_zero]
    rw [e] at this; exact this
  revert h2
  have : k = 0 ∨ k = 1 ∨ k = 2 ∨ k = 3 ∨ k = 4 ∨ k = 5 ∨ k = 6 ∨ k = 7 := by omega
  rcases this with h|h|h|h|h|h|h|h <;> subst h <;> decide

/-- every change confined to four consecutive bytes of the body (any burst of up to 32 bits,
e.g. a torn 4-byte write or a flipped word) is detected -/
theorem C20_burst32_detected (C : PayloadCodec) (hC : GoodCodec C) (pre suf : Bytes)
    (a0 a1 a2 a3 b0 b1 b2 b3 : UInt8) (v : Version)
    (h : ¬ (a0 = b0 ∧ a1 = b1 ∧ a2 = b2 ∧ a3 = b3)) :
    validate C ((pre ++ b0 :: b1 :: b2 :: b3 :: suf)
      ++ footerBytes C { version := v, crc := crc32 (pre ++ a0 :: a1 :: a2 :: a3 :: suf) })
      = .damaged := by
  have hne := crc32_burst4 pre suf b0 b1 b2 b3 a0 a1 a2 a3
    (fun ⟨h0, h1, h2, h3⟩ => h ⟨h0.symm, h1.symm, h2.symm, h3.symm⟩)
  unfold validate
  rw [C20_extract_append C hC]
  simp [hne]

/-- every change confined to two consecutive bytes is detected, wherever they are (also the last
two bytes of the body, where `C20_burst32_detected` has no four bytes to speak about) -/
theorem C20_burst16_detected (C : PayloadCodec) (hC : GoodCodec C) (pre suf : Bytes)
    (a0 a1 b0 b1 : UInt8) (v : Version) (h : ¬ (a0 = b0 ∧ a1 = b1)) :
    validate C ((pre ++ b0 :: b1 :: suf)
      ++ footerBytes C { version := v, crc := crc32 (pre ++ a0 :: a1 :: suf) }) = .damaged := by
  have hne := crc32_burst2 pre suf b0 b1 a0 a1 (fun ⟨h0, h1⟩ => h ⟨h0.symm, h1.symm⟩)
  unfold validate
  rw [C20_extract_append C hC]
  simp [hne]

/-- swapping two adjacent, different bytes anywhere in the body (the classic transposition
error, which leaves length and byte histogram unchanged) is detected -/
theorem C20_transposition_detected (C : PayloadCodec) (hC : GoodCodec C) (pre suf : Bytes)
    (a b : UInt8) (v : Version) (h : a ≠ b) :
    validate C ((pre ++ b :: a :: suf)
      ++ footerBytes C { version := v, crc := crc32 (pre ++ a :: b :: suf) }) = .damaged :=
  C20_burst16_detected C hC pre suf a b b a v (fun ⟨h0, _⟩ => h h0)

/-- the burst guarantee at bit granularity: if the stored file has the length of the original and
differs from it only inside some window of 32 consecutive bit positions (bits counted in the order
the checksum consumes them: least significant bit of each byte first; the window need not be byte
aligned and may span five bytes), validation reports it -/
theorem C20_burst_any_32_bits_detected (C : PayloadCodec) (hC : GoodCodec C) (body body' : Bytes)
    (v : Version) (hlen : body.length = body'.length) (p : Nat)
    (hout : ∀ i, (i < p ∨ p + 32 ≤ i) → (bitsOf body')[i]? = (bitsOf body)[i]?)
    (hne : body' ≠ body) :
    validate C (body' ++ footerBytes C { version := v, crc := crc32 body }) = .damaged := by
  have hne' := crc32_burst_bits body' body hlen.symm p hout hne
  unfold validate
  rw [C20_extract_append C hC]
  simp [hne']

/-- the CRC-32 register has period exactly `2^32 - 1` on the state `1` (proved by representing the
step as a bit matrix, repeated squaring evaluated by the kernel, and a minimal-period argument over
the prime factors `3 · 5 · 17 · 257 · 65537`): this is what makes double-bit errors detectable -/
theorem C20_crc_register_order (d : Nat) (h0 : 0 < d) (h1 : d < 4294967295) :
    iter d 1#32 ≠ 1#32 := iter_order d h0 h1

/-- every pair of flipped bits in two different bytes of the body is detected whenever the two
bytes lie in a window shorter than `2^32 - 1` bits. With `C20_single_byte_detected` (both bits in
one byte) this covers every double-bit error of every file below 512 MiB. -/
theorem C20_two_bit_flips_detected (C : PayloadCodec) (hC : GoodCodec C) (pre mid suf : Bytes)
    (a b : UInt8) (k l : Nat) (hk : k < 8) (hl : l < 8)
    (hlen : 8 * (mid.length + 2) ≤ 4294967295) (v : Version) :
    validate C
      ((pre ++ ((a ^^^ (1 <<< UInt8.ofNat k)) :: (mid ++ ((b ^^^ (1 <<< UInt8.ofNat l)) :: suf))))
        ++ footerBytes C { version := v, crc := crc32 (pre ++ (a :: (mid ++ (b :: suf)))) })
      = .damaged := by
  have hne := crc32_two_bits pre mid suf a b k l hk hl hlen
  unfold validate
  rw [C20_extract_append C hC]
  simp [hne]

/-- a file shorter than the fixed trailer is reported unreadable (never misread, never a panic
in the model; the implementation's behaviour on 4..7 bytes is compared by the harness) -/
theorem C20_truncation_small (C : PayloadCodec) (file : Bytes) (n : Nat) (hn : n < 8) :
    validate C (file.take n) = .unreadable .tooSmall := by
  have : (file.take n).length < Gen.FOOTER_MIN_FILE_LEN := by
    simp only [List.length_take]; have : Gen.FOOTER_MIN_FILE_LEN = 8 := rfl; omega
  unfold validate extract
  simp only [this, if_true]

/-- FooterProxy: for every schedule of partial writes the stored crc is the crc of exactly the
bytes the sink accepted, and the produced file validates and reads back as those bytes. -/
theorem proxy_fold (ws : List WriteCall) (s : ProxyState) :
    (ws.foldl proxyWrite s).sink = s.sink ++ (ws.map (fun w => w.buf.take w.count)).flatten ∧
    (ws.foldl proxyWrite s).hasher
      = update s.hasher (ws.map (fun w => w.buf.take w.count)).flatten := by
  induction ws generalizing s with
  | nil => simp [update]
  | cons w ws ih =>
    obtain ⟨h1, h2⟩ := ih (proxyWrite s w)
    constructor
    · rw [List.foldl_cons, h1]; simp [proxyWrite, List.append_assoc]
    · rw [List.foldl_cons, h2]; simp [proxyWrite, update_append]

theorem C20_proxy_hash_all (C : PayloadCodec) (hC : GoodCodec C) (ws : List WriteCall)
    (v : Version) :
    let accepted := (ws.map (fun w => w.buf.take w.count)).flatten
    let file := proxyTerminate C v (ws.foldl proxyWrite proxyInit)
    extract C file = .ok ({ version := v, crc := crc32 accepted }, accepted)
      ∧ validate C file = .intact := by
  intro accepted file
  obtain ⟨h1, h2⟩ := proxy_fold ws proxyInit
  have hs : (ws.foldl proxyWrite proxyInit).sink = accepted := by simpa [proxyInit] using h1
  have hh : finalize (ws.foldl proxyWrite proxyInit).hasher = crc32 accepted := by
    rw [h2]; rfl
  have hf : file = accepted ++ footerBytes C { version := v, crc := crc32 accepted } := by
    show proxyTerminate C v _ = _
    unfold proxyTerminate
    rw [hs, hh]
  rw [hf]
  exact ⟨C20_extract_append C hC _ _, C20_intact_reports_nothing C hC _ _⟩

/-! ### the concrete codec the driver executes satisfies the contract -/

theorem C20_decimalCodec_good : GoodCodec decimalCodec :=
  ⟨decimal_roundtrip, decimal_short⟩

/-- hypothesis-free instance for the executable model: every byte substitution in the body of a
file written with the canonical footer text is detected -/
theorem C20_single_byte_detected_concrete (body : Bytes) (v : Version) (i : Nat)
    (hi : i < body.length) (b : UInt8) (hb : b ≠ body[i]) :
    validate decimalCodec
      (body.set i b ++ footerBytes decimalCodec { version := v, crc := crc32 body }) = .damaged :=
  C20_single_byte_detected decimalCodec C20_decimalCodec_good body v i hi b hb

/-- `Index::validate_checksum` reports exactly the managed files of committed segments whose
content no longer validates (when every such file is readable) -/
theorem C20_validation_walks_all (C : PayloadCodec) (active managed : List Nat)
    (read : Nat → Option Bytes) (ds : List Nat)
    (h : indexValidate C active managed read = some ds) (p : Nat) :
    p ∈ ds ↔ p ∈ active ∧ p ∈ managed ∧ ∃ b, read p = some b ∧ validate C b = .damaged := by
  unfold indexValidate at h
  simp only at h
  have key : ∀ (walk : List Nat) (ds : List Nat),
      walk.foldr (fun p acc =>
        match acc, read p with
        | none, _ => none
        | _, none => none
        | some ds, some bytes =>
          match validate C bytes with
          | .intact => some ds
          | .damaged => some (p :: ds)
          | .unreadable _ => none) (some []) = some ds →
      (p ∈ ds ↔ p ∈ walk ∧ ∃ b, read p = some b ∧ validate C b = .damaged) := by
    intro walk
    induction walk with
    | nil => intro ds h; simp at h; subst h; simp
    | cons q walk ih =>
      intro ds h
      simp only [List.foldr_cons] at h
      split at h
      · cases h
      · cases h
      · rename_i ds' bytes hacc hread
        have ih' := ih ds' hacc
        split at h
        · injection h with h; subst h
          rw [ih']
          constructor
          · rintro ⟨hm, hb⟩; exact ⟨List.mem_cons_of_mem _ hm, hb⟩
          · rintro ⟨hm, b, hb, hv⟩
            rcases List.mem_cons.mp hm with rfl | hm
            · rw [hread] at hb; injection hb with hb; subst hb; simp_all
            · exact ⟨hm, b, hb, hv⟩
        · injection h with h; subst h
          rw [List.mem_cons, ih']
          constructor
          · rintro (rfl | ⟨hm, hb⟩)
            · exact ⟨List.mem_cons_self, bytes, hread, by assumption⟩
            · exact ⟨List.mem_cons_of_mem _ hm, hb⟩
          · rintro ⟨hm, hb⟩
            rcases List.mem_cons.mp hm with rfl | hm
            · exact Or.inl rfl
            · exact Or.inr ⟨hm, hb⟩
        · cases h
  rw [key _ ds h]
  simp [List.mem_filter, and_assoc]

/-! ### what no 32-bit checksum can promise

The property text says "any … truncation or extension of a segment file's body is detected".
With the footer kept, that is false for CRC-32 (as for every 32-bit checksum): absorbing four
bytes is a bijection on the CRC state, so every body has exactly one 4-byte extension with the
same checksum. Concrete witness (replayed against the real `validate_checksum` by the harness,
KNOWN_FINDINGS key `C20:crc32-collision-4-byte-extension`): -/

theorem C20_extension_counterexample :
    crc32 ([104, 101, 108, 108, 111] ++ [4, 204, 23, 200]) = crc32 [104, 101, 108, 108, 111]
    ∧ validate decimalCodec
        (([104, 101, 108, 108, 111] ++ [4, 204, 23, 200] : Bytes)
          ++ footerBytes decimalCodec
              { version := ⟨0, 26, 0, 7⟩, crc := crc32 [104, 101, 108, 108, 111] })
        = .intact := by
  decide +kernel

/-- the same witness read as a truncation: cutting the last four body bytes goes unnoticed -/
theorem C20_truncation_counterexample :
    validate decimalCodec
        (([104, 101, 108, 108, 111, 4, 204, 23, 200] : Bytes).take 5
          ++ footerBytes decimalCodec
              { version := ⟨0, 26, 0, 7⟩, crc := crc32 [104, 101, 108, 108, 111, 4, 204, 23, 200] })
        = .intact := by
  decide +kernel

/-! ### non-vacuity: the hypotheses are met by concrete non-trivial states -/

example : ∃ C, GoodCodec C := ⟨decimalCodec, C20_decimalCodec_good⟩
example : (1 : Nat) < ([1, 2, 3] : Bytes).length ∧ (9 : UInt8) ≠ ([1, 2, 3] : Bytes)[1] := by decide
example : isCompatible { version := ⟨0, 26, 0, 7⟩, crc := 0 } = true := by decide
example : isCompatible { version := ⟨0, 26, 0, 3⟩, crc := 0 } = false := by decide
example : crc32 [1, 2, 3] ≠ crc32 [1, 9, 3] := by decide +kernel
-- the hypotheses of `C20_burst_any_32_bits_detected` are met by a concrete pair: bits of a
-- 6-byte body changed (bits 12..35: a window touching four bytes, not byte aligned)
example : ([1, 0xF2, 3, 4, 0x05, 6] : Bytes).length = ([1, 0x02, 0xFC, 0xFB, 0x0A, 6] : Bytes).length
    ∧ (∀ i, i < 48 → (i < 12 ∨ 12 + 32 ≤ i) →
        (bitsOf [1, 0x02, 0xFC, 0xFB, 0x0A, 6])[i]? = (bitsOf [1, 0xF2, 3, 4, 0x05, 6])[i]?)
    ∧ ([1, 0x02, 0xFC, 0xFB, 0x0A, 6] : Bytes) ≠ [1, 0xF2, 3, 4, 0x05, 6] := by decide
-- the hypotheses of `C20_two_bit_flips_detected` are met by a concrete file
example : (0 : Nat) < 8 ∧ (7 : Nat) < 8 ∧ 8 * (([2, 3] : Bytes).length + 2) ≤ 4294967295 := by decide
example (v : Version) : True := by
  have := C20_two_bit_flips_detected decimalCodec C20_decimalCodec_good ([1] : Bytes) [2, 3] [4] 5 6 0 7
    (by decide) (by decide) (by decide) v
  trivial

example : validate decimalCodec (([1, 3, 2, 4] : Bytes)
    ++ footerBytes decimalCodec { version := ⟨0, 26, 0, 7⟩, crc := crc32 [1, 2, 3, 4] }) = .damaged :=
  C20_transposition_detected decimalCodec C20_decimalCodec_good [1] [4] 2 3 _ (by decide)

end TantivyModel.C20
