import TantivyModel.Proofs.CommitProtocol
import TantivyModel.Proofs.Storage
/-!
# C01 — Commit is atomic and durable across a crash at any instant

Property theorems only. The storage fault model is `Storage.CrashImage` (the one in the
property's quantifier), the protocol discipline is `CommitProtocol.violations` (D0–D4), the
invariant is `CommitProtocol.Inv`. All theorems are for every initial state satisfying the
invariant (the state after `Index::create` does: `C01_created_inv`; every recovered crash image
does: `C01_recovered_continues`), every trace, every prefix and every crash image.
-/
namespace TantivyModel.C01
open TantivyModel.Storage TantivyModel.CommitProtocol

/-- core atomicity invariant (the "smaller version"): along a disciplined trace, every file
referenced by a `meta.json` version that a crash could leave — in particular by the durable one —
is durably complete: its entry is synced, it was terminated, it was not unlinked. -/
theorem C01_referenced_files_durable (s0 : PState) (h0 : Inv s0) (t : List Op)
    (hd : Disciplined s0 t = true) (k : Nat) :
    ∀ m ∈ metaCands (s0.run (t.take k)), ∀ p ∈ m.refs,
      ((s0.run (t.take k)).dir.file p).firm = true :=
  (h0.run _ (disciplined_take s0 t k hd)).refs

/-- **main theorem**: for every disciplined trace, every prefix and every crash image the storage
may leave at that point, re-opening finds a commit `j` with `lastAcked ≤ j ≤ lastStarted`, and
every file its `meta.json` references is present and sealed (complete, checksum valid). -/
theorem C01_recover_disciplined (s0 : PState) (h0 : Inv s0) (t : List Op)
    (hd : Disciplined s0 t = true) (k : Nat) (img : Image)
    (hi : CrashImage (s0.dir.run (t.take k)) img) :
    ∃ j, recover img = some j ∧ lastAcked s0.acked (t.take k) ≤ j ∧
      j ≤ lastStarted s0.started (t.take k) ∧
      ∃ m, img.atom META = some m ∧ m.commit = j ∧ ∀ p ∈ m.refs, sealedIn img p = true := by
  have hinv := h0.run _ (disciplined_take s0 t k hd)
  rw [← run_dir] at hi
  obtain ⟨m, hmc, hme, hrec, hfiles⟩ := hinv.recover img hi
  have hb := hinv.bounds m hmc
  rw [run_acked, run_started] at hb
  refine ⟨m.commit, hrec, hb.1, hb.2, m, hme, rfl, ?_⟩
  intro p hp
  simp [sealedIn, hfiles p hp]

/-- `recover` depends only on `meta.json` and the files it references … -/
theorem C01_recover_reads_only_referenced (img img' : Image)
    (hm : img.atom META = img'.atom META) (hf : ∀ p ∈ readSet img, img.file p = img'.file p) :
    recover img = recover img' := by
  unfold recover readSet at *
  rw [← hm]
  cases h : img.atom META with
  | none => rfl
  | some m =>
    simp only [h] at hf
    have hs : ∀ p ∈ m.refs, sealedIn img p = sealedIn img' p := by
      intro p hp
      simp [sealedIn, hf p hp]
    have : m.refs.all (sealedIn img) = m.refs.all (sealedIn img') := by
      apply Bool.eq_iff_iff.mpr
      simp only [List.all_eq_true]
      constructor
      · intro h p hp; rw [← hs p hp]; exact h p hp
      · intro h p hp; rw [hs p hp]; exact h p hp
    simp only [this]

/-- … and along a disciplined trace none of the paths it reads is un-synced: each one is firm
(entry synced, content fsynced, not unlinked), so no partially written, unreferenced or
not-yet-synced file is ever needed. -/
theorem C01_no_unsynced_needed (s0 : PState) (h0 : Inv s0) (t : List Op)
    (hd : Disciplined s0 t = true) (k : Nat) (img : Image)
    (hi : CrashImage (s0.dir.run (t.take k)) img) :
    ∀ p ∈ readSet img, ((s0.dir.run (t.take k)).file p).firm = true := by
  have hinv := h0.run _ (disciplined_take s0 t k hd)
  rw [← run_dir] at hi ⊢
  obtain ⟨m, hmc, hme, _, _⟩ := hinv.recover img hi
  intro p hp
  unfold readSet at hp
  rw [hme] at hp
  exact hinv.refs m hmc p hp

/-- the directory found after a crash satisfies the protocol invariant again, with
`lastAcked = lastStarted = j` … -/
theorem C01_recovered_continues (img : Image) (paths apaths : List Path) (j : Nat)
    (hr : recover img = some j) : Inv (PState.ofImage img paths apaths j) := by
  unfold recover at hr
  cases hm : img.atom META with
  | none => simp [hm] at hr
  | some m =>
    simp only [hm] at hr
    by_cases hall : m.refs.all (sealedIn img) = true
    · simp only [hall, if_true, Option.some.injEq] at hr
      have hc : metaCands (PState.ofImage img paths apaths j) = [m] := by
        simp [metaCands, PState.ofImage, Dir.ofImage, AtomSt.cands, hm]
      refine ⟨⟨m, by simp [PState.ofImage, Dir.ofImage, hm]⟩, ?_, ?_⟩
      · intro m' hm' p hp
        rw [hc] at hm'
        simp at hm'
        subst hm'
        have hs := List.all_eq_true.mp hall p hp
        unfold sealedIn at hs
        cases hf : img.file p with
        | none => simp [hf] at hs
        | some v =>
          obtain ⟨n, sl⟩ := v
          cases sl with
          | false => simp [hf] at hs
          | true => simp [PState.ofImage, Dir.ofImage, hf, FileSt.firm]
      · intro m' hm'
        rw [hc] at hm'
        simp at hm'
        subst hm'
        simp [PState.ofImage, hr]
    · simp [hall] at hr

/-- … hence every disciplined continuation of a recovered index (new writer, further commits,
garbage collection) is again covered by the main theorem. -/
theorem C01_recovered_then_disciplined (img : Image) (paths apaths : List Path) (j : Nat)
    (hr : recover img = some j) (t : List Op)
    (hd : Disciplined (PState.ofImage img paths apaths j) t = true) (k : Nat) (img' : Image)
    (hi : CrashImage ((PState.ofImage img paths apaths j).dir.run (t.take k)) img') :
    ∃ j', recover img' = some j' ∧ lastAcked j (t.take k) ≤ j' ∧ j' ≤ lastStarted j (t.take k) := by
  obtain ⟨j', h1, h2, h3, _⟩ :=
    C01_recover_disciplined _ (C01_recovered_continues img paths apaths j hr) t hd k img' hi
  exact ⟨j', h1, h2, h3⟩

/-- the state right after `Index::create` satisfies the invariant -/
theorem C01_created_inv : Inv PState.created := by
  refine ⟨⟨{ commit := 0, ver := 0, len := 0, refs := [] }, by decide⟩, ?_, ?_⟩
  · intro m hm p hp
    have : metaCands PState.created = [{ commit := 0, ver := 0, len := 0, refs := [] }] := by decide
    rw [this] at hm
    simp at hm
    subst hm
    cases hp
  · intro m hm
    have : metaCands PState.created = [{ commit := 0, ver := 0, len := 0, refs := [] }] := by decide
    rw [this] at hm
    simp at hm
    subst hm
    decide

/-! ## non-vacuity: a disciplined two-commit history with a delete file, a merge and a GC -/

/-- paths: 2 = segment A, 3 = segment B, 4 = `A.<opstamp>.del`, 5 = merged segment -/
def demoTrace : List Op :=
  [ .atomicWrite MANAGED ⟨0, 1, 10, [0, 2]⟩, .create 2, .write 2 10, .flush 2, .terminate 2,
    .syncDir, .atomicWrite META ⟨1, 2, 50, [2]⟩, .syncDir, .ack 1,
    .atomicWrite MANAGED ⟨0, 3, 12, [0, 2, 3]⟩, .create 3, .write 3 7, .flush 3, .terminate 3,
    .atomicWrite MANAGED ⟨0, 4, 14, [0, 2, 3, 4]⟩, .create 4, .write 4 3, .flush 4, .terminate 4,
    .syncDir, .atomicWrite META ⟨2, 5, 60, [2, 4, 3]⟩, .syncDir, .ack 2,
    .atomicWrite MANAGED ⟨0, 6, 16, [0, 2, 3, 4, 5]⟩, .create 5, .write 5 15, .flush 5, .terminate 5,
    .syncDir, .atomicWrite META ⟨2, 7, 40, [5]⟩, .syncDir,
    .delete 2, .delete 3, .delete 4, .syncDir, .atomicWrite MANAGED ⟨0, 8, 8, [0, 5]⟩ ]

example : Disciplined PState.created demoTrace = true := by decide

/-- the hypotheses of the main theorem are satisfiable on a non-trivial state: crash in the
middle of the merge's `meta.json` replacement, image = rename lost -/
example :
    let s := PState.created.dir.run (demoTrace.take 30)
    CrashImage s { file := fun p => if p = 2 then some (10, true) else if p = 3 then some (7, true)
                                    else if p = 4 then some (3, true) else if p = 5 then some (15, true) else none,
                   atom := fun p => if p = META then some ⟨2, 5, 60, [2, 4, 3]⟩
                                    else if p = MANAGED then some ⟨0, 6, 16, [0, 2, 3, 4, 5]⟩ else none } := by
  intro s
  constructor
  · intro p
    by_cases h2 : p = 2
    · subst h2; decide
    by_cases h3 : p = 3
    · subst h3; decide
    by_cases h4 : p = 4
    · subst h4; decide
    by_cases h5 : p = 5
    · subst h5; decide
    simp [s, h2, h3, h4, h5, demoTrace, PState.created, PState.run, PState.step, Dir.run, Dir.step,
      Dir.empty, upd, FileSt.sync, FileSt.outcome]
  · intro p
    by_cases h0 : p = META
    · subst h0; decide
    by_cases h1 : p = MANAGED
    · subst h1; decide
    have h0' : p ≠ 0 := h0
    have h1' : p ≠ 1 := h1
    simp [s, h0', h1', demoTrace, PState.created, PState.run, PState.step, Dir.run, Dir.step,
      Dir.empty, upd, AtomSt.sync, AtomSt.options, AtomSt.visible, META, MANAGED]

/-! ## the modelled protocol satisfies D0, D1, D2, D4 -/

/-- shape of `save_metas`' storage calls: some syncs, `sync_directory; atomic_write(meta.json)`,
some syncs. Decided on the extracted list; a `save_metas` without the sync right before the
write makes this (and the theorem below) fail. -/
theorem C01_save_metas_syncs_before_write :
    ∃ a, a < 4 ∧ ∃ b, b < 4 ∧
      Gen.SAVE_METAS_CALLS = List.replicate a 1 ++ [1, 2] ++ List.replicate b 1 := by
  decide

/-- **the modelled protocol satisfies D0, D1, D2 and D4** (`C01_protocol_disciplined_partial`):
for every state, every batch of fresh segment / delete files written the way `SegmentSerializer`
and `advance_deletes` do (registered, created, written, terminated), every `meta.json` payload
whose references are those new files or files already visible and terminated, and every set of
GC deletes that avoids the new payload's references, the operation sequence of `schedule_commit`
— with `save_metas` in the extracted shape `sync_directory; atomic_write(meta.json)` — breaks
none of D0, D1, D2, D4 at any step.
Full statement (false for the code, see `C01_d3_counterexample`): … breaks no rule at all,
i.e. also D3a/D3b. -/
theorem C01_protocol_disciplined_partial (a b : Nat) (s : PState) (managed m : Payload)
    (newFiles : List (Path × Nat)) (dels : List Path)
    (hfresh : ∀ f ∈ newFiles, (s.dir.file f.1).ever = false ∧ (s.dir.file f.1).vis = false ∧ (s.dir.file f.1).dur = false)
    (hnodup : (newFiles.map Prod.fst).Nodup)
    (hrefs : ∀ p ∈ m.refs, p ∈ newFiles.map Prod.fst ∨ (s.dir.file p).ready = true)
    (hmono : s.started ≤ m.commit)
    (hdels : ∀ p ∈ dels, p ≠ META ∧ p ∉ m.refs) :
    disciplinedBy (fun r => r != .D3a && r != .D3b) s
      (commitOps (List.replicate a 1 ++ [1, 2] ++ List.replicate b 1) managed newFiles m dels) = true := by
  let sel : Rule → Bool := fun r => r != .D3a && r != .D3b
  obtain ⟨w1, w2, w3, w4, _⟩ := writeAll_effect sel managed newFiles s hfresh hnodup
  have hops : commitOps (List.replicate a 1 ++ [1, 2] ++ List.replicate b 1) managed newFiles m dels =
      writeAll managed newFiles ++ (syncs (a + 1) ++ ([Op.atomicWrite META m] ++ (syncs b ++
        (dels.map Op.delete ++ ((if dels.isEmpty then [] else [.syncDir, .atomicWrite MANAGED managed]) ++ [.ack m.commit]))))) := by
    unfold commitOps gcOps
    rw [saveMetasOps_shape]
    simp [writeAll, List.append_assoc]
  rw [hops]
  -- state after the files are written
  let s1 := s.run (writeAll managed newFiles)
  have hready : ∀ p ∈ m.refs, (s1.dir.file p).ready = true := by
    intro p hp
    rcases hrefs p hp with hin | hr
    · obtain ⟨f, hf, e⟩ := List.mem_map.mp hin
      rw [← e]
      exact w2 f hf
    · by_cases hin : p ∈ newFiles.map Prod.fst
      · obtain ⟨f, hf, e⟩ := List.mem_map.mp hin
        rw [← e]
        exact w2 f hf
      · show ((s.run (writeAll managed newFiles)).dir.file p).ready = true
        rw [w3 p hin]; exact hr
  -- after the syncs every referenced file is firm
  let s2 := s1.run (syncs (a + 1))
  have hfirm : refsAllFirm s2 m = true := by
    unfold refsAllFirm
    apply List.all_eq_true.mpr
    intro p hp
    exact syncs_succ_ready_firm s1 a p (hready p hp)
  have hstarted : s2.started ≤ m.commit := by
    show (s1.run (syncs (a + 1))).started ≤ _
    rw [syncs_started]
    show (s.run (writeAll managed newFiles)).started ≤ _
    rw [w4]; exact hmono
  have hvw : violations s2 (.atomicWrite META m) = [] := by
    simp [violations, hfirm, hstarted]
  let s3 := s2.step (.atomicWrite META m)
  have hlast3 : (metaCands s3).getLast? = some m := by
    show (metaCands (s2.step (.atomicWrite META m))).getLast? = some m
    rw [metaCands_step_write]
    simp
  let s4 := s3.run (syncs b)
  have hlast4 : (metaCands s4).getLast? = some m := by
    show (metaCands (s3.run (syncs b))).getLast? = some m
    rw [syncs_last]; exact hlast3
  obtain ⟨d1, d2⟩ := deletes_ok s4 m dels hlast4 hdels
  let s5 := s4.run (dels.map Op.delete)
  -- the tail: optional sync + managed rewrite, then the acknowledgement
  have htail : disciplinedBy sel s5
      ((if dels.isEmpty then [] else [.syncDir, .atomicWrite MANAGED managed]) ++ [.ack m.commit]) = true := by
    have hM : MANAGED ≠ META := by decide
    have hack : ∀ st : PState, disciplinedBy sel st [.ack m.commit] = true := by
      intro st
      simp only [disciplinedBy, violations, Bool.and_true]
      by_cases hc : (metaCands st).all (fun m' => decide (m.commit ≤ m'.commit)) = true
      · simp [hc]
      · simp [hc, sel]
    by_cases he : dels.isEmpty = true
    · simp only [he, if_true, List.nil_append]
      exact hack _
    · simp only [he, Bool.false_eq_true, if_false, List.cons_append, List.nil_append, disciplinedBy, violations,
        hM, if_false, List.all_nil, Bool.true_and]
      exact hack _
  rw [disciplinedBy_append, disciplinedBy_append, disciplinedBy_append, disciplinedBy_append,
    disciplinedBy_append]
  simp only [Bool.and_eq_true]
  refine ⟨w1, syncs_disciplined sel s1 (a + 1), ?_, syncs_disciplined sel _ b, d1, htail⟩
  show disciplinedBy sel s2 [Op.atomicWrite META m] = true
  simp [disciplinedBy, hvw]

/-! ## the real `save_metas` does NOT satisfy D3 (finding S1) -/

/-- state after one acknowledged commit `1` whose only file is path 2 -/
def afterCommit1 : PState :=
  PState.created.run
    [ .atomicWrite MANAGED ⟨0, 1, 10, [0, 2]⟩, .create 2, .write 2 10, .flush 2, .terminate 2,
      .syncDir, .atomicWrite META ⟨1, 2, 50, [2]⟩, .syncDir, .ack 1 ]

/-- commit `2` (replaces file 2 by file 3) exactly as `save_metas` + GC issue it:
`syncDir; atomicWrite meta.json; [GC: delete]; return` -/
def commit2Unsynced (gc : Bool) : List Op :=
  [ .atomicWrite MANAGED ⟨0, 3, 12, [0, 2, 3]⟩, .create 3, .write 3 7, .flush 3, .terminate 3 ] ++
  saveMetasOps [1, 2] ⟨2, 4, 50, [3]⟩ ++ (if gc then [.delete 2] else []) ++ [.ack 2]

/-- `C01_d3_counterexample`: the modelled `save_metas` sequence `syncDir; atomicWrite meta.json;
return` admits (1) after commit 2 was acknowledged, a crash image (un-synced rename lost) that
recovers commit 1 `< lastAcked = 2`; (2) with the GC unlink in between, a crash image in which
`meta.json` of commit 1 is what survives while file 2, which it references, was unlinked, so
recovery fails. Both images are allowed by the fault model (`LImage.allowed`, and they are
members of `crashImages`), and the trace breaks exactly D3a resp. D3b+D3a. -/
theorem C01_d3_counterexample :
    (let s := afterCommit1.run (commit2Unsynced false)
     let img : LImage := { files := [(3, some (7, true)), (2, some (10, true))],
                           atoms := [(MANAGED, some ⟨0, 3, 12, [0, 2, 3]⟩), (META, some ⟨1, 2, 50, [2]⟩)] }
     s.acked = 2 ∧ img ∈ crashImages s.dir ∧ recover img.toImage = some 1 ∧
       allViolations afterCommit1 (commit2Unsynced false) 0 = [(7, [Rule.D3a])]) ∧
    (let s := afterCommit1.run ((commit2Unsynced true).take 8)
     let img : LImage := { files := [(3, some (7, true)), (2, none)],
                           atoms := [(MANAGED, some ⟨0, 3, 12, [0, 2, 3]⟩), (META, some ⟨1, 2, 50, [2]⟩)] }
     img ∈ crashImages s.dir ∧ recover img.toImage = none ∧
       allViolations afterCommit1 (commit2Unsynced true) 0 = [(7, [Rule.D3b]), (8, [Rule.D3a])]) := by
  decide

/-- the theorem applies to `save_metas` as extracted from the source -/
theorem C01_protocol_disciplined_extracted (s : PState) (managed m : Payload)
    (newFiles : List (Path × Nat)) (dels : List Path)
    (hfresh : ∀ f ∈ newFiles, (s.dir.file f.1).ever = false ∧ (s.dir.file f.1).vis = false ∧ (s.dir.file f.1).dur = false)
    (hnodup : (newFiles.map Prod.fst).Nodup)
    (hrefs : ∀ p ∈ m.refs, p ∈ newFiles.map Prod.fst ∨ (s.dir.file p).ready = true)
    (hmono : s.started ≤ m.commit)
    (hdels : ∀ p ∈ dels, p ≠ META ∧ p ∉ m.refs) :
    disciplinedBy (fun r => r != .D3a && r != .D3b) s
      (commitOps Gen.SAVE_METAS_CALLS managed newFiles m dels) = true := by
  obtain ⟨a, _, b, _, h⟩ := C01_save_metas_syncs_before_write
  rw [h]
  exact C01_protocol_disciplined_partial a b s managed m newFiles dels hfresh hnodup hrefs hmono hdels

/-- **the candidate repair is sufficient in the model**: with at least one `sync_directory` after
the `atomic_write(meta.json)` in `save_metas` (`b + 1` of them), the whole `schedule_commit`
sequence breaks no rule at all — D3a and D3b included — so `C01_recover_disciplined` applies to
it without any side condition. -/
theorem C01_protocol_disciplined_with_sync_after (a b : Nat) (s : PState) (managed m : Payload)
    (newFiles : List (Path × Nat)) (dels : List Path)
    (hfresh : ∀ f ∈ newFiles, (s.dir.file f.1).ever = false ∧ (s.dir.file f.1).vis = false ∧ (s.dir.file f.1).dur = false)
    (hnodup : (newFiles.map Prod.fst).Nodup)
    (hrefs : ∀ p ∈ m.refs, p ∈ newFiles.map Prod.fst ∨ (s.dir.file p).ready = true)
    (hmono : s.started ≤ m.commit)
    (hdels : ∀ p ∈ dels, p ≠ META ∧ p ∉ m.refs) :
    Disciplined s
      (commitOps (List.replicate a 1 ++ [1, 2] ++ List.replicate (b + 1) 1) managed newFiles m dels) = true := by
  let sel : Rule → Bool := fun _ => true
  obtain ⟨w1, w2, w3, w4, _⟩ := writeAll_effect sel managed newFiles s hfresh hnodup
  have hops : commitOps (List.replicate a 1 ++ [1, 2] ++ List.replicate (b + 1) 1) managed newFiles m dels =
      writeAll managed newFiles ++ (syncs (a + 1) ++ ([Op.atomicWrite META m] ++ (syncs (b + 1) ++
        (dels.map Op.delete ++ ((if dels.isEmpty then [] else [.syncDir, .atomicWrite MANAGED managed]) ++ [.ack m.commit]))))) := by
    unfold commitOps gcOps
    rw [saveMetasOps_shape]
    simp [writeAll, List.append_assoc]
  unfold Disciplined
  rw [hops]
  let s1 := s.run (writeAll managed newFiles)
  have hready : ∀ p ∈ m.refs, (s1.dir.file p).ready = true := by
    intro p hp
    by_cases hin : p ∈ newFiles.map Prod.fst
    · obtain ⟨f, hf, e⟩ := List.mem_map.mp hin
      rw [← e]
      exact w2 f hf
    · rcases hrefs p hp with h | hr
      · exact absurd h hin
      · show ((s.run (writeAll managed newFiles)).dir.file p).ready = true
        rw [w3 p hin]; exact hr
  let s2 := s1.run (syncs (a + 1))
  have hfirm : refsAllFirm s2 m = true := by
    unfold refsAllFirm
    apply List.all_eq_true.mpr
    intro p hp
    exact syncs_succ_ready_firm s1 a p (hready p hp)
  have hstarted : s2.started ≤ m.commit := by
    show (s1.run (syncs (a + 1))).started ≤ _
    rw [syncs_started]
    show (s.run (writeAll managed newFiles)).started ≤ _
    rw [w4]; exact hmono
  have hvw : violations s2 (.atomicWrite META m) = [] := by
    simp [violations, hfirm, hstarted]
  let s3 := s2.step (.atomicWrite META m)
  have hlast3 : (metaCands s3).getLast? = some m := by
    show (metaCands (s2.step (.atomicWrite META m))).getLast? = some m
    rw [metaCands_step_write]
    simp
  let s4 := s3.run (syncs (b + 1))
  have hc4 : metaCands s4 = [m] := syncs_succ_cands s3 b m hlast3
  obtain ⟨d1, d2⟩ := deletes_ok_synced s4 m dels hc4 hdels
  let s5 := s4.run (dels.map Op.delete)
  have htail : disciplinedBy sel s5
      ((if dels.isEmpty then [] else [.syncDir, .atomicWrite MANAGED managed]) ++ [.ack m.commit]) = true := by
    have hM : MANAGED ≠ META := by decide
    have hack : ∀ st : PState, metaCands st = [m] → disciplinedBy sel st [.ack m.commit] = true := by
      intro st hst
      simp [disciplinedBy, violations, hst]
    by_cases he : dels.isEmpty = true
    · simp only [he, if_true, List.nil_append]
      exact hack _ d2
    · simp only [he, Bool.false_eq_true, if_false, List.cons_append, List.nil_append, disciplinedBy, violations,
        hM, if_false, List.all_nil, Bool.true_and]
      apply hack
      have h1 : metaCands (s5.step .syncDir) = [m] := by
        rw [metaCands_step_sync]
        have : (metaCands s5).getLast? = some m := by rw [d2]; rfl
        unfold metaCands at this
        rw [cands_getLast] at this
        rw [this]; rfl
      rw [metaCands_step_other _ _ (by intro e; cases e) (by intro b' e; cases e)]
      exact h1
  rw [disciplinedBy_append, disciplinedBy_append, disciplinedBy_append, disciplinedBy_append,
    disciplinedBy_append]
  simp only [Bool.and_eq_true]
  refine ⟨w1, syncs_disciplined sel s1 (a + 1), ?_, syncs_disciplined sel _ (b + 1), d1, htail⟩
  show disciplinedBy sel s2 [Op.atomicWrite META m] = true
  simp [disciplinedBy, hvw]

/-- non-vacuity: commit 2 of the counterexample, with `save_metas` as extracted, satisfies
D0, D1, D2, D4; in the shape `sync; write` it fails the full discipline; with one more sync it
satisfies everything (the examples do not depend on whether the repair has been applied) -/
example : disciplinedBy (fun r => r != .D3a && r != .D3b) afterCommit1
    (commitOps Gen.SAVE_METAS_CALLS ⟨0, 3, 12, [0, 2, 3]⟩ [(3, 7)] ⟨2, 4, 50, [3]⟩ [2]) = true := by decide
example : Disciplined afterCommit1
    (commitOps [1, 2] ⟨0, 3, 12, [0, 2, 3]⟩ [(3, 7)] ⟨2, 4, 50, [3]⟩ [2]) = false := by decide
example : Disciplined afterCommit1
    (commitOps [1, 2, 1] ⟨0, 3, 12, [0, 2, 3]⟩ [(3, 7)] ⟨2, 4, 50, [3]⟩ [2]) = true := by decide

/-! ## every run of the writer model is disciplined (all rules, merges included) -/

/-- shape of `save_metas` after the repair: at least one `sync_directory` also follows the
`atomic_write(meta.json)`. Decided on the extracted call list. -/
theorem C01_save_metas_syncs_around_write :
    ∃ a, a < 4 ∧ ∃ b, b < 4 ∧
      Gen.SAVE_METAS_CALLS = List.replicate a 1 ++ [1, 2] ++ List.replicate (b + 1) 1 := by
  decide

/-- **the full discipline holds for every run of the writer model**: for every state whose newest
`meta.json` is durable (`Synced`: true after `Index::create` and after every event), and EVERY
sequence of writer events — file-phase operations of any number of indexing workers / merge\nthreads in any interleaving (`WEv.files`), whole-segment flushes, commits, `end_merge`s
of committed segments (with their own `save_metas` + collection), explicit collections, in any
order and number, which is what any merge policy or policy switch can produce — whose local side
conditions hold, the issued storage operations break NONE of D0–D4. With
`C01_recover_disciplined` this gives crash-atomicity for every such run.
This lifts `C01_protocol_disciplined_partial` (one commit, without D3) to all event sequences
and all rules, for `save_metas` as EXTRACTED from the source. -/
theorem C01_writer_runs_disciplined (s : PState) (hs : Synced s) (evs : List WEv) :
    ∃ a b, Gen.SAVE_METAS_CALLS = List.replicate a 1 ++ [1, 2] ++ List.replicate (b + 1) 1 ∧
      (WRun a b s evs → Disciplined s (evs.flatMap (WEv.ops a b)) = true) := by
  obtain ⟨a, _, b, _, h⟩ := C01_save_metas_syncs_around_write
  exact ⟨a, b, h, wrun_disciplined a b s hs evs⟩

/-- … and therefore every crash image at every point of every such run recovers a commit
between the last acknowledged and the last started one, with all its files sealed. -/
theorem C01_writer_runs_recover (s : PState) (hi : Inv s) (hs : Synced s) (a b : Nat) (evs : List WEv)
    (hr : WRun a b s evs) (k : Nat) (img : Image)
    (hc : CrashImage (s.dir.run ((evs.flatMap (WEv.ops a b)).take k)) img) :
    ∃ j, recover img = some j ∧ lastAcked s.acked ((evs.flatMap (WEv.ops a b)).take k) ≤ j ∧
      j ≤ lastStarted s.started ((evs.flatMap (WEv.ops a b)).take k) := by
  obtain ⟨j, h1, h2, h3, _⟩ :=
    C01_recover_disciplined s hi _ (wrun_disciplined a b s hs evs hr) k img hc
  exact ⟨j, h1, h2, h3⟩

theorem C01_created_synced : Synced PState.created := ⟨⟨0, 0, 0, []⟩, by decide⟩

/-- non-vacuity: flush, commit, flush of a merge thread + end_merge (same opstamp), collection -/
example : WRun 0 0 PState.created
    [ .flush ⟨0, 1, 9, [0, 2]⟩ [(2, 10)],
      .commit ⟨0, 2, 9, [0, 2, 3]⟩ [(3, 4)] ⟨5, 3, 50, [2, 3]⟩ [],
      .flush ⟨0, 4, 9, [0, 2, 3, 4]⟩ [(4, 14)],
      .endMerge ⟨0, 5, 9, [0, 2, 3, 4]⟩ [] ⟨5, 6, 40, [4]⟩ [2, 3],
      .gc ⟨0, 7, 9, [0, 4]⟩ [] ] := by
  simp [WRun, WOk, freshFiles, WEv.ops, coreOps, writeAll, writeFileOps, syncs, PState.created, PState.run,
    PState.step, Dir.step, Dir.empty, upd, FileSt.ready, FileSt.sync, metaCands, AtomSt.cands, AtomSt.sync,
    AtomSt.visible, META, MANAGED]

/-! ## the enumerated crash images are crash images -/

/-- **`quickImages ⊆ CrashImage`**: every image the model's enumerator hands to the harness
(all applied, all lost, each single un-synced create / unlink / rename flipped, truncations) is
allowed by the fault model, at every point of every operation log — proved, no longer only
self-checked at run time. So every image the real `Index::open` is tried on is one the theorems
speak about. -/
theorem C01_quick_images_are_crash_images (t : List Op) (ni : NamedImage)
    (h : ni ∈ quickImages (Dir.empty.run t)) : CrashImage (Dir.empty.run t) ni.img.toImage :=
  quickImages_sound _ (cover_empty.run t) ni h

example : 3 < (quickImages (Dir.empty.run ([Op.syncDir, .atomicWrite META ⟨0, 0, 0, []⟩, .syncDir] ++ demoTrace.take 30))).length := by
  decide

/-- **what is recovered is one written `meta.json`, whole**: along a disciplined trace, the
`meta.json` found after any crash is — payload for payload — either one the initial state could
already leave or one that an `atomic_write(meta.json)` of the trace prefix wrote (never a mix of
two, never a torn one), and every file it references is present and sealed: the recovered index
exposes exactly the segments, hence the documents, of that one `save_metas`. -/
theorem C01_recovered_meta_was_written (s0 : PState) (h0 : Inv s0) (t : List Op)
    (hd : Disciplined s0 t = true) (k : Nat) (img : Image)
    (hi : CrashImage (s0.dir.run (t.take k)) img) :
    ∃ m, img.atom META = some m ∧ recover img = some m.commit ∧
      (m ∈ metaCands s0 ∨ Op.atomicWrite META m ∈ t.take k) ∧ ∀ p ∈ m.refs, sealedIn img p = true := by
  have hinv := h0.run _ (disciplined_take s0 t k hd)
  rw [← run_dir] at hi
  obtain ⟨m, hmc, hme, hrec, hfiles⟩ := hinv.recover img hi
  refine ⟨m, hme, hrec, cands_written s0 (t.take k) m hmc, ?_⟩
  intro p hp
  simp [sealedIn, hfiles p hp]

/-- from the state after `Index::create`, every run of the writer model, every crash point -/
theorem C01_writer_runs_recover_from_created (a b : Nat) (evs : List WEv)
    (hr : WRun a b PState.created evs) (k : Nat) (img : Image)
    (hc : CrashImage (PState.created.dir.run ((evs.flatMap (WEv.ops a b)).take k)) img) :
    ∃ j, recover img = some j ∧ lastAcked 0 ((evs.flatMap (WEv.ops a b)).take k) ≤ j ∧
      j ≤ lastStarted 0 ((evs.flatMap (WEv.ops a b)).take k) :=
  C01_writer_runs_recover PState.created C01_created_inv C01_created_synced a b evs hr k img hc

example : ∃ m, Op.atomicWrite META m ∈ demoTrace.take 30 ∧ m.commit = 2 := ⟨⟨2, 7, 40, [5]⟩, by decide, rfl⟩

/-- **the per-run verdict is literally the hypothesis of the main theorem**: what the driver
decides on a real operation log — `invB` of the state reached when `Index::create` returned and
`Disciplined` of the rest of the log from that state — are exactly the two hypotheses of
`C01_recover_disciplined`; so for every real log on which the run-time verdict is "ok", every
prefix and every crash image recovers a commit in `[lastAcked, lastStarted]` with all files sealed. -/
theorem C01_run_verdict_is_hypothesis (s0 : PState) (pre t : List Op)
    (hinv : invB (s0.run pre) = true) (hd : Disciplined (s0.run pre) t = true) (k : Nat) (img : Image)
    (hi : CrashImage ((s0.run pre).dir.run (t.take k)) img) :
    ∃ j, recover img = some j ∧ lastAcked (s0.run pre).acked (t.take k) ≤ j ∧
      j ≤ lastStarted (s0.run pre).started (t.take k) ∧
      ∃ m, img.atom META = some m ∧ m.commit = j ∧ ∀ p ∈ m.refs, sealedIn img p = true :=
  C01_recover_disciplined _ ((invB_iff _).mp hinv) t hd k img hi

example : invB PState.created = true := by decide
example : invB ({ dir := Dir.empty, acked := 0, started := 0 } : PState) = false := by decide


/-- non-vacuity of the generalised file event: two workers writing two segments' files
interleaved, then a commit that references both -/
example : WRun 0 0 PState.created
    [ .files [.atomicWrite MANAGED ⟨0, 1, 9, [0, 2]⟩, .create 2, .atomicWrite MANAGED ⟨0, 2, 9, [0, 2, 3]⟩, .create 3,
              .write 3 4, .write 2 6, .write 2 4, .flush 3, .terminate 3, .flush 2, .terminate 2],
      .commit ⟨0, 3, 9, [0, 2, 3]⟩ [] ⟨5, 4, 50, [2, 3]⟩ [] ] := by
  simp [WRun, WOk, fileOpsOk, isFileOp, violations, freshFiles, WEv.ops, coreOps, writeAll, syncs, PState.created,
    PState.run, PState.step, Dir.step, Dir.empty, upd, FileSt.ready, FileSt.sync, metaCands, AtomSt.cands,
    AtomSt.sync, AtomSt.visible, META, MANAGED]

theorem cover_prun (s : PState) (h : Cover s.dir) (t : List Op) : Cover (s.run t).dir := by
  rw [run_dir]; exact h.run t

theorem cover_created : Cover PState.created.dir := cover_prun _ cover_empty _

/-- **the full enumerator is sound too**: every element of `crashImages` (all outcome
combinations over the touched paths, used by the counterexample theorems) is a `CrashImage`,
at every point of every log from the empty directory -/
theorem C01_crash_images_enumerator_sound (t : List Op) (img : LImage)
    (h : img ∈ crashImages (Dir.empty.run t)) : CrashImage (Dir.empty.run t) img.toImage :=
  crashImages_sound _ (cover_empty.run t) img h

/-- hence the two witnesses of `C01_d3_counterexample` are crash images in the sense of the
fault model (`CrashImage`), not only members of the enumeration -/
theorem C01_d3_counterexample_images_are_crash_images :
    CrashImage (afterCommit1.run (commit2Unsynced false)).dir
      (LImage.toImage { files := [(3, some (7, true)), (2, some (10, true))],
                        atoms := [(MANAGED, some ⟨0, 3, 12, [0, 2, 3]⟩), (META, some ⟨1, 2, 50, [2]⟩)] }) ∧
    CrashImage (afterCommit1.run ((commit2Unsynced true).take 8)).dir
      (LImage.toImage { files := [(3, some (7, true)), (2, none)],
                        atoms := [(MANAGED, some ⟨0, 3, 12, [0, 2, 3]⟩), (META, some ⟨1, 2, 50, [2]⟩)] }) :=
  ⟨crashImages_sound _ (cover_prun _ (cover_prun _ cover_created _) _) _ C01_d3_counterexample.1.2.1,
   crashImages_sound _ (cover_prun _ (cover_prun _ cover_created _) _) _ C01_d3_counterexample.2.1⟩

/-- **an acknowledged commit survives every later crash**: along a disciplined trace, once
`commit()` has returned opstamp `c` (the `ack c` is in the prefix), every crash image at that or
any later point recovers a commit `j ≥ c` — never an older one — whose files are all sealed. -/
theorem C01_acked_commit_survives (s0 : PState) (h0 : Inv s0) (t : List Op)
    (hd : Disciplined s0 t = true) (k : Nat) (c : Nat) (hc : Op.ack c ∈ t.take k) (img : Image)
    (hi : CrashImage (s0.dir.run (t.take k)) img) :
    ∃ j, recover img = some j ∧ c ≤ j ∧ j ≤ lastStarted s0.started (t.take k) := by
  obtain ⟨j, h1, h2, h3, _⟩ := C01_recover_disciplined s0 h0 t hd k img hi
  exact ⟨j, h1, Nat.le_trans (le_lastAcked_of_mem _ _ c hc) h2, h3⟩

example : Op.ack 2 ∈ demoTrace.take 30 := by decide

/-!
## OPEN (not proved; tied to the code by the run only)

* OPEN: the storage fault model itself — that `terminate` = `fdatasync`, `sync_directory` =
  `fsync(dirfd)`, `tempfile::persist` = `rename`, and that the logged order of concurrent
  threads is a legal linearisation — is the model of the property's quantifier, not verified
  (the strace / MmapDirectory mapping check is not built).
* OPEN: the side conditions `WOk` of the writer events (new files are fresh, a new `meta.json`
  references only finished files, …) and the decomposition of a real log into `WEv`s are not
  proved of the Rust code. Under concurrency a real log is not a concatenation of the coarse
  events (a merge thread's file operations interleave with the updater's `save_metas`), so the
  tie is `C01_run_verdict_is_hypothesis`: the same rules are decided per operation on every
  real log, and that verdict is literally the hypothesis of `C01_recover_disciplined`.
* OPEN: `recover` (meta present, referenced files sealed) is the specification of
  `Index::open` + searcher; their agreement is checked on every materialised image, not proved.
-/

end TantivyModel.C01
