import TantivyModel.Proofs.Merge
import TantivyModel.Proofs.MergeSteps3
import TantivyModel.Proofs.MergeWF
import TantivyModel.Proofs.MergeKeys
import TantivyModel.Proofs.MergeAssoc
import TantivyModel.Proofs.MergeShuffled
import TantivyModel.Proofs.MergeMulti5
import TantivyModel.Proofs.Sorted
/-!
# C04 — Merging never changes the logical content of the index

Property theorems only; helper lemmas live in `Proofs/Merge.lean`, the model in
`Model/Merge.lean` (the same definitions the driver `Driver/C04.lean` executes).
-/
namespace TantivyModel.C04
open TantivyModel TantivyModel.Merge

/-! ## the doc-id mapping -/

/-- `get_doc_id_from_concatenated_data`: the new→old address table is strictly increasing in
`(segment_ord, doc_id)` — an order embedding of the live documents (source order, then doc-id
order, is kept) — and it lists exactly the live documents of the sources. -/
theorem C04_docid_mapping_embedding {α} (segs : List (Segment α)) :
    (newToOld segs).Pairwise addrLt ∧
    (∀ s d, (s, d) ∈ newToOld segs ↔ ∃ seg, segs[s]? = some seg ∧ isAlive seg.alive d = true) ∧
    (newToOld segs).length = (segs.map fun x => x.alive.count true).sum := by
  refine ⟨newToOldFrom_sorted segs 0, ?_, newToOldFrom_length segs 0⟩
  intro s d
  simpa [newToOld] using newToOldFrom_mem segs 0 s d

/-- the per-segment old→new tables filled by `write_postings_for_field` are the partial inverse
of the new→old table: `old_to_new[s][d] = Some(n)` iff `new_to_old[n] = (s, d)`; a deleted (or
out-of-range) document has no new id. -/
theorem C04_old_to_new_inverse {α} (segs : List (Segment α)) :
    (∀ s d n, getAddr (oldToNew segs) s d = some n ↔ (newToOld segs)[n]? = some (s, d)) ∧
    (∀ s d, (∀ seg, segs[s]? = some seg → isAlive seg.alive d = false) →
      getAddr (oldToNew segs) s d = none) :=
  ⟨oldToNew_inverse segs, oldToNew_none segs⟩

/-- closed form of the filled tables: live doc `d` of source `s` becomes
`(#live docs of sources before s) + (#live docs of s before d)`; a deleted doc has no new id. -/
theorem C04_old_to_new_closed_form {α} (segs : List (Segment α)) (s d : Nat) (seg : Segment α)
    (hs : segs[s]? = some seg) :
    getAddr (oldToNew segs) s d =
      if isAlive seg.alive d then some (liveBase segs s + rank seg.alive d) else none :=
  oldToNew_closed segs s d seg hs

/-- remapping is monotone inside one source: two live docs of the same source keep their order
(so a remapped posting list stays strictly increasing), and docs of an earlier source come first -/
theorem C04_remap_monotone {α} (segs : List (Segment α)) (s d n s' d' n' : Nat)
    (h : getAddr (oldToNew segs) s d = some n) (h' : getAddr (oldToNew segs) s' d' = some n')
    (hlt : addrLt (s, d) (s', d')) : n < n' := by
  have e := (oldToNew_inverse segs s d n).1 h
  have e' := (oldToNew_inverse segs s' d' n').1 h'
  have hs : (newToOld segs).Pairwise addrLt := newToOldFrom_sorted segs 0
  rcases Nat.lt_trichotomy n n' with hlt' | heq | hgt
  · exact hlt'
  · subst heq
    rw [e] at e'
    cases e'
    exact absurd hlt (addrLt_irrefl _)
  · exfalso
    have hn : n < (newToOld segs).length := (List.getElem?_eq_some_iff.1 e).1
    have hn' : n' < (newToOld segs).length := (List.getElem?_eq_some_iff.1 e').1
    have := List.pairwise_iff_getElem.1 hs n' n hn' hn hgt
    rw [(List.getElem?_eq_some_iff.1 e).2, (List.getElem?_eq_some_iff.1 e').2] at this
    unfold addrLt at this hlt
    simp at this hlt
    omega

/-- TRANSLATION THEOREM. The merged segment written by the mechanism of `merger.rs`
(new→old table, per-source old→new tables, k-way term merge with remapped postings and
recomputed doc_freq, table-driven copy of per-document data) has exactly the logical content of
the concatenation of its sources: the live documents in source order with their stored fields /
norms / fast values, and for every term the (doc, tf, positions) of the live documents, densely
renumbered; terms without a live document are gone. Hypotheses: the sources are well formed
(per-doc data and alive bitset have the same length; posting doc ids are strictly increasing
and below max_doc). -/
theorem C04_merge_translation {α} (segs : List (Segment α))
    (hlen : ∀ s ∈ segs, s.docs.length = s.alive.length)
    (hpost : ∀ s ∈ segs, ∀ t ∈ s.terms, postingsOk s.alive.length t.2 = true) :
    dump (mergeModel segs) = mergeSpec segs := by
  have hd := mergeModel_docs segs hlen
  have ht := mergeModel_terms segs hpost
  cases h1 : dump (mergeModel segs) with
  | mk d1 t1 =>
    cases h2 : mergeSpec segs with
    | mk d2 t2 =>
      rw [h1, h2] at hd ht
      simp only at hd ht
      rw [hd, ht]

/-- (same sources as `exSegs` below) -/
def exSegsFwd : List (Segment Nat) :=
  [ { docs := [7, 8, 9], alive := [true, false, true],
      terms := [([97], [⟨0, 1, [0]⟩, ⟨1, 2, [1, 3]⟩]), ([98], [⟨1, 1, [0]⟩, ⟨2, 1, [5]⟩])] },
    { docs := [1], alive := [false], terms := [([98], [⟨0, 1, [2]⟩])] },
    { docs := [4, 5], alive := [true, true],
      terms := [([97], [⟨1, 1, [2]⟩]), ([99], [⟨0, 3, [1, 2, 3]⟩])] } ]

/-- THE TERM MERGER: the key list the merge iterates over (`allKeys`, the model of `TermMerger`
over the sources' term streams) is strictly increasing in byte order and holds exactly the keys
that occur in some source — whatever order the sources' own lists are in. -/
theorem C04_term_union_sorted {α} (segs : List (Segment α)) :
    (allKeys segs).Pairwise KLt ∧
    ∀ k, k ∈ allKeys segs ↔ ∃ s ∈ segs, ∃ t ∈ s.terms, t.1 = k := by
  obtain ⟨h1, h2⟩ := keyUnion_props (segs.map fun s => s.terms.map Prod.fst)
  refine ⟨h1, ?_⟩
  intro k
  rw [allKeys, h2]
  constructor
  · rintro ⟨ks, hks, hk⟩
    obtain ⟨s, hs, rfl⟩ := List.mem_map.1 hks
    obtain ⟨t, ht, rfl⟩ := List.mem_map.1 hk
    exact ⟨s, hs, t, ht, rfl⟩
  · rintro ⟨s, hs, t, ht, rfl⟩
    exact ⟨_, List.mem_map.2 ⟨s, hs, rfl⟩, List.mem_map.2 ⟨t, ht, rfl⟩⟩

/-- the dictionary of the merged segment is strictly sorted by term bytes (what the sstable /
fst writer requires) and every key of it is a key of some source -/
theorem C04_merged_dictionary_sorted {α} (segs : List (Segment α)) :
    ((mergeModel segs).terms.map (·.1)).Pairwise KLt ∧
    ∀ k ∈ (mergeModel segs).terms.map (·.1), ∃ s ∈ segs, ∃ t ∈ s.terms, t.1 = k := by
  have hsub : List.Sublist ((mergeModel segs).terms.map (·.1)) (allKeys segs) := by
    simp only [mergeModel, mergedTerms, List.map_map]
    have : ∀ (l : List Key) (F : Key → Nat × List Posting),
        List.Sublist (((l.map fun k => (k, (F k).1, (F k).2)).filter fun t => decide (t.2.1 > 0)).map
          ((fun t : Key × List Posting => t.1) ∘ fun t : Key × Nat × List Posting => (t.1, t.2.2))) l := by
      intro l F
      induction l with
      | nil => simp
      | cons k rest ih =>
        simp only [List.map_cons, List.filter_cons]
        split
        · simp only [List.map_cons, Function.comp]
          exact ih.cons_cons k
        · exact ih.cons k
    exact this _ _
  obtain ⟨h1, h2⟩ := C04_term_union_sorted segs
  exact ⟨h1.sublist hsub, fun k hk => (h2 k).1 (hsub.subset hk)⟩

example : (mergeModel exSegsFwd).terms.map (·.1) = [[97], [98], [99]] := by decide

/-- ANY DOC-ID MAPPING (`MappingType::Shuffled`, the merges of a sorted index, where the new→old
table is produced by a k-way merge on the sort key). For every duplicate-free table of existing
document addresses: the filled old→new tables invert it; new document `n` carries the
per-document data (stored fields, norms, fast values) of the old document at `tbl[n]`; and for
EVERY term the posting the merger writes for `n` — after remapping all sources and sorting by
the new doc id — is the posting of that old document, tf and positions unchanged (none if it
did not contain the term). Nothing about the order of the table is assumed, so this covers the
stacked and the sorted branches of `IndexMerger::write` alike, document by document. -/
theorem C04_any_mapping_docview {α} (segs : List (Segment α)) (tbl : List (Nat × Nat))
    (hnd : tbl.Nodup)
    (hb : ∀ a ∈ tbl, ∃ seg, segs[a.1]? = some seg ∧ a.2 < seg.alive.length)
    (hlen : ∀ s ∈ segs, s.docs.length = s.alive.length)
    (hpost : ∀ s ∈ segs, ∀ t ∈ s.terms, postingsOk s.alive.length t.2 = true)
    (n s d : Nat) (seg : Segment α) (hn : tbl[n]? = some (s, d)) (hs : segs[s]? = some seg) :
    getAddr (fillFrom (emptyTables segs) 0 tbl) s d = some n ∧
    (shuffledDocs segs tbl)[n]? = seg.docs[d]? ∧
    ∀ k : Key,
      ((shuffledPostings segs tbl k).find? fun p => p.doc == n).map (fun p => (p.tf, p.pos))
        = ((postingsOf seg.terms k).find? fun p => p.doc == d).map fun p => (p.tf, p.pos) := by
  have hb' : ∀ a ∈ tbl, inB (emptyTables segs) a.1 a.2 :=
    fun a ha => (inB_emptyTables segs a.1 a.2).2 (hb a ha)
  exact ⟨(fill_inverse segs tbl hnd hb' s d n).2 hn,
    shuffledDocs_getElem? segs tbl hlen hb n s d seg hn hs,
    fun k => shuffled_find segs tbl hnd hb' hpost k n s d seg hn hs⟩

/-- THE DOC STORE OF A SHUFFLED MERGE. `write_storable_fields` does not look documents up by
address there: it keeps one iterator per source over its ALIVE documents and takes the next one
for every table entry. If the table lists every source's live documents exactly once and in
doc-id order (which a k-way merge of the per-source iterators does), the iterators never run dry
("unexpected missing document" cannot occur) and deliver exactly the documents the table asks
for — the same documents `C04_any_mapping_docview` attaches norms, fast values and postings to. -/
theorem C04_shuffled_store_iterators {α} (segs : List (Segment α)) (tbl : List (Nat × Nat))
    (hlen : ∀ s ∈ segs, s.docs.length = s.alive.length)
    (hsrc : ∀ s seg, segs[s]? = some seg → (tbl.filter fun a => a.1 == s).map (·.2) = liveIds seg.alive)
    (hb : ∀ a ∈ tbl, ∃ seg, segs[a.1]? = some seg ∧ a.2 < seg.alive.length) :
    storeIter (storeIters segs) tbl = some (shuffledDocs segs tbl) :=
  storeIter_copyDocs segs tbl hlen hsrc hb

example : storeIter (storeIters exSegsFwd) [(2, 0), (0, 0), (2, 1), (0, 2)] = some [4, 7, 5, 9] := by decide
/-- a table that asks for a source's documents out of order gets the wrong documents -/
example : storeIter (storeIters exSegsFwd) [(2, 1), (0, 0), (2, 0), (0, 2)] = some [4, 7, 5, 9]
    ∧ shuffledDocs exSegsFwd [(2, 1), (0, 0), (2, 0), (0, 2)] = [5, 7, 4, 9] := by decide

/-- a sorted-index style mapping over `exSegsFwd`: live docs in the order (2,1), (0,0), (2,0), (0,2) -/
example := C04_any_mapping_docview exSegsFwd [(2, 1), (0, 0), (2, 0), (0, 2)] (by decide)
  (by decide) (by decide) (by decide) 2 2 0 _ rfl rfl
example : (shuffledDocs exSegsFwd [(2, 1), (0, 0), (2, 0), (0, 2)]) = [5, 7, 4, 9] := by decide

/-- CLOSURE UNDER RE-MERGING. The merged segment is again a well-formed merge source: per-doc
data and alive bitset have equal length, and every posting list of its dictionary is strictly
increasing in doc id with all ids below `max_doc` (so block encoding and skip lists see what they
expect). Hence the hypotheses of `C04_merge_translation` hold for merged segments, and the
translation theorem applies to merges of merged segments, to any depth. -/
theorem C04_merged_wellformed {α} (segs : List (Segment α))
    (hlen : ∀ s ∈ segs, s.docs.length = s.alive.length)
    (hpost : ∀ s ∈ segs, ∀ t ∈ s.terms, postingsOk s.alive.length t.2 = true) :
    (mergeModel segs).docs.length = (mergeModel segs).alive.length ∧
    ∀ t ∈ (mergeModel segs).terms, postingsOk (mergeModel segs).alive.length t.2 = true :=
  mergeModel_wf segs hlen hpost

/-- merges of merged segments: every group is merged, then the results are merged again -/
theorem C04_merge_translation_iterated {α} (groups : List (List (Segment α)))
    (hlen : ∀ g ∈ groups, ∀ s ∈ g, s.docs.length = s.alive.length)
    (hpost : ∀ g ∈ groups, ∀ s ∈ g, ∀ t ∈ s.terms, postingsOk s.alive.length t.2 = true) :
    dump (mergeModel (groups.map mergeModel)) = mergeSpec (groups.map mergeModel) := by
  apply C04_merge_translation
  · intro s hs
    obtain ⟨g, hg, rfl⟩ := List.mem_map.1 hs
    exact (mergeModel_wf g (hlen g hg) (hpost g hg)).1
  · intro s hs
    obtain ⟨g, hg, rfl⟩ := List.mem_map.1 hs
    exact (mergeModel_wf g (hlen g hg) (hpost g hg)).2

/-- MERGE OF MERGES, per-document data: merge every group of sources, then merge the results —
the stored fields / norms / fast values of the final segment are those of the live documents of
ALL original sources, in order (the documents component of
`C04_merge_of_merges`). -/
theorem C04_merge_of_merges_docs {α} (groups : List (List (Segment α)))
    (hlen : ∀ g ∈ groups, ∀ s ∈ g, s.docs.length = s.alive.length)
    (hpost : ∀ g ∈ groups, ∀ s ∈ g, ∀ t ∈ s.terms, postingsOk s.alive.length t.2 = true) :
    (dump (mergeModel (groups.map mergeModel))).docs = (mergeSpec groups.flatten).docs := by
  have hwf : ∀ s ∈ groups.map mergeModel, s.docs.length = s.alive.length := by
    intro s hs
    obtain ⟨g, hg, rfl⟩ := List.mem_map.1 hs
    exact (mergeModel_wf g (hlen g hg) (hpost g hg)).1
  have hflat : ∀ s ∈ groups.flatten, s.docs.length = s.alive.length := by
    intro s hs
    obtain ⟨g, hg, hsg⟩ := List.mem_flatten.1 hs
    exact hlen g hg s hsg
  rw [mergeModel_docs _ hwf, mergeSpec_docs _ hwf, mergeSpec_docs _ hflat, List.map_map]
  have : (groups.map ((fun s : Segment α => liveDocs s.docs s.alive) ∘ mergeModel))
      = groups.map fun g => (g.map fun s => liveDocs s.docs s.alive).flatten := by
    apply List.map_congr_left
    intro g hg
    exact mergeModel_liveDocs g (hlen g hg)
  rw [this]
  exact flatten_groups _ groups

/-- MERGE OF MERGES (associativity of merging at the logical level): merge every group of
sources, then merge the results — the final segment has exactly the logical content of ALL the
original sources concatenated: live documents in order with their stored fields / norms / fast
values, and for every term the (doc, tf, positions) of the live documents. By induction on the
merge tree this is the history invariant "the logical content of the index is the concatenation
of the logical contents of its segments, and every merge, of fresh or of merged segments,
preserves it". -/
theorem C04_merge_of_merges {α} (groups : List (List (Segment α)))
    (hlen : ∀ g ∈ groups, ∀ s ∈ g, s.docs.length = s.alive.length)
    (hpost : ∀ g ∈ groups, ∀ s ∈ g, ∀ t ∈ s.terms, postingsOk s.alive.length t.2 = true) :
    dump (mergeModel (groups.map mergeModel)) = mergeSpec groups.flatten := by
  have h1 := C04_merge_translation_iterated groups hlen hpost
  have hd := C04_merge_of_merges_docs groups hlen hpost
  have ht := mergeSpec_terms_merge_of_merges groups hlen hpost
  rw [h1] at hd ⊢
  cases e1 : mergeSpec (groups.map mergeModel) with
  | mk d1 t1 =>
    cases e2 : mergeSpec groups.flatten with
    | mk d2 t2 =>
      rw [e1, e2] at hd ht
      simp only at hd ht
      rw [hd, ht]

/-- `IndexMerger::open` keeps only the sources that still hold a live document as readers
(`mergeReaders`). Merging the readers gives exactly the logical content of ALL the sources:
the dropped ones contribute no document and no live posting, and a term that occurs only in
dropped sources disappears on both sides. -/
theorem C04_readers_drop_empty_sources {α} (segs : List (Segment α))
    (hlen : ∀ s ∈ segs, s.docs.length = s.alive.length)
    (hpost : ∀ s ∈ segs, ∀ t ∈ s.terms, postingsOk s.alive.length t.2 = true) :
    dump (mergeModel (mergeReaders segs)) = mergeSpec segs := by
  rw [C04_merge_translation (mergeReaders segs)
    (fun s hs => hlen s (List.mem_filter.1 hs).1) (fun s hs => hpost s (List.mem_filter.1 hs).1)]
  exact mergeSpec_filter_hasLive segs hlen hpost

/-- per term: the live posting list of every key over the merged groups is the one over all
original sources -/
theorem C04_merge_of_merges_postings {α} (groups : List (List (Segment α)))
    (hlen : ∀ g ∈ groups, ∀ s ∈ g, s.docs.length = s.alive.length)
    (hpost : ∀ g ∈ groups, ∀ s ∈ g, ∀ t ∈ s.terms, postingsOk s.alive.length t.2 = true) (k : Key) :
    specPostings k (groups.map mergeModel) = specPostings k groups.flatten :=
  specPostings_merge_of_merges groups hlen hpost k

/-- Translation of postings, per source (the step `write_postings_for_field` performs for each
`(term, source)` pair): the posting list of source `s` remapped through the filled old→new table
is exactly the list of its LIVE postings — tf and positions copied unchanged, doc ids
renumbered by rank among the live docs — shifted by the number of live docs of the earlier
sources. Hence deleted docs vanish, `doc_freq_given_deletes` is the length of the remapped
list, and a source whose live doc_freq is 0 contributes nothing. -/
theorem C04_merge_translation_per_source {α} (segs : List (Segment α)) (s : Nat) (seg : Segment α)
    (hs : segs[s]? = some seg) (ps : List Posting) :
    remapPostings (oldToNew segs) s ps = shift (liveBase segs s) (livePostings seg.alive ps) ∧
    (remapPostings (oldToNew segs) s ps).length = docFreqGivenDeletes seg.alive ps ∧
    (docFreqGivenDeletes seg.alive ps = 0 → remapPostings (oldToNew segs) s ps = []) := by
  have hlive : ∀ qs : List Posting,
      (livePostings seg.alive qs).length = docFreqGivenDeletes seg.alive qs := by
    intro qs
    induction qs with
    | nil => rfl
    | cons p rest ih =>
      simp only [livePostings, docFreqGivenDeletes] at ih ⊢
      by_cases hp : isAlive seg.alive p.doc = true
      · simp [hp, ih]
      · simp [hp, ih]
  have h := remapPostings_closed segs s seg hs ps
  have hl : (remapPostings (oldToNew segs) s ps).length = docFreqGivenDeletes seg.alive ps := by
    rw [h]
    simp only [shift, List.length_map]
    exact hlive ps
  exact ⟨h, hl, fun h0 => List.eq_nil_of_length_eq_zero (hl.trans h0)⟩

/-- Translation of postings, per term, across all sources: for EVERY key the posting list the
merger writes (sources whose live doc_freq is 0 skipped, the others remapped through their
old→new tables, in source order) is exactly the posting list of that key in the concatenation of
the sources restricted to live docs and renumbered densely — i.e. what `dump (concat segs)`
holds for the key — and the `total_doc_freq` handed to `new_term` is its length (the number of
live documents containing the term; 0 iff the term disappears). -/
theorem C04_merge_translation_postings {α} (segs : List (Segment α))
    (hpost : ∀ s ∈ segs, ∀ t ∈ s.terms, postingsOk s.alive.length t.2 = true) (k : Key) :
    (mergedTermFrom (oldToNew segs) k 0 segs).2
      = livePostings (concat segs).alive (concatPostings k segs 0) ∧
    (mergedTermFrom (oldToNew segs) k 0 segs).1
      = (livePostings (concat segs).alive (concatPostings k segs 0)).length := by
  have h := mergedTermFrom_eq k [] segs hpost
  simp only [List.nil_append, List.length_nil, List.map_nil, List.flatten_nil] at h
  refine ⟨h.1, ?_⟩
  rw [h.2, h.1]
  rfl

/-- Translation of per-document data (stored fields, field norms, fast-field values): what
`write_fieldnorms` / the shuffled columnar merge / the per-doc store copy produce through the
new→old table is exactly the live documents of the sources in source order. -/
theorem C04_merge_translation_docs {α} (segs : List (Segment α))
    (hlen : ∀ s ∈ segs, s.docs.length = s.alive.length) :
    (dump (mergeModel segs)).docs = (mergeSpec segs).docs :=
  mergeModel_docs segs hlen

/-- `write_storable_fields`: stacking the whole doc store of a source without deletes (whatever
the `stackable` predicate — enough checkpoints, same compressor — decides per source) and
copying live docs one by one for the others gives the same documents as the table-driven copy. -/
theorem C04_store_stack_or_copy {α} (stackable : Nat → Bool) (segs : List (Segment α))
    (hlen : ∀ s ∈ segs, s.docs.length = s.alive.length) :
    mergedStore stackable 0 segs = (dump (mergeModel segs)).docs := by
  rw [mergeModel_docs segs hlen, mergedStore_eq stackable 0 segs hlen]
  show _ = liveDocs (segs.map (·.docs)).flatten (segs.map (·.alive)).flatten
  rw [liveDocs_flatten segs hlen]

/-- three sources: one with a deleted doc, one fully deleted, one intact -/
def exSegs : List (Segment Nat) :=
  [ { docs := [7, 8, 9], alive := [true, false, true],
      terms := [([97], [⟨0, 1, [0]⟩, ⟨1, 2, [1, 3]⟩]), ([98], [⟨1, 1, [0]⟩, ⟨2, 1, [5]⟩])] },
    { docs := [1], alive := [false], terms := [([98], [⟨0, 1, [2]⟩])] },
    { docs := [4, 5], alive := [true, true],
      terms := [([97], [⟨1, 1, [2]⟩]), ([99], [⟨0, 3, [1, 2, 3]⟩])] } ]

example : newToOld exSegs = [(0, 0), (0, 2), (2, 0), (2, 1)] := by decide
example : getAddr (oldToNew exSegs) 0 2 = some 1 ∧ getAddr (oldToNew exSegs) 0 1 = none
    ∧ getAddr (oldToNew exSegs) 2 1 = some 3 := by decide
example : (dump (mergeModel exSegs)).docs = [7, 9, 4, 5] := by decide
example : ∀ s ∈ exSegs, s.docs.length = s.alive.length := by decide
example : ∀ s ∈ exSegs, ∀ t ∈ s.terms, postingsOk s.alive.length t.2 = true := by decide
example : mergedTermFrom (oldToNew exSegs) [98] 0 exSegs = (1, [⟨1, 1, [5]⟩]) := by decide
example : (mergeModel exSegs).docs.length = (mergeModel exSegs).alive.length ∧
    ∀ t ∈ (mergeModel exSegs).terms, postingsOk (mergeModel exSegs).alive.length t.2 = true :=
  C04_merged_wellformed exSegs (by decide) (by decide)
example : (dump (mergeModel ([exSegs, exSegs.take 1].map mergeModel))).docs = (mergeSpec ([exSegs, exSegs.take 1].flatten)).docs :=
  C04_merge_of_merges_docs [exSegs, exSegs.take 1] (by decide) (by decide)
example : dump (mergeModel ([exSegs, exSegs.take 1].map mergeModel)) = mergeSpec ([exSegs, exSegs.take 1].flatten) :=
  C04_merge_of_merges [exSegs, exSegs.take 1] (by decide) (by decide)
example : dump (mergeModel ([exSegs, exSegs.take 1].map mergeModel)) = mergeSpec ([exSegs, exSegs.take 1].map mergeModel) :=
  C04_merge_translation_iterated [exSegs, exSegs.take 1] (by decide) (by decide)
example : (mergeReaders exSegs).length = 2 := by decide
example : dump (mergeModel (mergeReaders exSegs)) = mergeSpec exSegs :=
  C04_readers_drop_empty_sources exSegs (by decide) (by decide)
example : dump (mergeModel exSegs) = mergeSpec exSegs :=
  C04_merge_translation exSegs (by decide) (by decide)
example : mergedStore (fun i => i == 2) 0 exSegs = [7, 9, 4, 5] := by decide
example : (dump (mergeModel exSegs)).terms = (mergeSpec exSegs).terms := by decide
example : (mergedTerms exSegs).map (fun t => (t.1, t.2.1)) = [([97], 2), ([98], 1), ([99], 1)] := by
  decide

/-! ## the updater: `end_merge` -/

/-- A merge that can no longer be applied is discarded without effect: if the updater that
started it was killed by a rollback, or its sources are no longer all in one register
(rollback, delete-all, another merge consumed one of them, a source emptied by a commit), the
`end_merge` step leaves the state — hence published and pending contents — unchanged. -/
theorem C04_merge_invisible_discarded (b : Bool) (st : State) (r : Running)
    (h : r.epoch ≠ st.epoch ∨
      (containsAll st.uncommitted r.sources = false ∧ containsAll st.committed r.sources = false)) :
    endMergeWith b st r = st := by
  rcases h with h | ⟨hu, hc⟩
  · exact endMergeWith_discard_epoch b st r h
  · exact endMergeWith_discard_missing b st r hu hc

/-- `end_merge` on the COMMITTED register is invisible (also when deletes were committed while
the merge ran): let `srcs` be the source entries as `merge()` received them, `target` its target
opstamp, and let the committed register now hold those sources advanced to the current committed
opstamp (what `commit`'s `purge_deletes` makes of them) next to any other segments. If the
sources share one delete-cursor position after advancing to the target (`SameCursor` — true for
committed sources, which every commit advances to the same opstamp), then swapping in the
reconciled merged entry and re-saving meta.json publishes exactly the same documents. -/
theorem C04_merge_invisible (st : State) (r : Running) (srcs : List Entry) (target newId c0 : Nat)
    (hmerged : r.merged = mergeEntries st.queue srcs target newId)
    (hwf : ∀ e ∈ srcs, e.docs.length = e.alive.length)
    (hsame : SameCursor st.queue srcs target c0)
    (htc : target ≤ st.committedOpstamp)
    (hne : ∀ op ∈ st.queue, op.opstamp ≠ st.committedOpstamp)
    (hepoch : r.epoch = st.epoch)
    (hu : containsAll st.uncommitted r.sources = false)
    (hc : containsAll st.committed r.sources = true)
    (hreg : st.committed.filter (fun e => r.sources.contains e.segId)
      = srcs.map fun e => advance st.queue e st.committedOpstamp)
    (hpub : st.published = st.committed) :
    (publishedUids (endMerge st r)).Perm (publishedUids st) := by
  have hcontent := merged_content st srcs target newId c0 hwf hsame htc hne
  unfold endMerge endMergeWith
  simp only [hepoch, ne_eq, not_true_eq_false, if_false, if_true, hu, hc, Bool.false_eq_true]
  unfold publishedUids
  simp only [hpub, swapIn, List.map_append, List.flatten_append]
  rw [hmerged, hcontent]
  have hsplit := flatten_filter_split liveUids (fun e => r.sources.contains e.segId) st.committed
  rw [hreg, List.map_map] at hsplit
  exact hsplit

/-- `end_merge` on the UNCOMMITTED register (policy merges inside a transaction; target = the
stamp drawn when the merge was scheduled): the published content is untouched, and what the next
commit (at any opstamp `T` at or above the target and the last commit) will publish is unchanged. -/
theorem C04_merge_invisible_uncommitted (st : State) (r : Running) (srcs : List Entry)
    (target newId c0 T : Nat)
    (hmerged : r.merged = mergeEntries st.queue srcs target newId)
    (hwf : ∀ e ∈ srcs, e.docs.length = e.alive.length)
    (hsame : SameCursor st.queue srcs target c0)
    (hT : target ≤ T) (hcT : st.committedOpstamp ≤ T)
    (hne : ∀ op ∈ st.queue, op.opstamp ≠ st.committedOpstamp)
    (hepoch : r.epoch = st.epoch)
    (hu : containsAll st.uncommitted r.sources = true)
    (hreg : st.uncommitted.filter (fun e => r.sources.contains e.segId) = srcs) :
    publishedUids (endMerge st r) = publishedUids st ∧
    (pendingUids (endMerge st r) T).Perm (pendingUids st T) := by
  have hcontent := merged_pending st srcs target newId c0 T hwf hsame hT hcT hne
  unfold endMerge endMergeWith
  simp only [hepoch, ne_eq, not_true_eq_false, if_false, if_true, hu]
  refine ⟨rfl, ?_⟩
  unfold pendingUids
  simp only [swapIn, List.map_append, List.flatten_append]
  rw [hmerged, hcontent]
  apply List.Perm.append_right
  have hsplit := flatten_filter_split (fun e => liveUids (advance st.queue e T))
    (fun e => r.sources.contains e.segId) st.uncommitted
  rw [hreg] at hsplit
  exact hsplit

/-- the queue may have grown since the merge computed its result: operations pushed later carry
opstamps above the target and do not change what `merge()` computed -/
theorem C04_merge_result_stable (q0 q' : List DelOp) (srcs : List Entry) (target newId : Nat)
    (hlater : ∀ op ∈ q', target < op.opstamp) :
    mergeEntries (q0 ++ q') srcs target newId = mergeEntries q0 srcs target newId := by
  have hc : ∀ c, consumed (q0 ++ q') c target = consumed q0 c target := by
    intro c
    unfold consumed
    rw [List.drop_append]
    generalize q0.drop c = A
    have hB : ∀ B : List DelOp, (∀ op ∈ B, target < op.opstamp) →
        (A ++ B).takeWhile (fun op => decide (op.opstamp ≤ target))
          = A.takeWhile (fun op => decide (op.opstamp ≤ target)) := by
      intro B hB
      induction A with
      | nil =>
        cases B with
        | nil => rfl
        | cons b bs =>
          have := hB b (by simp)
          simp [List.takeWhile_cons]; omega
      | cons a as ih =>
        by_cases ha : a.opstamp ≤ target <;> simp [ha, ih]
    exact hB _ (fun op hop => hlater op (List.mem_of_mem_drop hop))
  have ha : ∀ e, advance (q0 ++ q') e target = advance q0 e target := by
    intro e; simp [advance, hc]
  simp [mergeEntries, ha]

/-- two committed segments, a committed merge of both is computed, then a delete of key 1 is
committed while the merge is still running -/
def e1 : Entry := { segId := 1, docs := [⟨10, [1]⟩, ⟨11, [2]⟩], alive := [true, true], cursor := 0 }
def e2 : Entry := { segId := 2, docs := [⟨12, [1]⟩], alive := [true], cursor := 0 }
def st0 : State :=
  { queue := [], committed := [e1, e2], uncommitted := [], committedOpstamp := 0,
    published := [e1, e2], epoch := 0 }
def r0 : Running := { sources := [1, 2], merged := mergeEntries [] [e1, e2] 0 3, epoch := 0 }
def st1 : State := commit (pushDelete st0 ⟨5, 1⟩) 6

example : publishedUids st1 = [11] := by decide
/-- the hypotheses of `C04_merge_invisible` hold in that scenario (delete committed during the
merge, reconciliation branch taken) -/
example : (publishedUids (endMerge st1 r0)).Perm (publishedUids st1) :=
  C04_merge_invisible st1 r0 [e1, e2] 0 3 0
    ((C04_merge_result_stable [] [⟨5, 1⟩] [e1, e2] 0 3 (by decide)).symm ▸ rfl)
    (by decide) (by intro e he; simp at he; rcases he with rfl | rfl <;> decide)
    (by decide) (by decide) (by decide) (by decide) (by decide) (by decide) (by decide)
/-- after a rollback (new updater generation) the finished merge is refused -/
example : r0.epoch ≠ (rollback st1).epoch ∧ endMerge (rollback st1) r0 = rollback st1 := by decide
/-- after delete-all the sources are in no register -/
example : containsAll (deleteAll st1).uncommitted r0.sources = false
    ∧ containsAll (deleteAll st1).committed r0.sources = false
    ∧ endMerge (deleteAll st1) r0 = deleteAll st1 := by decide

/-- a policy merge of two uncommitted segments cut after a delete (cursors at the queue end) -/
def u1 : Entry := { segId := 1, docs := [⟨10, [1]⟩], alive := [true], cursor := 1 }
def u2 : Entry := { segId := 2, docs := [⟨20, [1]⟩, ⟨21, [2]⟩], alive := [true, true], cursor := 1 }
def stU : State :=
  { queue := [⟨5, 1⟩], committed := [], uncommitted := [u1, u2], committedOpstamp := 0,
    published := [], epoch := 0 }
def rU : Running := { sources := [1, 2], merged := mergeEntries [⟨5, 1⟩] [u1, u2] 7 3, epoch := 0 }

example : (pendingUids (endMerge stU rU) 9).Perm (pendingUids stU 9) :=
  (C04_merge_invisible_uncommitted stU rU [u1, u2] 7 3 1 9 rfl (by decide)
    (by intro e he; simp at he; rcases he with rfl | rfl <;> decide)
    (by decide) (by decide) (by decide) (by decide) (by decide) (by decide)).2
example : pendingUids stU 9 = [10, 20, 21] := by decide

/-! ## the target opstamp -/

/-- A merge of COMMITTED segments targets the last commit's opstamp (`mergeTarget true`). Every
entry of the committed register has already consumed all delete operations up to that opstamp
(`purge_deletes` at commit; stated as: nothing left to consume up to `c`), so the merge applies
NO further delete — in particular no delete that was queued but not yet committed: the sources
enter the merge exactly as published and the merged segment holds exactly their live documents.
(The hypothesis fails only if a queued delete carries the commit's own opstamp — the first
operation of a fresh writer, C02's finding `reopen-first-delete-published-by-merge`.) -/
theorem C04_target_opstamp_committed (q : List DelOp) (srcs : List Entry) (c stamp newId : Nat)
    (m : Entry) (hadv : ∀ e ∈ srcs, consumed q e.cursor c = [])
    (hm : mergeEntries q srcs (mergeTarget true c stamp) newId = some m) :
    (∀ e ∈ srcs, advance q e (mergeTarget true c stamp) = e) ∧
    liveUids m = (srcs.map liveUids).flatten := by
  have hadv' : ∀ e ∈ srcs, advance q e c = e := fun e he => advance_of_consumed_nil q e c (hadv e he)
  have ht : mergeTarget true c stamp = c := rfl
  rw [ht] at hm ⊢
  refine ⟨hadv', ?_⟩
  have hmap : (srcs.map fun e => advance q e c) = srcs := by
    conv => rhs; rw [← List.map_id srcs]
    exact List.map_congr_left (fun e he => hadv' e he)
  unfold mergeEntries at hm
  split at hm
  · cases hm
  · simp only [Option.some.injEq] at hm
    rw [hmap] at hm
    rw [← hm]
    unfold liveUids
    simp only [liveDocs_replicate_true, List.map_flatten, List.map_map]
    rfl

/-- two committed segments and a delete of key 1 that is queued but NOT committed -/
def stP : State := pushDelete st0 ⟨5, 1⟩

example : (∀ e ∈ [e1, e2], consumed stP.queue e.cursor 0 = []) := by decide
example : mergeEntries stP.queue [e1, e2] (mergeTarget true 0 7) 3
    = some { segId := 3, docs := [⟨10, [1]⟩, ⟨11, [2]⟩, ⟨12, [1]⟩], alive := [true, true, true], cursor := 0 } := by
  decide

/-- Counterexample for the other choice: if a merge of committed segments used the CURRENT stamp
(the rule for uncommitted segments) as its target, the queued, uncommitted delete would be baked
into the merged segment and published by `end_merge` — documents 10 and 12 disappear for
searchers although nothing was committed, and a rollback does not bring them back. With the
commit opstamp as target the published documents are unchanged. -/
theorem C04_target_opstamp_counterexample :
    let good : Running := ⟨[1, 2], mergeEntries stP.queue [e1, e2] (mergeTarget true 0 7) 3, 0⟩
    let bad : Running := ⟨[1, 2], mergeEntries stP.queue [e1, e2] (mergeTarget false 0 7) 3, 0⟩
    publishedUids stP = [10, 11, 12] ∧
    publishedUids (endMerge stP good) = [10, 11, 12] ∧
    publishedUids (endMerge stP bad) = [11] ∧
    publishedUids (rollback (endMerge stP bad)) = [11] := by
  decide

/-- Why the machines assume that the stamper never hands out an opstamp twice. After a rollback
(or reopening the index) the real stamper restarts AT the committed opstamp, so the first
operation of the new writer carries the commit's own opstamp (C02's recorded finding
`reopen-first-delete-published-by-merge`). If that operation is a delete, a merge of committed
segments (target = commit opstamp, comparison `<=`) consumes it: the hypothesis of
`C04_target_opstamp_committed` fails and the uncommitted delete is published. -/
theorem C04_repeated_opstamp_counterexample :
    let a : Entry := { segId := 0, docs := [⟨10, [1]⟩], alive := [true], cursor := 0 }
    let b : Entry := { segId := 1, docs := [⟨11, [2]⟩], alive := [true], cursor := 0 }
    let st : State := { queue := [⟨6, 1⟩], committed := [a, b], uncommitted := [],
                        committedOpstamp := 6, published := [a, b], epoch := 1 }
    consumed st.queue a.cursor st.committedOpstamp ≠ [] ∧
    publishedUids st = [10, 11] ∧
    publishedUids (endMerge st ⟨[0, 1], mergeEntries st.queue [a, b] (mergeTarget true 6 7) 2, 1⟩) = [11] := by
  decide

/-- Counterexample for a stale cursor: uncommitted source `a` (doc 10, key 1) was flushed before
delete(key 1), source `b` holds doc 20 with key 1 added AFTER the delete (an upsert). A policy
merge `[a, b]` with target = current stamp applies the delete to `a` only; taking the merged
entry's cursor after advancing, the commit publishes `[20]`. With the cursor of `a` taken BEFORE
advancing, the commit replays the delete on the merged segment and doc 20 is lost. -/
theorem C04_stale_cursor_counterexample :
    let q : List DelOp := [⟨5, 1⟩]
    let a : Entry := { segId := 1, docs := [⟨10, [1]⟩], alive := [true], cursor := 0 }
    let b : Entry := { segId := 2, docs := [⟨20, [1]⟩], alive := [true], cursor := 1 }
    let st : State := { queue := q, committed := [], uncommitted := [a, b], committedOpstamp := 0,
                        published := [], epoch := 0 }
    publishedUids (commit st 8) = [20] ∧
    publishedUids (commit (endMerge st ⟨[1, 2], mergeEntries q [a, b] (mergeTarget false 0 7) 3, 0⟩) 8) = [20] ∧
    publishedUids (commit (endMerge st ⟨[1, 2], mergeEntriesStale q [a, b] (mergeTarget false 0 7) 3, 0⟩) 8) = [] := by
  decide

/-- The reconciliation branch of `end_merge` is needed: a delete committed while the merge was
running is reflected in the published merged segment with it, and lost without it. -/
theorem C04_reconcile_needed :
    publishedUids (endMerge st1 r0) = [11] ∧ publishedUids (endMergeWith false st1 r0) = [10, 11, 12] := by
  decide

/-- KNOWN FINDING `C04:explicit-merge-uncommitted-first-cursor`. `merge()` gives the merged
entry the delete cursor of its FIRST source. For an explicit `IndexWriter::merge` of
uncommitted segments the target opstamp is the last commit's, so no source is advanced and the
sources' cursors differ. Witness: `a` (doc 10, key 1) was written before delete(key 1), `b`
(doc 20, key 1) after it. Merging `[b, a]` skips the delete for `a` (a deleted doc stays
visible); merging `[a, b]` applies it to `b` as well (a live doc is lost). Without the merge
the commit publishes exactly `[20]`. -/
theorem C04_first_cursor_counterexample :
    let q : List DelOp := [⟨5, 1⟩]
    let a : Entry := { segId := 1, docs := [⟨10, [1]⟩], alive := [true], cursor := 0 }
    let b : Entry := { segId := 2, docs := [⟨20, [1]⟩], alive := [true], cursor := 1 }
    let st : State := { queue := q, committed := [], uncommitted := [a, b], committedOpstamp := 0,
                        published := [], epoch := 0 }
    publishedUids (commit st 6) = [20] ∧
    publishedUids (commit (endMerge st ⟨[2, 1], mergeEntries q [b, a] 0 3, 0⟩) 6) = [20, 10] ∧
    publishedUids (commit (endMerge st ⟨[1, 2], mergeEntries q [a, b] 0 3, 0⟩) 6) = [] := by
  decide

/-! ## all event sequences -/

/-- MERGES ARE INVISIBLE, for every event sequence. Run the writer machine (`Sys`: worker
flushes, `delete_term`, `commit`, `rollback`, `delete_all_documents`, merge starts on whatever
ids — committed or uncommitted register, target opstamp by `mergeTarget`, result computed by
`merge()` from the entries as they are then — and merge ends, interleaved in any order, one merge
in flight at a time) next to the sequential replay `Abs`, in which `startMerge` / `endMerge` do
nothing. After ANY sequence of events the documents a searcher sees and the documents the next
commit would publish are those of the replay, up to order. No hypothesis about cursors remains:
that the merged entry takes its cursor AFTER `advance_deletes` (so all sources share it), that
committed sources are already advanced to the target, the `contains_all` staleness rule and
the reconciliation in `end_merge` are exactly what the invariant (`Proofs/MergeInv.lean`, `Inv`,
`RunInv`) needs to go through every step. -/
theorem C04_merge_invisible_all_traces (evs : List Ev) (hok : OkTrace Sys.init evs) :
    (pubDocs (Sys.init.run evs).st).Perm (Abs.init.run evs).pub ∧
    (pendDocs (Sys.init.run evs).st).Perm (Abs.init.run evs).pend :=
  (run_all evs Sys.init Abs.init inv_init rel_init hok).2

/-- The same theorem about the machine the DRIVER executes (`runG`), whose behaviour at the four
places the seeded changes touched is selected by guards extracted from the current source
(`Gen/MergeGuards.lean`): cursor cloned after the `advance_deletes` loop, target opstamp chosen
by register, `end_merge` cancelled unless one register holds ALL sources, reconciliation before
the swap. While the guards hold, `runG = run`; when one flips, the equality lemmas no longer
compile (this theorem is reported broken) and the executable model follows the changed code. -/
theorem C04_merge_invisible_all_traces_extracted (evs : List Ev) (hok : OkTrace Sys.init evs) :
    (pubDocs (Sys.init.runG evs).st).Perm (Abs.init.run evs).pub ∧
    (pendDocs (Sys.init.runG evs).st).Perm (Abs.init.run evs).pend := by
  rw [runG_eq]
  exact C04_merge_invisible_all_traces evs hok

example : Gen.MERGE_CURSOR_AFTER_ADVANCE = 1 ∧ Gen.MERGE_TARGET_BY_REGISTER = 1
    ∧ Gen.END_MERGE_REQUIRES_ALL_SOURCES = 1 ∧ Gen.END_MERGE_RECONCILES = 1 := by decide

/-- in terms of the ids a searcher sees (`publishedUids` is what the driver prints) -/
theorem C04_published_uids_all_traces (evs : List Ev) (hok : OkTrace Sys.init evs) :
    (publishedUids (Sys.init.run evs).st).Perm ((Abs.init.run evs).pub.map (·.uid)) := by
  have h := (C04_merge_invisible_all_traces evs hok).1
  have e : publishedUids (Sys.init.run evs).st = (pubDocs (Sys.init.run evs).st).map (·.uid) := by
    simp only [publishedUids, pubDocs, List.map_flatten, List.map_map]
    rfl
  rw [e]
  exact h.map _

/-- a merge that became stale is never published: whatever happened in between (any event
sequence), a merge whose updater was replaced by a rollback, or whose sources are no longer all
in one register, leaves the registers and meta.json untouched when it ends — and by
`C04_merge_invisible_all_traces` every merge that IS swapped in carries exactly its sources'
documents. -/
theorem C04_stale_merge_never_published (evs : List Ev) (r : Running)
    (hrun : (Sys.init.run evs).running = some r)
    (h : r.epoch ≠ (Sys.init.run evs).st.epoch ∨
      (containsAll (Sys.init.run evs).st.uncommitted r.sources = false ∧
       containsAll (Sys.init.run evs).st.committed r.sources = false)) :
    ((Sys.init.run evs).step .endMerge).st = (Sys.init.run evs).st := by
  simp only [Sys.step, hrun]
  exact C04_merge_invisible_discarded true _ r h

/-- MERGES ARE INVISIBLE with ANY NUMBER OF MERGES IN FLIGHT. `SysM` keeps a list of running
merges; a merge may be started at any time on any ids — also on segments that another running
merge is already consuming (`IndexWriter::merge` does not consult the merge inventory) — and the
merges end in any order. After every event sequence the published documents and the documents
the next commit would publish are those of the sequential replay. This is where the
`contains_all` rule of `end_merge` carries the proof: when a merge ends, every other merge that
shared a source with it has lost that source from its register and will be cancelled
(`runInv_after_other_end`), while merges over disjoint sources are untouched. The machine is the
guard-selected one the driver executes (`stepG` / `endMergeG`). -/
theorem C04_merge_invisible_concurrent_merges (evs : List EvM) (hok : OkTraceM SysM.init evs) :
    (pubDocs (SysM.init.run evs).st).Perm (Abs.init.run (evs.map EvM.toEv)).pub ∧
    (pendDocs (SysM.init.run evs).st).Perm (Abs.init.run (evs.map EvM.toEv)).pend :=
  (runM_all evs SysM.init Abs.init invM_init rel_init hok).2

/-- EXPLICIT MERGES are events too (`startMergeExplicit`: target = commit opstamp for either
register, as `make_merge_operation` computes it). The only side condition of the all-sequences
theorems is `OkTrace(M)`: whenever an explicit merge of UNCOMMITTED segments is issued, its sources
sit at one delete-cursor position. Sequences without explicit merges — and explicit merges of
committed segments — need nothing: -/
theorem C04_merge_invisible_policy_only (evs : List EvM) (h : evs.all noExplicitM = true) :
    (pubDocs (SysM.init.run evs).st).Perm (Abs.init.run (evs.map EvM.toEv)).pub ∧
    (pendDocs (SysM.init.run evs).st).Perm (Abs.init.run (evs.map EvM.toEv)).pend :=
  C04_merge_invisible_concurrent_merges evs (okTraceM_of_noExplicit evs _ h)

/-- … and the side condition cannot be dropped: the recorded finding
`C04:explicit-merge-uncommitted-first-cursor` as an event sequence of the machine. Doc 10 (key 1)
is flushed, key 1 is deleted, doc 20 (key 1) is flushed, both uncommitted segments are merged
explicitly, commit: the replay publishes `[20]`, the machine (like the real writer) nothing. -/
theorem C04_explicit_uncommitted_trace_counterexample :
    let evs : List Ev := [.addSeg [⟨10, [1]⟩], .delete 1, .addSeg [⟨20, [1]⟩],
                          .startMergeExplicit [0, 1], .endMerge, .commit]
    publishedUids (Sys.init.run evs).st = [] ∧ (Abs.init.run evs).pub.map (·.uid) = [20] ∧
    ¬ OkTrace Sys.init evs := by
  refine ⟨by decide, by decide, ?_⟩
  intro h
  obtain ⟨_, _, _, h4, _⟩ := h
  obtain ⟨c0, hc0⟩ := h4 rfl (by decide) (by decide)
  have h0 := hc0 ⟨0, [⟨10, [1]⟩], [true], 0⟩ (by decide)
  have h1 := hc0 ⟨1, [⟨20, [1]⟩], [true], 1⟩ (by decide)
  have e0 : (advance [⟨1, 1⟩] ⟨0, [⟨10, [1]⟩], [true], 0⟩ 0).cursor = 0 := by decide
  have e1 : (advance [⟨1, 1⟩] ⟨1, [⟨20, [1]⟩], [true], 1⟩ 0).cursor = 1 := by decide
  have h0' : (0 : Nat) = c0 := e0.symm.trans h0
  have h1' : (1 : Nat) = c0 := e1.symm.trans h1
  omega

/-- an explicit merge of uncommitted segments flushed with no delete in between is covered -/
example : OkTrace Sys.init [.addSeg [⟨10, [1]⟩], .addSeg [⟨20, [1]⟩], .delete 1,
    .startMergeExplicit [0, 1], .endMerge, .commit] := by
  refine ⟨trivial, trivial, trivial, ?_, trivial, trivial, trivial⟩
  intro _ _ _
  exact ⟨0, by decide⟩

/-- A STALE MERGE IS NEVER PUBLISHED (any number of merges in flight, any history): when the
i-th running merge ends and some source of it is no longer registered — not ALL of its sources
are in the uncommitted register and not ALL of them in the committed one, e.g. because another
merge consumed one of them, or after rollback / delete-all — or its updater was replaced, the
registers and meta.json stay exactly as they were. The rule that decides this is the extracted
`contains_all` test (`Gen.END_MERGE_REQUIRES_ALL_SOURCES`, from `segments_status` +
`SegmentRegister::contains_all`); `SysM.step` executes the guard-selected `endMergeG`. -/
theorem C04_stale_merge_never_published_concurrent (evs : List EvM) (i : Nat) (r : Running)
    (hr : (SysM.init.run evs).running[i]? = some r)
    (h : r.epoch ≠ (SysM.init.run evs).st.epoch ∨
      (containsAll (SysM.init.run evs).st.uncommitted r.sources = false ∧
       containsAll (SysM.init.run evs).st.committed r.sources = false)) :
    ((SysM.init.run evs).step (.endMerge i)).st = (SysM.init.run evs).st := by
  simp only [SysM.step, hr, endMergeG_eq]
  exact C04_merge_invisible_discarded true _ r h

example : Gen.END_MERGE_REQUIRES_ALL_SOURCES = 1 := by decide

/-- Why ALL sources must be looked up. Segments A, B, C (docs 10, 11, 12) are committed; merge
#1 = [A, B] and merge #2 = [B, C] run at once; #2 ends first and is published (B, C → one
segment). With the `contains_all` rule #1 is then cancelled and every document is published once;
with a test that looks at the FIRST source only, #1 (first source A is still there) is swapped
in too and document 11 is published twice. -/
theorem C04_first_source_only_counterexample :
    let a : Entry := { segId := 0, docs := [⟨10, [1]⟩], alive := [true], cursor := 0 }
    let b : Entry := { segId := 1, docs := [⟨11, [1]⟩], alive := [true], cursor := 0 }
    let c : Entry := { segId := 2, docs := [⟨12, [1]⟩], alive := [true], cursor := 0 }
    let st : State := { queue := [], committed := [a, b, c], uncommitted := [], committedOpstamp := 0,
                        published := [a, b, c], epoch := 0 }
    let r1 : Running := ⟨[0, 1], mergeEntries [] [a, b] 0 3, 0⟩
    let r2 : Running := ⟨[1, 2], mergeEntries [] [b, c] 0 4, 0⟩
    publishedUids (endMerge (endMerge st r2) r1) = [10, 11, 12] ∧
    publishedUids (endMergeFirstOnly (endMerge st r2) r1) = [11, 12, 10, 11] := by
  decide

/-- `remove_empty_segments` (run whenever meta.json is written) is an event of both machines
(`Ev.removeEmpty`), so the all-sequences theorems cover it: committed segments without a live
document may leave the register and meta.json at any point. By itself the step changes neither
what a searcher sees nor what the next commit publishes; its only effect is that a running merge
with such a segment among its sources becomes stale (and is then cancelled, see the trace below). -/
theorem C04_remove_empty_invisible (st : State) :
    pubDocs (removeEmpty st) = pubDocs st ∧ pendDocs (removeEmpty st) = pendDocs st := by
  constructor
  · simp only [pubDocs, removeEmpty]
    exact flatten_filter_nonEmpty _ liveDocsOf (fun e _ h => nonEmpty_false_live e h)
  · simp only [pendDocs, removeEmpty, List.map_append, List.flatten_append]
    rw [flatten_filter_nonEmpty _ _ (fun e _ h => docsAll_nil_of_live_nil _ e (nonEmpty_false_live e h))]

/-- a merge of segments 0 and 1 is running; a committed delete empties segment 1, which is then
removed; the merge finds a source missing and is cancelled; documents 10 and 12 stay published -/
def exTraceRE : List EvM :=
  [.addSeg [⟨10, [1]⟩], .commit, .addSeg [⟨11, [2]⟩], .commit, .addSeg [⟨12, [3]⟩], .commit,
   .startMerge [0, 1], .delete 2, .commit, .removeEmpty, .endMerge 0]

example : (SysM.init.run (exTraceRE.take 10)).st.committed.map (·.segId) = [2, 0] := by decide
example : (SysM.init.run exTraceRE).st.committed.map (·.segId) = [2, 0]
    ∧ publishedUids (SysM.init.run exTraceRE).st = [12, 10] := by decide

/-! ## merges of a sorted index -/

section SortedIndex
open TantivyModel.Sorted

/-- MERGING A SORTED INDEX BY STACKING KEEPS THE INDEX-SORT ORDER, for the decision procedure as
extracted from the source (`segment_has_live_nulls` with its scan over `doc_ids_alive()`, and the
disjunct-ranges test): whenever it chooses to stack the readers instead of merging them by sort
key, the stacked live documents are in the configured sort order — the merge path chosen is
invisible to everything that reads documents in index-sort order. The model of the scan is
selected by the extracted guards `LIVE_NULLS_SCAN_SHAPE` / `STACK_DECISION_SHAPE`; an edit of the
scan expression or of the early returns makes `stackDecisionG = none`, and the `example` below
(a segment with deletes whose only live document without value is beyond the live count) stops
compiling. -/
theorem C04_sorted_merge_stack_keeps_order_extracted (desc : Bool) (cs : List SegCol)
    (hlen : ∀ c ∈ cs, c.keys.length = c.alive.length)
    (hcard : ∀ c ∈ cs, CardOk c)
    (hnm : ∀ c ∈ cs, c.card = .multivalued → Gen.LIVE_NULLS_SCANS_MULTIVALUED = 1)
    (hstats : ∀ c ∈ cs, StatsOk c) (hne : ∀ c ∈ cs, c.liveKeys ≠ [])
    (hsorted : ∀ c ∈ cs, sortedKeys desc c.liveKeys)
    (hdec : stackDecisionG desc cs = some true) :
    sortedKeys desc ((cs.map SegCol.liveKeys).flatten) := by
  unfold stackDecisionG at hdec
  split at hdec
  · simp only [Option.some.injEq] at hdec
    apply stack_sound_of_scan hasLiveNullsG desc cs ?_ hstats hne hsorted hdec
    intro c hc hfalse k hk hknone
    unfold hasLiveNullsG at hfalse
    by_cases hg : Gen.LIVE_NULLS_SCANS_MULTIVALUED = 1
    · simp only [hg, if_true] at hfalse
      have := (hasLiveNullsFixed_iff c (hlen c hc) (hcard c hc)).2 ⟨k, hk, hknone⟩
      rw [hfalse] at this; cases this
    · simp only [hg, if_false] at hfalse
      have hnmc : c.card ≠ .multivalued := fun h => hg (hnm c hc h)
      have := (hasLiveNulls_iff c (hlen c hc) (hcard c hc) hnmc).2 ⟨k, hk, hknone⟩
      rw [hfalse] at this; cases this
  · cases hdec

-- descending, [9, 8, 7, NULL] with 8 and 7 deleted (1 value + the NULL live: the NULL sits at doc
-- id 3 >= 2 live docs) before [5, 4]: the extracted decision must NOT stack
example : stackDecisionG true [⟨.optional, [some 9, some 8, some 7, none], [true, false, false, true], (7, 9)⟩,
    ⟨.full, [some 5, some 4], [true, true], (4, 5)⟩] = some false := by decide
-- the same without the live NULL: stacked
example : stackDecisionG true [⟨.optional, [some 9, some 8, some 7, none], [true, false, true, false], (7, 9)⟩,
    ⟨.full, [some 5, some 4], [true, true], (4, 5)⟩] = some true := by decide

end SortedIndex

/-- three committed segments; two merges that share segment 1 run at once, a delete is committed
meanwhile; the first to end is swapped in (with reconciliation), the second finds a source
missing and is cancelled; a third merge of uncommitted segments overlaps a fourth -/
def exTraceM : List EvM :=
  [.addSeg [⟨10, [1]⟩], .commit, .addSeg [⟨11, [2]⟩], .commit, .addSeg [⟨12, [1]⟩], .commit,
   .startMerge [0, 1], .startMerge [1, 2], .delete 1, .commit, .endMerge 1, .endMerge 0,
   .addSeg [⟨13, [3]⟩], .addSeg [⟨14, [3]⟩], .addSeg [⟨15, [4]⟩],
   .startMerge [5, 6], .startMerge [6, 7], .delete 3, .endMerge 0, .endMerge 0, .commit]

example : OkTraceM SysM.init exTraceM := okTraceM_of_noExplicit exTraceM _ (by decide)
example : publishedUids (SysM.init.run exTraceM).st = [15, 11] := by decide
example : (SysM.init.run (exTraceM.take 11)).st.committed.map (·.segId) = [0, 4] := by decide
example : (SysM.init.run (exTraceM.take 12)).st.committed.map (·.segId) = [0, 4] := by decide
example : (SysM.init.run (exTraceM.take 9)).running.length = 2 := by decide

/-- a trace with everything in it: two commits, a merge of the committed segments started, a
delete committed while it runs, the merge ends (reconciliation), a second merge of uncommitted
segments overtaken by a rollback (discarded) -/
def exTrace : List Ev :=
  [.addSeg [⟨10, [1]⟩, ⟨11, [2]⟩], .commit, .addSeg [⟨12, [1]⟩], .commit,
   .startMerge [0, 1], .delete 1, .addSeg [⟨13, [1]⟩], .commit, .endMerge,
   .addSeg [⟨14, [3]⟩], .addSeg [⟨15, [3]⟩], .startMerge [4, 5], .delete 3, .rollback, .endMerge,
   .addSeg [⟨16, [2]⟩], .delete 2, .commit]

example : OkTrace Sys.init exTrace := okTrace_of_noExplicit exTrace _ (by decide)
example : publishedUids (Sys.init.run exTrace).st = [13] := by decide
example : publishedUids (Sys.init.run (exTrace.take 9)).st = [13, 11] := by decide
example : (Abs.init.run exTrace).pub.map (·.uid) = [13] := by decide
example : ((Sys.init.run (exTrace.take 9)).st.committed.map (·.segId)) = [3, 2] := by decide
example : ∃ r, (Sys.init.run (exTrace.take 14)).running = some r
    ∧ r.epoch ≠ (Sys.init.run (exTrace.take 14)).st.epoch := ⟨_, rfl, by decide⟩

end TantivyModel.C04
