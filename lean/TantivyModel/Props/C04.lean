import TantivyModel.Proofs.Merge
/-!
# C04 — Merging never changes the logical content of the index

Property theorems only; helper lemmas live in `Proofs/Merge.lean`.
-/
namespace TantivyModel.C04
open TantivyModel TantivyModel.Merge

-- STATEMENTS TO BE PROVED (see Proofs/Merge.lean); filled in by the proof pass.

end TantivyModel.C04
