import TantivyModel.Proofs.AggAlgebra
import TantivyModel.Proofs.AggSpecEq
import TantivyModel.Proofs.AggTrunc
import TantivyModel.Proofs.AggCut
import TantivyModel.Proofs.AggExtStats
import TantivyModel.Proofs.AggSpecPV
import TantivyModel.Proofs.AggRange
import TantivyModel.Proofs.AggCompTrim
import TantivyModel.Proofs.AggKeyOrder
import TantivyModel.Proofs.AggKeyDesc
import TantivyModel.Proofs.AggEvict
import TantivyModel.Proofs.AggSingle
/-!
# C14 — Aggregations equal a direct computation and do not depend on partitioning

Property theorems only (helper lemmas live in `Proofs/Agg*.lean`).  `M` is the carrier of sums:
any commutative monoid (`LawfulAddOp`); counts, bucket keys, min and max are exact components.
`Float` never occurs here: the driver runs the same definitions with `M := Int` on values that
the harness scales to integers, the real f64 sums are compared with a tolerance by the harness.
-/
namespace TantivyModel.C14
open TantivyModel TantivyModel.Agg

variable {M : Type} [AddOp M] [LawfulAddOp M]

/-! ### merge algebra -/

/-- `merge_fruits` is commutative on whole intermediate trees (counts, keys, min, max exactly;
sums in any commutative monoid) -/
theorem C14_merge_comm (r : Req) (x y : Inter M r) : merge r x y = merge r y x :=
  merge_comm r x y

theorem C14_merge_assoc (r : Req) (x y z : Inter M r) :
    merge r (merge r x y) z = merge r x (merge r y z) :=
  merge_assoc r x y z

/-- `empty_from_req` is a two-sided unit -/
theorem C14_merge_empty_unit (r : Req) (x : Inter M r) :
    merge r (empty r) x = x ∧ merge r x (empty r) = x :=
  ⟨empty_merge r x, merge_empty r x⟩

/-- metric tuples alone (count, sum, sum of squares, min, max) -/
theorem C14_metric_merge_algebra (a b c : Acc M) :
    Acc.merge a b = Acc.merge b a ∧ Acc.merge (Acc.merge a b) c = Acc.merge a (Acc.merge b c)
      ∧ Acc.merge Acc.empty a = a :=
  ⟨Acc.merge_comm a b, Acc.merge_assoc a b c, Acc.empty_merge a⟩

/-- maps of counts with pointwise merge (the shape of `merge_maps`), for any commutative
associative merge of the entries -/
theorem C14_map_merge_algebra {V : Type} (f : V → V → V) (hc : ∀ a b, f a b = f b a)
    (ha : ∀ a b c, f (f a b) c = f a (f b c)) (a b c : KMap V) :
    KMap.merge f a b = KMap.merge f b a
      ∧ KMap.merge f (KMap.merge f a b) c = KMap.merge f a (KMap.merge f b c)
      ∧ KMap.merge f KMap.empty a = a :=
  ⟨KMap.merge_comm f hc a b, KMap.merge_assoc f ha a b c, KMap.empty_merge f a⟩

/-- sketch-based metrics (percentiles: DDSketch, cardinality: HLL, top_hits: top-N computer,
composite pages): the sketch `S` is a parameter; all that is proved is that *if* its merge is a
commutative monoid (the mergeable-sketch contract of the external crate, not verified) then
every merge schedule of the same fruits gives the same sketch. -/
theorem C14_sketch_merge_partial {S : Type} (mergeS : S → S → S) (emptyS : S)
    (hc : ∀ a b, mergeS a b = mergeS b a) (ha : ∀ a b c, mergeS (mergeS a b) c = mergeS a (mergeS b c))
    (hu : ∀ a, mergeS emptyS a = a) (t₁ t₂ : MTree S) (h : t₁.leaves.Perm t₂.leaves) :
    t₁.eval mergeS emptyS = t₂.eval mergeS emptyS := by
  rw [MTree.eval_eq_fold mergeS emptyS ha hc hu, MTree.eval_eq_fold mergeS emptyS ha hc hu]
  exact foldl_op_perm mergeS emptyS ha hc hu h _

/-! ### partition invariance -/

/-- collecting a concatenation = merging the collections (segment collectors are monoid
homomorphisms from document lists) -/
theorem C14_collect_append (r : Req) (a b : List Doc) :
    collect (M := M) r (a ++ b) = merge r (collect r a) (collect r b) :=
  collect_append r a b

/-- `collector.rs::merge_fruits` (last fruit is the accumulator) is the plain fold -/
theorem C14_mergeFruits_eq_fold (r : Req) (fruits : List (Inter M r)) :
    mergeFruits r fruits = fruits.foldl (merge r) (empty r) := by
  unfold mergeFruits
  have hperm : (fruits.reverse).Perm fruits := List.reverse_perm fruits
  cases h : fruits.reverse with
  | nil =>
    have : fruits = [] := by simpa using h
    subst this; rfl
  | cons last rest =>
    simp only []
    have h2 : fruits.Perm (last :: rest.reverse) := by
      rw [h] at hperm
      exact hperm.symm.trans (List.Perm.cons _ (List.reverse_perm rest).symm)
    rw [foldl_op_perm (merge r) (empty r) (merge_assoc r) (merge_comm r) (empty_merge r) h2]
    simp only [List.foldl]
    rw [empty_merge]

/-- **Partition invariance.** For every partition `parts` of the matching documents into
segments / separately searched indexes, every merge schedule `t` (any order, any grouping,
including the empty schedule for no segment at all) whose leaves are the segments' fruits, the
final result is the final result of collecting all documents at once — provided no segment
truncated a terms aggregation (`harvest` was the identity; see `C14_noTrunc_of_small` for the
sufficient condition `distinct terms ≤ segment_size` and `C14_terms_error_bound` otherwise). -/
theorem C14_partition_invariant (r : Req) (parts : List (List Doc)) (t : MTree (Inter M r))
    (hleaves : t.leaves.Perm (parts.map (collectSeg r)))
    (hno : ∀ p ∈ parts, harvest (M := M) r (collect r p) = collect r p) :
    finalize r (t.eval (merge r) (empty r)) = finalize r (collect r parts.flatten)
      ∧ t.eval (merge r) (empty r) = mergeFruits r (parts.map (collectSeg r)) := by
  have hseg : parts.map (collectSeg (M := M) r) = parts.map (collect r) :=
    List.map_congr_left (fun p hp => hno p hp)
  have key : t.eval (merge r) (empty r) = collect r parts.flatten := by
    rw [MTree.eval_eq_fold (merge r) (empty r) (merge_assoc r) (merge_comm r) (empty_merge r),
      foldl_op_perm (merge r) (empty r) (merge_assoc r) (merge_comm r) (empty_merge r) hleaves,
      hseg]
    exact fold_parts (merge r) (empty r) (merge_assoc r) (merge_comm r) (empty_merge r)
      (collect r) (collect_nil r) (collect_append r) parts
  refine ⟨by rw [key], ?_⟩
  rw [key, C14_mergeFruits_eq_fold, hseg]
  exact (fold_parts (merge r) (empty r) (merge_assoc r) (merge_comm r) (empty_merge r)
      (collect r) (collect_nil r) (collect_append r) parts).symm

/-- sufficient condition for the guard of `C14_partition_invariant` at one terms node: a
segment with at most `segment_size` distinct terms is not truncated -/
theorem C14_noTrunc_of_small {V : Type} (p : TermsP) (t : TermsI V)
    (h : t.map.entries.length ≤ p.segSize) : termsCut p t = t := by
  unfold termsCut
  simp [h]

/-- with the request defaults of the current source a segment never keeps fewer buckets than
the final result shows (`segment_size ≥ size`), whatever the request says -/
theorem C14_segment_size_ge_size (field : Field) (missing : Option Int)
    (size segSize mdc : Option Nat) (order : Option Order) :
    (TermsP.ofRequest field missing size segSize mdc order).size
      ≤ (TermsP.ofRequest field missing size segSize mdc order).segSize := by
  unfold TermsP.ofRequest
  have h : Gen.AGG_TERMS_SEGMENT_SIZE_AT_LEAST_SIZE = 1 := by decide
  simp only [h, if_true]
  omega

/-- What segment-level truncation does to one segment's terms node: a truncated segment never
invents or alters a bucket (each key keeps its exact entry or loses it entirely), and
`sum_other_doc_count` / `doc_count_error_upper_bound` only grow.  The quantitative statement
over whole partitions is `C14_terms_error_bound`. -/
theorem C14_terms_truncation_local {V : Type} (p : TermsP) (t : TermsI V) :
    (∀ k, (termsCut p t).map.get k = t.map.get k ∨ (termsCut p t).map.get k = Option.none)
      ∧ t.other ≤ (termsCut p t).other ∧ t.err ≤ (termsCut p t).err := by
  unfold termsCut
  by_cases h : t.map.entries.length ≤ p.segSize
  · simp [h]
  · simp only [h, if_false]
    refine ⟨?_, Nat.le_add_right _ _, Nat.le_add_right _ _⟩
    intro k
    simp only [KMap.restrict]
    split
    · exact Or.inl rfl
    · exact Or.inr rfl

/-! ### the direct computation -/

/-- **Collecting and finalising is the direct computation**: for every request tree (metrics,
terms with order / size / min_doc_count / missing, histogram incl. gap filling, extended and
hard bounds, range, filter, any nesting) and every list of matching documents, the final result
of the collected tree is `evalAgg` — counts, keys, min, max exactly, sums in the monoid.
Hypothesis `DocOK`: no document has two values in one bucket of a histogram / range node (see
`C14_histogram_dup_counterexample` for what the mechanism does otherwise). -/
theorem C14_finalize_collect_eq_evalAgg (r : Req) (docs : List Doc) (hok : ∀ d ∈ docs, DocOK r d) :
    finalize r (collect (M := M) r docs) = evalAgg M r docs :=
  finalize_collect r docs hok

/-- **The chain closed**: `evalAgg = finalize ∘ collect = finalize ∘ fold merge ∘ map collectSeg`
for every partition into segments / separately searched indexes, every merge schedule and the
collector's own fold, when no segment truncated a terms aggregation. -/
theorem C14_direct_equals_partitioned (r : Req) (parts : List (List Doc)) (t : MTree (Inter M r))
    (hleaves : t.leaves.Perm (parts.map (collectSeg r)))
    (hno : ∀ p ∈ parts, harvest (M := M) r (collect r p) = collect r p)
    (hok : ∀ d ∈ parts.flatten, DocOK r d) :
    finalize r (t.eval (merge r) (empty r)) = evalAgg M r parts.flatten
      ∧ finalize r (mergeFruits r (parts.map (collectSeg r))) = evalAgg M r parts.flatten := by
  obtain ⟨h1, h2⟩ := C14_partition_invariant r parts t hleaves hno
  refine ⟨by rw [h1]; exact finalize_collect r _ hok, ?_⟩
  rw [← h2, h1]
  exact finalize_collect r _ hok

/-- **Hypothesis-free refinement.**  For EVERY request tree and EVERY document list — multi-valued
documents with several values in one bucket included — collecting and finalising computes
`evalAggPV`: the direct computation in which a histogram / range / composite bucket counts one per
value and passes the document to the sub-request once per value. -/
theorem C14_finalize_collect_eq_evalAggPV (r : Req) (docs : List Doc) :
    finalize r (collect (M := M) r docs) = evalAggPV M r docs :=
  finalize_collect_pv r docs

/-- the per-value specification is the per-document specification exactly when no document has
two values in one bucket -/
theorem C14_evalAggPV_eq_evalAgg (r : Req) (docs : List Doc) (hok : ∀ d ∈ docs, DocOK r d) :
    evalAggPV M r docs = evalAgg M r docs :=
  evalAggPV_eq_evalAgg r docs hok

/-- any partition, any merge schedule = the per-value direct computation, with no hypothesis on
the documents (only the no-truncation guard of terms aggregations remains) -/
theorem C14_partitioned_equals_evalAggPV (r : Req) (parts : List (List Doc)) (t : MTree (Inter M r))
    (hleaves : t.leaves.Perm (parts.map (collectSeg r)))
    (hno : ∀ p ∈ parts, harvest (M := M) r (collect r p) = collect r p) :
    finalize r (t.eval (merge r) (empty r)) = evalAggPV M r parts.flatten := by
  rw [(C14_partition_invariant r parts t hleaves hno).1]
  exact finalize_collect_pv r _

/-- without `DocOK` the statement is false, for the model as for the code: a document with the
values 1 and 2 in one histogram bucket of width 10 is counted twice -/
theorem C14_histogram_dup_counterexample :
    finalize (M := Int) (.hist ⟨0, 10, 0, 0, Option.none, Option.none⟩ .none)
        (collect _ [[(0, [1, 2])]]) = [(0, 2, ())]
      ∧ evalAgg Int (.hist ⟨0, 10, 0, 0, Option.none, Option.none⟩ .none) [[(0, [1, 2])]] = [(0, 1, ())] := by
  decide +kernel

/-- **The documented approximation of terms under segment truncation.**  For every partition
into segments, every `segment_size`, every sub-request: let `H` be the tree the collector
returns (each segment truncated to its first `segment_size` buckets in request order, then
merged) and `true k` the number of matching documents having key `k`.  Then
* no count over-estimates: `H(k) ≤ true k`;
* for `_count desc`: `true k − H(k) ≤ doc_count_error_upper_bound`;
* nothing is lost: `Σ_k H(k) + sum_other_doc_count = Σ_k true k` (over any duplicate-free list
  `U` of keys containing every occurring key). -/
theorem C14_terms_error_bound (p : TermsP) (sub : Req) (parts : List (List Doc)) (U : List Int)
    (hU : U.Nodup) (hcov : ∀ part ∈ parts, ∀ d ∈ part, ∀ k ∈ termKeys p d, k ∈ U) :
    let H : TermsI (Inter M sub) := mergeFruits (.terms p sub) (parts.map (collectSeg (.terms p sub)))
    let true_ := fun k => (parts.flatten.filter (fun d => (termKeys p d).contains k)).length
    (∀ k, cnt H.map k ≤ true_ k)
      ∧ (p.order = .countDesc → ∀ k, true_ k ≤ cnt H.map k + H.err)
      ∧ sumOver U (cnt H.map) + H.other = sumOver U true_ := by
  intro H true_
  have e : H = mergedTerms p sub parts := C14_mergeFruits_eq_fold (.terms p sub) _
  rw [e]
  exact terms_error_bound p sub parts U hU hcov

/-- the same bounds for the COMPLETE segment model (`collectSegFull`: terms cut and composite
eviction at every composite node below) — no no-truncation guard: eviction below a terms node
changes neither its doc counts nor `sum_other_doc_count` nor the error bound -/
theorem C14_terms_error_bound_full_model (p : TermsP) (sub : Req) (parts : List (List Doc)) (U : List Int)
    (hU : U.Nodup) (hcov : ∀ part ∈ parts, ∀ d ∈ part, ∀ k ∈ termKeys p d, k ∈ U) :
    let H : TermsI (Inter M sub) := mergeFruits (.terms p sub) (parts.map (collectSegFull (.terms p sub)))
    let true_ := fun k => (parts.flatten.filter (fun d => (termKeys p d).contains k)).length
    (∀ k, cnt H.map k ≤ true_ k)
      ∧ (p.order = .countDesc → ∀ k, true_ k ≤ cnt H.map k + H.err)
      ∧ sumOver U (cnt H.map) + H.other = sumOver U true_ := by
  intro H true_
  have hb : SameBooks H (mergedTerms (M := M) p sub parts) := by
    show SameBooks (mergeFruits (.terms p sub) (parts.map (collectSegFull (.terms p sub)))) _
    rw [C14_mergeFruits_eq_fold]
    exact sameBooks_foldl p sub _ _ (sameBooks_full p sub) parts _ _ ⟨fun _ => rfl, rfl, rfl⟩
  obtain ⟨b1, b2, b3⟩ := terms_error_bound (M := M) p sub parts U hU hcov
  refine ⟨fun k => by rw [hb.1 k]; exact b1 k, fun ho k => by rw [hb.1 k, hb.2.2]; exact b2 ho k, ?_⟩
  rw [sumOver_congr U _ _ (fun k _ => hb.1 k), hb.2.1]
  exact b3

/-- **One segment: the cut to `segment_size` is invisible in what is shown.**  For every order of
the request (`_count` ascending / descending, `_key` ascending / descending) and every
`size ≤ segment_size` (guaranteed by the request defaults, `C14_segment_size_ge_size`) the
first `size` buckets in request order of the truncated segment are those of the untruncated
one; together with `C14_terms_error_bound` (nothing is lost: the cut counts are in
`sum_other_doc_count`) a single-segment result is exact although `doc_count_error_upper_bound`
is non-zero.  (The cut happens before the `min_doc_count` filter: with `min_doc_count > 1` the
shown buckets may differ — that is the code's documented behaviour and the harness checks only the
bounds then.) -/
theorem C14_single_segment_cut_exact {V : Type} (p : TermsP) (t : TermsI V) (hsz : p.size ≤ p.segSize) :
    (sortBuckets p.order (termsCut p t).map.entries).take p.size
      = (sortBuckets p.order t.map.entries).take p.size :=
  termsCut_shown_eq p t hsz

/-- **Terms ordered by `_key` ascending are exact under segment truncation.**  No guard on the
number of distinct terms: every segment cuts to its first `segment_size` keys, and for every
partition into any number of segments the returned buckets (keys, doc counts, sub-results) are
those of the direct per-value computation.  Checked hypotheses: `size ≤ segment_size` (always true
for `TermsP.ofRequest`, `C14_segment_size_ge_size`), `min_doc_count ≤ 1` (the cut happens before
the `min_doc_count` filter), no terms node below (`cutFree`). -/
theorem C14_terms_key_asc_exact_under_truncation (p : TermsP) (sub : Req) (ho : p.order = .keyAsc)
    (hsz : p.size ≤ p.segSize) (hmdc : p.minDocCount ≤ 1) (hsub : sub.cutFree = true) (parts : List (List Doc)) :
    (finalize (M := M) (.terms p sub) (mergeFruits (.terms p sub) (parts.map (collectSeg (.terms p sub))))).1
      = (evalAggPV M (.terms p sub) parts.flatten).1 := by
  rw [C14_mergeFruits_eq_fold]
  have h := terms_keyAsc_exact (M := M) p sub ho hsz hmdc (harvest_of_cutFree sub hsub) parts
  unfold mergedTerms at h
  rw [h, finalize_collect_pv]

/-- … and so is `sum_other_doc_count` (what the segments cut plus what the final `size` cut removes
is exactly what the direct computation leaves out); only `doc_count_error_upper_bound` is then an
over-estimate (the code reports the first cut count although no shown count can be wrong). -/
theorem C14_terms_key_asc_other_exact_under_truncation (p : TermsP) (sub : Req) (ho : p.order = .keyAsc)
    (hsz : p.size ≤ p.segSize) (hmdc : p.minDocCount ≤ 1) (hsub : sub.cutFree = true) (parts : List (List Doc)) :
    (finalize (M := M) (.terms p sub) (mergeFruits (.terms p sub) (parts.map (collectSeg (.terms p sub))))).2.1
      = (evalAggPV M (.terms p sub) parts.flatten).2.1 := by
  rw [C14_mergeFruits_eq_fold]
  have h := terms_keyAsc_other_exact (M := M) p sub ho hsz hmdc (harvest_of_cutFree sub hsub) parts
  unfold mergedTerms at h
  rw [h, finalize_collect_pv]

/-- **Terms ordered by `_key` descending are exact under segment truncation** as well: every segment
keeps its LAST `segment_size` keys; buckets and `sum_other_doc_count` of any number of truncated
segments are those of the direct per-value computation (same checked hypotheses). -/
theorem C14_terms_key_desc_exact_under_truncation (p : TermsP) (sub : Req) (ho : p.order = .keyDesc)
    (hsz : p.size ≤ p.segSize) (hmdc : p.minDocCount ≤ 1) (hsub : sub.cutFree = true) (parts : List (List Doc)) :
    (finalize (M := M) (.terms p sub) (mergeFruits (.terms p sub) (parts.map (collectSeg (.terms p sub))))).1
        = (evalAggPV M (.terms p sub) parts.flatten).1
      ∧ (finalize (M := M) (.terms p sub) (mergeFruits (.terms p sub) (parts.map (collectSeg (.terms p sub))))).2.1
        = (evalAggPV M (.terms p sub) parts.flatten).2.1 := by
  rw [C14_mergeFruits_eq_fold]
  have h := terms_keyDesc_exact (M := M) p sub ho hsz hmdc (harvest_of_cutFree sub hsub) parts
  unfold mergedTerms at h
  rw [h.1, h.2, finalize_collect_pv]
  exact ⟨rfl, rfl⟩

/-- … for EVERY merge schedule (any order, any grouping — collector fold, distributed merge of
intermediate results) of the truncated segment fruits, in both key directions -/
theorem C14_terms_key_order_exact_any_schedule (p : TermsP) (sub : Req)
    (ho : p.order = .keyAsc ∨ p.order = .keyDesc) (hsz : p.size ≤ p.segSize) (hmdc : p.minDocCount ≤ 1)
    (hsub : sub.cutFree = true) (parts : List (List Doc)) (t : MTree (TermsI (Inter M sub)))
    (hleaves : t.leaves.Perm (parts.map (collectSeg (.terms p sub)))) :
    (finalize (M := M) (.terms p sub) (t.eval (merge (.terms p sub)) (empty (.terms p sub)))).1
        = (evalAggPV M (.terms p sub) parts.flatten).1
      ∧ (finalize (M := M) (.terms p sub) (t.eval (merge (.terms p sub)) (empty (.terms p sub)))).2.1
        = (evalAggPV M (.terms p sub) parts.flatten).2.1 := by
  have e : t.eval (merge (.terms p sub)) (empty (.terms p sub))
      = mergeFruits (.terms p sub) (parts.map (collectSeg (.terms p sub))) := by
    rw [MTree.eval_eq_fold (merge (.terms p sub)) (empty (.terms p sub)) (merge_assoc _) (merge_comm _) (empty_merge _),
      foldl_op_perm (merge (.terms p sub)) (empty (.terms p sub)) (merge_assoc _) (merge_comm _) (empty_merge _) hleaves,
      C14_mergeFruits_eq_fold]
  rw [e]
  rcases ho with ho | ho
  · exact ⟨C14_terms_key_asc_exact_under_truncation p sub ho hsz hmdc hsub parts,
      C14_terms_key_asc_other_exact_under_truncation p sub ho hsz hmdc hsub parts⟩
  · exact C14_terms_key_desc_exact_under_truncation p sub ho hsz hmdc hsub parts

/-- **Exactness from the top buckets** (any order): whenever the first `size` buckets in request
order of the merged truncated segments are those of the untruncated collection, the FINAL buckets
(keys, counts, sub-results) and `sum_other_doc_count` are those of the direct computation — the
cut counts are conserved in `sum_other_doc_count`.  The key-order theorems and the single-segment
theorem below are its instances. -/
theorem C14_terms_exact_from_top_buckets (p : TermsP) (sub : Req) (hmdc : p.minDocCount ≤ 1)
    (hsub : sub.cutFree = true) (parts : List (List Doc))
    (htop : (sortBuckets p.order (mergeFruits (M := M) (.terms p sub) (parts.map (collectSeg (.terms p sub)))).map.entries).take p.size
      = (sortBuckets p.order (collect (M := M) (.terms p sub) parts.flatten).map.entries).take p.size) :
    (finalize (M := M) (.terms p sub) (mergeFruits (.terms p sub) (parts.map (collectSeg (.terms p sub))))).1
        = (evalAggPV M (.terms p sub) parts.flatten).1
      ∧ (finalize (M := M) (.terms p sub) (mergeFruits (.terms p sub) (parts.map (collectSeg (.terms p sub))))).2.1
        = (evalAggPV M (.terms p sub) parts.flatten).2.1 := by
  rw [C14_mergeFruits_eq_fold] at htop ⊢
  have h := terms_exact_of_top (M := M) p sub hmdc (harvest_of_cutFree sub hsub) parts htop
  unfold mergedTerms at h
  rw [h.1, h.2, finalize_collect_pv]
  exact ⟨rfl, rfl⟩

/-- **One data-bearing segment: exact for EVERY order** (`_count` descending / ascending, `_key`)
and every merge schedule that merges its fruit with any number of empty fruits (segments without
matching documents, `empty_from_req` placeholders): final buckets and `sum_other_doc_count` are
the direct computation although the segment was cut to `segment_size` buckets (finalize-level
form of `C14_single_segment_cut_exact`). -/
theorem C14_terms_single_segment_exact_any_schedule (p : TermsP) (sub : Req) (hsz : p.size ≤ p.segSize)
    (hmdc : p.minDocCount ≤ 1) (hsub : sub.cutFree = true) (part : List Doc) (n : Nat)
    (t : MTree (TermsI (Inter M sub)))
    (hleaves : t.leaves.Perm (collectSeg (M := M) (.terms p sub) part :: List.replicate n (empty (.terms p sub)))) :
    (finalize (M := M) (.terms p sub) (t.eval (merge (.terms p sub)) (empty (.terms p sub)))).1
        = (evalAggPV M (.terms p sub) part).1
      ∧ (finalize (M := M) (.terms p sub) (t.eval (merge (.terms p sub)) (empty (.terms p sub)))).2.1
        = (evalAggPV M (.terms p sub) part).2.1 := by
  have e : t.eval (merge (.terms p sub)) (empty (.terms p sub)) = collectSeg (M := M) (.terms p sub) part := by
    rw [MTree.eval_eq_fold (merge (.terms p sub)) (empty (.terms p sub)) (merge_assoc _) (merge_comm _) (empty_merge _),
      foldl_op_perm (merge (.terms p sub)) (empty (.terms p sub)) (merge_assoc _) (merge_comm _) (empty_merge _) hleaves]
    show (List.replicate n (empty (.terms p sub))).foldl (merge (.terms p sub))
      (merge (.terms p sub) (empty (.terms p sub)) (collectSeg (.terms p sub) part)) = _
    rw [empty_merge, foldl_merge_replicate_empty]
  have h := terms_single_segment_exact (M := M) p sub hsz hmdc (harvest_of_cutFree sub hsub) part
  rw [e, h.1, h.2, finalize_collect_pv]
  exact ⟨rfl, rfl⟩

/-- **The request tree decomposes.**  Several top-level aggregations are collected, cut, merged and
finalised independently, and a filter parent hands its sub-request the matching documents of every
segment: the final result of `both a b` is the pair of the final results of `a` and `b`, the final
result of `filter{sub}` is the total match count and the final result of `sub` over the filtered
partition.  Hence every single-node theorem (bounds, `_key`-order exactness, single-segment
exactness, composite eviction) applies to each top-level node of a request and below filters. -/
theorem C14_request_tree_decomposes (a b : Req) (f : Field) (v : Int) (sub : Req) (parts : List (List Doc)) :
    finalize (M := M) (.both a b) (mergeFruits (.both a b) (parts.map (collectSeg (.both a b))))
        = (finalize a (mergeFruits a (parts.map (collectSeg a))), finalize b (mergeFruits b (parts.map (collectSeg b))))
      ∧ finalize (M := M) (.filter f v sub) (mergeFruits (.filter f v sub) (parts.map (collectSeg (.filter f v sub))))
        = ((parts.map (fun q => (q.filter (filterMatch f v)).length)).foldl (· + ·) 0,
           finalize sub (mergeFruits sub ((parts.map (fun q => q.filter (filterMatch f v))).map (collectSeg sub)))) := by
  constructor
  · rw [C14_mergeFruits_eq_fold, C14_mergeFruits_eq_fold, C14_mergeFruits_eq_fold, fold_both]
    rfl
  · rw [C14_mergeFruits_eq_fold, C14_mergeFruits_eq_fold, fold_filter]
    rfl

/-- the hypothesis `min_doc_count ≤ 1` of the two theorems above is needed: the cut happens before the
`min_doc_count` filter.  Segment 1 holds keys 1 (one document) and 2 (two documents) and keeps key 1
only; segment 2 holds key 2 once.  With `min_doc_count = 2` the direct computation shows key 2 with
three documents, the truncated segments show nothing (documented behaviour of the code, which the
harness accepts: it checks only the bounds then). -/
theorem C14_terms_key_order_min_doc_count_counterexample :
    ∃ (p : TermsP) (parts : List (List Doc)), p.order = .keyAsc ∧ p.size ≤ p.segSize ∧ p.minDocCount = 2 ∧
      (finalize (M := Int) (.terms p .none) (mergeFruits (.terms p .none) (parts.map (collectSeg (.terms p .none))))).1 = []
      ∧ (evalAggPV Int (.terms p .none) parts.flatten).1 = [(2, 3, ())] :=
  ⟨⟨0, Option.none, 1, 1, 2, .keyAsc⟩, [[[(0, [1, 2])], [(0, [2])]], [[(0, [2])]]], rfl, by decide, rfl,
    by decide +kernel, by decide +kernel⟩

/-- a segment may evict with ANY buffer of at least the page size: trimming to a larger page first is
invisible in the page (the composite collector's buffer is exactly `size`, `termsCut` for `_key`
order uses `segment_size ≥ size`) -/
theorem C14_composite_trim_monotone {V : Type} {size n : Nat} (hle : size ≤ n) (after : Option Int)
    (m : KMap (Nat × V)) : compTrim size after (compTrim n after m) = compTrim size after m :=
  trim_trim_le hle after m

/-- the same bounds for EVERY merge schedule (any order, any grouping) of the truncated segment
fruits, not only for the collector's own fold -/
theorem C14_terms_error_bound_any_schedule (p : TermsP) (sub : Req) (parts : List (List Doc))
    (t : MTree (TermsI (Inter M sub)))
    (hleaves : t.leaves.Perm (parts.map (collectSeg (.terms p sub)))) (U : List Int)
    (hU : U.Nodup) (hcov : ∀ part ∈ parts, ∀ d ∈ part, ∀ k ∈ termKeys p d, k ∈ U) :
    let H : TermsI (Inter M sub) := t.eval (merge (.terms p sub)) (empty (.terms p sub))
    let true_ := fun k => (parts.flatten.filter (fun d => (termKeys p d).contains k)).length
    (∀ k, cnt H.map k ≤ true_ k)
      ∧ (p.order = .countDesc → ∀ k, true_ k ≤ cnt H.map k + H.err)
      ∧ sumOver U (cnt H.map) + H.other = sumOver U true_ := by
  intro H true_
  have e : H = mergeFruits (.terms p sub) (parts.map (collectSeg (.terms p sub))) := by
    show t.eval (merge (.terms p sub)) (empty (.terms p sub)) = _
    rw [MTree.eval_eq_fold (merge (.terms p sub)) (empty (.terms p sub)) (merge_assoc _) (merge_comm _) (empty_merge _),
      foldl_op_perm (merge (.terms p sub)) (empty (.terms p sub)) (merge_assoc _) (merge_comm _) (empty_merge _) hleaves,
      C14_mergeFruits_eq_fold]
  rw [e]
  exact C14_terms_error_bound p sub parts U hU hcov

/-- the final stage keeps the books as well: what the `size` cut removes goes to
`sum_other_doc_count` (buckets below `min_doc_count` are dropped, as in the code) -/
theorem C14_terms_final_conservation {V : Type} (p : TermsP) (all : List (Int × Nat × V)) (other err : Nat) :
    sumCounts (termsFinal p all other err).1 + (termsFinal p all other err).2.1
      = sumCounts (all.filter (fun b => decide (p.minDocCount ≤ b.2.1))) + other := by
  unfold termsFinal
  simp only []
  have h := perm_sumCounts (sortBuckets_perm p.order (all.filter (fun b => decide (p.minDocCount ≤ b.2.1))))
  rw [← h]
  conv => rhs; rw [← List.take_append_drop p.size (sortBuckets p.order (all.filter (fun b => decide (p.minDocCount ≤ b.2.1))))]
  rw [sumCounts_append]
  omega

/-- top_hits: the best `k` `(sort key, document)` pairs of a union only depend on the best `k`
of the parts (the `TopNComputer` semilattice; same specification shape as C06's
`topK le K 0`), with no hypothesis on the entries — so top_hits, at any depth, is covered by
`C14_merge_comm/assoc/empty_unit`, `C14_finalize_collect_eq_evalAgg` and
`C14_direct_equals_partitioned` like every other node -/
theorem C14_top_hits_merge (desc : Bool) (k : Nat) (x y : List HitE) :
    (Hits.ofList (x ++ y) : Hits desc k) = Hits.merge (Hits.ofList x) (Hits.ofList y)
      ∧ (Hits.ofList (x ++ y) : Hits desc k).list = (isort (hitLe desc) (x ++ y)).take k :=
  ⟨Hits.ofList_append x y, rfl⟩

/-- composite keys: the mixed-radix code of a tuple of source keys orders tuples
lexicographically — first source most significant (`d`, `d'` the leading source keys, `r`, `r'`
the codes of the remaining sources, both below the radix `R` of the remaining sources).  With it
the integer order used by the composite node *is* the per-source composite-key order, so
`C14_finalize_collect_eq_evalAgg` / `C14_direct_equals_partitioned` state for composite:
buckets = product of source keys, count = documents having the combination, page = the `size`
buckets after `after` in composite-key order. -/
theorem C14_composite_key_order (R d d' r r' : Int) (hr : 0 ≤ r ∧ r < R) (hr' : 0 ≤ r' ∧ r' < R) :
    d * R + r < d' * R + r' ↔ (d < d' ∨ (d = d' ∧ r < r')) := by
  have hR : 0 < R := by omega
  constructor
  · intro h
    by_cases hd : d < d'
    · exact Or.inl hd
    · by_cases he : d = d'
      · subst he; exact Or.inr ⟨rfl, by omega⟩
      · have h2 : d' + 1 ≤ d := by omega
        have h3 : (d' + 1) * R ≤ d * R := Int.mul_le_mul_of_nonneg_right h2 (by omega)
        have h4 : (d' + 1) * R = d' * R + R := by rw [Int.add_mul, Int.one_mul]
        omega
  · rintro (hd | ⟨he, hlt⟩)
    · have h2 : d + 1 ≤ d' := by omega
      have h3 : (d + 1) * R ≤ d' * R := Int.mul_le_mul_of_nonneg_right h2 (by omega)
      have h4 : (d + 1) * R = d * R + R := by rw [Int.add_mul, Int.one_mul]
      omega
    · subst he; omega

/-! ### extended_stats: Welford / Chan over ℚ, and where sigma comes from -/

/-- one segment: after the Welford updates of `collect` the accumulator holds exactly
`count = n`, `sum = Σv`, `sum_of_squares = Σv²`, `mean = Σv/n` and `M2 = Σv² − (Σv)²/n`
(`= Σ(v − mean)²`), for every list of values -/
theorem C14_extstats_collect_direct (σ : ℚ) (xs : List ℚ) :
    (ExtS.ofList σ xs).count = xs.length ∧ (ExtS.ofList σ xs).sum = xs.sum
      ∧ (ExtS.ofList σ xs).q = sumSq xs ∧ (ExtS.ofList σ xs).m2 = extDirectM2 xs
      ∧ (ExtS.ofList σ xs).mean = (if xs.length = 0 then 0 else xs.sum / (xs.length : ℚ)) := by
  have h := ExtS.describes_ofList σ xs
  exact ⟨h.count, h.sum, h.q, by rw [h.m2]; rfl, h.mean⟩

/-- Chan's parallel merge (`merge_fruits`) of two segments = the direct computation over the
concatenated values, including the cases where one side is empty -/
theorem C14_extstats_chan_merge (σ τ : ℚ) (xs ys : List ℚ) :
    (ExtS.merge (ExtS.ofList σ xs) (ExtS.ofList τ ys)).count = (xs ++ ys).length
      ∧ (ExtS.merge (ExtS.ofList σ xs) (ExtS.ofList τ ys)).sum = (xs ++ ys).sum
      ∧ (ExtS.merge (ExtS.ofList σ xs) (ExtS.ofList τ ys)).q = sumSq (xs ++ ys)
      ∧ (ExtS.merge (ExtS.ofList σ xs) (ExtS.ofList τ ys)).m2 = extDirectM2 (xs ++ ys) := by
  have h := ExtS.describes_merge (ExtS.describes_ofList σ xs) (ExtS.describes_ofList τ ys)
  refine ⟨by rw [h.count, List.length_append], by rw [h.sum, List.sum_append],
    by rw [h.q]; simp [sumSq, List.map_append, List.sum_append], ?_⟩
  rw [h.m2]
  simp only [extDirectM2, List.length_append, List.sum_append, List.map_append, sumSq]

/-- **Any partition, any merge schedule, placeholders anywhere.**  `t` is an arbitrary schedule of
`merge_fruits` calls over per-segment value lists; a leaf without values and the absence of any
fruit are `empty_from_req` placeholders that carry the DEFAULT sigma 2 — also as the left
operand of a merge (the situation of the seeded change C14-D).  The result has the count, sum,
sum of squares, mean and M2 of the direct computation over all values, and as soon as there is
one value it carries the REQUEST's sigma: a placeholder's sigma never survives. -/
theorem C14_extstats_any_schedule (σ : ℚ) (t : MTree (List ℚ)) :
    let r := extTreePlaceholders σ t
    let all := t.leaves.flatten
    r.count = all.length ∧ r.sum = all.sum ∧ r.q = sumSq all ∧ r.m2 = extDirectM2 all
      ∧ r.mean = (ExtS.ofList σ all).mean ∧ (all ≠ [] → r.sigma = σ) := by
  intro r all
  have h := extTreePlaceholders_describes σ t
  have h2 := ExtS.describes_ofList σ all
  refine ⟨h.count, h.sum, h.q, by rw [h.m2]; rfl, (h.numeric_eq h2).2.2.2.1, ?_⟩
  intro hne
  apply extTreePlaceholders_good σ t
  rw [h.count]
  intro h0
  exact hne (List.length_eq_zero_iff.1 h0)

/-- **Composite: the per-segment eviction is invisible.**  The composite collector keeps per
segment only the first `size` buckets after the `after` key (`collect_bucket_with_limit` evicts
the highest key; `merge_fruits` trims again).  For every partition into any number of segments
the page returned from the trimmed fruits is the page returned from the untrimmed ones — hence,
with `C14_finalize_collect_eq_evalAggPV` and `C14_collect_append`, the direct computation. -/
theorem C14_composite_eviction_invisible (srcs : List CompSrc) (size : Nat) (after : Option Int) (sub : Req)
    (parts : List (List Doc)) :
    finalize (M := M) (.composite srcs size after sub)
        ((parts.map (collectSegComposite (M := M) srcs size after sub)).foldl
          (merge (.composite srcs size after sub)) (empty (.composite srcs size after sub)))
      = evalAggPV M (.composite srcs size after sub) parts.flatten := by
  have h := composite_eviction_invisible (M := M) srcs size after sub parts
  have h2 : (parts.map (collect (M := M) (.composite srcs size after sub))).foldl
      (merge (.composite srcs size after sub)) (empty (.composite srcs size after sub))
      = collect (.composite srcs size after sub) parts.flatten :=
    fold_parts (merge (.composite srcs size after sub)) (empty (.composite srcs size after sub)) (merge_assoc _)
      (merge_comm _) (empty_merge _) (collect (.composite srcs size after sub)) (collect_nil _) (collect_append _) parts
  show finalize (M := M) (.composite srcs size after sub)
      ((parts.map (fun p => compTrim size after (collect (M := M) (.composite srcs size after sub) p))).foldl _ _) = _
  rw [h, h2]
  exact finalize_collect_pv _ _

/-- **Composite: neither the per-segment eviction nor the merge-time trim is visible.**  The
segments evict (`collectSegComposite`) and `merge_fruits` trims whenever more than `2 * size`
entries are held (`compMergeFruits`); for every partition into any number of segments the returned
page is the direct computation over all documents. -/
theorem C14_composite_merge_fruits_eq_evalAggPV (srcs : List CompSrc) (size : Nat) (after : Option Int) (sub : Req)
    (parts : List (List Doc)) :
    finalize (M := M) (.composite srcs size after sub)
        ((parts.map (collectSegComposite (M := M) srcs size after sub)).foldl
          (compMergeFruits (entryMerge (merge (M := M) sub)) size after) KMap.empty)
      = evalAggPV M (.composite srcs size after sub) parts.flatten := by
  have h := composite_lazy_trim_invisible (M := M) (sub := sub)
    (fun m => decide (m.entries.length > 2 * size)) srcs size after parts
  have h2 : (parts.map (collect (M := M) (.composite srcs size after sub))).foldl
      (merge (.composite srcs size after sub)) (empty (.composite srcs size after sub))
      = collect (.composite srcs size after sub) parts.flatten :=
    fold_parts (merge (.composite srcs size after sub)) (empty (.composite srcs size after sub)) (merge_assoc _)
      (merge_comm _) (empty_merge _) (collect (.composite srcs size after sub)) (collect_nil _) (collect_append _) parts
  rw [compMergeFruits_eq_when]
  show finalize (M := M) (.composite srcs size after sub)
      ((parts.map (fun p => compTrim size after (collect (M := M) (.composite srcs size after sub) p))).foldl _ _) = _
  rw [h, h2]
  exact finalize_collect_pv _ _

/-- the same for ANY trimming schedule at merge time (trim decided by an arbitrary predicate) -/
theorem C14_composite_any_trim_schedule {sub : Req} (dec : KMap (Nat × Inter M sub) → Bool) (srcs : List CompSrc) (size : Nat)
    (after : Option Int) (parts : List (List Doc)) :
    finalize (M := M) (.composite srcs size after sub)
        ((parts.map (collectSegComposite (M := M) srcs size after sub)).foldl
          (compMergeWhen dec (entryMerge (merge (M := M) sub)) size after) KMap.empty)
      = evalAggPV M (.composite srcs size after sub) parts.flatten := by
  have h := composite_lazy_trim_invisible (M := M) (sub := sub) dec srcs size after parts
  have h2 : (parts.map (collect (M := M) (.composite srcs size after sub))).foldl
      (merge (.composite srcs size after sub)) (empty (.composite srcs size after sub))
      = collect (.composite srcs size after sub) parts.flatten :=
    fold_parts (merge (.composite srcs size after sub)) (empty (.composite srcs size after sub)) (merge_assoc _)
      (merge_comm _) (empty_merge _) (collect (.composite srcs size after sub)) (collect_nil _) (collect_append _) parts
  show finalize (M := M) (.composite srcs size after sub)
      ((parts.map (fun p => compTrim size after (collect (M := M) (.composite srcs size after sub) p))).foldl _ _) = _
  rw [h, h2]
  exact finalize_collect_pv _ _

/-- **Composite eviction ANYWHERE in the request tree is invisible.**  `evict` applies the
per-segment eviction at every composite node of the intermediate tree — below terms, histogram,
range, filter nodes, in every parent bucket, composites below composites.  For every request tree
and every partition into any number of segments the final result of the merged evicted fruits is
the direct per-value computation.  (Proof: observational equality `∀ z, finalize (merge x z) =
finalize (merge y z)` is a right congruence by associativity; induction over the request tree.) -/
theorem C14_composite_eviction_invisible_anywhere (r : Req) (parts : List (List Doc)) :
    finalize r ((parts.map (collectSegEvict (M := M) r)).foldl (merge r) (empty r))
      = evalAggPV M r parts.flatten := by
  rw [evict_invisible, finalize_collect_pv]

/-- … for every merge schedule of the evicted fruits -/
theorem C14_composite_eviction_invisible_any_schedule (r : Req) (parts : List (List Doc)) (t : MTree (Inter M r))
    (hleaves : t.leaves.Perm (parts.map (collectSegEvict (M := M) r))) :
    finalize r (t.eval (merge r) (empty r)) = evalAggPV M r parts.flatten := by
  rw [MTree.eval_eq_fold (merge r) (empty r) (merge_assoc r) (merge_comm r) (empty_merge r),
    foldl_op_perm (merge r) (empty r) (merge_assoc r) (merge_comm r) (empty_merge r) hleaves]
  exact C14_composite_eviction_invisible_anywhere r parts

/-- **The complete segment model** (terms cut AND composite eviction, `collectSegFull`): for every
request tree, every partition and every merge schedule the final result is the direct per-value
computation, provided no segment truncated a terms node (the guard of `C14_partition_invariant`;
sufficient: `C14_noTrunc_of_small`; key-ordered terms need no guard:
`C14_terms_key_order_exact_any_schedule`; otherwise the bounds of `C14_terms_error_bound`). -/
theorem C14_full_segment_model_exact (r : Req) (parts : List (List Doc)) (t : MTree (Inter M r))
    (hleaves : t.leaves.Perm (parts.map (collectSegFull (M := M) r)))
    (hno : ∀ p ∈ parts, harvest (M := M) r (collect r p) = collect r p) :
    finalize r (t.eval (merge r) (empty r)) = evalAggPV M r parts.flatten := by
  have hseg : parts.map (collectSegFull (M := M) r) = parts.map (collectSegEvict r) :=
    List.map_congr_left (fun p hp => by
      show evict r (harvest r (collect r p)) = evict r (collect r p)
      rw [hno p hp])
  rw [hseg] at hleaves
  exact C14_composite_eviction_invisible_any_schedule r parts t hleaves

/-- **Eviction is invisible on top of ANY terms truncation — no guard.**  For every request tree,
every partition and every merge schedule the complete segment model (`collectSegFull`: terms cut
and composite eviction everywhere) has the final result of the cut-only model (`collectSeg`).
Hence every statement about the cut-only model — the bounds of `C14_terms_error_bound`, the
exactness for `_key` order, for one data-bearing segment, from the top buckets — holds verbatim
for the complete model. -/
theorem C14_full_model_eq_cut_model (r : Req) (parts : List (List Doc)) (t : MTree (Inter M r))
    (hleaves : t.leaves.Perm (parts.map (collectSegFull (M := M) r))) :
    finalize r (t.eval (merge r) (empty r)) = finalize r (mergeFruits r (parts.map (collectSeg r))) := by
  rw [MTree.eval_eq_fold (merge r) (empty r) (merge_assoc r) (merge_comm r) (empty_merge r),
    foldl_op_perm (merge r) (empty r) (merge_assoc r) (merge_comm r) (empty_merge r) hleaves,
    C14_mergeFruits_eq_fold]
  exact full_eq_cut r parts

/-- corollary: the complete model with a `_key`-ordered terms node on top (composites, histograms,
ranges, filters, metrics below) is exact under truncation for every merge schedule — and all
hypotheses but the order and the shape of the sub-request are DERIVED from the request defaults of
the source (`TermsP.ofRequest`: `segment_size ≥ size`, default `min_doc_count = 1`). -/
theorem C14_terms_key_order_exact_full_model_request_defaults (field : Field) (missing : Option Int)
    (size segSize : Option Nat) (ord : Order) (ho : ord = .keyAsc ∨ ord = .keyDesc) (sub : Req)
    (hsub : sub.cutFree = true) (parts : List (List Doc))
    (t : MTree (Inter M (.terms (TermsP.ofRequest field missing size segSize Option.none (some ord)) sub)))
    (hleaves : t.leaves.Perm (parts.map (collectSegFull (M := M)
      (.terms (TermsP.ofRequest field missing size segSize Option.none (some ord)) sub)))) :
    let r := Req.terms (TermsP.ofRequest field missing size segSize Option.none (some ord)) sub
    (finalize (M := M) r (t.eval (merge r) (empty r))).1 = (evalAggPV M r parts.flatten).1
      ∧ (finalize (M := M) r (t.eval (merge r) (empty r))).2.1 = (evalAggPV M r parts.flatten).2.1 := by
  intro r
  have hsz := C14_segment_size_ge_size field missing size segSize Option.none (some ord)
  have hmdc : (TermsP.ofRequest field missing size segSize Option.none (some ord)).minDocCount ≤ 1 := by
    show Gen.AGG_TERMS_DEFAULT_MIN_DOC_COUNT ≤ 1
    decide
  have ho' : (TermsP.ofRequest field missing size segSize Option.none (some ord)).order = .keyAsc
      ∨ (TermsP.ofRequest field missing size segSize Option.none (some ord)).order = .keyDesc := ho
  rw [C14_full_model_eq_cut_model r parts t hleaves]
  rcases ho' with h | h
  · exact ⟨C14_terms_key_asc_exact_under_truncation _ sub h hsz hmdc hsub parts,
      C14_terms_key_asc_other_exact_under_truncation _ sub h hsz hmdc hsub parts⟩
  · exact C14_terms_key_desc_exact_under_truncation _ sub h hsz hmdc hsub parts

/-- the observational core: an evicted fruit behaves like the original one in every merge -/
theorem C14_evict_observationally_equal (r : Req) (x z : Inter M r) (hx : WS r x) (hz : WS r z) :
    finalize r (merge r (evict r x) z) = finalize r (merge r x z) :=
  evict_obs r x z hx hz

/-- the algebraic core: trimming the operands first does not change the trimmed merge -/
theorem C14_composite_trim_merge {V : Type} (f : (Nat × V) → (Nat × V) → (Nat × V)) (size : Nat)
    (after : Option Int) (a b : KMap (Nat × V)) (ha : Supp a) (hb : Supp b) :
    compTrim size after (KMap.merge f (compTrim size after a) (compTrim size after b))
      = compTrim size after (KMap.merge f a b) :=
  trim_merge f size after a b ha hb

/-- extracted code shape behind `C14_histogram_bucket` for a plain `histogram` on a date column: the
request (interval, offset, hard and extended bounds, given in milliseconds) is converted to the
column's unit (nanoseconds) BEFORE the collect-time bounds and the offset are read
(`normalize_histogram_req`: `normalize_date_time()` precedes `req_data.bounds = …` and
`req_data.offset = …`; the extractor fails when the order changes), so that `histPos` / `inHard`
of the model compare values and bounds in ONE unit (`C14_histogram_unit_invariant`). -/
theorem C14_histogram_request_normalised_before_bounds : Gen.AGG_HIST_NORMALIZE_BEFORE_BOUNDS = 1 := by decide

/-- merging after a serialisation round trip that is the identity on intermediate trees gives
the same result (that postcard's round trip *is* the identity is tested by the harness, not
proved) -/
theorem C14_serialisation_transparent {W : Type} (r : Req) (ser : Inter M r → W)
    (de : W → Inter M r) (hid : ∀ x, de (ser x) = x) (t : MTree (Inter M r)) (x y : Inter M r) :
    merge r (de (ser x)) (de (ser y)) = merge r x y
      ∧ finalize r (de (ser (t.eval (merge r) (empty r)))) = finalize r (t.eval (merge r) (empty r)) := by
  rw [hid, hid, hid]; exact ⟨rfl, rfl⟩

/-! ### bucket arithmetic -/

/-- every value lands in exactly one histogram bucket: `histPos` is the unique `p` with
`key p ≤ v < key (p+1)` -/
theorem C14_histogram_bucket (interval offset v p : Int) (hI : 0 < interval) :
    histPos interval offset v = p ↔
      histKey interval offset p ≤ v ∧ v < histKey interval offset (p + 1) := by
  unfold histPos histKey
  constructor
  · intro h
    subst h
    have h1 := (Int.le_ediv_iff_mul_le (a := (v - offset) / interval) (b := v - offset) hI).1 (Int.le_refl _)
    have h2 := (Int.ediv_lt_iff_lt_mul (a := v - offset) (b := (v - offset) / interval + 1) hI).1 (by omega)
    omega
  · rintro ⟨h1, h2⟩
    have a1 : p ≤ (v - offset) / interval := (Int.le_ediv_iff_mul_le hI).2 (by omega)
    have a2 : (v - offset) / interval < p + 1 := (Int.ediv_lt_iff_lt_mul hI).2 (by omega)
    omega

/-- the bucket position does not depend on the unit: scaling interval, offset and value by the
same positive factor (milliseconds → nanoseconds in `normalize_date_time`, which the
date_histogram and a histogram on a date column apply) leaves `⌊(v − offset)/interval⌋` unchanged -/
theorem C14_histogram_unit_invariant (interval offset v s : Int) (hs : 0 < s) (_hI : 0 < interval) :
    histPos (interval * s) (offset * s) (v * s) = histPos interval offset v := by
  unfold histPos
  have : v * s - offset * s = (v - offset) * s := by rw [Int.sub_mul]
  rw [this]
  exact Int.mul_ediv_mul_of_pos_left (v - offset) interval hs

/-- gap filling reports exactly the positions between the smallest and the largest one needed:
with neither extended nor hard bounds, `p` is reported iff it lies inside the hull of the
non-empty buckets -/
theorem C14_histogram_gap_filling (p : HistP) (hull : Option (Int × Int)) (hext : p.ext = Option.none)
    (hhard : p.hard = Option.none) (k : Int) :
    k ∈ histSpan p hull ↔ inHull hull k := by
  unfold histSpan
  simp only [hext, hhard]
  cases hull with
  | none => simp [inHull]
  | some q => obtain ⟨lo, hi⟩ := q; simp [inHull, mem_intSpan]

/-- every value lands in exactly one range bucket: for sorted cut points `rangeIdx` is the
unique index `i` such that the cuts before `i` are `≤ v` and those from `i` on are `> v`, i.e.
`cuts[i-1] ≤ v < cuts[i]` with open ends -/
theorem C14_range_bucket (cuts : List Int) (hs : cuts.Pairwise (· < ·)) (v : Int) (i : Nat) :
    rangeIdx cuts v = i ↔
      i ≤ cuts.length ∧ (∀ c ∈ cuts.take i, c ≤ v) ∧ (∀ c ∈ cuts.drop i, v < c) := by
  constructor
  · intro h
    subst h
    obtain ⟨h1, h2⟩ := range_split cuts hs v
    refine ⟨List.length_filter_le _ _, ?_, h2⟩
    intro c hc
    rw [h1] at hc
    simpa using (List.mem_filter.1 hc).2
  · rintro ⟨hi, h1, h2⟩
    unfold rangeIdx
    conv => lhs; rw [← List.take_append_drop i cuts]
    rw [List.filter_append, List.length_append]
    have e1 : (cuts.take i).filter (· ≤ v) = cuts.take i :=
      List.filter_eq_self.2 (fun a ha => by simpa using h1 a ha)
    have e2 : (cuts.drop i).filter (· ≤ v) = [] :=
      List.filter_eq_nil_iff.2 (fun a ha => by have := h2 a ha; simp; omega)
    rw [e1, e2, List.length_take]
    simp; omega

/-- **The cut points of a range request are derived, not assumed.**  `normRanges` mirrors
`extend_validate_ranges` (sort by start, extend to the whole line, reject overlaps, turn holes into
buckets).  When it accepts a request whose ranges are non-empty, the resulting buckets are
contiguous and non-empty, every user range is exactly one of them, and the interior boundaries
are strictly increasing — which is the hypothesis of `C14_range_bucket`: every value then lands
in exactly one bucket of the normalised request. -/
theorem C14_range_request_normalised (rs : List (Option Int × Option Int)) (bs : List ERange)
    (h : normRanges rs = some bs)
    (hne : ∀ r ∈ rs, EInt.lt (toERange r).1 (toERange r).2 = true) :
    (cutsOf bs).Pairwise (· < ·) ∧ (∀ r ∈ rs, toERange r ∈ bs) ∧ Contig bs
      ∧ (∀ v i, rangeIdx (cutsOf bs) v = i ↔
          i ≤ (cutsOf bs).length ∧ (∀ c ∈ (cutsOf bs).take i, c ≤ v) ∧ (∀ c ∈ (cutsOf bs).drop i, v < c)) := by
  obtain ⟨h1, h2, h3, _⟩ := normRanges_ok rs bs h hne
  exact ⟨h1, h2, h3, fun v i => C14_range_bucket (cutsOf bs) h1 v i⟩

/-! ### limits -/

/-- the bucket limit yields an error or the complete result, never a shortened one (model of
the guard placement in `IntermediateAggregationResults::into_final_result`) -/
theorem C14_limits_error_not_truncate (limit : Nat) (r : Req) (x : Inter M r) :
    (∀ res, finalizeGuarded limit r x = .ok res → res = finalize r x ∧ bucketCount r res ≤ limit)
      ∧ (∀ n, finalizeGuarded limit r x = .error n → limit < bucketCount r (finalize r x)) := by
  unfold finalizeGuarded
  constructor
  · intro res h
    by_cases hl : limit < bucketCount r (finalize r x)
    · simp [hl] at h
    · simp [hl] at h; subst h; exact ⟨rfl, by omega⟩
  · intro n h
    by_cases hl : limit < bucketCount r (finalize r x)
    · exact hl
    · simp [hl] at h

/-! ### non-vacuity -/

def exReq : Req :=
  .both (.terms ⟨0, some 99, 2, 20, 1, .countDesc⟩ (.metric 1 Option.none))
    (.hist ⟨1, 10, 0, 0, Option.none, Option.none⟩ .none)
def exDocs1 : List Doc := [[(0, [1]), (1, [5, 25])], [(0, [2, 1]), (1, [-5])]]
def exDocs2 : List Doc := [[(1, [7])], [(0, [2])]]
def exTReq : Req := .terms ⟨0, Option.none, 2, 2, 1, .countDesc⟩ .none
def exTDocs : List Doc := [[(0, [1])], [(0, [1])], [(0, [2])], [(0, [2])], [(0, [3])]]

example : (evalAgg Int exReq (exDocs1 ++ exDocs2)).1.1.map (fun b => (b.1, b.2.1)) = [(1, 2), (2, 2)] := by
  decide +kernel
example : (finalize (M := Int) exReq (merge exReq (collectSeg exReq exDocs1) (collectSeg exReq exDocs2))).2.map
    (fun b => (b.1, b.2.1)) = [(-1, 1), (0, 2), (1, 0), (2, 1)] := by decide +kernel
example : histPos (60000 * 1000000) 0 (1600000000123 * 1000000) = histPos 60000 0 1600000000123 := by decide
example : histPos 10 0 (-5) = -1 ∧ histPos 10 3 13 = 1 ∧ histPos 10 3 12 = 0 := by decide
example : rangeIdx [0, 10, 20] 10 = 2 ∧ rangeIdx [0, 10, 20] (-1) = 0 ∧ rangeIdx [0, 10, 20] 25 = 3 := by
  decide
example : (TermsP.ofRequest 0 Option.none Option.none Option.none Option.none Option.none).segSize = 100 := by decide
example : ∀ d ∈ exDocs1 ++ exDocs2, DocOK exReq d := by
  intro d hd
  simp only [exDocs1, exDocs2, List.cons_append, List.nil_append, List.mem_cons, List.not_mem_nil, or_false] at hd
  rcases hd with rfl | rfl | rfl | rfl <;> (simp only [DocOK, exReq]; decide)
example : evalAgg Int (.hist ⟨0, 10, 0, 1, Option.none, Option.none⟩ (.topHits 1 1 1 true))
    [[(0, [1]), (1, [7])], [(0, [2]), (1, [9])], [(0, [15]), (1, [3])]] = [(0, 2, [(9, 9)]), (1, 1, [(3, 3)])] := by
  decide +kernel
/-- two sources (first ascending with 3 keys, second descending with 2 keys): the document with
source keys {0,2} x {1} gets the product keys 0*2+(2-1-1) = 0 and 2*2+0 = 4 -/
example : compKeys [⟨0, 3, false⟩, ⟨1, 2, true⟩] [(0, [0, 2]), (1, [1])] = [0, 4] := by decide
example : evalAgg Int (.composite [⟨0, 3, false⟩, ⟨1, 2, true⟩] 2 (some 0) .none)
    [[(0, [0, 2]), (1, [1])], [(0, [2]), (1, [0, 1])], [(0, [1])]] = [(4, 2, ()), (5, 1, ())] := by
  decide +kernel
/-- placeholder (default sigma 2) as the LEFT operand, request sigma 3: the merged result carries 3 -/
example : (extTreePlaceholders 3 (.node (.leaf []) (.leaf [1, 2, 3, 4]))).sigma = 3
    ∧ (extTreePlaceholders 3 (.node (.leaf []) (.leaf [1, 2, 3, 4]))).m2 = 5 := by
  constructor
  · exact (C14_extstats_any_schedule 3 (.node (.leaf []) (.leaf [1, 2, 3, 4]))).2.2.2.2.2 (by simp [MTree.leaves])
  · rw [(C14_extstats_any_schedule 3 (.node (.leaf []) (.leaf [1, 2, 3, 4]))).2.2.2.1]
    norm_num [extDirectM2, MTree.leaves]
/-- the document with the values 1 and 2 in one histogram bucket: the per-value specification says 2 -/
example : evalAggPV Int (.hist ⟨0, 10, 0, 0, Option.none, Option.none⟩ .none) [[(0, [1, 2])]] = [(0, 2, ())] := by
  decide +kernel
/-- a request with a gap and two open ends: five buckets, cuts 0, 10, 20, 30; an overlap is rejected -/
example : (normRanges [(some 20, some 30), (some 0, some 10)]).map cutsOf = some [0, 10, 20, 30] := by decide
example : normRanges [(some 0, some 10), (some 5, some 20)] = Option.none := by decide
example : ∀ r ∈ [((some 20 : Option Int), (some 30 : Option Int)), (some 0, some 10)], EInt.lt (toERange r).1 (toERange r).2 = true := by decide
/-- two segments with page size 1: each keeps only its smallest key, the merged page is still the global one -/
example : finalize (M := Int) (.composite [⟨0, 5, false⟩] 1 Option.none .none)
    (([[[(0, [3])], [(0, [1])]], [[(0, [2])], [(0, [1])]]].map
        (collectSegComposite (M := Int) [⟨0, 5, false⟩] 1 Option.none .none)).foldl
      (merge (.composite [⟨0, 5, false⟩] 1 Option.none .none)) (empty _)) = [(1, 2, ())] := by decide +kernel
/-- three segments with page size 1 and values 3,2,1 / 5,4 / 0: the merge-time trim fires (3 > 2·1 entries) -/
example : finalize (M := Int) (.composite [⟨0, 9, false⟩] 1 Option.none .none)
    (([[[(0, [3, 2])]], [[(0, [5, 4])]], [[(0, [0])]]].map
        (collectSegComposite (M := Int) [⟨0, 9, false⟩] 1 Option.none .none)).foldl
      (compMergeFruits (entryMerge (merge (M := Int) .none)) 1 Option.none) KMap.empty) = [(0, 1, ())] := by decide +kernel
/-- two segments, each cut to one key (segment_size 1): keys {1,3} and {1,2}; the first bucket is exact -/
example : (finalize (M := Int) (.terms ⟨0, Option.none, 1, 1, 1, .keyAsc⟩ .none)
    (mergeFruits (.terms ⟨0, Option.none, 1, 1, 1, .keyAsc⟩ .none)
      ([[[(0, [3])], [(0, [1])]], [[(0, [2])], [(0, [1])]]].map
        (collectSeg (M := Int) (.terms ⟨0, Option.none, 1, 1, 1, .keyAsc⟩ .none))))).1 = [(1, 2, ())] := by decide +kernel
/-- same two cut segments: one bucket shown, the three other term occurrences are all in sum_other_doc_count, error bound 2 -/
example : (finalize (M := Int) (.terms ⟨0, Option.none, 1, 1, 1, .keyAsc⟩ .none)
    (mergeFruits (.terms ⟨0, Option.none, 1, 1, 1, .keyAsc⟩ .none)
      ([[[(0, [3])], [(0, [1])]], [[(0, [2])], [(0, [1])]]].map
        (collectSeg (M := Int) (.terms ⟨0, Option.none, 1, 1, 1, .keyAsc⟩ .none))))).2 = (2, 2) := by decide +kernel
/-- descending: keys {1,3} and {1,2}, each segment keeps its largest key; the shown bucket is key 3 (count 1), 3 others -/
example : finalize (M := Int) (.terms ⟨0, Option.none, 1, 1, 1, .keyDesc⟩ .none)
    (mergeFruits (.terms ⟨0, Option.none, 1, 1, 1, .keyDesc⟩ .none)
      ([[[(0, [3])], [(0, [1])]], [[(0, [2])], [(0, [1])]]].map
        (collectSeg (M := Int) (.terms ⟨0, Option.none, 1, 1, 1, .keyDesc⟩ .none)))) = ([(3, 1, ())], 3, 2) := by decide +kernel
/-- a schedule that merges the second cut segment into the first: same exact result -/
example : finalize (M := Int) (.terms ⟨0, Option.none, 1, 1, 1, .keyDesc⟩ .none)
    ((MTree.node (.leaf (collectSeg (M := Int) (.terms ⟨0, Option.none, 1, 1, 1, .keyDesc⟩ .none) [[(0, [2])], [(0, [1])]]))
        (.leaf (collectSeg (M := Int) (.terms ⟨0, Option.none, 1, 1, 1, .keyDesc⟩ .none) [[(0, [3])], [(0, [1])]]))).eval
      (merge (.terms ⟨0, Option.none, 1, 1, 1, .keyDesc⟩ .none)) (empty _)) = ([(3, 1, ())], 3, 2) := by decide +kernel
set_option synthInstance.maxSize 1024 in
/-- composite (page size 1) below a terms bucket, two segments: each evicts to its smallest source value (1 resp. 0) -/
example : @Eq (List (Int × Nat × List (Int × Nat × Unit)) × Nat × Nat) (finalize (M := Int) (.terms ⟨1, Option.none, 10, 10, 1, .keyAsc⟩ (.composite [⟨0, 9, false⟩] 1 Option.none .none))
    (([[[(1, [7]), (0, [3])], [(1, [7]), (0, [1])]], [[(1, [7]), (0, [2])], [(1, [7]), (0, [0])]]].map
        (collectSegEvict (M := Int) (.terms ⟨1, Option.none, 10, 10, 1, .keyAsc⟩ (.composite [⟨0, 9, false⟩] 1 Option.none .none)))).foldl
      (merge _) (empty _))) ([(7, 4, [(0, 1, ())])], 0, 0) := by decide +kernel
set_option synthInstance.maxSize 1024 in
/-- the complete segment model on the same corpus (no terms cut: 1 distinct term ≤ segment_size 10) -/
example : @Eq (List (Int × Nat × List (Int × Nat × Unit)) × Nat × Nat) (finalize (M := Int) (.terms ⟨1, Option.none, 10, 10, 1, .keyAsc⟩ (.composite [⟨0, 9, false⟩] 1 Option.none .none))
    ((MTree.node (.leaf (collectSegFull (M := Int) (.terms ⟨1, Option.none, 10, 10, 1, .keyAsc⟩ (.composite [⟨0, 9, false⟩] 1 Option.none .none))
          [[(1, [7]), (0, [3])], [(1, [7]), (0, [1])]]))
        (.leaf (collectSegFull (M := Int) (.terms ⟨1, Option.none, 10, 10, 1, .keyAsc⟩ (.composite [⟨0, 9, false⟩] 1 Option.none .none))
          [[(1, [7]), (0, [2])], [(1, [7]), (0, [0])]]))).eval (merge _) (empty _))) ([(7, 4, [(0, 1, ())])], 0, 0) := by decide +kernel
/-- one segment with keys 1 (×1), 2 (×2), 3 (×1) cut to 2 buckets by `_count` descending, merged with an empty fruit:
the shown bucket and the 2 other occurrences are exact, the error bound 1 is the first cut count -/
example : finalize (M := Int) (.terms ⟨0, Option.none, 1, 2, 1, .countDesc⟩ .none)
    ((MTree.node (.leaf (empty (.terms ⟨0, Option.none, 1, 2, 1, .countDesc⟩ .none)))
        (.leaf (collectSeg (M := Int) (.terms ⟨0, Option.none, 1, 2, 1, .countDesc⟩ .none)
          [[(0, [1])], [(0, [2])], [(0, [2])], [(0, [3])]]))).eval
      (merge (.terms ⟨0, Option.none, 1, 2, 1, .countDesc⟩ .none)) (empty _)) = ([(2, 2, ())], 2, 1) := by decide +kernel
/-- the hypothesis of `C14_terms_exact_from_top_buckets` on two cut segments ordered by `_count`: keys {1×1, 2×2} and {2×1, 3×1},
each cut to one bucket; the top bucket of the merged cut fruits is the true top bucket (key 2, three documents) -/
example : (sortBuckets .countDesc (mergeFruits (M := Int) (.terms ⟨0, Option.none, 1, 1, 1, .countDesc⟩ .none)
      ([[[(0, [2])], [(0, [2])], [(0, [1])]], [[(0, [2])], [(0, [3])]]].map
        (collectSeg (M := Int) (.terms ⟨0, Option.none, 1, 1, 1, .countDesc⟩ .none)))).map.entries).take 1
    = (sortBuckets .countDesc (collect (M := Int) (.terms ⟨0, Option.none, 1, 1, 1, .countDesc⟩ .none)
        [[(0, [2])], [(0, [2])], [(0, [1])], [(0, [2])], [(0, [3])]]).map.entries).take 1 := by decide +kernel
set_option synthInstance.maxSize 1024 in
/-- complete segment model with a cut terms node (segment_size 1, `_count` descending) above a composite (page size 1):
two segments; the books (bucket 7 ×2 shown, 1 + 1 cut + 1 beyond size = 3 others, error bound 1 + 1) are those of the cut-only model -/
example : @Eq (List (Int × Nat × List (Int × Nat × Unit)) × Nat × Nat)
    (finalize (M := Int) (.terms ⟨1, Option.none, 1, 1, 1, .countDesc⟩ (.composite [⟨0, 9, false⟩] 1 Option.none .none))
      (mergeFruits (.terms ⟨1, Option.none, 1, 1, 1, .countDesc⟩ (.composite [⟨0, 9, false⟩] 1 Option.none .none))
        ([[[(1, [7]), (0, [3])], [(1, [7]), (0, [1])], [(1, [8]), (0, [1])]], [[(1, [8]), (0, [2])], [(1, [9]), (0, [0])]]].map
          (collectSegFull (M := Int) (.terms ⟨1, Option.none, 1, 1, 1, .countDesc⟩ (.composite [⟨0, 9, false⟩] 1 Option.none .none))))))
    ([(7, 2, [(1, 1, ())])], 3, 2) := by decide +kernel
set_option synthInstance.maxSize 1024 in
/-- complete model, request `terms(size 1, shard_size 1, order _key asc){composite(size 1)}` built by `TermsP.ofRequest`:
two cut and evicted segments (keys {7,8} and {7,9}); bucket 7 with 3 documents and its composite page are exact, 2 others -/
example : @Eq (List (Int × Nat × List (Int × Nat × Unit)) × Nat × Nat)
    (finalize (M := Int) (.terms (TermsP.ofRequest 1 Option.none (some 1) (some 1) Option.none (some .keyAsc)) (.composite [⟨0, 9, false⟩] 1 Option.none .none))
      ((MTree.node
        (.leaf (collectSegFull (M := Int) (.terms (TermsP.ofRequest 1 Option.none (some 1) (some 1) Option.none (some .keyAsc)) (.composite [⟨0, 9, false⟩] 1 Option.none .none))
          [[(1, [7]), (0, [3])], [(1, [7]), (0, [1])], [(1, [8]), (0, [1])]]))
        (.leaf (collectSegFull (M := Int) (.terms (TermsP.ofRequest 1 Option.none (some 1) (some 1) Option.none (some .keyAsc)) (.composite [⟨0, 9, false⟩] 1 Option.none .none))
          [[(1, [7]), (0, [2])], [(1, [9]), (0, [0])]]))).eval (merge _) (empty _)))
    ([(7, 3, [(1, 1, ())])], 2, 2) := by decide +kernel
/-- two top-level nodes (a cut `_key`-ordered terms and a filter) over two segments: each is finalised on its own -/
example : finalize (M := Int) (.both (.terms ⟨0, Option.none, 1, 1, 1, .keyAsc⟩ .none) (.filter 0 1 .none))
    (mergeFruits _ ([[[(0, [3])], [(0, [1])]], [[(0, [2])], [(0, [1])]]].map
      (collectSeg (M := Int) (.both (.terms ⟨0, Option.none, 1, 1, 1, .keyAsc⟩ .none) (.filter 0 1 .none)))))
    = (([(1, 2, ())], 2, 2), (2, ())) := by decide +kernel
/-- in one unit the hard bounds select the values 2000..5500: positions 2..5 for interval 1000 -/
example : ([1000, 2000, 3000, 3500, 4000, 5000, 6000].filter (inHard (some (2000, 5500)))).map (histPos 1000 0) = [2, 3, 3, 4, 5] := by decide
example : (compTrim 1 Option.none (compTrim 2 Option.none (KMap.merge (fun a _ => a) (KMap.single 3 (1, ()))
    (KMap.merge (fun a _ => a) (KMap.single 1 (1, ())) (KMap.single 2 (1, ())))))).entries = [(1, 1, ())] := by decide +kernel
example : [0, 10, 20].Pairwise (fun a b : Int => a < b) := by decide
example : ([1, 2, 3] : List Int).Nodup ∧ ∀ d ∈ exTDocs, ∀ k ∈ termKeys ⟨0, Option.none, 2, 2, 1, .countDesc⟩ d, k ∈ [1, 2, 3] := by
  decide
/-- ascending count, `size = 1 ≤ segment_size = 2`, three distinct terms: the rarest term survives the cut -/
example : ((sortBuckets Order.countAsc (termsCut ⟨0, Option.none, 1, 2, 1, .countAsc⟩
      (collect (M := Int) (.terms ⟨0, Option.none, 1, 2, 1, .countAsc⟩ .none) exTDocs)).map.entries).take 1).map
    (fun b => (b.1, b.2.1)) = [(3, 1)] := by decide +kernel
/-- a segment with three distinct terms and `segment_size = 2` is truncated: one bucket goes to
`sum_other_doc_count`, its count is the error bound -/
example : ((harvest (M := Int) exTReq (collect exTReq exTDocs)).other,
    (harvest (M := Int) exTReq (collect exTReq exTDocs)).err,
    ((harvest (M := Int) exTReq (collect exTReq exTDocs)).map.get 3).isNone) = (1, 1, true) := by decide +kernel
example : (match finalizeGuarded (M := Int) 2 exReq (collect exReq (exDocs1 ++ exDocs2)) with
    | .error n => n | .ok _ => 0) = 6 := by decide +kernel

end TantivyModel.C14
