import TantivyModel.Proofs.GC
import TantivyModel.Proofs.Storage
import TantivyModel.Proofs.CommitProtocol
/-!
# C10 — Garbage collection never removes a needed file and leaves no orphan
-/
namespace TantivyModel.C10
open TantivyModel.Storage TantivyModel.GC TantivyModel.CommitProtocol

/-- **GC is safe under every interleaving**: for every state in which no GC is in flight (or one
that satisfies the in-flight invariant) and every sequence of events of the other threads that
respects the discipline (registration-before-create, no resurrection, living computed
atomically), no `gcDelete` ever hits a file in `needed` — committed, uncommitted, being written
or in merge. No bound on the number of events, workers or GCs. -/
theorem C10_gc_safe (s : St) (h : GInv s) (evs : List Ev) (hd : Disc s evs = true) :
    SafeRun s evs := by
  induction evs generalizing s with
  | nil => trivial
  | cons e es ih =>
    simp only [Disc, Bool.and_eq_true] at hd
    refine ⟨?_, ih _ (h.step e hd.1) hd.2⟩
    cases e with
    | gcDelete p ok =>
      simp only [okEv] at hd
      cases hpend : s.pending with
      | none => simp [hpend] at hd
      | some l =>
        simp only [hpend] at hd
        exact (h l hpend p (by simpa using hd.1)).2
    | _ => trivial

theorem C10_ginv_of_idle (s : St) (h : s.pending = none) : GInv s := by
  intro l hl
  rw [h] at hl
  cases hl

/-- **no orphans at quiescence**: if every existing file is managed (register-before-create),
then after one complete collection in which no delete fails every remaining file is living:
a file of a live (committed) meta or `meta.json`. Holds whatever happened before (rollbacks,
failed or discarded merges, delete-all, writer restarts): those only change `live`. -/
theorem C10_no_orphans_quiescent (s : St) (hreg : ∀ p ∈ s.dir, p ∈ s.managed) :
    ∀ p ∈ (fullGC s []).dir, p ∈ living s := by
  intro p hp
  rw [mem_fullGC_dir, mem_fullGC_deleted] at hp
  by_cases hl : p ∈ living s
  · exact hl
  · exact absurd ⟨hreg p hp.1, hl, List.not_mem_nil⟩ hp.2

/-- … and nothing living was removed (un-interleaved special case of `C10_gc_safe`). -/
theorem C10_gc_keeps_living (s : St) (fails : List Path) :
    ∀ p ∈ s.dir, p ∈ living s → p ∈ (fullGC s fails).dir := by
  intro p hp hl
  rw [mem_fullGC_dir, mem_fullGC_deleted]
  exact ⟨hp, fun h => h.2.1 hl⟩

/-- **the managed set stays consistent**: after a collection (with any set of failing deletes)
a path is managed iff it was managed and was not deleted; in particular a file whose delete
failed is still managed (and still exists), and if the managed set and the directory agreed
before they agree afterwards. -/
theorem C10_managed_consistent (s : St) (fails : List Path) :
    (∀ p, p ∈ (fullGC s fails).managed ↔ p ∈ s.managed ∧ p ∉ (fullGC s fails).deleted) ∧
    (∀ p ∈ (fullGC s fails).failed, p ∈ (fullGC s fails).managed ∧ (p ∈ s.dir → p ∈ (fullGC s fails).dir)) ∧
    ((∀ p, p ∈ s.dir ↔ p ∈ s.managed) → ∀ p, p ∈ (fullGC s fails).dir ↔ p ∈ (fullGC s fails).managed) := by
  refine ⟨mem_fullGC_managed s fails, ?_, ?_⟩
  · intro p hp
    rw [mem_fullGC_failed] at hp
    have hnd : p ∉ (fullGC s fails).deleted := by
      rw [mem_fullGC_deleted]
      exact fun h => h.2.2 hp.2.2
    rw [mem_fullGC_managed, mem_fullGC_dir]
    exact ⟨⟨hp.1, hnd⟩, fun hd => ⟨hd, hnd⟩⟩
  · intro h p
    rw [mem_fullGC_dir, mem_fullGC_managed, h p]

/-- **after a crash (partial)**: for a crash image in which every existing file is listed in the
image's `.managed.json` (true whenever every un-synced `.managed.json` rename was applied,
because registration precedes creation), recovery followed by one complete collection leaves
only files of the recovered commit and `meta.json`.
Full statement (false, see the counterexample): the same for *every* crash image. -/
theorem C10_after_crash_partial (img : LImage)
    (hreg : ∀ p ∈ (ofImage img).dir, p ∈ (ofImage img).managed) :
    ∀ p ∈ (fullGC (ofImage img) []).dir, p ∈ living (ofImage img) :=
  C10_no_orphans_quiescent _ hreg

/-- an unmanaged file is never collected: whatever the other threads and any number of GCs do
(short of creating that very path again), it stays in the directory -/
theorem C10_unmanaged_survives (s : St) (h : GInv s) (x : Path) (hx : x ∈ s.dir) (hm : x ∉ s.managed)
    (evs : List Ev) (hd : Disc s evs = true) (hno : Ev.openWrite x ∉ evs) :
    x ∈ (s.run evs).dir ∧ x ∉ (s.run evs).managed := by
  induction evs generalizing s with
  | nil => exact ⟨hx, hm⟩
  | cons e es ih =>
    simp only [Disc, Bool.and_eq_true] at hd
    have hno' : Ev.openWrite x ∉ es := fun hh => hno (List.mem_cons_of_mem _ hh)
    have hne : e ≠ Ev.openWrite x := fun hh => hno (by simp [hh])
    simp only [St.run, List.foldl_cons]
    have key : x ∈ (s.step e).dir ∧ x ∉ (s.step e).managed := by
      cases e with
      | track fs => exact ⟨hx, hm⟩
      | drop i => exact ⟨hx, hm⟩
      | gcCompute => exact ⟨hx, hm⟩
      | openWrite q =>
        have hq : x ≠ q := fun hh => hne (by rw [hh])
        simp only [St.step, mem_insertP]
        exact ⟨Or.inr hx, fun hh => hh.elim hq hm⟩
      | gcDelete q ok =>
        simp only [St.step]
        cases hpend : s.pending with
        | none => exact ⟨hx, hm⟩
        | some l =>
          simp only []
          by_cases hc : l.contains q = true
          · have hqm := (h l hpend q (by simpa using hc)).1
            have hq : x ≠ q := fun hh => hm (by rw [hh]; simpa using hqm)
            cases ok with
            | true =>
              simp only [hc, if_true]
              exact ⟨List.mem_filter.mpr ⟨hx, by simpa using hq⟩, hm⟩
            | false =>
              simp only [hc, if_true, Bool.false_eq_true, if_false]
              exact ⟨hx, hm⟩
          · simp only [hc, Bool.false_eq_true, if_false]
            exact ⟨hx, hm⟩
      | gcFinish =>
        simp only [St.step]
        cases hpend : s.pending with
        | none => exact ⟨hx, hm⟩
        | some l =>
          cases l with
          | nil => exact ⟨hx, fun hh => hm (List.mem_filter.mp hh).1⟩
          | cons a t => exact ⟨hx, hm⟩
    exact ih (s.step e) (h.step e hd.1) key.1 key.2 hd.2 hno'

/-- storage trace of finding S2: `Index::create`, then a worker registers file 2 in
`.managed.json` (an `atomic_write`, no directory sync: it is not the first managed file) and
creates it -/
def s2Trace : List Op :=
  [ .atomicWrite MANAGED ⟨0, 0, 14, [0]⟩, .syncDir, .syncDir, .atomicWrite META ⟨0, 1, 90, []⟩, .syncDir,
    .atomicWrite MANAGED ⟨0, 2, 30, [0, 2]⟩, .create 2, .write 2 5 ]

/-- `C10_managed_rename_counterexample` (finding S2): the fault model allows the crash image
"`.managed.json` rename lost, creation of file 2 applied"; in the recovered state file 2 exists,
is not managed and belongs to no meta, and it is still there after a complete collection — by
`C10_unmanaged_survives`, forever. -/
theorem C10_managed_rename_counterexample :
    let img : LImage := { files := [(2, some (5, false))],
                          atoms := [(META, some ⟨0, 1, 90, []⟩), (MANAGED, some ⟨0, 0, 14, [0]⟩)] }
    img ∈ crashImages (Dir.empty.run s2Trace) ∧
    (2 ∈ (ofImage img).dir ∧ 2 ∉ (ofImage img).managed ∧ 2 ∉ living (ofImage img)) ∧
    2 ∈ (fullGC (ofImage img) []).dir ∧ 2 ∉ living (fullGC (ofImage img) []) := by
  decide

/-- **registration precedes creation, forgetting follows the durable unlink**: along every trace
that respects R1–R3, in every crash image whose `.managed.json` is the newest one written
(every un-synced `.managed.json` rename applied), every file that exists is listed in it —
the side condition of `C10_after_crash_partial`. -/
theorem C10_existing_files_are_managed (s0 : Dir) (h0 : RInv s0) (t : List Op) (hd : RegDisc s0 t)
    (k : Nat) (img : Image) (hi : CrashImage (s0.run (t.take k)) img)
    (hm : img.atom MANAGED = ((s0.run (t.take k)).atom MANAGED).visible) :
    ∀ p, img.file p ≠ none →
      ∃ b, img.atom MANAGED = some b ∧ p ∈ b.refs := by
  have hdk : RegDisc s0 (t.take k) := by
    clear hi hm
    induction t generalizing s0 k with
    | nil => simpa using hd
    | cons op t ih =>
      cases k with
      | zero => trivial
      | succ k => exact ⟨hd.1, ih _ (h0.step op hd.1) hd.2 k⟩
  have hinv := h0.run _ hdk
  intro p hp
  have hout := hi.1 p
  have hmp : ((s0.run (t.take k)).file p).mayPresent = true := by
    cases hf : img.file p with
    | none => exact absurd hf hp
    | some v =>
      obtain ⟨n, sl⟩ := v
      rw [hf] at hout
      simp only [FileSt.outcome, Bool.and_eq_true] at hout
      simpa [FileSt.mayPresent] using hout.1
  have hin := hinv p hmp
  unfold visibleManaged at hin
  rw [← hm] at hin
  cases hb : img.atom MANAGED with
  | none => simp [hb] at hin
  | some b => exact ⟨b, rfl, by simpa [hb] using hin⟩

/-- the empty directory satisfies the registration invariant -/
theorem C10_rinv_empty : RInv Dir.empty := by
  intro p hp
  simp [Dir.empty, FileSt.mayPresent] at hp

/-- non-vacuity: register, create, write, terminate, sync, delete, sync, forget -/
example : RegDisc Dir.empty
    [.atomicWrite MANAGED ⟨0, 0, 5, [0, 2]⟩, .create 2, .write 2 4, .terminate 2, .syncDir, .delete 2, .syncDir,
     .atomicWrite MANAGED ⟨0, 7, 3, [0]⟩] := by
  simp [RegDisc, RegOK, Dir.step, Dir.empty, visibleManaged, AtomSt.visible, upd, FileSt.mayPresent, FileSt.sync, MANAGED]
  intro p
  by_cases h : p = 2 <;> simp [h]

/-- the order of the seeded change `create; register` breaks R1 at the create -/
example : ¬ RegDisc Dir.empty [.create 2, .atomicWrite MANAGED ⟨0, 0, 5, [0, 2]⟩] := by
  simp [RegDisc, RegOK, Dir.empty, visibleManaged, AtomSt.visible]

/-- forgetting a path before its unlink is durable breaks R2 -/
example : ¬ RegDisc Dir.empty
    [.atomicWrite MANAGED ⟨0, 0, 5, [0, 2]⟩, .create 2, .syncDir, .delete 2, .atomicWrite MANAGED ⟨0, 7, 3, [0]⟩] := by
  simp [RegDisc, RegOK, Dir.step, Dir.empty, visibleManaged, AtomSt.visible, upd, FileSt.mayPresent, FileSt.sync, MANAGED]
  exact ⟨2, by decide, by decide⟩

/-! ## non-vacuity -/

/-- a state with a committed segment (files 10,11), a segment being written (20,21; 21 not yet
created), leftovers of a rollback (30) and a GC that interleaves with the worker -/
def demo : St :=
  { dir := [0, 10, 11, 20, 30], managed := [0, 10, 11, 20, 30], live := [[10, 11], [20, 21]],
    pending := none, deleted := [], failed := [] }

def demoEvs : List Ev :=
  [.gcCompute, .openWrite 21, .track [40, 41], .gcDelete 30 true, .openWrite 40, .drop 2, .gcFinish,
   .gcCompute, .gcDelete 20 true, .gcDelete 21 false, .gcFinish]

example : GInv demo := C10_ginv_of_idle demo rfl
example : Disc demo demoEvs = true := by decide
example : (demo.run demoEvs).failed = [21] ∧ 30 ∉ (demo.run demoEvs).dir ∧ 10 ∈ (demo.run demoEvs).dir := by decide
example : ∀ p ∈ demo.dir, p ∈ demo.managed := by decide
example : (fullGC demo []).dir = [0, 10, 11, 20] := by decide
example : (fullGC demo [30]).managed = [0, 10, 11, 20, 30] ∧ (fullGC demo [30]).failed = [30] := by decide
/-- the big-step collection and its small-step version agree on the demo state -/
example : (demo.run (fullGCSteps demo [])).dir = (fullGC demo []).dir
    ∧ (demo.run (fullGCSteps demo [])).managed = (fullGC demo []).managed := by decide
/-- without the discipline safety fails: a meta that resurrects a file GC already selected -/
example : Disc demo [.gcCompute, .track [30], .gcDelete 30 true] = false := by decide

/-! ## fine-grained collection, loading reader, emptied segments (guards extracted from the source) -/

/-- the extracted orders satisfy the guards (a change of the order of these calls in
`garbage_collect`, `open_segment_readers` or `committed_segment_metas` breaks this theorem) -/
theorem C10_extracted_orders :
    gcLivingUnderLocks Gen.GC_STEP_ORDER = true ∧ gcSyncBeforeForget Gen.GC_STEP_ORDER = true ∧
    readerListsUnderLock Gen.READER_STEP_ORDER = true ∧
    dropsEmptyBeforeListing Gen.COMMITTED_METAS_CALLS = true := by decide

/-- an idle state (no collection in flight, no lock held, meta.json's files exist and are
protected by live metas) satisfies the fine-grained invariant -/
theorem C10_finv_idle (s : St) (mf : List Path) (hp : s.pending = none)
    (hm : ∀ p ∈ mf, p ∈ living s ∧ p ∈ s.dir) : FInv { base := s, metaFiles := mf } := by
  refine ⟨C10_ginv_of_idle s hp, ?_, hm, ?_, fun _ => rfl, fun h => by cases h⟩
  · intro L hL; cases hL
  · intro F hF; cases hF

/-- **atomicity of the living set is derived, not assumed**: in the fine-grained model —
`garbage_collect` as separate steps (locks, living callback, selection, unlock, deletes, finish),
a reader as separate steps (lock, read meta.json, open files, unlock), the lock semantics, and
writer threads that track / drop metas, create files and publish meta.json — with the step
orders EXTRACTED from the source, every interleaving that respects the writer discipline is
safe: no delete hits a needed file and every file a loading reader opens exists. -/
theorem C10_gc_and_reader_safe (s : FSt) (h : FInv s) (evs : List FEv)
    (hd : FDisc (gcLivingUnderLocks Gen.GC_STEP_ORDER) (readerListsUnderLock Gen.READER_STEP_ORDER) s evs = true) :
    FSafe s evs := by
  have h1 : gcLivingUnderLocks Gen.GC_STEP_ORDER = true := C10_extracted_orders.1
  have h2 : readerListsUnderLock Gen.READER_STEP_ORDER = true := C10_extracted_orders.2.2.1
  rw [h1, h2] at hd
  exact h.safe evs hd

/-- state of the examples: committed segment {10,11} listed in meta.json, a worker's segment
{20,21} (21 not yet created), leftovers 30 -/
def fdemo : FSt :=
  { base := { dir := [0, 10, 11, 20, 30], managed := [0, 10, 11, 20, 30], live := [[10, 11], [20, 21]],
              pending := none, deleted := [], failed := [] },
    metaFiles := [10, 11] }

example : FInv fdemo := C10_finv_idle _ _ rfl (by decide)
/-- non-vacuity: a collection, a worker, a commit that replaces the segment and a reader, interleaved -/
example : FDisc true true fdemo
    [.gLock, .gLiving, .track [40, 41], .gSelect, .gUnlock, .openWrite 21, .openWrite 40, .rLock, .rList,
     .gDelete 30 true, .rOpen 10, .openWrite 41, .publish [40, 41], .drop 1, .rOpen 11, .rUnlock, .gFinish,
     .gLock, .gLiving, .gSelect, .gUnlock, .gDelete 10 true, .gDelete 11 true, .gFinish] = true := by decide

/-- `C10_living_before_lock_counterexample`: if the living callback ran BEFORE the locks
(`gcUnder = false`), the discipline admits: living computed; a worker starts a new segment and
creates its first file; locks, selection, unlock; the delete of that file — a needed file. -/
theorem C10_living_before_lock_counterexample :
    let evs : List FEv := [.gLiving, .track [50, 51], .openWrite 50, .gLock, .gSelect, .gUnlock]
    FDisc false true fdemo (evs ++ [.gDelete 50 true]) = true ∧ 50 ∈ needed (fdemo.run evs).base := by
  decide

/-- `C10_reader_lists_before_lock_counterexample`: if the reader read meta.json BEFORE taking
META_LOCK (`rdUnder = false`), the discipline admits: reader lists {10,11}; a commit publishes a
new segment and drops the old one; a collection deletes 10; the reader locks and opens 10 — gone. -/
theorem C10_reader_lists_before_lock_counterexample :
    let evs : List FEv := [.rList, .track [40], .openWrite 40, .publish [40], .drop 1,
      .gLock, .gLiving, .gSelect, .gUnlock, .gDelete 10 true, .rLock]
    FDisc true false fdemo (evs ++ [.rOpen 10]) = true ∧ 10 ∉ (fdemo.run evs).base.dir := by
  decide

/-- **a commit leaves nothing but what meta.json lists** (emptied segments): with
`committed_segment_metas` dropping the emptied entries from the committed register before it
lists the metas (extracted order), the live metas after the commit are exactly the listed ones,
so after one complete collection every remaining file is `meta.json` or a file of a segment that
meta.json lists. -/
theorem C10_commit_drops_emptied_segments (s : St) (reg : List SegEntry)
    (hreg : ∀ p ∈ s.dir, p ∈ s.managed)
    (hlive : s.live = (committedMetas (dropsEmptyBeforeListing Gen.COMMITTED_METAS_CALLS) reg).1.map SegEntry.files) :
    ∀ p ∈ (fullGC s []).dir, p = META ∨
      ∃ e ∈ (committedMetas (dropsEmptyBeforeListing Gen.COMMITTED_METAS_CALLS) reg).2, p ∈ e.files := by
  have hg : dropsEmptyBeforeListing Gen.COMMITTED_METAS_CALLS = true := C10_extracted_orders.2.2.2
  rw [hg] at hlive ⊢
  intro p hp
  have hl := C10_no_orphans_quiescent s hreg p hp
  simp only [living, List.mem_cons, List.mem_flatten] at hl
  rcases hl with h0 | ⟨l, hl, hpl⟩
  · exact Or.inl h0
  · right
    rw [hlive] at hl
    simp only [committedMetas, if_true, List.mem_map] at hl
    obtain ⟨e, he, rfl⟩ := hl
    exact ⟨e, by simpa [committedMetas] using he, hpl⟩

/-- without the drop (`dropEmpty = false`) the files of a fully deleted segment survive the
commit's collection although meta.json does not list the segment -/
theorem C10_emptied_segment_counterexample :
    let reg : List SegEntry := [⟨[10, 11], 3⟩, ⟨[20, 21], 0⟩]
    let s : St := { dir := [0, 10, 11, 20, 21], managed := [0, 10, 11, 20, 21],
                    live := (committedMetas false reg).1.map SegEntry.files, pending := none, deleted := [], failed := [] }
    20 ∈ (fullGC s []).dir ∧ ∀ e ∈ (committedMetas false reg).2, 20 ∉ e.files := by
  decide

example : (committedMetas true [⟨[10, 11], 3⟩, ⟨[20, 21], 0⟩]).1 = [⟨[10, 11], 3⟩] := by decide

/-- **after a crash, lifted**: the side condition of `C10_after_crash_partial` ("every existing
file is listed in the image's .managed.json") is no longer assumed but derived. For every
storage trace from the empty directory that respects R1–R3 (decided on the real log on every
run), every prefix and every crash image in which the newest `.managed.json` survived (and which
lists `meta.json`, as `Index::create` makes it do: hypothesis `hmeta`), recovery followed by one complete
collection leaves only `meta.json` and files of the recovered commit.
What remains false is the same statement for images with an OLDER `.managed.json`
(`C10_managed_rename_counterexample`, finding S2). -/
theorem C10_after_crash_registered (t : List Op) (hd : RegDisc Dir.empty t) (k : Nat) (img : LImage)
    (hn : (img.files.map Prod.fst).Nodup)
    (hi : CrashImage (Dir.empty.run (t.take k)) img.toImage)
    (hm : lookupD img.atoms MANAGED = ((Dir.empty.run (t.take k)).atom MANAGED).visible)
    (hmeta : ∃ b, lookupD img.atoms MANAGED = some b ∧ META ∈ b.refs) :
    ∀ p ∈ (fullGC (ofImage img) []).dir, p ∈ living (ofImage img) := by
  apply C10_after_crash_partial
  intro p hp
  simp only [ofImage, List.mem_append, List.mem_filterMap] at hp
  rcases hp with ⟨e, he, hpe⟩ | ⟨e, he, hpe⟩
  · -- a regular file of the image
    obtain ⟨q, v⟩ := e
    cases v with
    | none => simp at hpe
    | some w =>
      simp only [Option.map_some, Option.some.injEq] at hpe
      subst hpe
      have hl : img.toImage.file q = some w := lookupD_of_mem_nodup img.files hn q (some w) he
      obtain ⟨b, hb, hq⟩ := C10_existing_files_are_managed Dir.empty C10_rinv_empty t hd k img.toImage hi hm q
        (by rw [hl]; simp)
      have hb' : lookupD img.atoms MANAGED = some b := hb
      simp only [ofImage, hb']
      exact hq
  · -- meta.json itself
    obtain ⟨q, v⟩ := e
    cases v with
    | none => simp at hpe
    | some w =>
      by_cases hq : q = META
      · simp only [hq, if_true, Option.some.injEq] at hpe
        subst hpe
        obtain ⟨b, hb, hmb⟩ := hmeta
        simp only [ofImage, hb]
        exact hmb
      · simp [hq] at hpe

/-- a log in which file 2 is registered, created, written; then the crash -/
def regTrace : List Op :=
  [ .atomicWrite MANAGED ⟨0, 0, 14, [0]⟩, .syncDir, .syncDir, .atomicWrite META ⟨0, 1, 90, []⟩, .syncDir,
    .atomicWrite MANAGED ⟨0, 2, 30, [0, 2]⟩, .create 2, .write 2 5 ]

/-- non-vacuity of `C10_after_crash_registered`: the image "everything applied" of `regTrace` -/
example : ∀ p ∈ (fullGC (ofImage (Dir.empty.run regTrace).allApplied) []).dir,
    p ∈ living (ofImage (Dir.empty.run regTrace).allApplied) := by
  have hd : RegDisc Dir.empty regTrace := by
    simp [regTrace, RegDisc, RegOK, Dir.step, Dir.empty, visibleManaged, AtomSt.visible, AtomSt.sync, upd,
      FileSt.mayPresent, FileSt.sync, MANAGED, META]
  have hi := quickImages_sound (Dir.empty.run regTrace) (cover_empty.run regTrace)
    ⟨0, 0, 0, (Dir.empty.run regTrace).allApplied⟩ (by simp [quickImages])
  exact C10_after_crash_registered regTrace hd regTrace.length _ (by decide)
    (by simpa using hi) (by decide) ⟨⟨0, 2, 30, [0, 2]⟩, by decide, by decide⟩

/-- **the small-step collection refines the big-step one**: from every idle state, running
`gcCompute`, one `gcDelete` per selected path (with the given failures) and `gcFinish` ends with
the same directory and the same managed set as `fullGC` (as sets), no collection in flight. So
the quiescent theorems stated on `fullGC` hold for the event model `C10_gc_safe` speaks about. -/
theorem C10_small_step_refines_fullGC (s : St) (fails : List Path) :
    let r := s.run (fullGCSteps s fails)
    (∀ p, p ∈ r.dir ↔ p ∈ (fullGC s fails).dir) ∧ (∀ p, p ∈ r.managed ↔ p ∈ (fullGC s fails).managed) ∧
    r.pending = none := by
  intro r
  let T := s.managed.filter (fun p => !(living s).contains p)
  let s1 := s.step .gcCompute
  have h1 : LoopInv s1 T fails [] s1 := by
    refine ⟨?_, rfl, rfl, ?_, ?_⟩
    · simp [s1, St.step, T]
    · intro p; simp
    · intro p; simp [s1, St.step]
  have hD : ∀ q ∈ (dedup T), q ∈ T := fun q hq => (mem_dedup T q).mp hq
  have h2 := LoopInv.run (s0 := s1) (T := T) (fails := fails) (dedup T) hD (nodup_dedup T) [] (by simp) s1 h1
  simp only [List.nil_append] at h2
  have hr : r = ((s1.run ((dedup T).map (fun p => Ev.gcDelete p (!fails.contains p)))).step .gcFinish) := by
    simp [r, fullGCSteps, St.run, List.foldl_append, s1, T]
  have hpend : (s1.run ((dedup T).map (fun p => Ev.gcDelete p (!fails.contains p)))).pending = some [] := by
    rw [h2.pending]
    congr 1
    apply List.filter_eq_nil_iff.mpr
    intro p hp'
    simp [(mem_dedup T p).mpr hp']
  rw [hr]
  generalize s1.run ((dedup T).map (fun p => Ev.gcDelete p (!fails.contains p))) = st2 at h2 hpend
  refine ⟨?_, ?_, ?_⟩
  · intro p
    simp only [St.step, hpend]
    rw [h2.dir p, mem_fullGC_dir, mem_fullGC_deleted]
    simp only [s1, St.step, T, List.mem_filter, mem_dedup, Bool.not_eq_true', List.contains_eq_mem,
      decide_eq_false_iff_not]
    constructor
    · rintro ⟨h3, h4⟩
      exact ⟨h3, fun ⟨hm, hl, hf⟩ => h4 ⟨⟨hm, hl⟩, ⟨hm, hl⟩, hf⟩⟩
    · rintro ⟨h3, h4⟩
      exact ⟨h3, fun ⟨⟨hm, hl⟩, _, hf⟩ => h4 ⟨hm, hl, hf⟩⟩
  · intro p
    simp only [St.step, hpend, List.mem_filter, Bool.not_eq_true', List.contains_eq_mem, decide_eq_false_iff_not]
    rw [h2.managed, h2.deleted p, mem_fullGC_managed, mem_fullGC_deleted]
    simp only [s1, St.step, T, List.mem_filter, mem_dedup, Bool.not_eq_true', List.contains_eq_mem,
      decide_eq_false_iff_not]
    constructor
    · rintro ⟨h3, h4⟩
      exact ⟨h3, fun ⟨hm, hl, hf⟩ => h4 ⟨⟨hm, hl⟩, ⟨hm, hl⟩, hf⟩⟩
    · rintro ⟨h3, h4⟩
      exact ⟨h3, fun ⟨⟨hm, hl⟩, _, hf⟩ => h4 ⟨hm, hl, hf⟩⟩
  · simp only [St.step, hpend]


example : (demo.run (fullGCSteps demo [30])).failed = [30] := by decide

/-- **registration-before-create is a property of the code shape**: `ManagedDirectory::open_write`
with its two steps in the EXTRACTED order (register, then create) satisfies R1–R3 in every state,
for every path and every new managed list that contains the path and everything that may still
be on disk (the in-memory set only grows here). Together with
`C10_existing_files_are_managed` this derives rule R1 from the source instead of observing it. -/
theorem C10_open_write_registers_first (s : Dir) (mg : Payload) (p : Path) (hp : p ∈ mg.refs)
    (hall : ∀ q, (s.file q).mayPresent = true → q ∈ mg.refs) :
    RegDisc s (managedOpenWriteOps Gen.MANAGED_OPEN_WRITE_STEPS mg p) := by
  have ho : Gen.MANAGED_OPEN_WRITE_STEPS = [1, 2] := by decide
  rw [ho]
  refine ⟨fun _ => hall, ?_, trivial⟩
  show p ∈ visibleManaged (s.step (.atomicWrite MANAGED mg))
  simp [visibleManaged, Dir.step, AtomSt.visible, hp]

/-- the swapped order (create, then register) breaks R1 in the empty directory -/
example : ¬ RegDisc Dir.empty (managedOpenWriteOps [2, 1] ⟨0, 0, 5, [0, 2]⟩ 2) := by
  simp [managedOpenWriteOps, RegDisc, RegOK, Dir.empty, visibleManaged, AtomSt.visible]

example : RegDisc Dir.empty (managedOpenWriteOps Gen.MANAGED_OPEN_WRITE_STEPS ⟨0, 0, 5, [0, 2]⟩ 2) :=
  C10_open_write_registers_first _ _ _ (by decide) (by intro q h; simp [Dir.empty, FileSt.mayPresent] at h)

/-- the three ways a `SegmentMeta` object comes to life in the code
(1 `SegmentMetaInventory::new_segment_meta`: a fresh segment id, none of its files exists yet;
 2 `with_max_doc` / `with_delete_meta` (`TrackedObject::map`): derived from a live meta, same
   segment files plus possibly a delete-file name that was never created;
 3 `IndexMeta::deserialize` of the current meta.json: files of the committed segments) -/
inductive MetaSource (s : FSt) : List Path → Prop
  | fresh (fs : List Path) (h : ∀ p ∈ fs, s.base.managed.contains p = false) : MetaSource s fs
  | derived (fs l : List Path) (hl : l ∈ s.base.live)
      (h : ∀ p ∈ fs, p ∈ l ∨ s.base.managed.contains p = false) : MetaSource s fs
  | deserialized (fs : List Path) (h : ∀ p ∈ fs, p ∈ s.metaFiles ∨ s.base.managed.contains p = false) :
      MetaSource s fs

/-- **no resurrection is derived for the code's meta sources**: in every state satisfying the
fine-grained invariant, a meta that comes to life in one of the three ways above satisfies the
no-resurrection condition of the discipline — it is not an extra assumption for them.
(That these are the only places a tracked meta is constructed is extracted:
`C10_meta_sources_extracted`.) -/
theorem C10_no_resurrection_for_code_sources (s : FSt) (h : FInv s) (fs : List Path)
    (hs : MetaSource s fs) (g r : Bool) : okF g r s (.track fs) = true := by
  simp only [okF, okEv, List.all_eq_true, Bool.or_eq_true, Bool.not_eq_true']
  intro p hp
  cases hs with
  | fresh hf => exact Or.inl (hf p hp)
  | derived l hl hd =>
    rcases hd p hp with hpl | hm
    · right
      simp only [living, List.contains_eq_mem, List.mem_cons, List.mem_flatten, decide_eq_true_eq]
      exact Or.inr ⟨l, hl, hpl⟩
    · exact Or.inl hm
  | deserialized hd =>
    rcases hd p hp with hpm | hm
    · right
      simpa using (h.metaLive p hpm).1
    · exact Or.inl hm

example : MetaSource fdemo [10, 11, 12] := .derived _ [10, 11] (by decide) (by decide)
example : MetaSource fdemo [10, 11] := .deserialized _ (by decide)
example : MetaSource fdemo [60, 61] := .fresh _ (by decide)

/-- the source has exactly the constructor sites the three cases cover -/
theorem C10_meta_sources_extracted : Gen.META_SOURCE_SITES = [2, 2] := by decide

/-! ## where files are opened for writing, where metas are made (extracted) -/

/-- what the extractor found about where files are opened for writing and where metas are made:
every non-test `open_write` outside `src/directory` is `Segment::open_write(<component>)` with a
component of the iterator (which opens `self.meta.relative_path(component)` of the meta the
`Segment` holds), and every `new_segment_meta` call is of a classified kind -/
theorem C10_open_write_sites_extracted :
    Gen.OPEN_WRITE_OTHER_SITES = 0 ∧ Gen.SEGMENT_OPEN_WRITE_SITES.all (fun c => decide (c < Gen.NUM_COMPONENTS)) = true ∧
    Gen.NEW_SEGMENT_META_CALLS.all (fun k => k == 1 || k == 2) = true := by decide

/-- every file a `Segment` opens for writing is listed by the meta it holds (the temp store only
while it is tracked: it is opened once, right after `new_segment_meta`, where the flag is true) -/
theorem C10_segment_open_write_is_listed (m : SegMetaM) (c : Nat) (hc : c < Gen.NUM_COMPONENTS)
    (ht : c = Gen.TEMPSTORE_INDEX → m.includeTemp = true) : relPathM m c ∈ listFilesM m := by
  unfold listFilesM
  apply List.mem_map.mpr
  refine ⟨c, List.mem_filter.mpr ⟨List.mem_range.mpr hc, ?_⟩, rfl⟩
  by_cases h : c = Gen.TEMPSTORE_INDEX
  · simp [ht h]
  · simp [h]

/-- **registration-before-create at the event level, from the code shape**: an `openWrite` issued
through a `Segment` whose meta is alive (its file list is in the inventory) satisfies the
discipline of `C10_gc_safe` — whatever names are interned how. With
`C10_open_write_sites_extracted` (there is no other way to open a file for writing) the
assumption "a file is opened for writing only while a live meta lists it" is derived. -/
theorem C10_open_write_through_segment_ok (s : St) (ι : Nat × Nat × Nat → Path) (m : SegMetaM) (c : Nat)
    (hc : c < Gen.NUM_COMPONENTS) (ht : c = Gen.TEMPSTORE_INDEX → m.includeTemp = true)
    (hlive : (listFilesM m).map ι ∈ s.live) : okEv s (.openWrite (ι (relPathM m c))) = true := by
  simp only [okEv, living, List.contains_eq_mem, List.mem_cons, List.mem_flatten, decide_eq_true_eq]
  exact Or.inr ⟨_, hlive, List.mem_map.mpr ⟨_, C10_segment_open_write_is_listed m c hc ht, rfl⟩⟩

example : relPathM ⟨3, 9, false⟩ 7 ∈ listFilesM ⟨3, 9, false⟩ :=
  C10_segment_open_write_is_listed _ 7 (by decide) (by decide)
example : relPathM ⟨3, 9, false⟩ Gen.TEMPSTORE_INDEX ∉ listFilesM ⟨3, 9, false⟩ := by decide
example : Gen.SEGMENT_OPEN_WRITE_SITES.length = 9 := by decide

/-- the image of finding S2 is a crash image in the sense of the fault model -/
theorem C10_managed_rename_counterexample_is_crash_image :
    CrashImage (Dir.empty.run s2Trace)
      (LImage.toImage { files := [(2, some (5, false))],
                        atoms := [(META, some ⟨0, 1, 90, []⟩), (MANAGED, some ⟨0, 0, 14, [0]⟩)] }) :=
  crashImages_sound _ (cover_empty.run _) _ C10_managed_rename_counterexample.1

/-- **a collection spares what the newest meta.json references** (link between the GC model and
the commit protocol): whatever `fullGC` deletes (with any failing deletes) is not living; so if
the files of the committed metas are living — the segment manager holds those metas — no deleted
path is `meta.json` or referenced by that meta: the side condition `WOk (.gc …)` / `hdels` of the
C01 writer events is a consequence of the GC model, not an extra assumption. -/
theorem C10_collection_spares_committed (g : St) (fails : List Path) (refs : List Path)
    (hlive : ∀ p ∈ refs, p ∈ living g) :
    ∀ p ∈ (fullGC g fails).deleted, p ≠ META ∧ p ∉ refs := by
  intro p hp
  have hnl := ((mem_fullGC_deleted g fails p).mp hp).2.1
  refine ⟨?_, fun hr => hnl (hlive p hr)⟩
  intro e
  apply hnl
  simp [living, e]

/-- the collection event of the writer model whose deletes are what the GC model selects -/
theorem C10_gc_event_ok (s : PState) (g : St) (fails : List Path) (mg : Payload)
    (hlive : ∀ m, metaCands s = [m] → ∀ p ∈ m.refs, p ∈ living g) :
    WOk s (.gc mg (fullGC g fails).deleted) := by
  intro m hm
  exact C10_collection_spares_committed g fails m.refs (hlive m hm)

example : ∀ p ∈ (fullGC demo []).deleted, p ≠ META ∧ p ∉ [10, 11] :=
  C10_collection_spares_committed demo [] [10, 11] (by decide)

/-- `ManagedDirectory::atomic_write(meta.json)` in the EXTRACTED order (register, then write)
satisfies R4 whenever the new managed list contains `meta.json` -/
theorem C10_atomic_write_registers_first (s : Dir) (mg b : Payload) (hm : META ∈ mg.refs) :
    MetaRegDisc s (managedAtomicWriteOps Gen.MANAGED_ATOMIC_WRITE_STEPS mg META b) := by
  have ho : Gen.MANAGED_ATOMIC_WRITE_STEPS = [1, 2] := by decide
  rw [ho]
  have hMM : MANAGED ≠ META := by decide
  refine ⟨⟨fun e => absurd e hMM, fun _ _ => hm⟩, ⟨fun _ => ?_, fun e => absurd e.symm hMM⟩, trivial⟩
  simp [visibleManaged, Dir.step, AtomSt.visible, hm]

/-- **`hmeta` derived**: along every trace from the empty directory that respects R4, in every
crash image whose `.managed.json` is the newest one and which contains a `meta.json`, that
`.managed.json` exists and lists `meta.json` — the last hypothesis of
`C10_after_crash_registered` that was assumed. -/
theorem C10_meta_json_is_managed (t : List Op) (hd : MetaRegDisc Dir.empty t) (k : Nat) (img : Image)
    (hi : CrashImage (Dir.empty.run (t.take k)) img)
    (hm : img.atom MANAGED = ((Dir.empty.run (t.take k)).atom MANAGED).visible)
    (hx : img.atom META ≠ none) : ∃ b, img.atom MANAGED = some b ∧ META ∈ b.refs := by
  have h0 : MInv Dir.empty := by
    intro h; simp [Dir.empty] at h
  have hinv := h0.run _ (metaRegDisc_take _ t k hd)
  have hopt := hi.2 META
  have hex : ((Dir.empty.run (t.take k)).atom META).dur ≠ none ∨ ((Dir.empty.run (t.take k)).atom META).pend ≠ [] := by
    unfold AtomSt.options at hopt
    rcases List.mem_cons.mp hopt with e | e
    · left; rw [← e]; exact hx
    · right
      intro hp
      rw [hp] at e
      simp at e
  have hin := hinv hex
  unfold visibleManaged at hin
  rw [← hm] at hin
  cases hb : img.atom MANAGED with
  | none => simp [hb] at hin
  | some b => exact ⟨b, rfl, by simpa [hb] using hin⟩

example : MetaRegDisc Dir.empty
    [.atomicWrite MANAGED ⟨0, 0, 14, [0]⟩, .syncDir, .atomicWrite META ⟨0, 1, 90, []⟩, .syncDir,
     .atomicWrite MANAGED ⟨0, 2, 30, [0, 2]⟩, .create 2] := by
  simp [MetaRegDisc, MetaRegOK, Dir.step, Dir.empty, visibleManaged, AtomSt.visible, AtomSt.sync, upd, MANAGED, META]

example : ¬ MetaRegDisc Dir.empty (managedAtomicWriteOps [2, 1] ⟨0, 0, 14, [0]⟩ META ⟨0, 1, 90, []⟩) := by
  simp [managedAtomicWriteOps, MetaRegDisc, MetaRegOK, Dir.empty, visibleManaged, AtomSt.visible, META]


/-- **after a crash, no hypothesis left but the disciplines**: for every trace from the empty
directory that respects R1–R4 (all decided on the real log, and derived for
`ManagedDirectory::open_write` / `atomic_write` from their extracted step order), every prefix and
every crash image that still has a `meta.json` and whose `.managed.json` is the newest one,
recovery followed by one complete collection leaves no orphan. -/
theorem C10_after_crash_no_orphans (t : List Op) (hd : RegDisc Dir.empty t) (hd4 : MetaRegDisc Dir.empty t)
    (k : Nat) (img : LImage) (hn : (img.files.map Prod.fst).Nodup)
    (hi : CrashImage (Dir.empty.run (t.take k)) img.toImage)
    (hm : lookupD img.atoms MANAGED = ((Dir.empty.run (t.take k)).atom MANAGED).visible)
    (hx : lookupD img.atoms META ≠ none) :
    ∀ p ∈ (fullGC (ofImage img) []).dir, p ∈ living (ofImage img) :=
  C10_after_crash_registered t hd k img hn hi hm (C10_meta_json_is_managed t hd4 k img.toImage hi hm hx)

/-- no orphans at quiescence, for the event-level collection: after `gcCompute`, one successful
`gcDelete` per selected path and `gcFinish`, every remaining file is living -/
theorem C10_no_orphans_small_step (s : St) (hreg : ∀ p ∈ s.dir, p ∈ s.managed) :
    ∀ p ∈ (s.run (fullGCSteps s [])).dir, p ∈ living s := by
  intro p hp
  exact C10_no_orphans_quiescent s hreg p (((C10_small_step_refines_fullGC s []).1 p).mp hp)

example : ∀ p ∈ (demo.run (fullGCSteps demo [])).dir, p ∈ living demo :=
  C10_no_orphans_small_step demo (by decide)

/-!
## OPEN (not proved; tied to the code by the run only)

* OPEN: the lock semantics used by `okF` (RwLock of `MetaInformation`, META_LOCK as an exclusive
  file lock) and the census inventory ("lists exactly the live tracked objects") are modelled,
  not verified.
* OPEN: that a `Segment` keeps its `SegmentMeta` alive while it writes (hypothesis `hlive` of
  `C10_open_write_through_segment_ok`) rests on Rust ownership; which `MetaSource` case each
  `tracked.map` / deserialize site falls in is by reading (the sites and the kinds of the
  `new_segment_meta` calls are extracted).
* OPEN (false as stated, see `C10_managed_rename_counterexample`): the after-crash statement for
  crash images with an OLDER `.managed.json` — finding S2.
* OPEN: overlapping collections (two `garbage_collect` in their delete phases at once) are
  outside `FSt` (one selection in flight); the harness exercises them.
-/

end TantivyModel.C10
